import DAVerif.Proofs.MethodsAggOrder
import DAVerif.Proofs.MethodsFormatters
/-!
C05, aggregate formatters: the SQL text the code emits **now** for `count size mean any all any_value`
(`Generated/SqlFormatters.lean`, regenerated from `db_model.expr_to_sql` on every run), evaluated over the rows of a
group with `Sql3.evalSqlG`, against the hand-written SQL model `ThetaSqlX.agg` – for every group (list of cells).

A group is given by the cells of the argument column, one row per cell: `rowsOf c vs = vs.map (fun v => env [(c, v)])`.
-/
namespace DAVerif.C05A
open DAVerif DAVerif.Doc DAVerif.C05 DAVerif.Sql3

/-- the rows of a group whose argument column `c` holds the cells `vs` -/
def rowsOf (c : String) (vs : List Val) : List (String → Val) := vs.map (fun v => env [(c, v)])

/-- the argument of the (single) aggregate call of an aggregate formatter: `FN(e)` or `(FN(e) >= k)` -/
def aggArg : SqlExpr → SqlExpr
  | .call _ (.cons e .nil) => e
  | .paren (.cmp _ (.call _ (.cons e .nil)) _) => e
  | _ => .null

/-! ### SQL aggregates over lists of 0 / 1 -/

/-- TRUE as 1, FALSE as 0 -/
def b01 (b : Bool) : Val := if b then .num 1 else .num 0

theorem nonNulls_b01 (bs : List Bool) : nonNulls (bs.map b01) = bs.map b01 := by
  unfold nonNulls
  rw [List.filter_eq_self]
  intro a ha
  obtain ⟨b, _, rfl⟩ := List.mem_map.mp ha
  cases b <;> rfl

theorem bestBy_max_b01 : ∀ (b : Bool) (bs : List Bool),
    bestBy (fun a b => !Val.lt a b) ((b :: bs).map b01) = b01 ((b :: bs).any id)
  | b, [] => by cases b <;> rfl
  | b, c :: r => by
    have ih := bestBy_max_b01 c r
    show (let m := bestBy (fun a b => !Val.lt a b) ((c :: r).map b01); if (!Val.lt (b01 b) m) = true then b01 b else m) = _
    rw [ih]
    have e : (b :: c :: r).any id = (b || (c :: r).any id) := by simp
    rw [e]
    cases b <;> cases (c :: r).any id <;> decide +kernel

theorem bestBy_min_b01 : ∀ (b : Bool) (bs : List Bool),
    bestBy (fun a b => !Val.lt b a) ((b :: bs).map b01) = b01 ((b :: bs).all id)
  | b, [] => by cases b <;> rfl
  | b, c :: r => by
    have ih := bestBy_min_b01 c r
    show (let m := bestBy (fun a b => !Val.lt b a) ((c :: r).map b01); if (!Val.lt m (b01 b)) = true then b01 b else m) = _
    rw [ih]
    have e : (b :: c :: r).all id = (b && (c :: r).all id) := by simp
    rw [e]
    cases b <;> cases (c :: r).all id <;> decide +kernel

theorem ge_one_b01 (t : Bool) : cmp3 .ge (b01 t) (.num 1) = .bool t := by cases t <;> decide +kernel

theorem aggregate_MAX_b01 (bs : List Bool) :
    cmp3 .ge (aggregate "MAX" (bs.map b01)) (.num 1) = if bs.isEmpty then .null else .bool (bs.any id) := by
  cases bs with
  | nil => rfl
  | cons b r =>
    have : aggregate "MAX" ((b :: r).map b01) = bestBy (fun a b => !Val.lt a b) ((b :: r).map b01) := by
      unfold aggregate
      rw [nonNulls_b01]
      rfl
    rw [this, bestBy_max_b01, ge_one_b01]; rfl

theorem aggregate_MIN_b01 (bs : List Bool) :
    cmp3 .ge (aggregate "MIN" (bs.map b01)) (.num 1) = if bs.isEmpty then .null else .bool (bs.all id) := by
  cases bs with
  | nil => rfl
  | cons b r =>
    have : aggregate "MIN" ((b :: r).map b01) = bestBy (fun a b => !Val.lt b a) ((b :: r).map b01) := by
      unfold aggregate
      rw [nonNulls_b01]
      rfl
    rw [this, bestBy_min_b01, ge_one_b01]; rfl

theorem sumQ_b01 : ∀ (bs : List Bool), Sql3.sumQ ((bs.map b01).filterMap numOf) = ((bs.filter id).length : Rat)
  | [] => rfl
  | b :: r => by
    have ih := sumQ_b01 r
    cases b
    · show (0 : Rat) + Sql3.sumQ ((r.map b01).filterMap numOf) = _
      rw [ih, Rat.zero_add]; rfl
    · show (1 : Rat) + Sql3.sumQ ((r.map b01).filterMap numOf) = (((r.filter id).length + 1 : Nat) : Rat)
      rw [ih, Rat.natCast_add]
      grind

theorem aggregate_SUM_b01 (bs : List Bool) :
    aggregate "SUM" (bs.map b01) = if bs.isEmpty then .null else .num ((bs.filter id).length : Rat) := by
  cases bs with
  | nil => rfl
  | cons b r =>
    have : aggregate "SUM" ((b :: r).map b01) = .num (Sql3.sumQ (((b :: r).map b01).filterMap numOf)) := by
      unfold aggregate
      rw [nonNulls_b01]
      rfl
    rw [this, sumQ_b01]; rfl

/-! ### count:  SUM(CASE WHEN "x" IS NOT NULL THEN 1 ELSE 0 END) -/

theorem fmt_count_shape (d : String) (hd : Dialect d) (rows : List (String → Val)) :
    evalSqlG (Gen.formatter d "count") rows = aggregate "SUM" (rows.map (evalSql3 (aggArg (Gen.formatter d "count")))) := by
  rcases hd with rfl | rfl <;> rfl

theorem fmt_count_row (d : String) (hd : Dialect d) (v : Val) :
    evalSql3 (aggArg (Gen.formatter d "count")) (env [("x", v)]) = b01 (!v.isNull) := by
  rcases hd with rfl | rfl <;> cases v <;> rfl

theorem filter_not_isNull_length (vs : List Val) :
    ((vs.map (fun v => !v.isNull)).filter id).length = (Theta.nonNull vs).length := by
  induction vs with
  | nil => rfl
  | cons v r ih =>
    cases v with
    | null => exact ih
    | bool b => exact congrArg (· + 1) ih
    | num q => exact congrArg (· + 1) ih
    | str s => exact congrArg (· + 1) ih

theorem formatter_count (d : String) (hd : Dialect d) (vs : List Val) :
    evalSqlG (Gen.formatter d "count") (rowsOf "x" vs) = ThetaSqlX.agg "count" vs := by
  rw [fmt_count_shape d hd]
  unfold rowsOf
  rw [List.map_map]
  have : (evalSql3 (aggArg (Gen.formatter d "count")) ∘ fun v => env [("x", v)]) = (b01 ∘ fun v => !v.isNull) := by
    funext v; exact fmt_count_row d hd v
  rw [this, ← List.map_map, aggregate_SUM_b01, filter_not_isNull_length]
  show _ = (if vs.isEmpty then Val.null else Val.num (Theta.nonNull vs).length)
  cases vs <;> rfl

/-! ### size:  SUM(1) -/

theorem fmt_size_shape (d : String) (hd : Dialect d) (rows : List (String → Val)) :
    evalSqlG (Gen.formatter d "size") rows = aggregate "SUM" (rows.map (fun _ => b01 true)) := by
  rcases hd with rfl | rfl <;> rfl

/-- `SUM(1)` reads no column: any rows -/
theorem formatter_size (d : String) (hd : Dialect d) (rows : List (String → Val)) :
    evalSqlG (Gen.formatter d "size") rows = ThetaSqlX.agg "size" (rows.map (fun ρ => ρ "x")) := by
  rw [fmt_size_shape d hd]
  have e : rows.map (fun _ => b01 true) = (rows.map (fun _ => true)).map b01 := by rw [List.map_map]; rfl
  rw [e, aggregate_SUM_b01]
  show _ = (if (rows.map (fun ρ => ρ "x")).isEmpty then Val.null else Val.num (rows.map (fun ρ => ρ "x")).length)
  have hl : ∀ (rs : List (String → Val)), ((rs.map (fun _ => true)).filter id).length = rs.length := by
    intro rs
    induction rs with
    | nil => rfl
    | cons _ r ih => exact congrArg (· + 1) ih
  rw [hl]
  cases rows <;> simp

/-! ### mean:  AVG("x") -/

theorem fmt_mean_shape (d : String) (hd : Dialect d) (rows : List (String → Val)) :
    evalSqlG (Gen.formatter d "mean") rows = aggregate "AVG" (rows.map (evalSql3 (aggArg (Gen.formatter d "mean")))) := by
  rcases hd with rfl | rfl <;> rfl

theorem fmt_mean_row (d : String) (hd : Dialect d) (v : Val) :
    evalSql3 (aggArg (Gen.formatter d "mean")) (env [("x", v)]) = v := by
  rcases hd with rfl | rfl <;> rfl

/-- no cell of the column is a string -/
def NoStr (vs : List Val) : Prop := ∀ v ∈ vs, ∀ s, v ≠ .str s

theorem nonNulls_numOf (vs : List Val) : (nonNulls vs).filterMap numOf = Theta.nums vs := by
  induction vs with
  | nil => rfl
  | cons v r ih =>
    cases v with
    | null => exact ih
    | bool b => exact congrArg ((if b then (1 : Rat) else 0) :: ·) ih
    | num q => exact congrArg (q :: ·) ih
    | str s => exact ih

theorem nonNulls_length (vs : List Val) (h : NoStr vs) : (nonNulls vs).length = (Theta.nums vs).length := by
  induction vs with
  | nil => rfl
  | cons v r ih =>
    have hr : NoStr r := fun w hw => h w (List.mem_cons_of_mem _ hw)
    cases v with
    | null => exact ih hr
    | bool b => exact congrArg (· + 1) (ih hr)
    | num q => exact congrArg (· + 1) (ih hr)
    | str s => exact absurd rfl (h (.str s) List.mem_cons_self s)

theorem sql_sumQ_eq (xs : List Rat) : Sql3.sumQ xs = Doc.sumQ xs := by
  induction xs with
  | nil => rfl
  | cons x r ih => show x + Sql3.sumQ r = x + Doc.sumQ r; rw [ih]

theorem formatter_mean (d : String) (hd : Dialect d) (vs : List Val) (hns : NoStr vs) :
    evalSqlG (Gen.formatter d "mean") (rowsOf "x" vs) = ThetaSqlX.agg "mean" vs := by
  rw [fmt_mean_shape d hd]
  unfold rowsOf
  rw [List.map_map]
  have : (evalSql3 (aggArg (Gen.formatter d "mean")) ∘ fun v => env [("x", v)]) = id := by
    funext v; exact fmt_mean_row d hd v
  rw [this, List.map_id]
  show _ = Theta.meanV vs
  unfold Theta.meanV aggregate
  have hl := nonNulls_length vs hns
  have hn := nonNulls_numOf vs
  by_cases he : (nonNulls vs).isEmpty = true
  · have : (Theta.nums vs).isEmpty = true := by
      rw [List.isEmpty_iff] at he ⊢
      rw [he] at hl
      exact List.length_eq_zero_iff.mp hl.symm
    simp only [he, this, if_true]
    rfl
  · have : ¬ (Theta.nums vs).isEmpty = true := by
      intro h
      rw [List.isEmpty_iff] at h
      rw [h] at hl
      exact he (List.isEmpty_iff.mpr (List.length_eq_zero_iff.mp hl))
    simp only [he, this]
    have e1 : ("AVG" == "SUM") = false := by decide
    have e2 : ("AVG" == "AVG") = true := by decide
    simp only [e1, e2, if_true, Bool.false_eq_true, if_false]
    rw [hn, hl, sql_sumQ_eq, sumR_eq_sumQ]

/-! ### any:  (MAX(CASE WHEN "a" THEN 1 ELSE 0 END) >= 1) -/

theorem fmt_any_shape (d : String) (hd : Dialect d) (rows : List (String → Val)) :
    evalSqlG (Gen.formatter d "any") rows =
      cmp3 .ge (aggregate "MAX" (rows.map (evalSql3 (aggArg (Gen.formatter d "any"))))) (.num 1) := by
  rcases hd with rfl | rfl <;> rfl

theorem fmt_any_row (d : String) (hd : Dialect d) (v : Val) :
    evalSql3 (aggArg (Gen.formatter d "any")) (env [("a", v)]) = b01 (Theta.truthy v == some true) := by
  rcases hd with rfl | rfl <;> cases v with
  | null => rfl
  | bool b => cases b <;> rfl
  | num q =>
    show (match truth (Val.num q) with | some true => _ | _ => _) = _
    show (match (some (q != 0) : Option Bool) with | some true => _ | _ => _) = b01 (some (q != 0) == some true)
    cases (q != 0) <;> rfl
  | str s => rfl

theorem any_nonNull (vs : List Val) :
    (Theta.nonNull vs).any (fun v => Theta.truthy v == some true) = vs.any (fun v => Theta.truthy v == some true) := by
  induction vs with
  | nil => rfl
  | cons v r ih =>
    cases v with
    | null => exact ih
    | bool b => exact congrArg ((Theta.truthy (Val.bool b) == some true) || ·) ih
    | num q => exact congrArg ((Theta.truthy (Val.num q) == some true) || ·) ih
    | str s => exact congrArg ((Theta.truthy (Val.str s) == some true) || ·) ih

/-- every group, every kind of cell -/
theorem formatter_any (d : String) (hd : Dialect d) (vs : List Val) :
    evalSqlG (Gen.formatter d "any") (rowsOf "a" vs) = ThetaSqlX.agg "any" vs := by
  rw [fmt_any_shape d hd]
  unfold rowsOf
  rw [List.map_map]
  have : (evalSql3 (aggArg (Gen.formatter d "any")) ∘ fun v => env [("a", v)]) =
      (b01 ∘ fun v => Theta.truthy v == some true) := by
    funext v; exact fmt_any_row d hd v
  rw [this, ← List.map_map, aggregate_MAX_b01]
  show _ = (if vs.isEmpty then Val.null else Val.bool ((Theta.nonNull vs).any (fun v => Theta.truthy v == some true)))
  rw [any_nonNull]
  cases vs with
  | nil => rfl
  | cons v r => simp [List.any_map]

/-! ### all:  (MIN(CASE WHEN "a" THEN 1 WHEN NOT "a" THEN 0 ELSE NULL END) >= 1) -/

theorem fmt_all_shape (d : String) (hd : Dialect d) (rows : List (String → Val)) :
    evalSqlG (Gen.formatter d "all") rows =
      cmp3 .ge (aggregate "MIN" (rows.map (evalSql3 (aggArg (Gen.formatter d "all"))))) (.num 1) := by
  rcases hd with rfl | rfl <;> rfl

/-- the CASE of `all` on one cell: NULL stays NULL (and is then skipped by `MIN`), a truth value becomes 1 / 0 -/
def all01 (v : Val) : Val := if v.isNull then .null else b01 (Theta.truthy v == some true)

theorem fmt_all_row (d : String) (hd : Dialect d) (v : Val) (hs : ∀ s, v ≠ .str s) :
    evalSql3 (aggArg (Gen.formatter d "all")) (env [("a", v)]) = all01 v := by
  rcases hd with rfl | rfl <;> cases v with
  | null => rfl
  | bool b => cases b <;> rfl
  | num q =>
    show (match truth (Val.num q) with
          | some true => _
          | _ => match truth (not3 (Val.num q)) with | some true => _ | _ => _) = _
    show (match (some (q != 0) : Option Bool) with
          | some true => _
          | _ => match truth (match (some (q != 0) : Option Bool) with | some b => Val.bool (!b) | none => Val.null) with
                 | some true => _ | _ => _) = b01 (some (q != 0) == some true)
    cases (q != 0) <;> rfl
  | str s => exact absurd rfl (hs s)

theorem nonNulls_cons_b01 (t : Bool) (ws : List Val) : nonNulls (b01 t :: ws) = b01 t :: nonNulls ws := by
  cases t <;> rfl

theorem nonNulls_all01 (vs : List Val) :
    nonNulls (vs.map all01) = ((Theta.nonNull vs).map (fun v => Theta.truthy v == some true)).map b01 := by
  induction vs with
  | nil => rfl
  | cons v r ih =>
    cases v with
    | null => exact ih
    | bool b =>
      show nonNulls (b01 (Theta.truthy (Val.bool b) == some true) :: r.map all01) = _
      rw [nonNulls_cons_b01, ih]; rfl
    | num q =>
      show nonNulls (b01 (Theta.truthy (Val.num q) == some true) :: r.map all01) = _
      rw [nonNulls_cons_b01, ih]; rfl
    | str s =>
      show nonNulls (b01 (Theta.truthy (Val.str s) == some true) :: r.map all01) = _
      rw [nonNulls_cons_b01, ih]; rfl

theorem aggregate_nonNulls (fn : String) (ws : List Val) : aggregate fn ws = aggregate fn (nonNulls ws) := by
  unfold aggregate
  have : nonNulls (nonNulls ws) = nonNulls ws := by unfold nonNulls; rw [List.filter_filter]; simp
  rw [this]

theorem formatter_all (d : String) (hd : Dialect d) (vs : List Val) (hns : NoStr vs) :
    evalSqlG (Gen.formatter d "all") (rowsOf "a" vs) = ThetaSqlX.agg "all" vs := by
  rw [fmt_all_shape d hd]
  unfold rowsOf
  rw [List.map_map]
  have : vs.map (evalSql3 (aggArg (Gen.formatter d "all")) ∘ fun v => env [("a", v)]) = vs.map all01 :=
    List.map_congr_left (fun v hv => fmt_all_row d hd v (hns v hv))
  rw [this, aggregate_nonNulls, nonNulls_all01, aggregate_MIN_b01]
  show _ = (if (Theta.nonNull vs).isEmpty then Val.null
            else Val.bool ((Theta.nonNull vs).all (fun v => Theta.truthy v == some true)))
  cases hn : Theta.nonNull vs with
  | nil => rfl
  | cons v r => simp [List.all_map]

/-! ### any_value:  MAX("x") -/

theorem lt_trans_all (a b c : Val) (h1 : Val.lt a b = true) (h2 : Val.lt b c = true) : Val.lt a c = true := by
  by_cases hab : kindOf a = kindOf b
  · by_cases hbc : kindOf b = kindOf c
    · exact lt_trans_kind a b c hab hbc h1 h2
    · cases a <;> cases b <;> simp [kindOf] at hab <;> cases c <;> simp [kindOf] at hbc <;>
        simp [Val.lt, Val.rank] at h1 h2 ⊢
  · cases a <;> cases b <;> simp [kindOf] at hab <;> cases c <;> simp [Val.lt, Val.rank] at h1 h2 ⊢

theorem lt_negtrans_all (a b c : Val) (h : Val.lt a c = true) : Val.lt a b = true ∨ Val.lt b c = true := by
  by_cases hab : kindOf a = kindOf b
  · by_cases hbc : kindOf b = kindOf c
    · exact lt_negtrans_kind a b c hab hbc h
    · cases a <;> cases b <;> simp [kindOf] at hab <;> cases c <;> simp [kindOf] at hbc <;>
        simp [Val.lt, Val.rank] at h ⊢
  · cases a <;> cases b <;> simp [kindOf] at hab <;> cases c <;> simp [Val.lt, Val.rank] at h ⊢

/-- `Val.lt` (bool < number < string < missing, and the order of each kind) is a strict linear order on all cells -/
theorem strict_max_all : StrictOn (fun _ => True) (fun v m => Val.lt m v) where
  trans a b c _ _ _ h1 h2 := lt_trans_all c b a h2 h1
  negtrans a b c _ _ _ h := by
    rcases lt_negtrans_all c b a h with h | h
    · exact Or.inr h
    · exact Or.inl h

theorem bestBy_eq_leastBy : ∀ (x : Val) (r : List Val),
    some (bestBy (fun a b => !Val.lt a b) (x :: r)) = leastBy (fun v m => Val.lt m v) (x :: r)
  | _, [] => rfl
  | x, y :: r => by
    have ih := bestBy_eq_leastBy y r
    show some (let m := bestBy (fun a b => !Val.lt a b) (y :: r); if (!Val.lt x m) = true then x else m) =
      (match leastBy (fun v m => Val.lt m v) (y :: r) with
       | none => some x
       | some m => some (if Val.lt x m then m else x))
    rw [← ih]
    simp only
    congr 1
    cases Val.lt x (bestBy (fun a b => !Val.lt a b) (y :: r)) <;> rfl

theorem fmt_any_value_shape (d : String) (hd : Dialect d) (rows : List (String → Val)) :
    evalSqlG (Gen.formatter d "any_value") rows =
      aggregate "MAX" (rows.map (evalSql3 (aggArg (Gen.formatter d "any_value")))) := by
  rcases hd with rfl | rfl <;> rfl

theorem fmt_any_value_row (d : String) (hd : Dialect d) (v : Val) :
    evalSql3 (aggArg (Gen.formatter d "any_value")) (env [("x", v)]) = v := by
  rcases hd with rfl | rfl <;> rfl

/-- every group, every kind of cell: `MAX("x")` is the left fold of the model -/
theorem formatter_any_value (d : String) (hd : Dialect d) (vs : List Val) :
    evalSqlG (Gen.formatter d "any_value") (rowsOf "x" vs) = ThetaSqlX.agg "any_value" vs := by
  rw [fmt_any_value_shape d hd]
  unfold rowsOf
  rw [List.map_map]
  have : (evalSql3 (aggArg (Gen.formatter d "any_value")) ∘ fun v => env [("x", v)]) = id := by
    funext v; exact fmt_any_value_row d hd v
  rw [this, List.map_id]
  show _ = Theta.maxV vs
  unfold Theta.maxV
  have hnn : nonNulls vs = Theta.nonNull vs := rfl
  cases hn : Theta.nonNull vs with
  | nil =>
    unfold aggregate; rw [hnn, hn]; rfl
  | cons x r =>
    have : aggregate "MAX" vs = bestBy (fun a b => !Val.lt a b) (x :: r) := by
      unfold aggregate; rw [hnn, hn]; rfl
    rw [this]
    apply Option.some.inj
    rw [bestBy_eq_leastBy, leastBy_eq_foldl strict_max_all r x trivial (fun _ _ => trivial)]
    rfl

end DAVerif.C05A
