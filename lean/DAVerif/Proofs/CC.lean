import DAVerif.Core.CC
import DAVerif.Spec.Conn
/-!
Helper lemmas for C23 (`Props/C23.lean`): dictionary / set primitives of the model, closure lemmas for
`Conn`, the loop invariant `Inv` and its preservation by `step`.
-/
namespace DAVerif.CC
open DAVerif.CCSpec

/-! ### dict and set primitives -/
section prim
variable {V β : Type} [DecidableEq V]

theorem dictGet_dictSet (d : List (V × β)) (k : V) (v : β) (k' : V) :
    dictGet (dictSet d k v) k' = if k = k' then some v else dictGet d k' := by
  induction d with
  | nil => simp [dictSet, dictGet]
  | cons p d ih =>
    obtain ⟨a, b⟩ := p
    simp only [dictSet]
    by_cases h : a = k
    · subst h
      by_cases h' : a = k' <;> simp [dictGet, h']
    · by_cases h' : a = k'
      · subst h'
        have : ¬ k = a := fun e => h e.symm
        simp [dictGet, h, this]
      · simp [dictGet, h, h', ih]

theorem dictGet_repoint (comps : List (V × Handle)) (items : List V) (hm : Handle) (k : V) :
    dictGet (repoint comps items hm) k = if k ∈ items then some hm else dictGet comps k := by
  unfold repoint
  induction items generalizing comps with
  | nil => simp
  | cons x items ih =>
    simp only [List.foldl_cons, ih, dictGet_dictSet, List.mem_cons]
    by_cases h1 : k ∈ items
    · simp [h1]
    · by_cases h2 : x = k
      · simp [h2]
      · have : ¬ k = x := fun e => h2 e.symm
        simp [h1, h2, this]

theorem mem_setAdd {s : List V} {x y : V} : y ∈ setAdd s x ↔ y ∈ s ∨ y = x := by
  unfold setAdd
  by_cases h : x ∈ s
  · simp only [h, if_true]
    constructor
    · exact Or.inl
    · rintro (h' | rfl)
      · exact h'
      · exact h
  · simp [h]

theorem nodup_setAdd {s : List V} (hs : s.Nodup) (x : V) : (setAdd s x).Nodup := by
  unfold setAdd
  by_cases h : x ∈ s
  · simp [h, hs]
  · simp only [h, if_false]
    rw [List.nodup_append]
    refine ⟨hs, by simp, ?_⟩
    intro a ha b hb
    simp only [List.mem_singleton] at hb
    subst hb
    intro e; subst e; exact h ha

theorem mem_setUpdate {s t : List V} {y : V} : y ∈ setUpdate s t ↔ y ∈ s ∨ y ∈ t := by
  unfold setUpdate
  induction t generalizing s with
  | nil => simp
  | cons x t ih =>
    simp only [List.foldl_cons, ih, mem_setAdd, List.mem_cons]
    constructor
    · rintro ((h | h) | h)
      · exact Or.inl h
      · exact Or.inr (Or.inl h)
      · exact Or.inr (Or.inr h)
    · rintro (h | h | h)
      · exact Or.inl (Or.inl h)
      · exact Or.inl (Or.inr h)
      · exact Or.inr h

theorem nodup_setUpdate {s : List V} (hs : s.Nodup) (t : List V) : (setUpdate s t).Nodup := by
  unfold setUpdate
  induction t generalizing s with
  | nil => simpa
  | cons x t ih => exact ih (nodup_setAdd hs x)

theorem mem_keysOf {f g : List V} {v : V} : v ∈ keysOf f g ↔ v ∈ f ∨ v ∈ g := by
  simp [keysOf, mem_setUpdate]

theorem nodup_keysOf (f g : List V) : (keysOf f g).Nodup :=
  nodup_setUpdate (nodup_setUpdate List.nodup_nil f) g

/-- the object allocated for the first occurrence of `k` is `Component(k)` -/
theorem dictGet_initFrom (ks : List V) (n : Nat) (k : V) (hk : k ∈ ks) :
    ∃ i, dictGet (initFrom ks n) k = some (n + i) ∧ ks[i]? = some k := by
  induction ks generalizing n with
  | nil => cases hk
  | cons a ks ih =>
    by_cases h : a = k
    · exact ⟨0, by simp [initFrom, dictGet, h], by simp [h]⟩
    · have hk' : k ∈ ks := by
        rcases List.mem_cons.mp hk with e | e
        · exact absurd e.symm h
        · exact e
      obtain ⟨i, h1, h2⟩ := ih (n + 1) hk'
      refine ⟨i + 1, ?_, by simpa using h2⟩
      simp only [initFrom, dictGet, h, if_false, h1]
      congr 1; omega

end prim

/-! ### `min` -/
section pymin
variable {V : Type} [LE V] [LT V] [DecidableLT V] [Std.IsLinearOrder V] [Std.LawfulOrderLT V]

omit [LE V] [Std.IsLinearOrder V] [Std.LawfulOrderLT V] in
theorem pyMin_eq (a b : V) : pyMin a b = a ∨ pyMin a b = b := by
  unfold pyMin; by_cases h : b < a <;> simp [h]

theorem pyMin_le_left (a b : V) : pyMin a b ≤ a := by
  unfold pyMin
  by_cases h : b < a
  · simp only [h, if_true]; exact ((Std.LawfulOrderLT.lt_iff b a).mp h).1
  · simp only [h, if_false]; exact Std.IsPreorder.le_refl a

theorem pyMin_le_right (a b : V) : pyMin a b ≤ b := by
  unfold pyMin
  by_cases h : b < a
  · simp only [h, if_true]; exact Std.IsPreorder.le_refl b
  · simp only [h, if_false]; exact Std.not_lt.mp h

end pymin

/-! ### the connectivity relation -/
section conn
variable {V : Type}

theorem conn_nil {a b : V} (h : Conn ([] : List (V × V)) a b) : a = b := by
  induction h with
  | refl a => rfl
  | edge h => cases h
  | symm _ ih => exact ih.symm
  | trans _ _ ih1 ih2 => exact ih1.trans ih2

theorem conn_mono {es es' : List (V × V)} (hsub : ∀ e ∈ es, e ∈ es') {a b : V} (h : Conn es a b) :
    Conn es' a b := by
  induction h with
  | refl a => exact .refl a
  | edge h => exact .edge (hsub _ h)
  | symm _ ih => exact .symm ih
  | trans _ _ ih1 ih2 => exact .trans ih1 ih2

/-- Adding one edge `(a, b)` joins the class of `a` with the class of `b` and changes nothing else. -/
theorem conn_snoc_iff (es : List (V × V)) (a b x y : V) :
    Conn (es ++ [(a, b)]) x y ↔
      Conn es x y ∨ (Conn es x a ∧ Conn es b y) ∨ (Conn es x b ∧ Conn es a y) := by
  constructor
  · intro h
    induction h with
    | refl a => exact Or.inl (.refl a)
    | edge h =>
      rcases List.mem_append.mp h with h | h
      · exact Or.inl (.edge h)
      · simp only [List.mem_singleton, Prod.mk.injEq] at h
        obtain ⟨rfl, rfl⟩ := h
        exact Or.inr (Or.inl ⟨.refl _, .refl _⟩)
    | symm _ ih =>
      rcases ih with h | ⟨h1, h2⟩ | ⟨h1, h2⟩
      · exact Or.inl h.symm
      · exact Or.inr (Or.inr ⟨h2.symm, h1.symm⟩)
      · exact Or.inr (Or.inl ⟨h2.symm, h1.symm⟩)
    | trans _ _ ih1 ih2 =>
      rcases ih1 with h | ⟨h1, h2⟩ | ⟨h1, h2⟩ <;> rcases ih2 with k | ⟨k1, k2⟩ | ⟨k1, k2⟩
      · exact Or.inl (h.trans k)
      · exact Or.inr (Or.inl ⟨h.trans k1, k2⟩)
      · exact Or.inr (Or.inr ⟨h.trans k1, k2⟩)
      · exact Or.inr (Or.inl ⟨h1, h2.trans k⟩)
      · exact Or.inr (Or.inl ⟨h1, k2⟩)
      · exact Or.inl (h1.trans k2)
      · exact Or.inr (Or.inr ⟨h1, h2.trans k⟩)
      · exact Or.inl (h1.trans k2)
      · exact Or.inr (Or.inr ⟨h1, k2⟩)
  · have mono : ∀ {u v}, Conn es u v → Conn (es ++ [(a, b)]) u v :=
      fun h => conn_mono (fun e he => List.mem_append.mpr (Or.inl he)) h
    have hab : Conn (es ++ [(a, b)]) a b := .edge (by simp)
    rintro (h | ⟨h1, h2⟩ | ⟨h1, h2⟩)
    · exact mono h
    · exact (mono h1).trans (hab.trans (mono h2))
    · exact (mono h1).trans (hab.symm.trans (mono h2))

end conn

/-! ### the loop invariant -/
section inv
variable {V : Type} [DecidableEq V] [LE V] [LT V] [DecidableLT V]

/-- What holds of one key `k` in state `σ` after the edges `es` have been processed: the dict has an entry
for `k`, it references a live object `c`, and
* `c.items` is exactly the connected component of `k` (as a duplicate-free list),
* `c.id` is a member of the component and `≤` every member (the least vertex),
* every member of the component references the *same* object (the aliasing the code relies on). -/
def KeyOk (es : List (V × V)) (σ : State V) (k : V) (h : Handle) (c : Component V) : Prop :=
  dictGet σ.components k = some h ∧ σ.heap[h]? = some c ∧
  (∀ v, v ∈ c.items ↔ Conn es k v) ∧ c.items.Nodup ∧
  c.id ∈ c.items ∧ (∀ v ∈ c.items, c.id ≤ v) ∧
  (∀ v ∈ c.items, dictGet σ.components v = some h)

/-- Loop invariant of `for fi, gi in zip(f, g)` after the prefix `es` of edges, over the key set `ks`. -/
def Inv (ks : List V) (es : List (V × V)) (σ : State V) : Prop :=
  ∀ k ∈ ks, ∃ h c, KeyOk es σ k h c

variable [Std.IsLinearOrder V] [Std.LawfulOrderLT V]

omit [LT V] [DecidableLT V] [Std.LawfulOrderLT V] in
theorem inv_init (ks : List V) : Inv ks [] (init ks) := by
  intro k hk
  obtain ⟨i, h1, h2⟩ := dictGet_initFrom ks 0 k hk
  refine ⟨0 + i, Component.new k, h1, ?_, ?_, by simp [Component.new], by simp [Component.new], ?_, ?_⟩
  · simp [init, h2]
  · intro v
    simp only [Component.new, List.mem_singleton]
    constructor
    · rintro rfl; exact .refl _
    · intro h; exact (conn_nil h).symm
  · simp only [Component.new, List.mem_singleton]
    rintro v rfl
    exact Std.IsPreorder.le_refl _
  · simp only [Component.new, List.mem_singleton]
    rintro v rfl
    exact h1

/-- The merge branch of the loop body: `m` (object `hm`, the class of `x`) absorbs `d` (object `hd`, the
class of `y`).  (That the two ids differ is not needed for the invariant.)  Stated for any edge list `es'` whose connectivity is "`es` plus an edge between `x` and `y`",
so that it serves both orientations of the size test. -/
theorem inv_merge {ks : List V} {es es' : List (V × V)} {σ : State V} (hinv : Inv ks es σ)
    (x y : V) (hm hd : Handle) (m d : Component V)
    (hx : KeyOk es σ x hm m) (hy : KeyOk es σ y hd d)
    (hchar : ∀ u v, Conn es' u v ↔
      Conn es u v ∨ (Conn es u x ∧ Conn es y v) ∨ (Conn es u y ∧ Conn es x v)) :
    Inv ks es'
      { components := repoint σ.components d.items hm,
        heap := σ.heap.set hm { id := pyMin m.id d.id, items := setUpdate m.items d.items } } := by
  obtain ⟨hx1, hx2, hx3, hx4, hx5, hx6, hx7⟩ := hx
  obtain ⟨hy1, hy2, hy3, hy4, hy5, hy6, hy7⟩ := hy
  have hmlt : hm < σ.heap.length := by
    rcases Nat.lt_or_ge hm σ.heap.length with h | h
    · exact h
    · rw [List.getElem?_eq_none h] at hx2; cases hx2
  -- membership in the merged item set = membership in the new class of x
  have A : ∀ v, v ∈ setUpdate m.items d.items ↔ Conn es' x v := by
    intro v
    rw [mem_setUpdate, hx3, hy3, hchar]
    constructor
    · rintro (h | h)
      · exact Or.inl h
      · exact Or.inr (Or.inl ⟨.refl x, h⟩)
    · rintro (h | ⟨_, h⟩ | ⟨_, h⟩)
      · exact Or.inl h
      · exact Or.inr h
      · exact Or.inl h
  have hget : ∀ v, v ∈ setUpdate m.items d.items →
      dictGet (repoint σ.components d.items hm) v = some hm := by
    intro v hv
    rw [dictGet_repoint]
    by_cases hvd : v ∈ d.items
    · simp [hvd]
    · simp only [hvd, if_false]
      rcases mem_setUpdate.mp hv with h | h
      · exact hx7 v h
      · exact absurd h hvd
  have hidmem : pyMin m.id d.id ∈ setUpdate m.items d.items := by
    rw [mem_setUpdate]
    rcases pyMin_eq m.id d.id with e | e <;> rw [e]
    · exact Or.inl hx5
    · exact Or.inr hy5
  have hleast : ∀ v ∈ setUpdate m.items d.items, pyMin m.id d.id ≤ v := by
    intro v hv
    rcases mem_setUpdate.mp hv with h | h
    · exact Std.IsPreorder.le_trans _ _ _ (pyMin_le_left _ _) (hx6 v h)
    · exact Std.IsPreorder.le_trans _ _ _ (pyMin_le_right _ _) (hy6 v h)
  intro k hk
  by_cases hkm : Conn es' x k
  · refine ⟨hm, { id := pyMin m.id d.id, items := setUpdate m.items d.items },
      hget k ((A k).mpr hkm), by simp [hmlt], ?_, nodup_setUpdate hx4 _, hidmem, hleast,
      fun v hv => hget v hv⟩
    intro v
    rw [A]
    exact ⟨fun h => hkm.symm.trans h, fun h => hkm.trans h⟩
  · obtain ⟨h, c, k1, k2, k3, k4, k5, k6, k7⟩ := hinv k hk
    have hkx : ¬ Conn es k x := fun hc => hkm ((hchar x k).mpr (Or.inl hc.symm))
    have hky : ¬ Conn es k y := fun hc => hkm ((hchar x k).mpr (Or.inr (Or.inl ⟨.refl x, hc.symm⟩)))
    have hhm : hm ≠ h := by
      intro e; subst e
      rw [hx2] at k2
      injection k2 with e; subst e
      exact hkx ((k3 x).mp ((hx3 x).mpr (.refl x)))
    refine ⟨h, c, ?_, ?_, ?_, k4, k5, k6, ?_⟩
    · rw [dictGet_repoint]
      have : k ∉ d.items := fun hin => hky ((hy3 k).mp hin).symm
      simp [this, k1]
    · show (σ.heap.set hm _)[h]? = some c
      rw [List.getElem?_set]; simp [hhm, k2]
    · intro v
      rw [k3, hchar]
      constructor
      · exact Or.inl
      · rintro (h | ⟨h, _⟩ | ⟨h, _⟩)
        · exact h
        · exact absurd h hkx
        · exact absurd h hky
    · intro v hv
      rw [dictGet_repoint]
      have : v ∉ d.items := fun hin => hky (((k3 v).mp hv).trans ((hy3 v).mp hin).symm)
      simp [this, k7 v hv]

/-- One loop iteration never fails on keys of the dict and re-establishes the invariant for the longer
prefix. -/
theorem inv_step {ks : List V} {es : List (V × V)} {σ : State V} (hinv : Inv ks es σ)
    (a b : V) (ha : a ∈ ks) (hb : b ∈ ks) :
    ∃ σ', step σ (a, b) = some σ' ∧ Inv ks (es ++ [(a, b)]) σ' := by
  obtain ⟨hf, cf, hfo⟩ := hinv a ha
  obtain ⟨hg, cg, hgo⟩ := hinv b hb
  have e1 : deref σ a = some (hf, cf) := by simp [deref, hfo.1, hfo.2.1]
  have e2 : deref σ b = some (hg, cg) := by simp [deref, hgo.1, hgo.2.1]
  by_cases hid : cf.id = cg.id
  · refine ⟨σ, by simp [step, e1, e2, hid], ?_⟩
    have hab : Conn es a b := by
      have h1 : Conn es a cf.id := (hfo.2.2.1 _).mp hfo.2.2.2.2.1
      have h2 : Conn es b cg.id := (hgo.2.2.1 _).mp hgo.2.2.2.2.1
      rw [hid] at h1
      exact h1.trans h2.symm
    intro k hk
    obtain ⟨h, c, k1, k2, k3, k4, k5, k6, k7⟩ := hinv k hk
    refine ⟨h, c, k1, k2, ?_, k4, k5, k6, k7⟩
    intro v
    rw [k3, conn_snoc_iff]
    constructor
    · exact Or.inl
    · rintro (h | ⟨h1, h2⟩ | ⟨h1, h2⟩)
      · exact h
      · exact h1.trans (hab.trans h2)
      · exact h1.trans (hab.symm.trans h2)
  · by_cases hlen : cf.items.length ≥ cg.items.length
    · exact ⟨_, by simp [step, e1, e2, hid, hlen],
        inv_merge hinv a b hf hg cf cg hfo hgo (fun u v => conn_snoc_iff es a b u v)⟩
    · refine ⟨_, by simp [step, e1, e2, hid, hlen],
        inv_merge hinv b a hg hf cg cf hgo hfo (fun u v => ?_)⟩
      rw [conn_snoc_iff]
      constructor
      · rintro (h | h | h)
        · exact Or.inl h
        · exact Or.inr (Or.inr h)
        · exact Or.inr (Or.inl h)
      · rintro (h | h | h)
        · exact Or.inl h
        · exact Or.inr (Or.inr h)
        · exact Or.inr (Or.inl h)

/-- The whole loop: from the invariant at prefix `es`, running the remaining edges `rest` succeeds and gives
the invariant at `es ++ rest`. -/
theorem inv_run {ks : List V} (rest : List (V × V)) (hrest : ∀ e ∈ rest, e.1 ∈ ks ∧ e.2 ∈ ks)
    {es : List (V × V)} {σ : State V} (hinv : Inv ks es σ) :
    ∃ σ', runEdges σ rest = some σ' ∧ Inv ks (es ++ rest) σ' := by
  induction rest generalizing es σ with
  | nil => exact ⟨σ, by simp [runEdges], by simpa using hinv⟩
  | cons e rest ih =>
    obtain ⟨a, b⟩ := e
    have hab := hrest (a, b) (by simp)
    obtain ⟨σ1, hs1, hinv1⟩ := inv_step hinv a b hab.1 hab.2
    obtain ⟨σ2, hs2, hinv2⟩ := ih (fun e he => hrest e (List.mem_cons_of_mem _ he)) hinv1
    refine ⟨σ2, ?_, by simpa using hinv2⟩
    simp only [runEdges, List.foldlM_cons, hs1] at hs2 ⊢
    exact hs2

omit [LT V] [DecidableLT V] [Std.IsLinearOrder V] [Std.LawfulOrderLT V] in
/-- `[components[k].id for k in f]` succeeds on keys and returns, position by position, the least vertex of
the class of `f[i]`. -/
theorem assignments_spec {ks : List V} {es : List (V × V)} {σ : State V} (hinv : Inv ks es σ)
    (f : List V) (hf : ∀ v ∈ f, v ∈ ks) :
    ∃ labels, assignments σ f = some labels ∧ labels.length = f.length ∧
      ∀ i (h1 : i < f.length) (h2 : i < labels.length), IsLeastOfClass es f[i] labels[i] := by
  induction f with
  | nil => exact ⟨[], by simp [assignments], rfl, fun i h1 => absurd h1 (Nat.not_lt_zero i)⟩
  | cons k f ih =>
    obtain ⟨ls, hl1, hl2, hl3⟩ := ih (fun v hv => hf v (List.mem_cons_of_mem _ hv))
    obtain ⟨h, c, k1, k2, k3, _, k5, k6, _⟩ := hinv k (hf k (by simp))
    refine ⟨c.id :: ls, ?_, by simp [hl2], ?_⟩
    · unfold assignments at hl1 ⊢
      rw [List.mapM_cons, hl1]
      simp [deref, k1, k2]
    · intro i h1 h2
      cases i with
      | zero => exact ⟨(k3 _).mp k5, fun v hv => k6 v ((k3 v).mpr hv)⟩
      | succ i => simpa using hl3 i (by simpa using h1) (by simpa using h2)

/-- `connected_components(f, g)`, for any enumeration `ks` of a key set that contains every vertex of `f` and
`g`: no `KeyError`, one label per element of `f`, and label `i` is the least vertex of the component of `f[i]`
in the graph with edge list `zip(f, g)`. -/
theorem cc_spec (ks f g : List V) (hks : ∀ v, v ∈ f ∨ v ∈ g → v ∈ ks) :
    ∃ labels, connectedComponentsWith ks f g = some labels ∧ labels.length = f.length ∧
      ∀ i (h1 : i < f.length) (h2 : i < labels.length), IsLeastOfClass (f.zip g) f[i] labels[i] := by
  have hz : ∀ e ∈ f.zip g, e.1 ∈ ks ∧ e.2 ∈ ks := by
    rintro ⟨a, b⟩ he
    have := List.of_mem_zip he
    exact ⟨hks a (Or.inl this.1), hks b (Or.inr this.2)⟩
  obtain ⟨σ, hs, hinv⟩ := inv_run (f.zip g) hz (inv_init ks)
  simp only [List.nil_append] at hinv
  obtain ⟨ls, hl1, hl2, hl3⟩ := assignments_spec hinv f (fun v hv => hks v (Or.inl hv))
  exact ⟨ls, by simp [connectedComponentsWith, hs, hl1], hl2, hl3⟩

omit [DecidableEq V] [LT V] [DecidableLT V] [Std.LawfulOrderLT V] in
/-- the least vertex of a class is unique -/
theorem isLeast_unique {es : List (V × V)} {a m m' : V} (h : IsLeastOfClass es a m)
    (h' : IsLeastOfClass es a m') : m = m' :=
  Std.IsPartialOrder.le_antisymm _ _ (h.2 _ h'.1) (h'.2 _ h.1)

omit [DecidableEq V] [LT V] [DecidableLT V] [Std.IsLinearOrder V] [Std.LawfulOrderLT V] in
/-- connected vertices have the same least vertex -/
theorem isLeast_congr {es : List (V × V)} {a b m : V} (hab : Conn es a b) (h : IsLeastOfClass es a m) :
    IsLeastOfClass es b m :=
  ⟨hab.symm.trans h.1, fun v hv => h.2 v (hab.trans hv)⟩

end inv
end DAVerif.CC
