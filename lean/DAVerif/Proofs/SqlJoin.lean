import DAVerif.Proofs.SqlJoinSem
/-!
C01/C02/C16, joins, translation side.

* `Near.isJU` – the enlarged class of near-SQL shapes (tables, unary steps, joins, unions); `keyStable_join`,
  `keyStable_union`, `shapeOK_ju`: `select_columns` / `drop_columns` on top of a join or a union only restrict its
  term dictionary and do not change what requests within the kept keys return.
* `joinTerms` – the term dictionary the join translation builds (COALESCE for requested common columns, qualified
  pass-through for the others) and what a lookup in it returns.
* `sqlCell_eq_refCell` – cell by cell, the SQL SELECT list of a join computes the reference join row.
* `sound_joinStep` – a join step over two sound sub-queries is sound against `semJoin SemCfg.ref` (row **list**).
* `toNear_join_native` – shape of the translation of a join that the dialect renders natively;
  `transOK_join` – the induction step.
-/
namespace DAVerif
namespace Sql
open DAVerif.Ops (usedFromSources unionL)

variable {Θ : Interp} {ec : EngineCfg} {env : Env} {G : Near → Prop} {cfg : SqlCfg}

/-! ### shapes -/

/-- tables, unary steps, joins and unions: what the translation of the fragment with joins and `concat_rows` returns -/
def Near.isJU : Near → Bool
  | .cte _ => false
  | _ => true

theorem subset_joinOut (keys u' : List String) : ∀ c ∈ u', c ∈ joinOut keys (some u') := by
  intro c hc
  simp only [joinOut]
  split
  · rename_i he
    have : u' = [] := by simpa using he
    subst this; cases hc
  · exact hc

theorem joinOut_some_ne {keys u' : List String} (h : u' ≠ []) : joinOut keys (some u') = u' := by
  have : u'.isEmpty = false := by simpa using h
  simp [joinOut, this]

theorem sqlCell_congr {lC rC : List String} {terms terms' : Terms} {c : String}
    (h : lookupLast terms c = lookupLast terms' c) (ra rb : Option Row) :
    sqlCell lC rC terms ra rb c = sqlCell lC rC terms' ra rb c := by
  simp only [sqlCell, h]

/-- a join step restricted to some of its output columns -/
theorem joinRows_select {m : Row → Row → Bool} (lC rC : List String) (terms : Terms) {out u' : List String}
    (h : ∀ c ∈ u', c ∈ out) (kl kr : Bool) (la lb : List Row) :
    (joinRowsG m (sqlJoinRow lC rC terms out) kl kr la lb).map (fun r => r.select u') =
      joinRowsG m (fun x y => u'.map (fun c => (c, sqlCell lC rC terms x y c))) kl kr la lb := by
  rw [joinRowsG_map]
  congr 1
  funext x y
  rw [sqlJoinRow_eq]
  exact select_mkRow _ h

theorem keyStable_join (Θ : Interp) (ec : EngineCfg) (env : Env) (n : String) (ts : Terms) (l : Near)
    (lc : List String) (ln : String) (r : Near) (rc : List String) (rn : String) (jt : JoinType)
    (oa ob : List String) (key : Option String) :
    KeyStable Θ ec env (.join n ts l lc ln r rc rn jt oa ob key) := by
  intro ks sel q' h
  simp only [setTermKeys] at h
  split at h
  · rename_i he
    cases h
    refine ⟨fun u' force T _ hT hc => ⟨T, hT, hc, rfl⟩, ?_⟩
    intro hne
    exact absurd (by simpa using he) hne
  · split at h
    · rename_i hsub
      cases h
      have hsub' := subset_iff.mp hsub
      refine ⟨?_, fun _ _ => ?_⟩
      · intro u' force T hu hT _
        rw [semNear_join] at hT ⊢
        cases hl : semNear Θ ec env [] l (some lc) false with
        | error e => rw [hl] at hT; cases hT
        | ok tl =>
          cases hr : semNear Θ ec env [] r (some rc) false with
          | error e => rw [hl, hr] at hT; cases hT
          | ok tr =>
            rw [hl, hr] at hT
            simp only [Except.bind] at hT ⊢
            by_cases hj : (jt == JoinType.outer) = true
            · rw [if_pos hj] at hT; cases hT
            · rw [if_neg hj] at hT ⊢
              cases hT
              refine ⟨_, rfl, subset_joinOut _ _, ?_⟩
              simp only
              rw [joinRows_select _ _ _ (subset_joinOut _ _), joinRows_select _ _ _ (subset_joinOut _ _)]
              apply joinRowsG_congr
              · intros; rfl
              all_goals
                intros
                apply List.map_congr_left
                intro c hc
                exact congrArg (Prod.mk c) (sqlCell_congr (terms' := ts)
                  (by rw [lookupLast_filterMap_keys, if_pos (hu c hc)]) _ _)
      · simp only [Near.termKeys, Option.some.injEq]
        exact keys_filterMap_keys ts ks hsub'
    · cases h

theorem keyStable_union (Θ : Interp) (ec : EngineCfg) (env : Env) (n : String) (ts : List String) (l r : Near)
    (cs : List String) (key : Option String) : KeyStable Θ ec env (.union n ts l r cs key) := by
  intro ks sel q' h
  simp only [setTermKeys] at h
  split at h
  · rename_i he
    cases h
    refine ⟨fun u' force T _ hT hc => ⟨T, hT, hc, rfl⟩, ?_⟩
    intro hne
    exact absurd (by simpa using he) hne
  · split at h
    · cases h
      refine ⟨?_, fun _ _ => rfl⟩
      intro u' force T hu hT _
      rw [semNear_union] at hT ⊢
      cases hl : semNear Θ ec env [] l (some cs) true with
      | error e => rw [hl] at hT; cases hT
      | ok tl =>
        cases hr : semNear Θ ec env [] r (some cs) true with
        | error e => rw [hl, hr] at hT; cases hT
        | ok tr =>
          rw [hl, hr] at hT
          simp only [Except.bind] at hT ⊢
          cases hT
          refine ⟨_, rfl, subset_joinOut _ _, ?_⟩
          simp only
          rw [select_map_select _ (subset_joinOut _ _), select_map_select _ (subset_joinOut _ _)]
    · cases h

theorem isJU_setTermKeys {q q' : Near} {ks : List String} {sel : Bool} (h : setTermKeys q ks sel = some q')
    (hs : q.isJU = true) : q'.isJU = true := by
  cases q with
  | cte _ => cases hs
  | table n ts => exact (by have := isSimple_setTermKeys h rfl; cases q' <;> first | rfl | cases this)
  | unary n ts agg sub sc sf mg deps key =>
    exact (by have := isSimple_setTermKeys h rfl; cases q' <;> first | rfl | cases this)
  | join n ts l lc ln r rc rn jt oa ob key =>
    simp only [setTermKeys] at h
    split at h
    · cases h; rfl
    · split at h
      · cases h; rfl
      · cases h
  | union n ts l r cs key =>
    simp only [setTermKeys] at h
    split at h
    · cases h; rfl
    · split at h
      · cases h; rfl
      · cases h

/-- the enlarged class of near-SQL trees is a legitimate range for the induction -/
theorem shapeOK_ju (Θ : Interp) (ec : EngineCfg) (env : Env) : ShapeOK Θ ec env (fun q => q.isJU = true) := by
  refine ⟨?_, ?_, fun _ _ _ _ hq h => isJU_setTermKeys h hq⟩
  · intro q hq; cases q <;> first | rfl | cases hq
  · intro q hq
    cases q with
    | cte _ => cases hq
    | table n ts => exact keyStable_of_simple Θ ec env rfl
    | unary n ts agg sub sc sf mg deps key => exact keyStable_of_simple Θ ec env rfl
    | join n ts l lc ln r rc rn jt oa ob key => exact keyStable_join Θ ec env n ts l lc ln r rc rn jt oa ob key
    | union n ts l r cs key => exact keyStable_union Θ ec env n ts l r cs key

/-! ### the term dictionary of a join -/

/-- the columns requested from one side of a join: its declared columns among the request and the join keys -/
def sideCols (sc usg onA onB : List String) : List String :=
  sc.filter (fun c => (unionL (unionL usg onA) onB).contains c)

theorem mem_sideCols {sc usg onA onB : List String} {c : String} :
    c ∈ sideCols sc usg onA onB ↔ c ∈ sc ∧ (c ∈ usg ∨ c ∈ onA ∨ c ∈ onB) := by
  simp only [sideCols, List.mem_filter, contains_iff, mem_unionL, or_assoc]

/-- the SELECT list of a join step: `COALESCE` for the requested columns both sides offer, qualified pass-through
for the columns only one side offers -/
def joinTerms (leftFirst : Bool) (usg ul ur : List String) : Terms :=
  (((ur.filter (fun c => ul.contains c)).filter (fun c => usg.contains c)).map (fun c => (c, STerm.coalesce leftFirst c)))
  ++ (ul.filter (fun c => !(ur.filter (fun c => ul.contains c)).contains c)).map (fun c => (c, STerm.qual true c))
  ++ (ur.filter (fun c => !(ur.filter (fun c => ul.contains c)).contains c)).map (fun c => (c, STerm.qual false c))

theorem lookupLast_map_fn {β : Type} (K : List String) (f : String → β) (c : String) :
    lookupLast (K.map (fun k => (k, f k))) c = if c ∈ K then some (f c) else none := by
  induction K with
  | nil => rfl
  | cons k K ih =>
    rw [List.map_cons, lookupLast_cons, ih]
    by_cases h : c = k
    · subst h; by_cases h2 : c ∈ K <;> simp [h2]
    · by_cases h2 : c ∈ K <;> simp [h, h2]

theorem mem_joinTerms_keys {lf : Bool} {usg ul ur : List String} {c : String} :
    c ∈ (joinTerms lf usg ul ur).map (·.1) ↔
      (c ∈ ur ∧ c ∈ ul ∧ c ∈ usg) ∨ (c ∈ ul ∧ c ∉ ur) ∨ (c ∈ ur ∧ c ∉ ul) := by
  simp only [joinTerms, List.map_append, List.map_map, Function.comp_def, List.map_id', List.mem_append,
    List.mem_filter, Bool.not_eq_eq_eq_not, Bool.not_true, List.contains_eq_mem,
    decide_eq_false_iff_not, decide_eq_true_eq, not_and]
  constructor
  · rintro ((⟨⟨h1, h2⟩, h3⟩ | ⟨h1, h2⟩) | ⟨h1, h2⟩)
    · exact Or.inl ⟨h1, h2, h3⟩
    · exact Or.inr (Or.inl ⟨h1, fun h => h2 h h1⟩)
    · exact Or.inr (Or.inr ⟨h1, fun h => h2 h1 h⟩)
  · rintro (⟨h1, h2, h3⟩ | ⟨h1, h2⟩ | ⟨h1, h2⟩)
    · exact Or.inl (Or.inl ⟨⟨h1, h2⟩, h3⟩)
    · exact Or.inl (Or.inr ⟨h1, fun h => absurd h h2⟩)
    · exact Or.inr ⟨h1, fun _ h => h2 h⟩

/-- a requested column both sides offer is rendered as `COALESCE` -/
theorem lookup_joinTerms_common {lf : Bool} {usg ul ur : List String} {c : String} (h1 : c ∈ ur) (h2 : c ∈ ul)
    (h3 : c ∈ usg) : lookupLast (joinTerms lf usg ul ur) c = some (.coalesce lf c) := by
  have hc : c ∈ ur.filter (fun c => ul.contains c) := List.mem_filter.mpr ⟨h1, by simpa using h2⟩
  simp only [joinTerms, lookupLast_append, lookupLast_map_fn]
  have hcc : (ur.filter (fun c => ul.contains c)).contains c = true := contains_iff.mpr hc
  rw [if_neg (by simp only [List.mem_filter]; rintro ⟨_, h⟩; rw [hcc] at h; cases h),
    if_neg (by simp only [List.mem_filter]; rintro ⟨_, h⟩; rw [hcc] at h; cases h),
    if_pos (List.mem_filter.mpr ⟨hc, by simpa using h3⟩)]
  rfl

/-- only columns both sides offer are rendered as `COALESCE` -/
theorem lookup_joinTerms_coalesce {lf lf' : Bool} {usg ul ur : List String} {c c' : String}
    (h : lookupLast (joinTerms lf usg ul ur) c = some (.coalesce lf' c')) : c ∈ ur ∧ c ∈ ul := by
  have hm := lookupLast_mem h
  simp only [joinTerms, List.mem_append, List.mem_map, List.mem_filter, Prod.mk.injEq] at hm
  rcases hm with (⟨k, ⟨⟨h1, h2⟩, _⟩, rfl, _⟩ | ⟨k, _, _, h⟩) | ⟨k, _, _, h⟩
  · exact ⟨h1, by simpa using h2⟩
  · cases h
  · cases h

/-! ### cell by cell -/

/-- the value one side of a join contributes to the output column `c` -/
def sideVal (cs : List String) (r : Option Row) (c : String) : Val :=
  match r with | some r => if cs.contains c then r.get c else .null | none => .null

theorem sideVal_not_mem {cs : List String} {c : String} (h : c ∉ cs) (r : Option Row) : sideVal cs r c = .null := by
  have : cs.contains c = false := by simpa using h
  cases r with
  | none => rfl
  | some r => simp only [sideVal, this]; rfl

theorem sideVal_congr {cs cs' : List String} {c : String} (h : c ∈ cs ↔ c ∈ cs') (r : Option Row) :
    sideVal cs r c = sideVal cs' r c := by
  have : cs.contains c = cs'.contains c := by rw [Bool.eq_iff_iff]; simpa using h
  cases r with
  | none => rfl
  | some r => simp only [sideVal, this]

theorem sideVal_select {cs S : List String} {c : String} (h : c ∈ cs → c ∈ S) (r : Option Row) :
    sideVal cs (r.map (fun r => r.select S)) c = sideVal cs r c := by
  cases r with
  | none => rfl
  | some r =>
    simp only [sideVal, Option.map_some]
    split
    · rename_i hc; rw [Row.get_select_mem (h (by simpa using hc))]
    · rfl

theorem refCell_eq (ca cb : List String) (ra rb : Option Row) (c : String) :
    refCell ca cb ra rb c = if (sideVal ca ra c).isNull then sideVal cb rb c else sideVal ca ra c := by
  cases ra <;> cases rb <;> rfl

theorem sqlCell_co {lC rC : List String} {terms : Terms} {c c' : String} {lf : Bool}
    (h : lookupLast terms c = some (.coalesce lf c')) (ra rb : Option Row) :
    sqlCell lC rC terms ra rb c =
      if lf then (if (sideVal lC ra c).isNull then sideVal rC rb c else sideVal lC ra c)
      else (if (sideVal rC rb c).isNull then sideVal lC ra c else sideVal rC rb c) := by
  simp only [sqlCell, h]
  cases ra <;> cases rb <;> rfl

theorem sqlCell_nc {lC rC : List String} {terms : Terms} {c : String}
    (h : ∀ lf c', lookupLast terms c ≠ some (.coalesce lf c')) (ra rb : Option Row) :
    sqlCell lC rC terms ra rb c = if lC.contains c then sideVal lC ra c else sideVal rC rb c := by
  simp only [sqlCell]
  cases hl : lookupLast terms c with
  | none => cases ra <;> cases rb <;> rfl
  | some t =>
    cases t with
    | coalesce lf c' => exact absurd hl (h lf c')
    | _ => cases ra <;> cases rb <;> rfl

theorem ite_isNull_null (v : Val) : (if v.isNull = true then Val.null else v) = v := by
  cases hn : v.isNull
  · simp
  · rw [Val.eq_null_of_isNull hn]; rfl

/-- the SELECT list entry of a natively rendered join computes the reference join cell -/
theorem sqlCell_eq_refCell {lC rC ca cb : List String} {terms : Terms} {c : String} (ra rb : Option Row)
    (hl : c ∈ lC ↔ c ∈ ca) (hr : c ∈ rC ↔ c ∈ cb) (hmem : c ∈ ca ∨ c ∈ cb)
    (hco : c ∈ ca → c ∈ cb → ∃ c', lookupLast terms c = some (.coalesce true c'))
    (hnc : ¬ (c ∈ ca ∧ c ∈ cb) → ∀ lf c', lookupLast terms c ≠ some (.coalesce lf c')) :
    sqlCell lC rC terms ra rb c = refCell ca cb ra rb c := by
  rw [refCell_eq]
  by_cases ha : c ∈ ca
  · by_cases hb : c ∈ cb
    · obtain ⟨c', h⟩ := hco ha hb
      rw [sqlCell_co h, sideVal_congr hl, sideVal_congr hr]
      rfl
    · rw [sqlCell_nc (hnc (fun h => hb h.2)), sideVal_congr hl, sideVal_not_mem hb, ite_isNull_null,
        if_pos (by simpa using hl.mpr ha)]
  · have hb : c ∈ cb := hmem.resolve_left ha
    rw [sqlCell_nc (hnc (fun h => ha h.1)), sideVal_congr hr, sideVal_not_mem ha,
      if_neg (by simpa using fun h => ha (hl.mp h))]
    rfl

/-- the same for a join rendered with the sides swapped and the COALESCE direction reversed (SQLite RIGHT join):
the SQL step's left input is `b`, its right input is `a` -/
theorem sqlCell_swapped_eq_refCell {lC rC ca cb : List String} {terms : Terms} {c : String} (ra rb : Option Row)
    (hl : c ∈ lC ↔ c ∈ cb) (hr : c ∈ rC ↔ c ∈ ca) (hmem : c ∈ ca ∨ c ∈ cb)
    (hco : c ∈ ca → c ∈ cb → ∃ c', lookupLast terms c = some (.coalesce false c'))
    (hnc : ¬ (c ∈ ca ∧ c ∈ cb) → ∀ lf c', lookupLast terms c ≠ some (.coalesce lf c')) :
    sqlCell lC rC terms rb ra c = refCell ca cb ra rb c := by
  rw [refCell_eq]
  by_cases ha : c ∈ ca
  · by_cases hb : c ∈ cb
    · obtain ⟨c', h⟩ := hco ha hb
      rw [sqlCell_co h, sideVal_congr hl, sideVal_congr hr]
      rfl
    · rw [sqlCell_nc (hnc (fun h => hb h.2)), sideVal_congr hr, sideVal_not_mem hb, ite_isNull_null,
        if_neg (by simpa using fun h => hb (hl.mp h))]
  · have hb : c ∈ cb := hmem.resolve_left ha
    rw [sqlCell_nc (hnc (fun h => ha h.1)), sideVal_congr hl, sideVal_not_mem ha,
      if_pos (by simpa using hl.mpr hb)]
    rfl

/-! ### a join step over two sound sub-queries -/

theorem sqlCell_sideVal (lC rC : List String) (terms : Terms) (ra rb : Option Row) (c : String) :
    sqlCell lC rC terms ra rb c =
      match lookupLast terms c with
      | some (.coalesce lf _) =>
        if lf then (if (sideVal lC ra c).isNull then sideVal rC rb c else sideVal lC ra c)
        else (if (sideVal rC rb c).isNull then sideVal lC ra c else sideVal rC rb c)
      | _ => if lC.contains c then sideVal lC ra c else sideVal rC rb c := by
  simp only [sqlCell]
  cases lookupLast terms c with
  | none => cases ra <;> cases rb <;> rfl
  | some t => cases t <;> cases ra <;> cases rb <;> rfl

/-- the SELECT list of a join reads its left input only through `lC` and its right input only through `rC` -/
theorem sqlCell_select (lC rC : List String) (terms : Terms) (ra rb : Option Row) (c : String) :
    sqlCell lC rC terms ra rb c =
      sqlCell lC rC terms (ra.map (fun r => r.select lC)) (rb.map (fun r => r.select rC)) c := by
  rw [sqlCell_sideVal, sqlCell_sideVal, sideVal_select (fun h => h), sideVal_select (fun h => h)]

theorem refMatch_select (cfg : SemCfg) (jt : JoinType) {onA onB SA SB : List String} (hA : ∀ c ∈ onA, c ∈ SA)
    (hB : ∀ c ∈ onB, c ∈ SB) (ra rb : Row) :
    refMatch cfg jt onA onB ra rb = refMatch cfg jt onA onB (ra.select SA) (rb.select SB) := by
  simp only [refMatch, keyOf_select _ hA, keyOf_select _ hB]

theorem semG_join_ok {le : RowCmp} {scfg : SemCfg} {a b : Ops} {onA onB : List String} {jt : JoinType} {tp : Table}
    (h : semG le Θ scfg env (.join a b onA onB jt) = .ok tp) :
    ∃ ta tb, semG le Θ scfg env a = .ok ta ∧ semG le Θ scfg env b = .ok tb ∧
      tp = (semJoin scfg jt onA onB ta tb (appendNew a.cols b.cols)).selectCols (Ops.join a b onA onB jt).cols := by
  simp only [semG] at h
  cases ha : semG le Θ scfg env a with
  | error e => rw [ha] at h; cases h
  | ok ta =>
    cases hb : semG le Θ scfg env b with
    | error e => rw [ha, hb] at h; cases h
    | ok tb =>
      rw [ha, hb] at h
      exact ⟨ta, tb, rfl, rfl, (Except.ok.inj h).symm⟩

/-- cell by cell, the SELECT list the translation gives a natively rendered join computes the reference join -/
theorem joinTerms_cell {a b : Ops} {onA onB usg : List String} {jt : JoinType}
    (husg : ∀ c ∈ usg, c ∈ (Ops.join a b onA onB jt).cols) (x y : Option Row) {c : String} (hc : c ∈ usg) :
    sqlCell (sideCols a.cols usg onA onB) (sideCols b.cols usg onA onB)
        (joinTerms true usg (sideCols a.cols usg onA onB) (sideCols b.cols usg onA onB)) x y c =
      refCell a.cols b.cols x y c := by
  apply sqlCell_eq_refCell
  · rw [mem_sideCols]; exact ⟨fun h => h.1, fun h => ⟨h, Or.inl hc⟩⟩
  · rw [mem_sideCols]; exact ⟨fun h => h.1, fun h => ⟨h, Or.inl hc⟩⟩
  · exact (mem_joinNodeCols a b onA onB jt c).mp (husg c hc)
  · intro ha hb
    exact ⟨c, lookup_joinTerms_common (mem_sideCols.mpr ⟨hb, Or.inl hc⟩) (mem_sideCols.mpr ⟨ha, Or.inl hc⟩) hc⟩
  · intro hn lf c' h
    have := lookup_joinTerms_coalesce h
    exact hn ⟨(mem_sideCols.mp this.2).1, (mem_sideCols.mp this.1).1⟩

theorem joinTerms_keys_declared {a b : Ops} {onA onB usg : List String} {jt : JoinType} {lf : Bool} :
    ∀ k ∈ (joinTerms lf usg (sideCols a.cols usg onA onB) (sideCols b.cols usg onA onB)).map (·.1),
      k ∈ (Ops.join a b onA onB jt).cols := by
  intro k hk
  rw [mem_joinNodeCols]
  rcases mem_joinTerms_keys.mp hk with ⟨h, _, _⟩ | ⟨h, _⟩ | ⟨h, _⟩
  · exact Or.inr (mem_sideCols.mp h).1
  · exact Or.inl (mem_sideCols.mp h).1
  · exact Or.inr (mem_sideCols.mp h).1

theorem joinTerms_keys_cover {a b : Ops} {onA onB usg : List String} {jt : JoinType} {lf : Bool}
    (husg : ∀ c ∈ usg, c ∈ (Ops.join a b onA onB jt).cols) :
    ∀ c ∈ usg, c ∈ (joinTerms lf usg (sideCols a.cols usg onA onB) (sideCols b.cols usg onA onB)).map (·.1) := by
  intro c hc
  rw [mem_joinTerms_keys]
  have hm := (mem_joinNodeCols a b onA onB jt c).mp (husg c hc)
  by_cases ha : c ∈ a.cols
  · by_cases hb : c ∈ b.cols
    · exact Or.inl ⟨mem_sideCols.mpr ⟨hb, Or.inl hc⟩, mem_sideCols.mpr ⟨ha, Or.inl hc⟩, hc⟩
    · exact Or.inr (Or.inl ⟨mem_sideCols.mpr ⟨ha, Or.inl hc⟩, fun h => hb (mem_sideCols.mp h).1⟩)
  · have hb := hm.resolve_left ha
    exact Or.inr (Or.inr ⟨mem_sideCols.mpr ⟨hb, Or.inl hc⟩, fun h => ha (mem_sideCols.mp h).1⟩)

theorem ref_flags (jt : JoinType) (hjt : jt ≠ .outer) :
    (jt == .left || jt == .full || jt == .outer || (jt == .cross && SemCfg.ref.crossAsOuter)) = (jt == .left || jt == .full) ∧
    (jt == .right || jt == .full || jt == .outer || (jt == .cross && SemCfg.ref.crossAsOuter)) = (jt == .right || jt == .full) := by
  cases jt <;> first | exact ⟨rfl, rfl⟩ | exact absurd rfl hjt

/-- **A natively rendered join step over two sound sub-queries is sound**: bound with any sub-set of the request
`usg`, it returns, row by row in the same order, the reference join (`semJoin SemCfg.ref`: null keys never match,
unmatched rows padded with nulls, common columns coalesced left first) of the two reference tables. -/
theorem sound_joinStep {nl nr : Near} {a b : Ops} {onA onB usg Sl Sr : List String} {jt : JoinType} {ta tb : Table}
    (nm ln rn : String) (key : Option String)
    (hjt : jt ≠ .outer) (hoa : ∀ c ∈ onA, c ∈ a.cols) (hob : ∀ c ∈ onB, c ∈ b.cols)
    (hta : ta.cols = a.cols) (htb : tb.cols = b.cols)
    (husg : ∀ c ∈ usg, c ∈ (Ops.join a b onA onB jt).cols)
    (hl : Sound Θ ec env nl Sl a.cols ta) (hlS : ∀ c ∈ sideCols a.cols usg onA onB, c ∈ Sl)
    (hr : Sound Θ ec env nr Sr b.cols tb) (hrS : ∀ c ∈ sideCols b.cols usg onA onB, c ∈ Sr) :
    Sound Θ ec env
      (.join nm (joinTerms true usg (sideCols a.cols usg onA onB) (sideCols b.cols usg onA onB)) nl
        (sideCols a.cols usg onA onB) ln nr (sideCols b.cols usg onA onB) rn jt onA onB key)
      usg (Ops.join a b onA onB jt).cols
      ((semJoin SemCfg.ref jt onA onB ta tb (appendNew a.cols b.cols)).selectCols (Ops.join a b onA onB jt).cols) := by
  refine ⟨?_, ?_⟩
  · intro u' hu' force
    obtain ⟨Tl, hTl, _, hTlr⟩ := hl.req _ hlS false
    obtain ⟨Tr, hTr, _, hTrr⟩ := hr.req _ hrS false
    rw [semNear_join, hTl, hTr]
    simp only [Except.bind]
    rw [if_neg (by simpa using hjt)]
    refine ⟨_, rfl, subset_joinOut _ _, ?_⟩
    have hu'n : ∀ c ∈ u', c ∈ (Ops.join a b onA onB jt).cols := fun c hc => husg c (hu' c hc)
    have hnall : ∀ c ∈ (Ops.join a b onA onB jt).cols, c ∈ appendNew a.cols b.cols := by
      intro c hc; exact mem_appendNew.mpr ((mem_joinNodeCols a b onA onB jt c).mp hc)
    simp only [Table.selectCols]
    rw [joinRows_select _ _ _ (subset_joinOut _ _),
      joinRowsG_transport _ _ hTlr hTrr
        (refMatch_select _ _ (fun c hc => mem_sideCols.mpr ⟨hoa c hc, Or.inr (Or.inl hc)⟩)
          (fun c hc => mem_sideCols.mpr ⟨hob c hc, Or.inr (Or.inr hc)⟩))
        (fun x y => List.map_congr_left (fun c _ => by rw [sqlCell_select])),
      select_map_select _ hu'n, semJoin_eq, joinRowsG_map, (ref_flags jt hjt).1, (ref_flags jt hjt).2, hta, htb]
    have hcell : ∀ x y : Option Row,
        u'.map (fun c => (c, sqlCell (sideCols a.cols usg onA onB) (sideCols b.cols usg onA onB)
          (joinTerms true usg (sideCols a.cols usg onA onB) (sideCols b.cols usg onA onB)) x y c)) =
        (joinRow a.cols b.cols (appendNew a.cols b.cols) x y).select u' := by
      intro x y
      rw [joinRow_eq, select_mkRow _ (fun c hc => hnall c (hu'n c hc))]
      exact List.map_congr_left (fun c hc => by rw [joinTerms_cell husg x y (hu' c hc)])
    exact joinRowsG_congr _ _ (fun _ _ _ _ => rfl) (fun _ _ _ _ => hcell _ _) (fun _ _ => hcell _ _)
      (fun _ _ => hcell _ _)
  · intro _
    exact ⟨_, rfl, joinTerms_keys_declared, joinTerms_keys_cover husg⟩

/-! ### the translation of a natively rendered join -/

/-- the request a join works with: a consumer that needs no column still gets one (fix D33) -/
def joinUsg (n : Ops) (u : List String) : List String := if u.isEmpty then n.cols.take 1 else u

theorem subset_joinUsg (n : Ops) (u : List String) : ∀ c ∈ u, c ∈ joinUsg n u := by
  intro c hc
  unfold joinUsg
  split
  · rename_i he
    have : u = [] := by simpa using he
    subst this; cases hc
  · exact hc

/-- shape of the translation of a join the dialect renders natively (every join on the generic dialect; INNER, LEFT
and CROSS on SQLite) -/
theorem toNear_join_native {fuel : Nat} {a b : Ops} {onA onB u : List String} {jt : JoinType} {st st' : Nat} {q : Near}
    (hnat : cfg.emulateRightFull = false ∨ (jt ≠ .right ∧ jt ≠ .full))
    (h : toNear cfg (fuel + 1) (.join a b onA onB jt) (some u) st = .ok (q, st')) :
    ∃ nl nr st1 nm ln rn key,
      joinUsg (.join a b onA onB jt) u ≠ [] ∧
      (∀ c ∈ joinUsg (.join a b onA onB jt) u, c ∈ (Ops.join a b onA onB jt).cols) ∧
      toNear cfg fuel a (some (sideCols a.cols (joinUsg (.join a b onA onB jt) u) onA onB)) (st + 1) = .ok (nl, st1) ∧
      toNear cfg fuel b (some (sideCols b.cols (joinUsg (.join a b onA onB jt) u) onA onB)) st1 = .ok (nr, st') ∧
      q = .join nm (joinTerms true (joinUsg (.join a b onA onB jt) u)
            (sideCols a.cols (joinUsg (.join a b onA onB jt) u) onA onB)
            (sideCols b.cols (joinUsg (.join a b onA onB jt) u) onA onB))
          nl (sideCols a.cols (joinUsg (.join a b onA onB jt) u) onA onB) ln
          nr (sideCols b.cols (joinUsg (.join a b onA onB jt) u) onA onB) rn jt onA onB key := by
  have hsw : (cfg.emulateRightFull && jt == .right) = false := by
    rcases hnat with h | h
    · simp [h]
    · cases jt <;> simp_all
  have hfu : (cfg.emulateRightFull && jt == .full) = false := by
    rcases hnat with h | h
    · simp [h]
    · cases jt <;> simp_all
  rw [toNear] at h
  simp only [Option.getD_some, hsw, hfu, Bool.false_eq_true, ↓reduceIte] at h
  obtain ⟨i, s1, h1, h⟩ := bindM_ok.mp h
  cases fresh_ok.mp h1
  obtain ⟨_, s2, h2, h⟩ := bindM_ok.mp h
  obtain ⟨hne, e2⟩ := guardM_ok.mp h2
  cases e2
  obtain ⟨_, s3, h3, h⟩ := bindM_ok.mp h
  obtain ⟨hsub, e3⟩ := guardM_ok.mp h3
  cases e3
  obtain ⟨nl, s4, h4, h⟩ := bindM_ok.mp h
  obtain ⟨nr, s5, h5, h⟩ := bindM_ok.mp h
  cases pureM_ok.mp h
  refine ⟨nl, nr, s4, _, _, _, _, ?_, subset_iff.mp hsub, h4, h5, rfl⟩
  simpa [joinUsg] using hne

/-- **Induction step for a join the dialect renders natively** (generic dialect: INNER, LEFT, RIGHT, FULL, CROSS;
SQLite: INNER, LEFT, CROSS).  `OUTER` is excluded (`semNear` has no such join: not SQL). -/
theorem transOK_join (hJU : ∀ q : Near, q.isJU = true → G q) (fuel : Nat) (a b : Ops) (onA onB : List String)
    (jt : JoinType) (hnat : cfg.emulateRightFull = false ∨ (jt ≠ .right ∧ jt ≠ .full)) (hjt : jt ≠ .outer)
    (hoa : ∀ c ∈ onA, c ∈ a.cols) (hob : ∀ c ∈ onB, c ∈ b.cols)
    (hca : ∀ ta, semE ec Θ SemCfg.ref env a = .ok ta → ta.cols = a.cols)
    (hcb : ∀ tb, semE ec Θ SemCfg.ref env b = .ok tb → tb.cols = b.cols)
    (iha : TransOK Θ ec env SemCfg.ref G cfg fuel a) (ihb : TransOK Θ ec env SemCfg.ref G cfg fuel b) :
    TransOK Θ ec env SemCfg.ref G cfg (fuel + 1) (.join a b onA onB jt) := by
  intro u st q st' tp _ h hsem
  obtain ⟨nl, nr, st1, nm, ln, rn, key, _, hsub, hnl, hnr, rfl⟩ := toNear_join_native hnat h
  obtain ⟨ta, tb, hta, htb, rfl⟩ := semG_join_ok hsem
  obtain ⟨_, Sl, hSl, _, hsl⟩ := iha _ _ nl st1 ta (fun c hc => (mem_sideCols.mp hc).1) hnl hta
  obtain ⟨_, Sr, hSr, _, hsr⟩ := ihb _ _ nr st' tb (fun c hc => (mem_sideCols.mp hc).1) hnr htb
  exact ⟨hJU _ rfl, _, subset_joinUsg _ u, hsub,
    sound_joinStep nm ln rn key hjt hoa hob (hca ta hta) (hcb tb htb) hsub hsl hSl hsr hSr⟩

end Sql
end DAVerif
