import DAVerif.Proofs.SqlConcat
import DAVerif.Proofs.SqlOrder
/-!
C01/C02/C16: the main induction for the fragment with joins and `concat_rows`
(`transOK_fragJ`: unary fragment ∪ `natural_join` rendered natively ∪ `concat_rows`, no extend merges), the root call
(`toNear_none_eq_ju`, `root_of_sound_ju`, `stageA_root_ju`) and stage B for this fragment (`sem_equiv_semE_fragJ`).

Scope predicates (all Boolean):
* `InFragJ` – node kinds: everything but `convert_records`;
* `JoinWF` – what `NaturalJoinNode.__init__` / `ConcatRowsNode.__init__` establish: join keys are columns of their side,
  the two sides of a `concat_rows` have the same column set;
* `JoinTypesSql` – no join of type `OUTER` (not SQL: the engine rejects the query);
* `JoinsNative cfg` – every join is rendered natively by the dialect (always on the generic dialect; INNER, LEFT, CROSS
  on SQLite) – the emulated RIGHT / FULL joins of SQLite change the row order and are treated in `SqlJoinSqlite.lean`;
* `LabelSidesPlain` – the sides of a `concat_rows` **with id column** do not end in an `order_rows` without limit
  (the builder call that adds the label column skips such a node: the rendered side has no `ORDER BY`, only the row
  multiset of that side is kept – the row-list invariant of stage A does not cover it).
-/
namespace DAVerif
namespace Sql
open DAVerif.Ops (usedFromSources unionL)
open Rules26 (usedBy keys)

/-! ### scope -/

/-- the node kinds covered: everything but `convert_records` -/
def InFragJ : Ops → Bool
  | .table _ _ => true
  | .extend s _ _ _ _ _ | .project s _ _ | .selectRows s _ | .selectCols s _ | .dropCols s _
  | .order s _ _ _ | .rename s _ | .mapCols s _ _ => InFragJ s
  | .join a b _ _ _ | .concat a b _ _ _ => InFragJ a && InFragJ b
  | .convert .. => false

theorem inFragJ_of_inFrag {p : Ops} (h : InFrag p = true) : InFragJ p = true := by
  induction p with
  | join => cases h
  | concat => cases h
  | convert => cases h
  | table => rfl
  | _ => rename_i ih; exact ih h

/-- facts the node constructors of the two-table steps establish (beyond `WF` and `SqlWF`) -/
def joinWFb : Ops → Bool
  | .table _ _ => true
  | .extend s _ _ _ _ _ | .project s _ _ | .selectRows s _ | .selectCols s _ | .dropCols s _
  | .order s _ _ _ | .rename s _ | .mapCols s _ _ | .convert s _ => joinWFb s
  | .join a b onA onB _ => joinWFb a && joinWFb b && subset onA a.cols && subset onB b.cols
  | .concat a b _ _ _ => joinWFb a && joinWFb b && subset a.cols b.cols && subset b.cols a.cols

def JoinWF (p : Ops) : Prop := joinWFb p = true
instance (p : Ops) : Decidable (JoinWF p) := by unfold JoinWF; exact inferInstance

/-- no join of type `OUTER` (which is not SQL) -/
def joinTypesSqlb : Ops → Bool
  | .table _ _ => true
  | .extend s _ _ _ _ _ | .project s _ _ | .selectRows s _ | .selectCols s _ | .dropCols s _
  | .order s _ _ _ | .rename s _ | .mapCols s _ _ | .convert s _ => joinTypesSqlb s
  | .join a b _ _ jt => joinTypesSqlb a && joinTypesSqlb b && jt != .outer
  | .concat a b _ _ _ => joinTypesSqlb a && joinTypesSqlb b

def JoinTypesSql (p : Ops) : Prop := joinTypesSqlb p = true
instance (p : Ops) : Decidable (JoinTypesSql p) := by unfold JoinTypesSql; exact inferInstance

/-- every join is rendered natively by the dialect -/
def joinsNativeb (cfg : SqlCfg) : Ops → Bool
  | .table _ _ => true
  | .extend s _ _ _ _ _ | .project s _ _ | .selectRows s _ | .selectCols s _ | .dropCols s _
  | .order s _ _ _ | .rename s _ | .mapCols s _ _ | .convert s _ => joinsNativeb cfg s
  | .join a b _ _ jt => joinsNativeb cfg a && joinsNativeb cfg b && (!cfg.emulateRightFull || (jt != .right && jt != .full))
  | .concat a b _ _ _ => joinsNativeb cfg a && joinsNativeb cfg b

def JoinsNative (cfg : SqlCfg) (p : Ops) : Prop := joinsNativeb cfg p = true
instance (cfg : SqlCfg) (p : Ops) : Decidable (JoinsNative cfg p) := by unfold JoinsNative; exact inferInstance

/-- on a dialect with native RIGHT / FULL joins every join is rendered natively -/
theorem joinsNative_of_generic {cfg : SqlCfg} (h : cfg.emulateRightFull = false) (p : Ops) : JoinsNative cfg p := by
  unfold JoinsNative
  induction p with
  | table => rfl
  | join a b oa ob jt iha ihb => simp [joinsNativeb, iha, ihb, h]
  | concat a b i an bn iha ihb => simp [joinsNativeb, iha, ihb]
  | _ => rename_i ih; exact ih

/-- not an `order_rows` without limit (the node every builder call skips) -/
def noTrivTop : Ops → Bool
  | .order _ _ _ none => false
  | _ => true

theorem strip_eq_of_noTrivTop {p : Ops} (h : noTrivTop p = true) : strip p = p := by
  cases p with
  | order s cs rv lim =>
    cases lim with
    | none => cases h
    | some n => rfl
  | _ => rfl

/-- the sides of a labelled `concat_rows` do not end in an `order_rows` without limit -/
def labelSidesPlainb : Ops → Bool
  | .table _ _ => true
  | .extend s _ _ _ _ _ | .project s _ _ | .selectRows s _ | .selectCols s _ | .dropCols s _
  | .order s _ _ _ | .rename s _ | .mapCols s _ _ | .convert s _ => labelSidesPlainb s
  | .join a b _ _ _ => labelSidesPlainb a && labelSidesPlainb b
  | .concat a b idc _ _ => labelSidesPlainb a && labelSidesPlainb b && (idc.isNone || (noTrivTop a && noTrivTop b))

def LabelSidesPlain (p : Ops) : Prop := labelSidesPlainb p = true
instance (p : Ops) : Decidable (LabelSidesPlain p) := by unfold LabelSidesPlain; exact inferInstance

/-! ### `semG` on the fragment -/

/-- columns and shape of every result of `semG` on the fragment (no hypothesis on `Θ.convert`) -/
theorem semG_cols_wf_fragJ (le : RowCmp) (Θ : Interp) (cfg : SemCfg) (env : Env) (p : Ops) (hf : InFragJ p = true) :
    ∀ t, semG le Θ cfg env p = .ok t → t.cols = p.cols ∧ t.WF := by
  induction p with
  | table name cs =>
    intro t h
    simp only [semG] at h
    split at h
    · cases h
    · split at h
      · cases h; exact ⟨rfl, Table.wf_selectCols _ _⟩
      · cases h
  | extend src ops part od rv w ih =>
    intro t h
    simp only [semG, bind, Except.bind] at h
    split at h
    · cases h
    · split at h <;> cases h
      · exact ⟨rfl, semExtendWindowG_wf _ _ _ _ _ _ _ _⟩
      · exact ⟨rfl, semExtendPlain_wf _ _ _ _⟩
  | project src ops g ih =>
    intro t h
    simp only [semG, bind, Except.bind] at h
    split at h
    · cases h
    · cases h
      exact ⟨(semProject_wf ..).2, (semProject_wf ..).1⟩
  | selectRows src e ih =>
    intro t h
    simp only [semG, bind, Except.bind] at h
    split at h
    · cases h
    · rename_i t0 h0
      cases h
      obtain ⟨hc, hw⟩ := ih hf t0 h0
      refine ⟨hc, ?_⟩
      intro r hr
      simp only [semSelectRows, List.mem_filter] at hr
      exact hw r hr.1
  | selectCols src cs ih =>
    intro t h
    simp only [semG, bind, Except.bind] at h
    split at h
    · cases h
    · cases h; exact ⟨rfl, Table.wf_selectCols _ _⟩
  | dropCols src dels ih =>
    intro t h
    simp only [semG, bind, Except.bind] at h
    split at h
    · cases h
    · cases h; exact ⟨rfl, Table.wf_selectCols _ _⟩
  | order src cs rv lim ih =>
    intro t h
    simp only [semG, bind, Except.bind] at h
    split at h
    · cases h
    · rename_i t0 h0
      cases h
      obtain ⟨hc, hw⟩ := ih hf t0 h0
      refine ⟨hc, ?_⟩
      intro r hr
      have hmem : r ∈ t0.rows.mergeSort (fun a b => le cs rv a b) := by
        simp only [semOrderG] at hr
        cases lim with
        | none => exact hr
        | some n => exact List.mem_of_mem_take hr
      exact hw r (List.mem_mergeSort.mp hmem)
  | rename src m ih =>
    intro t h
    simp only [semG, bind, Except.bind] at h
    split at h
    · cases h
    · rename_i t0 h0
      cases h
      obtain ⟨hc, hw⟩ := ih hf t0 h0
      refine ⟨rfl, ?_⟩
      intro r hr
      simp only [List.mem_map] at hr
      obtain ⟨r0, hr0, rfl⟩ := hr
      rw [Row.keys_rename, hw r0 hr0, hc]
      rfl
  | mapCols src m dels ih =>
    intro t h
    simp only [semG, bind, Except.bind] at h
    split at h
    · cases h
    · rename_i t0 h0
      cases h
      obtain ⟨hc, hw⟩ := ih hf t0 h0
      refine ⟨rfl, ?_⟩
      intro r hr
      simp only [List.mem_map] at hr
      obtain ⟨r0, hr0, rfl⟩ := hr
      rw [Row.keys_rename, Row.keys_drop, hw r0 hr0, hc]
      rfl
  | join a b oa ob jt iha ihb =>
    intro t h
    simp only [semG, bind, Except.bind] at h
    split at h
    · cases h
    · split at h
      · cases h
      · cases h; exact ⟨rfl, Table.wf_selectCols _ _⟩
  | concat a b idc an bn iha ihb =>
    intro t h
    simp only [semG, bind, Except.bind] at h
    split at h
    · cases h
    · split at h
      · cases h
      · cases h; exact ⟨rfl, semConcat_wf _ _ _ _ _ _⟩
  | convert src rm ih => cases hf

/-- evaluation of the fragment succeeds when the environment has the tables with their declared columns -/
theorem semG_ok_fragJ (le : RowCmp) (Θ : Interp) (cfg : SemCfg) (env : Env) (p : Ops) (hf : InFragJ p = true)
    (ex : Bool) (he : EnvOK ex env p) : ∃ t, semG le Θ cfg env p = .ok t := by
  induction p with
  | table name cs =>
    obtain ⟨t, hl, hs, _⟩ := he (name, cs) (by simp [Ops.tables])
    exact ⟨t.selectCols cs, by simp only [semG, hl, subset_iff.mpr hs, ↓reduceIte]⟩
  | extend src ops part od rv w ih =>
    obtain ⟨t, ht⟩ := ih hf he
    cases w <;> exact ⟨_, by simp only [semG, ht, bind, Except.bind, pure, Except.pure]; rfl⟩
  | project src ops g ih =>
    obtain ⟨t, ht⟩ := ih hf he
    exact ⟨_, by simp only [semG, ht, bind, Except.bind, pure, Except.pure]; rfl⟩
  | selectRows src e ih =>
    obtain ⟨t, ht⟩ := ih hf he
    exact ⟨_, by simp only [semG, ht, bind, Except.bind, pure, Except.pure]; rfl⟩
  | selectCols src cs ih =>
    obtain ⟨t, ht⟩ := ih hf he
    exact ⟨_, by simp only [semG, ht, bind, Except.bind, pure, Except.pure]; rfl⟩
  | dropCols src dels ih =>
    obtain ⟨t, ht⟩ := ih hf he
    exact ⟨_, by simp only [semG, ht, bind, Except.bind, pure, Except.pure]; rfl⟩
  | order src cs rv lim ih =>
    obtain ⟨t, ht⟩ := ih hf he
    exact ⟨_, by simp only [semG, ht, bind, Except.bind, pure, Except.pure]; rfl⟩
  | rename src m ih =>
    obtain ⟨t, ht⟩ := ih hf he
    exact ⟨_, by simp only [semG, ht, bind, Except.bind, pure, Except.pure]; rfl⟩
  | mapCols src m dels ih =>
    obtain ⟨t, ht⟩ := ih hf he
    exact ⟨_, by simp only [semG, ht, bind, Except.bind, pure, Except.pure]; rfl⟩
  | join a b oa ob jt iha ihb =>
    simp only [InFragJ, Bool.and_eq_true] at hf
    obtain ⟨ta, hta⟩ := iha hf.1 (fun nc h => he nc (by simp [Ops.tables, h]))
    obtain ⟨tb, htb⟩ := ihb hf.2 (fun nc h => he nc (by simp [Ops.tables, h]))
    exact ⟨_, by simp only [semG, hta, htb, bind, Except.bind, pure, Except.pure]; rfl⟩
  | concat a b idc an bn iha ihb =>
    simp only [InFragJ, Bool.and_eq_true] at hf
    obtain ⟨ta, hta⟩ := iha hf.1 (fun nc h => he nc (by simp [Ops.tables, h]))
    obtain ⟨tb, htb⟩ := ihb hf.2 (fun nc h => he nc (by simp [Ops.tables, h]))
    exact ⟨_, by simp only [semG, hta, htb, bind, Except.bind, pure, Except.pure]; rfl⟩
  | convert src rm ih => cases hf

/-! ### the main induction -/

/-- the structural hypotheses of the translation theorem, bundled -/
structure Good (cfg : SqlCfg) (env : Env) (p : Ops) : Prop where
  frag : InFragJ p = true
  wf : WF p
  sqlwf : SqlWF p
  maps : MapsOK p
  jwf : JoinWF p
  types : JoinTypesSql p
  native : JoinsNative cfg p
  label : LabelSidesPlain p
  env : EnvOK false env p

theorem Good.unary {cfg : SqlCfg} {env : Env} {p s : Ops} (h : Good cfg env p)
    (hfrag : InFragJ p = true → InFragJ s = true) (hwf : WF p → WF s) (hsq : SqlWF p → SqlWF s)
    (hmp : MapsOK p → MapsOK s) (hj : JoinWF p → JoinWF s) (ht : JoinTypesSql p → JoinTypesSql s)
    (hn : JoinsNative cfg p → JoinsNative cfg s) (hl : LabelSidesPlain p → LabelSidesPlain s)
    (htab : ∀ nc ∈ s.tables, nc ∈ p.tables) : Good cfg env s :=
  ⟨hfrag h.frag, hwf h.wf, hsq h.sqlwf, hmp h.maps, hj h.jwf, ht h.types, hn h.native, hl h.label,
    fun nc hnc => h.env nc (htab nc hnc)⟩

/-- **Stage A, all requests, fragment with joins and `concat_rows`.**  For every well-formed pipeline `p` of the
fragment whose joins the dialect renders natively, every fuel, every requested column set `u ⊆ p.cols`: a successful
translation without extend merges satisfies the invariant `Sound` against the table `p` evaluates to under the
engine's row ordering and the reference (standard SQL) join semantics. -/
theorem transOK_fragJ (Θ : Interp) (ec : EngineCfg) (env : Env) (cfg : SqlCfg) (hm : cfg.merges = false) :
    ∀ (n : Nat) (p : Ops), p.size ≤ n → Good cfg env p → ∀ fuel : Nat,
      TransOK Θ ec env SemCfg.ref (fun q => q.isJU = true) cfg fuel p := by
  have hG := shapeOK_ju Θ ec env
  have hJU : ∀ q : Near, q.isJU = true → (fun q : Near => q.isJU = true) q := fun _ h => h
  intro n
  induction n with
  | zero => intro p hp; cases p <;> simp [Ops.size] at hp
  | succ n ih =>
    intro p hp hg fuel
    cases p with
    | table name cs =>
      obtain ⟨t, hl, hs, _⟩ := hg.env (name, cs) (by simp [Ops.tables])
      exact transOK_table hG fuel name cs ⟨t, hl, hs⟩
    | extend src ops part od rv w =>
      have hgs : Good cfg env src := hg.unary id (fun h => h.1) id id id id id id (fun _ h => h)
      cases fuel with
      | zero => exact transOK_zero _ _ _ _ _ _ _
      | succ fuel =>
        exact transOK_extend hG hm fuel src ops part od rv w hg.wf.2
          (ih src (by simp [Ops.size] at hp; omega) hgs fuel)
    | project src ops g =>
      have hsq := hg.sqlwf
      simp only [SqlWF, sqlWFb, Bool.and_eq_true, subset_iff, nodupB_iff, disjoint_iff] at hsq
      obtain ⟨⟨⟨⟨hs, h1⟩, h2⟩, h3⟩, h4⟩ := hsq
      have hgs : Good cfg env src := hg.unary id (fun h => h.1) (fun _ => hs) id id id id id (fun _ h => h)
      cases fuel with
      | zero => exact transOK_zero _ _ _ _ _ _ _
      | succ fuel =>
        exact transOK_project hG fuel src ops g h1 h2 h3 h4 hg.wf.2.2
          (ih src (by simp [Ops.size] at hp; omega) hgs fuel)
    | selectRows src e =>
      have hsq := hg.sqlwf
      simp only [SqlWF, sqlWFb, Bool.and_eq_true, subset_iff] at hsq
      have hgs : Good cfg env src := hg.unary id id (fun _ => hsq.1) id id id id id (fun _ h => h)
      cases fuel with
      | zero => exact transOK_zero _ _ _ _ _ _ _
      | succ fuel =>
        exact transOK_selectRows hG fuel src e hsq.2 (ih src (by simp [Ops.size] at hp; omega) hgs fuel)
    | selectCols src cs =>
      have hgs : Good cfg env src := hg.unary id (fun h => h.1) id id id id id id (fun _ h => h)
      cases fuel with
      | zero => exact transOK_zero _ _ _ _ _ _ _
      | succ fuel =>
        exact transOK_selectCols hG fuel src cs hg.wf.2.2.2 (ih src (by simp [Ops.size] at hp; omega) hgs fuel)
    | dropCols src dels =>
      have hgs : Good cfg env src := hg.unary id (fun h => h.1) id id id id id id (fun _ h => h)
      cases fuel with
      | zero => exact transOK_zero _ _ _ _ _ _ _
      | succ fuel =>
        exact transOK_dropCols hG fuel src dels (ih src (by simp [Ops.size] at hp; omega) hgs fuel)
    | order src cs rv lim =>
      have hsq := hg.sqlwf
      simp only [SqlWF, sqlWFb, Bool.and_eq_true, subset_iff] at hsq
      have hgs : Good cfg env src := hg.unary id id (fun _ => hsq.1) id id id id id (fun _ h => h)
      cases fuel with
      | zero => exact transOK_zero _ _ _ _ _ _ _
      | succ fuel =>
        exact transOK_order hG fuel src cs rv lim hsq.2 (ih src (by simp [Ops.size] at hp; omega) hgs fuel)
    | rename src m =>
      have hsq := hg.sqlwf
      have hmp := hg.maps
      simp only [SqlWF, sqlWFb, Bool.and_eq_true, subset_iff, List.all_eq_true, Bool.or_eq_true,
        Bool.not_eq_eq_eq_not, Bool.not_true, List.contains_eq_mem, decide_eq_false_iff_not, decide_eq_true_eq] at hsq
      simp only [MapsOK, mapsOKb, Bool.and_eq_true, nodupB_iff] at hmp
      obtain ⟨⟨hs, h1⟩, h2⟩ := hsq
      obtain ⟨⟨hmps, h3⟩, h4⟩ := hmp
      have hgs : Good cfg env src :=
        hg.unary id (fun h => h.1) (fun _ => hs) (fun _ => hmps) id id id id (fun _ h => h)
      cases fuel with
      | zero => exact transOK_zero _ _ _ _ _ _ _
      | succ fuel =>
        refine transOK_rename hG fuel src m ?_ ?_ h3 h4 hg.wf.2 (semG_cols_wf_fragJ _ Θ SemCfg.ref env src hgs.frag)
          (ih src (by simp [Ops.size] at hp; omega) hgs fuel)
        · intro kv hkv; exact h1 kv.2 (List.mem_map.mpr ⟨kv, hkv, rfl⟩)
        · intro kv hkv hin
          rcases h2 kv hkv with h | h
          · exact absurd hin h
          · exact h
    | mapCols src m dels =>
      have hsq := hg.sqlwf
      have hmp := hg.maps
      simp only [SqlWF, sqlWFb, Bool.and_eq_true, subset_iff, List.all_eq_true, Bool.or_eq_true,
        Bool.not_eq_eq_eq_not, Bool.not_true, List.contains_eq_mem, decide_eq_false_iff_not, decide_eq_true_eq] at hsq
      simp only [MapsOK, mapsOKb, Bool.and_eq_true, nodupB_iff, disjoint_iff] at hmp
      obtain ⟨⟨⟨hs, h1⟩, h1'⟩, h2⟩ := hsq
      obtain ⟨⟨⟨hmps, h3⟩, h4⟩, h5⟩ := hmp
      have hgs : Good cfg env src :=
        hg.unary id (fun h => h.1) (fun _ => hs) (fun _ => hmps) id id id id (fun _ h => h)
      cases fuel with
      | zero => exact transOK_zero _ _ _ _ _ _ _
      | succ fuel =>
        refine transOK_mapCols hG fuel src m dels ?_ h1' ?_ h3 h4 h5 hg.wf.2.2
          (semG_cols_wf_fragJ _ Θ SemCfg.ref env src hgs.frag) (ih src (by simp [Ops.size] at hp; omega) hgs fuel)
        · intro kv hkv; exact h1 kv.1 (List.mem_map.mpr ⟨kv, hkv, rfl⟩)
        · intro kv hkv hin
          rcases h2 kv hkv with (h | h) | h
          · exact absurd hin h
          · exact Or.inl h
          · exact Or.inr h
    | join a b oa ob jt =>
      have hfr := hg.frag
      have hsq := hg.sqlwf
      have hmp := hg.maps
      have hj := hg.jwf
      have ht := hg.types
      have hn := hg.native
      have hl := hg.label
      simp only [InFragJ, Bool.and_eq_true] at hfr
      simp only [SqlWF, sqlWFb, Bool.and_eq_true] at hsq
      simp only [MapsOK, mapsOKb, Bool.and_eq_true] at hmp
      simp only [JoinWF, joinWFb, Bool.and_eq_true, subset_iff] at hj
      simp only [JoinTypesSql, joinTypesSqlb, Bool.and_eq_true, bne_iff_ne, ne_eq] at ht
      simp only [JoinsNative, joinsNativeb, Bool.and_eq_true, Bool.or_eq_true, Bool.not_eq_eq_eq_not, Bool.not_true,
        bne_iff_ne, ne_eq] at hn
      simp only [LabelSidesPlain, labelSidesPlainb, Bool.and_eq_true] at hl
      have hga : Good cfg env a := ⟨hfr.1, hg.wf.1, hsq.1, hmp.1, hj.1.1.1, ht.1.1, hn.1.1, hl.1,
        fun nc h => hg.env nc (by simp [Ops.tables, h])⟩
      have hgb : Good cfg env b := ⟨hfr.2, hg.wf.2, hsq.2, hmp.2, hj.1.1.2, ht.1.2, hn.1.2, hl.2,
        fun nc h => hg.env nc (by simp [Ops.tables, h])⟩
      cases fuel with
      | zero => exact transOK_zero _ _ _ _ _ _ _
      | succ fuel =>
        exact transOK_join hJU fuel a b oa ob jt hn.2 ht.2 hj.1.2 hj.2
          (fun ta h => (semG_cols_wf_fragJ _ Θ SemCfg.ref env a hga.frag ta h).1)
          (fun tb h => (semG_cols_wf_fragJ _ Θ SemCfg.ref env b hgb.frag tb h).1)
          (ih a (by simp [Ops.size] at hp; omega) hga fuel) (ih b (by simp [Ops.size] at hp; omega) hgb fuel)
    | concat a b idc an bn =>
      have hfr := hg.frag
      have hsq := hg.sqlwf
      have hmp := hg.maps
      have hj := hg.jwf
      have ht := hg.types
      have hn := hg.native
      have hl := hg.label
      simp only [InFragJ, Bool.and_eq_true] at hfr
      simp only [SqlWF, sqlWFb, Bool.and_eq_true] at hsq
      simp only [MapsOK, mapsOKb, Bool.and_eq_true] at hmp
      simp only [JoinWF, joinWFb, Bool.and_eq_true, subset_iff] at hj
      simp only [JoinTypesSql, joinTypesSqlb, Bool.and_eq_true] at ht
      simp only [JoinsNative, joinsNativeb, Bool.and_eq_true] at hn
      simp only [LabelSidesPlain, labelSidesPlainb, Bool.and_eq_true, Bool.or_eq_true] at hl
      have hga : Good cfg env a := ⟨hfr.1, hg.wf.1, hsq.1, hmp.1, hj.1.1.1, ht.1, hn.1, hl.1.1,
        fun nc h => hg.env nc (by simp [Ops.tables, h])⟩
      have hgb : Good cfg env b := ⟨hfr.2, hg.wf.2.1, hsq.2, hmp.2, hj.1.1.2, ht.2, hn.2, hl.1.2,
        fun nc h => hg.env nc (by simp [Ops.tables, h])⟩
      have hsa : a.size ≤ n := by simp [Ops.size] at hp; omega
      have hsb : b.size ≤ n := by simp [Ops.size] at hp; omega
      -- the source of a side that is an `extend` node (the builder may merge the label into it)
      have hsrc : ∀ (x : Ops), x.size ≤ n → Good cfg env x → ∀ src ops1 p o r w, x = .extend src ops1 p o r w →
          ∀ f, TransOK Θ ec env SemCfg.ref (fun q => q.isJU = true) cfg f src := by
        intro x hx hgx src ops1 p o r w e f
        subst e
        exact ih src (by simp [Ops.size] at hx; omega)
          (hgx.unary id (fun h => h.1) id id id id id id (fun _ h => h)) f
      cases fuel with
      | zero => exact transOK_zero _ _ _ _ _ _ _
      | succ fuel =>
        refine transOK_concat hJU fuel a b idc an bn (ih a hsa hga fuel) (ih b hsb hgb fuel) ?_ ?_
        · intro c hc
          subst hc
          have hplain := hl.2.resolve_left (by simp)
          exact labelOK_of_wf hG hm hga.wf (strip_eq_of_noTrivTop hplain.1) (hg.wf.2.2 c rfl)
            (fun f => ih a hsa hga f) (hsrc a hsa hga) fuel
        · intro c hc
          subst hc
          have hplain := hl.2.resolve_left (by simp)
          exact labelOK_of_wf hG hm hgb.wf (strip_eq_of_noTrivTop hplain.2)
            (fun h => hg.wf.2.2 c rfl (hj.2 c h))
            (fun f => ih b hsb hgb f) (hsrc b hsb hgb) fuel
    | convert src rm => exact absurd hg.frag (by simp [InFragJ])

end Sql
end DAVerif
