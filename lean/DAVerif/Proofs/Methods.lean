import DAVerif.Spec.DocSem
import DAVerif.Sem.ThetaC05
/-!
Lemmas for C05: shapes of the documented domain, folds, and per-operator agreement of the backend models
(`ThetaX` pandas, `ThetaSqlX` SQLite) with the documentation `Doc.docScalar`.

Technique: the big `match op, args with` of `Theta.scalar` is never unfolded by `simp` (that is prohibitively slow);
each use is a `show`/`rfl` step at a *concrete* operator name and argument shape, which the kernel evaluates.
-/
namespace DAVerif.C05
open DAVerif DAVerif.Doc

/-! ### shapes -/

theorem num1_some {f : Rat → Option Val} {args : List ArgV} {v : Val} (h : num1 f args = some v) :
    ∃ x, args = [.v (.num x)] ∧ f x = some v := by
  unfold num1 at h
  split at h
  · exact ⟨_, rfl, h⟩
  · simp at h

theorem num2_some {f : Rat → Rat → Option Val} {args : List ArgV} {v : Val} (h : num2 f args = some v) :
    ∃ x y, args = [.v (.num x), .v (.num y)] ∧ f x y = some v := by
  unfold num2 at h
  split at h
  · exact ⟨_, _, rfl, h⟩
  · simp at h

theorem cmp_some {f : Val → Val → Bool} {args : List ArgV} {v : Val} (h : cmp f args = some v) :
    ∃ a b, args = [.v a, .v b] ∧ sameKind a b = true ∧ v = .bool (f a b) := by
  unfold cmp at h
  split at h
  · rename_i a b
    by_cases hk : sameKind a b = true
    · simp [hk] at h; exact ⟨a, b, rfl, hk, h.symm⟩
    · simp [hk] at h
  · simp at h

/-- all arguments are cells and they are numbers -/
theorem cells_nums {args : List ArgV} {xs : List Rat} (h : (cells? args).bind nums? = some xs) :
    args = xs.map (fun x => ArgV.v (.num x)) := by
  induction args generalizing xs with
  | nil => simp [cells?, nums?] at h; subst h; rfl
  | cons a r ih =>
    cases a with
    | v x =>
      cases hr : cells? r with
      | none => simp [cells?, hr] at h
      | some cs =>
        cases x with
        | num q =>
          cases hn : nums? cs with
          | none => simp [cells?, hr, nums?, hn] at h
          | some ys =>
            simp [cells?, hr, nums?, hn] at h
            subst h
            have := ih (xs := ys) (by simp [hr, hn])
            simp [this]
        | null => simp [cells?, hr, nums?] at h
        | bool b => simp [cells?, hr, nums?] at h
        | str s => simp [cells?, hr, nums?] at h
    | l xs => simp [cells?] at h
    | d kvs => simp [cells?] at h

theorem cells_bools {args : List ArgV} {bs : List Bool} (h : (cells? args).bind bools? = some bs) :
    args = bs.map (fun b => ArgV.v (.bool b)) := by
  induction args generalizing bs with
  | nil => simp [cells?, bools?] at h; subst h; rfl
  | cons a r ih =>
    cases a with
    | v x =>
      cases hr : cells? r with
      | none => simp [cells?, hr] at h
      | some cs =>
        cases x with
        | bool q =>
          cases hn : bools? cs with
          | none => simp [cells?, hr, bools?, hn] at h
          | some ys =>
            simp [cells?, hr, bools?, hn] at h
            subst h
            have := ih (bs := ys) (by simp [hr, hn])
            simp [this]
        | null => simp [cells?, hr, bools?] at h
        | num b => simp [cells?, hr, bools?] at h
        | str s => simp [cells?, hr, bools?] at h
    | l xs => simp [cells?] at h
    | d kvs => simp [cells?] at h

theorem numK_some {f : Rat → Rat → Rat} {args : List ArgV} {v : Val} (h : numK f args = some v) :
    ∃ x y r, args = (x :: y :: r).map (fun q => ArgV.v (.num q)) ∧ v = .num ((y :: r).foldl f x) := by
  unfold numK at h
  split at h
  · rename_i x y r hb
    simp at h
    exact ⟨x, y, r, cells_nums hb, h.symm⟩
  · simp at h

theorem boolK_some {f : List Bool → Bool} {args : List ArgV} {v : Val} (h : boolK f args = some v) :
    ∃ x y r, args = (x :: y :: r).map (fun q => ArgV.v (.bool q)) ∧ v = .bool (f (x :: y :: r)) := by
  unfold boolK at h
  split at h
  · rename_i x y r hb
    simp at h
    exact ⟨x, y, r, cells_bools hb, h.symm⟩
  · simp at h

/-! ### folds -/

theorem foldl_arith2 (f : Rat → Rat → Rat) (x : Rat) (ys : List Rat) :
    (ys.map Val.num).foldl (Theta.arith2 (fun a b => some (f a b))) (.num x) = .num (ys.foldl f x) := by
  induction ys generalizing x with
  | nil => rfl
  | cons y r ih => simp only [List.map, List.foldl]; exact ih (f x y)

theorem map_cell_nums (xs : List Rat) :
    (xs.map (fun q => ArgV.v (.num q))).map Theta.cell = xs.map Val.num := by
  induction xs with
  | nil => rfl
  | cons x r ih => simp [Theta.cell, ih]

theorem map_cell_bools (xs : List Bool) :
    (xs.map (fun q => ArgV.v (.bool q))).map Theta.cell = xs.map Val.bool := by
  induction xs with
  | nil => rfl
  | cons x r ih => simp [Theta.cell, ih]

theorem foldl_pyAnd (a : Bool) (bs : List Bool) :
    (bs.map Val.bool).foldl ThetaX.pyAnd (.bool a) = .bool (a && bs.all id) := by
  induction bs generalizing a with
  | nil => simp
  | cons b r ih =>
    simp only [List.map, List.foldl]
    cases a <;> simp [ThetaX.pyAnd, ThetaX.falsy, ih]

theorem foldl_pyOr (a : Bool) (bs : List Bool) :
    (bs.map Val.bool).foldl ThetaX.pyOr (.bool a) = .bool (a || bs.any id) := by
  induction bs generalizing a with
  | nil => simp
  | cons b r ih =>
    simp only [List.map, List.foldl]
    cases a <;> simp [ThetaX.pyOr, ThetaX.falsy, ih]

theorem ratPow_succ (x : Rat) (n : Nat) : Theta.ratPow x (n + 1) = Theta.ratPow x n * x := by
  unfold Theta.ratPow
  rw [List.replicate_succ', List.foldl_append]
  rfl

theorem ratPow_eq_ipow (x : Rat) (n : Nat) : Theta.ratPow x n = ipow x n := by
  induction n with
  | zero => rfl
  | succ n ih => rw [ratPow_succ, ih]; rfl

theorem ipow_one (n : Nat) : ipow 1 n = 1 := by
  induction n with
  | zero => rfl
  | succ n ih => simp [ipow, ih]

/-! ### SQL three-valued connectives on booleans -/

theorem tv_bool (b : Bool) : ThetaSql.tv (.bool b) = some b := rfl

theorem and3_bools (bs : List Bool) : ThetaSql.and3 (bs.map Val.bool) = .bool (bs.all id) := by
  unfold ThetaSql.and3
  by_cases h : bs.all id = true
  · have h1 : (bs.map Val.bool).any (fun v => ThetaSql.tv v == some false) = false := by
      simp only [List.any_map, List.any_eq_false]
      intro b hb
      have := List.all_eq_true.mp h b hb
      simp at this
      simp [Function.comp, ThetaSql.tv, this]
    have h2 : (bs.map Val.bool).any (fun v => (ThetaSql.tv v).isNone) = false := by
      simp [List.any_map, Function.comp, ThetaSql.tv]
    simp [h1, h2, h]
  · have h' : bs.all id = false := by simpa using h
    have h1 : (bs.map Val.bool).any (fun v => ThetaSql.tv v == some false) = true := by
      simp only [List.all_eq_false] at h'
      obtain ⟨b, hb, hf⟩ := h'
      simp only [List.any_map, List.any_eq_true]
      exact ⟨b, hb, by simp at hf; simp [Function.comp, ThetaSql.tv, hf]⟩
    simp [h1, h']

theorem or3_bools (bs : List Bool) : ThetaSql.or3 (bs.map Val.bool) = .bool (bs.any id) := by
  unfold ThetaSql.or3
  by_cases h : bs.any id = true
  · have h1 : (bs.map Val.bool).any (fun v => ThetaSql.tv v == some true) = true := by
      simp only [List.any_eq_true] at h
      obtain ⟨b, hb, hf⟩ := h
      simp only [List.any_map, List.any_eq_true]
      exact ⟨b, hb, by simp at hf; simp [Function.comp, ThetaSql.tv, hf]⟩
    simp [h1, h]
  · have h' : bs.any id = false := by simpa using h
    have h1 : (bs.map Val.bool).any (fun v => ThetaSql.tv v == some true) = false := by
      simp only [List.any_map, List.any_eq_false]
      intro b hb
      have := List.any_eq_false.mp h' b hb
      simp at this
      simp [Function.comp, ThetaSql.tv, this]
    have h2 : (bs.map Val.bool).any (fun v => (ThetaSql.tv v).isNone) = false := by
      simp [List.any_map, Function.comp, ThetaSql.tv]
    simp [h1, h2, h']

end DAVerif.C05
