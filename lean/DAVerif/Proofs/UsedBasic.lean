import DAVerif.Spec.Used
import DAVerif.Proofs.SemBasic
/-!
Helper lemmas for C10: rows (lookup, `select`, `set`, `rename`, `drop`), relational lifting of the list
operations the semantics uses (`Forall₂` through `filter`, `map`, `flatMap`, `mergeSort`, `findIdx`, `zipIdx`),
set-like list operations (`appendNew`, `eraseDups`, `subset`).
-/
namespace DAVerif

/-! ### set-like lists -/

theorem mem_appendNew_u {xs ys : List String} {c : String} : c ∈ appendNew xs ys ↔ c ∈ xs ∨ c ∈ ys := by
  unfold appendNew
  induction ys generalizing xs with
  | nil => simp
  | cons y ys ih =>
    simp only [List.foldl_cons]
    rw [ih]
    by_cases h : xs.contains y
    · simp only [h, if_true]
      have : y ∈ xs := by simpa using h
      constructor
      · rintro (h1 | h1)
        · exact .inl h1
        · exact .inr (List.mem_cons_of_mem _ h1)
      · rintro (h1 | h1)
        · exact .inl h1
        · rcases List.mem_cons.mp h1 with rfl | h2
          · exact .inl this
          · exact .inr h2
    · simp only [h, Bool.false_eq_true, if_false, List.mem_append, List.mem_cons,
        List.not_mem_nil, or_false, or_assoc]

theorem mem_unionL {xs ys : List String} {c : String} : c ∈ Ops.unionL xs ys ↔ c ∈ xs ∨ c ∈ ys := mem_appendNew_u

theorem subset_iff_u {a b : List String} : subset a b = true ↔ ∀ c ∈ a, c ∈ b := by
  simp [subset, List.all_eq_true]

theorem disjoint_iff_u {a b : List String} : disjoint a b = true ↔ ∀ c ∈ a, c ∉ b := by
  simp [disjoint, List.all_eq_true]

theorem mem_colsUsed {t : Term} {c : String} : c ∈ t.colsUsed ↔ c ∈ t.colsRaw := by
  simp [Term.colsUsed, List.mem_eraseDups]

theorem mem_colsUsedOps_u {ops : Assign} {c : String} :
    c ∈ Term.colsUsedOps ops ↔ ∃ kv ∈ ops, c ∈ kv.2.colsRaw := by
  simp [Term.colsUsedOps, List.mem_eraseDups, List.mem_flatMap]

/-! ### `lookupLast` -/

theorem lookupLast_cons_u {β : Type} (kv : String × β) (m : List (String × β)) (k : String) :
    lookupLast (kv :: m) k = (lookupLast m k).or (if kv.1 == k then some kv.2 else none) := by
  simp only [lookupLast, List.reverse_cons, List.find?_append, Option.map_or]
  congr 1
  simp only [List.find?_cons, List.find?_nil]
  split <;> simp_all

theorem lookupLast_nil {β : Type} (k : String) : lookupLast ([] : List (String × β)) k = none := rfl

theorem lookupLast_mem {β : Type} {m : List (String × β)} {k : String} {v : β}
    (h : lookupLast m k = some v) : (k, v) ∈ m := by
  induction m with
  | nil => simp [lookupLast_nil] at h
  | cons kv m ih =>
    rw [lookupLast_cons_u] at h
    cases hl : lookupLast m k with
    | some w =>
      rw [hl] at h; simp at h; subst h
      exact List.mem_cons_of_mem _ (ih hl)
    | none =>
      rw [hl] at h
      simp only [Option.none_or] at h
      split at h
      · rename_i hk
        have : kv.1 = k := by simpa using hk
        cases h
        rw [← this]; exact List.mem_cons_self
      · cases h

theorem lookupLast_map {β γ : Type} (m : List (String × β)) (f : β → γ) (k : String) :
    lookupLast (m.map (fun kv => (kv.1, f kv.2))) k = (lookupLast m k).map f := by
  induction m with
  | nil => rfl
  | cons kv m ih =>
    rw [List.map_cons, lookupLast_cons_u, lookupLast_cons_u, ih]
    cases lookupLast m k <;> simp

theorem lookupLast_isSome {β : Type} {m : List (String × β)} {k : String} :
    (lookupLast m k).isSome ↔ k ∈ m.map (·.1) := by
  induction m with
  | nil => simp [lookupLast_nil]
  | cons kv m ih =>
    rw [lookupLast_cons_u]
    cases hl : lookupLast m k with
    | some w =>
      have := ih.mp (by simp [hl])
      simp only [Option.some_or, Option.isSome_some, List.map_cons, List.mem_cons, true_iff]
      exact .inr this
    | none =>
      have hn : k ∉ m.map (·.1) := fun hk => by simpa [hl] using ih.mpr hk
      simp only [Option.none_or, List.map_cons, List.mem_cons]
      constructor
      · intro h
        split at h
        · rename_i hk; left; exact (by simpa using hk : kv.1 = k).symm
        · simp at h
      · rintro (h | h)
        · simp [h]
        · exact absurd h hn

/-! ### rows -/
namespace Row

theorem get_nil (c : String) : Row.get [] c = .null := rfl

theorem get_cons (k : String) (x : Val) (r : Row) (c : String) :
    Row.get ((k, x) :: r) c = if c == k then x else Row.get r c := by
  simp only [Row.get, List.lookup_cons]
  split <;> simp_all

theorem get_eq_null_of_not_mem_keys {r : Row} {c : String} (h : c ∉ r.keys) : r.get c = .null := by
  induction r with
  | nil => rfl
  | cons kv r ih =>
    obtain ⟨k, x⟩ := kv
    simp only [Row.keys, List.map_cons, List.mem_cons, not_or] at h
    rw [get_cons]
    have : (c == k) = false := by simpa using h.1
    simp only [this, Bool.false_eq_true, if_false]
    exact ih h.2

theorem get_select (r : Row) (cs : List String) (c : String) :
    (r.select cs).get c = if c ∈ cs then r.get c else .null := by
  induction cs with
  | nil => simp [Row.select, get_nil]
  | cons k cs ih =>
    simp only [Row.select, List.map_cons] at ih ⊢
    rw [get_cons, ih]
    by_cases h : c = k
    · subst h; simp
    · have : (c == k) = false := by simpa using h
      simp [this, h]

theorem get_select_of_mem {r : Row} {cs : List String} {c : String} (h : c ∈ cs) :
    (r.select cs).get c = r.get c := by
  rw [get_select]; simp [h]

theorem get_set (r : Row) (k : String) (v : Val) (c : String) :
    (r.set k v).get c = if c == k then v else r.get c := by
  induction r with
  | nil => simp [Row.set, get_cons, get_nil]
  | cons kv r ih =>
    obtain ⟨k1, x⟩ := kv
    simp only [Row.set]
    by_cases h1 : k1 == k
    · simp only [h1, if_true, get_cons]
      have e : k1 = k := by simpa using h1
      subst e
      split <;> rfl
    · simp only [h1, Bool.false_eq_true, if_false, get_cons, ih]
      have e : k1 ≠ k := by simpa using h1
      by_cases h2 : c == k1
      · have e2 : c = k1 := by simpa using h2
        have : (c == k) = false := by simpa [e2] using e
        simp [h2, this]
      · simp [h2]

theorem get_setAll (r : Row) (kvs : List (String × Val)) (c : String) :
    (r.setAll kvs).get c = (lookupLast kvs c).getD (r.get c) := by
  induction kvs generalizing r with
  | nil => simp [Row.setAll, lookupLast_nil]
  | cons kv kvs ih =>
    simp only [Row.setAll, List.foldl_cons] at ih ⊢
    rw [ih, lookupLast_cons_u, get_set]
    cases lookupLast kvs c with
    | some w => simp
    | none =>
      simp only [Option.none_or, Option.getD_none]
      by_cases h : kv.1 == c
      · have e : kv.1 = c := by simpa using h
        have : (c == kv.1) = true := by simp [e]
        simp [h, this]
      · have e : kv.1 ≠ c := by simpa using h
        have : (c == kv.1) = false := by simpa using fun e' => e e'.symm
        simp [h, this]

theorem get_append (a b : Row) (c : String) :
    Row.get (a ++ b) c = if c ∈ a.keys then a.get c else b.get c := by
  induction a with
  | nil => simp [Row.keys]
  | cons kv a ih =>
    obtain ⟨k, x⟩ := kv
    simp only [List.cons_append, get_cons, ih, Row.keys, List.map_cons, List.mem_cons]
    by_cases h : c = k
    · subst h; simp
    · have : (c == k) = false := by simpa using h
      simp only [this, Bool.false_eq_true, if_false, h, false_or]
      by_cases hm : c ∈ List.map (fun x => x.fst) a <;> simp [hm]

/-- renaming by a function that is injective on the row's keys at `k` -/
theorem get_rename_of_inj (r : Row) (f : String → String) (k : String)
    (h : ∀ k' ∈ r.keys, f k' = f k → k' = k) : (r.rename f).get (f k) = r.get k := by
  induction r with
  | nil => rfl
  | cons kv r ih =>
    obtain ⟨k1, x⟩ := kv
    simp only [Row.rename, List.map_cons] at ih ⊢
    rw [get_cons, get_cons]
    by_cases h1 : f k = f k1
    · have : k1 = k := h k1 (by simp [Row.keys]) h1.symm
      subst this; simp
    · have hk : k ≠ k1 := fun e => h1 (by rw [e])
      have a : (f k == f k1) = false := by simpa using h1
      have b : (k == k1) = false := by simpa using hk
      simp only [a, b, Bool.false_eq_true, if_false]
      exact ih (fun k' hk' => h k' (by simp only [Row.keys, List.map_cons, List.mem_cons] at hk' ⊢; exact .inr hk'))

theorem get_drop (r : Row) (dels : List String) (c : String) :
    (r.drop dels).get c = if c ∈ dels then .null else r.get c := by
  induction r with
  | nil => simp [Row.drop, get_nil]
  | cons kv r ih =>
    obtain ⟨k, x⟩ := kv
    simp only [Row.drop, List.filter_cons] at ih ⊢
    by_cases hk : k ∈ dels
    · have : dels.contains k = true := by simpa using hk
      simp only [this, Bool.not_true, Bool.false_eq_true, if_false, ih, get_cons]
      by_cases hc : c = k
      · subst hc; simp [hk]
      · have : (c == k) = false := by simpa using hc
        simp [this]
    · have : dels.contains k = false := by simpa using hk
      simp only [this, Bool.not_false, if_true, get_cons, ih]
      by_cases hc : c = k
      · subst hc; simp [hk]
      · have : (c == k) = false := by simpa using hc
        simp [this]

theorem get_zip_of_mem {cs : List String} {vs : List Val} (h : cs.length = vs.length) (r : Row)
    (hv : vs = cs.map r.get) {c : String} (hc : c ∈ cs) : Row.get (cs.zip vs) c = r.get c := by
  subst hv
  clear h
  induction cs with
  | nil => cases hc
  | cons k cs ih =>
    simp only [List.map_cons, List.zip_cons_cons, get_cons]
    by_cases e : c = k
    · subst e; simp
    · have : (c == k) = false := by simpa using e
      simp only [this, Bool.false_eq_true, if_false]
      exact ih (by simpa [e] using hc)

theorem keys_zip {cs : List String} {vs : List Val} (h : cs.length = vs.length) :
    Row.keys (cs.zip vs) = cs := by
  simp only [Row.keys]
  rw [List.map_fst_zip]
  omega

end Row

/-! ### agreement -/

theorem Forall₂.imp {α β : Type} {R S : α → β → Prop} (h : ∀ a b, R a b → S a b) {l : List α} {l' : List β}
    (hl : Forall₂ R l l') : Forall₂ S l l' := by
  induction hl with
  | nil => exact .nil
  | cons hr _ ih => exact .cons (h _ _ hr) ih

theorem Row.agreeOn.mono {cs cs' : List String} {r r' : Row} (h : Row.agreeOn cs r r')
    (hs : ∀ c ∈ cs', c ∈ cs) : Row.agreeOn cs' r r' := fun c hc => h c (hs c hc)

theorem Row.agreeOn.vals {cs cs' : List String} {r r' : Row} (h : Row.agreeOn cs r r')
    (hs : ∀ c ∈ cs', c ∈ cs) : r.vals cs' = r'.vals cs' := by
  simp only [Row.vals]
  exact List.map_congr_left (fun c hc => h c (hs c hc))

theorem RowsAgree.mono {cs cs' : List String} {l l' : List Row} (h : RowsAgree cs l l')
    (hs : ∀ c ∈ cs', c ∈ cs) : RowsAgree cs' l l' :=
  Forall₂.imp (fun _ _ hr => hr.mono hs) h

theorem Row.agreeOn_select (r : Row) (cs : List String) : Row.agreeOn cs r (r.select cs) :=
  fun _ hc => (Row.get_select_of_mem hc).symm

theorem forall₂_refl_of {α : Type} {R : α → α → Prop} (h : ∀ a, R a a) : ∀ l : List α, Forall₂ R l l
  | [] => .nil
  | a :: l => .cons (h a) (forall₂_refl_of h l)

theorem forall₂_map_right_of {α β : Type} {R : α → β → Prop} (f : α → β) (h : ∀ a, R a (f a)) :
    ∀ l : List α, Forall₂ R l (l.map f)
  | [] => .nil
  | a :: l => .cons (h a) (forall₂_map_right_of f h l)

theorem RowsAgree_selectCols (cs : List String) (t : Table) : RowsAgree cs t.rows (t.selectCols cs).rows :=
  forall₂_map_right_of _ (fun r => Row.agreeOn_select r cs) _

theorem RowsAgree.symm {cs : List String} {l l' : List Row} (h : RowsAgree cs l l') : RowsAgree cs l' l := by
  induction h with
  | nil => exact .nil
  | cons h _ ih => exact .cons (fun c hc => (h c hc).symm) ih

theorem RowsAgree.trans {cs : List String} {l l' l'' : List Row} (h : RowsAgree cs l l')
    (h' : RowsAgree cs l' l'') : RowsAgree cs l l'' := by
  induction h generalizing l'' with
  | nil => cases h'; exact .nil
  | cons h _ ih =>
    cases h' with
    | cons h2 t2 => exact .cons (fun c hc => (h c hc).trans (h2 c hc)) (ih t2)

/-- rows agreeing on `cs` ⇔ their projections onto `cs` are equal lists -/
theorem rowsAgree_iff_map_select {cs : List String} {l l' : List Row} :
    RowsAgree cs l l' ↔ l.map (·.select cs) = l'.map (·.select cs) := by
  constructor
  · intro h
    induction h with
    | nil => rfl
    | cons h _ ih =>
      simp only [List.map_cons, ih, List.cons.injEq, and_true]
      simp only [Row.select]
      exact List.map_congr_left (fun c hc => by rw [h c hc])
  · intro h
    induction l generalizing l' with
    | nil =>
      cases l' with
      | nil => exact .nil
      | cons _ _ => simp at h
    | cons r l ih =>
      cases l' with
      | nil => simp at h
      | cons r' l' =>
        simp only [List.map_cons, List.cons.injEq] at h
        refine .cons ?_ (ih h.2)
        intro c hc
        have := congrArg (fun x => Row.get x c) h.1
        simpa [Row.get_select_of_mem hc] using this

/-- rows that read null outside `sc` and agree on the part of `w` inside `sc` agree on `w` -/
theorem RowsAgree.extend_outside {sc w v : List String} {l l' : List Row}
    (h : RowsAgree v l l') (hv : ∀ c ∈ w, c ∈ sc → c ∈ v)
    (hl : ∀ r ∈ l, ∀ c, c ∉ sc → r.get c = .null) (hl' : ∀ r ∈ l', ∀ c, c ∉ sc → r.get c = .null) :
    RowsAgree w l l' := by
  induction h with
  | nil => exact .nil
  | cons hr _ ih =>
    refine .cons ?_ (ih (fun r hr => hl r (List.mem_cons_of_mem _ hr)) (fun r hr => hl' r (List.mem_cons_of_mem _ hr)))
    intro c hc
    by_cases hs : c ∈ sc
    · exact hr c (hv c hc hs)
    · rw [hl _ List.mem_cons_self c hs, hl' _ List.mem_cons_self c hs]

theorem Table.WF.null_outside {t : Table} (h : t.WF) {sc : List String} (hs : ∀ c ∈ t.cols, c ∈ sc) :
    ∀ r ∈ t.rows, ∀ c, c ∉ sc → r.get c = .null := by
  intro r hr c hc
  apply Row.get_eq_null_of_not_mem_keys
  rw [h r hr]
  exact fun hm => hc (hs c hm)

/-! ### relational lifting of list operations -/
section lift
variable {α β γ δ : Type}

theorem Forall₂.filter' {R : α → β → Prop} {p : α → Bool} {q : β → Bool} {l : List α} {l' : List β}
    (h : Forall₂ R l l') (hpq : ∀ a b, R a b → p a = q b) :
    Forall₂ R (l.filter p) (l'.filter q) := by
  induction h with
  | nil => exact .nil
  | cons hr _ ih =>
    simp only [List.filter_cons, hpq _ _ hr]
    split
    · exact .cons hr ih
    · exact ih

theorem Forall₂.map' {R : α → β → Prop} {P : γ → δ → Prop} {f : α → γ} {g : β → δ} {l : List α} {l' : List β}
    (h : Forall₂ R l l') (hfg : ∀ a b, R a b → P (f a) (g b)) :
    Forall₂ P (l.map f) (l'.map g) := by
  induction h with
  | nil => exact .nil
  | cons hr _ ih => exact .cons (hfg _ _ hr) ih

theorem Forall₂.map_eq {R : α → β → Prop} {f : α → γ} {g : β → γ} {l : List α} {l' : List β}
    (h : Forall₂ R l l') (hfg : ∀ a b, R a b → f a = g b) : l.map f = l'.map g := by
  induction h with
  | nil => rfl
  | cons hr _ ih => simp [hfg _ _ hr, ih]

theorem Forall₂.append' {R : α → β → Prop} {l1 l2 : List α} {l1' l2' : List β}
    (h1 : Forall₂ R l1 l1') (h2 : Forall₂ R l2 l2') : Forall₂ R (l1 ++ l2) (l1' ++ l2') := by
  induction h1 with
  | nil => exact h2
  | cons hr _ ih => exact .cons hr ih

theorem Forall₂.flatMap' {R : α → β → Prop} {P : γ → δ → Prop} {f : α → List γ} {g : β → List δ}
    {l : List α} {l' : List β} (h : Forall₂ R l l') (hfg : ∀ a b, R a b → Forall₂ P (f a) (g b)) :
    Forall₂ P (l.flatMap f) (l'.flatMap g) := by
  induction h with
  | nil => exact .nil
  | cons hr _ ih =>
    simp only [List.flatMap_cons]
    exact Forall₂.append' (hfg _ _ hr) ih

theorem Forall₂.any' {R : α → β → Prop} {p : α → Bool} {q : β → Bool} {l : List α} {l' : List β}
    (h : Forall₂ R l l') (hpq : ∀ a b, R a b → p a = q b) : l.any p = l'.any q := by
  induction h with
  | nil => rfl
  | cons hr _ ih => simp [List.any_cons, hpq _ _ hr, ih]

theorem Forall₂.findIdx' {R : α → β → Prop} {p : α → Bool} {q : β → Bool} {l : List α} {l' : List β}
    (h : Forall₂ R l l') (hpq : ∀ a b, R a b → p a = q b) : l.findIdx p = l'.findIdx q := by
  induction h with
  | nil => rfl
  | cons hr _ ih => simp [List.findIdx_cons, hpq _ _ hr, ih]

theorem Forall₂.take' {R : α → β → Prop} {l : List α} {l' : List β} (h : Forall₂ R l l') (n : Nat) :
    Forall₂ R (l.take n) (l'.take n) := by
  induction h generalizing n with
  | nil => simp; exact .nil
  | cons hr _ ih =>
    cases n with
    | zero => simp; exact .nil
    | succ n => simp only [List.take_succ_cons]; exact .cons hr (ih n)

theorem Forall₂.zipIdx' {R : α → β → Prop} {l : List α} {l' : List β} (h : Forall₂ R l l') (n : Nat) :
    Forall₂ (fun a b => R a.1 b.1 ∧ a.2 = b.2) (l.zipIdx n) (l'.zipIdx n) := by
  induction h generalizing n with
  | nil => exact .nil
  | cons hr _ ih => simp only [List.zipIdx_cons]; exact .cons ⟨hr, rfl⟩ (ih (n + 1))

theorem Forall₂.exists_zip {R : α → β → Prop} {l : List α} {l' : List β} (h : Forall₂ R l l') :
    ∃ z : List (α × β), z.map Prod.fst = l ∧ z.map Prod.snd = l' ∧ ∀ p ∈ z, R p.1 p.2 := by
  induction h with
  | nil => exact ⟨[], rfl, rfl, by simp⟩
  | @cons a b _ _ hr _ ih =>
    obtain ⟨z, h1, h2, h3⟩ := ih
    refine ⟨(a, b) :: z, by simp [h1], by simp [h2], ?_⟩
    intro p hp
    rcases List.mem_cons.mp hp with rfl | hp
    · exact hr
    · exact h3 p hp

theorem forall₂_of_zip {R : α → β → Prop} (z : List (α × β)) (h : ∀ p ∈ z, R p.1 p.2) :
    Forall₂ R (z.map Prod.fst) (z.map Prod.snd) := by
  induction z with
  | nil => exact .nil
  | cons p z ih =>
    exact .cons (h p List.mem_cons_self) (ih (fun q hq => h q (List.mem_cons_of_mem _ hq)))

/-- sorting related lists with comparison functions that agree on related elements gives related lists -/
theorem Forall₂.mergeSort' {R : α → β → Prop} {le : α → α → Bool} {le' : β → β → Bool} {l : List α} {l' : List β}
    (h : Forall₂ R l l') (hle : ∀ a a' b b', R a a' → R b b' → le a b = le' a' b') :
    Forall₂ R (l.mergeSort le) (l'.mergeSort le') := by
  obtain ⟨z, rfl, rfl, hz⟩ := h.exists_zip
  have e1 : (z.mergeSort (fun a b => le a.1 b.1)).map Prod.fst = (z.map Prod.fst).mergeSort le :=
    List.map_mergeSort (fun _ _ _ _ => rfl)
  have e2 : (z.mergeSort (fun a b => le a.1 b.1)).map Prod.snd = (z.map Prod.snd).mergeSort le' :=
    List.map_mergeSort (fun a ha b hb => hle _ _ _ _ (hz a ha) (hz b hb))
  rw [← e1, ← e2]
  apply forall₂_of_zip
  intro p hp
  exact hz p ((List.mergeSort_perm _ _).mem_iff.mp hp)

theorem Forall₂.mem_left {R : α → β → Prop} {l : List α} {l' : List β} (h : Forall₂ R l l') {a : α}
    (ha : a ∈ l) : ∃ b ∈ l', R a b := by
  induction h with
  | nil => cases ha
  | cons hr _ ih =>
    rcases List.mem_cons.mp ha with rfl | ha
    · exact ⟨_, List.mem_cons_self, hr⟩
    · obtain ⟨b, hb, hab⟩ := ih ha
      exact ⟨b, List.mem_cons_of_mem _ hb, hab⟩

end lift

/-! ### expressions read only their columns -/

mutual
theorem evalTerm_congr (Θ : Interp) {r r' : Row} :
    ∀ (t : Term), Row.agreeOn t.colsRaw r r' → evalTerm Θ r t = evalTerm Θ r' t
  | .value _, _ => rfl
  | .col c, h => by simp only [evalTerm]; rw [h c (by simp [Term.colsRaw])]
  | .list _, _ => rfl
  | .dict _, _ => rfl
  | .app op args _ _, h => by
    simp only [evalTerm]
    rw [evalArgs_congr Θ args (by simpa [Term.colsRaw] using h)]
theorem evalArgs_congr (Θ : Interp) {r r' : Row} :
    ∀ (ts : List Term), Row.agreeOn (Term.colsRawList ts) r r' → evalArgs Θ r ts = evalArgs Θ r' ts
  | [], _ => rfl
  | t :: ts, h => by
    simp only [evalArgs]
    rw [evalTerm_congr Θ t (fun c hc => h c (by simp [Term.colsRawList, hc])),
      evalArgs_congr Θ ts (fun c hc => h c (by simp [Term.colsRawList, hc]))]
end

theorem evalCell_congr (Θ : Interp) {r r' : Row} (t : Term) (h : Row.agreeOn t.colsRaw r r') :
    evalCell Θ r t = evalCell Θ r' t := by
  simp only [evalCell, evalTerm_congr Θ t h]

end DAVerif
