import DAVerif.Proofs.SqlReach
import DAVerif.Proofs.BuilderReach
import DAVerif.Proofs.EqOps
import DAVerif.Proofs.EqSem
import DAVerif.Proofs.RenameBuild
import DAVerif.Spec.EraseSql
/-!
C11, SQL half, builder layer: every builder method (`build : Ops → Step → Except Err Ops` and each constructor / helper
it calls), `Ops.tables`, `Ops.usedFromSources` and `Ops.size` are blind to the `method` flag of expressions: they
commute with `erase`.  (The SQL generator re-enters the builders for the SQLite FULL join and for labelled
`concat_rows`, which is why this layer is needed; it also says that two builder call sequences that differ only in the
printing form of their expressions build pipelines with the same `erase`, i.e. `==` pipelines.)

Main statements: `colsRaw_erase`, `usedFromSources_erase`, `tables_erase`, `build_erase`, `buildChain_erase`.
-/
namespace DAVerif
namespace C11Sql
open DAVerif.Ren (ok?_bind map_ite map_pure' map_ok' map_error' forIn_ok? workColGroup_eq
  parseAssignments_single all_map' any_map' option_map_ite)

/-! ### expressions -/
mutual
theorem colsRaw_erase : ∀ t : Term, Term.colsRaw t.erase = Term.colsRaw t
  | .value _ | .col _ | .list _ | .dict _ => rfl
  | .app _ args _ _ => by simp only [Term.erase, Term.colsRaw]; exact colsRawList_erase args
theorem colsRawList_erase : ∀ ts : List Term, Term.colsRawList (Term.eraseList ts) = Term.colsRawList ts
  | [] => rfl
  | t :: ts => by simp only [Term.eraseList, Term.colsRawList, colsRaw_erase t, colsRawList_erase ts]
end

theorem colsUsed_erase (t : Term) : Term.colsUsed t.erase = Term.colsUsed t := by
  simp only [Term.colsUsed, colsRaw_erase]

theorem colsUsedOps_erase (ops : Assign) : Term.colsUsedOps (eraseAssign ops) = Term.colsUsedOps ops := by
  simp only [Term.colsUsedOps, eraseAssign, List.flatMap_map, colsRaw_erase]

theorem keys_erase (ops : Assign) : (eraseAssign ops).map (·.1) = ops.map (·.1) := Eq.keys_eraseAssign ops

theorem erase_filter_key (ops : Assign) (p : String → Bool) :
    (eraseAssign ops).filter (fun kv => p kv.1) = eraseAssign (ops.filter (fun kv => p kv.1)) := by
  unfold eraseAssign
  rw [List.filter_map]
  rfl

theorem erase_append (a b : Assign) : eraseAssign (a ++ b) = eraseAssign a ++ eraseAssign b := by
  simp only [eraseAssign, List.map_append]

theorem erase_isEmpty (a : Assign) : (eraseAssign a).isEmpty = a.isEmpty := by
  simp only [eraseAssign, List.isEmpty_map]

theorem erase_take (n : Nat) (a : Assign) : (eraseAssign a).take n = eraseAssign (a.take n) := by
  simp only [eraseAssign, List.map_take]

/-! ### operator trees -/
theorem cols_erase (p : Ops) : p.erase.cols = p.cols := Ops.cols_erase p

theorem tables_erase (p : Ops) : p.erase.tables = p.tables := by
  induction p <;> simp only [Ops.erase, Ops.tables, *]

theorem size_erase (p : Ops) : p.erase.size = p.size := by
  induction p <;> simp only [Ops.erase, Ops.size, *]

theorem usedFromSources_erase (p : Ops) (usg : List String) :
    Ops.usedFromSources p.erase usg = Ops.usedFromSources p usg := by
  cases p with
  | extend src ops part od rv w =>
    simp only [Ops.erase, Ops.usedFromSources, erase_filter_key ops (fun k => usg.contains k), erase_isEmpty, keys_erase,
      colsUsedOps_erase, cols_erase]
  | project src ops g =>
    simp only [Ops.erase, Ops.usedFromSources, erase_filter_key ops (fun k => usg.contains k), colsUsedOps_erase]
  | selectRows src e => simp only [Ops.erase, Ops.usedFromSources, cols_erase, colsUsed_erase]
  | order src cs rv lim =>
    have h := cols_erase (.order src cs rv lim)
    simp only [Ops.erase] at h
    simp only [Ops.erase, Ops.usedFromSources, h]
  | join a b oa ob jt => simp only [Ops.erase, Ops.usedFromSources, cols_erase]
  | concat a b idc an bn => simp only [Ops.erase, Ops.usedFromSources, cols_erase]
  | _ => rfl

/-! ### builder steps -/
/-- a builder call with the `method` flags of its expressions (and of the pipeline arguments) forgotten -/
def eraseStep : Step → Step
  | .extend ops part od rv => .extend (eraseAssign ops) part od rv
  | .project ops g => .project (eraseAssign ops) g
  | .selectRows e => .selectRows (e.map Term.erase)
  | .join b oa ob jt chk => .join b.erase oa ob jt chk
  | .concat b idc an bn => .concat (b.map Ops.erase) idc an bn
  | s => s

theorem parseAssignments_erase (c : List String) (ops : Assign) :
    parseAssignments c (eraseAssign ops) = (parseAssignments c ops).map eraseAssign := by
  have h1 : (eraseAssign ops).all (fun kv => subset (Term.colsRaw kv.2) c)
      = ops.all (fun kv => subset (Term.colsRaw kv.2) c) := by
    unfold eraseAssign
    exact all_map' _ ops _ _ (fun x => by simp only [colsRaw_erase])
  have h2 : (eraseAssign ops).flatMap (fun kv => (Term.colsRaw kv.2).filter (fun c => c != kv.1))
      = ops.flatMap (fun kv => (Term.colsRaw kv.2).filter (fun c => c != kv.1)) := by
    simp only [eraseAssign, List.flatMap_map, colsRaw_erase]
  simp only [Ren.parseAssignments_eq, h1, h2, keys_erase, map_ite, map_ok', map_error']

theorem impliesWindowed_erase (ops : Assign) : impliesWindowed (eraseAssign ops) = impliesWindowed ops := by
  unfold impliesWindowed eraseAssign
  apply any_map'
  intro x
  cases x.2 <;> rfl

theorem tryMergeOps_erase (ops1 ops2 : Assign) :
    tryMergeOps (eraseAssign ops1) (eraseAssign ops2) = (tryMergeOps ops1 ops2).map eraseAssign := by
  have f1 : ∀ (ops : Assign) (l : List String), (eraseAssign ops).filter (fun kv => l.contains kv.1)
      = eraseAssign (ops.filter (fun kv => l.contains kv.1)) := fun ops l => erase_filter_key ops (fun k => l.contains k)
  have f2 : ∀ (ops : Assign) (l : List String), (eraseAssign ops).filter (fun kv => !l.contains kv.1)
      = eraseAssign (ops.filter (fun kv => !l.contains kv.1)) := fun ops l => erase_filter_key ops (fun k => !l.contains k)
  simp only [tryMergeOps, keys_erase, f1, f2, colsUsedOps_erase, option_map_ite, Option.map_none, Option.map_some,
    erase_append]

theorem isValue_erase (t : Term) : isValue t.erase = isValue t := by cases t <;> rfl

theorem windowOpOk_erase (sc : List String) (ordered : Bool) (t : Term) :
    windowOpOk sc ordered t.erase = windowOpOk sc ordered t := by
  cases t with
  | app op args i m =>
    simp only [Term.erase, windowOpOk, eraseList_eq_map, ← List.map_drop, List.head?_map]
    rw [all_map' Term.erase (args.drop 1) isValue isValue isValue_erase]
    congr 4
    cases args.head? with
    | none => rfl
    | some a => cases a <;> rfl
  | _ => rfl

theorem projectOpOk_erase (t : Term) : projectOpOk t.erase = projectOpOk t := by
  cases t with
  | app op args i m =>
    cases args with
    | nil => rfl
    | cons a rest =>
      cases a <;>
        simp only [Term.erase, Term.eraseList, projectOpOk, List.length_cons, eraseList_eq_map, List.length_map,
          List.head?_cons]
  | _ => rfl

theorem mkExtend_erase (src : Ops) (ops : Assign) (partition : PartArg) (order reverse : List String) :
    mkExtend src.erase (eraseAssign ops) partition order reverse
      = (mkExtend src ops partition order reverse).map Ops.erase := by
  have hw : ∀ sc od, (eraseAssign ops).all (fun kv => windowOpOk sc od kv.2) = ops.all (fun kv => windowOpOk sc od kv.2) := by
    intro sc od
    unfold eraseAssign
    exact all_map' _ ops _ _ (fun x => windowOpOk_erase sc od x.2)
  cases partition <;>
  · simp only [mkExtend, forIn_ok?]
    simp only [ok?_bind, cols_erase, colsUsedOps_erase, keys_erase, impliesWindowed_erase, hw, map_ite, map_pure',
      map_error', Ops.erase]

theorem mkProject_erase (src : Ops) (ops : Assign) (group : List String) :
    mkProject src.erase (eraseAssign ops) group = (mkProject src ops group).map Ops.erase := by
  have hw : (eraseAssign ops).all (fun kv => projectOpOk kv.2) = ops.all (fun kv => projectOpOk kv.2) := by
    unfold eraseAssign
    exact all_map' _ ops _ _ (fun x => projectOpOk_erase x.2)
  simp only [mkProject, forIn_ok?]
  simp only [ok?_bind, cols_erase, colsUsedOps_erase, keys_erase, hw, map_ite, map_pure', map_error', Ops.erase]

theorem mkSelectCols_erase (src : Ops) (cs : List String) :
    mkSelectCols src.erase cs = (mkSelectCols src cs).map Ops.erase := by
  simp only [mkSelectCols, ok?_bind, cols_erase, map_ite, map_error']
  cases src <;> simp only [map_pure', Ops.erase]

theorem mkDropCols_erase (src : Ops) (cs : List String) :
    mkDropCols src.erase cs = (mkDropCols src cs).map Ops.erase := by
  simp only [mkDropCols, ok?_bind, cols_erase, map_ite, map_pure', map_error', Ops.erase]

theorem mkOrder_erase (src : Ops) (cs rv : List String) (lim : Option Nat) :
    mkOrder src.erase cs rv lim = (mkOrder src cs rv lim).map Ops.erase := by
  simp only [mkOrder, ok?_bind, cols_erase, map_ite, map_pure', map_error', Ops.erase]

theorem mkRename_erase (src : Ops) (m : List (String × String)) :
    mkRename src.erase m = (mkRename src m).map Ops.erase := by
  have hn : (Ops.rename src.erase m) = (Ops.rename src m).erase := rfl
  simp only [mkRename, hn, ok?_bind, cols_erase, map_ite, map_pure', map_error']

theorem mkMapCols_erase (src : Ops) (m : List (String × Option String)) :
    mkMapCols src.erase m = (mkMapCols src m).map Ops.erase := by
  have hn : ∀ r d, (Ops.mapCols src.erase r d) = (Ops.mapCols src r d).erase := fun _ _ => rfl
  simp only [mkMapCols, hn, ok?_bind, cols_erase, map_ite, map_pure', map_error']

theorem mkJoin_erase (a b : Ops) (onA onB : List String) (jt : String) (check : Bool) :
    mkJoin a.erase b.erase onA onB jt check = (mkJoin a b onA onB jt check).map Ops.erase := by
  simp only [mkJoin, ok?_bind, tables_erase, cols_erase, map_ite, map_error']
  cases check <;> cases JoinType.parse jt <;>
    simp only [map_ite, map_pure', map_error', Ops.erase, throw, throwThe, MonadExceptOf.throw]

theorem mkConcat_erase (a b : Ops) (idc : Option String) (an bn : String) :
    mkConcat a.erase b.erase idc an bn = (mkConcat a b idc an bn).map Ops.erase := by
  cases idc <;>
    simp only [mkConcat, ok?_bind, tables_erase, cols_erase, map_ite, map_pure', map_error', Ops.erase]

theorem mkConvert_erase (src : Ops) (rm : RecMap) :
    mkConvert src.erase rm = (mkConvert src rm).map Ops.erase := by
  simp only [mkConvert, ok?_bind, cols_erase, map_ite, map_pure', map_error', Ops.erase]

/-- fold the unfolded image of a node back into `Ops.erase` -/
local macro "refold_erase" : tactic =>
  `(tactic| simp only [← Ops.erase.eq_2, ← Ops.erase.eq_3, ← Ops.erase.eq_4,
      ← Ops.erase.eq_5, ← Ops.erase.eq_6, ← Ops.erase.eq_7, ← Ops.erase.eq_8,
      ← Ops.erase.eq_9, ← Ops.erase.eq_10, ← Ops.erase.eq_11, ← Ops.erase.eq_12])

set_option linter.unusedSimpArgs false in
theorem extendParsed_erase (p : Ops) (ops : Assign) (partition : PartArg) (order reverse : List String) :
    extendParsed p.erase (eraseAssign ops) partition order reverse
      = (extendParsed p ops partition order reverse).map Ops.erase := by
  have e1 : ∀ src ops, mkExtend (Ops.erase src) (eraseAssign ops) partition order reverse
       = (mkExtend src ops partition order reverse).map Ops.erase := fun src ops => mkExtend_erase src ops partition order reverse
  have eT : ∀ n cs ops, mkExtend (Ops.table n cs) (eraseAssign ops) partition order reverse
       = (mkExtend (Ops.table n cs) ops partition order reverse).map Ops.erase := fun n cs ops => e1 (.table n cs) ops
  have hT : ∀ n cs, (Ops.table n cs).erase = Ops.table n cs := fun _ _ => rfl
  induction p with
  | extend src ops1 part1 order1 reverse1 w ih =>
    clear ih
    conv => lhs; unfold extendParsed
    conv => rhs; unfold extendParsed
    cases partition <;>
    · simp only [Ops.erase, tryMergeOps_erase]
      cases tryMergeOps ops1 ops <;>
      · refold_erase
        simp only [workColGroup_eq, ok?_bind, cols_erase, keys_erase, erase_isEmpty, e1, map_ite, map_pure', map_error',
          impliesWindowed_erase, Option.map_none, Option.map_some, pure_bind]
  | order src cs rv lim ih =>
    conv => lhs; unfold extendParsed
    conv => rhs; unfold extendParsed
    cases lim <;> cases partition <;>
    · simp only [Ops.erase, ih]
      try refold_erase
      simp only [workColGroup_eq, ok?_bind, cols_erase, keys_erase, erase_isEmpty, e1, map_ite, map_pure', map_error',
        pure_bind]
  | _ =>
    conv => lhs; unfold extendParsed
    conv => rhs; unfold extendParsed
    cases partition <;>
    · simp only [Ops.erase]
      try refold_erase
      simp only [workColGroup_eq, ok?_bind, cols_erase, keys_erase, erase_isEmpty, e1, eT, hT, map_ite, map_pure', map_error',
        pure_bind]

set_option linter.unusedSimpArgs false in
theorem projectParsed_erase (p : Ops) (ops : Assign) (group : List String) :
    projectParsed p.erase (eraseAssign ops) group = (projectParsed p ops group).map Ops.erase := by
  have eT : ∀ n cs, mkProject (Ops.table n cs) (eraseAssign ops) group
       = (mkProject (Ops.table n cs) ops group).map Ops.erase := fun n cs => mkProject_erase (.table n cs) ops group
  have hT : ∀ n cs, (Ops.table n cs).erase = Ops.table n cs := fun _ _ => rfl
  induction p with
  | order src cs rv lim ih =>
    conv => lhs; unfold projectParsed
    conv => rhs; unfold projectParsed
    cases lim <;>
    · simp only [Ops.erase, ih]
      try refold_erase
      simp only [workColGroup_eq, ok?_bind, cols_erase, keys_erase, erase_isEmpty, mkProject_erase, map_ite, map_pure',
        map_error']
  | _ =>
    conv => lhs; unfold projectParsed
    conv => rhs; unfold projectParsed
    simp only [Ops.erase]
    try refold_erase
    simp only [workColGroup_eq, ok?_bind, cols_erase, keys_erase, erase_isEmpty, mkProject_erase, eT, hT, map_ite, map_pure',
      map_error']

theorem joinB_erase (p b : Ops) (onA onB : List String) (jt : String) (check : Bool) :
    joinB p.erase b.erase onA onB jt check = (joinB p b onA onB jt check).map Ops.erase := by
  induction p with
  | order src cs rv lim ih =>
    cases lim with
    | none => simpa only [Ops.erase, joinB] using ih
    | some l => exact mkJoin_erase (.order src cs rv (some l)) b onA onB jt check
  | _ => exact mkJoin_erase _ b onA onB jt check

theorem concatB_erase (p b : Ops) (idc : Option String) (an bn : String) :
    concatB p.erase b.erase idc an bn = (concatB p b idc an bn).map Ops.erase := by
  induction p with
  | order src cs rv lim ih =>
    cases lim with
    | none => simpa only [Ops.erase, concatB] using ih
    | some l => exact mkConcat_erase (.order src cs rv (some l)) b idc an bn
  | _ => exact mkConcat_erase _ b idc an bn

theorem selectRowsB_erase (p : Ops) (e : Term) :
    selectRowsB p.erase e.erase = (selectRowsB p e).map Ops.erase := by
  induction p with
  | order src cs rv lim ih =>
    cases lim with
    | none => simpa only [Ops.erase, selectRowsB] using ih
    | some l => rfl
  | _ => rfl

theorem dropColsB_erase (p : Ops) (cs : List String) :
    dropColsB p.erase cs = (dropColsB p cs).map Ops.erase := by
  induction p with
  | order src cs' rv lim ih =>
    cases lim with
    | none => simpa only [Ops.erase, dropColsB] using ih
    | some l => exact mkDropCols_erase (.order src cs' rv (some l)) cs
  | _ => exact mkDropCols_erase _ cs

theorem selectColsB_erase (p : Ops) (cs : List String) :
    selectColsB p.erase cs = (selectColsB p cs).map Ops.erase := by
  induction p with
  | order src cs' rv lim ih =>
    cases lim with
    | none => simpa only [Ops.erase, selectColsB] using ih
    | some l => exact mkSelectCols_erase (.order src cs' rv (some l)) cs
  | selectCols src cs0 ih =>
    simp only [Ops.erase, selectColsB, ok?_bind, ih, map_ite, map_error']
  | dropCols src dels ih =>
    have h := cols_erase (.dropCols src dels)
    simp only [Ops.erase] at h
    simp only [Ops.erase, selectColsB, ok?_bind, h, ih, map_ite, map_error']
  | _ => exact mkSelectCols_erase _ cs

theorem mapColsB_erase (p : Ops) (m : List (String × Option String)) :
    mapColsB p.erase m = (mapColsB p m).map Ops.erase := by
  induction p with
  | order src cs rv lim ih =>
    cases lim with
    | none => simpa only [Ops.erase, mapColsB] using ih
    | some l => exact mkMapCols_erase (.order src cs rv (some l)) m
  | _ => exact mkMapCols_erase _ m

theorem renameB_erase (p : Ops) (m : List (String × String)) :
    renameB p.erase m = (renameB p m).map Ops.erase := by
  induction p with
  | order src cs rv lim ih =>
    cases lim with
    | none => simpa only [Ops.erase, renameB] using ih
    | some l => exact mkRename_erase (.order src cs rv (some l)) m
  | _ => exact mkRename_erase _ m

theorem orderB_erase (p : Ops) (cs rv : List String) (lim : Option Nat) :
    orderB p.erase cs rv lim = (orderB p cs rv lim).map Ops.erase := by
  induction p with
  | order src cs' rv' lim' ih =>
    cases lim' with
    | none => simpa only [Ops.erase, orderB] using ih
    | some l => exact mkOrder_erase (.order src cs' rv' (some l)) cs rv lim
  | _ => exact mkOrder_erase _ cs rv lim

theorem convertB_erase (p : Ops) (rm : RecMap) :
    convertB p.erase rm = (convertB p rm).map Ops.erase := by
  induction p with
  | order src cs rv lim ih =>
    cases lim with
    | none => simpa only [Ops.erase, convertB] using ih
    | some l => exact mkConvert_erase (.order src cs rv (some l)) rm
  | _ => exact mkConvert_erase _ rm

/-- **every builder call commutes with forgetting the printing form of expressions**: same error, or the erased
pipeline -/
theorem build_erase (p : Ops) (s : Step) : build p.erase (eraseStep s) = (build p s).map Ops.erase := by
  cases s with
  | extend ops partition order reverse =>
    simp only [eraseStep, build, cols_erase, parseAssignments_erase]
    cases parseAssignments p.cols ops with
    | error e => rfl
    | ok parsed => exact extendParsed_erase p parsed partition order reverse
  | project ops group =>
    simp only [eraseStep, build, cols_erase, parseAssignments_erase]
    cases parseAssignments p.cols ops with
    | error e => rfl
    | ok parsed => exact projectParsed_erase p parsed group
  | selectRows e =>
    cases e with
    | none => rfl
    | some e =>
      simp only [eraseStep, Option.map_some, build, cols_erase, parseAssignments_single, colsRaw_erase]
      split
      · exact selectRowsB_erase p e
      · rfl
  | selectCols cs => simp only [eraseStep, build, ok?_bind, selectColsB_erase, map_ite, map_error']
  | dropCols cs => simp only [eraseStep, build, dropColsB_erase, map_ite, map_ok']
  | order cs rv lim => simp only [eraseStep, build, orderB_erase, map_ite, map_ok']
  | rename m => simp only [eraseStep, build, renameB_erase, map_ite, map_ok']
  | mapCols m => simp only [eraseStep, build, mapColsB_erase, map_ite, map_ok']
  | join b onA onB jt check => exact joinB_erase p b onA onB jt check
  | concat b idc an bn =>
    cases b with
    | none => rfl
    | some b => exact concatB_erase p b idc an bn
  | convert rm =>
    cases rm with
    | none => rfl
    | some rm => exact convertB_erase p rm

theorem buildChain_erase (p : Ops) (steps : List Step) :
    buildChain p.erase (steps.map eraseStep) = (buildChain p steps).map Ops.erase := by
  unfold buildChain
  induction steps generalizing p with
  | nil => rfl
  | cons s steps ih =>
    simp only [List.map_cons, List.foldlM_cons, build_erase]
    cases build p s with
    | error e => rfl
    | ok q => exact ih q

end C11Sql
end DAVerif
