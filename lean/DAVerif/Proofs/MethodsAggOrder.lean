import DAVerif.Proofs.MethodsAgg
/-!
C05, order aggregates: `max`, `min`, `any_value` (SQL: `MAX`) and `nunique` of the backend models against `Doc.docAgg`.

The documented `max` / `min` (`Doc.leastBy`) is written as a recursion from the right end of the group, the backend
models (`Theta.maxV` / `Theta.minV`) fold from the left.  The two agree because "keep the better of two" is associative
on cells of one kind (`op_assoc`: needs transitivity and negative transitivity of the strict order, both hold for
`Bool`, `Rat`, `String`).
-/
namespace DAVerif.C05A
open DAVerif DAVerif.Doc DAVerif.C05

/-! ### kinds of cells -/

/-- kind of a cell: 0 missing, 1 bool, 2 number, 3 string -/
def kindOf : Val → Nat
  | .null => 0
  | .bool _ => 1
  | .num _ => 2
  | .str _ => 3

theorem sameKind_iff (a b : Val) : sameKind a b = true ↔ kindOf a = kindOf b ∧ kindOf a ≠ 0 := by
  cases a <;> cases b <;> simp [sameKind, kindOf]

/-- a list accepted by `oneKind`: every item has the kind of the head, which is not the missing value -/
theorem oneKind_kinds : ∀ (l : List Val), oneKind l = true → ∀ x ∈ l, ∀ y ∈ l, kindOf y = kindOf x ∧ kindOf x ≠ 0
  | [], _ => by intro x hx; cases hx
  | [a], h => by
    have ha : kindOf a ≠ 0 := by cases a <;> simp [oneKind, kindOf] at h ⊢
    intro x hx y hy
    simp only [List.mem_singleton] at hx hy
    rw [hx, hy]
    exact ⟨rfl, ha⟩
  | a :: b :: r, h => by
    have h' : sameKind a b = true ∧ oneKind (b :: r) = true := by
      simpa [oneKind, Bool.and_eq_true] using h
    have hab := (sameKind_iff a b).mp h'.1
    have ih := oneKind_kinds (b :: r) h'.2
    have hb : ∀ y ∈ b :: r, kindOf y = kindOf b ∧ kindOf b ≠ 0 := fun y hy => ih b (List.mem_cons_self) y hy
    have hall : ∀ y ∈ a :: b :: r, kindOf y = kindOf a := by
      intro y hy
      rcases List.mem_cons.mp hy with rfl | hy
      · rfl
      · rw [(hb y hy).1, hab.1]
    intro x hx y hy
    refine ⟨by rw [hall y hy, hall x hx], ?_⟩
    rw [hall x hx]; exact hab.2

/-- on two cells of one (non-missing) kind the order of the specification is the order the backend models use -/
theorem docLt_eq_valLt (a b : Val) (h : kindOf a = kindOf b) : Doc.lt a b = Val.lt a b := by
  cases a <;> cases b <;> simp [kindOf] at h <;> simp [Doc.lt, Val.lt, Val.rank]

theorem lt_trans_kind (a b c : Val) (hab : kindOf a = kindOf b) (hbc : kindOf b = kindOf c)
    (h1 : Val.lt a b = true) (h2 : Val.lt b c = true) : Val.lt a c = true := by
  cases a <;> cases b <;> simp [kindOf] at hab <;> cases c <;> simp [kindOf] at hbc
  · simp [Val.lt, Val.rank] at h1
  · rename_i x y z; revert h1 h2; cases x <;> cases y <;> cases z <;> simp [Val.lt]
  · simp only [Val.lt, decide_eq_true_eq] at h1 h2 ⊢; grind
  · simp only [Val.lt, decide_eq_true_eq] at h1 h2 ⊢; exact String.lt_trans h1 h2

/-- negative transitivity: `a < c` implies `a < b` or `b < c` (the order of each kind is linear) -/
theorem lt_negtrans_kind (a b c : Val) (hab : kindOf a = kindOf b) (hbc : kindOf b = kindOf c)
    (h : Val.lt a c = true) : Val.lt a b = true ∨ Val.lt b c = true := by
  cases a <;> cases b <;> simp [kindOf] at hab <;> cases c <;> simp [kindOf] at hbc
  · simp [Val.lt, Val.rank] at h
  · rename_i x y z; revert h; cases x <;> cases y <;> cases z <;> simp [Val.lt]
  · simp only [Val.lt, decide_eq_true_eq] at h ⊢; grind
  · simp only [Val.lt, decide_eq_true_eq] at h ⊢; grind

theorem lt_irrefl_val (a : Val) : Val.lt a a = false := by
  cases a with
  | null => rfl
  | bool b => cases b <;> rfl
  | num q => simp [Val.lt]
  | str s => simp [Val.lt, String.lt_irrefl]

/-! ### "keep the better of two" is associative -/

/-- one step of the left fold: keep `m` unless `v` is strictly better (`L v m`) -/
def keep (L : Val → Val → Bool) (m v : Val) : Val := if L v m then v else m

theorem keep_cases (L : Val → Val → Bool) (m v : Val) : keep L m v = m ∨ keep L m v = v := by
  unfold keep; split <;> simp

/-- a strict order on the cells satisfying `P` -/
structure StrictOn (P : Val → Prop) (L : Val → Val → Bool) : Prop where
  trans : ∀ a b c, P a → P b → P c → L a b = true → L b c = true → L a c = true
  negtrans : ∀ a b c, P a → P b → P c → L a c = true → L a b = true ∨ L b c = true

theorem keep_P {P : Val → Prop} (L : Val → Val → Bool) {m v : Val} (hm : P m) (hv : P v) : P (keep L m v) := by
  rcases keep_cases L m v with h | h <;> rw [h] <;> assumption

theorem keep_assoc {P : Val → Prop} {L : Val → Val → Bool} (hL : StrictOn P L) (a b c : Val)
    (ha : P a) (hb : P b) (hc : P c) : keep L (keep L a b) c = keep L a (keep L b c) := by
  unfold keep
  by_cases h1 : L b a = true
  · by_cases h2 : L c b = true
    · have h3 := hL.trans c b a hc hb ha h2 h1
      simp [h1, h2, h3]
    · simp [h1, h2]
  · by_cases h2 : L c b = true
    · simp [h1, h2]
    · have h3 : ¬ L c a = true := fun h => by
        rcases hL.negtrans c b a hc hb ha h with h | h
        · exact h2 h
        · exact h1 h
      simp [h1, h2, h3]

theorem foldl_keep_P {P : Val → Prop} (L : Val → Val → Bool) : ∀ (r : List Val) (x : Val), P x → (∀ y ∈ r, P y) →
    P (r.foldl (keep L) x)
  | [], _, hx, _ => hx
  | y :: r, x, hx, hr =>
    foldl_keep_P L r (keep L x y) (keep_P L hx (hr y List.mem_cons_self)) (fun z hz => hr z (List.mem_cons_of_mem _ hz))

theorem foldl_keep_assoc {P : Val → Prop} {L : Val → Val → Bool} (hL : StrictOn P L) :
    ∀ (r : List Val) (a b : Val), P a → P b → (∀ y ∈ r, P y) →
      r.foldl (keep L) (keep L a b) = keep L a (r.foldl (keep L) b)
  | [], _, _, _, _, _ => rfl
  | c :: r, a, b, ha, hb, hr => by
    have hc : P c := hr c List.mem_cons_self
    have hr' : ∀ y ∈ r, P y := fun z hz => hr z (List.mem_cons_of_mem _ hz)
    simp only [List.foldl_cons]
    rw [keep_assoc hL a b c ha hb hc]
    exact foldl_keep_assoc hL r a (keep L b c) ha (keep_P L hb hc) hr'

/-- **the documented recursion from the right is the left fold of the backends** -/
theorem leastBy_eq_foldl {P : Val → Prop} {L : Val → Val → Bool} (hL : StrictOn P L) :
    ∀ (r : List Val) (x : Val), P x → (∀ y ∈ r, P y) → leastBy L (x :: r) = some (r.foldl (keep L) x)
  | [], _, _, _ => rfl
  | y :: r, x, hx, hr => by
    have hy : P y := hr y List.mem_cons_self
    have hr' : ∀ z ∈ r, P z := fun z hz => hr z (List.mem_cons_of_mem _ hz)
    have ih := leastBy_eq_foldl hL r y hy hr'
    show (match leastBy L (y :: r) with
          | none => some x
          | some m => some (if L m x then m else x)) = _
    rw [ih]
    show some (keep L x (r.foldl (keep L) y)) = _
    rw [← foldl_keep_assoc hL r x y hx hy hr']
    rfl

/-- two step functions that agree on `P` give the same left fold -/
theorem foldl_congr_on {P : Val → Prop} (f g : Val → Val → Val) (hfg : ∀ a b, P a → P b → f a b = g a b)
    (hP : ∀ a b, P a → P b → P (f a b)) : ∀ (r : List Val) (x : Val), P x → (∀ y ∈ r, P y) → r.foldl f x = r.foldl g x
  | [], _, _, _ => rfl
  | y :: r, x, hx, hr => by
    have hy : P y := hr y List.mem_cons_self
    simp only [List.foldl_cons]
    rw [← hfg x y hx hy]
    exact foldl_congr_on f g hfg hP r (f x y) (hP x y hx hy) (fun z hz => hr z (List.mem_cons_of_mem _ hz))

/-! ### the two orders used -/

/-- cells of kind `k` (`k ≠ 0`: not the missing value) -/
def OfKind (k : Nat) (v : Val) : Prop := kindOf v = k

/-- `max`: `v` is better than `m` when `m < v` -/
theorem strict_max (k : Nat) : StrictOn (OfKind k) (fun v m => Val.lt m v) where
  trans a b c ha hb hc h1 h2 := lt_trans_kind c b a (by rw [hc, hb]) (by rw [hb, ha]) h2 h1
  negtrans a b c ha hb hc h := by
    rcases lt_negtrans_kind c b a (by rw [hc, hb]) (by rw [hb, ha]) h with h | h
    · exact Or.inr h
    · exact Or.inl h

/-- `min`: `v` is better than `m` when `v < m` -/
theorem strict_min (k : Nat) : StrictOn (OfKind k) (fun v m => Val.lt v m) where
  trans a b c ha hb hc h1 h2 := lt_trans_kind a b c (by rw [ha, hb]) (by rw [hb, hc]) h1 h2
  negtrans a b c ha hb hc h := lt_negtrans_kind a b c (by rw [ha, hb]) (by rw [hb, hc]) h

/-- the documented `max` recursion (over `Doc.lt`) equals the backends' left fold (over `Val.lt`) on a non-empty list of
one kind -/
theorem docMax_eq (x : Val) (r : List Val) (h : oneKind (x :: r) = true) :
    leastBy (fun a b => Doc.lt b a) (x :: r) = some (r.foldl (fun m v => if Val.lt m v then v else m) x) := by
  have hk := oneKind_kinds (x :: r) h
  have hx : OfKind (kindOf x) x := rfl
  have hr : ∀ y ∈ r, OfKind (kindOf x) y := fun y hy => (hk x List.mem_cons_self y (List.mem_cons_of_mem _ hy)).1
  -- the specification's order is `Val.lt` on this kind
  have hstrict : StrictOn (OfKind (kindOf x)) (fun a b => Doc.lt b a) := by
    have := strict_max (kindOf x)
    constructor
    · intro a b c ha hb hc h1 h2
      rw [docLt_eq_valLt b a (by rw [hb, ha])] at h1
      rw [docLt_eq_valLt c b (by rw [hc, hb])] at h2
      rw [docLt_eq_valLt c a (by rw [hc, ha])]
      exact this.trans a b c ha hb hc h1 h2
    · intro a b c ha hb hc h
      rw [docLt_eq_valLt c a (by rw [hc, ha])] at h
      rw [docLt_eq_valLt b a (by rw [hb, ha]), docLt_eq_valLt c b (by rw [hc, hb])]
      exact this.negtrans a b c ha hb hc h
  rw [leastBy_eq_foldl hstrict r x hx hr]
  congr 1
  apply foldl_congr_on (P := OfKind (kindOf x)) _ _ _ _ r x hx hr
  · intro a b ha hb
    show (if Doc.lt a b then b else a) = _
    rw [docLt_eq_valLt a b (by rw [ha, hb])]
  · intro a b ha hb
    exact keep_P (P := OfKind (kindOf x)) _ ha hb

theorem docMin_eq (x : Val) (r : List Val) (h : oneKind (x :: r) = true) :
    leastBy Doc.lt (x :: r) = some (r.foldl (fun m v => if Val.lt v m then v else m) x) := by
  have hk := oneKind_kinds (x :: r) h
  have hx : OfKind (kindOf x) x := rfl
  have hr : ∀ y ∈ r, OfKind (kindOf x) y := fun y hy => (hk x List.mem_cons_self y (List.mem_cons_of_mem _ hy)).1
  have hstrict : StrictOn (OfKind (kindOf x)) Doc.lt := by
    have := strict_min (kindOf x)
    constructor
    · intro a b c ha hb hc h1 h2
      rw [docLt_eq_valLt a b (by rw [ha, hb])] at h1
      rw [docLt_eq_valLt b c (by rw [hb, hc])] at h2
      rw [docLt_eq_valLt a c (by rw [ha, hc])]
      exact this.trans a b c ha hb hc h1 h2
    · intro a b c ha hb hc h
      rw [docLt_eq_valLt a c (by rw [ha, hc])] at h
      rw [docLt_eq_valLt a b (by rw [ha, hb]), docLt_eq_valLt b c (by rw [hb, hc])]
      exact this.negtrans a b c ha hb hc h
  rw [leastBy_eq_foldl hstrict r x hx hr]
  congr 1
  apply foldl_congr_on (P := OfKind (kindOf x)) _ _ _ _ r x hx hr
  · intro a b ha hb
    show (if Doc.lt b a then b else a) = _
    rw [docLt_eq_valLt b a (by rw [hb, ha])]
  · intro a b ha hb
    exact keep_P (P := OfKind (kindOf x)) _ ha hb

/-! ### max / min of the backend models -/

theorem pandas_max (vs : List Val) (v : Val) (h : docAgg "max" vs = some v) : ThetaX.agg "max" vs = v := by
  have hd : docAgg "max" vs =
      (if oneKind (Doc.nonNull vs) then leastBy (fun a b => Doc.lt b a) (Doc.nonNull vs) else none) := rfl
  rw [hd] at h
  show Theta.maxV vs = v
  unfold Theta.maxV
  rw [nonNull_eq]
  by_cases hk : oneKind (Doc.nonNull vs) = true
  · rw [if_pos hk] at h
    cases hn : Doc.nonNull vs with
    | nil => rw [hn] at h; simp [leastBy] at h
    | cons x r =>
      rw [hn] at h hk
      rw [docMax_eq x r hk] at h
      exact Option.some.inj h
  · rw [if_neg hk] at h; simp at h

theorem pandas_min (vs : List Val) (v : Val) (h : docAgg "min" vs = some v) : ThetaX.agg "min" vs = v := by
  have hd : docAgg "min" vs = (if oneKind (Doc.nonNull vs) then leastBy Doc.lt (Doc.nonNull vs) else none) := rfl
  rw [hd] at h
  show Theta.minV vs = v
  unfold Theta.minV
  rw [nonNull_eq]
  by_cases hk : oneKind (Doc.nonNull vs) = true
  · rw [if_pos hk] at h
    cases hn : Doc.nonNull vs with
    | nil => rw [hn] at h; simp [leastBy] at h
    | cons x r =>
      rw [hn] at h hk
      rw [docMin_eq x r hk] at h
      exact Option.some.inj h
  · rw [if_neg hk] at h; simp at h

/-- SQL `MAX` / `MIN`: the SQLite model of `max` / `min` is the shared one -/
theorem sqlite_max (vs : List Val) (v : Val) (h : docAgg "max" vs = some v) : ThetaSqlX.agg "max" vs = v :=
  pandas_max vs v h
theorem sqlite_min (vs : List Val) (v : Val) (h : docAgg "min" vs = some v) : ThetaSqlX.agg "min" vs = v :=
  pandas_min vs v h

/-- a group without a non-missing item: the documentation names no value, both backends answer missing -/
theorem max_min_of_no_item (vs : List Val) (h : Doc.nonNull vs = []) :
    docAgg "max" vs = none ∧ docAgg "min" vs = none ∧
    ThetaX.agg "max" vs = .null ∧ ThetaX.agg "min" vs = .null ∧
    ThetaSqlX.agg "max" vs = .null ∧ ThetaSqlX.agg "min" vs = .null := by
  have hm : Theta.maxV vs = .null := by unfold Theta.maxV; rw [nonNull_eq, h]
  have hn : Theta.minV vs = .null := by unfold Theta.minV; rw [nonNull_eq, h]
  have d1 : docAgg "max" vs = none := by
    show (if oneKind (Doc.nonNull vs) then leastBy (fun a b => Doc.lt b a) (Doc.nonNull vs) else none) = none
    rw [h]; rfl
  have d2 : docAgg "min" vs = none := by
    show (if oneKind (Doc.nonNull vs) then leastBy Doc.lt (Doc.nonNull vs) else none) = none
    rw [h]; rfl
  exact ⟨d1, d2, hm, hn, hm, hn⟩

/-! ### what the documented max / min *is* (independent reading of `leastBy`): a member that no member beats -/

theorem leastBy_spec {P : Val → Prop} {L : Val → Val → Bool} (hL : StrictOn P L) (hirr : ∀ a, P a → L a a = false) :
    ∀ (l : List Val) (m : Val), (∀ y ∈ l, P y) → leastBy L l = some m → m ∈ l ∧ ∀ z ∈ l, L z m = false
  | [], m, _, h => by simp [leastBy] at h
  | x :: r, m, hl, h => by
    have hx : P x := hl x List.mem_cons_self
    have hr : ∀ y ∈ r, P y := fun y hy => hl y (List.mem_cons_of_mem _ hy)
    have hd : leastBy L (x :: r) = (match leastBy L r with
        | none => some x
        | some m' => some (if L m' x then m' else x)) := rfl
    rw [hd] at h
    cases hm : leastBy L r with
    | none =>
      rw [hm] at h
      have hrn : r = [] := by
        cases r with
        | nil => rfl
        | cons y r' =>
          have : leastBy L (y :: r') ≠ none := by
            show (match leastBy L r' with
              | none => some y
              | some m' => some (if L m' y then m' else y)) ≠ none
            split <;> simp
          exact absurd hm this
      subst hrn
      have : x = m := Option.some.inj h
      subst this
      refine ⟨List.mem_cons_self, ?_⟩
      intro z hz
      simp only [List.mem_singleton] at hz
      subst hz; exact hirr z hx
    | some m' =>
      rw [hm] at h
      obtain ⟨hmem, hbest⟩ := leastBy_spec hL hirr r m' hr hm
      have hm' : P m' := hr m' hmem
      have h' : (if L m' x then m' else x) = m := Option.some.inj h
      by_cases hc : L m' x = true
      · rw [if_pos hc] at h'; subst h'
        refine ⟨List.mem_cons_of_mem _ hmem, ?_⟩
        intro z hz
        rcases List.mem_cons.mp hz with rfl | hz
        · -- asymmetry from transitivity and irreflexivity
          cases hzz : L z m' with
          | false => rfl
          | true =>
            have := hL.trans z m' z hx hm' hx hzz hc
            rw [hirr z hx] at this; exact absurd this (by simp)
        · exact hbest z hz
      · rw [if_neg hc] at h'; subst h'
        refine ⟨List.mem_cons_self, ?_⟩
        intro z hz
        rcases List.mem_cons.mp hz with rfl | hz
        · exact hirr z hx
        · cases hzz : L z x with
          | false => rfl
          | true =>
            rcases hL.negtrans z m' x (hr z hz) hm' hx hzz with h1 | h1
            · rw [hbest z hz] at h1; exact absurd h1 (by simp)
            · exact absurd h1 hc

/-! ### `eraseDups` (core has the unfolding lemma and membership only) -/

theorem nodup_eraseDups {α} [BEq α] [LawfulBEq α] (l : List α) : l.eraseDups.Nodup := by
  match l with
  | [] => simp
  | a :: r =>
    rw [List.eraseDups_cons]
    have ih := nodup_eraseDups (r.filter (fun b => !b == a))
    refine List.nodup_cons.mpr ⟨?_, ih⟩
    rw [List.mem_eraseDups]; simp
termination_by l.length
decreasing_by simp only [List.length_cons]; exact Nat.lt_succ_of_le (List.length_filter_le _ _)

theorem length_eraseDups_le {α} [BEq α] [LawfulBEq α] (l : List α) : l.eraseDups.length ≤ l.length := by
  match l with
  | [] => simp
  | a :: r =>
    rw [List.eraseDups_cons]
    have ih := length_eraseDups_le (r.filter (fun b => !b == a))
    have := List.length_filter_le (fun b => !b == a) r
    simp only [List.length_cons]; omega
termination_by l.length
decreasing_by simp only [List.length_cons]; exact Nat.lt_succ_of_le (List.length_filter_le _ _)

/-- "no two items are equal", as the specification writes it (`eraseDups` removes nothing) -/
theorem nodup_of_length_eraseDups {α} [BEq α] [LawfulBEq α] (l : List α) (h : l.eraseDups.length = l.length) : l.Nodup := by
  match l with
  | [] => simp
  | a :: r =>
    rw [List.eraseDups_cons] at h
    have h1 := length_eraseDups_le (r.filter (fun b => !b == a))
    have h2 := List.length_filter_le (fun b => !b == a) r
    simp only [List.length_cons] at h
    have hf : (r.filter (fun b => !b == a)).length = r.length := by omega
    have hfr : r.filter (fun b => !b == a) = r := List.length_filter_eq_length_iff.mp hf |> List.filter_eq_self.mpr
    have ih := nodup_of_length_eraseDups (r.filter (fun b => !b == a)) (by omega)
    rw [hfr] at ih
    refine List.nodup_cons.mpr ⟨?_, ih⟩
    intro ha
    have := List.filter_eq_self.mp hfr a ha
    simp at this
termination_by l.length
decreasing_by simp only [List.length_cons]; exact Nat.lt_succ_of_le (List.length_filter_le _ _)


/-! ### nunique -/

theorem pandas_nunique (vs : List Val) (v : Val) (h : docAgg "nunique" vs = some v) : ThetaX.agg "nunique" vs = v := by
  have hd : docAgg "nunique" vs = some (.num (Doc.nonNull vs).eraseDups.length) := rfl
  rw [hd] at h
  have := Option.some.inj h
  subst this
  show Val.num (Theta.nonNull vs).eraseDups.length = _
  rw [nonNull_eq]

/-- `COUNT(DISTINCT x)`: the SQLite model of `nunique` is the shared one -/
theorem sqlite_nunique (vs : List Val) (v : Val) (h : docAgg "nunique" vs = some v) : ThetaSqlX.agg "nunique" vs = v :=
  pandas_nunique vs v h

/-- what the documented value *is*: the length of **any** duplicate-free list of exactly the non-missing items -/
theorem docNunique_spec (vs ds : List Val) (hnd : ds.Nodup) (hmem : ∀ v, v ∈ ds ↔ (v ∈ vs ∧ v ≠ .null)) :
    docAgg "nunique" vs = some (.num ds.length) := by
  show some (Val.num (Doc.nonNull vs).eraseDups.length) = _
  have hp : (Doc.nonNull vs).eraseDups.Perm ds := by
    rw [List.perm_ext_iff_of_nodup (nodup_eraseDups _) hnd]
    intro a
    rw [List.mem_eraseDups, hmem a]
    unfold Doc.nonNull
    simp
  rw [hp.length_eq]

/-! ### any_value on a constant group: SQL `MAX` -/

theorem foldl_max_const (x : Val) : ∀ (r : List Val), (∀ y ∈ r, y = x) →
    r.foldl (fun m v => if Val.lt m v then v else m) x = x
  | [], _ => rfl
  | y :: r, h => by
    have hy : y = x := h y List.mem_cons_self
    subst hy
    simp only [List.foldl_cons, lt_irrefl_val, Bool.false_eq_true, if_false]
    exact foldl_max_const y r (fun z hz => h z (List.mem_cons_of_mem _ hz))

/-- `any_value` is rendered `MAX(x)`: on a column that is constant within the group (Appendix B) it is that constant
(a group of missing values: NULL) -/
theorem sqlite_any_value (vs : List Val) (v : Val) : docAgg "any_value" vs = some v → ThetaSqlX.agg "any_value" vs = v := by
  have hd : docAgg "any_value" vs = (match vs with
    | [] => none
    | x :: r => if r.all (· == x) then some x else none) := rfl
  rw [hd]; intro h
  cases vs with
  | nil => simp at h
  | cons x r =>
    simp only at h
    by_cases hc : r.all (· == x) = true
    · rw [if_pos hc] at h
      have := Option.some.inj h
      subst this
      have hall : ∀ y ∈ r, y = x := fun y hy => by
        have := List.all_eq_true.mp hc y hy
        simpa using this
      show Theta.maxV (x :: r) = x
      unfold Theta.maxV
      cases x with
      | null =>
        have : Theta.nonNull (Val.null :: r) = [] := by
          unfold Theta.nonNull
          rw [List.filter_eq_nil_iff]
          intro a ha
          rcases List.mem_cons.mp ha with rfl | ha
          · simp [Val.isNull]
          · rw [hall a ha]; simp [Val.isNull]
        rw [this]
      | bool b =>
        have : Theta.nonNull (Val.bool b :: r) = Val.bool b :: r := by
          unfold Theta.nonNull
          rw [List.filter_eq_self]
          intro a ha
          rcases List.mem_cons.mp ha with rfl | ha
          · simp [Val.isNull]
          · rw [hall a ha]; simp [Val.isNull]
        rw [this]; exact foldl_max_const _ r hall
      | num q =>
        have : Theta.nonNull (Val.num q :: r) = Val.num q :: r := by
          unfold Theta.nonNull
          rw [List.filter_eq_self]
          intro a ha
          rcases List.mem_cons.mp ha with rfl | ha
          · simp [Val.isNull]
          · rw [hall a ha]; simp [Val.isNull]
        rw [this]; exact foldl_max_const _ r hall
      | str s =>
        have : Theta.nonNull (Val.str s :: r) = Val.str s :: r := by
          unfold Theta.nonNull
          rw [List.filter_eq_self]
          intro a ha
          rcases List.mem_cons.mp ha with rfl | ha
          · simp [Val.isNull]
          · rw [hall a ha]; simp [Val.isNull]
        rw [this]; exact foldl_max_const _ r hall
    · rw [if_neg hc] at h; simp at h

/-! ### the documented max / min, read independently -/

/-- the documented maximum is a non-missing item of the group that no non-missing item exceeds -/
theorem docMax_spec (vs : List Val) (m : Val) (h : docAgg "max" vs = some m) :
    m ∈ vs ∧ m ≠ .null ∧ ∀ z ∈ vs, z ≠ .null → Doc.lt m z = false := by
  have hd : docAgg "max" vs =
      (if oneKind (Doc.nonNull vs) then leastBy (fun a b => Doc.lt b a) (Doc.nonNull vs) else none) := rfl
  rw [hd] at h
  by_cases hk : oneKind (Doc.nonNull vs) = true
  · rw [if_pos hk] at h
    cases hn : Doc.nonNull vs with
    | nil => rw [hn] at h; simp [leastBy] at h
    | cons x r =>
      have hkinds := oneKind_kinds _ hk
      rw [hn] at hkinds h
      have hP : ∀ y ∈ x :: r, OfKind (kindOf x) y := fun y hy => (hkinds x List.mem_cons_self y hy).1
      have hstrict : StrictOn (OfKind (kindOf x)) (fun a b => Doc.lt b a) := by
        have := strict_max (kindOf x)
        constructor
        · intro a b c ha hb hc h1 h2
          rw [docLt_eq_valLt b a (by rw [hb, ha])] at h1
          rw [docLt_eq_valLt c b (by rw [hc, hb])] at h2
          rw [docLt_eq_valLt c a (by rw [hc, ha])]
          exact this.trans a b c ha hb hc h1 h2
        · intro a b c ha hb hc h
          rw [docLt_eq_valLt c a (by rw [hc, ha])] at h
          rw [docLt_eq_valLt b a (by rw [hb, ha]), docLt_eq_valLt c b (by rw [hc, hb])]
          exact this.negtrans a b c ha hb hc h
      have hirr : ∀ a, OfKind (kindOf x) a → (fun a b => Doc.lt b a) a a = false := by
        intro a _; show Doc.lt a a = false
        rw [docLt_eq_valLt a a rfl]; exact lt_irrefl_val a
      obtain ⟨hm, hb⟩ := leastBy_spec hstrict hirr (x :: r) m hP h
      have hm' : m ∈ Doc.nonNull vs := by rw [hn]; exact hm
      unfold Doc.nonNull at hm'
      rw [List.mem_filter] at hm'
      refine ⟨hm'.1, by simpa using hm'.2, ?_⟩
      intro z hz hzn
      have : z ∈ Doc.nonNull vs := by
        unfold Doc.nonNull; rw [List.mem_filter]; exact ⟨hz, by simpa using hzn⟩
      rw [hn] at this
      exact hb z this
  · rw [if_neg hk] at h; simp at h

/-- the documented minimum is a non-missing item of the group that is not above any non-missing item -/
theorem docMin_spec (vs : List Val) (m : Val) (h : docAgg "min" vs = some m) :
    m ∈ vs ∧ m ≠ .null ∧ ∀ z ∈ vs, z ≠ .null → Doc.lt z m = false := by
  have hd : docAgg "min" vs = (if oneKind (Doc.nonNull vs) then leastBy Doc.lt (Doc.nonNull vs) else none) := rfl
  rw [hd] at h
  by_cases hk : oneKind (Doc.nonNull vs) = true
  · rw [if_pos hk] at h
    cases hn : Doc.nonNull vs with
    | nil => rw [hn] at h; simp [leastBy] at h
    | cons x r =>
      have hkinds := oneKind_kinds _ hk
      rw [hn] at hkinds h
      have hP : ∀ y ∈ x :: r, OfKind (kindOf x) y := fun y hy => (hkinds x List.mem_cons_self y hy).1
      have hstrict : StrictOn (OfKind (kindOf x)) Doc.lt := by
        have := strict_min (kindOf x)
        constructor
        · intro a b c ha hb hc h1 h2
          rw [docLt_eq_valLt a b (by rw [ha, hb])] at h1
          rw [docLt_eq_valLt b c (by rw [hb, hc])] at h2
          rw [docLt_eq_valLt a c (by rw [ha, hc])]
          exact this.trans a b c ha hb hc h1 h2
        · intro a b c ha hb hc h
          rw [docLt_eq_valLt a c (by rw [ha, hc])] at h
          rw [docLt_eq_valLt a b (by rw [ha, hb]), docLt_eq_valLt b c (by rw [hb, hc])]
          exact this.negtrans a b c ha hb hc h
      have hirr : ∀ a, OfKind (kindOf x) a → Doc.lt a a = false := by
        intro a _
        rw [docLt_eq_valLt a a rfl]; exact lt_irrefl_val a
      obtain ⟨hm, hb⟩ := leastBy_spec hstrict hirr (x :: r) m hP h
      have hm' : m ∈ Doc.nonNull vs := by rw [hn]; exact hm
      unfold Doc.nonNull at hm'
      rw [List.mem_filter] at hm'
      refine ⟨hm'.1, by simpa using hm'.2, ?_⟩
      intro z hz hzn
      have : z ∈ Doc.nonNull vs := by
        unfold Doc.nonNull; rw [List.mem_filter]; exact ⟨hz, by simpa using hzn⟩
      rw [hn] at this
      exact hb z this
  · rw [if_neg hk] at h; simp at h

end DAVerif.C05A
