import DAVerif.CData.Record
/-!
Helper lemmas for C17 (model in `CData/Record.lean`, property theorems in `Props/C17.lean`).

Part 1: cells / rows / order / sorting / permutation utilities.
-/
namespace DAVerif.CData
open List

/-! ### generic list utilities -/

theorem inj_of_nodup_map {α β : Type} {f : α → β} : ∀ {l : List α}, (l.map f).Nodup →
    ∀ {a b}, a ∈ l → b ∈ l → f a = f b → a = b
  | [], _, _, _, ha, _, _ => by cases ha
  | x :: l, h, a, b, ha, hb, hab => by
    rw [map_cons, nodup_cons] at h
    rcases mem_cons.1 ha with rfl | ha' <;> rcases mem_cons.1 hb with rfl | hb'
    · rfl
    · exact absurd (hab ▸ mem_map_of_mem hb') h.1
    · exact absurd (hab ▸ mem_map_of_mem ha') h.1
    · exact inj_of_nodup_map h.2 ha' hb' hab

theorem nodup_map_of_inj {α β : Type} {f : α → β} : ∀ {l : List α}, l.Nodup →
    (∀ a ∈ l, ∀ b ∈ l, f a = f b → a = b) → (l.map f).Nodup
  | [], _, _ => by simp
  | x :: l, h, hf => by
    rw [nodup_cons] at h
    rw [map_cons, nodup_cons]
    refine ⟨?_, nodup_map_of_inj h.2 fun a ha b hb => hf a (mem_cons_of_mem _ ha) b (mem_cons_of_mem _ hb)⟩
    intro hx
    obtain ⟨y, hy, hxy⟩ := mem_map.1 hx
    have := hf y (mem_cons_of_mem _ hy) x mem_cons_self hxy
    exact h.1 (this ▸ hy)

theorem nodup_of_nodup_map {α β : Type} (f : α → β) {l : List α} (h : (l.map f).Nodup) : l.Nodup := by
  induction l with
  | nil => simp
  | cons x l ih =>
    rw [map_cons, nodup_cons] at h
    exact nodup_cons.2 ⟨fun hx => h.1 (mem_map_of_mem hx), ih h.2⟩

theorem nodup_flatMap_of {α β : Type} {f : α → List β} : ∀ {l : List α}, l.Nodup →
    (∀ a ∈ l, (f a).Nodup) → (∀ a ∈ l, ∀ b ∈ l, a ≠ b → ∀ x ∈ f a, x ∉ f b) → (l.flatMap f).Nodup
  | [], _, _, _ => by simp
  | a :: l, h, h1, h2 => by
    rw [nodup_cons] at h
    rw [flatMap_cons, nodup_append]
    refine ⟨h1 a mem_cons_self, nodup_flatMap_of h.2 (fun b hb => h1 b (mem_cons_of_mem _ hb))
      (fun b hb c hc => h2 b (mem_cons_of_mem _ hb) c (mem_cons_of_mem _ hc)), ?_⟩
    intro x hx y hy hxy
    subst hxy
    obtain ⟨b, hb, hxb⟩ := mem_flatMap.1 hy
    exact h2 a mem_cons_self b (mem_cons_of_mem _ hb) (fun e => h.1 (e ▸ hb)) x hx hxb

theorem perm_of_nodup_mem {α : Type} {l₁ l₂ : List α} (h₁ : l₁.Nodup) (h₂ : l₂.Nodup)
    (h : ∀ a, a ∈ l₁ ↔ a ∈ l₂) : l₁.Perm l₂ := (perm_ext_iff_of_nodup h₁ h₂).2 h

theorem flatMap_perm_congr {α β : Type} {f g : α → List β} : ∀ {l : List α},
    (∀ a ∈ l, (f a).Perm (g a)) → (l.flatMap f).Perm (l.flatMap g)
  | [], _ => by simp
  | a :: l, h => by
    rw [flatMap_cons, flatMap_cons]
    exact (h a mem_cons_self).append (flatMap_perm_congr fun b hb => h b (mem_cons_of_mem _ hb))

theorem flatMap_cons_perm {α β : Type} (g : α → β) (h : α → List β) : ∀ l : List α,
    (l.flatMap fun a => g a :: h a).Perm (l.map g ++ l.flatMap h)
  | [] => by simp
  | a :: l => by
    simp only [flatMap_cons, map_cons, cons_append]
    refine Perm.cons _ ?_
    refine ((flatMap_cons_perm g h l).append_left (h a)).trans ?_
    rw [← append_assoc, ← append_assoc]
    exact perm_append_comm.append_right _

/-- row-major and column-major enumeration of a matrix are permutations of each other -/
theorem flatMap_swap_perm {α β γ : Type} (f : α → β → γ) : ∀ (l₁ : List α) (l₂ : List β),
    (l₁.flatMap fun a => l₂.map (f a)).Perm (l₂.flatMap fun b => l₁.map fun a => f a b)
  | [], l₂ => by
    have : (l₂.flatMap fun _ => ([] : List γ)) = [] := by induction l₂ <;> simp_all
    simp [this]
  | a :: l₁, l₂ => by
    simp only [flatMap_cons, map_cons]
    exact ((flatMap_swap_perm f l₁ l₂).append_left _).trans (flatMap_cons_perm _ _ l₂).symm

theorem zipWith_self' {α β : Type} (f : α → α → β) : ∀ l : List α, zipWith f l l = l.map fun a => f a a
  | [] => rfl
  | a :: l => by simp

/-! ### dedup -/

theorem mem_dedup {α : Type} [DecidableEq α] {a : α} : ∀ {l : List α}, a ∈ dedup l ↔ a ∈ l
  | [] => by simp [dedup]
  | b :: l => by
    unfold dedup
    split
    · rename_i hb
      rw [mem_dedup, mem_cons]
      constructor
      · exact Or.inr
      · rintro (rfl | h)
        · exact hb
        · exact h
    · rw [mem_cons, mem_cons, mem_dedup]

theorem nodup_dedup {α : Type} [DecidableEq α] : ∀ (l : List α), (dedup l).Nodup
  | [] => by simp [dedup]
  | b :: l => by
    unfold dedup
    split
    · exact nodup_dedup l
    · rename_i hb
      exact nodup_cons.2 ⟨fun h => hb (mem_dedup.1 h), nodup_dedup l⟩

theorem dedupFirst_of_nodup {α : Type} [DecidableEq α] : ∀ {l : List α}, l.Nodup → dedupFirst l = l
  | [], _ => rfl
  | a :: l, h => by
    rw [nodup_cons] at h
    unfold dedupFirst
    rw [dedupFirst_of_nodup h.2]
    congr 1
    apply filter_eq_self.2
    intro b hb
    simp only [ne_eq, decide_not, Bool.not_eq_eq_eq_not, Bool.not_true, decide_eq_false_iff_not]
    rintro rfl
    exact h.1 hb

/-! ### look / proj / keyOf -/

theorem look_cons (k : String) (v : Val) (r : Row) (c : String) :
    look ((k, v) :: r) c = if k = c then v else look r c := rfl

theorem look_map_pair (f : String → Val) : ∀ {cs : List String} {c : String}, c ∈ cs →
    look (cs.map fun c => (c, f c)) c = f c
  | d :: cs, c, h => by
    simp only [map_cons, look_cons]
    split
    · rename_i e; rw [e]
    · rename_i e
      rcases mem_cons.1 h with rfl | h'
      · exact absurd rfl e
      · exact look_map_pair f h'

theorem look_map_pair_not_mem (f : String → Val) : ∀ {cs : List String} {c : String}, c ∉ cs →
    look (cs.map fun c => (c, f c)) c = .null
  | [], _, _ => rfl
  | d :: cs, c, h => by
    simp only [map_cons, look_cons]
    rw [mem_cons, not_or] at h
    rw [if_neg (fun e => h.1 e.symm)]
    exact look_map_pair_not_mem f h.2

theorem look_proj {cs : List String} {c : String} (r : Row) (h : c ∈ cs) : look (proj cs r) c = look r c :=
  look_map_pair (look r) h

theorem look_append (r₁ r₂ : Row) (c : String) :
    look (r₁ ++ r₂) c = if c ∈ r₁.map Prod.fst then look r₁ c else look r₂ c := by
  induction r₁ with
  | nil => simp
  | cons kv r₁ ih =>
    obtain ⟨k, v⟩ := kv
    simp only [cons_append, look_cons, map_cons, mem_cons]
    by_cases e : k = c
    · simp [e]
    · rw [if_neg e, if_neg e, ih]
      have : ¬ c = k := fun h => e h.symm
      by_cases hc : c ∈ map Prod.fst r₁
      · rw [if_pos hc, if_pos (Or.inr hc)]
      · rw [if_neg hc, if_neg (fun h => h.elim this hc)]

theorem proj_keys (cs : List String) (r : Row) : (proj cs r).map Prod.fst = cs := by
  simp [proj, Function.comp_def]

theorem proj_append (cs ds : List String) (r : Row) : proj (cs ++ ds) r = proj cs r ++ proj ds r := by
  simp [proj]

theorem proj_congr {cs : List String} {r r' : Row} (h : ∀ c ∈ cs, look r c = look r' c) : proj cs r = proj cs r' := by
  unfold proj
  apply map_congr_left
  intro c hc
  rw [h c hc]

theorem proj_proj {cs ds : List String} (r : Row) (h : ∀ c ∈ cs, c ∈ ds) : proj cs (proj ds r) = proj cs r :=
  proj_congr fun c hc => look_proj r (h c hc)

theorem proj_eq_iff {cs : List String} {r r' : Row} : proj cs r = proj cs r' ↔ ∀ c ∈ cs, look r c = look r' c := by
  constructor
  · intro h c hc
    rw [← look_proj r hc, ← look_proj r' hc, h]
  · exact proj_congr

theorem keyOf_congr {ks : List String} {r r' : Row} (h : ∀ c ∈ ks, look r c = look r' c) : keyOf ks r = keyOf ks r' := by
  unfold keyOf
  exact map_congr_left h

theorem keyOf_proj {ks cs : List String} (r : Row) (h : ∀ c ∈ ks, c ∈ cs) : keyOf ks (proj cs r) = keyOf ks r :=
  keyOf_congr fun c hc => look_proj r (h c hc)

theorem keyOf_eq_iff {ks : List String} {r r' : Row} : keyOf ks r = keyOf ks r' ↔ ∀ c ∈ ks, look r c = look r' c := by
  constructor
  · intro h
    induction ks with
    | nil => simp
    | cons k ks ih =>
      simp only [keyOf, map_cons, cons.injEq] at h
      intro c hc
      rcases mem_cons.1 hc with rfl | hc
      · exact h.1
      · exact ih h.2 c hc
  · exact keyOf_congr

theorem keyOf_append (ks ks' : List String) (r : Row) : keyOf (ks ++ ks') r = keyOf ks r ++ keyOf ks' r := by
  simp [keyOf]

theorem keyOf_length (ks : List String) (r : Row) : (keyOf ks r).length = ks.length := by simp [keyOf]

/-- keys over a sub-list of columns are determined by keys over the larger list -/
theorem keyOf_sub {ks ks' : List String} {r r' : Row} (h : ∀ c ∈ ks, c ∈ ks') (e : keyOf ks' r = keyOf ks' r') :
    keyOf ks r = keyOf ks r' :=
  keyOf_congr fun c hc => keyOf_eq_iff.1 e c (h c hc)

theorem noNull_iff {k : List Val} : noNull k = true ↔ ∀ v ∈ k, v ≠ .null := by
  simp [noNull]

theorem noNull_append {a b : List Val} : noNull (a ++ b) = true ↔ noNull a = true ∧ noNull b = true := by
  simp [noNull, all_append]

theorem noNull_keyOf_sub {ks ks' : List String} {r : Row} (h : ∀ c ∈ ks, c ∈ ks') (e : noNull (keyOf ks' r) = true) :
    noNull (keyOf ks r) = true := by
  rw [noNull_iff] at e ⊢
  intro v hv
  obtain ⟨c, hc, rfl⟩ := mem_map.1 hv
  exact e _ (mem_map_of_mem (h c hc))

/-! ### the order -/

theorem Val.le_total (a b : Val) : (Val.le a b || Val.le b a) = true := by
  cases a <;> cases b <;> simp [Val.le]
  · rename_i i j; omega
  · rename_i s t; exact String.le_total s t

theorem Val.le_trans {a b c : Val} (h₁ : Val.le a b = true) (h₂ : Val.le b c = true) : Val.le a c = true := by
  cases a <;> cases b <;> cases c <;> simp_all [Val.le]
  · omega
  · rename_i s t u; exact String.le_trans h₁ h₂

theorem Val.le_antisymm {a b : Val} (h₁ : Val.le a b = true) (h₂ : Val.le b a = true) : a = b := by
  cases a <;> cases b <;> simp_all [Val.le]
  · omega
  · rename_i s t; exact String.le_antisymm h₁ h₂

theorem keyLe_total : ∀ (a b : List Val), (keyLe a b || keyLe b a) = true
  | [], _ => by simp [keyLe]
  | _ :: _, [] => by simp [keyLe]
  | a :: as, b :: bs => by
    unfold keyLe
    by_cases e : a = b
    · subst e; simp only [if_true]; exact keyLe_total as bs
    · rw [if_neg e, if_neg (fun h => e h.symm)]; exact Val.le_total a b

theorem keyLe_trans : ∀ {a b c : List Val}, keyLe a b = true → keyLe b c = true → keyLe a c = true
  | [], _, _, _, _ => by simp [keyLe]
  | _ :: _, [], _, h, _ => by simp [keyLe] at h
  | _ :: _, _ :: _, [], _, h => by simp [keyLe] at h
  | a :: as, b :: bs, c :: cs, h₁, h₂ => by
    unfold keyLe at h₁ h₂ ⊢
    by_cases e₁ : a = b
    · subst e₁
      by_cases e₂ : a = c
      · subst e₂; simp only [if_true] at h₁ h₂ ⊢; exact keyLe_trans h₁ h₂
      · rw [if_neg e₂] at h₂ ⊢; exact h₂
    · rw [if_neg e₁] at h₁
      by_cases e₂ : b = c
      · subst e₂; rw [if_neg e₁]; exact h₁
      · rw [if_neg e₂] at h₂
        by_cases e₃ : a = c
        · subst e₃; exact absurd (Val.le_antisymm h₁ h₂) e₁
        · rw [if_neg e₃]; exact Val.le_trans h₁ h₂

theorem keyLe_antisymm : ∀ {a b : List Val}, keyLe a b = true → keyLe b a = true → a = b
  | [], [], _, _ => rfl
  | [], _ :: _, _, h => by simp [keyLe] at h
  | _ :: _, [], h, _ => by simp [keyLe] at h
  | a :: as, b :: bs, h₁, h₂ => by
    unfold keyLe at h₁ h₂
    by_cases e : a = b
    · subst e; simp only [if_true] at h₁ h₂; rw [keyLe_antisymm h₁ h₂]
    · rw [if_neg e] at h₁; rw [if_neg (fun h => e h.symm)] at h₂
      exact absurd (Val.le_antisymm h₁ h₂) e

/-! ### sorting -/

abbrev rowLe (ks : List String) : Row → Row → Bool := fun a b => keyLe (keyOf ks a) (keyOf ks b)

theorem insSorted_perm {α : Type} (le : α → α → Bool) (x : α) : ∀ l : List α, (insSorted le x l).Perm (x :: l)
  | [] => Perm.refl _
  | y :: l => by
    unfold insSorted
    split
    · exact Perm.refl _
    · exact ((insSorted_perm le x l).cons y).trans (Perm.swap x y l)

theorem isort_perm {α : Type} (le : α → α → Bool) : ∀ l : List α, (isort le l).Perm l
  | [] => Perm.refl _
  | x :: l => by
    show (insSorted le x (isort le l)).Perm (x :: l)
    exact (insSorted_perm le x _).trans ((isort_perm le l).cons x)

theorem insSorted_sorted {α : Type} {le : α → α → Bool} (htr : ∀ a b c, le a b = true → le b c = true → le a c = true)
    (htot : ∀ a b, (le a b || le b a) = true) (x : α) :
    ∀ {l : List α}, l.Pairwise (fun a b => le a b = true) → (insSorted le x l).Pairwise (fun a b => le a b = true)
  | [], _ => by simp [insSorted]
  | y :: l, h => by
    unfold insSorted
    rw [pairwise_cons] at h
    split
    · rename_i hxy
      refine pairwise_cons.2 ⟨?_, pairwise_cons.2 h⟩
      intro z hz
      rcases mem_cons.1 hz with rfl | hz
      · exact hxy
      · exact htr _ _ _ hxy (h.1 z hz)
    · rename_i hxy
      refine pairwise_cons.2 ⟨?_, insSorted_sorted htr htot x h.2⟩
      intro z hz
      rcases mem_cons.1 ((insSorted_perm le x l).mem_iff.1 hz) with rfl | hz
      · have := htot z y
        simp only [Bool.or_eq_true] at this
        exact this.resolve_left hxy
      · exact h.1 z hz

theorem isort_sorted {α : Type} {le : α → α → Bool} (htr : ∀ a b c, le a b = true → le b c = true → le a c = true)
    (htot : ∀ a b, (le a b || le b a) = true) : ∀ l : List α, (isort le l).Pairwise (fun a b => le a b = true)
  | [] => Pairwise.nil
  | x :: l => insSorted_sorted htr htot x (isort_sorted htr htot l)

theorem sortBy_perm (ks : List String) (l : List Row) : (sortBy ks l).Perm l := isort_perm _ _

theorem sortBy_sorted (ks : List String) (l : List Row) : (sortBy ks l).Pairwise (fun a b => rowLe ks a b = true) :=
  isort_sorted (le := rowLe ks) (fun _ _ _ => keyLe_trans) (fun _ _ => keyLe_total _ _) l

theorem mem_sortBy {ks : List String} {l : List Row} {r : Row} : r ∈ sortBy ks l ↔ r ∈ l :=
  (sortBy_perm ks l).mem_iff

/-- two sorted permutations of a list with distinct keys are equal -/
theorem sorted_unique {ks : List String} {l₁ l₂ : List Row} (hp : l₁.Perm l₂)
    (h₁ : l₁.Pairwise (fun a b => rowLe ks a b = true)) (h₂ : l₂.Pairwise (fun a b => rowLe ks a b = true))
    (hk : (l₁.map (keyOf ks)).Nodup) : l₁ = l₂ := by
  refine Perm.eq_of_pairwise (le := fun a b => rowLe ks a b = true) ?_ h₁ h₂ hp
  intro a b ha hb hab hba
  exact inj_of_nodup_map hk ha (hp.symm.mem_iff.1 hb) (keyLe_antisymm hab hba)

/-- sorting commutes with a key-preserving map when keys are distinct -/
theorem sortBy_map {ks : List String} (f : Row → Row) (l : List Row) (hf : ∀ r ∈ l, keyOf ks (f r) = keyOf ks r)
    (hk : (l.map (keyOf ks)).Nodup) : sortBy ks (l.map f) = (sortBy ks l).map f := by
  have hkeys : ((sortBy ks l).map f).map (keyOf ks) = (sortBy ks l).map (keyOf ks) := by
    rw [map_map]
    exact map_congr_left fun r hr => hf r (mem_sortBy.1 hr)
  refine sorted_unique ((sortBy_perm _ _).trans ((sortBy_perm ks l).map f).symm) (sortBy_sorted _ _) ?_ ?_
  · rw [pairwise_map]
    refine (sortBy_sorted ks l).imp_of_mem ?_
    intro a b ha hb hab
    show keyLe (keyOf ks (f a)) (keyOf ks (f b)) = true
    rw [hf a (mem_sortBy.1 ha), hf b (mem_sortBy.1 hb)]
    exact hab
  · have : ((sortBy ks (l.map f)).map (keyOf ks)).Perm (l.map (keyOf ks)) := by
      refine ((sortBy_perm ks (l.map f)).map _).trans ?_
      rw [map_map]
      exact Perm.of_eq (map_congr_left fun r hr => hf r hr)
    exact this.nodup_iff.2 hk

/-! ### hcat -/

theorem hcat_map {α : Type} (us : List α) : ∀ (fs : List (α → Row)), fs ≠ [] →
    hcat (fs.map fun h => us.map h) = us.map fun u => fs.flatMap fun h => h u
  | [], h => absurd rfl h
  | [h], _ => by simp [hcat]
  | h :: h' :: fs, _ => by
    have ih := hcat_map us (h' :: fs) (by simp)
    simp only [map_cons] at ih ⊢
    unfold hcat
    rw [ih, zipWith_map, zipWith_self']
    simp

end DAVerif.CData
