import DAVerif.Spec.Polars
import DAVerif.Proofs.Perm
/-!
Row-level lemmas for the Polars executor model (C03): reading cells of association-list rows after `set`,
`setAll`, `rename`, `select`, and of rows built by mapping over a column list.
-/
namespace DAVerif
namespace PlRow

theorem get_cons (k : String) (v : Val) (r : Row) (c : String) :
    Row.get ((k, v) :: r) c = if c == k then v else Row.get r c := by
  simp only [Row.get, List.lookup]
  cases h : c == k <;> simp

theorem get_nil (c : String) : Row.get [] c = .null := rfl

/-- with pairwise different column names, a row reads at `k` the value stored with `k` -/
theorem get_of_mem_nodup {r : Row} {k : String} {v : Val} (hn : r.keys.Nodup) (h : (k, v) ∈ r) :
    Row.get r k = v := by
  induction r with
  | nil => cases h
  | cons kv r ih =>
    obtain ⟨k', v'⟩ := kv
    simp only [Row.keys, List.map_cons, List.nodup_cons] at hn
    rw [get_cons]
    rcases List.mem_cons.mp h with e | h'
    · cases e; simp
    · have hk : k ∈ Row.keys r := List.mem_map.mpr ⟨(k, v), h', rfl⟩
      have : (k == k') = false := by
        apply beq_false_of_ne
        rintro rfl
        exact hn.1 hk
      rw [this]
      exact ih hn.2 h'

theorem mem_get {r : Row} {k : String} (h : k ∈ r.keys) : (k, Row.get r k) ∈ r := by
  induction r with
  | nil => cases h
  | cons kv r ih =>
    obtain ⟨k', v'⟩ := kv
    rw [get_cons]
    by_cases e : k = k'
    · subst e; simp
    · have : (k == k') = false := beq_false_of_ne e
      rw [this]
      simp only [Row.keys, List.map_cons, List.mem_cons] at h
      rcases h with h | h
      · exact absurd h e
      · exact List.mem_cons_of_mem _ (ih h)

theorem get_of_not_mem {r : Row} {k : String} (h : k ∉ r.keys) : Row.get r k = .null := by
  induction r with
  | nil => rfl
  | cons kv r ih =>
    obtain ⟨k', v'⟩ := kv
    simp only [Row.keys, List.map_cons, List.mem_cons, not_or] at h
    rw [get_cons, beq_false_of_ne h.1]
    exact ih h.2

theorem get_append_left {r s : Row} {k : String} (h : k ∈ r.keys) : Row.get (r ++ s) k = Row.get r k := by
  induction r with
  | nil => cases h
  | cons kv r ih =>
    obtain ⟨k', v'⟩ := kv
    simp only [List.cons_append, get_cons]
    by_cases e : k = k'
    · subst e; simp
    · rw [beq_false_of_ne e]
      simp only [Row.keys, List.map_cons, List.mem_cons] at h
      exact ih (h.resolve_left e)

theorem get_append_right {r s : Row} {k : String} (h : k ∉ r.keys) : Row.get (r ++ s) k = Row.get s k := by
  induction r with
  | nil => rfl
  | cons kv r ih =>
    obtain ⟨k', v'⟩ := kv
    simp only [Row.keys, List.map_cons, List.mem_cons, not_or] at h
    simp only [List.cons_append, get_cons, beq_false_of_ne h.1]
    exact ih h.2

/-! ### `set`, `setAll` -/

theorem get_set_same (r : Row) (c : String) (v : Val) : Row.get (r.set c v) c = v := by
  induction r with
  | nil => simp [Row.set, get_cons]
  | cons kv r ih =>
    obtain ⟨k', v'⟩ := kv
    simp only [Row.set]
    by_cases e : k' = c
    · subst e; simp [get_cons]
    · have : (k' == c) = false := beq_false_of_ne e
      simp only [this, Bool.false_eq_true, if_false, get_cons]
      have : (c == k') = false := beq_false_of_ne (Ne.symm e)
      rw [this]
      exact ih

theorem get_set_other (r : Row) {c k : String} (v : Val) (h : k ≠ c) : Row.get (r.set c v) k = Row.get r k := by
  induction r with
  | nil => simp [Row.set, get_cons, beq_false_of_ne h, get_nil]
  | cons kv r ih =>
    obtain ⟨k', v'⟩ := kv
    simp only [Row.set]
    by_cases e : k' = c
    · subst e
      simp [get_cons, beq_false_of_ne h]
    · have : (k' == c) = false := beq_false_of_ne e
      simp only [this, Bool.false_eq_true, if_false, get_cons]
      rw [ih]

theorem keys_set_of_mem (r : Row) {c : String} (v : Val) (h : c ∈ r.keys) : (r.set c v).keys = r.keys := by
  induction r with
  | nil => cases h
  | cons kv r ih =>
    obtain ⟨k', v'⟩ := kv
    simp only [Row.set]
    by_cases e : k' = c
    · subst e; simp [Row.keys]
    · have : (k' == c) = false := beq_false_of_ne e
      simp only [this, Bool.false_eq_true, if_false, Row.keys, List.map_cons]
      simp only [Row.keys, List.map_cons, List.mem_cons] at h
      have := ih (h.resolve_left (Ne.symm e))
      simp only [Row.keys] at this
      rw [this]

theorem setAll_cons (r : Row) (kv : String × Val) (kvs : List (String × Val)) :
    r.setAll (kv :: kvs) = (r.set kv.1 kv.2).setAll kvs := rfl

theorem keys_setAll (r : Row) (kvs : List (String × Val)) (h : ∀ kv ∈ kvs, kv.1 ∈ r.keys) :
    (r.setAll kvs).keys = r.keys := by
  induction kvs generalizing r with
  | nil => rfl
  | cons kv kvs ih =>
    rw [setAll_cons]
    have h1 := keys_set_of_mem r kv.2 (h kv (List.mem_cons_self ..))
    rw [ih _ (fun kv' hkv' => by rw [h1]; exact h kv' (List.mem_cons_of_mem _ hkv')), h1]

theorem get_setAll_not_mem (r : Row) (kvs : List (String × Val)) {c : String} (h : c ∉ kvs.map (·.1)) :
    Row.get (r.setAll kvs) c = Row.get r c := by
  induction kvs generalizing r with
  | nil => rfl
  | cons kv kvs ih =>
    simp only [List.map_cons, List.mem_cons, not_or] at h
    rw [setAll_cons, ih _ h.2, get_set_other _ _ h.1]

theorem get_setAll_mem (r : Row) (kvs : List (String × Val)) {c : String} {v : Val}
    (hn : (kvs.map (·.1)).Nodup) (h : (c, v) ∈ kvs) : Row.get (r.setAll kvs) c = v := by
  induction kvs generalizing r with
  | nil => cases h
  | cons kv kvs ih =>
    simp only [List.map_cons, List.nodup_cons] at hn
    rw [setAll_cons]
    rcases List.mem_cons.mp h with e | h'
    · subst e
      rw [get_setAll_not_mem _ _ hn.1, get_set_same]
    · exact ih _ hn.2 h'

/-! ### `rename`, `select`, rows built from a column list -/

theorem get_rename_of_mem {r : Row} {f : String → String} {k : String}
    (hn : (r.keys.map f).Nodup) (h : k ∈ r.keys) : Row.get (r.rename f) (f k) = Row.get r k := by
  have hm : (k, Row.get r k) ∈ r := mem_get h
  have hm' : (f k, Row.get r k) ∈ r.rename f := by
    simp only [Row.rename, List.mem_map]
    exact ⟨(k, Row.get r k), hm, rfl⟩
  apply get_of_mem_nodup _ hm'
  rw [Row.keys_rename]
  exact hn

theorem get_select {r : Row} {cs : List String} {c : String} (h : c ∈ cs) :
    Row.get (r.select cs) c = Row.get r c := by
  induction cs with
  | nil => cases h
  | cons d cs ih =>
    simp only [Row.select, List.map_cons, get_cons]
    by_cases e : c = d
    · subst e; simp
    · rw [beq_false_of_ne e]
      simp only [List.mem_cons] at h
      have := ih (h.resolve_left e)
      simpa [Row.select] using this

/-- a row built as `cs.map (fun c => (c, f c))` reads `f c` at `c ∈ cs` -/
theorem get_map_mk {cs : List String} {f : String → Val} {c : String} (h : c ∈ cs) :
    Row.get (cs.map (fun c => (c, f c))) c = f c := by
  induction cs with
  | nil => cases h
  | cons d cs ih =>
    simp only [List.map_cons, get_cons]
    by_cases e : c = d
    · subst e; simp
    · rw [beq_false_of_ne e]
      simp only [List.mem_cons] at h
      exact ih (h.resolve_left e)

theorem keys_map_mk (cs : List String) (f : String → Val) : Row.keys (cs.map (fun c => (c, f c))) = cs := by
  simp [Row.keys, List.map_map, Function.comp_def]

theorem select_eq_map (r : Row) (cs : List String) : r.select cs = cs.map (fun c => (c, Row.get r c)) := rfl

/-- selecting from a row that was built over a larger column list -/
theorem select_map_mk {cs oc : List String} {f : String → Val} (h : ∀ c ∈ cs, c ∈ oc) :
    Row.select (oc.map (fun c => (c, f c))) cs = cs.map (fun c => (c, f c)) := by
  simp only [Row.select]
  apply List.map_congr_left
  intro c hc
  rw [get_map_mk (h c hc)]

end PlRow
end DAVerif
