import DAVerif.Proofs.RenameNearBasic
import DAVerif.Proofs.RenameBuild
/-!
Renaming, SQL generator: `toNear` (Sql/ToNearSql.lean) commutes with an injective renaming of columns and base tables.
The generated query names are the same on both sides (they come from the counter, which is threaded identically);
`ops_key`s are ignored (`NR`).
-/
namespace DAVerif
namespace Ren

open Function (Injective)
open DAVerif.Sql
open DAVerif.Ops (usedFromSources unionL)

variable {ρc : ColRen} {ρt : TabRen}

theorem getD_map (u : Option (List String)) (cs : List String) :
    (u.map (·.map ρc)).getD (cs.map ρc) = (u.getD cs).map ρc := by cases u <;> rfl

theorem toNear_table (cfg : SqlCfg) (hc : Injective ρc) (fuel : Nat) (name : String) (cs : List String)
    (u : Option (List String)) :
    MRel (NR ρc ρt) (toNear cfg (fuel + 1) ((Ops.table name cs).ren ρc ρt) (u.map (·.map ρc)))
      (toNear cfg (fuel + 1) (.table name cs) u) := by
  simp only [Ops.ren]
  rw [toNear.eq_2, toNear.eq_2, getD_map]
  generalize u.getD cs = usg
  refine MRel.guard_bind (subset_map hc _ _) _ ?_
  simp only [filter_contains hc, isEmpty_map', subset_map hc, pass_terms, mkTerms_rename]
  refine MRel.ite rfl ?_ ?_
  · refine MRel.bind MRel.fresh (fun i' i hi => ?_)
    subst hi
    exact MRel.pure (NR.unary (NR.table _ _) _ _ _ (some usg) .none _ none _ _)
  · exact MRel.pure (NR.table _ _)

/-- the induction hypothesis of the translation: all pipelines with one unit of fuel less -/
def IH (ρc : ColRen) (ρt : TabRen) (cfg : SqlCfg) (fuel : Nat) : Prop :=
  ∀ (p : Ops) (u : Option (List String)),
    MRel (NR ρc ρt) (toNear cfg fuel (p.ren ρc ρt) (u.map (·.map ρc))) (toNear cfg fuel p u)

/-! ### `extend`: the step cut into named pieces -/
def extWin (part od rv : List String) (w : Bool) : Option Win :=
  if (w || !part.isEmpty || !od.isEmpty) then some ⟨part, od, rv⟩ else none

def extWindowVars (part od : List String) (w : Bool) : List String :=
  if (w || !part.isEmpty || !od.isEmpty) then unionL part od else []

def extOrig (usg : List String) (subops : Assign) : List String :=
  usg.filter (fun k => !(subops.map (·.1)).contains k)

def extTerms (usg : List String) (subops : Assign) (win : Option Win) : Terms :=
  (extOrig usg subops).map (fun k => (k, STerm.pass)) ++ subops.map (fun kv => (kv.1, STerm.expr kv.2 win))

def extDeps (usg : List String) (subops : Assign) (windowVars : List String) : Deps :=
  (extOrig usg subops).map (fun k => (k, [k])) ++ subops.map (fun kv => (kv.1, unionL (Term.colsUsed kv.2) windowVars))

def extFallback (n : Ops) (subusing : List String) (sub : Near) (terms : Terms) (deps : Deps) : M Near := do
  let i ← fresh
  return .unary s!"extend_{i}" (mkTerms terms) false sub (some subusing) .none true (some deps)
    (keyOfNode "extend" n (terms.map (·.1)))

def extMerged (n : Ops) (terms : Terms) (deps : Deps) (sname : String) (sterms : Terms) (sagg : Bool) (ssub : Near)
    (scols : Option (List String)) (sdeps : Deps) (fallback : M Near) : M Near :=
  let ourNT := nonTrivialTerms deps terms
  let ourNeeds := (deps.filter (fun kv => ourNT.contains kv.1)).flatMap (·.2)
  let subNT := nonTrivialTerms sdeps sterms
  let subNeeds := (sdeps.filter (fun kv => subNT.contains kv.1)).flatMap (·.2)
  let contention := inter ourNT subNT ++ inter ourNT subNeeds ++ inter subNT ourNeeds
  if contention.isEmpty then
    let sterms' := ourNT.foldl (setFromT terms) sterms
    let sdeps' := ourNT.foldl (setFromD deps) sdeps
    let weUse := terms.map (·.1)
    let sterms' := sterms'.filter (fun kv => weUse.contains kv.1)
    let sdeps' := sdeps'.filter (fun kv => weUse.contains kv.1)
    -- fix D25: the merged step is re-keyed
    return .unary sname (some sterms') sagg ssub scols .none true (some sdeps')
      (keyOfNode "extend" n (sterms'.map (·.1)))
  else fallback

def extFinish (cfg : SqlCfg) (n : Ops) (subusing : List String) (sub : Near) (terms : Terms) (deps : Deps) : M Near :=
  match cfg.merges, sub with
  | true, .unary sname (some sterms) sagg ssub scols .none true (some sdeps) _ =>
    extMerged n terms deps sname sterms sagg ssub scols sdeps (extFallback n subusing sub terms deps)
  | _, _ => extFallback n subusing sub terms deps

def extendStep (cfg : SqlCfg) (recSrc : Option (List String) → M Near) (src : Ops) (ops : Assign)
    (part od rv : List String) (w : Bool) (u : Option (List String)) : M Near :=
  let n := Ops.extend src ops part od rv w
  let usg := unionL (unionL (unionL (u.getD n.cols) part) od) rv
  let subops := ops.filter (fun kv => usg.contains kv.1)
  if subops.isEmpty then recSrc (some usg)
  else do
    guardM (!usg.isEmpty) .valueError
    guardM (subset usg n.cols) .keyError
    let subusing := (usedFromSources n usg).headD []
    let sub ← recSrc (some subusing)
    extFinish cfg n subusing sub (extTerms usg subops (extWin part od rv w)) (extDeps usg subops (extWindowVars part od w))

theorem toNear_extend_eq (cfg : SqlCfg) (fuel : Nat) (src : Ops) (ops : Assign) (part od rv : List String) (w : Bool)
    (u : Option (List String)) :
    toNear cfg (fuel + 1) (.extend src ops part od rv w) u
      = extendStep cfg (toNear cfg fuel src) src ops part od rv w u := by
  rw [toNear.eq_3]
  rfl

theorem extWin_rename (part od rv : List String) (w : Bool) :
    extWin (part.map ρc) (od.map ρc) (rv.map ρc) w = (extWin part od rv w).map (Win.rename ρc) := by
  simp only [extWin, isEmpty_map']
  split <;> rfl

theorem extWindowVars_rename (hc : Injective ρc) (part od : List String) (w : Bool) :
    extWindowVars (part.map ρc) (od.map ρc) w = (extWindowVars part od w).map ρc := by
  simp only [extWindowVars, isEmpty_map', unionL_map hc]
  split <;> rfl

theorem extOrig_rename (hc : Injective ρc) (usg : List String) (subops : Assign) :
    extOrig (usg.map ρc) (Assign.rename ρc subops) = (extOrig usg subops).map ρc := by
  simp only [extOrig, assign_keys, filter_not_contains hc]

theorem extTerms_rename (hc : Injective ρc) (usg : List String) (subops : Assign) (win : Option Win) :
    extTerms (usg.map ρc) (Assign.rename ρc subops) (win.map (Win.rename ρc))
      = Terms.rename ρc (extTerms usg subops win) := by
  simp only [extTerms, extOrig_rename hc]
  simp only [Terms.rename, Assign.rename, List.map_append, List.map_map]
  rfl

theorem extDeps_rename (hc : Injective ρc) (usg : List String) (subops : Assign) (wv : List String) :
    extDeps (usg.map ρc) (Assign.rename ρc subops) (wv.map ρc) = Deps.rename ρc (extDeps usg subops wv) := by
  simp only [extDeps, extOrig_rename hc]
  simp only [Deps.rename, Assign.rename, List.map_append, List.map_map]
  congr 1
  apply List.map_congr_left
  intro kv _
  simp only [Function.comp, colsUsed_rename hc, unionL_map hc]

theorem extFallback_rel {sub' sub : Near} (hs : NR ρc ρt sub' sub) (n' n : Ops) (su : List String) (terms : Terms)
    (deps : Deps) :
    MRel (NR ρc ρt) (extFallback n' (su.map ρc) sub' (Terms.rename ρc terms) (Deps.rename ρc deps))
      (extFallback n su sub terms deps) := by
  unfold extFallback
  refine MRel.bind MRel.fresh (fun i' i hi => ?_)
  subst hi
  rw [mkTerms_rename]
  exact MRel.pure (NR.unary hs _ _ _ (some su) .none _ (some deps) _ _)

theorem extMerged_rel (hc : Injective ρc) {ssub' ssub : Near} (hss : NR ρc ρt ssub' ssub) (n' n : Ops) (terms : Terms)
    (deps : Deps) (sname : String) (sterms : Terms) (sagg : Bool) (scols : Option (List String)) (sdeps : Deps)
    {fb' fb : M Near} (hfb : MRel (NR ρc ρt) fb' fb) :
    MRel (NR ρc ρt)
      (extMerged n' (Terms.rename ρc terms) (Deps.rename ρc deps) sname (Terms.rename ρc sterms) sagg ssub'
        (scols.map (·.map ρc)) (Deps.rename ρc sdeps) fb')
      (extMerged n terms deps sname sterms sagg ssub scols sdeps fb) := by
  unfold extMerged
  simp only [nonTrivialTerms_rename hc, filter_keys_deps hc, deps_flat_rename, inter_map hc, ← List.map_append,
    isEmpty_map', fold_dictSet_terms hc, fold_dictSet_deps hc, terms_keys', filter_keys_terms hc]
  refine MRel.ite rfl ?_ hfb
  exact MRel.pure (NR.unary hss _ (some _) _ scols .none _ (some _) _ _)

theorem extFinish_rel (hc : Injective ρc) (cfg : SqlCfg) {sub' sub : Near} (hs : NR ρc ρt sub' sub) (n' n : Ops)
    (su : List String) (terms : Terms) (deps : Deps) :
    MRel (NR ρc ρt) (extFinish cfg n' (su.map ρc) sub' (Terms.rename ρc terms) (Deps.rename ρc deps))
      (extFinish cfg n su sub terms deps) := by
  have hfb := extFallback_rel hs n' n su terms deps
  cases sub with
  | table name ts =>
    have := hs.table_inv; subst this
    cases hm : cfg.merges <;> (simp only [extFinish, hm]; exact hfb)
  | cte name =>
    have := hs.cte_inv; subst this
    cases hm : cfg.merges <;> (simp only [extFinish, hm]; exact hfb)
  | join name ts l lc ln r rc rn jt oa ob k =>
    obtain ⟨l', r', k', rfl⟩ := hs.join_inv
    cases hm : cfg.merges <;> (simp only [extFinish, hm]; exact hfb)
  | union name ts l r cols k =>
    obtain ⟨l', r', k', rfl⟩ := hs.union_inv
    cases hm : cfg.merges <;> (simp only [extFinish, hm]; exact hfb)
  | unary name ts agg ss sc sf mg dp k =>
    obtain ⟨ss', k', hss, rfl⟩ := hs.unary_inv
    cases hm : cfg.merges with
    | false => cases ts <;> cases sf <;> cases mg <;> cases dp <;> (simp only [extFinish, hm]; exact hfb)
    | true =>
      cases ts with
      | none => cases sf <;> cases mg <;> cases dp <;> (simp only [extFinish, hm]; exact hfb)
      | some ts =>
        cases sf with
        | none =>
          cases mg with
          | false => cases dp <;> (simp only [extFinish, hm]; exact hfb)
          | true =>
            cases dp with
            | none => simp only [extFinish, hm]; exact hfb
            | some dp =>
              simp only [extFinish, hm, Option.map_some, Suffix.rename]
              exact extMerged_rel hc hss n' n terms deps name ts agg sc dp hfb
        | whereE e => cases mg <;> cases dp <;> (simp only [extFinish, hm]; exact hfb)
        | groupBy g => cases mg <;> cases dp <;> (simp only [extFinish, hm]; exact hfb)
        | orderBy a b c => cases mg <;> cases dp <;> (simp only [extFinish, hm]; exact hfb)

theorem extendStep_rel (hc : Injective ρc) (cfg : SqlCfg) {rec' rec : Option (List String) → M Near}
    (hrec : ∀ u, MRel (NR ρc ρt) (rec' (u.map (·.map ρc))) (rec u))
    (src : Ops) (ops : Assign) (part od rv : List String) (w : Bool) (u : Option (List String)) :
    MRel (NR ρc ρt)
      (extendStep cfg rec' (src.ren ρc ρt) (Assign.rename ρc ops) (part.map ρc) (od.map ρc) (rv.map ρc) w
        (u.map (·.map ρc)))
      (extendStep cfg rec src ops part od rv w u) := by
  have hcols := cols_ren hc ρt (Ops.extend src ops part od rv w)
  have hufs := fun usg => usedFromSources_ren (ρt := ρt) hc (Ops.extend src ops part od rv w) usg
  simp only [Ops.ren] at hcols hufs
  unfold extendStep
  simp only [hcols, getD_map, unionL_map hc, assign_filter_key hc, assign_isEmpty, isEmpty_map', subset_map hc, hufs,
    headD_map, extWin_rename, extWindowVars_rename hc, extTerms_rename hc, extDeps_rename hc]
  refine MRel.ite rfl (hrec (some _)) ?_
  refine MRel.guard_bind rfl _ ?_
  refine MRel.guard_bind rfl _ ?_
  refine MRel.bind (hrec (some _)) (fun sub' sub hs => ?_)
  exact extFinish_rel hc cfg hs _ _ _ _ _

theorem toNear_extend (cfg : SqlCfg) (hc : Injective ρc) (fuel : Nat) (ih : IH ρc ρt cfg fuel)
    (src : Ops) (ops : Assign) (part od rv : List String) (w : Bool) (u : Option (List String)) :
    MRel (NR ρc ρt) (toNear cfg (fuel + 1) ((Ops.extend src ops part od rv w).ren ρc ρt) (u.map (·.map ρc)))
      (toNear cfg (fuel + 1) (.extend src ops part od rv w) u) := by
  simp only [Ops.ren, toNear_extend_eq]
  exact extendStep_rel hc cfg (fun u => ih src u) src ops part od rv w u

theorem toNear_selectRows (cfg : SqlCfg) (hc : Injective ρc) (fuel : Nat) (ih : IH ρc ρt cfg fuel)
    (src : Ops) (e : Term) (u : Option (List String)) :
    MRel (NR ρc ρt) (toNear cfg (fuel + 1) ((Ops.selectRows src e).ren ρc ρt) (u.map (·.map ρc)))
      (toNear cfg (fuel + 1) (.selectRows src e) u) := by
  have hcols := cols_ren hc ρt (Ops.selectRows src e)
  have hufs := fun usg => usedFromSources_ren (ρt := ρt) hc (Ops.selectRows src e) usg
  simp only [Ops.ren] at hcols hufs ⊢
  rw [toNear.eq_5, toNear.eq_5, hcols, getD_map]
  generalize u.getD (Ops.selectRows src e).cols = usg
  simp only [hufs, headD_map, pass_terms, mkTerms_rename]
  refine MRel.bind (ih src (some _)) (fun sub' sub hs => ?_)
  refine MRel.bind MRel.fresh (fun i' i hi => ?_)
  subst hi
  exact MRel.pure (NR.unary hs _ _ _ (some _) (.whereE e) _ none _ _)

/-- the tail of `select_columns` / `drop_columns`: restrict the term dictionary of the sub-query -/
theorem setTermKeys_rel (hc : Injective ρc) {sub' sub : Near} (hs : NR ρc ρt sub' sub) (keys : List String) (sel : Bool) :
    MRel (NR ρc ρt)
      (match setTermKeys sub' (keys.map ρc) sel with
        | some s => pure s
        | none => liftE (Except.error Err.keyError))
      (match setTermKeys sub keys sel with
        | some s => pure s
        | none => liftE (Except.error Err.keyError)) := by
  have h := setTermKeys_NR hc hs keys sel
  cases h' : setTermKeys sub' (keys.map ρc) sel <;> cases h0 : setTermKeys sub keys sel <;>
    simp only [h', h0] at h ⊢
  · exact MRel.error _
  · exact MRel.pure h

theorem toNear_selectCols (cfg : SqlCfg) (hc : Injective ρc) (fuel : Nat) (ih : IH ρc ρt cfg fuel)
    (src : Ops) (cs : List String) (u : Option (List String)) :
    MRel (NR ρc ρt) (toNear cfg (fuel + 1) ((Ops.selectCols src cs).ren ρc ρt) (u.map (·.map ρc)))
      (toNear cfg (fuel + 1) (.selectCols src cs) u) := by
  have hcols := cols_ren hc ρt (Ops.selectCols src cs)
  have hufs := fun usg => usedFromSources_ren (ρt := ρt) hc (Ops.selectCols src cs) usg
  simp only [Ops.ren] at hcols hufs ⊢
  rw [toNear.eq_6, toNear.eq_6, hcols, getD_map]
  generalize u.getD (Ops.selectCols src cs).cols = usg
  simp only [hufs, headD_map, filter_contains hc]
  refine MRel.bind (ih src (some _)) (fun sub' sub hs => ?_)
  exact setTermKeys_rel hc hs _ true

theorem toNear_dropCols (cfg : SqlCfg) (hc : Injective ρc) (fuel : Nat) (ih : IH ρc ρt cfg fuel)
    (src : Ops) (ds : List String) (u : Option (List String)) :
    MRel (NR ρc ρt) (toNear cfg (fuel + 1) ((Ops.dropCols src ds).ren ρc ρt) (u.map (·.map ρc)))
      (toNear cfg (fuel + 1) (.dropCols src ds) u) := by
  have hcols := cols_ren hc ρt (Ops.dropCols src ds)
  have hufs := fun usg => usedFromSources_ren (ρt := ρt) hc (Ops.dropCols src ds) usg
  simp only [Ops.ren] at hcols hufs ⊢
  rw [toNear.eq_7, toNear.eq_7, hcols, getD_map]
  generalize u.getD (Ops.dropCols src ds).cols = usg
  simp only [hufs, headD_map, filter_not_contains hc]
  refine MRel.bind (ih src (some _)) (fun sub' sub hs => ?_)
  exact setTermKeys_rel hc hs _ false

theorem toNear_order (cfg : SqlCfg) (hc : Injective ρc) (fuel : Nat) (ih : IH ρc ρt cfg fuel)
    (src : Ops) (cs rv : List String) (lim : Option Nat) (u : Option (List String)) :
    MRel (NR ρc ρt) (toNear cfg (fuel + 1) ((Ops.order src cs rv lim).ren ρc ρt) (u.map (·.map ρc)))
      (toNear cfg (fuel + 1) (.order src cs rv lim) u) := by
  have hcols := cols_ren hc ρt (Ops.order src cs rv lim)
  have hufs := fun usg => usedFromSources_ren (ρt := ρt) hc (Ops.order src cs rv lim) usg
  simp only [Ops.ren] at hcols hufs ⊢
  rw [toNear.eq_8, toNear.eq_8, hcols, getD_map]
  generalize u.getD (Ops.order src cs rv lim).cols = usg
  simp only [hufs, headD_map, filter_contains hc, pass_terms, mkTerms_rename, isEmpty_map']
  refine MRel.bind (ih src (some _)) (fun sub' sub hs => ?_)
  refine MRel.bind MRel.fresh (fun i' i hi => ?_)
  subst hi
  cases hce : (cs.isEmpty && lim.isNone) <;>
    simp only [if_true, if_false, Bool.false_eq_true] <;>
    first
    | exact MRel.pure (NR.unary hs _ _ _ (some _) Suffix.none _ none _ _)
    | exact MRel.pure (NR.unary hs _ _ _ (some _) (Suffix.orderBy cs rv lim) _ none _ _)

theorem toNear_mapCols (cfg : SqlCfg) (hc : Injective ρc) (fuel : Nat) (ih : IH ρc ρt cfg fuel)
    (src : Ops) (m : List (String × String)) (ds : List String) (u : Option (List String)) :
    MRel (NR ρc ρt) (toNear cfg (fuel + 1) ((Ops.mapCols src m ds).ren ρc ρt) (u.map (·.map ρc)))
      (toNear cfg (fuel + 1) (.mapCols src m ds) u) := by
  have hcols := cols_ren hc ρt (Ops.mapCols src m ds)
  have hufs := fun usg => usedFromSources_ren (ρt := ρt) hc (Ops.mapCols src m ds) usg
  simp only [Ops.ren] at hcols hufs ⊢
  rw [toNear.eq_9, toNear.eq_9, hcols, getD_map]
  generalize u.getD (Ops.mapCols src m ds).cols = usg
  simp only [hufs, headD_map, pairs_fst, pairs_snd, ← List.map_append, filter_not_contains hc, fold_ident_map_nil hc,
    fold_pass hc, mkTerms_rename]
  refine MRel.bind (ih src (some _)) (fun sub' sub hs => ?_)
  refine MRel.bind MRel.fresh (fun i' i hi => ?_)
  subst hi
  exact MRel.pure (NR.unary hs _ _ _ (some _) Suffix.none _ none _ _)

theorem toNear_rename (cfg : SqlCfg) (hc : Injective ρc) (fuel : Nat) (ih : IH ρc ρt cfg fuel)
    (src : Ops) (m : List (String × String)) (u : Option (List String)) :
    MRel (NR ρc ρt) (toNear cfg (fuel + 1) ((Ops.rename src m).ren ρc ρt) (u.map (·.map ρc)))
      (toNear cfg (fuel + 1) (.rename src m) u) := by
  have hcols := cols_ren hc ρt (Ops.rename src m)
  have hufs := fun usg => usedFromSources_ren (ρt := ρt) hc (Ops.rename src m) usg
  simp only [Ops.ren] at hcols hufs ⊢
  rw [toNear.eq_10, toNear.eq_10, hcols, getD_map]
  generalize u.getD (Ops.rename src m).cols = usg
  simp only [hufs, headD_map, pairs_fst, pairs_snd, ← List.map_append, filter_not_contains hc, fold_ident_ren_nil hc,
    fold_pass hc, mkTerms_rename]
  refine MRel.bind (ih src (some _)) (fun sub' sub hs => ?_)
  refine MRel.bind MRel.fresh (fun i' i hi => ?_)
  subst hi
  exact MRel.pure (NR.unary hs _ _ _ (some _) Suffix.none _ none _ _)

theorem assign_take (n : Nat) (ops : Assign) : (Assign.rename ρc ops).take n = Assign.rename ρc (ops.take n) := by
  simp [Assign.rename, List.map_take]

theorem projTerms_rename (hc : Injective ρc) (so : Assign) (group : List String) :
    List.map (fun kv => (kv.1, STerm.expr kv.2 none)) (Assign.rename ρc so) ++
        List.map (fun g => (g, STerm.pass))
          (List.filter (fun g => !(List.map (fun x => x.1) (Assign.rename ρc so)).contains g) (List.map ρc group))
      = Terms.rename ρc (List.map (fun kv => (kv.1, STerm.expr kv.2 none)) so ++
          List.map (fun g => (g, STerm.pass)) (List.filter (fun g => !(List.map (fun x => x.1) so).contains g) group)) := by
  rw [assign_keys, filter_not_contains hc]
  simp only [Terms.rename, Assign.rename, List.map_append, List.map_map]
  rfl

theorem toNear_project (cfg : SqlCfg) (hc : Injective ρc) (fuel : Nat) (ih : IH ρc ρt cfg fuel)
    (src : Ops) (ops : Assign) (g : List String) (u : Option (List String)) :
    MRel (NR ρc ρt) (toNear cfg (fuel + 1) ((Ops.project src ops g).ren ρc ρt) (u.map (·.map ρc)))
      (toNear cfg (fuel + 1) (.project src ops g) u) := by
  have hcols := cols_ren hc ρt (Ops.project src ops g)
  have hufs := fun usg => usedFromSources_ren (ρt := ρt) hc (Ops.project src ops g) usg
  simp only [Ops.ren] at hcols hufs ⊢
  rw [toNear.eq_4, toNear.eq_4, hcols, getD_map]
  generalize u.getD (Ops.project src ops g).cols = usg0
  simp only [assign_filter_key hc, assign_isEmpty, isEmpty_map', assign_take]
  have hsf : (if g.isEmpty = true then Suffix.none else Suffix.groupBy (g.map ρc))
      = Suffix.rename ρc (if g.isEmpty = true then Suffix.none else Suffix.groupBy g) := by
    split <;> rfl
  cases hcond : ((ops.filter (fun kv => usg0.contains kv.1)).isEmpty && g.isEmpty && !ops.isEmpty)
  · simp only [Bool.false_eq_true, if_false, hufs, headD_map, projTerms_rename hc, mkTerms_rename, hsf]
    refine MRel.bind (ih src (some _)) (fun sub' sub hs => ?_)
    refine MRel.bind MRel.fresh (fun i' i hi => ?_)
    subst hi
    exact MRel.pure (NR.unary hs _ _ _ (some _) _ _ none _ _)
  · have hu : usg0.map ρc ++ List.map (fun x => x.1) (Assign.rename ρc (ops.take 1))
        = (usg0 ++ List.map (fun x => x.1) (ops.take 1)).map ρc := by
      rw [assign_keys, List.map_append]
    simp only [if_true, hu, hufs, headD_map, projTerms_rename hc, mkTerms_rename, hsf]
    refine MRel.bind (ih src (some _)) (fun sub' sub hs => ?_)
    refine MRel.bind MRel.fresh (fun i' i hi => ?_)
    subst hi
    exact MRel.pure (NR.unary hs _ _ _ (some _) _ _ none _ _)

theorem ite_map_list (c : Prop) [Decidable c] (a b : List String) :
    (if c then a.map ρc else b.map ρc) = (if c then a else b).map ρc := by
  split <;> rfl

theorem joinTerms_rename (lf : Bool) (A B C : List String) :
    List.map (fun c => (c, STerm.coalesce lf c)) (A.map ρc) ++
        List.map (fun c => (c, STerm.qual true c)) (B.map ρc) ++
      List.map (fun c => (c, STerm.qual false c)) (C.map ρc)
    = Terms.rename ρc (List.map (fun c => (c, STerm.coalesce lf c)) A ++
        List.map (fun c => (c, STerm.qual true c)) B ++ List.map (fun c => (c, STerm.qual false c)) C) := by
  simp only [Terms.rename, List.map_append, List.map_map]
  rfl

theorem except_map_bind {α β : Type} (g : α → α) (h : β → β) (x : Except Err α) (k k' : α → Except Err β)
    (hk : ∀ a, k' (g a) = (k a).map h) : (x.map g >>= k') = (x >>= k).map h := by
  cases x with
  | error e => rfl
  | ok a => exact hk a

/-- the pipeline by which the SQLite dialect emulates a FULL join (`_emit_full_join_as_complex`) -/
def fullSim (a b : Ops) (onA : List String) : Except Err Ops := do
  let ka ← build a (.project [] onA)
  let kb ← build b (.project [] onA)
  let ks ← build ka (.concat (some kb) none "a" "b")
  let ks ← build ks (.project [] onA)
  let j1 ← build ks (.join a onA onA "left" false)
  build j1 (.join b onA onA "left" false)

theorem fullSim_ren (hc : Injective ρc) (ht : Injective ρt) (a b : Ops) (onA : List String) :
    fullSim (a.ren ρc ρt) (b.ren ρc ρt) (onA.map ρc) = (fullSim a b onA).map (Ops.ren ρc ρt) := by
  unfold fullSim
  have hb := fun (p : Ops) (s : Step) => build_ren hc ht p s
  have h1 := hb a (.project [] onA)
  have h2 := hb b (.project [] onA)
  simp only [Step.ren, Assign.rename, List.map_nil] at h1 h2
  rw [h1]
  refine except_map_bind _ _ _ _ _ (fun ka => ?_)
  rw [h2]
  refine except_map_bind _ _ _ _ _ (fun kb => ?_)
  have h3 := hb ka (.concat (some kb) none "a" "b")
  simp only [Step.ren, Option.map_some, Option.map_none] at h3
  rw [h3]
  refine except_map_bind _ _ _ _ _ (fun ks => ?_)
  have h4 := hb ks (.project [] onA)
  simp only [Step.ren, Assign.rename, List.map_nil] at h4
  rw [h4]
  refine except_map_bind _ _ _ _ _ (fun ks2 => ?_)
  have h5 := hb ks2 (.join a onA onA "left" false)
  simp only [Step.ren] at h5
  rw [h5]
  refine except_map_bind _ _ _ _ _ (fun j1 => ?_)
  have h6 := hb j1 (.join b onA onA "left" false)
  simp only [Step.ren] at h6
  exact h6

theorem liftE_build_rel {e' e : Except Err Ops} (h : e' = e.map (Ops.ren ρc ρt)) :
    MRel (fun (p' p : Ops) => p' = p.ren ρc ρt) (liftE e') (liftE e) := by
  subst h
  apply MRel.liftE
  cases e <;> simp [Except.map]

theorem list_beq_map' (hc : Injective ρc) (a b : List String) : (a.map ρc == b.map ρc) = (a == b) :=
  list_beq_map hc a b

theorem toNear_join (cfg : SqlCfg) (hc : Injective ρc) (ht : Injective ρt) (fuel : Nat) (ih : IH ρc ρt cfg fuel)
    (a b : Ops) (oa ob : List String) (jt : JoinType) (u : Option (List String)) :
    MRel (NR ρc ρt) (toNear cfg (fuel + 1) ((Ops.join a b oa ob jt).ren ρc ρt) (u.map (·.map ρc)))
      (toNear cfg (fuel + 1) (.join a b oa ob jt) u) := by
  have hcols := cols_ren hc ρt (Ops.join a b oa ob jt)
  simp only [Ops.ren] at hcols ⊢
  rw [toNear.eq_11, toNear.eq_11, hcols, getD_map]
  generalize u.getD (Ops.join a b oa ob jt).cols = usg0
  refine MRel.ite rfl ?_ ?_
  · -- SQLite FULL join: the simulating pipeline is built by the builders, then translated
    refine MRel.guard_bind (by rw [isEmpty_map']) _ ?_
    refine MRel.guard_bind (list_beq_map hc oa ob) _ ?_
    refine MRel.bind (liftE_build_rel (ρc := ρc) (ρt := ρt) ?_) (fun sim' sim hsim => ?_)
    · exact fullSim_ren hc ht a b oa
    · subst hsim
      exact ih sim (some usg0)
  · simp only [isEmpty_map', take_map, ite_map_list]
    generalize (if usg0.isEmpty = true then List.take 1 (Ops.join a b oa ob jt).cols else usg0) = usg
    refine MRel.bind MRel.fresh (fun i' i hi => ?_)
    subst hi
    refine MRel.guard_bind rfl _ ?_
    refine MRel.guard_bind (subset_map hc _ _) _ ?_
    simp only [unionL_map hc]
    generalize unionL (unionL usg oa) ob = uu
    cases hsw : (cfg.emulateRightFull && jt == JoinType.right)
    · simp only [Bool.false_eq_true, if_false, cols_ren hc, filter_contains hc, filter_not_contains hc]
      refine MRel.bind (ih a (some _)) (fun nl' nl hl => ?_)
      refine MRel.bind (ih b (some _)) (fun nr' nr hr => ?_)
      rw [joinTerms_rename]
      exact MRel.pure (NR.join hl hr _ _ _ _ _ _ _ _ _ _ _)
    · simp only [if_true, cols_ren hc, filter_contains hc, filter_not_contains hc]
      refine MRel.bind (ih b (some _)) (fun nl' nl hl => ?_)
      refine MRel.bind (ih a (some _)) (fun nr' nr hr => ?_)
      rw [joinTerms_rename]
      exact MRel.pure (NR.join hl hr _ _ _ _ _ _ _ _ _ _ _)

theorem drop_headD_map (l : List (List String)) :
    ((l.map (·.map ρc)).drop 1).headD [] = ((l.drop 1).headD []).map ρc := by
  cases l with
  | nil => rfl
  | cons a l => cases l <;> rfl

theorem toNear_concat (cfg : SqlCfg) (hc : Injective ρc) (ht : Injective ρt) (fuel : Nat) (ih : IH ρc ρt cfg fuel)
    (a b : Ops) (idc : Option String) (an bn : String) (u : Option (List String)) :
    MRel (NR ρc ρt) (toNear cfg (fuel + 1) ((Ops.concat a b idc an bn).ren ρc ρt) (u.map (·.map ρc)))
      (toNear cfg (fuel + 1) (.concat a b idc an bn) u) := by
  have hcols := cols_ren hc ρt (Ops.concat a b idc an bn)
  have hufs := fun usg => usedFromSources_ren (ρt := ρt) hc (Ops.concat a b idc an bn) usg
  simp only [Ops.ren] at hcols hufs ⊢
  rw [toNear.eq_12, toNear.eq_12, hcols, getD_map]
  generalize u.getD (Ops.concat a b idc an bn).cols = usg0
  simp only [isEmpty_map', take_map, ite_map_list]
  generalize (if usg0.isEmpty = true then List.take 1 (Ops.concat a b idc an bn).cols else usg0) = usg
  simp only [hufs, headD_map, drop_headD_map, subset_map hc]
  refine MRel.guard_bind rfl _ ?_
  refine MRel.guard_bind rfl _ ?_
  cases idc with
  | none =>
    simp only [Option.map_none]
    refine MRel.bind (ih a (some _)) (fun nl' nl hl => ?_)
    refine MRel.bind (ih b (some _)) (fun nr' nr hr => ?_)
    refine MRel.bind MRel.fresh (fun i' i hi => ?_)
    subst hi
    exact MRel.pure (NR.union hl hr _ _ _ _ _)
  | some c =>
    have hb := fun (p : Ops) (nm : String) =>
      build_ren hc ht p (.extend [(c, .value (.str nm))] .none [] [])
    simp only [Step.ren, Assign.rename, List.map_cons, List.map_nil, Term.rename, PartArg.rename] at hb
    have hu : unionL ((((Ops.concat a b (some c) an bn).usedFromSources usg).headD []).map ρc) [ρc c]
        = (unionL (((Ops.concat a b (some c) an bn).usedFromSources usg).headD []) [c]).map ρc :=
      unionL_map hc _ [c]
    simp only [Option.map_some, hu]
    refine MRel.bind (liftE_build_rel (ρc := ρc) (ρt := ρt) (hb a an)) (fun a' a0 ha => ?_)
    subst ha
    refine MRel.bind (ih a0 (some _)) (fun nl' nl hl => ?_)
    refine MRel.bind (liftE_build_rel (ρc := ρc) (ρt := ρt) (hb b bn)) (fun b' b0 hb' => ?_)
    subst hb'
    refine MRel.bind (ih b0 (some _)) (fun nr' nr hr => ?_)
    refine MRel.bind MRel.fresh (fun i' i hi => ?_)
    subst hi
    exact MRel.pure (NR.union hl hr _ _ _ _ _)

/-- **the translation commutes with the renaming** (modulo `ops_key`, with the same generated query names and the
same counter), for every amount of fuel -/
theorem toNear_ren (cfg : SqlCfg) (hc : Injective ρc) (ht : Injective ρt) : ∀ fuel, IH ρc ρt cfg fuel := by
  intro fuel
  induction fuel with
  | zero =>
    intro p u
    rw [toNear.eq_1, toNear.eq_1]
    exact MRel.error _
  | succ fuel ih =>
    intro p u
    cases p with
    | table name cs => exact toNear_table cfg hc fuel name cs u
    | extend src ops part od rv w => exact toNear_extend cfg hc fuel ih src ops part od rv w u
    | project src ops g => exact toNear_project cfg hc fuel ih src ops g u
    | selectRows src e => exact toNear_selectRows cfg hc fuel ih src e u
    | selectCols src cs => exact toNear_selectCols cfg hc fuel ih src cs u
    | dropCols src ds => exact toNear_dropCols cfg hc fuel ih src ds u
    | order src cs rv lim => exact toNear_order cfg hc fuel ih src cs rv lim u
    | rename src m => exact toNear_rename cfg hc fuel ih src m u
    | mapCols src m ds => exact toNear_mapCols cfg hc fuel ih src m ds u
    | join a b oa ob jt => exact toNear_join cfg hc ht fuel ih a b oa ob jt u
    | concat a b idc an bn => exact toNear_concat cfg hc ht fuel ih a b idc an bn u
    | convert src rm =>
      simp only [Ops.ren]
      rw [toNear.eq_13, toNear.eq_13]
      exact MRel.error _

theorem size_ren (p : Ops) : (p.ren ρc ρt).size = p.size := by
  induction p <;> simp only [Ops.ren, Ops.size, *]

/-- `to_near_sql_implementation_` of the renamed pipeline is the renamed NearSQL tree of the pipeline (same query
names; `ops_key`s aside) -/
theorem toNearSql_ren (cfg : SqlCfg) (hc : Injective ρc) (ht : Injective ρt) (p : Ops) :
    (toNearSql cfg (p.ren ρc ρt)).map Near.eraseKeys
      = (toNearSql cfg p).map (fun n => (n.rename ρc ρt).eraseKeys) := by
  unfold toNearSql
  rw [size_ren]
  have h := toNear_ren cfg hc ht (6 * p.size + 6) p none 0
  simp only [Option.map_none] at h
  simp only [StateT.run]
  cases h' : toNear cfg (6 * p.size + 6) (p.ren ρc ρt) none 0 with
  | error e' =>
    cases h0 : toNear cfg (6 * p.size + 6) p none 0 with
    | error e => rw [h', h0] at h; simp only at h; subst h; rfl
    | ok v => rw [h', h0] at h; exact h.elim
  | ok v' =>
    cases h0 : toNear cfg (6 * p.size + 6) p none 0 with
    | error e => rw [h', h0] at h; exact h.elim
    | ok v =>
      rw [h', h0] at h
      obtain ⟨n', s'⟩ := v'
      obtain ⟨n, s⟩ := v
      obtain ⟨hn, _⟩ := h
      simp only [bind, Except.bind, pure, Except.pure, Except.map]
      exact congrArg Except.ok hn

end Ren
end DAVerif
