import DAVerif.Spec.Ref
import DAVerif.Sem.Theta
/-!
Folds used by the concrete interpretation `Theta.win` (running sums, products, maxima, minima) against the
readable definitions of `Spec/Ref.lean` (`Ref.total`, `Ref.product`, `Ref.IsMax`, `Ref.IsMin`).

All lemmas here live in the namespace `DAVerif.RefSem` (helper names like `semJoin_congr` are common).
-/
namespace DAVerif.RefSem

theorem nums_eq_numbers (vs : List Val) : Theta.nums vs = Ref.numbers vs := by
  simp only [Theta.nums, Ref.numbers]
  congr 1

theorem foldl_add_eq_total : ∀ (xs : List Rat) (x : Rat), xs.foldl (· + ·) x = Ref.total (x :: xs)
  | [], x => by simp [Ref.total, Rat.add_zero]
  | y :: ys, x => by
    rw [List.foldl_cons, foldl_add_eq_total ys (x + y)]
    simp only [Ref.total, List.foldr_cons, Rat.add_assoc]

theorem foldl_mul_eq_product : ∀ (xs : List Rat) (x : Rat), xs.foldl (· * ·) x = Ref.product (x :: xs)
  | [], x => by simp [Ref.product, Rat.mul_one]
  | y :: ys, x => by
    rw [List.foldl_cons, foldl_mul_eq_product ys (x * y)]
    simp only [Ref.product, List.foldr_cons, Rat.mul_assoc]

theorem foldl_max_isMax : ∀ (xs : List Rat) (x : Rat),
    Ref.IsMax (xs.foldl (fun a b => if a < b then b else a) x) (x :: xs)
  | [], x => ⟨List.mem_cons_self .., fun y hy => by
      simp only [List.mem_singleton] at hy; subst hy; exact Rat.le_refl⟩
  | y :: ys, x => by
    rw [List.foldl_cons]
    obtain ⟨hm, hle⟩ := foldl_max_isMax ys (if x < y then y else x)
    constructor
    · rcases List.mem_cons.mp hm with e | e
      · rw [e]
        split
        · exact List.mem_cons_of_mem _ (List.mem_cons_self ..)
        · exact List.mem_cons_self ..
      · exact List.mem_cons_of_mem _ (List.mem_cons_of_mem _ e)
    · intro z hz
      have hstep := hle (if x < y then y else x) (List.mem_cons_self ..)
      rcases List.mem_cons.mp hz with e | e
      · subst e
        refine Rat.le_trans ?_ hstep
        split
        · rename_i h; exact Rat.le_of_lt h
        · exact Rat.le_refl
      · rcases List.mem_cons.mp e with e | e
        · subst e
          refine Rat.le_trans ?_ hstep
          split
          · exact Rat.le_refl
          · rename_i h; exact Rat.not_lt.mp h
        · exact hle z (List.mem_cons_of_mem _ e)

theorem foldl_min_isMin : ∀ (xs : List Rat) (x : Rat),
    Ref.IsMin (xs.foldl (fun a b => if b < a then b else a) x) (x :: xs)
  | [], x => ⟨List.mem_cons_self .., fun y hy => by
      simp only [List.mem_singleton] at hy; subst hy; exact Rat.le_refl⟩
  | y :: ys, x => by
    rw [List.foldl_cons]
    obtain ⟨hm, hle⟩ := foldl_min_isMin ys (if y < x then y else x)
    constructor
    · rcases List.mem_cons.mp hm with e | e
      · rw [e]
        split
        · exact List.mem_cons_of_mem _ (List.mem_cons_self ..)
        · exact List.mem_cons_self ..
      · exact List.mem_cons_of_mem _ (List.mem_cons_of_mem _ e)
    · intro z hz
      have hstep := hle (if y < x then y else x) (List.mem_cons_self ..)
      rcases List.mem_cons.mp hz with e | e
      · subst e
        refine Rat.le_trans hstep ?_
        split
        · rename_i h; exact Rat.le_of_lt h
        · exact Rat.le_refl
      · rcases List.mem_cons.mp e with e | e
        · subst e
          refine Rat.le_trans hstep ?_
          split
          · exact Rat.le_refl
          · rename_i h; exact Rat.not_lt.mp h
        · exact hle z (List.mem_cons_of_mem _ e)

/-- the shape of `Theta.cumulate`: null at a null (or missing) position; otherwise the fold of the numbers up to
and including the position (null if there are none) -/
theorem cumulate_null {f : Rat → Rat → Rat} {vs : List Val} {pos : Nat} (h : vs.getD pos .null = .null) :
    Theta.cumulate f vs pos = .null := by
  simp only [Theta.cumulate, h]

theorem cumulate_cons {f : Rat → Rat → Rat} {vs : List Val} {pos : Nat} (h : vs.getD pos .null ≠ .null)
    {x : Rat} {xs : List Rat} (hx : Ref.numbers (vs.take (pos + 1)) = x :: xs) :
    Theta.cumulate f vs pos = .num (xs.foldl f x) := by
  unfold Theta.cumulate
  rw [nums_eq_numbers, hx]
  cases hv : vs.getD pos .null with
  | null => exact absurd hv h
  | _ => rfl

end DAVerif.RefSem
