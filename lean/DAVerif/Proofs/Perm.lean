import DAVerif.Spec.Perm
import DAVerif.Proofs.Order
import DAVerif.Proofs.SemBasic
/-!
Per-operator congruence lemmas for row-order equivalence (`Table.Equiv`, `t ≈ t'`): every operator of `sem`
maps equivalent inputs to equivalent outputs, under the stated laws on `Θ` / totality conditions on the data.

Stable names (imported by C01, C06, C07, C18):

  `Env.Equiv.refl/symm/trans/lookup`, `ResEquiv.refl/symm/trans/ok_iff/of_ok/of_error/bind`
  `Table.Equiv.mapRows`, `Table.Equiv.filterRows`, `Table.Equiv.selectCols`
  `semTable_equiv`, `semExtendPlain_equiv`, `semSelectRows_equiv`, `semRename_equiv`, `semMapCols_equiv`,
  `semConcat_equiv`, `semProject_equiv` (+ `argFn`, `argValues_eq_map`, `argValues_perm`), `semJoin_equiv`,
  `semOrder_equiv`, `semOrder_total_eq`, `semOrder_total_equiv`, `semOrder_limit_equiv`
  (+ `take_sortRows_perm_kept`, `CutClean.perm`, `LimitOK.perm`),
  `semExtendWindow_equiv` (via the index-free form `semExtendWindow_rows_eq`, `winRow`, `winRow_perm`;
  `WinTotal.perm`, `WinOK.perm`), `semExtendWindow_unordered`, `semExtendWindow_of_allTied`,
  `semExtendWindow_partition_set`, `winTotal_iff_getElem`, `semProject_isKey`, `totalOn_of_isKey`,
  `winTotal_of_isKey`, `winTotal_of_nodup_totalOn`, `sem_order_ok`, `aggsOrderFree_of_permInvariant`.
-/
namespace DAVerif

/-! ### list facts missing from core -/

theorem nodup_eraseDups {α : Type} [BEq α] [LawfulBEq α] : ∀ (l : List α), l.eraseDups.Nodup
  | [] => by simp
  | a :: as => by
    have : (as.filter (fun b => !b == a)).length < (a :: as).length :=
      Nat.lt_succ_of_le (List.length_filter_le _ _)
    rw [List.eraseDups_cons, List.nodup_cons]
    refine ⟨?_, nodup_eraseDups _⟩
    rw [List.mem_eraseDups]
    simp
termination_by l => l.length

/-- the distinct values of a list do not depend on its order (as a multiset; their order of first occurrence does) -/
theorem perm_eraseDups {α : Type} [BEq α] [LawfulBEq α] {l l' : List α} (h : l.Perm l') :
    l.eraseDups.Perm l'.eraseDups :=
  (List.perm_ext_iff_of_nodup (nodup_eraseDups l) (nodup_eraseDups l')).mpr
    (fun a => by rw [List.mem_eraseDups, List.mem_eraseDups]; exact h.mem_iff)

theorem perm_flatMap_congr {α β : Type} {f g : α → List β} :
    ∀ (l : List α), (∀ a ∈ l, (f a).Perm (g a)) → (l.flatMap f).Perm (l.flatMap g)
  | [], _ => by simp
  | a :: l, h => by
    simp only [List.flatMap_cons]
    exact (h a (List.mem_cons_self ..)).append
      (perm_flatMap_congr l (fun b hb => h b (List.mem_cons_of_mem _ hb)))

/-- for a symmetric relation, `Pairwise` gives the relation between any two members, unless they are equal -/
theorem pairwise_mem_or_eq {α : Type} {R : α → α → Prop} (hs : ∀ a b, R a b → R b a) {l : List α}
    (h : l.Pairwise R) : ∀ a ∈ l, ∀ b ∈ l, a = b ∨ R a b := by
  induction l with
  | nil => intro a ha; cases ha
  | cons x l ih =>
    rw [List.pairwise_cons] at h
    intro a ha b hb
    rcases List.mem_cons.mp ha with rfl | ha' <;> rcases List.mem_cons.mp hb with rfl | hb'
    · exact Or.inl rfl
    · exact Or.inr (h.1 b hb')
    · exact Or.inr (hs _ _ (h.1 a ha'))
    · exact ih h.2 a ha' b hb'

/-! ### `Env.Equiv`, `ResEquiv` -/

theorem Env.Equiv.refl : ∀ (env : Env), Env.Equiv env env
  | [] => trivial
  | (_, t) :: e => ⟨rfl, Table.Equiv.refl t, Env.Equiv.refl e⟩

theorem Env.Equiv.symm : ∀ {env env' : Env}, Env.Equiv env env' → Env.Equiv env' env
  | [], [], _ => trivial
  | (_, _) :: _, (_, _) :: _, h => ⟨h.1.symm, h.2.1.symm, Env.Equiv.symm h.2.2⟩
  | [], _ :: _, h => h.elim
  | _ :: _, [], h => h.elim

theorem Env.Equiv.trans : ∀ {e1 e2 e3 : Env}, Env.Equiv e1 e2 → Env.Equiv e2 e3 → Env.Equiv e1 e3
  | [], [], [], _, _ => trivial
  | (_, _) :: _, (_, _) :: _, (_, _) :: _, h, h' =>
    ⟨h.1.trans h'.1, h.2.1.trans h'.2.1, Env.Equiv.trans h.2.2 h'.2.2⟩
  | [], _ :: _, _, h, _ => h.elim
  | _ :: _, [], _, h, _ => h.elim
  | [], [], _ :: _, _, h' => h'.elim
  | _ :: _, _ :: _, [], _, h' => h'.elim

/-- equivalent environments answer a lookup alike: both unbound, or bound to equivalent tables -/
theorem Env.Equiv.lookup : ∀ {env env' : Env}, Env.Equiv env env' → ∀ (name : String),
    (env.lookup name = none ∧ env'.lookup name = none) ∨
    (∃ t t', env.lookup name = some t ∧ env'.lookup name = some t' ∧ t ≈ t')
  | [], [], _, name => Or.inl ⟨rfl, rfl⟩
  | (n, t) :: e, (n', t') :: e', h, name => by
    obtain ⟨hn, ht, he⟩ := h
    subst hn
    simp only [List.lookup_cons]
    cases hk : name == n with
    | true => exact Or.inr ⟨t, t', rfl, rfl, ht⟩
    | false => exact Env.Equiv.lookup he name
  | [], _ :: _, h, _ => h.elim
  | _ :: _, [], h, _ => h.elim

namespace ResEquiv
theorem refl : ∀ (x : Except Err Table), ResEquiv x x
  | .ok t => Table.Equiv.refl t
  | .error _ => rfl

theorem symm : ∀ {x y : Except Err Table}, ResEquiv x y → ResEquiv y x
  | .ok _, .ok _, h => Table.Equiv.symm h
  | .error _, .error _, h => Eq.symm h
  | .ok _, .error _, h => h.elim
  | .error _, .ok _, h => h.elim

theorem trans : ∀ {x y z : Except Err Table}, ResEquiv x y → ResEquiv y z → ResEquiv x z
  | .ok _, .ok _, .ok _, h, h' => Table.Equiv.trans h h'
  | .error _, .error _, .error _, h, h' => Eq.trans h h'
  | .ok _, .error _, _, h, _ => h.elim
  | .error _, .ok _, _, h, _ => h.elim
  | .ok _, .ok _, .error _, _, h' => h'.elim
  | .error _, .error _, .ok _, _, h' => h'.elim

theorem ok_iff {t t' : Table} : ResEquiv (.ok t) (.ok t') ↔ t ≈ t' := Iff.rfl

/-- if the left result is a table, so is the right one, and they are equivalent -/
theorem of_ok {x y : Except Err Table} {t : Table} (h : ResEquiv x y) (hx : x = .ok t) :
    ∃ t', y = .ok t' ∧ t ≈ t' := by
  subst hx
  cases y with
  | ok t' => exact ⟨t', rfl, h⟩
  | error e => exact h.elim

theorem of_error {x y : Except Err Table} {e : Err} (h : ResEquiv x y) (hx : x = .error e) :
    y = .error e := by
  subst hx
  cases y with
  | ok t' => exact h.elim
  | error e' => exact congrArg _ (Eq.symm h)

/-- sequencing: equivalent intermediate results, continued by steps that respect equivalence (the step may
use that the left intermediate result is the value actually computed) -/
theorem bind {x y : Except Err Table} {f g : Table → Except Err Table} (h : ResEquiv x y)
    (hfg : ∀ t t', x = .ok t → t ≈ t' → ResEquiv (f t) (g t')) : ResEquiv (x >>= f) (y >>= g) := by
  cases x with
  | error e =>
    cases y with
    | error e' => exact h
    | ok _ => exact h.elim
  | ok t =>
    cases y with
    | error _ => exact h.elim
    | ok t' => exact hfg t t' rfl h
end ResEquiv

/-! ### row-wise operators -/

theorem Table.Equiv.mapRows {t t' : Table} (h : t ≈ t') (cs : List String) (f : Row → Row) :
    (⟨cs, t.rows.map f⟩ : Table) ≈ ⟨cs, t'.rows.map f⟩ := ⟨rfl, h.2.map f⟩

theorem Table.Equiv.filterRows {t t' : Table} (h : t ≈ t') (p : Row → Bool) :
    (⟨t.cols, t.rows.filter p⟩ : Table) ≈ ⟨t'.cols, t'.rows.filter p⟩ := ⟨h.1, h.2.filter p⟩

theorem Table.Equiv.selectCols {t t' : Table} (h : t ≈ t') (cs : List String) :
    t.selectCols cs ≈ t'.selectCols cs := h.mapRows cs _

/-- table lookup -/
theorem semTable_equiv (Θ : Interp) (cfg : SemCfg) {env env' : Env} (h : Env.Equiv env env')
    (name : String) (cs : List String) :
    ResEquiv (sem Θ cfg env (.table name cs)) (sem Θ cfg env' (.table name cs)) := by
  simp only [sem]
  rcases h.lookup name with ⟨h1, h2⟩ | ⟨t, t', h1, h2, ht⟩
  · rw [h1, h2]; exact rfl
  · rw [h1, h2]
    simp only [← ht.1]
    split
    · exact ht.selectCols cs
    · exact rfl

theorem semExtendPlain_equiv (Θ : Interp) (ops : Assign) {t t' : Table} (h : t ≈ t') (oc : List String) :
    semExtendPlain Θ ops t oc ≈ semExtendPlain Θ ops t' oc := h.mapRows oc _

theorem semSelectRows_equiv (Θ : Interp) (e : Term) {t t' : Table} (h : t ≈ t') :
    semSelectRows Θ e t ≈ semSelectRows Θ e t' := h.filterRows _

/-- the row map of `rename_columns` -/
theorem semRename_equiv {t t' : Table} (h : t ≈ t') (cs : List String) (f : String → String) :
    (⟨cs, t.rows.map (fun r => r.rename f)⟩ : Table) ≈ ⟨cs, t'.rows.map (fun r => r.rename f)⟩ :=
  h.mapRows cs _

/-- the row map of `map_columns` -/
theorem semMapCols_equiv {t t' : Table} (h : t ≈ t') (cs dels : List String) (f : String → String) :
    (⟨cs, t.rows.map (fun r => (r.drop dels).rename f)⟩ : Table) ≈
      ⟨cs, t'.rows.map (fun r => (r.drop dels).rename f)⟩ :=
  h.mapRows cs _

theorem semConcat_equiv (idc : Option String) (an bn : String) {ta ta' tb tb' : Table} (ha : ta ≈ ta')
    (hb : tb ≈ tb') (oc : List String) : semConcat idc an bn ta tb oc ≈ semConcat idc an bn ta' tb' oc :=
  ⟨rfl, (ha.2.map _).append (hb.2.map _)⟩

/-! ### aggregation -/

/-- the value an aggregate / window function reads from one row -/
def argFn (t : Term) (r : Row) : Val :=
  match t with
  | .app _ (.col c :: _) _ _ => r.get c
  | .app _ (.value v :: _) _ _ => v.toVal
  | _ => Val.num 1

theorem argValues_eq_map (t : Term) (rows : List Row) : argValues t rows = rows.map (argFn t) := by
  cases t with
  | app op args i m =>
    cases args with
    | nil => rfl
    | cons a as => cases a <;> rfl
  | _ => rfl

theorem argValues_perm (t : Term) {rows rows' : List Row} (h : rows.Perm rows') :
    (argValues t rows).Perm (argValues t rows') := by
  rw [argValues_eq_map, argValues_eq_map]; exact h.map _

/-- `project`: the groups are enumerated in order of first occurrence, so the *order* of the result depends on
the input order, the multiset does not (aggregates being order free). -/
theorem semProject_equiv (Θ : Interp) (ops : Assign) (group : List String) {t t' : Table} (h : t ≈ t')
    (oc : List String) (hA : ∀ kv ∈ ops, AggOrderFree Θ (opName kv.2)) :
    semProject Θ ops group t oc ≈ semProject Θ ops group t' oc := by
  have hagg : ∀ (l l' : List Row), l.Perm l' →
      ops.map (fun kv => (kv.1, Θ.agg (opName kv.2) (argValues kv.2 l)))
      = ops.map (fun kv => (kv.1, Θ.agg (opName kv.2) (argValues kv.2 l'))) := by
    intro l l' hl
    apply List.map_congr_left
    intro kv hkv
    rw [hA kv hkv _ _ (argValues_perm kv.2 hl)]
  unfold semProject
  split
  · refine ⟨rfl, ?_⟩
    rw [hagg _ _ h.2]
  · refine ⟨rfl, ?_⟩
    simp only [fun (k : List Val) => hagg _ _ (h.2.filter (fun r => keyOf r group == k))]
    exact (perm_eraseDups (h.2.map _)).map _

/-! ### join -/

theorem semJoin_equiv (cfg : SemCfg) (jt : JoinType) (onA onB : List String) {ta ta' tb tb' : Table}
    (ha : ta ≈ ta') (hb : tb ≈ tb') (oc : List String) :
    semJoin cfg jt onA onB ta tb oc ≈ semJoin cfg jt onA onB ta' tb' oc := by
  obtain ⟨hca, hpa⟩ := ha
  obtain ⟨hcb, hpb⟩ := hb
  refine ⟨rfl, ?_⟩
  simp only [semJoin, ← hca, ← hcb]
  refine List.Perm.append (List.Perm.append ?_ ?_) ?_
  · refine (hpa.flatMap_right _).trans (perm_flatMap_congr _ (fun ra _ => ?_))
    exact (hpb.filter _).map _
  · split
    · have : (fun ra => !(tb.rows.any (fun rb => (jt == .cross || onA.isEmpty) ||
            keyMatch cfg (keyOf ra onA) (keyOf rb onB)))) =
          (fun ra => !(tb'.rows.any (fun rb => (jt == .cross || onA.isEmpty) ||
            keyMatch cfg (keyOf ra onA) (keyOf rb onB)))) := by
        funext ra; rw [hpb.any_eq]
      rw [this]
      exact (hpa.filter _).map _
    · exact List.Perm.refl _
  · split
    · have : (fun rb => !(ta.rows.any (fun ra => (jt == .cross || onA.isEmpty) ||
            keyMatch cfg (keyOf ra onA) (keyOf rb onB)))) =
          (fun rb => !(ta'.rows.any (fun ra => (jt == .cross || onA.isEmpty) ||
            keyMatch cfg (keyOf ra onA) (keyOf rb onB)))) := by
        funext rb; rw [hpa.any_eq]
      rw [this]
      exact (hpb.filter _).map _
    · exact List.Perm.refl _

/-! ### order_rows -/

/-- without a limit: sorting a permutation gives a permutation (with ties the *order* may differ) -/
theorem semOrder_equiv (cs rev : List String) {t t' : Table} (h : t ≈ t') :
    semOrder cs rev none t ≈ semOrder cs rev none t' :=
  ⟨h.1, (sortRows_perm cs rev t.rows).trans (h.2.trans (sortRows_perm cs rev t'.rows).symm)⟩

/-- when no two different rows tie, the sorted result is even *equal*, whatever the limit -/
theorem semOrder_total_eq (cs rev : List String) (lim : Option Nat) {t t' : Table} (h : t ≈ t')
    (ht : TotalOn cs rev t.rows) : semOrder cs rev lim t = semOrder cs rev lim t' := by
  simp only [semOrder, h.1, sortRows_perm_eq ht h.2]

theorem semOrder_total_equiv (cs rev : List String) (lim : Option Nat) {t t' : Table} (h : t ≈ t')
    (ht : TotalOn cs rev t.rows) : semOrder cs rev lim t ≈ semOrder cs rev lim t' :=
  Table.Equiv.of_eq (semOrder_total_eq cs rev lim h ht)

/-- in a sorted list a downward closed predicate selects a prefix -/
theorem filter_eq_take_of_sorted {α : Type} {le : α → α → Prop} {p : α → Bool}
    (hdown : ∀ x y, le x y → p y = true → p x = true) :
    ∀ {l : List α}, l.Pairwise le → l.filter p = l.take (l.filter p).length
  | [], _ => rfl
  | x :: l, h => by
    rw [List.pairwise_cons] at h
    cases hx : p x with
    | true =>
      simp only [List.filter_cons, hx, if_true, List.length_cons, List.take_succ_cons]
      rw [← filter_eq_take_of_sorted hdown h.2]
    | false =>
      have hnil : l.filter p = [] := by
        rw [List.filter_eq_nil_iff]
        intro y hy hpy
        rw [hdown x y (h.1 y hy) hpy] at hx
        cases hx
      simp [hx, hnil]

/-- the first `n` rows of the sort are the kept rows of a clean cut (as a multiset) -/
theorem take_sortRows_perm_kept {cs rev : List String} {n : Nat} {rows kept dropped : List Row}
    (hp : rows.Perm (kept ++ dropped)) (hl : kept.length = min n rows.length)
    (hlt : ∀ a ∈ kept, ∀ b ∈ dropped, rowLe cs rev b a = false) :
    ((sortRows cs rev rows).take n).Perm kept := by
  let p : Row → Bool := fun x => dropped.all (fun d => !rowLe cs rev d x)
  have hk : ∀ a ∈ kept, p a = true := by
    intro a ha
    simp only [p, List.all_eq_true, Bool.not_eq_true']
    exact fun d hd => hlt a ha d hd
  have hd : ∀ b ∈ dropped, ¬ p b = true := by
    intro b hb hpb
    simp only [p, List.all_eq_true, Bool.not_eq_true'] at hpb
    have := hpb b hb
    rw [rowLe_refl] at this
    cases this
  have hdown : ∀ x y, rowLe cs rev x y = true → p y = true → p x = true := by
    intro x y hxy hy
    simp only [p, List.all_eq_true, Bool.not_eq_true'] at hy ⊢
    intro d hd
    cases hdx : rowLe cs rev d x with
    | false => rfl
    | true =>
      have := hy d hd
      rw [rowLe_trans hdx hxy] at this
      cases this
  have hf : ((sortRows cs rev rows).filter p).Perm kept := by
    refine (((sortRows_perm cs rev rows).trans hp).filter p).trans ?_
    rw [List.filter_append, List.filter_eq_self.mpr hk, List.filter_eq_nil_iff.mpr hd, List.append_nil]
  have hpre := filter_eq_take_of_sorted hdown (sortRows_sorted cs rev rows)
  rw [hf.length_eq, hl, ← length_sortRows (cs := cs) (rev := rev), ← List.take_eq_take_min] at hpre
  rw [← hpre]
  exact hf

theorem CutClean.perm {cs rev : List String} {n : Nat} {rows rows' : List Row} (h : CutClean cs rev n rows)
    (hp : rows.Perm rows') : CutClean cs rev n rows' := by
  obtain ⟨kept, dropped, h1, h2, h3⟩ := h
  exact ⟨kept, dropped, hp.symm.trans h1, hp.length_eq ▸ h2, h3⟩

theorem LimitOK.perm {cs rev : List String} {n : Nat} {rows rows' : List Row} (h : LimitOK cs rev n rows)
    (hp : rows.Perm rows') : LimitOK cs rev n rows' :=
  h.imp (fun h => h.perm hp) (fun h => h.perm hp)

/-- with a limit: equivalent inputs give equivalent outputs when the order columns determine which rows are
kept (no ties between different rows, or no tie across the cut) -/
theorem semOrder_limit_equiv (cs rev : List String) (n : Nat) {t t' : Table} (h : t ≈ t')
    (hok : LimitOK cs rev n t.rows) : semOrder cs rev (some n) t ≈ semOrder cs rev (some n) t' := by
  rcases hok with ht | ⟨kept, dropped, h1, h2, h3⟩
  · exact semOrder_total_equiv cs rev _ h ht
  · refine ⟨h.1, ?_⟩
    simp only [semOrder]
    exact (take_sortRows_perm_kept h1 h2 h3).trans
      (take_sortRows_perm_kept (h.2.symm.trans h1) (h.2.length_eq ▸ h2) h3).symm

/-! ### windowed extend -/

/-- the rows of the partition of `r` -/
def partRows (partition : List String) (rows : List Row) (r : Row) : List Row :=
  rows.filter (fun r' => keyOf r' partition == keyOf r partition)

/-- Index-free form of one output row of a windowed extend: the partition of `r`, sorted, and the position of
(the first copy of) `r` in it. -/
def winRow (Θ : Interp) (ops : Assign) (partition order reverse outCols : List String) (rows : List Row)
    (r : Row) : Row :=
  let srows := sortRows order reverse (partRows partition rows r)
  (r.setAll (ops.map (fun kv =>
    (kv.1, Θ.win (opName kv.2) (constArgs kv.2) (argValues kv.2 srows) (srows.idxOf r))))).select outCols

theorem WinTotal.perm {p o rv : List String} {rows rows' : List Row} (h : WinTotal p o rv rows)
    (hp : rows.Perm rows') : WinTotal p o rv rows' :=
  (hp.pairwise_iff (fun {_ _} hab e hh => hab e.symm ⟨hh.2, hh.1⟩)).mp h

theorem WinOK.perm {Θ : Interp} {ops : Assign} {p o rv : List String} {rows rows' : List Row}
    (h : WinOK Θ ops p o rv rows) (hp : rows.Perm rows') : WinOK Θ ops p o rv rows' :=
  h.imp (fun h => h.perm hp) id

theorem mem_partRows_self {p : List String} {rows : List Row} {r : Row} (h : r ∈ rows) :
    r ∈ partRows p rows r := by
  simp [partRows, h]

/-- under `WinTotal` the rows of one partition are pairwise different and their order is total -/
theorem WinTotal.partRows_nodup {p o rv : List String} {rows : List Row} (h : WinTotal p o rv rows) (r : Row) :
    (partRows p rows r).Nodup := by
  have h1 : (partRows p rows r).Pairwise (fun a b => keyOf a p = keyOf b p →
      ¬ (rowLe o rv a b = true ∧ rowLe o rv b a = true)) := List.Pairwise.filter _ h
  refine List.Pairwise.imp_of_mem ?_ h1
  intro a b ha hb hab e
  subst e
  simp only [partRows, List.mem_filter, beq_iff_eq] at ha
  exact hab rfl ⟨rowLe_refl _ _ _, rowLe_refl _ _ _⟩

theorem WinTotal.partRows_total {p o rv : List String} {rows : List Row} (h : WinTotal p o rv rows) (r : Row) :
    TotalOn o rv (partRows p rows r) := by
  have h1 : (partRows p rows r).Pairwise (fun a b => keyOf a p = keyOf b p →
      ¬ (rowLe o rv a b = true ∧ rowLe o rv b a = true)) := List.Pairwise.filter _ h
  intro a ha b hb hab hba
  rcases pairwise_mem_or_eq (fun _ _ hab e hh => hab e.symm ⟨hh.2, hh.1⟩) h1 a ha b hb with e | hn
  · exact e
  · simp only [partRows, List.mem_filter, beq_iff_eq] at ha hb
    exact absurd ⟨hab, hba⟩ (hn (ha.2.trans hb.2.symm))

/-- **Index-free form of the windowed extend.**  The executor works with row positions (sort, compute,
restore); under the side condition the result is, row by row, `winRow` of the row. -/
theorem semExtendWindow_rows_eq (Θ : Interp) (ops : Assign) (p o rv : List String) (t : Table)
    (oc : List String) (hok : WinOK Θ ops p o rv t.rows) :
    (semExtendWindow Θ ops p o rv t oc).rows = t.rows.map (winRow Θ ops p o rv oc t.rows) := by
  have key : ∀ ri ∈ t.rows.zipIdx,
      (fun (ri : Row × Nat) =>
        (ri.1.setAll (ops.map (fun kv => (kv.1, Θ.win (opName kv.2) (constArgs kv.2)
          (argValues kv.2 ((sortIdx o rv (t.rows.zipIdx.filter
            (fun rj => keyOf rj.1 p == keyOf ri.1 p))).map (·.1)))
          ((sortIdx o rv (t.rows.zipIdx.filter (fun rj => keyOf rj.1 p == keyOf ri.1 p))).findIdx
            (fun rj => rj.2 == ri.2)))))).select oc) ri
      = winRow Θ ops p o rv oc t.rows ri.1 := by
    rintro ⟨r, i⟩ hri
    simp only [winRow]
    -- the sorted partition, with and without indices
    have hmap : (sortIdx o rv (t.rows.zipIdx.filter (fun rj => keyOf rj.1 p == keyOf r p))).map (·.1)
        = sortRows o rv (partRows p t.rows r) := by
      rw [sortIdx_map_fst]
      congr 1
      have := List.filter_map (f := (Prod.fst : Row × Nat → Row))
        (p := fun r' => keyOf r' p == keyOf r p) (l := t.rows.zipIdx)
      rw [List.zipIdx_map_fst] at this
      exact this.symm
    have hsub : ∀ x ∈ sortIdx o rv (t.rows.zipIdx.filter (fun rj => keyOf rj.1 p == keyOf r p)),
        x ∈ t.rows.zipIdx := fun x hx =>
      (List.mem_filter.mp ((sortIdx_perm _ _ _).mem_iff.mp hx)).1
    generalize hs : sortIdx o rv (t.rows.zipIdx.filter (fun rj => keyOf rj.1 p == keyOf r p)) = sorted
      at hmap hsub
    generalize hsr : sortRows o rv (partRows p t.rows r) = srows at hmap
    -- the position found by index holds the row `r`
    have hmem : (r, i) ∈ sorted := by
      rw [← hs]
      apply (sortIdx_perm _ _ _).mem_iff.mpr
      simp [List.mem_filter, hri]
    have hlt : sorted.findIdx (fun rj => rj.2 == i) < sorted.length :=
      List.findIdx_lt_length_of_exists ⟨(r, i), hmem, by simp⟩
    have hat : (sorted[sorted.findIdx (fun rj => rj.2 == i)]'hlt).1 = r := by
      have h2 : (sorted[sorted.findIdx (fun rj => rj.2 == i)]'hlt).2 = i := by
        have := List.findIdx_getElem (p := fun (rj : Row × Nat) => rj.2 == i) (w := hlt)
        simpa using this
      have hin : sorted[sorted.findIdx (fun rj => rj.2 == i)]'hlt ∈ t.rows.zipIdx :=
        hsub _ (List.getElem_mem _)
      have e1 := List.mem_zipIdx_iff_getElem?.mp hin
      have e2 := List.mem_zipIdx_iff_getElem?.mp hri
      rw [h2] at e1
      simp only at e2
      rw [e2] at e1
      exact (Option.some.inj e1).symm
    have hlt' : sorted.findIdx (fun rj => rj.2 == i) < srows.length := by
      rw [← hmap, List.length_map]; exact hlt
    have hat' : srows[sorted.findIdx (fun rj => rj.2 == i)]? = some r := by
      rw [List.getElem?_eq_getElem hlt']
      simp only [← hmap, List.getElem_map, hat]
    have hrmem : r ∈ srows := List.mem_of_getElem? hat'
    rw [hmap]
    congr 2
    apply List.map_congr_left
    intro kv hkv
    congr 1
    rcases hok with htot | hfree
    · -- total: the sorted partition has no duplicates, the position is that of `r`
      have hnd : srows.Nodup := by
        rw [← hsr]
        exact ((sortRows_perm _ _ _).nodup_iff).mpr (htot.partRows_nodup r)
      have := hnd.idxOf_getElem _ hlt'
      rw [(List.getElem_eq_iff hlt').mpr hat'] at this
      rw [this]
    · -- order free: only the value at the position matters
      apply hfree kv hkv _ _ _ _ _ (List.Perm.refl _)
      · rw [argValues_eq_map, List.length_map]; exact hlt'
      · have hidx : srows.idxOf r < srows.length := List.idxOf_lt_length_of_mem hrmem
        rw [argValues_eq_map, List.getElem?_map, List.getElem?_map, hat',
          List.getElem?_eq_getElem hidx, List.getElem_idxOf hidx]
  simp only [semExtendWindow]
  rw [List.map_congr_left key]
  generalize winRow Θ ops p o rv oc t.rows = W
  have : t.rows.map W = (t.rows.zipIdx.map Prod.fst).map W := by rw [List.zipIdx_map_fst]
  rw [this, List.map_map]
  rfl

/-- the windowed extend with the window of each row taken to be its partition *in input order* (what
`semExtendWindow` computes when there is no `order_by`, or when all rows tie) -/
def semExtendWindowU (Θ : Interp) (ops : Assign) (partition : List String) (t : Table) (outCols : List String) :
    Table :=
  let idx := t.rows.zipIdx
  ⟨outCols, idx.map (fun ri =>
    let part := idx.filter (fun rj => keyOf rj.1 partition == keyOf ri.1 partition)
    (ri.1.setAll (ops.map (fun kv =>
      (kv.1, Θ.win (opName kv.2) (constArgs kv.2) (argValues kv.2 (part.map (·.1)))
        (part.findIdx (fun rj => rj.2 == ri.2)))))).select outCols)⟩

/-- the sort is stable: when all rows tie on the order columns (in particular without `order_by`) each window
is the partition in input order -/
theorem semExtendWindow_of_allTied (Θ : Interp) (ops : Assign) (p o rv : List String) (t : Table)
    (oc : List String) (h : ∀ a ∈ t.rows, ∀ b ∈ t.rows, rowLe o rv a b = true) :
    semExtendWindow Θ ops p o rv t oc = semExtendWindowU Θ ops p t oc := by
  have hs : ∀ (l : List (Row × Nat)), (∀ x ∈ l, x ∈ t.rows.zipIdx) → sortIdx o rv l = l := by
    intro l hl
    apply List.mergeSort_of_pairwise
    apply List.pairwise_of_forall_mem_list
    intro a ha b hb
    exact h a.1 (List.fst_mem_of_mem_zipIdx (hl a ha)) b.1 (List.fst_mem_of_mem_zipIdx (hl b hb))
  simp only [semExtendWindow, semExtendWindowU]
  congr 1
  apply List.map_congr_left
  intro ri _
  rw [hs _ (fun x hx => (List.mem_filter.mp hx).1)]

theorem semExtendWindow_unordered (Θ : Interp) (ops : Assign) (p rv : List String) (t : Table)
    (oc : List String) : semExtendWindow Θ ops p [] rv t oc = semExtendWindowU Θ ops p t oc :=
  semExtendWindow_of_allTied Θ ops p [] rv t oc (fun _ _ _ _ => rfl)

/-- the index-free row does not depend on the order of the table's rows -/
theorem winRow_perm (Θ : Interp) (ops : Assign) (p o rv oc : List String) {rows rows' : List Row}
    (hp : rows.Perm rows') (hok : WinOK Θ ops p o rv rows) (r : Row) (hr : r ∈ rows) :
    winRow Θ ops p o rv oc rows r = winRow Θ ops p o rv oc rows' r := by
  have hpp : (partRows p rows r).Perm (partRows p rows' r) := hp.filter _
  rcases hok with htot | hfree
  · simp only [winRow, sortRows_perm_eq (htot.partRows_total r) hpp]
  · simp only [winRow]
    congr 2
    apply List.map_congr_left
    intro kv hkv
    congr 1
    have hsp : (sortRows o rv (partRows p rows r)).Perm (sortRows o rv (partRows p rows' r)) :=
      (sortRows_perm _ _ _).trans (hpp.trans (sortRows_perm _ _ _).symm)
    have hm : r ∈ sortRows o rv (partRows p rows r) := mem_sortRows.mpr (mem_partRows_self hr)
    have hm' : r ∈ sortRows o rv (partRows p rows' r) := hsp.mem_iff.mp hm
    have hi := List.idxOf_lt_length_of_mem hm
    have hi' := List.idxOf_lt_length_of_mem hm'
    apply hfree kv hkv _ _ _ _ _ (argValues_perm _ hsp)
    · rw [argValues_eq_map, List.length_map]; exact hi
    · rw [argValues_eq_map, argValues_eq_map, List.getElem?_map, List.getElem?_map,
        List.getElem?_eq_getElem hi, List.getElem?_eq_getElem hi', List.getElem_idxOf hi,
        List.getElem_idxOf hi']

/-- windowed `extend` respects row order equivalence when the window order is total within each partition
or every window function used is order free -/
theorem semExtendWindow_equiv (Θ : Interp) (ops : Assign) (p o rv : List String) {t t' : Table} (h : t ≈ t')
    (oc : List String) (hok : WinOK Θ ops p o rv t.rows) :
    semExtendWindow Θ ops p o rv t oc ≈ semExtendWindow Θ ops p o rv t' oc := by
  refine ⟨rfl, ?_⟩
  rw [semExtendWindow_rows_eq Θ ops p o rv t oc hok,
    semExtendWindow_rows_eq Θ ops p o rv t' oc (hok.perm h.2)]
  rw [List.map_congr_left (fun r hr => winRow_perm Θ ops p o rv oc h.2 hok r hr)]
  exact h.2.map _

/-! ### readings and sufficient criteria for `WinTotal` -/

/-- index form of `WinTotal`: two rows at different positions, in the same partition, never tie -/
theorem winTotal_iff_getElem (p o rv : List String) (rows : List Row) :
    WinTotal p o rv rows ↔ ∀ (i j : Nat) (hi : i < rows.length) (hj : j < rows.length), i ≠ j →
      keyOf rows[i] p = keyOf rows[j] p →
      ¬ (rowLe o rv rows[i] rows[j] = true ∧ rowLe o rv rows[j] rows[i] = true) := by
  unfold WinTotal
  rw [List.pairwise_iff_getElem]
  constructor
  · intro h i j hi hj hne
    rcases Nat.lt_or_gt_of_ne hne with hlt | hgt
    · exact h i j hi hj hlt
    · intro e hh
      exact h j i hj hi hgt e.symm ⟨hh.2, hh.1⟩
  · intro h i j hi hj hlt
    exact h i j hi hj (Nat.ne_of_lt hlt)

theorem Row.select_get_of_mem {r : Row} {cs : List String} {c : String} (h : c ∈ cs) :
    (Row.select r cs).get c = r.get c := by
  induction cs with
  | nil => cases h
  | cons x cs ih =>
    simp only [Row.select, Row.get, List.map_cons, List.lookup_cons]
    cases hcx : c == x with
    | true => simp only [beq_iff_eq] at hcx; subst hcx; rfl
    | false =>
      have hc : c ∈ cs := by
        rcases List.mem_cons.mp h with e | e
        · simp [e] at hcx
        · exact e
      exact ih hc

theorem lookup_zip_map {f : String → Val} {group : List String} {c : String} (h : c ∈ group) :
    (group.zip (group.map f)).lookup c = some (f c) := by
  induction group with
  | nil => cases h
  | cons g gs ih =>
    simp only [List.map_cons, List.zip_cons_cons, List.lookup_cons]
    cases hcg : c == g with
    | true => simp only [beq_iff_eq] at hcg; subst hcg; rfl
    | false =>
      have hc : c ∈ gs := by
        rcases List.mem_cons.mp h with e | e
        · simp [e] at hcg
        · exact e
      exact ih hc

/-- **The group columns are a key of the result of `project`** (when they are all kept in the output): a
window or an ordering after a `project` that includes the group columns is total – a syntactic criterion
(`winTotal_of_isKey`, `totalOn_of_isKey` in `Props/C18.lean`). -/
theorem semProject_isKey (Θ : Interp) (ops : Assign) (group : List String) (t : Table) (oc : List String)
    (hsub : ∀ c ∈ group, c ∈ oc) : IsKey group (semProject Θ ops group t oc).rows := by
  unfold semProject IsKey
  split
  · exact List.pairwise_singleton _ _
  · simp only
    rw [List.pairwise_map]
    have hkey : ∀ k ∈ (t.rows.map (fun r => keyOf r group)).eraseDups, ∀ (A : Row),
        keyOf (Row.select (group.zip k ++ A) oc) group = k := by
      intro k hk A
      rw [List.mem_eraseDups, List.mem_map] at hk
      obtain ⟨r, _, rfl⟩ := hk
      simp only [keyOf, Row.vals]
      apply List.map_congr_left
      intro c hc
      rw [Row.select_get_of_mem (hsub c hc)]
      simp only [Row.get, List.lookup_append, lookup_zip_map hc, Option.some_or]
      rfl
    refine List.Pairwise.imp_of_mem ?_ (nodup_eraseDups _)
    intro k k' hk hk' hne
    rw [hkey k hk, hkey k' hk']
    exact hne

/-! ### the partition columns are a set -/

theorem keyOf_beq_congr {p p' : List String} (h : ∀ c, c ∈ p ↔ c ∈ p') (a b : Row) :
    (keyOf a p == keyOf b p) = (keyOf a p' == keyOf b p') := by
  rw [Bool.eq_iff_iff, beq_iff_eq, beq_iff_eq]
  simp only [keyOf, Row.vals, List.map_inj_left]
  exact ⟨fun hh c hc => hh c ((h c).mpr hc), fun hh c hc => hh c ((h c).mp hc)⟩

/-- the windowed extend only depends on the *set* of partition columns (the code iterates over a Python
`set`, whose order depends on the hash seed) -/
theorem semExtendWindow_partition_set (Θ : Interp) (ops : Assign) {p p' : List String}
    (h : ∀ c, c ∈ p ↔ c ∈ p') (o rv : List String) (t : Table) (oc : List String) :
    semExtendWindow Θ ops p o rv t oc = semExtendWindow Θ ops p' o rv t oc := by
  have : ∀ r : Row, (fun rj : Row × Nat => keyOf rj.1 p == keyOf r p) =
      (fun rj => keyOf rj.1 p' == keyOf r p') := fun r => funext (fun rj => keyOf_beq_congr h rj.1 r)
  simp only [semExtendWindow, this]

/-! ### sufficient criteria for the scope conditions -/

/-- if the order columns include a key of the rows, the ordering is total -/
theorem totalOn_of_isKey {ks cs rev : List String} {rows : List Row} (hsub : ∀ k ∈ ks, k ∈ cs)
    (hk : IsKey ks rows) : TotalOn cs rev rows := by
  intro a ha b hb hab hba
  have htie := (rowLe_tie_iff cs rev a b).mp ⟨hab, hba⟩
  rcases pairwise_mem_or_eq (fun _ _ h => Ne.symm h) hk a ha b hb with e | hne
  · exact e
  · exact absurd (List.map_congr_left (fun k hk => htie k (hsub k hk))) hne

/-- if the partition columns together with the order columns include a key of the rows, the window ordering is
total within each partition -/
theorem winTotal_of_isKey {ks part cs rev : List String} {rows : List Row}
    (hsub : ∀ k ∈ ks, k ∈ part ∨ k ∈ cs) (hk : IsKey ks rows) : WinTotal part cs rev rows := by
  refine List.Pairwise.imp ?_ hk
  intro a b hne hpart htie
  apply hne
  have h1 := (rowLe_tie_iff cs rev a b).mp htie
  have h2 : ∀ c ∈ part, a.get c = b.get c := List.map_inj_left.mp hpart
  exact List.map_congr_left (fun k hk => (hsub k hk).elim (h2 k) (h1 k))

/-- a total ordering of the whole table is total within each partition -/
theorem winTotal_of_nodup_totalOn {part cs rev : List String} {rows : List Row} (hn : rows.Nodup)
    (ht : TotalOn cs rev rows) : WinTotal part cs rev rows := by
  have : ∀ a ∈ rows, ∀ b ∈ rows, a ≠ b → keyOf a part = keyOf b part →
      ¬ (rowLe cs rev a b = true ∧ rowLe cs rev b a = true) :=
    fun a ha b hb hne _ h => hne (ht a ha b hb h.1 h.2)
  exact List.Pairwise.imp_of_mem (fun {a b} ha hb hne => this a ha b hb hne) hn

theorem mem_appendNew_left {c : String} : ∀ (ys xs : List String), c ∈ xs → c ∈ appendNew xs ys
  | [], _, h => h
  | y :: ys, xs, h => by
    simp only [appendNew, List.foldl_cons]
    split
    · exact mem_appendNew_left ys xs h
    · exact mem_appendNew_left ys (xs ++ [y]) (List.mem_append_left _ h)

/-! ### small facts about `sem` used by the property file -/

theorem aggsOrderFree_of_permInvariant {Θ : Interp} (h : AggPermInvariant Θ) (p : Ops) : AggsOrderFree Θ p := by
  induction p with
  | table => trivial
  | project src ops g ih => exact ⟨ih, fun kv _ => h _⟩
  | join a b oa ob jt iha ihb => exact ⟨iha, ihb⟩
  | concat a b idc an bn iha ihb => exact ⟨iha, ihb⟩
  | _ => assumption

theorem sem_order_ok {Θ : Interp} {cfg : SemCfg} {env : Env} {q : Ops} {cs rev : List String}
    {lim : Option Nat} {t : Table} (h : sem Θ cfg env (.order q cs rev lim) = .ok t) :
    ∃ tq, sem Θ cfg env q = .ok tq ∧ t = semOrder cs rev lim tq := by
  simp only [sem, bind, Except.bind] at h
  split at h
  · cases h
  · rename_i tq hq
    cases h
    exact ⟨tq, hq, rfl⟩

end DAVerif
