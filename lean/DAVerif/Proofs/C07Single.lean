import DAVerif.Proofs.C07Struct
/-!
C07 for `act_on` (one table key, replaced everywhere by one pipeline): structure of the composed pipeline
(validity, table descriptions, declared columns), propagation of an evaluation error of the first pipeline, and
totality of the composition.
-/
namespace DAVerif

variable {Θ : Interp} {cfg : SemCfg} {env : Env}

theorem joinCols_perm {ca ca' cb cb' : List String} (ha : ca.Nodup) (ha' : ca'.Nodup) (hb : cb.Nodup)
    (hb' : cb'.Nodup) (h1 : ca.Perm ca') (h2 : cb.Perm cb') : (joinCols ca cb).Perm (joinCols ca' cb') :=
  perm_of_mem_iff (nodup_joinCols ha hb) (nodup_joinCols ha' hb')
    (fun c => by rw [mem_joinCols, mem_joinCols, h1.mem_iff, h2.mem_iff])

theorem nodeCols_perm (N : Ops) {ca ca' cb cb' : List String} (ha : ca.Nodup) (hb : cb.Nodup)
    (h1 : ca.Perm ca') (h2 : cb.Perm cb') : (nodeCols N ca cb).Perm (nodeCols N ca' cb') := by
  cases N with
  | extend s ops _ _ _ _ =>
    exact appendNew_perm ha (h1.nodup_iff.mp ha) (fun c => by rw [h1.mem_iff])
  | dropCols s ds => exact h1.filter _
  | rename s m => exact h1.map _
  | mapCols s m ds => exact (h1.filter _).map _
  | join a b oa ob jt => exact joinCols_perm ha (h1.nodup_iff.mp ha) hb (h2.nodup_iff.mp hb) h1 h2
  | concat a b idc an bn => exact concatCols_perm h1 idc
  | selectRows s e => exact h1
  | order s cs rv lim => exact h1
  | table n cs => exact List.Perm.refl _
  | project s ops g => exact List.Perm.refl _
  | selectCols s cs => exact List.Perm.refl _
  | convert s rm => exact List.Perm.refl _

theorem tables_ne_nil : ∀ (p : Ops), p.tables ≠ []
  | .table _ _ => by simp [Ops.tables]
  | .extend s .. | .project s .. | .selectRows s .. | .selectCols s .. | .dropCols s .. | .order s ..
  | .rename s .. | .mapCols s .. | .convert s .. => by simp only [Ops.tables]; exact tables_ne_nil s
  | .join a b .. | .concat a b .. => by
    simp only [Ops.tables, ne_eq, List.append_eq_nil_iff, not_and]
    intro h; exact absurd h (tables_ne_nil a)

/-- the columns declared by the result of `extend`'s merge logic: the receiver's columns and the new names -/
theorem extendTop_cols {q : Ops} {ops : Assign} {pa : PartArg} {od rv : List String} {p' : Ops}
    (hnt : q.isTrivialWhenIntermediate = false) (h : extendTopC q ops pa od rv = .ok p') :
    ∀ c, c ∈ p'.cols ↔ c ∈ q.cols ∨ c ∈ ops.map (·.1) := by
  have plain : mkExtend q ops pa od rv = .ok p' → ∀ c, c ∈ p'.cols ↔ c ∈ q.cols ∨ c ∈ ops.map (·.1) := by
    intro hm
    rw [mkExtend_eqC] at hm
    obtain ⟨u, _, hp⟩ := except_bind_eq_ok.mp hm
    cases hp
    exact fun c => mem_appendNewC
  cases q with
  | order s cs rv' lim =>
    cases lim with
    | none => cases hnt
    | some n => exact plain h
  | extend src o1 part1 od1 rv1 w1 =>
    simp only [extendTopC] at h
    rcases extendMerge_cases src o1 part1 od1 rv1 w1 ops pa od rv with ⟨o, hm, _, _, _, _, he⟩ | he
    · rw [he, mkExtend_eqC] at h
      obtain ⟨u, _, hp⟩ := except_bind_eq_ok.mp h
      cases hp
      obtain ⟨_, _, _, _, hkeys⟩ := tryMergeOps_spec hm
      intro c
      simp only [Ops.cols, mem_appendNewC, hkeys c]
      constructor
      · rintro (hh | hh | hh)
        · exact Or.inl (Or.inl hh)
        · exact Or.inl (Or.inr hh)
        · exact Or.inr hh
      · rintro ((hh | hh) | hh)
        · exact Or.inl hh
        · exact Or.inr (Or.inl hh)
        · exact Or.inr (Or.inr hh)
    · rw [he] at h; exact plain h
  | table _ _ => exact plain h
  | project _ _ _ => exact plain h
  | selectRows _ _ => exact plain h
  | selectCols _ _ => exact plain h
  | dropCols _ _ => exact plain h
  | rename _ _ => exact plain h
  | mapCols _ _ _ => exact plain h
  | join _ _ _ _ _ => exact plain h
  | concat _ _ _ _ _ => exact plain h
  | convert _ _ => exact plain h

theorem selectColsB_cols {self p' : Ops} {cs : List String} (h : selectColsB self cs = .ok p') : p'.cols = cs := by
  rw [selectColsB_eq] at h
  obtain ⟨u, _, h2⟩ := except_bind_eq_ok.mp h
  rw [mkSelectCols_eq] at h2
  obtain ⟨u', _, h3⟩ := except_bind_eq_ok.mp h2
  rw [selectNode_selectBase] at h3
  cases h3
  rfl

/-- the declared columns of what a builder returns, from the shape: those of the node `P` (same operator and
parameters as the raw node `N`) over the receiver's columns, up to order -/
theorem shape_cols {p p' leaf : Ops} {s : Step} {N P : Ops} (hv : p.valid = true)
    (h : BuildShape p p' leaf s N) (hp'v : p'.valid = true) (hT : ∀ n cs, N ≠ .table n cs)
    (hsame : ∀ ca cb, nodeCols N ca cb = nodeCols P ca cb)
    {cb : List String} (hcb : cb = optCols N.srcB) :
    p'.cols.Perm (nodeCols P p.cols cb) := by
  cases h with
  | ident hN _ => obtain ⟨n, cs, rfl⟩ := hN; exact absurd rfl (hT n cs)
  | plain hp _ =>
    rw [hp, cols_eq_nodeCols, reSrc_srcA _ hT, reSrc_srcB, nodeCols_reSrc, Ops.strip_cols, ← hcb, hsame]
  | extend ops pa od rv hs hne htop hN =>
    subst hN
    have hmem := extendTop_cols (Ops.strip_not_trivial p) htop
    rw [← hsame]
    refine perm_of_mem_iff (Ops.valid_cols_nodup hp'v) (nodup_appendNewC (Ops.valid_cols_nodup hv)) ?_
    intro c
    rw [hmem c, Ops.strip_cols]
    exact mem_appendNewC.symm
  | select cs hs hsel hN =>
    subst hN
    rw [selectColsB_cols hsel, ← hsame]
    exact List.Perm.refl _

/-! ### composition with one replaced table key -/

theorem tables_srcA (p : Ops) : ∀ x ∈ p.srcA.tables, x ∈ p.tables := by
  cases p with
  | join a b _ _ _ => intro x hx; simp only [Ops.srcA] at hx; simp only [Ops.tables, List.mem_append]; exact Or.inl hx
  | concat a b _ _ _ => intro x hx; simp only [Ops.srcA] at hx; simp only [Ops.tables, List.mem_append]; exact Or.inl hx
  | _ => exact fun x hx => hx

theorem tables_srcB {p b : Ops} (h : p.srcB = some b) : ∀ x ∈ b.tables, x ∈ p.tables := by
  cases p with
  | join a b' _ _ _ => cases h; intro x hx; simp only [Ops.tables, List.mem_append]; exact Or.inr hx
  | concat a b' _ _ _ => cases h; intro x hx; simp only [Ops.tables, List.mem_append]; exact Or.inr hx
  | _ => cases h

theorem valid_srcB {p b : Ops} (hv : p.valid = true) (h : p.srcB = some b) : b.valid = true := by
  cases p with
  | join a b' _ _ _ => cases h; simp only [Ops.valid, Bool.and_eq_true] at hv; exact hv.2
  | concat a b' _ _ _ => cases h; simp only [Ops.valid, Bool.and_eq_true] at hv; exact hv.2
  | _ => cases h

/-- what is proved about `replace_leaves [(k, r)] p = q` when every table of `p` has the key `k` -/
def SingleConcl (r p q : Ops) : Prop :=
  q.valid = true ∧ (∀ x, x ∈ q.tables ↔ x ∈ r.tables) ∧ q.cols.Perm p.cols ∧
    ∀ (Θ : Interp) (cfg : SemCfg) (env : Env), ConvertOK Θ → ConvertInvariant Θ →
      ∀ e, sem Θ cfg env r = .error e → sem Θ cfg env q = .error e

def SingleStmt (k : String) (r p : Ops) : Prop :=
  p.valid = true → (∀ kc ∈ p.tables, kc.1 = k ∧ r.cols.Perm kc.2) →
    ∀ q, Ops.replaceLeaves [(k, r)] p = .ok q → SingleConcl r p q

theorem single_node {k : String} {r p : Ops}
    (hT : ∀ n cs, p ≠ .table n cs) (IHa : SingleStmt k r p.srcA)
    (IHb : ∀ b, p.srcB = some b → SingleStmt k r b) : SingleStmt k r p := by
  intro hv hl q hq
  obtain ⟨a', ha', h⟩ := replace_node hv hT hq
  obtain ⟨ha'v, hta, hca, hea⟩ := IHa (Ops.valid_srcA hv) (fun kc hkc => hl kc (tables_srcA p kc hkc)) a' ha'
  have hpn : p.cols = nodeCols p p.srcA.cols (optCols p.srcB) := cols_eq_nodeCols p
  rcases h with ⟨hB, h⟩ | ⟨b, b', hB, hb', h⟩
  · obtain ⟨hqv, leaf, step, N, hshape, hNB, _, _, _, hcols, hNT⟩ := h ha'v
    refine ⟨hqv, ?_, ?_, ?_⟩
    · intro x
      rw [shape_tables hshape, hNB]
      simp only [optTables, List.append_nil]
      exact hta x
    · have h1 := shape_cols (P := p) ha'v hshape hqv hNT hcols (cb := []) (by rw [hNB]; rfl)
      rw [hpn, hB]
      exact h1.trans (nodeCols_perm p (Ops.valid_cols_nodup ha'v) List.nodup_nil hca (List.Perm.refl _))
    · intro Θ cfg env hΘ hC e he
      have hea' := hea Θ cfg env hΘ hC e he
      have := shape_sem_apply (Θ := Θ) (cfg := cfg) (env := env) hΘ hC ha'v hshape hqv
        (by intro b0 hb0; rw [hNB] at hb0; cases hb0)
        (by intro t ht; rw [hea'] at ht; cases ht) (by intro t ht; rw [hea'] at ht; cases ht)
      rw [hea'] at this
      cases hq' : sem Θ cfg env q with
      | error e' => rw [hq'] at this; exact congrArg _ this
      | ok t => rw [hq'] at this; exact this.elim
  · obtain ⟨hb'v, htb, hcb, _⟩ := IHb b hB (valid_srcB hv hB) (fun kc hkc => hl kc (tables_srcB hB kc hkc)) b' hb'
    obtain ⟨hqv, leaf, step, N, hshape, hNB, _, _, _, hcols, hNT⟩ := h ha'v hb'v
    refine ⟨hqv, ?_, ?_, ?_⟩
    · intro x
      rw [shape_tables hshape, hNB]
      simp only [optTables, List.mem_append, hta x, htb x, or_self]
    · have h1 := shape_cols (P := p) ha'v hshape hqv hNT hcols (cb := b'.cols) (by rw [hNB]; rfl)
      rw [hpn, hB]
      exact h1.trans (nodeCols_perm p (Ops.valid_cols_nodup ha'v) (Ops.valid_cols_nodup hb'v) hca hcb)
    · intro Θ cfg env hΘ hC e he
      have hea' := hea Θ cfg env hΘ hC e he
      have := shape_sem_apply (Θ := Θ) (cfg := cfg) (env := env) hΘ hC ha'v hshape hqv
        (by intro b0 hb0; rw [hNB] at hb0; cases hb0; exact hb'v)
        (by intro t ht; rw [hea'] at ht; cases ht) (by intro t ht; rw [hea'] at ht; cases ht)
      rw [hea'] at this
      cases hq' : sem Θ cfg env q with
      | error e' => rw [hq'] at this; exact congrArg _ this
      | ok t => rw [hq'] at this; exact this.elim

/-- **Composition with one replaced key, structure and errors.**  When every table description of a valid `p`
has the key `k` and columns that are the columns of the valid pipeline `r` up to order: the rebuilt pipeline is
valid, its table descriptions are exactly those of `r`, it declares the columns of `p` up to order, and it fails
to evaluate with the error `r` fails with. -/
theorem replaceSingle {k : String} {r : Ops} (hr : r.valid = true) (p : Ops) : SingleStmt k r p := by
  induction p with
  | table n cs =>
    intro hv hl q hq
    obtain ⟨hk, hperm⟩ := hl (n, cs) (by simp [Ops.tables])
    simp only at hk
    subst hk
    simp only [Ops.replaceLeaves, lookupLast_singleton, beq_self_eq_true, if_true] at hq
    cases hq
    exact ⟨hr, fun _ => Iff.rfl, hperm, fun _ _ _ _ _ _ he => he⟩
  | extend s ops part od rv w ih =>
    exact single_node (by intro _ _ h; cases h) ih (by intro b h; cases h)
  | project s ops g ih => exact single_node (by intro _ _ h; cases h) ih (by intro b h; cases h)
  | selectRows s e ih => exact single_node (by intro _ _ h; cases h) ih (by intro b h; cases h)
  | selectCols s cs ih => exact single_node (by intro _ _ h; cases h) ih (by intro b h; cases h)
  | dropCols s ds ih => exact single_node (by intro _ _ h; cases h) ih (by intro b h; cases h)
  | order s cs rv lim ih => exact single_node (by intro _ _ h; cases h) ih (by intro b h; cases h)
  | rename s m ih => exact single_node (by intro _ _ h; cases h) ih (by intro b h; cases h)
  | mapCols s m ds ih => exact single_node (by intro _ _ h; cases h) ih (by intro b h; cases h)
  | convert s rm ih => exact single_node (by intro _ _ h; cases h) ih (by intro b h; cases h)
  | join a b oa ob jt iha ihb =>
    exact single_node (by intro _ _ h; cases h) iha (by intro b' h; cases h; exact ihb)
  | concat a b idc an bn iha ihb =>
    exact single_node (by intro _ _ h; cases h) iha (by intro b' h; cases h; exact ihb)

end DAVerif
