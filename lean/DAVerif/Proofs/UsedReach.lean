import DAVerif.Proofs.BuilderReach
import DAVerif.Proofs.UsedTop
/-!
C10: every pipeline the builders produce satisfies the structural hypotheses of the C10 theorems, and
`columns_used` never raises on it.

* `NodeOK` / `AllOK` – what the node constructors check, as far as C10 needs it;
* `AllOK p → UsedWF p`, `AllOK p → p.cols.Nodup`, `AllOK p → columnsUsed p` succeeds;
* `ReachableU p` (table descriptions with distinct column names, closed under the builder calls of `build`) `→ AllOK p`.
-/
namespace DAVerif
open Ops

/-! ### `nodupB` -/

theorem length_eraseDups_le : ∀ (n : Nat) (l : List String), l.length ≤ n → l.eraseDups.length ≤ l.length := by
  intro n
  induction n with
  | zero => intro l h; cases l <;> simp_all
  | succ n ih =>
    intro l h
    cases l with
    | nil => simp
    | cons a l =>
      rw [List.eraseDups_cons]
      simp only [List.length_cons] at h ⊢
      have h1 : (l.filter (fun b => !b == a)).length ≤ l.length := List.length_filter_le _ _
      have := ih (l.filter (fun b => !b == a)) (by omega)
      omega

theorem nodup_of_nodupB_u : ∀ (n : Nat) (l : List String), l.length ≤ n → nodupB l = true → l.Nodup := by
  intro n
  induction n with
  | zero => intro l h _; cases l <;> simp_all
  | succ n ih =>
    intro l h hb
    cases l with
    | nil => exact List.nodup_nil
    | cons a l =>
      simp only [nodupB, List.eraseDups_cons, List.length_cons, beq_iff_eq, Nat.add_right_cancel_iff] at hb
      simp only [List.length_cons] at h
      have h1 : (l.filter (fun b => !b == a)).length ≤ l.length := List.length_filter_le _ _
      have h2 := length_eraseDups_le _ (l.filter (fun b => !b == a)) (Nat.le_refl _)
      have hfl : (l.filter (fun b => !b == a)).length = l.length := by omega
      have hf : l.filter (fun b => !b == a) = l := List.filter_eq_self.mpr (by
        have := List.length_filter_eq_length_iff.mp hfl
        exact this)
      rw [hf] at hb
      have hna : a ∉ l := by
        intro ha
        have := (List.filter_eq_self.mp hf) a ha
        simp at this
      exact List.nodup_cons.mpr ⟨hna, ih l (by omega) (by simp [nodupB, hb])⟩

theorem nodupB_nodup {l : List String} (h : nodupB l = true) : l.Nodup := nodup_of_nodupB_u _ l (Nat.le_refl _) h

/-! ### what the constructors guarantee -/

/-- the checks of the node constructors that C10 uses (top node only) -/
def NodeOK : Ops → Prop
  | .table _ cs => cs.Nodup
  | .extend s ops part od rv _ =>
    (∀ c ∈ Term.colsUsedOps ops, c ∈ s.cols) ∧ (∀ c ∈ part, c ∈ s.cols) ∧ (∀ c ∈ od, c ∈ s.cols) ∧
      disjoint (ops.map (·.1)) (part ++ od ++ rv) = true
  | .project s ops g => (∀ c ∈ g ++ Term.colsUsedOps ops, c ∈ s.cols) ∧ g.Nodup
  | .selectRows s e => ∀ c ∈ e.colsRaw, c ∈ s.cols
  | .selectCols s cs => (∀ c ∈ cs, c ∈ s.cols) ∧ cs.Nodup
  | .dropCols _ _ => True
  | .order s cs _ _ => ∀ c ∈ cs, c ∈ s.cols
  | n@(.rename s m) => (∀ k ∈ s.cols, renBack m (renFwd m k) = k) ∧ n.cols.Nodup
  | n@(.mapCols s m ds) => (∀ k ∈ s.cols, k ∉ ds → renFwd m (renBack m k) = k) ∧ (∀ c ∈ ds, c ∈ s.cols) ∧ n.cols.Nodup
  | .join a b oa ob _ => (∀ c ∈ oa, c ∈ a.cols) ∧ (∀ c ∈ ob, c ∈ b.cols)
  | .concat a _ idc _ _ => ∀ c, idc = some c → c ∉ a.cols
  | .convert s rm => (∀ c ∈ rm.needed, c ∈ s.cols) ∧ rm.produced.Nodup

/-- every node of the pipeline passes its constructor's checks -/
def AllOK : Ops → Prop
  | n@(.table _ _) => NodeOK n
  | n@(.extend s _ _ _ _ _) | n@(.project s _ _) | n@(.selectRows s _) | n@(.selectCols s _) | n@(.dropCols s _)
  | n@(.order s _ _ _) | n@(.rename s _) | n@(.mapCols s _ _) | n@(.convert s _) => NodeOK n ∧ AllOK s
  | n@(.join a b _ _ _) | n@(.concat a b _ _ _) => NodeOK n ∧ AllOK a ∧ AllOK b

theorem AllOK.usedWF : ∀ (p : Ops), AllOK p → UsedWF p := by
  intro p
  induction p with
  | table k cs => intro _; trivial
  | extend s ops part od rv w ih =>
    intro h
    simp only [AllOK, NodeOK] at h
    refine ⟨ih h.2, fun _ => ?_⟩
    apply disjoint_iff_u.mpr
    intro c hc hm
    exact disjoint_iff_u.mp h.1.2.2.2 c hc (List.mem_append_left _ hm)
  | project s ops g ih => intro h; exact ih h.2
  | selectRows s e ih => intro h; exact ih h.2
  | selectCols s cs ih => intro h; exact ih h.2
  | dropCols s ds ih => intro h; exact ih h.2
  | order s cs rv lim ih => intro h; exact ih h.2
  | rename s m ih => intro h; simp only [AllOK, NodeOK] at h; exact ⟨ih h.2, h.1.1⟩
  | mapCols s m ds ih => intro h; simp only [AllOK, NodeOK] at h; exact ⟨ih h.2, h.1.1⟩
  | convert s rm ih => intro h; exact ih h.2
  | join a b oa ob jt iha ihb => intro h; exact ⟨iha h.2.1, ihb h.2.2⟩
  | concat a b idc an bn iha ihb => intro h; exact ⟨iha h.2.1, ihb h.2.2⟩

theorem nodup_appendNew {xs ys : List String} (h : xs.Nodup) : (appendNew xs ys).Nodup := by
  unfold appendNew
  induction ys generalizing xs with
  | nil => exact h
  | cons y ys ih =>
    simp only [List.foldl_cons]
    split
    · exact ih h
    · rename_i hn
      apply ih
      rw [List.nodup_append]
      refine ⟨h, (by simp), ?_⟩
      intro a ha b hb
      simp only [List.mem_singleton] at hb
      subst hb
      intro e; subst e
      exact hn (by simpa using ha)

theorem AllOK.cols_nodup : ∀ (p : Ops), AllOK p → p.cols.Nodup := by
  intro p
  induction p with
  | table k cs => intro h; exact h
  | extend s ops part od rv w ih => intro h; exact nodup_appendNew (ih h.2)
  | project s ops g ih => intro h; simp only [AllOK, NodeOK] at h; exact nodup_appendNew h.1.2
  | selectRows s e ih => intro h; exact ih h.2
  | selectCols s cs ih => intro h; simp only [AllOK, NodeOK] at h; exact h.1.2
  | dropCols s ds ih => intro h; exact (ih h.2).filter _
  | order s cs rv lim ih => intro h; exact ih h.2
  | rename s m ih => intro h; simp only [AllOK, NodeOK] at h; exact h.1.2
  | mapCols s m ds ih => intro h; simp only [AllOK, NodeOK] at h; exact h.1.2.2
  | convert s rm ih => intro h; simp only [AllOK, NodeOK] at h; exact h.1.2
  | join a b oa ob jt iha ihb =>
    intro h
    simp only [Ops.cols]
    split
    · exact iha h.2.1
    · split
      · exact ihb h.2.2
      · exact nodup_appendNew (iha h.2.1)
  | concat a b idc an bn iha ihb =>
    intro h
    simp only [AllOK, NodeOK] at h
    simp only [Ops.cols]
    cases idc with
    | none => exact iha h.2.1
    | some c =>
      rw [List.nodup_append]
      refine ⟨iha h.2.1, (by simp), ?_⟩
      intro x hx y hy
      simp only [List.mem_singleton] at hy
      subst hy
      intro e; subst e
      exact h.1 x rfl hx

theorem ok?_true_u {e : Err} {β : Type} (k : Unit → Except Err β) : (ok? true e >>= k) = k () := rfl

/-- **`columns_used` is total on well-built pipelines**: a request inside the node's columns never raises -/
theorem AllOK.columnsUsedAux_ok : ∀ (p : Ops), AllOK p → ∀ (u : List String) (acc : Used),
    (∀ c ∈ u, c ∈ p.cols) → ∃ acc', columnsUsedAux p u acc = .ok acc' := by
  intro p
  induction p with
  | table k cs =>
    intro _ u acc hu
    simp only [columnsUsedAux, subset_iff_u.mpr hu]
    exact ⟨_, rfl⟩
  | extend s ops part od rv w ih =>
    intro h u acc hu
    simp only [columnsUsedAux, subset_iff_u.mpr hu, ok?_true_u]
    obtain ⟨v, hv, hvs, _⟩ := used_extend s ops part od rv w u
    rw [hv]
    exact ih h.2 _ acc hvs
  | project s ops g ih =>
    intro h u acc hu
    simp only [AllOK, NodeOK] at h
    simp only [columnsUsedAux, subset_iff_u.mpr hu, ok?_true_u, usedFromSources, List.headD_cons]
    apply ih h.2
    intro c hc
    rcases mem_unionL.mp hc with h1 | h1
    · exact h.1.1 c (List.mem_append_left _ h1)
    · obtain ⟨kv, hkv, hc'⟩ := mem_colsUsedOps_u.mp h1
      exact h.1.1 c (List.mem_append_right _ (mem_colsUsedOps_u.mpr ⟨kv, (List.mem_filter.mp hkv).1, hc'⟩))
  | selectRows s e ih =>
    intro h u acc hu
    simp only [AllOK, NodeOK] at h
    simp only [columnsUsedAux, subset_iff_u.mpr hu, ok?_true_u, usedFromSources, List.headD_cons]
    apply ih h.2
    intro c hc
    rcases mem_unionL.mp hc with h1 | h1
    · exact (List.mem_filter.mp h1).1
    · exact h.1 c (mem_colsUsed.mp h1)
  | selectCols s cs ih =>
    intro h u acc hu
    simp only [AllOK, NodeOK] at h
    simp only [columnsUsedAux, subset_iff_u.mpr hu, ok?_true_u, usedFromSources, List.headD_cons]
    apply ih h.2
    intro c hc
    exact h.1.1 c (List.mem_filter.mp hc).1
  | dropCols s ds ih =>
    intro h u acc hu
    simp only [columnsUsedAux, subset_iff_u.mpr hu, ok?_true_u, usedFromSources, List.headD_cons]
    apply ih h.2
    intro c hc
    have := hu c (List.mem_filter.mp hc).1
    simp only [Ops.cols] at this
    exact (List.mem_filter.mp this).1
  | order s cs rv lim ih =>
    intro h u acc hu
    simp only [AllOK, NodeOK] at h
    simp only [columnsUsedAux, subset_iff_u.mpr hu, ok?_true_u, usedFromSources, List.headD_cons]
    apply ih h.2
    intro c hc
    rcases mem_unionL.mp hc with h1 | h1
    · exact (List.mem_filter.mp h1).1
    · exact h.1 c h1
  | rename s m ih =>
    intro h u acc hu
    simp only [AllOK, NodeOK] at h
    simp only [columnsUsedAux, subset_iff_u.mpr hu, ok?_true_u, usedFromSources, List.headD_cons]
    apply ih h.2
    intro c hc
    obtain ⟨c0, hc0, rfl⟩ := List.mem_map.mp (List.mem_eraseDups.mp hc)
    have := hu c0 hc0
    simp only [Ops.cols] at this
    obtain ⟨k0, hk0, rfl⟩ := List.mem_map.mp this
    have e := h.1.1 k0 hk0
    simp only [renBack, renFwd] at e
    rw [e]; exact hk0
  | mapCols s m ds ih =>
    intro h u acc hu
    simp only [AllOK, NodeOK] at h
    simp only [columnsUsedAux, subset_iff_u.mpr hu, ok?_true_u, usedFromSources, List.headD_cons]
    apply ih h.2
    intro c hc
    rcases mem_unionL.mp hc with h1 | h1
    · obtain ⟨c0, hc0, rfl⟩ := List.mem_map.mp (List.mem_eraseDups.mp h1)
      have := hu c0 hc0
      simp only [Ops.cols] at this
      obtain ⟨k0, hk0, rfl⟩ := List.mem_map.mp this
      rw [mem_filter_not_contains] at hk0
      have e := h.1.1 k0 hk0.1 hk0.2
      simp only [renBack, renFwd] at e
      rw [e]; exact hk0.1
    · exact h.1.2.1 c h1
  | convert s rm ih =>
    intro h u acc hu
    simp only [AllOK, NodeOK] at h
    simp only [columnsUsedAux, subset_iff_u.mpr hu, ok?_true_u, usedFromSources, List.headD_cons]
    exact ih h.2 _ acc h.1.1
  | join a b oa ob jt iha ihb =>
    intro h u acc hu
    simp only [columnsUsedAux, subset_iff_u.mpr hu, ok?_true_u, usedFromSources, List.headD_cons, List.drop_succ_cons,
      List.drop_zero]
    obtain ⟨acc1, h1⟩ := iha h.2.1 (a.cols.filter (fun c => (unionL (unionL u oa) ob).contains c)) acc
      (fun c hc => (List.mem_filter.mp hc).1)
    obtain ⟨acc2, h2⟩ := ihb h.2.2 (b.cols.filter (fun c => (unionL (unionL u oa) ob).contains c)) acc1
      (fun c hc => (List.mem_filter.mp hc).1)
    exact ⟨acc2, by rw [h1]; exact h2⟩
  | concat a b idc an bn iha ihb =>
    intro h u acc hu
    simp only [columnsUsedAux, subset_iff_u.mpr hu, ok?_true_u, usedFromSources, List.headD_cons, List.drop_succ_cons,
      List.drop_zero]
    obtain ⟨acc1, h1⟩ := iha h.2.1 (a.cols.filter (fun c => u.contains c)) acc (fun c hc => (List.mem_filter.mp hc).1)
    obtain ⟨acc2, h2⟩ := ihb h.2.2 (b.cols.filter (fun c => u.contains c)) acc1 (fun c hc => (List.mem_filter.mp hc).1)
    exact ⟨acc2, by rw [h1]; exact h2⟩

theorem AllOK.columnsUsed_ok {p : Ops} (h : AllOK p) : ∃ U, columnsUsed p = .ok U :=
  h.columnsUsedAux_ok p p.cols _ (fun _ hc => hc)


/-! ### rename / map_columns: the constructor's checks make the mapping invertible -/

theorem lookupLast_none_iff {β : Type} {m : List (String × β)} {k : String} :
    lookupLast m k = none ↔ k ∉ m.map (·.1) := by
  rw [← lookupLast_isSome]
  cases lookupLast m k <;> simp

theorem lookupLast_of_nodup_keys {β : Type} : ∀ {m : List (String × β)} {n : String} {k : β},
    (m.map (·.1)).Nodup → (n, k) ∈ m → lookupLast m n = some k
  | [], _, _, _, h => by cases h
  | kv :: m, n, k, hn, h => by
    simp only [List.map_cons, List.nodup_cons] at hn
    rw [lookupLast_cons_u]
    rcases List.mem_cons.mp h with e | e
    · subst e
      have : lookupLast m n = none := lookupLast_none_iff.mpr hn.1
      simp [this]
    · rw [lookupLast_of_nodup_keys hn.2 e]; rfl

theorem mem_of_lookupLast_swap {m : List (String × String)} {k n : String}
    (h : lookupLast (m.map (fun kv => (kv.2, kv.1))) k = some n) : (n, k) ∈ m := by
  have := lookupLast_mem h
  obtain ⟨kv, hkv, e⟩ := List.mem_map.mp this
  simp only [Prod.mk.injEq] at e
  obtain ⟨rfl, rfl⟩ := e
  exact hkv

/-- `RenameColumnsNode`: after the collision check, following a source column forward and back returns it -/
theorem rename_inverse (sc : List String) (m : List (String × String)) (hk : (m.map (·.1)).Nodup)
    (hcoll : ((sc.filter (fun c => !(inter (m.map (·.1)) (m.map (·.2))).contains c)).filter
      (fun c => (m.map (·.1)).contains c)).isEmpty = true) :
    ∀ k ∈ sc, renBack m (renFwd m k) = k := by
  intro k hks
  simp only [renBack, renFwd]
  cases hl : lookupLast (m.map (fun kv => (kv.2, kv.1))) k with
  | some n =>
    simp only [Option.getD_some]
    rw [lookupLast_of_nodup_keys hk (mem_of_lookupLast_swap hl)]
    rfl
  | none =>
    simp only [Option.getD_none]
    cases hl2 : lookupLast m k with
    | none => rfl
    | some o =>
      exfalso
      have hknew : k ∈ m.map (·.1) := lookupLast_isSome.mp (by simp [hl2])
      have hknot : k ∉ m.map (·.2) := by
        have := lookupLast_none_iff.mp hl
        simpa [List.map_map, Function.comp_def] using this
      have : k ∈ (sc.filter (fun c => !(inter (m.map (·.1)) (m.map (·.2))).contains c)).filter
          (fun c => (m.map (·.1)).contains c) := by
        rw [mem_filter_contains, mem_filter_not_contains]
        refine ⟨⟨hks, ?_⟩, hknew⟩
        intro hb
        exact hknot (mem_filter_contains.mp hb).2
      rw [List.isEmpty_iff.mp hcoll] at this
      cases this

theorem inj_of_nodup_map {f : String → String} : ∀ {l : List String}, (l.map f).Nodup →
    ∀ a ∈ l, ∀ b ∈ l, f a = f b → a = b
  | [], _, _, ha, _, _, _ => by cases ha
  | x :: l, hn, a, ha, b, hb, e => by
    simp only [List.map_cons, List.nodup_cons, List.mem_map, not_exists, not_and] at hn
    rcases List.mem_cons.mp ha with rfl | ha' <;> rcases List.mem_cons.mp hb with rfl | hb'
    · rfl
    · exact absurd e.symm (hn.1 b hb')
    · exact absurd e (hn.1 a ha')
    · exact inj_of_nodup_map hn.2 a ha' b hb' e

/-- `MapColumnsNode`: with distinct result columns and the collision check, following a kept source column forward
and back returns it (`m`: old ↦ new for the remapped columns, `ds` the deleted ones, disjoint from `m`'s keys) -/
theorem mapcols_inverse (sc : List String) (m : List (String × String)) (ds : List String)
    (hk : (m.map (·.1)).Nodup) (horig : ∀ c ∈ m.map (·.1), c ∈ sc) (hdis : ∀ c ∈ m.map (·.1), c ∉ ds)
    (hnd : ((sc.filter (fun c => !ds.contains c)).map (renBack m)).Nodup) :
    ∀ k ∈ sc, k ∉ ds → renFwd m (renBack m k) = k := by
  intro k hks hkd
  have hkin : k ∈ sc.filter (fun c => !ds.contains c) := mem_filter_not_contains.mpr ⟨hks, hkd⟩
  simp only [renFwd]
  cases hl : lookupLast (m.map (fun kv => (kv.2, kv.1))) (renBack m k) with
  | some k' =>
    simp only [Option.getD_some]
    -- (k', renBack m k) ∈ m, so renBack m k' = renBack m k, and both are kept source columns
    have hm := mem_of_lookupLast_swap hl
    have hk'key : k' ∈ m.map (·.1) := List.mem_map.mpr ⟨_, hm, rfl⟩
    have e : renBack m k' = renBack m k := by
      simp only [renBack]
      rw [lookupLast_of_nodup_keys hk hm]; rfl
    have hk'in : k' ∈ sc.filter (fun c => !ds.contains c) :=
      mem_filter_not_contains.mpr ⟨horig k' hk'key, hdis k' hk'key⟩
    exact inj_of_nodup_map hnd k' hk'in k hkin e
  | none =>
    simp only [Option.getD_none]
    simp only [renBack]
    cases hl2 : lookupLast m k with
    | none => rfl
    | some n =>
      -- k ↦ n, and n is nobody's image?  then n = renBack m k is not a new name: contradiction
      exfalso
      have hm := lookupLast_mem hl2
      have : renBack m k = n := by simp [renBack, hl2]
      rw [this] at hl
      have hnot : n ∉ (m.map (fun kv => (kv.2, kv.1))).map (·.1) := lookupLast_none_iff.mp hl
      apply hnot
      simp only [List.map_map, Function.comp_def]
      exact List.mem_map.mpr ⟨_, hm, rfl⟩


/-! ### the node constructors establish `NodeOK` -/

theorem mkExtend_ok_u {src : Ops} {ops : Assign} {partition : PartArg} {order reverse : List String} {q : Ops}
    (hs : AllOK src) (h : mkExtend src ops partition order reverse = .ok q) : AllOK q := by
  unfold mkExtend at h
  cases partition <;> simp only [] at h <;>
  · obtain ⟨h1, h⟩ := ok?_bind_u h
    obtain ⟨h2, h⟩ := ok?_bind_u h
    obtain ⟨h3, h⟩ := ok?_bind_u h
    obtain ⟨h4, h⟩ := ok?_bind_u h
    obtain ⟨h5, h⟩ := ok?_bind_u h
    obtain ⟨h6, h⟩ := ok?_bind_u h
    obtain ⟨h7, h⟩ := ok?_bind_u h
    obtain ⟨h8, h⟩ := ok?_bind_u h
    split at h
    · obtain ⟨_, _, h⟩ := except_bind_ok_u h
      cases h
      exact ⟨⟨subset_iff_u.mp h1, subset_iff_u.mp h5, subset_iff_u.mp h6, h8⟩, hs⟩
    · cases h
      exact ⟨⟨subset_iff_u.mp h1, subset_iff_u.mp h5, subset_iff_u.mp h6, h8⟩, hs⟩

theorem mkProject_ok {src : Ops} {ops : Assign} {group : List String} {q : Ops}
    (hs : AllOK src) (h : mkProject src ops group = .ok q) : AllOK q := by
  unfold mkProject at h
  obtain ⟨h1, h⟩ := ok?_bind_u h
  obtain ⟨h2, h⟩ := ok?_bind_u h
  obtain ⟨h3, h⟩ := ok?_bind_u h
  obtain ⟨_, _, h⟩ := except_bind_ok_u h
  cases h
  exact ⟨⟨subset_iff_u.mp h1, nodupB_nodup h2⟩, hs⟩

theorem mkSelectCols_ok {src : Ops} {cs : List String} {q : Ops}
    (hs : AllOK src) (h : mkSelectCols src cs = .ok q) : AllOK q := by
  unfold mkSelectCols at h
  obtain ⟨h1, h⟩ := ok?_bind_u h
  obtain ⟨h2, h⟩ := ok?_bind_u h
  obtain ⟨h3, h⟩ := ok?_bind_u h
  have h2 := subset_iff_u.mp h2
  split at h
  · rename_i s0 cs0
    cases h
    simp only [AllOK, NodeOK] at hs ⊢
    exact ⟨⟨fun c hc => hs.1.1 c (h2 c hc), nodupB_nodup h3⟩, hs.2⟩
  · cases h
    exact ⟨⟨h2, nodupB_nodup h3⟩, hs⟩

theorem mkDropCols_ok {src : Ops} {ds : List String} {q : Ops}
    (hs : AllOK src) (h : mkDropCols src ds = .ok q) : AllOK q := by
  unfold mkDropCols at h
  obtain ⟨h1, h⟩ := ok?_bind_u h
  obtain ⟨h2, h⟩ := ok?_bind_u h
  cases h
  exact ⟨trivial, hs⟩

theorem mkOrder_ok {src : Ops} {cs rv : List String} {lim : Option Nat} {q : Ops}
    (hs : AllOK src) (h : mkOrder src cs rv lim = .ok q) : AllOK q := by
  unfold mkOrder at h
  obtain ⟨h1, h⟩ := ok?_bind_u h
  obtain ⟨h2, h⟩ := ok?_bind_u h
  cases h
  exact ⟨subset_iff_u.mp h1, hs⟩

theorem mkRename_ok {src : Ops} {m : List (String × String)} {q : Ops} (hk : (m.map (·.1)).Nodup)
    (hs : AllOK src) (h : mkRename src m = .ok q) : AllOK q := by
  unfold mkRename at h
  simp only [] at h
  obtain ⟨h1, h⟩ := ok?_bind_u h
  obtain ⟨h2, h⟩ := ok?_bind_u h
  obtain ⟨h3, h⟩ := ok?_bind_u h
  cases h
  exact ⟨⟨rename_inverse src.cols m hk h2, nodupB_nodup h3⟩, hs⟩

theorem filterMap_keys (m : List (String × Option String)) :
    (m.filterMap (fun kv => kv.2.map (fun v => (kv.1, v)))).map (·.1) =
      (m.filter (fun kv => kv.2.isSome)).map (·.1) := by
  induction m with
  | nil => rfl
  | cons kv m ih =>
    obtain ⟨k, v⟩ := kv
    cases v <;> simp [List.filterMap_cons, List.filter_cons, ih]

theorem mkMapCols_ok {src : Ops} {m : List (String × Option String)} {q : Ops} (hk : (m.map (·.1)).Nodup)
    (hs : AllOK src) (h : mkMapCols src m = .ok q) : AllOK q := by
  unfold mkMapCols at h
  simp only [] at h
  obtain ⟨h1, h⟩ := ok?_bind_u h
  obtain ⟨h2, h⟩ := ok?_bind_u h
  obtain ⟨h3, h⟩ := ok?_bind_u h
  obtain ⟨h4, h⟩ := ok?_bind_u h
  cases h
  have h1 := subset_iff_u.mp h1
  have hsub : ∀ (P : String × Option String → Bool) c, c ∈ (m.filter P).map (·.1) → c ∈ m.map (·.1) := by
    intro P c hc
    obtain ⟨kv, hkv, rfl⟩ := List.mem_map.mp hc
    exact List.mem_map.mpr ⟨kv, (List.mem_filter.mp hkv).1, rfl⟩
  refine ⟨⟨?_, ?_, nodupB_nodup h4⟩, hs⟩
  · apply mapcols_inverse src.cols _ _
    · rw [filterMap_keys]
      exact (List.filter_sublist.map _).nodup hk
    · intro c hc
      rw [filterMap_keys] at hc
      exact h1 c (hsub _ c hc)
    · intro c hc hd
      rw [filterMap_keys] at hc
      obtain ⟨kv, hkv, e1⟩ := List.mem_map.mp hc
      obtain ⟨kv', hkv', e2⟩ := List.mem_map.mp hd
      obtain ⟨hm, hsome⟩ := List.mem_filter.mp hkv
      obtain ⟨hm', hnone⟩ := List.mem_filter.mp hkv'
      -- the same key with a value and without one: impossible for distinct keys
      have : kv = kv' := by
        have hinj : ∀ (l : List (String × Option String)), (l.map (·.1)).Nodup → ∀ a ∈ l, ∀ b ∈ l, a.1 = b.1 → a = b := by
          intro l
          induction l with
          | nil => intro _ a ha; cases ha
          | cons x l ih =>
            intro hn a ha b hb e
            simp only [List.map_cons, List.nodup_cons, List.mem_map, not_exists, not_and] at hn
            rcases List.mem_cons.mp ha with rfl | ha' <;> rcases List.mem_cons.mp hb with rfl | hb'
            · rfl
            · exact absurd e.symm (hn.1 b hb')
            · exact absurd e (hn.1 a ha')
            · exact ih hn.2 a ha' b hb' e
        exact hinj m hk kv hm kv' hm' (e1.trans e2.symm)
      subst this
      cases hv : kv.2 <;> simp [hv] at hsome hnone
    · exact nodupB_nodup h4
  · intro c hc
    exact h1 c (hsub _ c hc)

theorem mkJoin_ok {a b : Ops} {oa ob : List String} {jt : String} {chk : Bool} {q : Ops}
    (ha : AllOK a) (hb : AllOK b) (h : mkJoin a b oa ob jt chk = .ok q) : AllOK q := by
  unfold mkJoin at h
  obtain ⟨h1, h⟩ := ok?_bind_u h
  obtain ⟨h2, h⟩ := ok?_bind_u h
  obtain ⟨h3, h⟩ := ok?_bind_u h
  obtain ⟨h4, h⟩ := ok?_bind_u h
  have key : ∀ (x : Except Err Ops), x = .ok q →
      x = (match JoinType.parse jt with
        | none => throw Err.keyError
        | some t => do
          ok? (!(t == JoinType.cross && !oa.isEmpty)) Err.valueError
          pure (a.join b oa ob t)) → AllOK q := by
    intro x hx e
    rw [e] at hx
    split at hx
    · cases hx
    · obtain ⟨_, hx⟩ := ok?_bind_u hx
      cases hx
      exact ⟨⟨subset_iff_u.mp h3, subset_iff_u.mp h4⟩, ha, hb⟩
  simp only [] at h
  split at h
  · obtain ⟨_, h⟩ := ok?_bind_u h
    exact key _ h rfl
  · exact key _ h rfl

theorem mkConcat_ok {a b : Ops} {idc : Option String} {an bn : String} {q : Ops}
    (ha : AllOK a) (hb : AllOK b) (h : mkConcat a b idc an bn = .ok q) : AllOK q := by
  unfold mkConcat at h
  obtain ⟨h1, h⟩ := ok?_bind_u h
  obtain ⟨h2, h⟩ := ok?_bind_u h
  simp only [] at h
  split at h
  · rename_i c
    obtain ⟨hcn, h⟩ := ok?_bind_u h
    cases h
    refine ⟨?_, ha, hb⟩
    intro c' hc'
    cases hc'
    simpa using hcn
  · cases h
    refine ⟨?_, ha, hb⟩
    intro c' hc'
    cases hc'

theorem mkConvert_ok {src : Ops} {rm : RecMap} {q : Ops}
    (hs : AllOK src) (h : mkConvert src rm = .ok q) : AllOK q := by
  unfold mkConvert at h
  obtain ⟨h1, h⟩ := ok?_bind_u h
  obtain ⟨h2, h⟩ := ok?_bind_u h
  obtain ⟨h3, h⟩ := ok?_bind_u h
  cases h
  exact ⟨⟨subset_iff_u.mp h1, nodupB_nodup h3⟩, hs⟩


/-! ### the builder methods preserve `AllOK` -/

/-- the last part of `extendParsed` (after the argument checks): strip a trivial order, try to merge into an
extend, or construct -/
def extendTail (self : Ops) (ops : Assign) (partition : PartArg) (order reverse : List String) : Except Err Ops :=
  match self with
  | .order src _ _ none => extendParsed src ops partition order reverse
  | .extend src ops1 part1 order1 reverse1 windowed1 =>
    let emptyish : Bool := match partition with
      | .none => true | .one => true | .cols cs => cs.isEmpty
    let eqPart : Bool := match partition with
      | .none => part1.isEmpty | .one => false | .cols cs => cs == part1
    let compatible := eqPart || (emptyish && part1.isEmpty)
    let newWindowed := impliesWindowed ops || (match partition with
      | .none => false | .one => true | .cols cs => !cs.isEmpty) || !order.isEmpty
    let sameWindowing := newWindowed == windowed1
    if compatible && sameWindowing && order == order1 && reverse == reverse1 then
      match tryMergeOps ops1 ops with
      | some newOps => mkExtend src newOps partition order reverse
      | none => mkExtend self ops partition order reverse
    else mkExtend self ops partition order reverse
  | _ => mkExtend self ops partition order reverse

theorem extendParsed_tail {self : Ops} {ops : Assign} {partition : PartArg} {order reverse : List String} {q : Ops}
    (h : extendParsed self ops partition order reverse = .ok q) :
    q = self ∨ extendTail self ops partition order reverse = .ok q := by
  unfold extendParsed at h
  split at h
  · cases h; exact .inl rfl
  · right
    unfold extendTail
    cases partition <;> simp only [] at h
    · obtain ⟨_, _, h⟩ := except_bind_ok_u h
      obtain ⟨_, _, h⟩ := except_bind_ok_u h
      obtain ⟨_, h⟩ := ok?_bind_u h
      obtain ⟨_, h⟩ := ok?_bind_u h
      exact h
    · obtain ⟨_, _, h⟩ := except_bind_ok_u h
      obtain ⟨_, _, h⟩ := except_bind_ok_u h
      obtain ⟨_, h⟩ := ok?_bind_u h
      obtain ⟨_, h⟩ := ok?_bind_u h
      exact h
    · obtain ⟨_, _, h⟩ := except_bind_ok_u h
      obtain ⟨_, _, h⟩ := except_bind_ok_u h
      obtain ⟨_, _, h⟩ := except_bind_ok_u h
      split at h
      · obtain ⟨_, h⟩ := ok?_bind_u h
        obtain ⟨_, h⟩ := ok?_bind_u h
        obtain ⟨_, h⟩ := ok?_bind_u h
        obtain ⟨_, h⟩ := ok?_bind_u h
        exact h
      · obtain ⟨_, h⟩ := ok?_bind_u h
        obtain ⟨_, h⟩ := ok?_bind_u h
        exact h

theorem extendParsed_ok {ops : Assign} {partition : PartArg} {order reverse : List String} {q : Ops} :
    ∀ (self : Ops), AllOK self → extendParsed self ops partition order reverse = .ok q → AllOK q := by
  intro self
  induction self with
  | order src cs rv lim ih =>
    intro hs h
    rcases extendParsed_tail h with rfl | h
    · exact hs
    · cases lim with
      | none => simp only [extendTail] at h; exact ih hs.2 h
      | some n => simp only [extendTail] at h; exact mkExtend_ok_u hs h
  | extend src ops1 part1 order1 reverse1 w1 ih =>
    intro hs h
    rcases extendParsed_tail h with rfl | h
    · exact hs
    · have key : ∀ (c : Bool),
          (if c = true then
            (match tryMergeOps ops1 ops with
              | some newOps => mkExtend src newOps partition order reverse
              | none => mkExtend (Ops.extend src ops1 part1 order1 reverse1 w1) ops partition order reverse)
           else mkExtend (Ops.extend src ops1 part1 order1 reverse1 w1) ops partition order reverse) = .ok q →
          AllOK q := by
        intro c hc
        cases c
        · simp only [Bool.false_eq_true, if_false] at hc
          exact mkExtend_ok_u hs hc
        · simp only [if_true] at hc
          split at hc
          · exact mkExtend_ok_u hs.2 hc
          · exact mkExtend_ok_u hs hc
      simp only [extendTail] at h
      exact key _ h
  | table k cs =>
    intro hs h
    rcases extendParsed_tail h with rfl | h
    · exact hs
    · simp only [extendTail] at h; exact mkExtend_ok_u hs h
  | project s o g ih =>
    intro hs h
    rcases extendParsed_tail h with rfl | h
    · exact hs
    · simp only [extendTail] at h; exact mkExtend_ok_u hs h
  | selectRows s e ih =>
    intro hs h
    rcases extendParsed_tail h with rfl | h
    · exact hs
    · simp only [extendTail] at h; exact mkExtend_ok_u hs h
  | selectCols s c ih =>
    intro hs h
    rcases extendParsed_tail h with rfl | h
    · exact hs
    · simp only [extendTail] at h; exact mkExtend_ok_u hs h
  | dropCols s c ih =>
    intro hs h
    rcases extendParsed_tail h with rfl | h
    · exact hs
    · simp only [extendTail] at h; exact mkExtend_ok_u hs h
  | rename s m ih =>
    intro hs h
    rcases extendParsed_tail h with rfl | h
    · exact hs
    · simp only [extendTail] at h; exact mkExtend_ok_u hs h
  | mapCols s m d ih =>
    intro hs h
    rcases extendParsed_tail h with rfl | h
    · exact hs
    · simp only [extendTail] at h; exact mkExtend_ok_u hs h
  | convert s rm ih =>
    intro hs h
    rcases extendParsed_tail h with rfl | h
    · exact hs
    · simp only [extendTail] at h; exact mkExtend_ok_u hs h
  | join a b oa ob jt iha ihb =>
    intro hs h
    rcases extendParsed_tail h with rfl | h
    · exact hs
    · simp only [extendTail] at h; exact mkExtend_ok_u hs h
  | concat a b idc an bn iha ihb =>
    intro hs h
    rcases extendParsed_tail h with rfl | h
    · exact hs
    · simp only [extendTail] at h; exact mkExtend_ok_u hs h

theorem AllOK.of_order {src : Ops} {cs rv : List String} {lim : Option Nat} (h : AllOK (.order src cs rv lim)) :
    AllOK src := h.2

theorem projectParsed_ok {ops : Assign} {group : List String} {q : Ops} :
    ∀ (self : Ops), AllOK self → projectParsed self ops group = .ok q → AllOK q := by
  intro self
  induction self with
  | order src cs rv lim ih =>
    intro hs h
    unfold projectParsed at h
    obtain ⟨_, _, h⟩ := except_bind_ok_u h
    obtain ⟨_, h⟩ := ok?_bind_u h
    obtain ⟨_, h⟩ := ok?_bind_u h
    cases lim with
    | none => exact ih hs.2 h
    | some n => exact mkProject_ok hs h
  | table k cs => intro hs h; unfold projectParsed at h; obtain ⟨_, _, h⟩ := except_bind_ok_u h; obtain ⟨_, h⟩ := ok?_bind_u h; obtain ⟨_, h⟩ := ok?_bind_u h; exact mkProject_ok hs h
  | extend s a b c d e ih => intro hs h; unfold projectParsed at h; obtain ⟨_, _, h⟩ := except_bind_ok_u h; obtain ⟨_, h⟩ := ok?_bind_u h; obtain ⟨_, h⟩ := ok?_bind_u h; exact mkProject_ok hs h
  | project s o g ih => intro hs h; unfold projectParsed at h; obtain ⟨_, _, h⟩ := except_bind_ok_u h; obtain ⟨_, h⟩ := ok?_bind_u h; obtain ⟨_, h⟩ := ok?_bind_u h; exact mkProject_ok hs h
  | selectRows s e ih => intro hs h; unfold projectParsed at h; obtain ⟨_, _, h⟩ := except_bind_ok_u h; obtain ⟨_, h⟩ := ok?_bind_u h; obtain ⟨_, h⟩ := ok?_bind_u h; exact mkProject_ok hs h
  | selectCols s c ih => intro hs h; unfold projectParsed at h; obtain ⟨_, _, h⟩ := except_bind_ok_u h; obtain ⟨_, h⟩ := ok?_bind_u h; obtain ⟨_, h⟩ := ok?_bind_u h; exact mkProject_ok hs h
  | dropCols s c ih => intro hs h; unfold projectParsed at h; obtain ⟨_, _, h⟩ := except_bind_ok_u h; obtain ⟨_, h⟩ := ok?_bind_u h; obtain ⟨_, h⟩ := ok?_bind_u h; exact mkProject_ok hs h
  | rename s m ih => intro hs h; unfold projectParsed at h; obtain ⟨_, _, h⟩ := except_bind_ok_u h; obtain ⟨_, h⟩ := ok?_bind_u h; obtain ⟨_, h⟩ := ok?_bind_u h; exact mkProject_ok hs h
  | mapCols s m d ih => intro hs h; unfold projectParsed at h; obtain ⟨_, _, h⟩ := except_bind_ok_u h; obtain ⟨_, h⟩ := ok?_bind_u h; obtain ⟨_, h⟩ := ok?_bind_u h; exact mkProject_ok hs h
  | convert s rm ih => intro hs h; unfold projectParsed at h; obtain ⟨_, _, h⟩ := except_bind_ok_u h; obtain ⟨_, h⟩ := ok?_bind_u h; obtain ⟨_, h⟩ := ok?_bind_u h; exact mkProject_ok hs h
  | join a b oa ob jt iha ihb => intro hs h; unfold projectParsed at h; obtain ⟨_, _, h⟩ := except_bind_ok_u h; obtain ⟨_, h⟩ := ok?_bind_u h; obtain ⟨_, h⟩ := ok?_bind_u h; exact mkProject_ok hs h
  | concat a b idc an bn iha ihb => intro hs h; unfold projectParsed at h; obtain ⟨_, _, h⟩ := except_bind_ok_u h; obtain ⟨_, h⟩ := ok?_bind_u h; obtain ⟨_, h⟩ := ok?_bind_u h; exact mkProject_ok hs h

theorem renameB_ok {m : List (String × String)} {q : Ops} (hk : (m.map (·.1)).Nodup) (self : Ops) :
    AllOK self → renameB self m = .ok q → AllOK q := by
  fun_induction renameB self m with
  | case1 src cs rv m ih => intro hs h; exact ih hk hs.2 h
  | case2 self m _ => intro hs h; exact mkRename_ok hk hs h

theorem mapColsB_ok {m : List (String × Option String)} {q : Ops} (hk : (m.map (·.1)).Nodup) (self : Ops) :
    AllOK self → mapColsB self m = .ok q → AllOK q := by
  fun_induction mapColsB self m with
  | case1 src cs rv m ih => intro hs h; exact ih hk hs.2 h
  | case2 self m _ => intro hs h; exact mkMapCols_ok hk hs h

theorem orderB_ok {cs rv : List String} {lim : Option Nat} {q : Ops} (self : Ops) :
    AllOK self → orderB self cs rv lim = .ok q → AllOK q := by
  fun_induction orderB self cs rv lim with
  | case1 src cs0 rv0 cs rv lim ih => intro hs h; exact ih hs.2 h
  | case2 self cs rv lim _ => intro hs h; exact mkOrder_ok hs h

theorem convertB_ok {rm : RecMap} {q : Ops} (self : Ops) :
    AllOK self → convertB self rm = .ok q → AllOK q := by
  fun_induction convertB self rm with
  | case1 src cs rv rm ih => intro hs h; exact ih hs.2 h
  | case2 self rm _ => intro hs h; exact mkConvert_ok hs h

theorem dropColsB_ok {ds : List String} {q : Ops} (self : Ops) :
    AllOK self → dropColsB self ds = .ok q → AllOK q := by
  fun_induction dropColsB self ds with
  | case1 src cs rv ds ih => intro hs h; exact ih hs.2 h
  | case2 self ds _ => intro hs h; exact mkDropCols_ok hs h

theorem joinB_ok {b : Ops} {oa ob : List String} {jt : String} {chk : Bool} {q : Ops} (hb : AllOK b) (self : Ops) :
    AllOK self → joinB self b oa ob jt chk = .ok q → AllOK q := by
  fun_induction joinB self b oa ob jt chk with
  | case1 src cs rv b oa ob jt chk ih => intro hs h; exact ih hb hs.2 h
  | case2 self b oa ob jt chk _ => intro hs h; exact mkJoin_ok hs hb h

theorem concatB_ok {b : Ops} {idc : Option String} {an bn : String} {q : Ops} (hb : AllOK b) (self : Ops) :
    AllOK self → concatB self b idc an bn = .ok q → AllOK q := by
  fun_induction concatB self b idc an bn with
  | case1 src cs rv b idc an bn ih => intro hs h; exact ih hb hs.2 h
  | case2 self b idc an bn _ => intro hs h; exact mkConcat_ok hs hb h

theorem selectRowsB_ok {e : Term} {q : Ops} (self : Ops) :
    (∀ c ∈ e.colsRaw, c ∈ self.cols) → AllOK self → selectRowsB self e = .ok q → AllOK q := by
  fun_induction selectRowsB self e with
  | case1 src cs rv e ih => intro he hs h; exact ih he hs.2 h
  | case2 self e _ => intro he hs h; cases h; exact ⟨he, hs⟩

theorem selectColsB_ok {cs : List String} {q : Ops} (self : Ops) :
    AllOK self → selectColsB self cs = .ok q → AllOK q := by
  fun_induction selectColsB self cs with
  | case1 src cs0 rv cs ih => intro hs h; exact ih hs.2 h
  | case2 src cs0 cs ih =>
    intro hs h
    obtain ⟨_, h⟩ := ok?_bind_u h
    exact ih hs.2 h
  | case3 src dels cs ih =>
    intro hs h
    obtain ⟨_, h⟩ := ok?_bind_u h
    exact ih hs.2 h
  | case4 self cs _ _ _ => intro hs h; exact mkSelectCols_ok hs h


/-! ### `build` and reachability -/

theorem forIn_ok_u? {α : Type} (P : α → Bool) (e : Err) : ∀ (l : List α) (r : PUnit),
    (forIn l PUnit.unit (fun a _ => do ok? (P a) e; pure (ForInStep.yield PUnit.unit)) : Except Err PUnit) = .ok r →
    ∀ a ∈ l, P a = true
  | [], _, _, _, ha => by cases ha
  | x :: l, r, h, a, ha => by
    rw [List.forIn_cons] at h
    obtain ⟨st, h1, h2⟩ := except_bind_ok_u h
    obtain ⟨hx, h1⟩ := ok?_bind_u h1
    cases h1
    rcases List.mem_cons.mp ha with rfl | ha'
    · exact hx
    · exact forIn_ok_u? P e l r h2 a ha'

theorem parseAssignments_cols {vc : List String} {ops r : Assign} (h : parseAssignments vc ops = .ok r) :
    r = ops ∧ ∀ kv ∈ ops, ∀ c ∈ kv.2.colsRaw, c ∈ vc := by
  unfold parseAssignments at h
  obtain ⟨_, h⟩ := ok?_bind_u h
  obtain ⟨u, h1, h⟩ := except_bind_ok_u h
  obtain ⟨_, h⟩ := ok?_bind_u h
  cases h
  refine ⟨rfl, ?_⟩
  intro kv hkv c hc
  have := forIn_ok_u? (fun kv : String × Term => subset (Term.colsRaw kv.2) vc) Err.nameError ops u h1 kv hkv
  exact subset_iff_u.mp this c hc

/-- argument conditions of a builder call: `b` sides are themselves well built; rename / map_columns arguments are
Python dicts (no repeated key) -/
def StepOK (R : Ops → Prop) : Step → Prop
  | .join b _ _ _ _ => R b
  | .concat (some b) _ _ _ => R b
  | .rename m => (m.map (·.1)).Nodup
  | .mapCols m => (m.map (·.1)).Nodup
  | _ => True

theorem build_ok {self q : Ops} {s : Step} (hs : AllOK self) (hst : StepOK AllOK s) (h : build self s = .ok q) :
    AllOK q := by
  cases s with
  | extend ops partition order reverse =>
    simp only [build] at h
    obtain ⟨parsed, _, h⟩ := except_bind_ok_u h
    exact extendParsed_ok self hs h
  | project ops group =>
    simp only [build] at h
    obtain ⟨parsed, _, h⟩ := except_bind_ok_u h
    exact projectParsed_ok self hs h
  | selectRows e =>
    cases e with
    | none => simp only [build] at h; cases h; exact hs
    | some e =>
      simp only [build] at h
      obtain ⟨r, hp, h⟩ := except_bind_ok_u h
      have := (parseAssignments_cols hp).2 ("expr", e) (by simp)
      exact selectRowsB_ok self this hs h
  | selectCols cs =>
    simp only [build] at h
    obtain ⟨_, h⟩ := ok?_bind_u h
    exact selectColsB_ok self hs h
  | dropCols cs =>
    simp only [build] at h
    split at h
    · cases h; exact hs
    · exact dropColsB_ok self hs h
  | order cs rv lim =>
    simp only [build] at h
    split at h
    · cases h; exact hs
    · exact orderB_ok self hs h
  | rename m =>
    simp only [build] at h
    split at h
    · cases h; exact hs
    · exact renameB_ok hst self hs h
  | mapCols m =>
    simp only [build] at h
    split at h
    · cases h; exact hs
    · exact mapColsB_ok hst self hs h
  | join b oa ob jt chk =>
    simp only [build] at h
    exact joinB_ok hst self hs h
  | concat b idc an bn =>
    cases b with
    | none => simp only [build] at h; cases h; exact hs
    | some b =>
      simp only [build] at h
      exact concatB_ok hst self hs h
  | convert rm =>
    cases rm with
    | none => simp only [build] at h; cases h; exact hs
    | some rm =>
      simp only [build] at h
      exact convertB_ok self hs h

/-- builder calls without a pipeline argument; rename / map_columns arguments are Python dicts (no repeated key) -/
def SimpleStep : Step → Prop
  | .join _ _ _ _ _ => False
  | .concat (some _) _ _ _ => False
  | .rename m => (m.map (·.1)).Nodup
  | .mapCols m => (m.map (·.1)).Nodup
  | _ => True

/-- the pipelines the library can build: table descriptions with distinct column names, closed under the builder
calls (`b` arguments of joins / concats built the same way) -/
inductive ReachableU : Ops → Prop
  | table (k : String) (cs : List String) : cs.Nodup → ReachableU (.table k cs)
  | step {p q : Ops} {s : Step} : ReachableU p → SimpleStep s → build p s = .ok q → ReachableU q
  | join {p b q : Ops} {oa ob : List String} {jt : String} {chk : Bool} : ReachableU p → ReachableU b →
      build p (.join b oa ob jt chk) = .ok q → ReachableU q
  | concat {p b q : Ops} {idc : Option String} {an bn : String} : ReachableU p → ReachableU b →
      build p (.concat (some b) idc an bn) = .ok q → ReachableU q

theorem stepOK_of_simple {s : Step} (h : SimpleStep s) : StepOK AllOK s := by
  cases s with
  | join b oa ob jt chk => exact absurd h (by simp [SimpleStep])
  | concat b idc an bn =>
    cases b with
    | none => trivial
    | some b => exact absurd h (by simp [SimpleStep])
  | rename m => exact h
  | mapCols m => exact h
  | extend _ _ _ _ => trivial
  | project _ _ => trivial
  | selectRows _ => trivial
  | selectCols _ => trivial
  | dropCols _ => trivial
  | order _ _ _ => trivial
  | convert _ => trivial

theorem ReachableU.allOK {p : Ops} (h : ReachableU p) : AllOK p := by
  induction h with
  | table k cs hn => exact hn
  | step _ hst hb ih => exact build_ok ih (stepOK_of_simple hst) hb
  | join _ _ hb ihp ihb => exact build_ok (s := Step.join _ _ _ _ _) ihp ihb hb
  | concat _ _ hb ihp ihb => exact build_ok (s := Step.concat (some _) _ _ _) ihp ihb hb

end DAVerif
