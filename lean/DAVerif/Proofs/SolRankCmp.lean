import DAVerif.Proofs.SqlReach
import DAVerif.Proofs.SolRankSql
import DAVerif.Proofs.SqlEvalI
import DAVerif.Proofs.SqlCongr
/-!
C21, `rank_to_average` for an **arbitrary row comparison**: `Proofs/SolRank.lean` (the Pandas-side proof, about `sem`,
i.e. the comparison `rowLe`: missing values last) ported to `semG le` for every comparison `le` that is a total
lexicographic preorder on the order columns (`CmpLex`: `rowLe`, and the engines' `sqlRowLe ec`).  With stage A of the
translation proof this gives the SQL-side statement **without a guard on missing order keys**: the SQL computes the
mean position of each row's tie group in the engine's own order (`rankSpec (sqlRowLe ec orderBy [])`).

The text follows `Proofs/SolRows.lean` (window positions) and `Proofs/SolRank.lean` lemma by lemma; the definitions that
depend on the comparison carry a `G` (`winSortedG`, `winPosG`, `rk1G`, …).
-/
namespace DAVerif
namespace Sol21Sql
namespace Cmp
open DAVerif.Sql DAVerif.Sol DAVerif.Solutions DAVerif.Spec21

set_option linter.unusedSectionVars false
set_option linter.unusedSimpArgs false
set_option linter.unusedVariables false

/-- a row comparison that is, for every list of order columns, a total preorder which only reads these columns,
compares lexicographically, ties exactly on equal cells, and orders natural numbers as usual -/
structure CmpLex (le : RowCmp) : Prop extends CmpOK le where
  refl : ∀ cs rev r, le cs rev r r = true
  congr : ∀ (cs rev : List String) (a a' b b' : Row), (∀ c ∈ cs, a.get c = a'.get c) → (∀ c ∈ cs, b.get c = b'.get c) →
    le cs rev a b = le cs rev a' b'
  append : ∀ (cs ds rv : List String) (a b : Row),
    le (cs ++ ds) rv a b = if keyOf a cs = keyOf b cs then le ds rv a b else le cs rv a b
  tie : ∀ (cs rv : List String) (a b : Row), (le cs rv a b = true ∧ le cs rv b a = true) ↔ keyOf a cs = keyOf b cs
  singleNum : ∀ (c : String) (a b : Row) (x y : Nat), a.get c = Val.num (x : Nat) → b.get c = Val.num (y : Nat) →
    le [c] [] a b = decide (x ≤ y)

theorem cmpLex_rowLe : CmpLex rowLe where
  toCmpOK := cmpOK_rowLe
  refl := rowLe_refl
  congr := fun _ _ _ _ _ _ ha hb => rowLe_congr ha hb
  append := rowLe_append
  tie := tie_iff_keyOf
  singleNum := rowLe_single_num

/-! ### the window of a row position, for the comparison `le` -/

def winSortedG (le : RowCmp) (p o rv : List String) (rows : List Row) (i : Nat) : List (Row × Nat) :=
  (winPart p rows i).mergeSort (fun a b => le o rv a.1 b.1)

def winPosG (le : RowCmp) (p o rv : List String) (rows : List Row) (i : Nat) : Nat :=
  (winSortedG le p o rv rows i).findIdx (fun rj => rj.2 == i)

def winValG (le : RowCmp) (Θ : Interp) (t : Term) (p o rv : List String) (rows : List Row) (i : Nat) : Val :=
  Θ.win (opName t) (constArgs t) (argValues t ((winSortedG le p o rv rows i).map (·.1))) (winPosG le p o rv rows i)

/-- a windowed `extend` with one assignment, in "one column per position" form -/
theorem semExtendWindowG_single (le : RowCmp) (Θ : Interp) (c : String) (t : Term) (p o rv : List String) (tb : Table)
    (oc : List String) :
    semExtendWindowG le Θ [(c, t)] p o rv tb oc = ⟨oc, addCol oc c (winValG le Θ t p o rv tb.rows) tb.rows⟩ := by
  simp only [semExtendWindowG, addCol]
  congr 1
  apply List.map_congr_left
  rintro ⟨r, i⟩ hri
  obtain ⟨hr, _⟩ := getD_of_mem_zipIdx hri
  simp only [List.map_cons, List.map_nil, setAll_single, winCell, winValG, winPosG, winSortedG, winPart, hr]

section
variable {le : RowCmp}

theorem winSorted_perm (p o rv : List String) (rows : List Row) (i : Nat) :
    (winSortedG le p o rv rows i).Perm (winPart p rows i) := List.mergeSort_perm _ _

theorem winSorted_pairwise (hle : CmpLex le) (p o rv : List String) (rows : List Row) (i : Nat) :
    (winSortedG le p o rv rows i).Pairwise (fun a b => le o rv a.1 b.1 = true) := by
  unfold winSortedG
  exact List.pairwise_mergeSort (le := fun (a b : Row × Nat) => le o rv a.1 b.1)
    (fun a b c h1 h2 => hle.trans o rv a.1 b.1 c.1 h1 h2) (fun a b => hle.total o rv a.1 b.1) _


theorem winPos_lt {p o rv : List String} {rows : List Row} {i : Nat} (h : i < rows.length) :
    winPosG le p o rv rows i < (winSortedG le p o rv rows i).length := by
  apply List.findIdx_lt_length_of_exists
  exact ⟨(rows.getD i [], i), (winSorted_perm p o rv rows i).mem_iff.mpr (self_mem_winPart h), by simp⟩

theorem winSorted_getElem_winPos {p o rv : List String} {rows : List Row} {i : Nat} (h : i < rows.length) :
    (winSortedG le p o rv rows i)[winPosG le p o rv rows i]'(winPos_lt h) = (rows.getD i [], i) := by
  have hlt := winPos_lt (le := le) (p := p) (o := o) (rv := rv) h
  have h2 : ((winSortedG le p o rv rows i)[winPosG le p o rv rows i]'hlt).2 = i := by
    have := List.findIdx_getElem (p := fun (rj : Row × Nat) => rj.2 == i) (xs := winSortedG le p o rv rows i) (w := hlt)
    exact beq_iff_eq.mp this
  have hin : (winSortedG le p o rv rows i)[winPosG le p o rv rows i]'hlt ∈ rows.zipIdx :=
    (mem_winPart.mp ((winSorted_perm p o rv rows i).mem_iff.mp (List.getElem_mem _))).1
  exact zipIdx_snd_inj hin (mem_zipIdx_getD h) h2

theorem winSorted_length (p o rv : List String) (rows : List Row) (i : Nat) :
    (winSortedG le p o rv rows i).length = (winPart p rows i).length := (winSorted_perm p o rv rows i).length_eq

/-- two different positions of the same partition sit at different places of the (common) window -/
theorem winPos_ne {p o rv : List String} {rows : List Row} {i j : Nat} (hi : i < rows.length)
    (hj : j < rows.length) (hk : keyOf (rows.getD i []) p = keyOf (rows.getD j []) p) (hne : i ≠ j) :
    winPosG le p o rv rows i ≠ winPosG le p o rv rows j := by
  intro e
  have hs : winSortedG le p o rv rows i = winSortedG le p o rv rows j := by
    simp only [winSortedG, winPart_eq_of_key hk]
  have h1 := winSorted_getElem_winPos (le := le) (p := p) (o := o) (rv := rv) hi
  have h2 := winSorted_getElem_winPos (le := le) (p := p) (o := o) (rv := rv) hj
  have : (rows.getD i [], i) = (rows.getD j [], j) := by
    rw [← h1, ← h2]
    congr 1
  exact hne (Prod.ext_iff.mp this).2

/-- a row that sorts strictly before another row of its partition stands before it in the window -/
theorem winPos_lt_of_strict (hle : CmpLex le) {p o rv : List String} {rows : List Row} {i j : Nat} (hi : i < rows.length)
    (hj : j < rows.length) (hk : keyOf (rows.getD i []) p = keyOf (rows.getD j []) p)
    (hs : le o rv (rows.getD j []) (rows.getD i []) = false) :
    winPosG le p o rv rows i < winPosG le p o rv rows j := by
  have hne : i ≠ j := by
    intro e; subst e
    rw [hle.refl] at hs; cases hs
  have hs' : winSortedG le p o rv rows i = winSortedG le p o rv rows j := by
    simp only [winSortedG, winPart_eq_of_key hk]
  rcases Nat.lt_trichotomy (winPosG le p o rv rows i) (winPosG le p o rv rows j) with h | h | h
  · exact h
  · exact absurd h (winPos_ne hi hj hk hne)
  · exfalso
    have hpw := winSorted_pairwise hle p o rv rows j
    have hli := winPos_lt (le := le) (p := p) (o := o) (rv := rv) hi
    have hlj := winPos_lt (le := le) (p := p) (o := o) (rv := rv) hj
    have hli' : winPosG le p o rv rows i < (winSortedG le p o rv rows j).length := hs' ▸ hli
    have := (List.pairwise_iff_getElem.mp hpw) _ _ hlj hli' h
    have e1 := winSorted_getElem_winPos (le := le) (p := p) (o := o) (rv := rv) hj
    have e2 : (winSortedG le p o rv rows j)[winPosG le p o rv rows i]'hli' = (rows.getD i [], i) := by
      have := winSorted_getElem_winPos (le := le) (p := p) (o := o) (rv := rv) hi
      simp only [hs'] at this
      exact this
    rw [e1, e2] at this
    simp only at this
    rw [this] at hs
    cases hs

/-! #### position = number of strict predecessors, when the window order is total -/

theorem winPos_eq_countP (hle : CmpLex le) {p o rv : List String} {rows : List Row} {i : Nat} (hi : i < rows.length)
    (htot : ∀ a ∈ winPart p rows i, ∀ b ∈ winPart p rows i,
      le o rv a.1 b.1 = true → le o rv b.1 a.1 = true → a = b) :
    winPosG le p o rv rows i =
      (winPart p rows i).countP (fun y => le o rv y.1 (rows.getD i []) && !le o rv (rows.getD i []) y.1) := by
  have hlt := winPos_lt (le := le) (p := p) (o := o) (rv := rv) hi
  have hget := winSorted_getElem_winPos (le := le) (p := p) (o := o) (rv := rv) hi
  have hperm := winSorted_perm (le := le) p o rv rows i
  rw [← hperm.countP_eq]
  have hpw := winSorted_pairwise hle p o rv rows i
  have hnd : (winSortedG le p o rv rows i).Nodup := hperm.nodup_iff.mpr ((zipIdx_nodup rows).filter _)
  have hanti : ∀ u ∈ winSortedG le p o rv rows i, ∀ v ∈ winSortedG le p o rv rows i,
      le o rv u.1 v.1 = true → le o rv v.1 u.1 = true → u = v :=
    fun u hu v hv => htot u (hperm.mem_iff.mp hu) v (hperm.mem_iff.mp hv)
  exact (countP_strict_at (fun (a b : Row × Nat) => le o rv a.1 b.1) _ _ hlt _ hget hpw hanti hnd).symm


/-- without `order_by` the window is the partition in input order -/
theorem winSorted_nil (hle : CmpLex le) (p rv : List String) (rows : List Row) (i : Nat) :
    winSortedG le p [] rv rows i = winPart p rows i := by
  unfold winSortedG
  apply List.mergeSort_of_pairwise
  apply List.pairwise_of_forall_mem_list
  intro a _ b _
  exact ((hle.tie [] rv a.1 b.1).mpr rfl).1


end

/-! ### the stages -/


/-! ### the three stages as functions of the row position -/

/-- stage 1: the tie-breaking row number of position `j` -/
def rk1G (le : RowCmp) (ob : List String) (rows0 : List Row) (j : Nat) : Nat := winPosG le [] ob [] rows0 j + 1

def rows1G (le : RowCmp) (cols ob : List String) (tb : String) (rows0 : List Row) : List Row :=
  addCol (cols ++ [tb]) tb (fun j => Val.num ((rk1G le ob rows0 j : Nat) : Rat)) rows0

/-- stage 2: position of `j` in its partition ordered by `order_by ++ [tb]` -/
def pos2G (le : RowCmp) (cols ob part : List String) (tb : String) (rows0 : List Row) (j : Nat) : Nat :=
  winPosG le part (ob ++ [tb]) [] (rows1G le cols ob tb rows0) j

def rows2G (le : RowCmp) (cols ob part : List String) (rk tb : String) (rows0 : List Row) : List Row :=
  addCol (cols ++ [tb, rk]) rk (fun j => Val.num ((pos2G le cols ob part tb rows0 j + 1 : Nat) : Rat))
    (rows1G le cols ob tb rows0)

/-- stage 3: the positions of the tie group of `i` -/
def group3G (le : RowCmp) (cols ob part : List String) (rk tb : String) (rows0 : List Row) (i : Nat) : List Nat :=
  (List.range rows0.length).filter (fun j =>
    keyOf ((rows2G le cols ob part rk tb rows0).getD j []) (part ++ ob)
      == keyOf ((rows2G le cols ob part rk tb rows0).getD i []) (part ++ ob))

def val3G (le : RowCmp) (cols ob part : List String) (rk tb : String) (rows0 : List Row) (i : Nat) : Val :=
  Theta.meanV ((group3G le cols ob part rk tb rows0 i).map
    (fun j => Val.num ((pos2G le cols ob part tb rows0 j + 1 : Nat) : Rat)))

def rows3G (le : RowCmp) (cols ob part : List String) (rk tb : String) (rows0 : List Row) : List Row :=
  addCol (cols ++ [tb, rk]) rk (val3G le cols ob part rk tb rows0) (rows2G le cols ob part rk tb rows0)

set_option linter.unusedSectionVars false
section
variable {le : RowCmp} (hle : CmpLex le)
variable {cols ob part : List String} {rk tb : String} (hok : RankOK cols ob part rk tb) (rows0 : List Row)
include hle hok

theorem length_rows1 : (rows1G le cols ob tb rows0).length = rows0.length := by simp [rows1G]
theorem length_rows2 : (rows2G le cols ob part rk tb rows0).length = rows0.length := by simp [rows2G, rows1G]

theorem mem_cols_ne_tb {c : String} (h : c ∈ cols) : c ≠ tb := fun e => hok.tb_new (e ▸ h)
theorem mem_cols_ne_rk {c : String} (h : c ∈ cols) : c ≠ rk := fun e => hok.rank_new (e ▸ h)

theorem get_rows1 {j : Nat} (hj : j < rows0.length) {c : String} (hc : c ∈ cols) :
    ((rows1G le cols ob tb rows0).getD j []).get c = (rows0.getD j []).get c := by
  rw [rows1G, get_addCol _ _ _ _ _ hj (List.mem_append_left _ hc)]
  simp [mem_cols_ne_tb hle hok hc]

theorem get_rows1_tb {j : Nat} (hj : j < rows0.length) :
    ((rows1G le cols ob tb rows0).getD j []).get tb = Val.num ((rk1G le ob rows0 j : Nat) : Rat) := by
  rw [rows1G, get_addCol _ _ _ _ _ hj (by simp)]
  simp

theorem get_rows2 {j : Nat} (hj : j < rows0.length) {c : String} (hc : c ∈ cols) :
    ((rows2G le cols ob part rk tb rows0).getD j []).get c = (rows0.getD j []).get c := by
  rw [rows2G, get_addCol _ _ _ _ _ (by rw [length_rows1 hle hok]; exact hj) (List.mem_append_left _ hc)]
  simp only [mem_cols_ne_rk hle hok hc, if_false]
  exact get_rows1 hle hok rows0 hj hc

theorem get_rows2_rk {j : Nat} (hj : j < rows0.length) :
    ((rows2G le cols ob part rk tb rows0).getD j []).get rk
      = Val.num ((pos2G le cols ob part tb rows0 j + 1 : Nat) : Rat) := by
  rw [rows2G, get_addCol _ _ _ _ _ (by rw [length_rows1 hle hok]; exact hj) (by simp)]
  simp

theorem keyOf_rows1 {j : Nat} (hj : j < rows0.length) {cs : List String} (hcs : ∀ c ∈ cs, c ∈ cols) :
    keyOf ((rows1G le cols ob tb rows0).getD j []) cs = keyOf (rows0.getD j []) cs :=
  Sol.keyOf_congr (fun c hc => get_rows1 hle hok rows0 hj (hcs c hc))

theorem keyOf_rows2 {j : Nat} (hj : j < rows0.length) {cs : List String} (hcs : ∀ c ∈ cs, c ∈ cols) :
    keyOf ((rows2G le cols ob part rk tb rows0).getD j []) cs = keyOf (rows0.getD j []) cs :=
  Sol.keyOf_congr (fun c hc => get_rows2 hle hok rows0 hj (hcs c hc))

theorem part_ob_sub : ∀ c ∈ part ++ ob, c ∈ cols := by
  intro c hc
  rcases List.mem_append.mp hc with h | h
  · exact hok.part_sub c h
  · exact hok.order_sub c h

/-- the tie-breaking numbers of different positions differ -/
theorem rk1_inj {j k : Nat} (hj : j < rows0.length) (hk : k < rows0.length) (h : rk1G le ob rows0 j = rk1G le ob rows0 k) :
    j = k := by
  by_cases e : j = k
  · exact e
  · exfalso
    have := winPos_ne (le := le) (p := []) (o := ob) (rv := []) hj hk rfl e
    simp only [rk1G] at h
    omega

/-- … and increase along `order_by` -/
theorem rk1_lt_of_strict {j k : Nat} (hj : j < rows0.length) (hk : k < rows0.length)
    (h : le ob [] (rows0.getD k []) (rows0.getD j []) = false) : rk1G le ob rows0 j < rk1G le ob rows0 k := by
  have := winPos_lt_of_strict hle (p := []) (o := ob) (rv := []) hj hk rfl h
  simp only [rk1G]
  omega

/-! #### stage 2 -/

/-- same partition / strictly before / tie, on the input rows -/
def sameP (part : List String) (rows0 : List Row) (k j : Nat) : Bool :=
  keyOf (rows0.getD k []) part == keyOf (rows0.getD j []) part
def ltOG (le : RowCmp) (ob : List String) (rows0 : List Row) (k j : Nat) : Bool :=
  le ob [] (rows0.getD k []) (rows0.getD j []) && !le ob [] (rows0.getD j []) (rows0.getD k [])
def tieO (ob : List String) (rows0 : List Row) (k j : Nat) : Bool :=
  keyOf (rows0.getD k []) ob == keyOf (rows0.getD j []) ob

theorem ltO_tieO_excl (k j : Nat) : ¬ (ltOG le ob rows0 k j = true ∧ tieO ob rows0 k j = true) := by
  rintro ⟨h1, h2⟩
  simp only [ltOG, Bool.and_eq_true, Bool.not_eq_true'] at h1
  simp only [tieO, beq_iff_eq] at h2
  have := (hle.tie ob [] _ _).mpr h2
  rw [this.2] at h1
  exact absurd h1.2 (by simp)

theorem strict2_eq {k j : Nat} (hk : k < rows0.length) (hj : j < rows0.length) :
    (le (ob ++ [tb]) [] ((rows1G le cols ob tb rows0).getD k []) ((rows1G le cols ob tb rows0).getD j [])
      && !le (ob ++ [tb]) [] ((rows1G le cols ob tb rows0).getD j []) ((rows1G le cols ob tb rows0).getD k []))
    = (ltOG le ob rows0 k j || (tieO ob rows0 k j && decide (rk1G le ob rows0 k < rk1G le ob rows0 j))) := by
  have ek := keyOf_rows1 hle hok rows0 hk hok.order_sub
  have ej := keyOf_rows1 hle hok rows0 hj hok.order_sub
  have c1 : le ob [] ((rows1G le cols ob tb rows0).getD k []) ((rows1G le cols ob tb rows0).getD j [])
      = le ob [] (rows0.getD k []) (rows0.getD j []) :=
    hle.congr _ _ _ _ _ _ (fun c hc => get_rows1 hle hok rows0 hk (hok.order_sub c hc))
      (fun c hc => get_rows1 hle hok rows0 hj (hok.order_sub c hc))
  have c2 : le ob [] ((rows1G le cols ob tb rows0).getD j []) ((rows1G le cols ob tb rows0).getD k [])
      = le ob [] (rows0.getD j []) (rows0.getD k []) :=
    hle.congr _ _ _ _ _ _ (fun c hc => get_rows1 hle hok rows0 hj (hok.order_sub c hc))
      (fun c hc => get_rows1 hle hok rows0 hk (hok.order_sub c hc))
  have t1 := hle.singleNum tb _ _ _ _ (get_rows1_tb hle hok rows0 hk) (get_rows1_tb hle hok rows0 hj)
  have t2 := hle.singleNum tb _ _ _ _ (get_rows1_tb hle hok rows0 hj) (get_rows1_tb hle hok rows0 hk)
  rw [hle.append, hle.append, ek, ej, c1, c2, t1, t2]
  by_cases ht : keyOf (rows0.getD k []) ob = keyOf (rows0.getD j []) ob
  · have hl : ltOG le ob rows0 k j = false := by
      cases h : ltOG le ob rows0 k j with
      | false => rfl
      | true => exact absurd ⟨h, by simpa [tieO] using ht⟩ (ltO_tieO_excl hle hok rows0 k j)
    have htt : tieO ob rows0 k j = true := by simpa [tieO] using ht
    rw [if_pos ht, if_pos ht.symm, hl, htt]
    simp only [Bool.true_and, Bool.false_or]
    exact decide_le_not_le _ _
  · have ht' : ¬ keyOf (rows0.getD j []) ob = keyOf (rows0.getD k []) ob := fun e => ht e.symm
    have : tieO ob rows0 k j = false := by simpa [tieO] using ht
    rw [if_neg ht, if_neg ht', this]
    simp only [Bool.false_and, Bool.or_false, ltOG]

/-- the window order of stage 2 is total: two positions never tie on `order_by ++ [tb]` -/
theorem total2 (j : Nat) : ∀ a ∈ winPart part (rows1G le cols ob tb rows0) j,
    ∀ b ∈ winPart part (rows1G le cols ob tb rows0) j,
      le (ob ++ [tb]) [] a.1 b.1 = true → le (ob ++ [tb]) [] b.1 a.1 = true → a = b := by
  intro a ha b hb h1 h2
  have ha' := (mem_winPart.mp ha).1
  have hb' := (mem_winPart.mp hb).1
  obtain ⟨ra, ja⟩ := a
  obtain ⟨rb, jb⟩ := b
  obtain ⟨ea, hja⟩ := getD_of_mem_zipIdx ha'
  obtain ⟨eb, hjb⟩ := getD_of_mem_zipIdx hb'
  rw [length_rows1 hle hok] at hja hjb
  have htie := keyOf_eq_iff.mp ((hle.tie (ob ++ [tb]) [] ra rb).mp ⟨h1, h2⟩) tb (by simp)
  rw [← ea, ← eb, get_rows1_tb hle hok rows0 hja, get_rows1_tb hle hok rows0 hjb] at htie
  have : rk1G le ob rows0 ja = rk1G le ob rows0 jb := by
    have := Val.num.inj htie
    exact_mod_cast this
  have := rk1_inj hle hok rows0 hja hjb this
  exact zipIdx_snd_inj ha' hb' this

theorem pos2_eq {j : Nat} (hj : j < rows0.length) :
    pos2G le cols ob part tb rows0 j = (List.range rows0.length).countP (fun k =>
      sameP part rows0 k j && (ltOG le ob rows0 k j || (tieO ob rows0 k j && decide (rk1G le ob rows0 k < rk1G le ob rows0 j)))) := by
  have hj1 : j < (rows1G le cols ob tb rows0).length := by rw [length_rows1 hle hok]; exact hj
  rw [pos2G, winPos_eq_countP hle hj1 (total2 hle hok rows0 j), countP_winPart, length_rows1 hle hok]
  apply countP_congr_mem
  intro k hk
  have hk := List.mem_range.mp hk
  simp only [sameP]
  rw [keyOf_rows1 hle hok rows0 hk hok.part_sub, keyOf_rows1 hle hok rows0 hj hok.part_sub, strict2_eq hle hok rows0 hk hj]

/-! #### stage 3 -/

theorem mem_group3 {i j : Nat} (hi : i < rows0.length) :
    j ∈ group3G le cols ob part rk tb rows0 i ↔
      j < rows0.length ∧ sameP part rows0 j i = true ∧ tieO ob rows0 j i = true := by
  simp only [group3G, List.mem_filter, List.mem_range, beq_iff_eq, sameP, tieO]
  constructor
  · rintro ⟨hj, h⟩
    rw [keyOf_rows2 hle hok rows0 hj (part_ob_sub hle hok), keyOf_rows2 hle hok rows0 hi (part_ob_sub hle hok),
      keyOf_append_eq_iff] at h
    exact ⟨hj, h.1, h.2⟩
  · rintro ⟨hj, h1, h2⟩
    refine ⟨hj, ?_⟩
    rw [keyOf_rows2 hle hok rows0 hj (part_ob_sub hle hok), keyOf_rows2 hle hok rows0 hi (part_ob_sub hle hok),
      keyOf_append_eq_iff]
    exact ⟨h1, h2⟩

theorem group3_pred {i k : Nat} (hi : i < rows0.length) (hk : k < rows0.length) :
    (keyOf ((rows2G le cols ob part rk tb rows0).getD k []) (part ++ ob)
      == keyOf ((rows2G le cols ob part rk tb rows0).getD i []) (part ++ ob))
    = (sameP part rows0 k i && tieO ob rows0 k i) := by
  rw [keyOf_rows2 hle hok rows0 hk (part_ob_sub hle hok), keyOf_rows2 hle hok rows0 hi (part_ob_sub hle hok)]
  rw [Bool.eq_iff_iff]
  simp only [beq_iff_eq, keyOf_append_eq_iff, sameP, tieO, Bool.and_eq_true]

/-- number of rows of the partition of `i` strictly before `i` -/
def lessIG (le : RowCmp) (part ob : List String) (rows0 : List Row) (i : Nat) : Nat :=
  (List.range rows0.length).countP (fun k => sameP part rows0 k i && ltOG le ob rows0 k i)

/-- for a member `j` of the tie group of `i`: strict predecessors of the partition, plus the members of the group
with a smaller tie-breaking number -/
theorem pos2_of_group {i j : Nat} (hi : i < rows0.length) (hj : j ∈ group3G le cols ob part rk tb rows0 i) :
    pos2G le cols ob part tb rows0 j = lessIG le part ob rows0 i +
      ((group3G le cols ob part rk tb rows0 i).map (rk1G le ob rows0)).countP (fun y => decide (y < rk1G le ob rows0 j)) := by
  obtain ⟨hjn, hsp, hti⟩ := (mem_group3 hle hok rows0 hi).mp hj
  simp only [sameP, tieO, beq_iff_eq] at hsp hti
  rw [pos2_eq hle hok rows0 hjn]
  have hpt : ∀ k ∈ List.range rows0.length,
      (sameP part rows0 k j && (ltOG le ob rows0 k j || (tieO ob rows0 k j && decide (rk1G le ob rows0 k < rk1G le ob rows0 j))))
      = ((sameP part rows0 k i && ltOG le ob rows0 k i) ||
          ((sameP part rows0 k i && tieO ob rows0 k i) && decide (rk1G le ob rows0 k < rk1G le ob rows0 j))) := by
    intro k _
    have e1 : sameP part rows0 k j = sameP part rows0 k i := by simp only [sameP, hsp]
    have e2 : tieO ob rows0 k j = tieO ob rows0 k i := by simp only [tieO, hti]
    have hget : ∀ c ∈ ob, (rows0.getD j []).get c = (rows0.getD i []).get c := keyOf_eq_iff.mp hti
    have e3 : ltOG le ob rows0 k j = ltOG le ob rows0 k i := by
      simp only [ltOG]
      rw [hle.congr _ _ _ _ _ _ (fun _ _ => rfl) hget, hle.congr _ _ _ _ _ _ hget (fun _ _ => rfl)]
    rw [e1, e2, e3]
    cases sameP part rows0 k i <;> simp
  rw [countP_congr_mem hpt, countP_or_excl]
  · congr 1
    rw [List.countP_map]
    simp only [group3G]
    rw [List.countP_filter]
    apply countP_congr_mem
    intro k hk
    have hk := List.mem_range.mp hk
    simp only [Function.comp]
    rw [group3_pred hle hok rows0 hi hk, Bool.and_comm]
  · intro k _ ⟨h1, h2⟩
    simp only [Bool.and_eq_true] at h1 h2
    exact ltO_tieO_excl hle hok rows0 k i ⟨h1.2, h2.1.2⟩

theorem group3_tb_nodup (i : Nat) : ((group3G le cols ob part rk tb rows0 i).map (rk1G le ob rows0)).Nodup := by
  have hnd : (group3G le cols ob part rk tb rows0 i).Nodup := List.nodup_range.filter _
  unfold List.Nodup at hnd ⊢
  rw [List.pairwise_map]
  refine List.Pairwise.imp_of_mem ?_ hnd
  intro a b ha hb hab e
  have ha := (List.mem_range.mp (List.mem_filter.mp ha).1)
  have hb := (List.mem_range.mp (List.mem_filter.mp hb).1)
  exact hab (rk1_inj hle hok rows0 ha hb e)

/-- the positions of the tie group of `i` add up to `(less+1) + … + (less+ties)` -/
theorem sum_group3 {i : Nat} (hi : i < rows0.length) :
    ((group3G le cols ob part rk tb rows0 i).map (fun j => pos2G le cols ob part tb rows0 j + 1)).sum
      = ((List.range (group3G le cols ob part rk tb rows0 i).length).map (fun e => lessIG le part ob rows0 i + e + 1)).sum := by
  have h := sum_positions ((group3G le cols ob part rk tb rows0 i).map (rk1G le ob rows0)) (group3_tb_nodup hle hok rows0 i)
    (lessIG le part ob rows0 i)
  rw [List.length_map, List.map_map] at h
  rw [← h]
  congr 1
  apply List.map_congr_left
  intro j hj
  simp only [Function.comp]
  rw [pos2_of_group hle hok rows0 hi hj]

/-! #### the specification's counts, by position -/

theorem lessCount_eq {i : Nat} :
    lessCount (le ob []) part rows0 (rows0.getD i []) = lessIG le part ob rows0 i := by
  rw [lessCount, List.countP_filter, countP_rows]
  apply countP_congr_mem
  intro k _
  rw [Bool.and_comm]
  rfl

theorem tieCount_eq {i : Nat} (hi : i < rows0.length) :
    tieCount (le ob []) part rows0 (rows0.getD i []) = (group3G le cols ob part rk tb rows0 i).length := by
  rw [tieCount, List.countP_filter, countP_rows, group3G, ← List.countP_eq_length_filter]
  apply countP_congr_mem
  intro k hk
  have hk := List.mem_range.mp hk
  rw [group3_pred hle hok rows0 hi hk]
  simp only [samePart, tiesWith, sameP, tieO]
  rw [Bool.and_comm]
  congr 1
  rw [Bool.eq_iff_iff]
  simp only [Bool.and_eq_true, beq_iff_eq]
  exact hle.tie ob [] _ _

/-- **Stage 3 yields the mean position of the tie group.** -/
theorem val3_eq {i : Nat} (hi : i < rows0.length) :
    val3G le cols ob part rk tb rows0 i
      = Val.num (tieGroupMeanRank (le ob []) part rows0 (rows0.getD i [])) := by
  have hne : group3G le cols ob part rk tb rows0 i ≠ [] := by
    intro e
    have : i ∈ group3G le cols ob part rk tb rows0 i :=
      (mem_group3 hle hok rows0 hi).mpr ⟨hi, by simp [sameP], by simp [tieO]⟩
    rw [e] at this
    cases this
  have hmap : (group3G le cols ob part rk tb rows0 i).map
      (fun j => Val.num ((pos2G le cols ob part tb rows0 j + 1 : Nat) : Rat))
      = ((group3G le cols ob part rk tb rows0 i).map (fun j => pos2G le cols ob part tb rows0 j + 1)).map
          (fun x => Val.num ((x : Nat) : Rat)) := by
    rw [List.map_map]; rfl
  rw [val3G, hmap, meanV_nums _ (by simpa using hne), List.length_map, sum_group3 hle hok rows0 hi]
  simp only [tieGroupMeanRank]
  rw [lessCount_eq hle hok rows0, tieCount_eq hle hok rows0 hi]


/-! #### assembling the pipeline -/

theorem get_rows3 {j : Nat} (hj : j < rows0.length) {c : String} (hc : c ∈ cols) :
    ((rows3G le cols ob part rk tb rows0).getD j []).get c = (rows0.getD j []).get c := by
  rw [rows3G, get_addCol _ _ _ _ _ (by rw [length_rows2 hle hok]; exact hj) (List.mem_append_left _ hc)]
  simp only [mem_cols_ne_rk hle hok hc, if_false]
  exact get_rows2 hle hok rows0 hj hc

theorem get_rows3_rk {j : Nat} (hj : j < rows0.length) :
    ((rows3G le cols ob part rk tb rows0).getD j []).get rk = val3G le cols ob part rk tb rows0 j := by
  rw [rows3G, get_addCol _ _ _ _ _ (by rw [length_rows2 hle hok]; exact hj) (by simp)]
  simp

theorem length_rows3 : (rows3G le cols ob part rk tb rows0).length = rows0.length := by
  simp [rows3G, rows2G, rows1G]

/-- the final rows: every input row, in input order, followed by its rank -/
theorem rows3_select (hwf : ∀ r ∈ rows0, r.keys = cols) :
    (rows3G le cols ob part rk tb rows0).map (fun r => r.select (cols ++ [rk]))
      = rows0.map (fun r => r ++ [(rk, Val.num (tieGroupMeanRank (le ob []) part rows0 r))]) := by
  apply List.ext_getElem
  · simp [length_rows3 hle hok]
  · intro i h1 h2
    have hi : i < rows0.length := by simpa using h2
    have hi3 : i < (rows3G le cols ob part rk tb rows0).length := by rw [length_rows3 hle hok]; exact hi
    simp only [List.getElem_map]
    rw [← getD_eq [] hi3, ← getD_eq [] hi, select_append_single, get_rows3_rk hle hok rows0 hi, val3_eq hle hok rows0 hi]
    congr 1
    rw [select_congr (fun c hc => get_rows3 hle hok rows0 hi hc)]
    exact select_self (hwf _ (by rw [getD_eq [] hi]; exact List.getElem_mem _)) hok.nodup

end


/-! ### the three window steps, for every interpretation with `RankSem` -/

section
variable {le : RowCmp} (hle : CmpLex le) {Θ : Interp} (hΘ : RankSem Θ)
variable {cols ob part : List String} {rk tb : String}
include hΘ

theorem stage1 (t : Table) (oc : List String) :
    semExtendWindowG le Θ [(tb, fcall0 "_row_number")] [] ob [] t oc
      = ⟨oc, addCol oc tb (fun j => Val.num ((rk1G le ob t.rows j : Nat) : Rat)) t.rows⟩ := by
  rw [semExtendWindowG_single]
  congr 1
  apply addCol_congr
  intro i _
  simp only [winValG, fcall0, opName, hΘ.rowNumber, rk1G]

theorem stage2 (t : Table) (oc : List String) (o p : List String) :
    semExtendWindowG le Θ [(rk, mcall "cumsum" (.value (.flt 1)))] p o [] t oc
      = ⟨oc, addCol oc rk (fun j => Val.num ((winPosG le p o [] t.rows j + 1 : Nat) : Rat)) t.rows⟩ := by
  rw [semExtendWindowG_single]
  congr 1
  apply addCol_congr
  intro i hi
  simp only [winValG]
  have h1 : opName (mcall "cumsum" (.value (.flt 1))) = "cumsum" := rfl
  have h2 : constArgs (mcall "cumsum" (.value (.flt 1))) = [] := rfl
  have h3 : ∀ rows : List Row, argValues (mcall "cumsum" (.value (.flt 1))) rows
      = List.replicate rows.length (Val.num 1) := by
    intro rows
    simp only [argValues, mcall, Lit.toVal]
    exact List.map_const' ..
  rw [h1, h2, h3]
  apply hΘ.cumsumOnes
  rw [List.length_map]
  exact winPos_lt (le := le) hi

include hle in
theorem stage3 (t : Table) (oc : List String) (p : List String) :
    semExtendWindowG le Θ [(rk, mcall "mean" (.col rk))] p [] [] t oc
      = ⟨oc, addCol oc rk (fun i => Theta.meanV
          (((List.range t.rows.length).filter (fun j => keyOf (t.rows.getD j []) p == keyOf (t.rows.getD i []) p)).map
            (fun j => (t.rows.getD j []).get rk))) t.rows⟩ := by
  rw [semExtendWindowG_single]
  congr 1
  apply addCol_congr
  intro i _
  simp only [winValG]
  have : opName (mcall "mean" (.col rk)) = "mean" := rfl
  rw [this, hΘ.mean, winSorted_nil hle]
  congr 1
  have : ∀ rows : List Row, argValues (mcall "mean" (.col rk)) rows = rows.map (fun r => r.get rk) := fun _ => rfl
  rw [this, List.map_map, map_winPart]
  rfl

include hle in
/-- **`semG le` of the tree built by `rank_to_average`**, for every comparison `le` with `CmpLex`, every interpretation
with `RankSem`, every view `d` that evaluates to a well-formed table: the input rows in input order, each followed by
the mean position of its tie group **in the order `le order_by []`**. -/
theorem semG_rankTree (cfg : SemCfg) (env : Env) (d : Ops) (t : Table) (hok : RankOK d.cols ob part rk tb)
    (hd : semG le Θ cfg env d = .ok t) (hwf : ∀ r ∈ t.rows, r.keys = d.cols) :
    semG le Θ cfg env (rankTree d ob part rk tb)
      = .ok ⟨d.cols ++ [rk],
          t.rows.map (fun r => r ++ [(rk, Val.num (tieGroupMeanRank (le ob []) part t.rows r))])⟩ := by
  have hc1 : appendNew d.cols [tb] = d.cols ++ [tb] := appendNew_single hok.tb_new
  have hc2 : appendNew (d.cols ++ [tb]) [rk] = d.cols ++ [tb, rk] := by
    rw [appendNew_single]
    · simp
    · simp only [List.mem_append, List.mem_singleton, not_or]
      exact ⟨hok.rank_new, hok.rank_ne_tb⟩
  have hc3 : appendNew (d.cols ++ [tb, rk]) [rk] = d.cols ++ [tb, rk] :=
    appendNew_single_mem (by simp)
  have hc4 : (d.cols ++ [tb, rk]).filter (fun c => !([tb].contains c)) = d.cols ++ [rk] := by
    rw [List.filter_append]
    have h1 : d.cols.filter (fun c => !([tb].contains c)) = d.cols := by
      rw [List.filter_eq_self]
      intro c hc
      have : c ≠ tb := fun e => hok.tb_new (e ▸ hc)
      simp [this]
    have h2 : ([tb, rk].filter (fun c => !([tb].contains c))) = [rk] := by
      simp [List.filter_cons, hok.rank_ne_tb]
    rw [h1, h2]
  simp only [rankTree, semG, hd, bind, Except.bind, Ops.cols, List.map_cons, List.map_nil, hc1, hc2, hc3, hc4,
    pure, Except.pure, if_true]
  rw [stage1 hΘ, stage2 hΘ, stage3 hle hΘ]
  simp only [Table.selectCols]
  congr 2
  have e1 : addCol (d.cols ++ [tb]) tb (fun j => Val.num ((rk1G le ob t.rows j : Nat) : Rat)) t.rows
      = rows1G le d.cols ob tb t.rows := rfl
  have e2 : addCol (d.cols ++ [tb, rk]) rk
      (fun j => Val.num ((winPosG le part (ob ++ [tb]) [] (rows1G le d.cols ob tb t.rows) j + 1 : Nat) : Rat))
      (rows1G le d.cols ob tb t.rows) = rows2G le d.cols ob part rk tb t.rows := rfl
  rw [e1, e2]
  have e3 : addCol (d.cols ++ [tb, rk]) rk (fun i => Theta.meanV
      (((List.range (rows2G le d.cols ob part rk tb t.rows).length).filter (fun j =>
          keyOf ((rows2G le d.cols ob part rk tb t.rows).getD j []) (part ++ ob)
            == keyOf ((rows2G le d.cols ob part rk tb t.rows).getD i []) (part ++ ob))).map
        (fun j => ((rows2G le d.cols ob part rk tb t.rows).getD j []).get rk))) (rows2G le d.cols ob part rk tb t.rows)
      = rows3G le d.cols ob part rk tb t.rows := by
    rw [rows3G]
    apply addCol_congr
    intro i _
    rw [val3G, group3G, length_rows2 hle hok]
    congr 1
    apply List.map_congr_left
    intro j hj
    exact get_rows2_rk hle hok t.rows (List.mem_range.mp (List.mem_filter.mp hj).1)
  rw [e3]
  exact rows3_select hle hok t.rows hwf

end

/-! ### the engines' comparison is a `CmpLex` -/

theorem sqlRowLe_refl (ec : EngineCfg) (cs rev : List String) (r : Row) : sqlRowLe ec cs rev r r = true := by
  induction cs with
  | nil => rfl
  | cons c cs ih => simp [sqlRowLe, ih]

theorem sqlRowLe_append (ec : EngineCfg) (cs ds rv : List String) (a b : Row) :
    sqlRowLe ec (cs ++ ds) rv a b
      = if keyOf a cs = keyOf b cs then sqlRowLe ec ds rv a b else sqlRowLe ec cs rv a b := by
  induction cs with
  | nil => simp [keyOf, Row.vals]
  | cons c cs ih =>
    simp only [List.cons_append, sqlRowLe]
    by_cases h : a.get c = b.get c
    · have hb : (a.get c == b.get c) = true := by simpa using h
      simp only [hb, if_true, ih]
      have : (keyOf a (c :: cs) = keyOf b (c :: cs)) ↔ (keyOf a cs = keyOf b cs) := by
        simp [keyOf, Row.vals, h]
      by_cases hk : keyOf a cs = keyOf b cs
      · simp [hk, this.mpr hk]
      · have : ¬ keyOf a (c :: cs) = keyOf b (c :: cs) := fun e => hk (this.mp e)
        simp [hk, this]
    · have hb : (a.get c == b.get c) = false := by simpa using h
      have : ¬ keyOf a (c :: cs) = keyOf b (c :: cs) := by
        simp [keyOf, Row.vals, h]
      simp [hb, this]

theorem sqlRowLe_tie_iff (ec : EngineCfg) (cs rev : List String) (a b : Row) :
    (sqlRowLe ec cs rev a b = true ∧ sqlRowLe ec cs rev b a = true) ↔ ∀ c ∈ cs, a.get c = b.get c := by
  induction cs with
  | nil => simp [sqlRowLe]
  | cons k cs ih =>
    simp only [sqlRowLe, beq_iff_eq, List.mem_cons, forall_eq_or_imp]
    by_cases e : a.get k = b.get k
    · simp only [e, if_true, true_and]
      exact ih
    · have e' : ¬ b.get k = a.get k := fun h => e h.symm
      simp only [e, e', if_false, false_and, iff_false]
      intro h
      exact e (sqlCellLe_antisymm h.1 h.2)

theorem sqlRowLe_single_num (ec : EngineCfg) (c : String) (a b : Row) (x y : Nat) (ha : a.get c = Val.num (x : Nat))
    (hb : b.get c = Val.num (y : Nat)) : sqlRowLe ec [c] [] a b = decide (x ≤ y) := by
  simp only [sqlRowLe, ha, hb, sqlCellLe, Val.isNull, List.contains_nil, Bool.false_eq_true, if_false]
  by_cases h : x = y
  · subst h; simp
  · have hb : (Val.num (x : Nat) == Val.num (y : Nat)) = false := by
      simp only [beq_eq_false_iff_ne, ne_eq, Val.num.injEq]
      intro e; exact h (by exact_mod_cast e)
    simp only [hb, Bool.false_eq_true, if_false, Val.lt]
    by_cases hxy : x ≤ y
    · have : ¬ ((y : Rat) < (x : Rat)) := by
        intro e; have : y < x := by exact_mod_cast e
        omega
      simp [hxy, this]
    · have : ((y : Rat) < (x : Rat)) := by
        have : y < x := by omega
        exact_mod_cast this
      simp [hxy, this]

theorem cmpLex_sql (ec : EngineCfg) : CmpLex (sqlRowLe ec) where
  toCmpOK := cmpOK_sql ec
  refl := sqlRowLe_refl ec
  congr := fun _ _ _ _ _ _ ha hb => sqlRowLe_congr ec ha hb
  append := sqlRowLe_append ec
  tie := fun cs rv a b => by rw [sqlRowLe_tie_iff, keyOf_eq_iff]
  singleNum := sqlRowLe_single_num ec

/-! ### the SQL of `rank_to_average`, no guard -/

/-- **`rank_to_average` on SQL, every input.**  Stage A of the translation proof (no hypothesis on data) composed with
`semG_rankTree` for the engine's comparison: the query evaluates to the input rows, in input order, each with the mean
position of its tie group in the engine's own order of `order_by` (`sqlRowLe ec`: NULL first on SQLite). -/
theorem rank_sql_full (Θ : Interp) (hΘ : RankSem Θ) (ec : EngineCfg) (env : Env) (cfg : SqlCfg)
    {name : String} {cols orderBy : List String} {partitionBy : Option (List String)} {rankCol tbCol : String}
    {p : Ops} {t0 : Table} {q : Near}
    (hbuild : rankToAverage (.table name cols) orderBy partitionBy rankCol tbCol = .ok p)
    (henv : env.lookup name = some t0) (hsub : subset cols t0.cols = true) (hq : toNearSql cfg p = .ok q) :
    ∃ T, semSql Θ ec env q = .ok T ∧
      T.EqS (rankSpec (sqlRowLe ec orderBy []) (partitionBy.getD []) rankCol (t0.selectCols cols)) := by
  have hr := rank_reachable hbuild
  obtain ⟨rfl, hok⟩ := rankToAverage_ok (plain_table ..) (by intro _ _ _ _ _ _ e; cases e) hbuild
  have hok : RankOK cols orderBy (partitionBy.getD []) rankCol tbCol := hok
  obtain ⟨T, tp, h1, h2, h3, h4, h5⟩ := C01_translation_engine_order_merges Θ ec env cfg _ (rank_frag ..)
    (C26_reachable_wf hr) (C01_reachable_sqlwf hr) (rank_maps ..) (rank_envOK _ _ _ _ henv hsub) hq
  have hd : semG (sqlRowLe ec) Θ SemCfg.ref env (.table name cols) = .ok (t0.selectCols cols) := by
    simp only [semG, henv, hsub, if_true]
  have hs := semG_rankTree (cmpLex_sql ec) hΘ SemCfg.ref env (.table name cols) (t0.selectCols cols) hok hd
    (Table.wf_selectCols _ _)
  have h2' : semG (sqlRowLe ec) Θ SemCfg.ref env
      (rankTree (.table name cols) orderBy (partitionBy.getD []) rankCol tbCol) = .ok tp := h2
  rw [hs] at h2'
  cases h2'
  refine ⟨T, h1, ?_, ?_⟩
  · intro c
    rw [h4 c, ← h3]
    exact Iff.rfl
  · show T.rows.map (fun r => r.select (cols ++ [rankCol])) = _
    have h3' : (cols ++ [rankCol]) = (rankTree (.table name cols) orderBy (partitionBy.getD []) rankCol tbCol).cols := h3
    rw [h3', h5]
    rfl

end Cmp
end Sol21Sql
end DAVerif
