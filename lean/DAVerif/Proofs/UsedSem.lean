import DAVerif.Proofs.UsedNodes
/-!
C10, pipeline level.

* `UsedWF` – the structural well-formedness the soundness of `columns_used` needs (a windowed extend does not
  assign its partition/order columns; rename / map_columns mappings are invertible on the source columns).  Every
  pipeline built by the builders has it (`Proofs/UsedReach.lean`).
* what `usedFromSources` returns per node kind (`used_*` lemmas),
* `columnsUsedAux` only ever grows the accumulation records,
* narrowing never adds a column (`narrow_cols_subset`),
* the main induction `sem_narrow_agree`: evaluating `p` in `env` and the narrowed `p` in `env'` gives outcomes that
  agree on the requested columns, provided the table scans do.
-/
namespace DAVerif
open Ops

/-! ### Except plumbing -/

theorem except_bind_ok_u {α β : Type} {x : Except Err α} {f : α → Except Err β} {r : β}
    (h : (x >>= f) = .ok r) : ∃ a, x = .ok a ∧ f a = .ok r := by
  cases x with
  | error e => cases h
  | ok a => exact ⟨a, rfl, h⟩

theorem ok?_bind_u {β : Type} {c : Bool} {e : Err} {k : Unit → Except Err β} {r : β}
    (h : (ok? c e >>= k) = .ok r) : c = true ∧ k () = .ok r := by
  cases c with
  | false => cases h
  | true => exact ⟨rfl, h⟩

theorem ResAgree.refl (u : List String) (x : Except Err Table) : ResAgree u x x := by
  cases x with
  | error e => rfl
  | ok t => exact forall₂_refl_of (fun _ _ _ => rfl) _

theorem ResAgree.mono {u u' : List String} {x y : Except Err Table} (h : ResAgree u x y)
    (hs : ∀ c ∈ u', c ∈ u) : ResAgree u' x y := by
  cases x <;> cases y <;> simp only [ResAgree] at h ⊢
  · exact h
  · exact RowsAgree.mono h hs

theorem ResAgree.bind {v u : List String} {x y : Except Err Table} {F G : Table → Except Err Table}
    (h : ResAgree v x y)
    (hFG : ∀ t t', x = .ok t → y = .ok t' → RowsAgree v t.rows t'.rows → ResAgree u (F t) (G t')) :
    ResAgree u (x >>= F) (y >>= G) := by
  cases x <;> cases y <;> simp only [ResAgree] at h
  · subst h; rfl
  · exact hFG _ _ rfl rfl h

theorem ResAgree.ok_iff {u : List String} {t t' : Table} :
    ResAgree u (.ok t) (.ok t') ↔ RowsAgree u t.rows t'.rows := Iff.rfl

/-! ### well-formedness needed by C10 -/

/-- `rename_columns` new ↦ old pairs `m`: the forward renaming of a source column -/
def renFwd (m : List (String × String)) (c : String) : String :=
  (lookupLast (m.map (fun kv => (kv.2, kv.1))) c).getD c
/-- … and the column a result column comes from -/
def renBack (m : List (String × String)) (c : String) : String := (lookupLast m c).getD c

def UsedWF : Ops → Prop
  | .table _ _ => True
  | .extend s ops part od _ w =>
    UsedWF s ∧ (w = true → disjoint (ops.map (·.1)) (part ++ od) = true)
  | .project s _ _ | .selectRows s _ | .selectCols s _ | .dropCols s _ | .order s _ _ _ | .convert s _ => UsedWF s
  | .rename s m => UsedWF s ∧ ∀ k ∈ s.cols, renBack m (renFwd m k) = k
  | .mapCols s m dels =>
    UsedWF s ∧ ∀ k ∈ s.cols, k ∉ dels → renFwd m (renBack m k) = k
  | .join a b _ _ _ | .concat a b _ _ _ => UsedWF a ∧ UsedWF b

/-- the record transform reads only the columns it declares as needed -/
def ConvertLocal (Θ : Interp) : Prop :=
  ∀ rm t t', RowsAgree rm.needed t.rows t'.rows → Θ.convert rm t = Θ.convert rm t'

/-! ### accumulation records -/

/-- column `c` of table `k` is listed by the record `acc` -/
def Covers (acc : Used) (k c : String) : Prop := ∃ us, (k, us) ∈ acc ∧ c ∈ us

/-- every entry of `acc` is contained in an entry of `acc'` for the same table -/
def UsedLe (acc acc' : Used) : Prop := ∀ k us, (k, us) ∈ acc → ∃ us', (k, us') ∈ acc' ∧ ∀ c ∈ us, c ∈ us'

theorem UsedLe.refl (acc : Used) : UsedLe acc acc := fun _ us h => ⟨us, h, fun _ hc => hc⟩

theorem UsedLe.trans {a b c : Used} (h1 : UsedLe a b) (h2 : UsedLe b c) : UsedLe a c := by
  intro k us h
  obtain ⟨us', h', hs⟩ := h1 k us h
  obtain ⟨us'', h'', hs'⟩ := h2 k us' h'
  exact ⟨us'', h'', fun c hc => hs' c (hs c hc)⟩

theorem UsedLe.covers {acc acc' : Used} (h : UsedLe acc acc') {k c : String} (hc : Covers acc k c) :
    Covers acc' k c := by
  obtain ⟨us, hm, hcu⟩ := hc
  obtain ⟨us', hm', hs⟩ := h k us hm
  exact ⟨us', hm', hs c hcu⟩

theorem usedLe_add (acc : Used) (k : String) (cs : List String) : UsedLe acc (acc.add k cs) := by
  intro k1 us h
  unfold Used.add
  split
  · by_cases e : k1 == k
    · refine ⟨unionL us cs, ?_, fun c hc => mem_unionL.mpr (.inl hc)⟩
      apply List.mem_map.mpr
      exact ⟨(k1, us), h, by simp [e]⟩
    · refine ⟨us, ?_, fun c hc => hc⟩
      apply List.mem_map.mpr
      exact ⟨(k1, us), h, by simp [e]⟩
  · exact ⟨us, List.mem_append_left _ h, fun c hc => hc⟩

theorem covers_add (acc : Used) (k : String) (cs : List String) {c : String} (hc : c ∈ cs) :
    Covers (acc.add k cs) k c := by
  unfold Used.add
  split
  · rename_i hany
    obtain ⟨kv, hkv, hk⟩ := List.any_eq_true.mp hany
    have e : kv.1 = k := by simpa using hk
    refine ⟨unionL kv.2 cs, ?_, mem_unionL.mpr (.inr hc)⟩
    apply List.mem_map.mpr
    exact ⟨kv, hkv, by simp [e]⟩
  · exact ⟨cs, List.mem_append_right _ (List.mem_singleton.mpr rfl), hc⟩

/-! ### what `usedFromSources` returns -/

theorem mem_filter_contains {l u : List String} {c : String} :
    c ∈ l.filter (fun x => u.contains x) ↔ c ∈ l ∧ c ∈ u := by
  simp [List.mem_filter]

theorem mem_filter_not_contains {l u : List String} {c : String} :
    c ∈ l.filter (fun x => !u.contains x) ↔ c ∈ l ∧ c ∉ u := by
  simp [List.mem_filter]

/-- extend: the single source request `v` lies inside the source columns and contains (as far as they are source
columns) the requested pass-through columns, the partition/order columns not assigned by a requested op, and
the columns read by requested ops -/
theorem used_extend (s : Ops) (ops : Assign) (part od rv : List String) (w : Bool) (u : List String) :
    ∃ v, usedFromSources (.extend s ops part od rv w) u = [v] ∧ (∀ c ∈ v, c ∈ s.cols) ∧
      (∀ c, c ∈ s.cols → (c ∈ u ∨ c ∈ part ∨ c ∈ od) →
        c ∉ (ops.filter (fun kv => u.contains kv.1)).map (·.1) → c ∈ v) ∧
      (∀ kv ∈ ops, kv.1 ∈ u → ∀ c ∈ kv.2.colsRaw, c ∈ s.cols → c ∈ v) := by
  simp only [usedFromSources]
  split
  · rename_i hemp
    refine ⟨_, rfl, fun c hc => hc, fun c hc _ _ => hc, fun kv hkv hk c _ hc => hc⟩
  · refine ⟨_, rfl, fun c hc => (List.mem_filter.mp hc).1, ?_, ?_⟩
    · intro c hc h3 hn
      rw [mem_filter_contains]
      refine ⟨hc, mem_unionL.mpr (.inl ?_)⟩
      rw [mem_filter_not_contains]
      refine ⟨?_, hn⟩
      rcases h3 with h | h | h
      · exact mem_unionL.mpr (.inl (mem_unionL.mpr (.inl (mem_unionL.mpr (.inl h)))))
      · exact mem_unionL.mpr (.inl (mem_unionL.mpr (.inl (mem_unionL.mpr (.inr h)))))
      · exact mem_unionL.mpr (.inl (mem_unionL.mpr (.inr h)))
    · intro kv hkv hk c hc hcs
      rw [mem_filter_contains]
      refine ⟨hcs, mem_unionL.mpr (.inr (mem_colsUsedOps_u.mpr ⟨kv, ?_, hc⟩))⟩
      exact List.mem_filter.mpr ⟨hkv, by simpa using hk⟩

theorem mem_keys_filter {ops : Assign} {u : List String} {c : String}
    (h : c ∈ (ops.filter (fun kv => u.contains kv.1)).map (·.1)) : c ∈ ops.map (·.1) ∧ c ∈ u := by
  obtain ⟨kv, hkv, rfl⟩ := List.mem_map.mp h
  obtain ⟨h1, h2⟩ := List.mem_filter.mp hkv
  exact ⟨List.mem_map.mpr ⟨kv, h1, rfl⟩, by simpa using h2⟩

/-! ### `column_names` facts -/

theorem appendNew_prefix (xs ys : List String) : ∃ zs, appendNew xs ys = xs ++ zs := by
  unfold appendNew
  induction ys generalizing xs with
  | nil => exact ⟨[], by simp⟩
  | cons y ys ih =>
    simp only [List.foldl_cons]
    split
    · exact ih xs
    · obtain ⟨zs, hz⟩ := ih (xs ++ [y])
      exact ⟨[y] ++ zs, by rw [hz, List.append_assoc]⟩

theorem mem_join_cols (a b : Ops) (oa ob : List String) (jt : JoinType) (c : String) :
    c ∈ (Ops.join a b oa ob jt).cols ↔ c ∈ a.cols ∨ c ∈ b.cols := by
  simp only [Ops.cols]
  split
  · rename_i hlen
    obtain ⟨zs, hz⟩ := appendNew_prefix a.cols b.cols
    have hl : (appendNew a.cols b.cols).length = a.cols.length := by simpa using hlen
    rw [hz, List.length_append] at hl
    have : zs = [] := List.eq_nil_of_length_eq_zero (by omega)
    subst this
    have hm := @mem_appendNew_u a.cols b.cols c
    rw [hz, List.append_nil] at hm
    constructor
    · exact fun h => .inl h
    · exact fun h => hm.mpr h
  · split
    · rename_i hset
      simp only [Bool.and_eq_true, List.all_eq_true, List.contains_eq_mem, decide_eq_true_eq] at hset
      constructor
      · exact fun h => .inr h
      · intro h
        exact hset.2 c (mem_appendNew_u.mpr h)
    · exact mem_appendNew_u

theorem narrow_cols_subset (V : String → List String → List String)
    (hV : ∀ k cs c, c ∈ V k cs → c ∈ cs) : ∀ (p : Ops) (c : String), c ∈ (narrowWith V p).cols → c ∈ p.cols := by
  intro p
  induction p with
  | table k cs => intro c h; exact hV k cs c h
  | extend s ops part od rv w ih =>
    intro c h
    simp only [narrowWith, Ops.cols] at h ⊢
    rcases mem_appendNew_u.mp h with h | h
    · exact mem_appendNew_u.mpr (.inl (ih c h))
    · exact mem_appendNew_u.mpr (.inr h)
  | project s ops g ih => intro c h; exact h
  | selectRows s e ih => intro c h; exact ih c h
  | selectCols s cs ih => intro c h; exact h
  | dropCols s ds ih =>
    intro c h
    simp only [narrowWith, Ops.cols] at h ⊢
    rw [mem_filter_not_contains] at h ⊢
    exact ⟨ih c h.1, h.2⟩
  | order s cs rv lim ih => intro c h; exact ih c h
  | rename s m ih =>
    intro c h
    simp only [narrowWith, Ops.cols] at h ⊢
    obtain ⟨k, hk, rfl⟩ := List.mem_map.mp h
    exact List.mem_map.mpr ⟨k, ih k hk, rfl⟩
  | mapCols s m ds ih =>
    intro c h
    simp only [narrowWith, Ops.cols] at h ⊢
    obtain ⟨k, hk, rfl⟩ := List.mem_map.mp h
    rw [mem_filter_not_contains] at hk
    exact List.mem_map.mpr ⟨k, mem_filter_not_contains.mpr ⟨ih k hk.1, hk.2⟩, rfl⟩
  | join a b oa ob jt iha ihb =>
    intro c h
    simp only [narrowWith] at h
    rw [mem_join_cols] at h ⊢
    exact h.imp (iha c) (ihb c)
  | concat a b idc an bn iha ihb =>
    intro c h
    simp only [narrowWith, Ops.cols] at h ⊢
    cases idc with
    | none => exact iha c h
    | some i =>
      simp only [List.mem_append, List.mem_singleton] at h ⊢
      exact h.imp (iha c) id
  | convert s rm ih => intro c h; exact h

/-! ### runs of the report computation

`Run p u acc acc'`: the records `acc'` result from `acc` by a traversal of `p` that, at every node, may enlarge the
request it received (inside the node's columns) before asking the sources – what the implementation does when a
node object is shared (its record accumulates the requests of all its users, and the accumulated record is what is
passed to `columns_used_from_sources`).  `columnsUsedAux` is the run that never enlarges. -/

def Run : Ops → List String → Used → Used → Prop
  | .table k cs, u, acc, acc' => (∀ c ∈ u, c ∈ cs) ∧ acc' = acc.add k u
  | n@(.extend s _ _ _ _ _), u, acc, acc' | n@(.project s _ _), u, acc, acc' | n@(.selectRows s _), u, acc, acc'
  | n@(.selectCols s _), u, acc, acc' | n@(.dropCols s _), u, acc, acc' | n@(.order s _ _ _), u, acc, acc'
  | n@(.rename s _), u, acc, acc' | n@(.mapCols s _ _), u, acc, acc' | n@(.convert s _), u, acc, acc' =>
    ∃ u', (∀ c ∈ u, c ∈ u') ∧ (∀ c ∈ u', c ∈ n.cols) ∧ Run s ((usedFromSources n u').headD []) acc acc'
  | n@(.join a b _ _ _), u, acc, acc' | n@(.concat a b _ _ _), u, acc, acc' =>
    ∃ u' acc1, (∀ c ∈ u, c ∈ u') ∧ (∀ c ∈ u', c ∈ n.cols) ∧
      Run a ((usedFromSources n u').headD []) acc acc1 ∧ Run b (((usedFromSources n u').drop 1).headD []) acc1 acc'

theorem weaken_goal {u0 u cols : List String} {x y : Except Err Table} (hle : ∀ c ∈ u0, c ∈ u)
    (h : (∀ c ∈ u, c ∈ cols) ∧ ResAgree u x y) : (∀ c ∈ u0, c ∈ cols) ∧ ResAgree u0 x y :=
  ⟨fun c hc => h.1 c (hle c hc), h.2.mono hle⟩

/-! ### `columnsUsedAux` only grows the records -/

theorem run_mono : ∀ (p : Ops) (u : List String) (acc acc' : Used), Run p u acc acc' → UsedLe acc acc' := by
  intro p
  induction p with
  | table k cs =>
    intro u acc acc' h
    simp only [Run] at h
    rw [h.2]
    exact usedLe_add acc k u
  | extend s ops part od rv w ih =>
    intro u acc acc' h
    simp only [Run] at h
    obtain ⟨u', _, _, h⟩ := h
    exact ih _ _ _ h
  | project s ops g ih =>
    intro u acc acc' h
    simp only [Run] at h
    obtain ⟨u', _, _, h⟩ := h
    exact ih _ _ _ h
  | selectRows s e ih =>
    intro u acc acc' h
    simp only [Run] at h
    obtain ⟨u', _, _, h⟩ := h
    exact ih _ _ _ h
  | selectCols s cs ih =>
    intro u acc acc' h
    simp only [Run] at h
    obtain ⟨u', _, _, h⟩ := h
    exact ih _ _ _ h
  | dropCols s ds ih =>
    intro u acc acc' h
    simp only [Run] at h
    obtain ⟨u', _, _, h⟩ := h
    exact ih _ _ _ h
  | order s cs rv lim ih =>
    intro u acc acc' h
    simp only [Run] at h
    obtain ⟨u', _, _, h⟩ := h
    exact ih _ _ _ h
  | rename s m ih =>
    intro u acc acc' h
    simp only [Run] at h
    obtain ⟨u', _, _, h⟩ := h
    exact ih _ _ _ h
  | mapCols s m ds ih =>
    intro u acc acc' h
    simp only [Run] at h
    obtain ⟨u', _, _, h⟩ := h
    exact ih _ _ _ h
  | convert s rm ih =>
    intro u acc acc' h
    simp only [Run] at h
    obtain ⟨u', _, _, h⟩ := h
    exact ih _ _ _ h
  | join a b oa ob jt iha ihb =>
    intro u acc acc' h
    simp only [Run] at h
    obtain ⟨u', acc1, _, _, h1, h2⟩ := h
    exact (iha _ _ _ h1).trans (ihb _ _ _ h2)
  | concat a b idc an bn iha ihb =>
    intro u acc acc' h
    simp only [Run] at h
    obtain ⟨u', acc1, _, _, h1, h2⟩ := h
    exact (iha _ _ _ h1).trans (ihb _ _ _ h2)

/-- the computation of the model is a run (the one that never enlarges a request) -/
theorem run_of_aux : ∀ (p : Ops) (u : List String) (acc acc' : Used),
    columnsUsedAux p u acc = .ok acc' → Run p u acc acc' := by
  intro p
  induction p with
  | table k cs =>
    intro u acc acc' h
    simp only [columnsUsedAux] at h
    obtain ⟨hs, h⟩ := ok?_bind_u h
    cases h
    exact ⟨subset_iff_u.mp hs, rfl⟩
  | extend s ops part od rv w ih =>
    intro u acc acc' h
    simp only [columnsUsedAux] at h
    obtain ⟨hs, h⟩ := ok?_bind_u h
    simp only [Run]
    exact ⟨u, fun _ hc => hc, subset_iff_u.mp hs, ih _ _ _ h⟩
  | project s ops g ih =>
    intro u acc acc' h
    simp only [columnsUsedAux] at h
    obtain ⟨hs, h⟩ := ok?_bind_u h
    simp only [Run]
    exact ⟨u, fun _ hc => hc, subset_iff_u.mp hs, ih _ _ _ h⟩
  | selectRows s e ih =>
    intro u acc acc' h
    simp only [columnsUsedAux] at h
    obtain ⟨hs, h⟩ := ok?_bind_u h
    simp only [Run]
    exact ⟨u, fun _ hc => hc, subset_iff_u.mp hs, ih _ _ _ h⟩
  | selectCols s cs ih =>
    intro u acc acc' h
    simp only [columnsUsedAux] at h
    obtain ⟨hs, h⟩ := ok?_bind_u h
    simp only [Run]
    exact ⟨u, fun _ hc => hc, subset_iff_u.mp hs, ih _ _ _ h⟩
  | dropCols s ds ih =>
    intro u acc acc' h
    simp only [columnsUsedAux] at h
    obtain ⟨hs, h⟩ := ok?_bind_u h
    simp only [Run]
    exact ⟨u, fun _ hc => hc, subset_iff_u.mp hs, ih _ _ _ h⟩
  | order s cs rv lim ih =>
    intro u acc acc' h
    simp only [columnsUsedAux] at h
    obtain ⟨hs, h⟩ := ok?_bind_u h
    simp only [Run]
    exact ⟨u, fun _ hc => hc, subset_iff_u.mp hs, ih _ _ _ h⟩
  | rename s m ih =>
    intro u acc acc' h
    simp only [columnsUsedAux] at h
    obtain ⟨hs, h⟩ := ok?_bind_u h
    simp only [Run]
    exact ⟨u, fun _ hc => hc, subset_iff_u.mp hs, ih _ _ _ h⟩
  | mapCols s m ds ih =>
    intro u acc acc' h
    simp only [columnsUsedAux] at h
    obtain ⟨hs, h⟩ := ok?_bind_u h
    simp only [Run]
    exact ⟨u, fun _ hc => hc, subset_iff_u.mp hs, ih _ _ _ h⟩
  | convert s rm ih =>
    intro u acc acc' h
    simp only [columnsUsedAux] at h
    obtain ⟨hs, h⟩ := ok?_bind_u h
    simp only [Run]
    exact ⟨u, fun _ hc => hc, subset_iff_u.mp hs, ih _ _ _ h⟩
  | join a b oa ob jt iha ihb =>
    intro u acc acc' h
    simp only [columnsUsedAux] at h
    obtain ⟨hs, h⟩ := ok?_bind_u h
    obtain ⟨acc1, h1, h2⟩ := except_bind_ok_u h
    simp only [Run]
    exact ⟨u, acc1, fun _ hc => hc, subset_iff_u.mp hs, iha _ _ _ h1, ihb _ _ _ h2⟩
  | concat a b idc an bn iha ihb =>
    intro u acc acc' h
    simp only [columnsUsedAux] at h
    obtain ⟨hs, h⟩ := ok?_bind_u h
    obtain ⟨acc1, h1, h2⟩ := except_bind_ok_u h
    simp only [Run]
    exact ⟨u, acc1, fun _ hc => hc, subset_iff_u.mp hs, iha _ _ _ h1, ihb _ _ _ h2⟩

theorem columnsUsedAux_mono (p : Ops) (u : List String) (acc acc' : Used)
    (h : columnsUsedAux p u acc = .ok acc') : UsedLe acc acc' := run_mono p u acc acc' (run_of_aux p u acc acc' h)

/-! ### the main induction -/

/-- what the induction assumes about the table scans: for every table description of the pipeline and every
column set covered by the final records, the narrowed description keeps those columns and the two scans agree -/
def ScanAgree (Θ : Interp) (cfg : SemCfg) (V : String → List String → List String) (env env' : Env)
    (tbls : List (String × List String)) (acc : Used) : Prop :=
  ∀ k cs, (k, cs) ∈ tbls → ∀ w : List String, (∀ c ∈ w, Covers acc k c) →
    (∀ c ∈ w, c ∈ cs → c ∈ V k cs) ∧
      ResAgree w (sem Θ cfg env (.table k cs)) (sem Θ cfg env' (.table k (V k cs)))

theorem ScanAgree.mono {Θ : Interp} {cfg : SemCfg} {V : String → List String → List String} {env env' : Env}
    {tbls tbls' : List (String × List String)} {acc acc' : Used}
    (h : ScanAgree Θ cfg V env env' tbls' acc') (ht : ∀ x ∈ tbls, x ∈ tbls') (ha : UsedLe acc acc') :
    ScanAgree Θ cfg V env env' tbls acc :=
  fun k cs hk w hw => h k cs (ht _ hk) w (fun c hc => ha.covers (hw c hc))

/-- rows of a result of `sem` read null outside the declared columns, also when evaluated narrowed -/
theorem sem_null_outside {Θ : Interp} (hok : ConvertOK Θ) {cfg : SemCfg} {env : Env} {p : Ops} {t : Table}
    (h : sem Θ cfg env p = .ok t) {sc : List String} (hs : ∀ c ∈ p.cols, c ∈ sc) :
    ∀ r ∈ t.rows, ∀ c, c ∉ sc → r.get c = .null := by
  obtain ⟨hc, hw⟩ := sem_cols_wf Θ hok cfg env p t h
  exact hw.null_outside (by rw [hc]; exact hs)

theorem sem_keys_in {Θ : Interp} (hok : ConvertOK Θ) {cfg : SemCfg} {env : Env} {p : Ops} {t : Table}
    (h : sem Θ cfg env p = .ok t) {sc : List String} (hs : ∀ c ∈ p.cols, c ∈ sc) :
    ∀ r ∈ t.rows, ∀ k ∈ r.keys, k ∈ sc := by
  obtain ⟨hc, hw⟩ := sem_cols_wf Θ hok cfg env p t h
  intro r hr k hk
  rw [hw r hr, hc] at hk
  exact hs k hk

/-- agreement on the reported source columns extends to every column list `X` (columns outside the source read
null on both sides) -/
theorem upgrade {sc v : List String} (X : List String) {l l' : List Row} (h : RowsAgree v l l')
    (hl : ∀ r ∈ l, ∀ c, c ∉ sc → r.get c = .null) (hl' : ∀ r ∈ l', ∀ c, c ∉ sc → r.get c = .null) :
    RowsAgree (v ++ X.filter (fun c => !sc.contains c)) l l' := by
  apply h.extend_outside (sc := sc) _ hl hl'
  intro c hc hs
  rcases List.mem_append.mp hc with h1 | h1
  · exact h1
  · exact absurd hs (mem_filter_not_contains.mp h1).2

theorem mem_upgrade {sc v X : List String} {c : String} (hX : c ∈ X) (h : c ∈ sc → c ∈ v) :
    c ∈ v ++ X.filter (fun c => !sc.contains c) := by
  by_cases hs : c ∈ sc
  · exact List.mem_append_left _ (h hs)
  · exact List.mem_append_right _ (mem_filter_not_contains.mpr ⟨hX, hs⟩)

theorem sem_narrow_agree (Θ : Interp) (hok : ConvertOK Θ) (hloc : ConvertLocal Θ) (cfg : SemCfg)
    (V : String → List String → List String) (hV : ∀ k cs c, c ∈ V k cs → c ∈ cs) (env env' : Env) :
    ∀ (p : Ops), UsedWF p → ∀ (u : List String) (acc acc' : Used), Run p u acc acc' →
      ScanAgree Θ cfg V env env' p.tables acc' →
      (∀ c ∈ u, c ∈ (narrowWith V p).cols) ∧
        ResAgree u (sem Θ cfg env p) (sem Θ cfg env' (narrowWith V p)) := by
  intro p
  induction p with
  | table k cs =>
    intro _ u acc acc' hcu hscan
    simp only [Run] at hcu
    obtain ⟨hsub, hcu⟩ := hcu
    subst hcu
    have := hscan k cs (by simp [Ops.tables]) u (fun c hc => covers_add acc k u hc)
    exact ⟨fun c hc => this.1 c hc (hsub c hc), this.2⟩
  | extend s ops part od rv w ih =>
    intro hwf u0 acc acc' hcu hscan
    simp only [Run] at hcu
    obtain ⟨u, hle0, hsub, hcu⟩ := hcu
    apply weaken_goal hle0
    obtain ⟨v, hv, hvs, hkeep, hexpr⟩ := used_extend s ops part od rv w u
    rw [hv] at hcu
    simp only [List.headD_cons] at hcu
    obtain ⟨ihA, ihB⟩ := ih hwf.1 v acc acc' hcu hscan
    have hA : ∀ c ∈ u, c ∈ (narrowWith V (Ops.extend s ops part od rv w)).cols := by
      intro c hc
      simp only [narrowWith, Ops.cols]
      by_cases hk : c ∈ ops.map (·.1)
      · exact mem_appendNew_u.mpr (.inr hk)
      · have hcs : c ∈ s.cols := by
          have := hsub c hc
          simp only [Ops.cols] at this
          exact (mem_appendNew_u.mp this).resolve_right hk
        exact mem_appendNew_u.mpr (.inl (ihA c (hkeep c hcs (.inl hc) (fun h => hk (mem_keys_filter h).1))))
    refine ⟨hA, ?_⟩
    simp only [narrowWith, sem]
    apply ResAgree.bind ihB
    intro t t' ht ht' hag
    have hn := sem_null_outside hok ht (sc := s.cols) (fun c hc => hc)
    have hn' := sem_null_outside hok ht' (sc := s.cols) (narrow_cols_subset V hV s)
    have hag' := upgrade (sc := s.cols) (u ++ part ++ od ++ ops.flatMap (fun kv => kv.2.colsRaw)) hag hn hn'
    have hu2 : ∀ c ∈ u, c ∈ (Ops.extend s ops part od rv w).cols ∧
        c ∈ (Ops.extend (narrowWith V s) ops part od rv w).cols := fun c hc => ⟨hsub c hc, hA c hc⟩
    have hkeep' : ∀ c ∈ u, c ∉ ops.map (·.1) →
        c ∈ v ++ (u ++ part ++ od ++ ops.flatMap (fun kv => kv.2.colsRaw)).filter (fun c => !s.cols.contains c) := by
      intro c hc hk
      apply mem_upgrade (by simp [hc])
      intro hcs
      exact hkeep c hcs (.inl hc) (fun h => hk (mem_keys_filter h).1)
    have hexpr' : ∀ kv ∈ ops, kv.1 ∈ u → ∀ c ∈ kv.2.colsRaw,
        c ∈ v ++ (u ++ part ++ od ++ ops.flatMap (fun kv => kv.2.colsRaw)).filter (fun c => !s.cols.contains c) := by
      intro kv hkv hk c hc
      apply mem_upgrade
      · simp only [List.mem_append, List.mem_flatMap]
        exact .inr ⟨kv, hkv, hc⟩
      · exact hexpr kv hkv hk c hc
    cases w with
    | false =>
      simp only [Bool.false_eq_true, if_false]
      exact semExtendPlain_congr Θ ops hag' hu2 hkeep' hexpr'
    | true =>
      simp only [if_true]
      have hdis := disjoint_iff_u.mp (hwf.2 rfl)
      have hnk : ∀ c, c ∈ part ∨ c ∈ od → c ∉ (ops.filter (fun kv => u.contains kv.1)).map (·.1) := by
        intro c hc hm
        exact hdis c (mem_keys_filter hm).1 (List.mem_append.mpr hc)
      refine semExtendWindow_congr Θ ops part od rv hag' hu2 ?_ ?_ hkeep' hexpr'
      · intro c hc
        apply mem_upgrade (by simp [hc])
        intro hcs
        exact hkeep c hcs (.inr (.inl hc)) (hnk c (.inl hc))
      · intro c hc
        apply mem_upgrade (by simp [hc])
        intro hcs
        exact hkeep c hcs (.inr (.inr hc)) (hnk c (.inr hc))
  | project s ops g ih =>
    intro hwf u0 acc acc' hcu hscan
    simp only [Run] at hcu
    obtain ⟨u, hle0, hsub, hcu⟩ := hcu
    apply weaken_goal hle0
    simp only [usedFromSources, List.headD_cons] at hcu
    obtain ⟨_, ihB⟩ := ih hwf _ acc acc' hcu hscan
    refine ⟨fun c hc => hsub c hc, ?_⟩
    simp only [narrowWith, sem]
    apply ResAgree.bind ihB
    intro t t' ht ht' hag
    refine semProject_congr Θ ops g hag (fun c hc => ⟨hsub c hc, hsub c hc⟩)
      (fun c hc => mem_unionL.mpr (.inl hc)) ?_
    intro kv hkv hk c hc
    refine mem_unionL.mpr (.inr (mem_colsUsedOps_u.mpr ⟨kv, ?_, hc⟩))
    exact List.mem_filter.mpr ⟨hkv, by simpa using hk⟩
  | selectRows s e ih =>
    intro hwf u0 acc acc' hcu hscan
    simp only [Run] at hcu
    obtain ⟨u, hle0, hsub, hcu⟩ := hcu
    apply weaken_goal hle0
    simp only [usedFromSources, List.headD_cons] at hcu
    obtain ⟨ihA, ihB⟩ := ih hwf _ acc acc' hcu hscan
    have hv : ∀ c ∈ u, c ∈ unionL (s.cols.filter (fun c => u.contains c)) e.colsUsed :=
      fun c hc => mem_unionL.mpr (.inl (mem_filter_contains.mpr ⟨hsub c hc, hc⟩))
    refine ⟨fun c hc => ihA c (hv c hc), ?_⟩
    simp only [narrowWith, sem]
    apply ResAgree.bind ihB
    intro t t' ht ht' hag
    exact semSelectRows_congr Θ e hag (fun c hc => mem_unionL.mpr (.inr (mem_colsUsed.mpr hc))) hv
  | selectCols s cs ih =>
    intro hwf u0 acc acc' hcu hscan
    simp only [Run] at hcu
    obtain ⟨u, hle0, hsub, hcu⟩ := hcu
    apply weaken_goal hle0
    simp only [usedFromSources, List.headD_cons] at hcu
    obtain ⟨_, ihB⟩ := ih hwf _ acc acc' hcu hscan
    refine ⟨fun c hc => hsub c hc, ?_⟩
    simp only [narrowWith, sem]
    apply ResAgree.bind ihB
    intro t t' ht ht' hag
    exact select_congr hag (fun c hc => ⟨hsub c hc, hsub c hc, mem_filter_contains.mpr ⟨hsub c hc, hc⟩⟩)
  | dropCols s ds ih =>
    intro hwf u0 acc acc' hcu hscan
    simp only [Run] at hcu
    obtain ⟨u, hle0, hsub, hcu⟩ := hcu
    apply weaken_goal hle0
    simp only [usedFromSources, List.headD_cons] at hcu
    obtain ⟨ihA, ihB⟩ := ih hwf _ acc acc' hcu hscan
    have hv : ∀ c ∈ u, c ∈ u.filter (fun c => !ds.contains c) := by
      intro c hc
      have := hsub c hc
      simp only [Ops.cols] at this
      exact mem_filter_not_contains.mpr ⟨hc, (mem_filter_not_contains.mp this).2⟩
    have hA : ∀ c ∈ u, c ∈ (narrowWith V (Ops.dropCols s ds)).cols := by
      intro c hc
      simp only [narrowWith, Ops.cols]
      exact mem_filter_not_contains.mpr ⟨ihA c (hv c hc), (mem_filter_not_contains.mp (hv c hc)).2⟩
    refine ⟨hA, ?_⟩
    simp only [narrowWith, sem]
    apply ResAgree.bind ihB
    intro t t' ht ht' hag
    exact select_congr hag (fun c hc => ⟨hsub c hc, hA c hc, hv c hc⟩)
  | order s cs rv lim ih =>
    intro hwf u0 acc acc' hcu hscan
    simp only [Run] at hcu
    obtain ⟨u, hle0, hsub, hcu⟩ := hcu
    apply weaken_goal hle0
    simp only [usedFromSources, List.headD_cons] at hcu
    obtain ⟨ihA, ihB⟩ := ih hwf _ acc acc' hcu hscan
    have hv : ∀ c ∈ u, c ∈ unionL ((Ops.order s cs rv lim).cols.filter (fun c => u.contains c)) cs :=
      fun c hc => mem_unionL.mpr (.inl (mem_filter_contains.mpr ⟨hsub c hc, hc⟩))
    refine ⟨fun c hc => ihA c (hv c hc), ?_⟩
    simp only [narrowWith, sem]
    apply ResAgree.bind ihB
    intro t t' ht ht' hag
    exact semOrder_congr cs rv lim hag (fun c hc => mem_unionL.mpr (.inr hc)) hv
  | rename s m ih =>
    intro hwf u0 acc acc' hcu hscan
    simp only [Run] at hcu
    obtain ⟨u, hle0, hsub, hcu⟩ := hcu
    apply weaken_goal hle0
    simp only [usedFromSources, List.headD_cons] at hcu
    obtain ⟨ihA, ihB⟩ := ih hwf.1 _ acc acc' hcu hscan
    have hinv := hwf.2
    have hv : ∀ c ∈ u, renBack m c ∈ (u.map (fun c => (lookupLast m c).getD c)).eraseDups :=
      fun c hc => List.mem_eraseDups.mpr (List.mem_map.mpr ⟨c, hc, rfl⟩)
    have hA : ∀ c ∈ u, c ∈ (narrowWith V (Ops.rename s m)).cols := by
      intro c hc
      have hcn := hsub c hc
      simp only [narrowWith, Ops.cols] at hcn ⊢
      obtain ⟨k0, hk0, rfl⟩ := List.mem_map.mp hcn
      refine List.mem_map.mpr ⟨k0, ?_, rfl⟩
      have := ihA _ (hv _ hc)
      have e := hinv k0 hk0
      simp only [renFwd] at e
      rwa [e] at this
    refine ⟨hA, ?_⟩
    simp only [narrowWith, sem]
    apply ResAgree.bind ihB
    intro t t' ht ht' hag
    show RowsAgree u _ _
    refine rename_congr (renFwd m) (renBack m) (sc := s.cols) hag
      (sem_keys_in hok ht (fun c hc => hc)) (sem_keys_in hok ht' (narrow_cols_subset V hV s)) hinv ?_
    intro c hc
    exact ⟨by simpa [Ops.cols, renFwd] using hsub c hc, hv c hc⟩
  | mapCols s m ds ih =>
    intro hwf u0 acc acc' hcu hscan
    simp only [Run] at hcu
    obtain ⟨u, hle0, hsub, hcu⟩ := hcu
    apply weaken_goal hle0
    simp only [usedFromSources, List.headD_cons] at hcu
    obtain ⟨ihA, ihB⟩ := ih hwf.1 _ acc acc' hcu hscan
    have hinv := hwf.2
    have hv : ∀ c ∈ u, renFwd m c ∈
        unionL (u.map (fun c => (lookupLast (m.map (fun kv => (kv.2, kv.1))) c).getD c)).eraseDups ds := by
      intro c hc
      exact mem_unionL.mpr (.inl (List.mem_eraseDups.mpr (List.mem_map.mpr ⟨c, hc, rfl⟩)))
    have hA : ∀ c ∈ u, c ∈ (narrowWith V (Ops.mapCols s m ds)).cols := by
      intro c hc
      have hcn := hsub c hc
      simp only [narrowWith, Ops.cols] at hcn ⊢
      obtain ⟨k0, hk0, rfl⟩ := List.mem_map.mp hcn
      rw [mem_filter_not_contains] at hk0
      refine List.mem_map.mpr ⟨k0, mem_filter_not_contains.mpr ⟨?_, hk0.2⟩, rfl⟩
      have := ihA _ (hv _ hc)
      have e := hinv k0 hk0.1 hk0.2
      simp only [renBack] at e
      rwa [e] at this
    refine ⟨hA, ?_⟩
    simp only [narrowWith, sem]
    apply ResAgree.bind ihB
    intro t t' ht ht' hag
    show RowsAgree u _ _
    refine mapCols_congr (renBack m) (renFwd m) ds (sc := s.cols) hag
      (sem_keys_in hok ht (fun c hc => hc)) (sem_keys_in hok ht' (narrow_cols_subset V hV s)) hinv ?_
    intro c hc
    exact ⟨by simpa [Ops.cols, renBack] using hsub c hc, hv c hc⟩
  | convert s rm ih =>
    intro hwf u0 acc acc' hcu hscan
    simp only [Run] at hcu
    obtain ⟨u, hle0, hsub, hcu⟩ := hcu
    apply weaken_goal hle0
    simp only [usedFromSources, List.headD_cons] at hcu
    obtain ⟨_, ihB⟩ := ih hwf _ acc acc' hcu hscan
    refine ⟨fun c hc => hsub c hc, ?_⟩
    simp only [narrowWith, sem]
    apply ResAgree.bind ihB
    intro t t' ht ht' hag
    rw [hloc rm t t' hag]
    exact ResAgree.refl u _
  | join a b oa ob jt iha ihb =>
    intro hwf u0 acc acc' hcu hscan
    simp only [Run] at hcu
    obtain ⟨u, acc1, hle0, hsub, hcu1, hcu2⟩ := hcu
    apply weaken_goal hle0
    simp only [usedFromSources, List.headD_cons, List.drop_succ_cons, List.drop_zero] at hcu1 hcu2
    have hle := run_mono _ _ _ _ hcu2
    obtain ⟨ihAa, ihBa⟩ := iha hwf.1 _ acc acc1 hcu1
      (hscan.mono (fun x hx => by simp only [Ops.tables]; exact List.mem_append_left _ hx) hle)
    obtain ⟨ihAb, ihBb⟩ := ihb hwf.2 _ acc1 acc' hcu2
      (hscan.mono (fun x hx => by simp only [Ops.tables]; exact List.mem_append_right _ hx) (UsedLe.refl _))
    have hva : ∀ c, c ∈ u ∨ c ∈ oa ∨ c ∈ ob → c ∈ a.cols →
        c ∈ a.cols.filter (fun c => (unionL (unionL u oa) ob).contains c) := by
      intro c hc hca
      refine mem_filter_contains.mpr ⟨hca, ?_⟩
      rcases hc with h | h | h
      · exact mem_unionL.mpr (.inl (mem_unionL.mpr (.inl h)))
      · exact mem_unionL.mpr (.inl (mem_unionL.mpr (.inr h)))
      · exact mem_unionL.mpr (.inr h)
    have hvb : ∀ c, c ∈ u ∨ c ∈ oa ∨ c ∈ ob → c ∈ b.cols →
        c ∈ b.cols.filter (fun c => (unionL (unionL u oa) ob).contains c) := by
      intro c hc hcb
      refine mem_filter_contains.mpr ⟨hcb, ?_⟩
      rcases hc with h | h | h
      · exact mem_unionL.mpr (.inl (mem_unionL.mpr (.inl h)))
      · exact mem_unionL.mpr (.inl (mem_unionL.mpr (.inr h)))
      · exact mem_unionL.mpr (.inr h)
    have hA : ∀ c ∈ u, c ∈ (narrowWith V (Ops.join a b oa ob jt)).cols := by
      intro c hc
      simp only [narrowWith]
      rw [mem_join_cols]
      rcases (mem_join_cols a b oa ob jt c).mp (hsub c hc) with h | h
      · exact .inl (ihAa c (hva c (.inl hc) h))
      · exact .inr (ihAb c (hvb c (.inl hc) h))
    refine ⟨hA, ?_⟩
    simp only [narrowWith, sem]
    apply ResAgree.bind ihBa
    intro ta ta' hta hta' haga
    apply ResAgree.bind ihBb
    intro tb tb' htb htb' hagb
    show RowsAgree u _ _
    have hna := sem_null_outside hok hta (sc := a.cols) (fun c hc => hc)
    have hna' := sem_null_outside hok hta' (sc := a.cols) (narrow_cols_subset V hV a)
    have hnb := sem_null_outside hok htb (sc := b.cols) (fun c hc => hc)
    have hnb' := sem_null_outside hok htb' (sc := b.cols) (narrow_cols_subset V hV b)
    have haga' := upgrade (sc := a.cols) (u ++ oa) haga hna hna'
    have hagb' := upgrade (sc := b.cols) (u ++ ob) hagb hnb hnb'
    simp only [Table.selectCols]
    refine select_congr (w := u) ?_ (fun c hc => ⟨hsub c hc, hA c hc, hc⟩)
    have hca := (sem_cols_wf Θ hok cfg env a ta hta).1
    have hca' := (sem_cols_wf Θ hok cfg env' _ ta' hta').1
    have hcb := (sem_cols_wf Θ hok cfg env b tb htb).1
    have hcb' := (sem_cols_wf Θ hok cfg env' _ tb' htb').1
    refine semJoin_congr cfg jt oa ob haga' hagb'
      (sem_null_outside hok hta (by rw [hca]; exact fun c hc => hc))
      (sem_null_outside hok hta' (by rw [hca']; exact fun c hc => hc))
      (sem_null_outside hok htb (by rw [hcb]; exact fun c hc => hc))
      (sem_null_outside hok htb' (by rw [hcb']; exact fun c hc => hc)) ?_ ?_ ?_
    · intro c hc
      exact mem_upgrade (by simp [hc]) (fun h => hva c (.inr (.inl hc)) h)
    · intro c hc
      exact mem_upgrade (by simp [hc]) (fun h => hvb c (.inr (.inr hc)) h)
    · intro c hc
      have h1 := (mem_join_cols a b oa ob jt c).mp (hsub c hc)
      have h2 := (mem_join_cols _ _ oa ob jt c).mp (by simpa only [narrowWith] using hA c hc)
      exact ⟨mem_appendNew_u.mpr h1, mem_appendNew_u.mpr h2,
        mem_upgrade (by simp [hc]) (fun h => hva c (.inl hc) h),
        mem_upgrade (by simp [hc]) (fun h => hvb c (.inl hc) h)⟩
  | concat a b idc an bn iha ihb =>
    intro hwf u0 acc acc' hcu hscan
    simp only [Run] at hcu
    obtain ⟨u, acc1, hle0, hsub, hcu1, hcu2⟩ := hcu
    apply weaken_goal hle0
    simp only [usedFromSources, List.headD_cons, List.drop_succ_cons, List.drop_zero] at hcu1 hcu2
    have hle := run_mono _ _ _ _ hcu2
    obtain ⟨ihAa, ihBa⟩ := iha hwf.1 _ acc acc1 hcu1
      (hscan.mono (fun x hx => by simp only [Ops.tables]; exact List.mem_append_left _ hx) hle)
    obtain ⟨ihAb, ihBb⟩ := ihb hwf.2 _ acc1 acc' hcu2
      (hscan.mono (fun x hx => by simp only [Ops.tables]; exact List.mem_append_right _ hx) (UsedLe.refl _))
    have hsplit : ∀ c ∈ u, idc = some c ∨ c ∈ a.cols := by
      intro c hc
      have := hsub c hc
      simp only [Ops.cols] at this
      cases idc with
      | none => exact .inr this
      | some i =>
        simp only [List.mem_append, List.mem_singleton] at this
        rcases this with h | h
        · exact .inr h
        · exact .inl (by rw [h])
    have hA : ∀ c ∈ u, c ∈ (narrowWith V (Ops.concat a b idc an bn)).cols := by
      intro c hc
      simp only [narrowWith, Ops.cols]
      rcases hsplit c hc with h | h
      · subst h; simp
      · have := ihAa c (mem_filter_contains.mpr ⟨h, hc⟩)
        cases idc with
        | none => exact this
        | some i => exact List.mem_append_left _ this
    refine ⟨hA, ?_⟩
    simp only [narrowWith, sem]
    apply ResAgree.bind ihBa
    intro ta ta' hta hta' haga
    apply ResAgree.bind ihBb
    intro tb tb' htb htb' hagb
    show RowsAgree u _ _
    have hna := sem_null_outside hok hta (sc := a.cols) (fun c hc => hc)
    have hna' := sem_null_outside hok hta' (sc := a.cols) (narrow_cols_subset V hV a)
    have hnb := sem_null_outside hok htb (sc := b.cols) (fun c hc => hc)
    have hnb' := sem_null_outside hok htb' (sc := b.cols) (narrow_cols_subset V hV b)
    have haga' := upgrade (sc := a.cols) u haga hna hna'
    have hagb' := upgrade (sc := b.cols) u hagb hnb hnb'
    refine semConcat_congr idc an bn haga' hagb' ?_
    intro c hc
    refine ⟨hsub c hc, hA c hc, ?_⟩
    rcases hsplit c hc with h | h
    · exact .inl h
    · exact .inr ⟨mem_upgrade hc (fun h' => mem_filter_contains.mpr ⟨h', hc⟩),
        mem_upgrade hc (fun h' => mem_filter_contains.mpr ⟨h', hc⟩)⟩

end DAVerif
