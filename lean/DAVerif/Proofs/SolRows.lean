import DAVerif.Proofs.Perm
/-!
Lemmas for the proofs about the solution helpers (C21): cells of rows after `set` / `select`, the
"one computed column per row position" form of single-assignment `extend` steps, and the position of a row in its
sorted window.
-/
namespace DAVerif.Sol
open DAVerif

/-! ### cells -/

theorem get_set (r : Row) (c : String) (v : Val) (c' : String) :
    (r.set c v).get c' = if c' = c then v else r.get c' := by
  induction r with
  | nil =>
    simp only [Row.set, Row.get, List.lookup_cons, List.lookup_nil]
    by_cases h : c' = c
    · simp [h]
    · have : (c' == c) = false := by simpa using h
      simp [h, this]
  | cons kv r ih =>
    obtain ⟨k, x⟩ := kv
    simp only [Row.set]
    by_cases hk : k = c
    · subst hk
      simp only [beq_self_eq_true, if_true, Row.get, List.lookup_cons]
      by_cases h : c' = k
      · subst h; simp
      · have : (c' == k) = false := by simpa using h
        simp [this, h]
    · have hkc : (k == c) = false := by simpa using hk
      simp only [hkc, Bool.false_eq_true, if_false]
      simp only [Row.get, List.lookup_cons] at ih ⊢
      by_cases h : c' = k
      · subst h
        have : ¬ c' = c := hk
        simp [this]
      · have : (c' == k) = false := by simpa using h
        simp only [this]
        exact ih

theorem get_set_self (r : Row) (c : String) (v : Val) : (r.set c v).get c = v := by
  rw [get_set]; simp

theorem get_set_ne (r : Row) {c c' : String} (v : Val) (h : c' ≠ c) : (r.set c v).get c' = r.get c' := by
  rw [get_set]; simp [h]

theorem get_select (r : Row) (cs : List String) (c : String) :
    (r.select cs).get c = if c ∈ cs then r.get c else Val.null := by
  by_cases h : c ∈ cs
  · simp only [h, if_true]; exact Row.select_get_of_mem h
  · simp only [h, if_false]
    have : (r.select cs).lookup c = none := by
      simp only [Row.select]
      induction cs with
      | nil => rfl
      | cons x cs ih =>
        have hx : ¬ c = x := fun e => h (e ▸ List.mem_cons_self)
        have hcs : c ∉ cs := fun e => h (List.mem_cons_of_mem _ e)
        have : (c == x) = false := by simpa using hx
        simp only [List.map_cons, List.lookup_cons, this]
        exact ih hcs
    simp [Row.get, this]

theorem setAll_single (r : Row) (c : String) (v : Val) : r.setAll [(c, v)] = r.set c v := rfl

theorem keyOf_congr {a b : Row} {cs : List String} (h : ∀ c ∈ cs, a.get c = b.get c) : keyOf a cs = keyOf b cs := by
  simp only [keyOf, Row.vals]
  exact List.map_congr_left h

theorem keyOf_eq_iff {a b : Row} {cs : List String} : keyOf a cs = keyOf b cs ↔ ∀ c ∈ cs, a.get c = b.get c := by
  constructor
  · intro h c hc
    simp only [keyOf, Row.vals] at h
    induction cs with
    | nil => cases hc
    | cons x cs ih =>
      simp only [List.map_cons, List.cons.injEq] at h
      rcases List.mem_cons.mp hc with e | e
      · subst e; exact h.1
      · exact ih h.2 e
  · exact keyOf_congr

theorem keyOf_append (a : Row) (cs ds : List String) : keyOf a (cs ++ ds) = keyOf a cs ++ keyOf a ds := by
  simp [keyOf, Row.vals]

theorem keyOf_append_eq_iff {a b : Row} {cs ds : List String} :
    keyOf a (cs ++ ds) = keyOf b (cs ++ ds) ↔ keyOf a cs = keyOf b cs ∧ keyOf a ds = keyOf b ds := by
  simp only [keyOf_eq_iff, List.mem_append]
  constructor
  · intro h; exact ⟨fun c hc => h c (Or.inl hc), fun c hc => h c (Or.inr hc)⟩
  · rintro ⟨h1, h2⟩ c (hc | hc)
    · exact h1 c hc
    · exact h2 c hc

/-- a well-formed row with duplicate-free columns is the selection of its own columns -/
theorem select_self {r : Row} {cs : List String} (hk : r.keys = cs) (hn : cs.Nodup) : r.select cs = r := by
  subst hk
  induction r with
  | nil => rfl
  | cons kv r ih =>
    obtain ⟨k, x⟩ := kv
    simp only [Row.keys, List.map_cons, List.nodup_cons] at hn
    simp only [Row.select, Row.keys, List.map_cons, List.map_map]
    have h1 : Row.get ((k, x) :: r) k = x := by simp [Row.get]
    rw [h1]
    congr 1
    have ih' := ih hn.2
    simp only [Row.select, Row.keys, List.map_map] at ih'
    conv => rhs; rw [← ih']
    apply List.map_congr_left
    intro kv hkv
    simp only [Function.comp]
    have hne : ¬ kv.1 = k := by
      intro e
      exact hn.1 (e ▸ List.mem_map_of_mem (f := (·.1)) hkv)
    have : (kv.1 == k) = false := by simpa using hne
    simp [Row.get, List.lookup_cons, this]

/-- selecting more columns and then the new one: the shape of a row after `extend` adds one new column -/
theorem select_append_single (r : Row) (cs : List String) (c : String) :
    r.select (cs ++ [c]) = r.select cs ++ [(c, r.get c)] := by
  simp [Row.select]

theorem select_congr {a b : Row} {cs : List String} (h : ∀ c ∈ cs, a.get c = b.get c) :
    a.select cs = b.select cs := by
  simp only [Row.select]
  apply List.map_congr_left
  intro c hc
  rw [h c hc]

theorem select_select (r : Row) {cs ds : List String} (h : ∀ c ∈ ds, c ∈ cs) :
    (r.select cs).select ds = r.select ds := by
  apply select_congr
  intro c hc
  exact Row.select_get_of_mem (h c hc)

theorem getD_eq {α : Type} {l : List α} {i : Nat} (d : α) (h : i < l.length) : l.getD i d = l[i] := by
  simp [List.getD_eq_getElem?_getD, h]

/-! ### one computed column per row position -/

/-- the rows after an `extend` that assigns one column: the cell of row `i` is `f i`, then the declared columns are
selected -/
def addCol (oc : List String) (c : String) (f : Nat → Val) (rows : List Row) : List Row :=
  rows.zipIdx.map (fun ri => (ri.1.set c (f ri.2)).select oc)

@[simp] theorem length_addCol (oc : List String) (c : String) (f : Nat → Val) (rows : List Row) :
    (addCol oc c f rows).length = rows.length := by
  simp [addCol]

theorem getElem_addCol (oc : List String) (c : String) (f : Nat → Val) (rows : List Row) (i : Nat)
    (h : i < (addCol oc c f rows).length) :
    (addCol oc c f rows)[i] = ((rows[i]'(by simpa using h)).set c (f i)).select oc := by
  simp [addCol, List.getElem_zipIdx]

theorem getD_addCol (oc : List String) (c : String) (f : Nat → Val) (rows : List Row) (i : Nat)
    (h : i < rows.length) :
    (addCol oc c f rows).getD i [] = ((rows.getD i []).set c (f i)).select oc := by
  have h' : i < (addCol oc c f rows).length := by simpa using h
  rw [getD_eq _ h', getElem_addCol, getD_eq _ h]

/-- cells of the extended rows -/
theorem get_addCol (oc : List String) (c : String) (f : Nat → Val) (rows : List Row) (i : Nat)
    (h : i < rows.length) {c' : String} (hc : c' ∈ oc) :
    ((addCol oc c f rows).getD i []).get c' = if c' = c then f i else (rows.getD i []).get c' := by
  rw [getD_addCol _ _ _ _ _ h, Row.select_get_of_mem hc, get_set]

theorem addCol_congr (oc : List String) (c : String) {f g : Nat → Val} (rows : List Row)
    (h : ∀ i, i < rows.length → f i = g i) : addCol oc c f rows = addCol oc c g rows := by
  simp only [addCol]
  apply List.map_congr_left
  rintro ⟨r, i⟩ hri
  have := List.mem_zipIdx_iff_getElem?.mp hri
  have hi : i < rows.length := by
    simp only at this
    exact (List.getElem?_eq_some_iff.mp this).1
  simp only [h i hi]

theorem getD_of_mem_zipIdx {rows : List Row} {r : Row} {i : Nat} (h : (r, i) ∈ rows.zipIdx) :
    rows.getD i [] = r ∧ i < rows.length := by
  have := List.mem_zipIdx_iff_getElem?.mp h
  simp only at this
  obtain ⟨hi, e⟩ := List.getElem?_eq_some_iff.mp this
  exact ⟨by rw [getD_eq _ hi, e], hi⟩

theorem mem_zipIdx_getD {rows : List Row} {i : Nat} (h : i < rows.length) : (rows.getD i [], i) ∈ rows.zipIdx := by
  apply List.mem_zipIdx_iff_getElem?.mpr
  simp only [getD_eq _ h]
  exact List.getElem?_eq_getElem h

/-! ### the window of a row position -/

/-- the rows (with positions) of the partition of the row at position `i` -/
def winPart (p : List String) (rows : List Row) (i : Nat) : List (Row × Nat) :=
  rows.zipIdx.filter (fun rj => keyOf rj.1 p == keyOf (rows.getD i []) p)

/-- that partition in window order -/
def winSorted (p o rv : List String) (rows : List Row) (i : Nat) : List (Row × Nat) :=
  sortIdx o rv (winPart p rows i)

/-- the position of row `i` in its window -/
def winPos (p o rv : List String) (rows : List Row) (i : Nat) : Nat :=
  (winSorted p o rv rows i).findIdx (fun rj => rj.2 == i)

/-- the value a window function assigns to the row at position `i` -/
def winVal (Θ : Interp) (t : Term) (p o rv : List String) (rows : List Row) (i : Nat) : Val :=
  Θ.win (opName t) (constArgs t) (argValues t ((winSorted p o rv rows i).map (·.1))) (winPos p o rv rows i)

/-- a windowed `extend` with one assignment, in "one column per position" form -/
theorem semExtendWindow_single (Θ : Interp) (c : String) (t : Term) (p o rv : List String) (tb : Table)
    (oc : List String) :
    semExtendWindow Θ [(c, t)] p o rv tb oc = ⟨oc, addCol oc c (winVal Θ t p o rv tb.rows) tb.rows⟩ := by
  simp only [semExtendWindow, addCol]
  congr 1
  apply List.map_congr_left
  rintro ⟨r, i⟩ hri
  obtain ⟨hr, _⟩ := getD_of_mem_zipIdx hri
  simp only [List.map_cons, List.map_nil, setAll_single, winVal, winPos, winSorted, winPart, hr]

/-- a plain `extend` with one assignment -/
theorem semExtendPlain_single (Θ : Interp) (c : String) (t : Term) (tb : Table) (oc : List String) :
    semExtendPlain Θ [(c, t)] tb oc =
      ⟨oc, addCol oc c (fun i => evalCell Θ (tb.rows.getD i []) t) tb.rows⟩ := by
  simp only [semExtendPlain, addCol]
  congr 1
  have : tb.rows.map (fun r => (r.setAll ([(c, t)].map (fun kv => (kv.1, evalCell Θ r kv.2)))).select oc)
      = (tb.rows.zipIdx.map Prod.fst).map
          (fun r => (r.setAll ([(c, t)].map (fun kv => (kv.1, evalCell Θ r kv.2)))).select oc) := by
    rw [List.zipIdx_map_fst]
  rw [this, List.map_map]
  apply List.map_congr_left
  rintro ⟨r, i⟩ hri
  obtain ⟨hr, _⟩ := getD_of_mem_zipIdx hri
  simp only [Function.comp, List.map_cons, List.map_nil, setAll_single, hr]

/-! #### facts about the position -/

theorem winPart_eq_of_key {p : List String} {rows : List Row} {i j : Nat}
    (h : keyOf (rows.getD i []) p = keyOf (rows.getD j []) p) : winPart p rows i = winPart p rows j := by
  simp only [winPart, h]

theorem mem_winPart {p : List String} {rows : List Row} {i : Nat} {x : Row × Nat} :
    x ∈ winPart p rows i ↔ x ∈ rows.zipIdx ∧ keyOf x.1 p = keyOf (rows.getD i []) p := by
  simp [winPart, List.mem_filter]

theorem self_mem_winPart {p : List String} {rows : List Row} {i : Nat} (h : i < rows.length) :
    (rows.getD i [], i) ∈ winPart p rows i :=
  mem_winPart.mpr ⟨mem_zipIdx_getD h, rfl⟩

theorem winSorted_perm (p o rv : List String) (rows : List Row) (i : Nat) :
    (winSorted p o rv rows i).Perm (winPart p rows i) := sortIdx_perm _ _ _

theorem winSorted_pairwise (p o rv : List String) (rows : List Row) (i : Nat) :
    (winSorted p o rv rows i).Pairwise (fun a b => rowLe o rv a.1 b.1 = true) := by
  unfold winSorted sortIdx
  exact List.pairwise_mergeSort (le := fun (a b : Row × Nat) => rowLe o rv a.1 b.1)
    (fun a b c h1 h2 => rowLe_trans h1 h2) (fun a b => rowLe_total o rv a.1 b.1) _

/-- positions are unique inside `zipIdx` -/
theorem zipIdx_snd_inj {rows : List Row} {a b : Row × Nat} (ha : a ∈ rows.zipIdx) (hb : b ∈ rows.zipIdx)
    (h : a.2 = b.2) : a = b := by
  have e1 := List.mem_zipIdx_iff_getElem?.mp ha
  have e2 := List.mem_zipIdx_iff_getElem?.mp hb
  rw [h] at e1
  rw [e1] at e2
  exact Prod.ext (Option.some.inj e2) h

theorem winPos_lt {p o rv : List String} {rows : List Row} {i : Nat} (h : i < rows.length) :
    winPos p o rv rows i < (winSorted p o rv rows i).length := by
  apply List.findIdx_lt_length_of_exists
  exact ⟨(rows.getD i [], i), (winSorted_perm p o rv rows i).mem_iff.mpr (self_mem_winPart h), by simp⟩

theorem winSorted_getElem_winPos {p o rv : List String} {rows : List Row} {i : Nat} (h : i < rows.length) :
    (winSorted p o rv rows i)[winPos p o rv rows i]'(winPos_lt h) = (rows.getD i [], i) := by
  have hlt := winPos_lt (p := p) (o := o) (rv := rv) h
  have h2 : ((winSorted p o rv rows i)[winPos p o rv rows i]'hlt).2 = i := by
    have := List.findIdx_getElem (p := fun (rj : Row × Nat) => rj.2 == i) (xs := winSorted p o rv rows i) (w := hlt)
    exact beq_iff_eq.mp this
  have hin : (winSorted p o rv rows i)[winPos p o rv rows i]'hlt ∈ rows.zipIdx :=
    (mem_winPart.mp ((winSorted_perm p o rv rows i).mem_iff.mp (List.getElem_mem _))).1
  exact zipIdx_snd_inj hin (mem_zipIdx_getD h) h2

theorem winSorted_length (p o rv : List String) (rows : List Row) (i : Nat) :
    (winSorted p o rv rows i).length = (winPart p rows i).length := (winSorted_perm p o rv rows i).length_eq

/-- two different positions of the same partition sit at different places of the (common) window -/
theorem winPos_ne {p o rv : List String} {rows : List Row} {i j : Nat} (hi : i < rows.length)
    (hj : j < rows.length) (hk : keyOf (rows.getD i []) p = keyOf (rows.getD j []) p) (hne : i ≠ j) :
    winPos p o rv rows i ≠ winPos p o rv rows j := by
  intro e
  have hs : winSorted p o rv rows i = winSorted p o rv rows j := by
    simp only [winSorted, winPart_eq_of_key hk]
  have h1 := winSorted_getElem_winPos (p := p) (o := o) (rv := rv) hi
  have h2 := winSorted_getElem_winPos (p := p) (o := o) (rv := rv) hj
  have : (rows.getD i [], i) = (rows.getD j [], j) := by
    rw [← h1, ← h2]
    congr 1
  exact hne (Prod.ext_iff.mp this).2

/-- a row that sorts strictly before another row of its partition stands before it in the window -/
theorem winPos_lt_of_strict {p o rv : List String} {rows : List Row} {i j : Nat} (hi : i < rows.length)
    (hj : j < rows.length) (hk : keyOf (rows.getD i []) p = keyOf (rows.getD j []) p)
    (hs : rowLe o rv (rows.getD j []) (rows.getD i []) = false) :
    winPos p o rv rows i < winPos p o rv rows j := by
  have hne : i ≠ j := by
    intro e; subst e
    rw [rowLe_refl] at hs; cases hs
  have hs' : winSorted p o rv rows i = winSorted p o rv rows j := by
    simp only [winSorted, winPart_eq_of_key hk]
  rcases Nat.lt_trichotomy (winPos p o rv rows i) (winPos p o rv rows j) with h | h | h
  · exact h
  · exact absurd h (winPos_ne hi hj hk hne)
  · exfalso
    have hpw := winSorted_pairwise p o rv rows j
    have hli := winPos_lt (p := p) (o := o) (rv := rv) hi
    have hlj := winPos_lt (p := p) (o := o) (rv := rv) hj
    have hli' : winPos p o rv rows i < (winSorted p o rv rows j).length := hs' ▸ hli
    have := (List.pairwise_iff_getElem.mp hpw) _ _ hlj hli' h
    have e1 := winSorted_getElem_winPos (p := p) (o := o) (rv := rv) hj
    have e2 : (winSorted p o rv rows j)[winPos p o rv rows i]'hli' = (rows.getD i [], i) := by
      have := winSorted_getElem_winPos (p := p) (o := o) (rv := rv) hi
      simp only [hs'] at this
      exact this
    rw [e1, e2] at this
    simp only at this
    rw [this] at hs
    cases hs

/-! #### position = number of strict predecessors, when the window order is total -/

/-- in a duplicate-free list sorted by a total order, an element has as many strict predecessors as there are
elements before it -/
theorem countP_strict_of_sorted_split {α : Type} (le : α → α → Bool) (a : List α) (x : α) (b : List α)
    (hpw : (a ++ x :: b).Pairwise (fun u v => le u v = true))
    (hanti : ∀ u ∈ a ++ x :: b, ∀ v ∈ a ++ x :: b, le u v = true → le v u = true → u = v)
    (hnd : (a ++ x :: b).Nodup) :
    (a ++ x :: b).countP (fun y => le y x && !le x y) = a.length := by
  obtain ⟨_, hxb, hax⟩ := List.pairwise_append.mp hpw
  have hxb' := (List.pairwise_cons.mp hxb).1
  have hndx : x ∉ a := by
    intro hx
    have := (List.nodup_append.mp hnd).2.2 x hx x List.mem_cons_self
    exact this rfl
  rw [List.countP_append, List.countP_cons]
  have h1 : a.countP (fun y => le y x && !le x y) = a.length := by
    rw [List.countP_eq_length]
    intro y hy
    have hyx : le y x = true := hax y hy x List.mem_cons_self
    have hne : y ≠ x := fun e => hndx (e ▸ hy)
    have hxy : le x y = false := by
      cases h : le x y with
      | false => rfl
      | true =>
        exact absurd (hanti y (List.mem_append_left _ hy) x (List.mem_append_right _ List.mem_cons_self) hyx h) hne
    simp [hyx, hxy]
  have h2 : b.countP (fun y => le y x && !le x y) = 0 := by
    rw [List.countP_eq_zero]
    intro y hy
    have := hxb' y hy
    simp [this]
  have h3 : (le x x && !le x x) = false := by cases le x x <;> rfl
  rw [h1, h2, h3]
  simp

theorem zipIdx_nodup (rows : List Row) : rows.zipIdx.Nodup := by
  have : (rows.zipIdx.map Prod.snd).Nodup := by
    rw [List.zipIdx_map_snd]
    exact List.nodup_range' ..
  unfold List.Nodup at this ⊢
  rw [List.pairwise_map] at this
  exact this.imp (fun {a b} h e => h (by rw [e]))

/-- **Position in a totally ordered window.**  If no two different positions of the partition of `i` tie on the
order columns, the position of `i` in its window is the number of rows of the partition that sort strictly before
it. -/
theorem countP_strict_at {α : Type} (le : α → α → Bool) (l : List α) (k : Nat) (hk : k < l.length) (x : α)
    (hx : l[k] = x) (hpw : l.Pairwise (fun u v => le u v = true))
    (hanti : ∀ u ∈ l, ∀ v ∈ l, le u v = true → le v u = true → u = v) (hnd : l.Nodup) :
    l.countP (fun y => le y x && !le x y) = k := by
  have hsplit : l = l.take k ++ x :: l.drop (k + 1) := by
    rw [← hx, List.getElem_cons_drop hk, List.take_append_drop]
  have hlen : (l.take k).length = k := by
    rw [List.length_take]; omega
  rw [hsplit] at hpw hanti hnd
  rw [hsplit, countP_strict_of_sorted_split le _ _ _ hpw hanti hnd, hlen]

theorem winPos_eq_countP {p o rv : List String} {rows : List Row} {i : Nat} (hi : i < rows.length)
    (htot : ∀ a ∈ winPart p rows i, ∀ b ∈ winPart p rows i,
      rowLe o rv a.1 b.1 = true → rowLe o rv b.1 a.1 = true → a = b) :
    winPos p o rv rows i =
      (winPart p rows i).countP (fun y => rowLe o rv y.1 (rows.getD i []) && !rowLe o rv (rows.getD i []) y.1) := by
  have hlt := winPos_lt (p := p) (o := o) (rv := rv) hi
  have hget := winSorted_getElem_winPos (p := p) (o := o) (rv := rv) hi
  have hperm := winSorted_perm p o rv rows i
  rw [← hperm.countP_eq]
  have hpw := winSorted_pairwise p o rv rows i
  have hnd : (winSorted p o rv rows i).Nodup := hperm.nodup_iff.mpr ((zipIdx_nodup rows).filter _)
  have hanti : ∀ u ∈ winSorted p o rv rows i, ∀ v ∈ winSorted p o rv rows i,
      rowLe o rv u.1 v.1 = true → rowLe o rv v.1 u.1 = true → u = v :=
    fun u hu v hv => htot u (hperm.mem_iff.mp hu) v (hperm.mem_iff.mp hv)
  exact (countP_strict_at (fun (a b : Row × Nat) => rowLe o rv a.1 b.1) _ _ hlt _ hget hpw hanti hnd).symm

end DAVerif.Sol

namespace DAVerif.Sol
open DAVerif

/-! ### counting over positions -/

theorem zipIdx_eq_map_range (rows : List Row) :
    rows.zipIdx = (List.range rows.length).map (fun j => (rows.getD j [], j)) := by
  apply List.ext_getElem
  · simp
  · intro i h1 h2
    have hi : i < rows.length := by simpa using h1
    simp only [List.getElem_zipIdx, List.getElem_map, List.getElem_range, Nat.zero_add, getD_eq _ hi]

theorem countP_zipIdx (rows : List Row) (Q : Row × Nat → Bool) :
    rows.zipIdx.countP Q = (List.range rows.length).countP (fun j => Q (rows.getD j [], j)) := by
  rw [zipIdx_eq_map_range, List.countP_map]
  rfl

theorem countP_winPart (p : List String) (rows : List Row) (i : Nat) (Q : Row × Nat → Bool) :
    (winPart p rows i).countP Q = (List.range rows.length).countP (fun j =>
      (keyOf (rows.getD j []) p == keyOf (rows.getD i []) p) && Q (rows.getD j [], j)) := by
  rw [winPart, List.countP_filter, countP_zipIdx]
  apply List.countP_congr
  intro j _
  simp [Bool.and_comm]

theorem countP_rows (rows : List Row) (Q : Row → Bool) :
    rows.countP Q = (List.range rows.length).countP (fun j => Q (rows.getD j [])) := by
  have : rows = rows.zipIdx.map Prod.fst := (List.zipIdx_map_fst 0 rows).symm
  conv => lhs; rw [this]
  rw [List.countP_map, countP_zipIdx]
  rfl

theorem map_winPart (p : List String) (rows : List Row) (i : Nat) {β : Type} (g : Row × Nat → β) :
    (winPart p rows i).map g =
      ((List.range rows.length).filter (fun j => keyOf (rows.getD j []) p == keyOf (rows.getD i []) p)).map
        (fun j => g (rows.getD j [], j)) := by
  rw [winPart, zipIdx_eq_map_range, List.filter_map, List.map_map]
  rfl

/-- without `order_by` the window is the partition in input order -/
theorem winSorted_nil (p rv : List String) (rows : List Row) (i : Nat) :
    winSorted p [] rv rows i = winPart p rows i := by
  unfold winSorted sortIdx
  apply List.mergeSort_of_pairwise
  apply List.pairwise_of_forall_mem_list
  intro a _ b _
  rfl

/-! ### comparing rows on `cs ++ [c]` -/

theorem rowLe_append (cs ds rv : List String) (a b : Row) :
    rowLe (cs ++ ds) rv a b = if keyOf a cs = keyOf b cs then rowLe ds rv a b else rowLe cs rv a b := by
  induction cs with
  | nil => simp [keyOf, Row.vals]
  | cons c cs ih =>
    simp only [List.cons_append, rowLe, cellEq]
    by_cases h : a.get c = b.get c
    · have hb : (a.get c == b.get c) = true := by simpa using h
      simp only [hb, if_true, ih]
      have : (keyOf a (c :: cs) = keyOf b (c :: cs)) ↔ (keyOf a cs = keyOf b cs) := by
        simp [keyOf, Row.vals, h]
      by_cases hk : keyOf a cs = keyOf b cs
      · simp [hk, this.mpr hk]
      · have : ¬ keyOf a (c :: cs) = keyOf b (c :: cs) := fun e => hk (this.mp e)
        simp [hk, this]
    · have hb : (a.get c == b.get c) = false := by simpa using h
      have : ¬ keyOf a (c :: cs) = keyOf b (c :: cs) := by
        simp [keyOf, Row.vals, h]
      simp [hb, this]

/-- rows that tie on `cs` are exactly the rows with equal `cs` cells -/
theorem tie_iff_keyOf (cs rv : List String) (a b : Row) :
    (rowLe cs rv a b = true ∧ rowLe cs rv b a = true) ↔ keyOf a cs = keyOf b cs := by
  rw [rowLe_tie_iff, keyOf_eq_iff]

theorem rowLe_single_num (c : String) (a b : Row) (x y : Nat) (ha : a.get c = Val.num (x : Nat))
    (hb : b.get c = Val.num (y : Nat)) : rowLe [c] [] a b = decide (x ≤ y) := by
  simp only [rowLe, cellEq, ha, hb, cellLe, Val.isNull, List.contains_nil, Bool.false_eq_true, if_false]
  by_cases h : x = y
  · subst h; simp
  · have hne : ((x : Rat) = (y : Rat)) = False := by
      simp only [eq_iff_iff, iff_false]
      intro e; exact h (by exact_mod_cast e)
    have hb : (Val.num (x : Nat) == Val.num (y : Nat)) = false := by
      simp only [beq_eq_false_iff_ne, ne_eq, Val.num.injEq]
      intro e; exact h (by exact_mod_cast e)
    simp only [hb, Bool.false_eq_true, if_false, Val.lt]
    by_cases hxy : x ≤ y
    · have : ¬ ((y : Rat) < (x : Rat)) := by
        intro e; have : y < x := by exact_mod_cast e
        omega
      simp [hxy, this]
    · have : ((y : Rat) < (x : Rat)) := by
        have : y < x := by omega
        exact_mod_cast this
      simp [hxy, this]

end DAVerif.Sol
