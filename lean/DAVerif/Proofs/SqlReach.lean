import DAVerif.Props.C26
import DAVerif.Spec.SqlSem
/-!
C01/C02: every pipeline the builders produce satisfies `Sql.SqlWF` (the structural facts the SQL translation proof
uses beyond `WF`): `C01_reachable_sqlwf`.  (`Sql.MapsOK` – unique dictionary keys, rename sources named once – is not
a consequence of the builder checks: the first half is true of every Python dict, the second is the guard of the
finding `C08_rename_twice_necessary`.)
-/
namespace DAVerif
namespace Sql
open Rules26

set_option linter.unusedSimpArgs false

theorem SqlWF.stripped {p : Ops} (h : SqlWF p) : SqlWF (DAVerif.strip p) := by
  fun_induction DAVerif.strip p with
  | case1 src _ _ ih =>
    apply ih
    simp only [SqlWF, sqlWFb, Bool.and_eq_true] at h
    exact h.1
  | case2 p _ => exact h

theorem SqlWF.extend_iff {s : Ops} {ops : Assign} {pa o r : List String} {w : Bool} :
    SqlWF (.extend s ops pa o r w) ↔ SqlWF s := Iff.rfl

theorem build_selectCols_sqlwf {p : Ops} (hs : SqlWF p) {cs : List String} {q : Ops}
    (h : selectColsB p cs = .ok q) : SqlWF q := by
  fun_induction selectColsB p cs with
  | case1 src _ _ cs ih =>
    apply ih _ h
    simp only [SqlWF, sqlWFb, Bool.and_eq_true] at hs
    exact hs.1
  | case2 src cs0 cs ih => exact ih hs (ok?_bind_ok.mp h).2
  | case3 src dels cs ih => exact ih hs (ok?_bind_ok.mp h).2
  | case4 self cs h1 h2 h3 =>
    simp only [mkSelectCols, ok?_bind_ok] at h
    obtain ⟨_, _, _, h⟩ := h
    simp only [pure_ok] at h
    subst h
    exact hs

/-- a successful builder call on a pipeline satisfying `SqlWF` (with `SqlWF` pipeline arguments) returns a
pipeline satisfying `SqlWF` -/
theorem build_sqlwf {p : Ops} (hs : SqlWF p) {s : Step} (hb : ∀ b ∈ stepArgs s, SqlWF b) {q : Ops}
    (h : build p s = .ok q) : SqlWF q := by
  cases s with
  | extend ops pa o r =>
    unfold build at h
    simp only [] at h
    obtain ⟨parsed, hpa, h2⟩ := bind_ok.mp h
    obtain ⟨rfl, _⟩ := parseAssignments_ok hpa
    by_cases hne : parsed.isEmpty = true
    · have : parsed = [] := by simpa using hne
      subst this
      rw [extendParsed.eq_def] at h2
      simp only [List.isEmpty_nil, ↓reduceIte, pure, Except.pure, Except.ok.injEq] at h2
      subst h2
      exact hs
    have hne' : parsed.isEmpty = false := by simpa using hne
    rw [extendParsed_strip _ _ _ _ _ hne'] at h2
    obtain ⟨_, _, h3⟩ := bind_ok.mp h2
    rcases extendTop_ok h3 with h4 | ⟨src, ops1, part1, order1, reverse1, windowed1, newOps, ht, _, h4⟩
    · obtain ⟨rfl, _⟩ := mkExtend_ok h4
      exact (SqlWF.stripped hs)
    · obtain ⟨rfl, _⟩ := mkExtend_ok h4
      have := (SqlWF.stripped hs)
      rw [ht] at this
      exact this
  | project ops group =>
    unfold build at h
    simp only [] at h
    obtain ⟨parsed, hpa, h2⟩ := bind_ok.mp h
    obtain ⟨rfl, hnd⟩ := parseAssignments_ok hpa
    rw [projectParsed_strip] at h2
    obtain ⟨_, hpre, h3⟩ := bind_ok.mp h2
    simp only [projectPre, workColGroup, bind_assoc, ok?_bind_ok, ok?_ok, pure_ok, disjoint_iff, nodupB_iff] at hpre
    obtain ⟨_, _, _, hdis⟩ := hpre
    simp only [mkProject, forIn_ok?, ok?_bind_ok, pure_ok, nodupB_iff, subset_iff] at h3
    obtain ⟨hsub, _, _, _, rfl⟩ := h3
    simp only [SqlWF, sqlWFb, Bool.and_eq_true, subset_iff, nodupB_iff, disjoint_iff]
    refine ⟨⟨⟨⟨(SqlWF.stripped hs), ?_⟩, ?_⟩, hnd⟩, hdis⟩
    · intro c hc; exact hsub c (List.mem_append_left _ hc)
    · intro c hc
      obtain ⟨kv, hkv, hx⟩ := List.mem_flatMap.mp hc
      exact hsub c (List.mem_append_right _ (mem_colsUsedOps.mpr ⟨kv, hkv, hx⟩))
  | selectRows e =>
    cases e with
    | none => simp only [build, Except.ok.injEq] at h; subst h; exact hs
    | some e =>
      simp only [build, selectRowsB_eq] at h
      obtain ⟨_, hpa, h⟩ := bind_ok.mp h
      simp only [Except.ok.injEq] at h
      subst h
      have hcols : ∀ c ∈ Term.colsRaw e, c ∈ p.cols := by
        rw [parseAssignments_eq] at hpa
        split at hpa
        · split at hpa
          · rename_i h2
            have h2' : ∀ c ∈ usedBy [("expr", e)], c ∈ p.cols := by simpa using h2
            intro c hc
            exact h2' c (by simpa [usedBy] using hc)
          · exact absurd hpa (by simp)
        · exact absurd hpa (by simp)
      simp only [SqlWF, sqlWFb, Bool.and_eq_true, subset_iff]
      exact ⟨(SqlWF.stripped hs), fun c hc => by rw [strip_cols]; exact hcols c hc⟩
  | selectCols cs =>
    simp only [build, ok?_bind_ok] at h
    exact build_selectCols_sqlwf hs h.2
  | dropCols cs =>
    simp only [build] at h
    split at h
    · simp only [Except.ok.injEq] at h; subst h; exact hs
    · simp only [dropColsB_eq, mkDropCols, ok?_bind_ok, pure_ok] at h
      obtain ⟨_, _, rfl⟩ := h
      exact (SqlWF.stripped hs)
  | order cs rev lim =>
    simp only [build] at h
    split at h
    · simp only [Except.ok.injEq] at h; subst h; exact hs
    · simp only [orderB_eq, mkOrder, ok?_bind_ok, pure_ok, subset_iff] at h
      obtain ⟨hsub, _, rfl⟩ := h
      simp only [SqlWF, sqlWFb, Bool.and_eq_true, subset_iff]
      exact ⟨(SqlWF.stripped hs), hsub⟩
  | rename m =>
    simp only [build] at h
    split at h
    · simp only [Except.ok.injEq] at h; subst h; exact hs
    · simp only [renameB_eq, mkRename, ok?_bind_ok, pure_ok, nodupB_iff, subset_iff] at h
      obtain ⟨hsub, hcoll, _, rfl⟩ := h
      simp only [SqlWF, sqlWFb, Bool.and_eq_true, subset_iff, List.all_eq_true, Bool.or_eq_true,
        Bool.not_eq_eq_eq_not, Bool.not_true, List.contains_eq_mem, decide_eq_false_iff_not, decide_eq_true_eq]
      refine ⟨⟨(SqlWF.stripped hs), hsub⟩, ?_⟩
      intro kv hkv
      by_cases hin : kv.1 ∈ (DAVerif.strip p).cols
      · right
        apply Classical.byContradiction
        intro hno
        have hmem : kv.1 ∈ ((DAVerif.strip p).cols.filter
            (fun c => !(inter (m.map (·.1)) (m.map (·.2))).contains c)).filter
            (fun c => (m.map (·.1)).contains c) := by
          apply List.mem_filter.mpr
          refine ⟨List.mem_filter.mpr ⟨hin, ?_⟩, ?_⟩
          · simp only [List.contains_eq_mem, Bool.not_eq_eq_eq_not, Bool.not_true, decide_eq_false_iff_not,
              mem_inter, not_and]
            intro _; exact hno
          · simp only [List.contains_eq_mem, decide_eq_true_eq]
            exact List.mem_map.mpr ⟨kv, hkv, rfl⟩
        rw [List.isEmpty_iff.mp hcoll] at hmem
        cases hmem
      · exact Or.inl hin
  | mapCols m =>
    simp only [build] at h
    split at h
    · simp only [Except.ok.injEq] at h; subst h; exact hs
    · simp only [mapColsB_eq, mkMapCols, ok?_bind_ok, pure_ok, nodupB_iff, subset_iff] at h
      obtain ⟨hsub, hcoll, _, _, rfl⟩ := h
      simp only [SqlWF, sqlWFb, Bool.and_eq_true, subset_iff, List.all_eq_true, Bool.or_eq_true,
        Bool.not_eq_eq_eq_not, Bool.not_true, List.contains_eq_mem, decide_eq_false_iff_not, decide_eq_true_eq]
      refine ⟨⟨⟨(SqlWF.stripped hs), ?_⟩, ?_⟩, ?_⟩
      · intro c hc
        obtain ⟨kv, hkv, rfl⟩ := List.mem_map.mp hc
        obtain ⟨kv0, hkv0, e⟩ := List.mem_filterMap.mp hkv
        cases hv : kv0.2 with
        | none => simp [hv] at e
        | some v =>
          simp only [hv, Option.map_some, Option.some.injEq] at e
          subst e
          exact hsub kv0.1 (List.mem_map.mpr ⟨kv0, hkv0, rfl⟩)
      · intro c hc
        obtain ⟨kv0, hkv0, rfl⟩ := List.mem_map.mp hc
        exact hsub kv0.1 (List.mem_map.mpr ⟨kv0, (List.mem_filter.mp hkv0).1, rfl⟩)
      · intro kv hkv
        by_cases hin : kv.2 ∈ (DAVerif.strip p).cols
        · apply Classical.byContradiction
          intro hno
          simp only [not_or] at hno
          obtain ⟨⟨_, hno1⟩, hno2⟩ := hno
          -- `kv.2` is a new name that is a source column: it must be one of the dictionary's keys
          have hnew : kv.2 ∈ (m.filterMap (fun kv => kv.2.map (fun v => (kv.1, v)))).map (·.2) :=
            List.mem_map.mpr ⟨kv, hkv, rfl⟩
          have hkey : kv.2 ∈ m.map (·.1) := by
            apply Classical.byContradiction
            intro hk
            have hmem : kv.2 ∈ ((DAVerif.strip p).cols.filter
                (fun c => !(inter ((m.filterMap (fun kv => kv.2.map (fun v => (kv.1, v)))).map (·.2))
                  (m.map (·.1))).contains c)).filter
                (fun c => ((m.filterMap (fun kv => kv.2.map (fun v => (kv.1, v)))).map (·.2)).contains c) := by
              apply List.mem_filter.mpr
              refine ⟨List.mem_filter.mpr ⟨hin, ?_⟩, ?_⟩
              · simp only [List.contains_eq_mem, Bool.not_eq_eq_eq_not, Bool.not_true, decide_eq_false_iff_not,
                  mem_inter, not_and]
                intro _; exact hk
              · simp only [List.contains_eq_mem, decide_eq_true_eq]
                exact hnew
            rw [List.isEmpty_iff.mp hcoll] at hmem
            cases hmem
          obtain ⟨kv0, hkv0, e0⟩ := List.mem_map.mp hkey
          cases hv : kv0.2 with
          | none =>
            apply hno2
            exact List.mem_map.mpr ⟨kv0, List.mem_filter.mpr ⟨hkv0, by simp [hv]⟩, e0⟩
          | some v =>
            apply hno1
            exact List.mem_map.mpr ⟨(kv0.1, v), List.mem_filterMap.mpr ⟨kv0, hkv0, by simp [hv]⟩, e0⟩
        · exact Or.inl (Or.inl hin)
  | join b onA onB jt check =>
    have hbw : SqlWF b := hb b (by simp [stepArgs])
    simp only [build, joinB_eq, mkJoin, ok?_bind_ok] at h
    obtain ⟨_, _, _, _, h⟩ := h
    have hq : ∃ t, q = .join (DAVerif.strip p) b onA onB t := by
      cases check
      · simp only [Bool.false_eq_true, ↓reduceIte] at h
        split at h
        · exact absurd h (by simp [throw, throwThe, MonadExceptOf.throw])
        · simp only [ok?_bind_ok, pure_ok] at h
          exact ⟨_, h.2.symm⟩
      · simp only [↓reduceIte, ok?_bind_ok] at h
        obtain ⟨_, h⟩ := h
        split at h
        · exact absurd h (by simp [throw, throwThe, MonadExceptOf.throw])
        · simp only [ok?_bind_ok, pure_ok] at h
          exact ⟨_, h.2.symm⟩
    obtain ⟨t, rfl⟩ := hq
    simp only [SqlWF, sqlWFb, Bool.and_eq_true]
    exact ⟨(SqlWF.stripped hs), hbw⟩
  | concat b idc an bn =>
    cases b with
    | none => simp only [build, Except.ok.injEq] at h; subst h; exact hs
    | some b =>
      have hbw : SqlWF b := hb b (by simp [stepArgs])
      simp only [build, concatB_eq, mkConcat, ok?_bind_ok] at h
      obtain ⟨_, _, h⟩ := h
      cases idc with
      | none =>
        simp only [pure_bind, pure_ok] at h
        subst h
        simp only [SqlWF, sqlWFb, Bool.and_eq_true]
        exact ⟨(SqlWF.stripped hs), hbw⟩
      | some c =>
        simp only [ok?_bind_ok, pure_ok] at h
        obtain ⟨_, rfl⟩ := h
        simp only [SqlWF, sqlWFb, Bool.and_eq_true]
        exact ⟨(SqlWF.stripped hs), hbw⟩
  | convert rm =>
    cases rm with
    | none => simp only [build, Except.ok.injEq] at h; subst h; exact hs
    | some rm =>
      simp only [build, convertB_eq, mkConvert, ok?_bind_ok, pure_ok, nodupB_iff] at h
      obtain ⟨_, _, _, rfl⟩ := h
      exact (SqlWF.stripped hs)

end Sql
open Sql

/-- **Every pipeline obtained from table descriptions by builder calls satisfies `SqlWF`.** -/
theorem C01_reachable_sqlwf {p : Ops} (h : Reachable p) : SqlWF p := by
  induction h with
  | table name cs hne hnd => rfl
  | @step p s q _ _ hb ihp ihb => exact build_sqlwf ihp ihb hb

end DAVerif
