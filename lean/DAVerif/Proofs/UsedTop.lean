import DAVerif.Proofs.UsedSem
/-!
C10, from the main induction to the statements about `columnsUsed`: table scans under the two hypotheses the
property theorems use (environments agreeing on the report / environment restricted to the report), the records
`columnsUsed` starts from, and row equality from agreement on all (duplicate-free) columns.
-/
namespace DAVerif
open Ops

theorem narrowWith_id (p : Ops) : narrowWith (fun _ cs => cs) p = p := by
  induction p <;> simp [narrowWith, *]

theorem rowsAgree_of_cover {us0 w : List String} {l l' : List Row} (h0 : RowsAgree us0 l l')
    (h : ∀ c ∈ w, ∃ us, c ∈ us ∧ RowsAgree us l l') : RowsAgree w l l' := by
  induction h0 with
  | nil => exact .nil
  | cons hr _ ih =>
    refine .cons ?_ (ih ?_)
    · intro c hc
      obtain ⟨us, hcu, hag⟩ := h c hc
      cases hag with
      | cons h1 _ => exact h1 c hcu
    · intro c hc
      obtain ⟨us, hcu, hag⟩ := h c hc
      cases hag with
      | cons _ h2 => exact ⟨us, hcu, h2⟩

/-- `select` of rows that agree on `w`, onto the same column list -/
theorem select_same_congr {w' w cs : List String} {l l' : List Row} (h : RowsAgree w' l l')
    (hw : ∀ c ∈ w, c ∈ w') : RowsAgree w (l.map (·.select cs)) (l'.map (·.select cs)) := by
  apply Forall₂.map' h
  intro r r' hr c hc
  rw [Row.get_select, Row.get_select]
  split
  · exact hr c (hw c hc)
  · rfl

/-- the records `columns_used` starts from: an empty entry for every table key -/
def initUsed (p : Ops) : Used := (p.tables.map (·.1)).eraseDups.map (fun k => (k, []))

/-- the initial records have an entry for every table of the pipeline, hence so has the result of a run -/
theorem run_has_entry {p : Ops} {u : List String} {U : Used} (h : Run p u (initUsed p) U) {k : String}
    {cs : List String} (hk : (k, cs) ∈ p.tables) : ∃ us, (k, us) ∈ U := by
  have hle := run_mono _ _ _ _ h
  have : (k, ([] : List String)) ∈ initUsed p := by
    apply List.mem_map.mpr
    exact ⟨k, List.mem_eraseDups.mpr (List.mem_map.mpr ⟨(k, cs), hk, rfl⟩), rfl⟩
  obtain ⟨us, hus, _⟩ := hle k [] this
  exact ⟨us, hus⟩

theorem run_of_columnsUsed {p : Ops} {U : Used} (h : columnsUsed p = .ok U) : Run p p.cols (initUsed p) U :=
  run_of_aux p p.cols _ U h

theorem scan_of_envAgree (Θ : Interp) (cfg : SemCfg) {U : Used} {env env' : Env} (h : EnvAgree U env env')
    (tbls : List (String × List String)) (hent : ∀ k cs, (k, cs) ∈ tbls → ∃ us, (k, us) ∈ U) :
    ScanAgree Θ cfg (fun _ cs => cs) env env' tbls U := by
  intro k cs hk w hw
  refine ⟨fun c _ hc => hc, ?_⟩
  obtain ⟨us0, hus0⟩ := hent k cs hk
  have h0 := h k us0 hus0
  simp only [sem]
  cases e : env.lookup k <;> cases e' : env'.lookup k <;> simp only [e, e'] at h0
  · rfl
  · rename_i t t'
    obtain ⟨hc0, hr0⟩ := h0
    have hall : RowsAgree w t.rows t'.rows := by
      apply rowsAgree_of_cover hr0
      intro c hc
      obtain ⟨us, hus, hcu⟩ := hw c hc
      have := h k us hus
      simp only [e, e'] at this
      exact ⟨us, hcu, this.2⟩
    dsimp only
    rw [← hc0]
    split
    · exact select_same_congr hall (fun c hc => hc)
    · rfl

theorem lookup_restrictEnv (U : Used) (env : Env) (k : String) :
    (restrictEnv U env).lookup k = (env.lookup k).map (fun t => t.restrict (U.colsOf k)) := by
  unfold restrictEnv
  induction env with
  | nil => rfl
  | cons kt env ih =>
    obtain ⟨k1, t⟩ := kt
    simp only [List.map_cons, List.lookup_cons]
    by_cases hk : k == k1
    · have : k = k1 := by simpa using hk
      subst this
      simp
    · simp only [hk]
      exact ih

theorem mem_colsOf {U : Used} {k c : String} : c ∈ U.colsOf k ↔ Covers U k c := by
  simp only [Used.colsOf, List.mem_flatMap, List.mem_filter, Covers]
  constructor
  · rintro ⟨kv, ⟨hkv, hk⟩, hc⟩
    have : kv.1 = k := by simpa using hk
    exact ⟨kv.2, by rw [← this]; exact hkv, hc⟩
  · rintro ⟨us, hus, hc⟩
    exact ⟨(k, us), ⟨hus, by simp⟩, hc⟩

theorem scan_of_restrict (Θ : Interp) (cfg : SemCfg) (U : Used) (env : Env)
    (tbls : List (String × List String))
    (hconf : ∀ k cs, (k, cs) ∈ tbls → ∃ t, env.lookup k = some t ∧ subset cs t.cols = true) :
    ScanAgree Θ cfg (narrowCols U) env (restrictEnv U env) tbls U := by
  intro k cs hk w hw
  refine ⟨fun c hc hcs => ?_, ?_⟩
  · simp only [narrowCols]
    exact mem_filter_contains.mpr ⟨hcs, mem_colsOf.mpr (hw c hc)⟩
  · obtain ⟨t, ht, hsub⟩ := hconf k cs hk
    have hsub' := subset_iff_u.mp hsub
    simp only [sem, lookup_restrictEnv, ht, hsub, if_true, Option.map_some]
    have hs2 : subset (narrowCols U k cs) (t.restrict (U.colsOf k)).cols = true := by
      apply subset_iff_u.mpr
      intro c hc
      simp only [narrowCols] at hc
      obtain ⟨h1, h2⟩ := mem_filter_contains.mp hc
      simp only [Table.restrict, Table.selectCols]
      exact mem_filter_contains.mpr ⟨hsub' c h1, h2⟩
    simp only [hs2, if_true]
    show RowsAgree w _ _
    simp only [Table.selectCols, Table.restrict, List.map_map]
    apply forall₂_map_same
    intro r _ c hc
    simp only [Function.comp]
    rw [Row.get_select, Row.get_select]
    have hcov := mem_colsOf.mpr (hw c hc)
    by_cases hcs : c ∈ cs
    · have h1 : c ∈ narrowCols U k cs := mem_filter_contains.mpr ⟨hcs, hcov⟩
      have h2 : c ∈ t.cols.filter (fun c => (U.colsOf k).contains c) :=
        mem_filter_contains.mpr ⟨hsub' c hcs, hcov⟩
      simp only [hcs, h1, if_true, Row.get_select_of_mem h2]
    · have h1 : c ∉ narrowCols U k cs := fun h => hcs (mem_filter_contains.mp h).1
      simp only [hcs, h1, if_false]

/-! ### rows with the same duplicate-free keys that agree everywhere are equal -/

theorem Row.ext_of_nodup : ∀ (r r' : Row), r.keys = r'.keys → r.keys.Nodup →
    (∀ c ∈ r.keys, r.get c = r'.get c) → r = r'
  | [], [], _, _, _ => rfl
  | [], _ :: _, h, _, _ => by simp [Row.keys] at h
  | _ :: _, [], h, _, _ => by simp [Row.keys] at h
  | (k, x) :: r, (k', x') :: r', hk, hn, h => by
    simp only [Row.keys, List.map_cons, List.cons.injEq] at hk
    obtain ⟨rfl, hk⟩ := hk
    simp only [Row.keys, List.map_cons, List.nodup_cons] at hn
    have hx : x = x' := by
      have := h k (by simp [Row.keys])
      simpa [Row.get_cons] using this
    subst hx
    have : r = r' := by
      apply Row.ext_of_nodup r r' hk hn.2
      intro c hc
      have hne : c ≠ k := fun e => hn.1 (e ▸ hc)
      have := h c (by simp only [Row.keys, List.map_cons, List.mem_cons]; exact .inr hc)
      have hb : (c == k) = false := by simpa using hne
      simpa [Row.get_cons, hb] using this
    rw [this]

theorem table_eq_of_agree {t t' : Table} (hc : t.cols = t'.cols) (hw : t.WF) (hw' : t'.WF) (hn : t.cols.Nodup)
    (h : RowsAgree t.cols t.rows t'.rows) : t = t' := by
  have hrows : t.rows = t'.rows := by
    have : ∀ (l l' : List Row), (∀ r ∈ l, r.keys = t.cols) → (∀ r ∈ l', r.keys = t.cols) →
        RowsAgree t.cols l l' → l = l' := by
      intro l l' h1 h2 hag
      induction hag with
      | nil => rfl
      | @cons a b l l' hr _ ih =>
        have e : a = b := by
          apply Row.ext_of_nodup a b
          · rw [h1 a List.mem_cons_self, h2 b List.mem_cons_self]
          · rw [h1 a List.mem_cons_self]; exact hn
          · intro c hc'
            rw [h1 a List.mem_cons_self] at hc'
            exact hr c hc'
        rw [e, ih (fun r hr => h1 r (List.mem_cons_of_mem _ hr)) (fun r hr => h2 r (List.mem_cons_of_mem _ hr))]
    exact this _ _ hw (fun r hr => by rw [hw' r hr, hc]) h
  cases t; cases t'
  simp only at hc hrows
  subst hc hrows
  rfl

end DAVerif
