import DAVerif.Proofs.Valid
/-!
Semantic soundness of the builder simplifications (C06), in `applyNode` form: for every builder function, the
pipeline it returns evaluates – up to row order and column order – to the node's operator applied to the
evaluated receiver.  Used by `Props/C06.lean` (chains) and `Props/C07.lean` (composition re-runs the builders).
-/
namespace DAVerif

variable {Θ : Interp} {cfg : SemCfg} {env : Env}

/-! ### table leaves and environments -/

theorem sem_table_self (Θ : Interp) (cfg : SemCfg) (env : Env) (n : String) {t : Table} (hw : t.WF)
    (hn : t.cols.Nodup) : sem Θ cfg ((n, t) :: env) (.table n t.cols) = .ok t := by
  simp only [sem, List.lookup_cons, beq_self_eq_true, subset_refl, if_true, Table.selectCols_self hw hn]

/-- `sem` only looks up the tables of the pipeline -/
theorem sem_env_congr (Θ : Interp) (cfg : SemCfg) {env env' : Env} (p : Ops)
    (h : ∀ k ∈ p.tables.map (·.1), env.lookup k = env'.lookup k) : sem Θ cfg env p = sem Θ cfg env' p := by
  induction p with
  | table n cs => simp only [sem, h n (by simp [Ops.tables])]
  | join a b oa ob jt iha ihb =>
    simp only [sem]
    rw [iha (fun k hk => h k (by simp only [Ops.tables, List.map_append, List.mem_append]; exact Or.inl hk)),
      ihb (fun k hk => h k (by simp only [Ops.tables, List.map_append, List.mem_append]; exact Or.inr hk))]
  | concat a b idc an bn iha ihb =>
    simp only [sem]
    rw [iha (fun k hk => h k (by simp only [Ops.tables, List.map_append, List.mem_append]; exact Or.inl hk)),
      ihb (fun k hk => h k (by simp only [Ops.tables, List.map_append, List.mem_append]; exact Or.inr hk))]
  | extend s ops part od rv w ih => simp only [sem]; rw [ih h]
  | project s ops g ih => simp only [sem]; rw [ih h]
  | selectRows s e ih => simp only [sem]; rw [ih h]
  | selectCols s cs ih => simp only [sem]; rw [ih h]
  | dropCols s ds ih => simp only [sem]; rw [ih h]
  | order s cs rv lim ih => simp only [sem]; rw [ih h]
  | rename s m ih => simp only [sem]; rw [ih h]
  | mapCols s m ds ih => simp only [sem]; rw [ih h]
  | convert s rm ih => simp only [sem]; rw [ih h]

theorem sem_cons_fresh (Θ : Interp) (cfg : SemCfg) (env : Env) (n : String) (t : Table) (b : Ops)
    (hn : n ∉ b.tables.map (·.1)) : sem Θ cfg ((n, t) :: env) b = sem Θ cfg env b := by
  apply sem_env_congr
  intro k hk
  have : (k == n) = false := by
    simp only [beq_eq_false_iff_ne, ne_eq]
    rintro rfl
    exact hn hk
  simp only [List.lookup_cons, this]

/-! ### `trivial_order_elim_sound`: removing `order_rows` steps without limit keeps the multiset of rows -/

theorem semOrder_none_equiv (cs rv : List String) (t : Table) : semOrder cs rv none t ≈ t :=
  ⟨rfl, sortRows_perm cs rv t.rows⟩

/-- **`trivial_order_elim_sound`.**  The receiver without the `order_rows` steps (without limit) at its top
evaluates to the same error, or to a table with the same columns and the same multiset of rows. -/
theorem sem_strip (Θ : Interp) (cfg : SemCfg) (env : Env) (p : Ops) :
    ResEquiv (sem Θ cfg env p.strip) (sem Θ cfg env p) := by
  induction p with
  | order s cs rv lim ih =>
    cases lim with
    | some n => exact ResEquiv.refl _
    | none =>
      simp only [Ops.strip_order_none, sem]
      cases hs : sem Θ cfg env s with
      | error e =>
        rw [hs] at ih
        have := ih.symm.of_error rfl
        rw [this]; exact rfl
      | ok t =>
        rw [hs] at ih
        obtain ⟨t0, h0, ht⟩ := ih.symm.of_ok rfl
        rw [h0]
        exact ht.symm.trans (semOrder_none_equiv cs rv t).symm
  | _ => exact ResEquiv.refl _

/-! ### the generic step: a node constructed on the stripped receiver -/

theorem NodeScope.perm {N : Ops} {rows rows' : List Row} (h : NodeScope Θ N rows) (hp : rows.Perm rows') :
    NodeScope Θ N rows' := by
  cases N with
  | extend s ops part od rv w => exact fun hw => (h hw).perm hp
  | order s cs rv lim =>
    cases lim with
    | none => trivial
    | some n => exact LimitOK.perm h hp
  | project s ops g => exact h
  | _ => trivial

/-- results of `sem` on valid pipelines are well-formed tables with pairwise different columns -/
theorem sem_wf_nodup (hΘ : ConvertOK Θ) {p : Ops} (hv : p.valid = true) {t : Table}
    (h : sem Θ cfg env p = .ok t) : t.WF ∧ t.cols.Nodup :=
  ⟨sem_wf hΘ h, by rw [sem_cols hΘ h]; exact Ops.valid_cols_nodup hv⟩

/-- evaluating the stripped receiver and applying a (unary) node's operator is, up to row and column order,
evaluating the receiver and applying the operator -/
theorem strip_apply_congr (hΘ : ConvertOK Θ) (hC : ConvertInvariant Θ) {self : Ops} (hv : self.valid = true)
    (N : Ops) (hs : ∀ t, sem Θ cfg env self = .ok t → NodeScope Θ N t.rows)
    (hc : ∀ t, sem Θ cfg env self = .ok t → NodeColsOK N t.cols) :
    ResEquivC (sem Θ cfg env self.strip >>= fun t => applyNode Θ cfg N t t)
      (sem Θ cfg env self >>= fun t => applyNode Θ cfg N t t) := by
  apply ResEquivC.symm
  apply ResEquivC.bind
  · exact ResEquivC.refl_of_equiv (sem_strip Θ cfg env self).symm (fun t ht => sem_wf_nodup hΘ hv ht)
  · intro t t' ht _ htt
    exact applyNode_congrC Θ cfg hC N htt htt (hs t ht) (hc t ht)

/-- the same for a join / concat node (the second source is evaluated as it is) -/
theorem strip_apply_congr₂ (hΘ : ConvertOK Θ) (hC : ConvertInvariant Θ) {self b : Ops} (hv : self.valid = true)
    (hvb : b.valid = true) (N : Ops) (hs : ∀ t, sem Θ cfg env self = .ok t → NodeScope Θ N t.rows)
    (hc : ∀ t, sem Θ cfg env self = .ok t → NodeColsOK N t.cols) :
    ResEquivC (sem Θ cfg env self.strip >>= fun ta => sem Θ cfg env b >>= fun tb => applyNode Θ cfg N ta tb)
      (sem Θ cfg env self >>= fun ta => sem Θ cfg env b >>= fun tb => applyNode Θ cfg N ta tb) := by
  apply ResEquivC.symm
  apply ResEquivC.bind
  · exact ResEquivC.refl_of_equiv (sem_strip Θ cfg env self).symm (fun t ht => sem_wf_nodup hΘ hv ht)
  · intro ta ta' hta _ htt
    cases hb : sem Θ cfg env b with
    | error e => exact rfl
    | ok tb =>
      have hwb := sem_wf_nodup hΘ hvb hb
      exact applyNode_congrC Θ cfg hC N htt (Table.EquivC.refl hwb.1 hwb.2) (hs ta hta) (hc ta hta)

/-- the node with its first source replaced -/
def Ops.reSrc : Ops → Ops → Ops
  | .table n cs, _ => .table n cs
  | .extend _ ops p o r w, a => .extend a ops p o r w
  | .project _ ops g, a => .project a ops g
  | .selectRows _ e, a => .selectRows a e
  | .selectCols _ cs, a => .selectCols a cs
  | .dropCols _ ds, a => .dropCols a ds
  | .order _ cs rv lim, a => .order a cs rv lim
  | .rename _ m, a => .rename a m
  | .mapCols _ m ds, a => .mapCols a m ds
  | .join _ b oa ob jt, a => .join a b oa ob jt
  | .concat _ b idc an bn, a => .concat a b idc an bn
  | .convert _ rm, a => .convert a rm

/-- the operator of a node does not depend on the node's sources -/
theorem applyNode_reSrc (Θ : Interp) (cfg : SemCfg) (N a : Ops) (ta tb : Table) :
    applyNode Θ cfg (N.reSrc a) ta tb = applyNode Θ cfg N ta tb := by
  cases N <;> rfl

/-- a unary node constructed on the stripped receiver -/
theorem node_on_strip_sem (hΘ : ConvertOK Θ) (hC : ConvertInvariant Θ) {self p' : Ops} (hv : self.valid = true)
    (hA : p'.srcA = self.strip) (hB : p'.srcB = none) (hT : ∀ n cs, p' ≠ .table n cs)
    (hs : ∀ t, sem Θ cfg env self = .ok t → NodeScope Θ p' t.rows)
    (hc : ∀ t, sem Θ cfg env self = .ok t → NodeColsOK p' t.cols) :
    ResEquivC (sem Θ cfg env p') (sem Θ cfg env self >>= fun t => applyNode Θ cfg p' t t) := by
  rw [sem_eq_applyNode_unary Θ hΘ cfg env p' hB hT, hA]
  exact strip_apply_congr hΘ hC hv p' hs hc

/-- a join / concat node constructed on the stripped receiver -/
theorem node_on_strip_sem₂ (hΘ : ConvertOK Θ) (hC : ConvertInvariant Θ) {self b p' : Ops}
    (hv : self.valid = true) (hvb : b.valid = true) (hA : p'.srcA = self.strip) (hB : p'.srcB = some b)
    (hs : ∀ t, sem Θ cfg env self = .ok t → NodeScope Θ p' t.rows)
    (hc : ∀ t, sem Θ cfg env self = .ok t → NodeColsOK p' t.cols) :
    ResEquivC (sem Θ cfg env p')
      (sem Θ cfg env self >>= fun ta => sem Θ cfg env b >>= fun tb => applyNode Θ cfg p' ta tb) := by
  rw [sem_eq_applyNode_binary Θ hΘ cfg env p' b hB, hA]
  exact strip_apply_congr₂ hΘ hC hv hvb p' hs hc

/-! ### `select_collapse_sound` -/

theorem Ops.selectBase_not_select : ∀ (p : Ops) (s : Ops) (cs : List String), p.selectBase ≠ .selectCols s cs
  | .order src _ _ none, s, cs => by simp only [Ops.selectBase]; exact Ops.selectBase_not_select src s cs
  | .selectCols src _, s, cs => by simp only [Ops.selectBase]; exact Ops.selectBase_not_select src s cs
  | .dropCols src _, s, cs => by simp only [Ops.selectBase]; exact Ops.selectBase_not_select src s cs
  | .order _ _ _ (some _), _, _ => by simp [Ops.selectBase]
  | .table .., _, _ | .extend .., _, _ | .project .., _, _ | .selectRows .., _, _
  | .rename .., _, _ | .mapCols .., _, _ | .join .., _, _ | .concat .., _, _ | .convert .., _, _ => by
    simp [Ops.selectBase]

theorem selectNode_selectBase (p : Ops) (cs : List String) :
    selectNode p.selectBase cs = .selectCols p.selectBase cs := by
  have := Ops.selectBase_not_select p
  cases h : p.selectBase with
  | selectCols s cs0 => exact absurd h (this s cs0)
  | _ => rfl

/-- **`select_collapse_sound`.**  Selecting `cs` from the node below the column selections / deletions (and
trivial `order_rows` steps) at the top of the receiver gives the same error, or the same columns `cs` and the
same multiset of rows, as selecting `cs` from the receiver – provided `cs` is among the columns of each
selection on the way (which `select_columns` checks, after fix D4). -/
theorem select_collapse_sound (Θ : Interp) (cfg : SemCfg) (env : Env) (self : Ops) (cs : List String)
    (hg : self.selectGuards.all (fun g => subset cs g) = true) :
    ResEquiv (sem Θ cfg env self.selectBase >>= fun t => .ok (t.selectCols cs))
      (sem Θ cfg env self >>= fun t => .ok (t.selectCols cs)) := by
  induction self with
  | order s cs' rv lim ih =>
    cases lim with
    | some n => exact ResEquiv.refl _
    | none =>
      simp only [Ops.selectBase, sem]
      refine (ih hg).trans ?_
      cases hs : sem Θ cfg env s with
      | error e => exact rfl
      | ok t => exact ((semOrder_none_equiv cs' rv t).selectCols cs).symm
  | selectCols s cs0 ih =>
    simp only [Ops.selectGuards, List.all_cons, Bool.and_eq_true] at hg
    simp only [Ops.selectBase, sem]
    refine (ih hg.2).trans ?_
    cases hs : sem Θ cfg env s with
    | error e => exact rfl
    | ok t =>
      show ResEquiv (.ok (t.selectCols cs)) (.ok ((t.selectCols cs0).selectCols cs))
      rw [Table.selectCols_selectCols _ (subset_iffC.mp hg.1)]
      exact ResEquiv.refl _
  | dropCols s ds ih =>
    simp only [Ops.selectGuards, List.all_cons, Bool.and_eq_true] at hg
    simp only [Ops.selectBase, sem]
    refine (ih hg.2).trans ?_
    cases hs : sem Θ cfg env s with
    | error e => exact rfl
    | ok t =>
      show ResEquiv (.ok (t.selectCols cs)) (.ok ((t.selectCols _).selectCols cs))
      rw [Table.selectCols_selectCols _ (subset_iffC.mp hg.1)]
      exact ResEquiv.refl _
  | _ => exact ResEquiv.refl _

/-- `select_columns`, in `applyNode` form -/
theorem selectColsB_sem {self p' : Ops} {cs : List String} (hv : self.valid = true)
    (h : selectColsB self cs = .ok p') :
    ResEquiv (sem Θ cfg env p') (sem Θ cfg env self >>= fun t => applyNode Θ cfg (.selectCols self cs) t t) ∧
    p'.cols = cs ∧ cs.Nodup ∧ (∀ c ∈ cs, c ∈ self.cols) := by
  rw [selectColsB_eq] at h
  obtain ⟨u, hg, h2⟩ := except_bind_eq_ok.mp h
  rw [ok?_eq_ok] at hg
  rw [mkSelectCols_eq] at h2
  obtain ⟨u', hchk, h3⟩ := except_bind_eq_ok.mp h2
  rw [selectNode_selectBase] at h3
  cases h3
  simp only [selectChk, ok?_bind_eq_ok, ok?_eq_ok] at hchk
  refine ⟨?_, rfl, nodupB_iffC.mp hchk.2.2, ?_⟩
  · simp only [sem, applyNode]
    exact select_collapse_sound Θ cfg env self cs hg
  · -- the selected columns are columns of the receiver: of the base, hence (by validity) of every selection above
    have : ∀ (q : Ops), q.valid = true → q.selectGuards.all (fun g => subset cs g) = true →
        (∀ c ∈ cs, c ∈ q.selectBase.cols) → ∀ c ∈ cs, c ∈ q.cols := by
      intro q
      induction q with
      | order s cs' rv lim ih =>
        cases lim with
        | some n => intro _ _ hb; exact hb
        | none =>
          intro hq hgq hb
          exact ih (Ops.valid_srcA (p := .order s cs' rv none) hq) hgq hb
      | selectCols s cs0 ih =>
        intro _ hgq _
        simp only [Ops.selectGuards, List.all_cons, Bool.and_eq_true] at hgq
        exact subset_iffC.mp hgq.1
      | dropCols s ds ih =>
        intro _ hgq _
        simp only [Ops.selectGuards, List.all_cons, Bool.and_eq_true] at hgq
        exact subset_iffC.mp hgq.1
      | _ => intro _ _ hb; exact hb
    exact this self hv hg (subset_iffC.mp hchk.2.1)

/-! ### `extend`: merging into a preceding `extend` -/

theorem impliesWindowed_of_subset {o o' : Assign} (h : ∀ kv ∈ o, kv ∈ o') (hw : impliesWindowed o = true) :
    impliesWindowed o' = true := by
  simp only [impliesWindowed, List.any_eq_true] at hw ⊢
  obtain ⟨kv, hkv, hh⟩ := hw
  exact ⟨kv, h kv hkv, hh⟩

theorem impliesWindowed_of_union {o o1 o2 : Assign} (h : ∀ kv ∈ o, kv ∈ o1 ∨ kv ∈ o2)
    (hw : impliesWindowed o = true) : impliesWindowed o1 = true ∨ impliesWindowed o2 = true := by
  simp only [impliesWindowed, List.any_eq_true] at hw ⊢
  obtain ⟨kv, hkv, hh⟩ := hw
  rcases h kv hkv with h1 | h2
  · exact Or.inl ⟨kv, h1, hh⟩
  · exact Or.inr ⟨kv, h2, hh⟩

theorem stepWindowed_eq (ops : Assign) (pa : PartArg) (od : List String) :
    stepWindowed ops pa od = (impliesWindowed ops || stepWindowed [] pa od) := by
  cases pa <;> simp [stepWindowed, impliesWindowed, Bool.or_assoc]

/-- the facts about an `extend` node of a valid pipeline -/
theorem extend_nodeOk {src : Ops} {ops : Assign} {part od rv : List String} {w : Bool}
    (h : (Ops.extend src ops part od rv w).valid = true) :
    subset part src.cols = true ∧ subset od src.cols = true ∧
    disjoint (ops.map (·.1)) (part ++ od ++ rv) = true ∧
    ((impliesWindowed ops || !part.isEmpty || !od.isEmpty) = true → w = true) := by
  have hn := Ops.valid_nodeOk h
  simp only [Ops.nodeOk, Bool.and_eq_true] at hn
  obtain ⟨⟨⟨⟨⟨⟨⟨⟨⟨⟨⟨_, _⟩, _⟩, _⟩, _⟩, h5⟩, h6⟩, _⟩, h8⟩, _⟩, _⟩, h11⟩ := hn
  refine ⟨h5, h6, h8, ?_⟩
  intro hi
  rw [hi] at h11
  simpa using h11

/-- **Soundness of the `extend` merge, at the level of pipelines.**  When `extend` on an `extend` node `q` merges
(or not), the resulting pipeline evaluates exactly to: `q`, then the new `extend` on the materialised result,
with the columns put in the order the resulting pipeline declares. -/
theorem extendTop_sem (hΘ : ConvertOK Θ) {q : Ops} {ops : Assign} {pa : PartArg} {od rv : List String}
    {p' : Ops} (hq : q.valid = true) (hnt : q.isTrivialWhenIntermediate = false)
    (h : extendTopC q ops pa od rv = .ok p') :
    sem Θ cfg env p' = (sem Θ cfg env q >>= fun t =>
      applyNode Θ cfg (.extend q ops pa.cols' od rv (stepWindowed ops pa od)) t t >>= fun t2 =>
        .ok (t2.selectCols p'.cols)) ∧
    (∀ c, c ∈ p'.cols ↔ c ∈ q.cols ∨ c ∈ ops.map (·.1)) := by
  -- the case without merge
  have plain : mkExtend q ops pa od rv = .ok p' →
      sem Θ cfg env p' = (sem Θ cfg env q >>= fun t =>
        applyNode Θ cfg (.extend q ops pa.cols' od rv (stepWindowed ops pa od)) t t >>= fun t2 =>
          .ok (t2.selectCols p'.cols)) ∧
      (∀ c, c ∈ p'.cols ↔ c ∈ q.cols ∨ c ∈ ops.map (·.1)) := by
    intro hm
    rw [mkExtend_eqC] at hm
    obtain ⟨u, _, hp⟩ := except_bind_eq_ok.mp hm
    cases hp
    refine ⟨?_, fun c => mem_appendNewC⟩
    rw [sem_eq_applyNode_unary Θ hΘ cfg env _ rfl (by intro _ _ hh; cases hh)]
    apply except_bind_congr
    intro t ht
    have hwn := sem_wf_nodup hΘ hq ht
    have hc : t.cols = q.cols := sem_cols hΘ ht
    simp only [Ops.srcA, applyNode, Ops.cols]
    cases stepWindowed ops pa od
    · simp only [Bool.false_eq_true, if_false, ok_bind]
      congr 1
      rw [← hc]
      exact (Table.selectCols_self (semExtendPlain_wf _ _ _ _) (nodup_appendNewC hwn.2)).symm
    · simp only [if_true, ok_bind]
      congr 1
      rw [← hc]
      exact (Table.selectCols_self (semExtendWindow_wf _ _ _ _ _ _ _) (nodup_appendNewC hwn.2)).symm
  cases q with
  | order s cs rv' lim =>
    cases lim with
    | none => cases hnt
    | some n => exact plain h
  | extend src o1 part1 od1 rv1 w1 =>
    simp only [extendTopC] at h
    rcases extendMerge_cases src o1 part1 od1 rv1 w1 ops pa od rv with
      ⟨o, hm, hpart, hw, hod, hrv, he⟩ | he
    · rw [he] at h
      obtain ⟨hd, hdis, hunion, ho2, hkeys⟩ := tryMergeOps_spec hm
      obtain ⟨hq5, hq6, hq8, hqflag⟩ := extend_nodeOk hq
      rw [mkExtend_eqC] at h
      obtain ⟨u, hchk, hp⟩ := except_bind_eq_ok.mp h
      cases hp
      simp only [extendChk, ok?_bind_eq_ok, ok?_eq_ok] at hchk
      obtain ⟨c1, _, _, _, c5, c6, _, _, _⟩ := hchk
      subst hpart hod hrv
      -- the windowed situation of the merged node is that of both steps
      have hww : stepWindowed o pa od = w1 := by
        rw [stepWindowed_eq] at hw ⊢
        cases hw1 : w1 with
        | true =>
          rw [hw1] at hw
          cases hi : impliesWindowed ops with
          | true => rw [impliesWindowed_of_subset ho2 hi]; rfl
          | false => rw [hi] at hw; simp only [Bool.false_or] at hw; rw [hw]; simp
        | false =>
          rw [hw1] at hw
          simp only [Bool.or_eq_false_iff] at hw
          rw [hw.2, Bool.or_false]
          cases hi : impliesWindowed o with
          | false => rfl
          | true =>
            rcases impliesWindowed_of_union hunion hi with h1 | h2
            · have := hqflag (by rw [h1]; rfl)
              rw [hw1] at this; cases this
            · rw [hw.1] at h2; cases h2
      have hsrc : src.valid = true := Ops.valid_srcA hq
      refine ⟨?_, ?_⟩
      · rw [sem_eq_applyNode_unary Θ hΘ cfg env _ rfl (by intro _ _ hh; cases hh),
          sem_eq_applyNode_unary Θ hΘ cfg env (.extend src o1 pa.cols' od rv w1) rfl
            (by intro _ _ hh; cases hh)]
        simp only [Ops.srcA, bind_assoc]
        apply except_bind_congr
        intro t ht
        have hc : t.cols = src.cols := sem_cols hΘ ht
        have hmem1 : ∀ c, c ∈ appendNew src.cols (o1.map (·.1)) ↔ c ∈ src.cols ∨ c ∈ o1.map (·.1) := by
          intro c; rw [mem_appendNewC]
        have hu : ∀ c ∈ Term.colsUsedOps ops, c ∈ appendNew src.cols (o1.map (·.1)) := by
          intro c hcu
          obtain ⟨kv, hkv, hcr⟩ := mem_colsUsedOpsC.mp hcu
          exact (hmem1 c).mpr (Or.inl (subset_iffC.mp c1 c (mem_colsUsedOpsC.mpr ⟨kv, ho2 kv hkv, hcr⟩)))
        have h1 : ∀ c ∈ appendNew src.cols (o.map (·.1)),
            c ∈ appendNew src.cols (o1.map (·.1)) ∨ c ∈ ops.map (·.1) := by
          intro c hcc
          rcases mem_appendNewC.mp hcc with hh | hh
          · exact Or.inl ((hmem1 c).mpr (Or.inl hh))
          · rcases (hkeys c).mp hh with hh | hh
            · exact Or.inl ((hmem1 c).mpr (Or.inr hh))
            · exact Or.inr hh
        have h2 : ∀ c ∈ appendNew src.cols (o.map (·.1)),
            c ∈ appendNew (appendNew src.cols (o1.map (·.1))) (ops.map (·.1)) := by
          intro c hcc
          rcases h1 c hcc with hh | hh
          · exact mem_appendNewC.mpr (Or.inl hh)
          · exact mem_appendNewC.mpr (Or.inr hh)
        simp only [applyNode, Ops.cols, hww, hw]
        cases w1 with
        | false =>
          simp only [Bool.false_eq_true, if_false, ok_bind, hc]
          congr 1
          exact merge_ops_sound Θ hm t _ _ _ hu h1 h2
        | true =>
          simp only [if_true, ok_bind, hc]
          congr 1
          refine merge_ops_sound_window Θ hm pa.cols' od rv t _ _ _ hu ?_ ?_ ?_ h1 h2
          · intro c hcc; exact (hmem1 c).mpr (Or.inl (subset_iffC.mp c5 c hcc))
          · intro c hcc; exact (hmem1 c).mpr (Or.inl (subset_iffC.mp c6 c hcc))
          · rw [disjoint_iffC] at hq8 ⊢
            intro x hx hxx
            exact hq8 x hx (by simp only [List.mem_append] at hxx ⊢; exact Or.inl hxx)
      · intro c
        simp only [Ops.cols, mem_appendNewC, hkeys c]
        constructor
        · rintro (hh | hh | hh)
          · exact Or.inl (Or.inl hh)
          · exact Or.inl (Or.inr hh)
          · exact Or.inr hh
        · rintro ((hh | hh) | hh)
          · exact Or.inl hh
          · exact Or.inr (Or.inl hh)
          · exact Or.inr (Or.inr hh)
    · rw [he] at h
      exact plain h
  | table _ _ => exact plain h
  | project _ _ _ => exact plain h
  | selectRows _ _ => exact plain h
  | selectCols _ _ => exact plain h
  | dropCols _ _ => exact plain h
  | rename _ _ => exact plain h
  | mapCols _ _ _ => exact plain h
  | join _ _ _ _ _ => exact plain h
  | concat _ _ _ _ _ => exact plain h
  | convert _ _ => exact plain h

end DAVerif
