import DAVerif.Proofs.SqlUnary3
import DAVerif.Proofs.SqlSemG
/-!
C01/C02: the main induction for the fragment {table, extend (no merge), project, select_rows, select_columns,
drop_columns, order_rows, rename_columns, map_columns} (`transOK_frag`), independence of the fuel
(`toNear_fuel_indep`), and the root call (`using = None`).
-/
namespace DAVerif
namespace Sql
open DAVerif.Ops (usedFromSources unionL)
open Rules26 (usedBy keys)

/-! ### the main induction -/

/-- **Stage A, all requests.**  For every well-formed pipeline `p` of the fragment, every fuel, every requested
column set `u ⊆ p.cols`: a successful translation without extend merges satisfies the invariant `Sound` against
the table `p` evaluates to under the engine's row ordering. -/
theorem transOK_frag (Θ : Interp) (ec : EngineCfg) (env : Env) (scfg : SemCfg) (cfg : SqlCfg)
    (hm : cfg.merges = false) (p : Ops) :
    InFrag p = true → WF p → SqlWF p → MapsOK p → EnvOK false env p → ∀ fuel : Nat,
      TransOK Θ ec env scfg (fun q => q.isSimple = true) cfg fuel p := by
  have hG := shapeOK_simple Θ ec env
  induction p with
  | table name cs =>
    intro _ _ _ _ he fuel
    obtain ⟨t, hl, hs, _⟩ := he (name, cs) (by simp [Ops.tables])
    exact transOK_table hG fuel name cs ⟨t, hl, hs⟩
  | extend src ops part od rv w ih =>
    intro hf hwf hsq hmp he fuel
    cases fuel with
    | zero => exact transOK_zero _ _ _ _ _ _ _
    | succ fuel => exact transOK_extend hG hm fuel src ops part od rv w hwf.2 (ih hf hwf.1 hsq hmp he fuel)
  | project src ops g ih =>
    intro hf hwf hsq hmp he fuel
    cases fuel with
    | zero => exact transOK_zero _ _ _ _ _ _ _
    | succ fuel =>
      simp only [SqlWF, sqlWFb, Bool.and_eq_true, subset_iff, nodupB_iff, disjoint_iff] at hsq
      obtain ⟨⟨⟨⟨hs, h1⟩, h2⟩, h3⟩, h4⟩ := hsq
      exact transOK_project hG fuel src ops g h1 h2 h3 h4 hwf.2.2 (ih hf hwf.1 hs hmp he fuel)
  | selectRows src e ih =>
    intro hf hwf hsq hmp he fuel
    cases fuel with
    | zero => exact transOK_zero _ _ _ _ _ _ _
    | succ fuel =>
      simp only [SqlWF, sqlWFb, Bool.and_eq_true, subset_iff] at hsq
      exact transOK_selectRows hG fuel src e hsq.2 (ih hf hwf hsq.1 hmp he fuel)
  | selectCols src cs ih =>
    intro hf hwf hsq hmp he fuel
    cases fuel with
    | zero => exact transOK_zero _ _ _ _ _ _ _
    | succ fuel => exact transOK_selectCols hG fuel src cs hwf.2.2.2 (ih hf hwf.1 hsq hmp he fuel)
  | dropCols src dels ih =>
    intro hf hwf hsq hmp he fuel
    cases fuel with
    | zero => exact transOK_zero _ _ _ _ _ _ _
    | succ fuel => exact transOK_dropCols hG fuel src dels (ih hf hwf.1 hsq hmp he fuel)
  | order src cs rv lim ih =>
    intro hf hwf hsq hmp he fuel
    cases fuel with
    | zero => exact transOK_zero _ _ _ _ _ _ _
    | succ fuel =>
      simp only [SqlWF, sqlWFb, Bool.and_eq_true, subset_iff] at hsq
      exact transOK_order hG fuel src cs rv lim hsq.2 (ih hf hwf hsq.1 hmp he fuel)
  | rename src m ih =>
    intro hf hwf hsq hmp he fuel
    cases fuel with
    | zero => exact transOK_zero _ _ _ _ _ _ _
    | succ fuel =>
      simp only [SqlWF, sqlWFb, Bool.and_eq_true, subset_iff, List.all_eq_true, Bool.or_eq_true,
        Bool.not_eq_eq_eq_not, Bool.not_true, List.contains_eq_mem, decide_eq_false_iff_not, decide_eq_true_eq] at hsq
      simp only [MapsOK, mapsOKb, Bool.and_eq_true, nodupB_iff] at hmp
      obtain ⟨⟨hs, h1⟩, h2⟩ := hsq
      obtain ⟨⟨hmps, h3⟩, h4⟩ := hmp
      refine transOK_rename hG fuel src m ?_ ?_ h3 h4 hwf.2 (semG_cols_wf_frag _ Θ scfg env src hf)
        (ih hf hwf.1 hs hmps he fuel)
      · intro kv hkv; exact h1 kv.2 (List.mem_map.mpr ⟨kv, hkv, rfl⟩)
      · intro kv hkv hin
        rcases h2 kv hkv with h | h
        · exact absurd hin h
        · exact h
  | mapCols src m dels ih =>
    intro hf hwf hsq hmp he fuel
    cases fuel with
    | zero => exact transOK_zero _ _ _ _ _ _ _
    | succ fuel =>
      simp only [SqlWF, sqlWFb, Bool.and_eq_true, subset_iff, List.all_eq_true, Bool.or_eq_true,
        Bool.not_eq_eq_eq_not, Bool.not_true, List.contains_eq_mem, decide_eq_false_iff_not, decide_eq_true_eq] at hsq
      simp only [MapsOK, mapsOKb, Bool.and_eq_true, nodupB_iff, disjoint_iff] at hmp
      obtain ⟨⟨⟨hs, h1⟩, h1'⟩, h2⟩ := hsq
      obtain ⟨⟨⟨hmps, h3⟩, h4⟩, h5⟩ := hmp
      refine transOK_mapCols hG fuel src m dels ?_ h1' ?_ h3 h4 h5 hwf.2.2
        (semG_cols_wf_frag _ Θ scfg env src hf) (ih hf hwf.1 hs hmps he fuel)
      · intro kv hkv; exact h1 kv.1 (List.mem_map.mpr ⟨kv, hkv, rfl⟩)
      · intro kv hkv hin
        rcases h2 kv hkv with (h | h) | h
        · exact absurd hin h
        · exact Or.inl h
        · exact Or.inr h
  | join a b oa ob jt iha ihb => intro hf; cases hf
  | concat a b idc an bn iha ihb => intro hf; cases hf
  | convert src rm ih => intro hf; cases hf

/-! ### fuel -/

local macro "fuel_case" ih:ident : tactic =>
  `(tactic| (
    intro hfr f f' hf hf' u
    cases f with
    | zero => simp [Ops.size] at hf
    | succ f =>
      cases f' with
      | zero => simp [Ops.size] at hf'
      | succ f' =>
        have hrec := $ih hfr f f' (by simp [Ops.size] at hf; omega) (by simp [Ops.size] at hf'; omega)
        conv => lhs; rw [toNear]
        conv => rhs; rw [toNear]
        simp only [hrec]))

/-- **The fuel does not matter** once it is at least the size of the pipeline (fragment): the translation is the
same function of the requested columns and the name counter, errors included. -/
theorem toNear_fuel_indep (cfg : SqlCfg) (p : Ops) : InFrag p = true → ∀ (f f' : Nat), p.size ≤ f → p.size ≤ f' →
    ∀ u, toNear cfg f p u = toNear cfg f' p u := by
  induction p with
  | table name cs =>
    intro _ f f' hf hf' u
    cases f with
    | zero => simp [Ops.size] at hf
    | succ f =>
      cases f' with
      | zero => simp [Ops.size] at hf'
      | succ f' => rfl
  | extend src ops part od rv w ih => fuel_case ih
  | project src ops g ih => fuel_case ih
  | selectRows src e ih => fuel_case ih
  | selectCols src cs ih => fuel_case ih
  | dropCols src dels ih => fuel_case ih
  | order src cs rv lim ih => fuel_case ih
  | rename src m ih => fuel_case ih
  | mapCols src m dels ih => fuel_case ih
  | join a b oa ob jt _ _ => intro h; cases h
  | concat a b idc an bn _ _ => intro h; cases h
  | convert src rm _ => intro h; cases h

/-- the fuel `toNearSql` supplies is sufficient on the fragment: any larger (or any other sufficient) fuel gives
the same translation -/
theorem toNearSql_fuel_sufficient (cfg : SqlCfg) (p : Ops) (hf : InFrag p = true) (f : Nat) (h : p.size ≤ f) :
    toNear cfg f p none = toNear cfg (6 * p.size + 6) p none :=
  toNear_fuel_indep cfg p hf f _ h (by omega) none

/-- monotonicity in the fuel (fragment): a translation that succeeds keeps its result with more fuel -/
theorem toNear_fuel_mono (cfg : SqlCfg) (p : Ops) (hf : InFrag p = true) {f f' : Nat} (hle : f ≤ f')
    (hsz : p.size ≤ f) (u : Option (List String)) (st : Nat) (r : Near × Nat)
    (h : toNear cfg f p u st = .ok r) : toNear cfg f' p u st = .ok r := by
  rw [← toNear_fuel_indep cfg p hf f f' hsz (by omega) u]; exact h

/-! ### the root call (`using = None`) -/

theorem toNear_none_eq (cfg : SqlCfg) (fuel : Nat) (p : Ops) (hf : InFrag p = true) :
    toNear cfg fuel p none = toNear cfg fuel p (some p.cols) := by
  cases fuel with
  | zero => rfl
  | succ fuel =>
    cases p with
    | join => cases hf
    | concat => cases hf
    | convert => cases hf
    | _ => rfl

theorem Row.select_keys_self : ∀ (r : Row), r.keys.Nodup → r.select r.keys = r
  | [], _ => rfl
  | (k, v) :: r, h => by
    simp only [Row.keys, List.map_cons, List.nodup_cons] at h
    have ih := Row.select_keys_self r h.2
    simp only [Row.select, Row.keys, List.map_cons, List.map_map] at ih ⊢
    rw [Row.get_cons, if_pos rfl]
    congr 1
    conv => rhs; rw [← ih]
    apply List.map_congr_left
    intro kv hkv
    simp only [Function.comp]
    rw [Row.get_cons, if_neg]
    rintro e
    exact h.1 (List.mem_map.mpr ⟨kv, hkv, e⟩)

theorem map_select_self_of_wf {t : Table} (hw : t.WF) (hnd : t.cols.Nodup) :
    t.rows.map (fun r => r.select t.cols) = t.rows := by
  conv => rhs; rw [← List.map_id t.rows]
  apply List.map_congr_left
  intro r hr
  have hk := hw r hr
  rw [← hk] at hnd ⊢
  exact Row.select_keys_self r hnd

/-- what the root call returns for a sound translation of all declared columns -/
theorem root_of_sound {Θ : Interp} {ec : EngineCfg} {env : Env} {q : Near} {u pc : List String} {tp : Table}
    (hs : Sound Θ ec env q u pc tp) (hq : q.isSimple = true) (hu : ∀ c ∈ pc, c ∈ u) (hpc : ∀ c ∈ u, c ∈ pc)
    (hne : pc ≠ []) :
    ∃ T, semNear Θ ec env [] q none true = .ok T ∧ (∀ c, c ∈ T.cols ↔ c ∈ pc) ∧
      T.rows.map (fun r => r.select pc) = tp.rows.map (fun r => r.select pc) := by
  have hune : u ≠ [] := ne_nil_of_subset hu hne
  obtain ⟨ks, hk, hks1, hks2⟩ := hs.keys hune
  have hksne : ks ≠ [] := ne_nil_of_subset hks2 hune
  obtain ⟨T, h1, h2, h4⟩ := hs.req ks (fun c hc => hu c (hks1 c hc)) true
  have hnone : semNear Θ ec env [] q none true = semNear Θ ec env [] q (some ks) true ∧ T.cols = ks := by
    cases q with
    | table name ts =>
      simp only [Near.termKeys, Option.some.injEq] at hk
      subst hk
      have e : semNear Θ ec env [] (.table name ts) none true = semNear Θ ec env [] (.table name ts) (some ts) true := by
        rw [semNear, semNear]; rfl
      refine ⟨e, ?_⟩
      rw [semNear] at h1
      cases hl : env.lookup name with
      | none => rw [hl] at h1; cases h1
      | some t =>
        rw [hl] at h1
        have : ts.isEmpty = false := by simpa using hksne
        simp only [Option.getD_some, ↓reduceIte, this, Bool.false_eq_true] at h1
        split at h1
        · cases h1; rfl
        · cases h1
    | unary nm terms agg sub sc sfx mg dp key =>
      cases terms with
      | none => simp [Near.termKeys] at hk
      | some ts =>
        simp only [Near.termKeys, Option.map_some, Option.some.injEq] at hk
        subst hk
        have e : ∀ fc, outCols (some ts) none fc = outCols (some ts) (some (ts.map (·.1))) fc := by
          intro fc; simp [outCols]
        refine ⟨?_, ?_⟩
        · rw [semNear_unary, semNear_unary]
          simp only [e]
        · rw [semNear_unary] at h1
          cases hsub : semNear Θ ec env [] sub sc false with
          | error er => rw [hsub] at h1; cases h1
          | ok t0 =>
            rw [hsub] at h1
            simp only [Except.bind, Except.ok.injEq] at h1
            subst h1
            show outCols (some ts) (some (ts.map (·.1))) t0.cols = ts.map (·.1)
            exact outCols_some_mem hksne (by intro hh; cases hh)
    | cte _ => cases hq
    | join => cases hq
    | union => cases hq
  refine ⟨T, hnone.1.trans h1, ?_, ?_⟩
  · intro c
    rw [hnone.2]
    exact ⟨hks1 c, fun hc => hks2 c (hu c hc)⟩
  · exact map_select_mono h4 (fun c hc => hks2 c (hu c hc))

/-- **Stage A at the root.**  The query `to_sql` renders for a well-formed pipeline of the fragment (no extend
merges), evaluated as a forced SELECT, returns a table with exactly the declared column set whose rows, restricted
to the declared columns, are **in order** the rows of the pipeline's table under the engine's row ordering
(`semE ec`).  (Since fix 1805022 a final `order_rows` names its columns: no `SELECT *` at the root.) -/
theorem stageA_root (Θ : Interp) (ec : EngineCfg) (env : Env) (scfg : SemCfg) (cfg : SqlCfg)
    (hm : cfg.merges = false) (p : Ops) (hf : InFrag p = true) (hwf : WF p) (hsq : SqlWF p) (hmp : MapsOK p)
    (he : EnvOK false env p) {fuel st st' : Nat} {q : Near} {tp : Table}
    (h : toNear cfg fuel p none st = .ok (q, st')) (htp : semE ec Θ scfg env p = .ok tp) :
    ∃ T, semNear Θ ec env [] q none true = .ok T ∧ (∀ c, c ∈ T.cols ↔ c ∈ p.cols) ∧
      T.rows.map (fun r => r.select p.cols) = tp.rows := by
  obtain ⟨htpc, htpw⟩ := semG_cols_wf_frag _ Θ scfg env p hf tp htp
  have hself : tp.rows.map (fun r => r.select p.cols) = tp.rows := by
    rw [← htpc]; exact map_select_self_of_wf htpw (by rw [htpc]; exact hwf.cols_nodup)
  rw [toNear_none_eq cfg fuel p hf] at h
  obtain ⟨hsimple, u₁, hu₁, hu₁', hsound⟩ :=
    transOK_frag Θ ec env scfg cfg hm p hf hwf hsq hmp he fuel p.cols st q st' tp (fun c hc => hc) h htp
  obtain ⟨T, t1, t2, t3⟩ := root_of_sound hsound hsimple hu₁ hu₁' hwf.cols_ne_nil
  exact ⟨T, t1, t2, t3.trans hself⟩

end Sql
end DAVerif
