import DAVerif.Proofs.Text
/-!
Helper lemmas for C14, second part: the record-map (cdata) SQL builders and `table_values_to_sql_str_list` return
exactly the text of an explicit *shape* (a sequence of fixed keywords, punctuation, blanks and quoted user text,
`Piece` of `Proofs/Text.lean`), and every shape is well formed (`Good`), hence lexes to its tokens.
-/
set_option linter.unusedSimpArgs false
namespace DAVerif.Text


theorem mapM_ok {α β : Type} (f : α → Except Err β) (g : α → β) (l : List α) (h : ∀ x ∈ l, f x = .ok (g x)) :
    l.mapM f = .ok (l.map g) := by
  induction l with
  | nil => rfl
  | cons x xs ih =>
    rw [List.mapM_cons, h x (by simp), ih (fun y hy => h y (by simp [hy]))]
    rfl

/-- pieces of `sep.join(parts)` -/
def joinPieces (sep : List Piece) : List (List Piece) → List Piece
  | [] => []
  | [x] => x
  | x :: y :: xs => x ++ sep ++ joinPieces sep (y :: xs)

theorem GoodPieces.nil (d : Dialect) : GoodPieces d [] [] := ⟨rfl, by simp, rfl⟩

/-- a piece list that is valid and well spaced (its text is `renderPs d ps`) -/
def Good (d : Dialect) (ps : List Piece) : Prop := (∀ p ∈ ps, p.Valid d) ∧ chainOk ps = true

theorem Good.gp {d : Dialect} {ps : List Piece} (h : Good d ps) : GoodPieces d (renderPs d ps) ps := ⟨rfl, h.1, h.2⟩
theorem GoodPieces.good {d : Dialect} {t : List Char} {ps : List Piece} (h : GoodPieces d t ps) : Good d ps := ⟨h.valid, h.chain⟩

theorem joinSep_good {d : Dialect} {sep : List Char} {sp : List Piece} (hsep : GoodPieces d sep sp)
    (hh : OpenHead sp) (hl : OpenLast sp) (hne : sp ≠ [])
    (pss : List (List Piece)) (h : ∀ ps ∈ pss, Good d ps) :
    GoodPieces d (joinSep sep (pss.map (renderPs d))) (joinPieces sp pss) := by
  induction pss with
  | nil => exact GoodPieces.nil d
  | cons p ps ih =>
    have hx := (h p (by simp)).gp
    have ih' := ih (fun q hq => h q (by simp [hq]))
    cases ps with
    | nil => simpa [joinSep, joinPieces] using hx
    | cons q qs =>
      have h1 := hx.append_openHead hsep hh
      have h2 := h1.append_openLast ih' (by
        intro z hz
        rw [List.getLast?_append] at hz
        cases hsl : sp.getLast? with
        | none => cases sp with
          | nil => exact absurd rfl hne
          | cons a b => simp at hsl
        | some w => rw [hsl] at hz; simp at hz; subst hz; exact hl _ hsl)
      simpa [joinSep, joinPieces, List.append_assoc] using h2

/-! ## record-map SQL: the expected shape of every statement -/

def kwP (s : String) : Piece := .kw s.toList

theorem kwP_valid (d : Dialect) (s : String) (h1 : s.toList ≠ []) (h2 : s.toList.all isAsciiWord = true) :
    (kwP s).Valid d := ⟨h1, by simpa [List.all_eq_true] using h2⟩

theorem stringType_valid (d : Dialect) : (Piece.kw d.stringType).Valid d := by
  cases d <;> exact ⟨by decide, by decide⟩

def unionStartP : Dialect → List Piece
  | .sqlite => [] | _ => [.p '(']
def unionEndP : Dialect → List Piece
  | .sqlite => [] | _ => [.p ')']

/-- `" a." + qi(c) + " AS " + qi(c)` (alias `a` or `b`) -/
def aliasStmtShape (al : Char) (c : List Char) : List Piece :=
  [.sp, .kw [al], .p '.', .id c, .sp, kwP "AS", .sp, .id c]

/-- `" " + qi(c) + " AS " + qi(t)` -/
def renameStmtShape (c t : List Char) : List Piece := [.sp, .id c, .sp, kwP "AS", .sp, .id t]

def whenArmShape (d : Dialect) (rc sc : List Char) : List Piece :=
  [.sp, .sp, kwP "WHEN", .sp, kwP "CAST", .p '(', .kw ['b'], .p '.', .id rc, .sp, kwP "AS", .sp, .kw d.stringType,
   .p ')', .sp, .p '=', .sp, .str sc, .sp, kwP "THEN", .sp, .kw ['a'], .p '.', .id sc, .sp]

def caseStmtShape (d : Dialect) (r : RecSpec) (rc : List Char) : List Piece :=
  [.sp, kwP "CASE", .sp] ++ r.rows.flatMap (fun row => whenArmShape d rc (cell r.cols row rc)) ++
  [.sp, kwP "ELSE", .sp, kwP "NULL", .sp, kwP "END", .sp, kwP "AS", .sp, .id rc]

def keyClauseShape (d : Dialect) (cc v : List Char) : List Piece :=
  [.sp, .p '(', .sp, kwP "CAST", .p '(', .id cc, .sp, kwP "AS", .sp, .kw d.stringType, .p ')', .sp, .p '=', .sp,
   .str v, .sp, .p ')', .sp]

def maxCaseStmtShape (d : Dialect) (r : RecSpec) (row : List (List Char)) (vc : List Char) : List Piece :=
  [.sp, kwP "MAX", .p '(', kwP "CASE", .sp, kwP "WHEN", .sp] ++
  joinPieces [.sp, kwP "AND", .sp] (r.controlKeys.map (fun cc => keyClauseShape d cc (cell r.cols row cc))) ++
  [.sp, kwP "THEN", .sp, .id vc, .sp, kwP "ELSE", .sp, kwP "NULL", .sp, kwP "END", .p ')', .sp, kwP "AS", .sp,
   .id (cell r.cols row vc)]

def tableRowShape (d : Dialect) (cols : List (List Char)) (row : List (List Char)) : List Piece :=
  unionStartP d ++ [kwP "SELECT", .sp] ++
  joinPieces [.p ',', .sp] (cols.map (fun c => [.str (cell cols row c), .sp, kwP "AS", .sp, .id c])) ++ unionEndP d

def tableRowLineShape (d : Dialect) (cols : List (List Char)) (first : Bool) (row : List (List Char)) : List Piece :=
  [.sp, .sp, .sp, .sp] ++ (if first then [] else [kwP "UNION", .sp, kwP "ALL", .sp]) ++ tableRowShape d cols row

def tableRowLinesShape (d : Dialect) (cols : List (List Char)) : Bool → List (List (List Char)) → List (List Piece)
  | _, [] => []
  | first, row :: rows => tableRowLineShape d cols first row :: tableRowLinesShape d cols false rows

def tableValuesShape (d : Dialect) (cols : List (List Char)) (rows : List (List (List Char))) : List (List Piece) :=
  [[kwP "SELECT"], [.sp, .p '*'], [kwP "FROM", .sp, .p '(']] ++ tableRowLinesShape d cols true rows ++
  [[.p ')', .sp, .id "table_values".toList]]

/-- lines of `_list_join_expecting_list(joiner, stmts)` -/
def listJoinPieces (jp : List Piece) : List (List Piece) → List (List Piece)
  | [] => []
  | [x] => [.sp :: x]
  | x :: y :: xs => (.sp :: x ++ jp) :: listJoinPieces jp (y :: xs)

def fromLineShape : List Piece := [kwP "FROM", .sp, .p '(', .sp, kwP "SELECT", .sp, .p '*', .sp, kwP "FROM", .sp]

/-- every name the record-map SQL quotes as an identifier is in the scope of the identifier claims -/
structure NamesOk (d : Dialect) (r : RecSpec) : Prop where
  recordKeys : ∀ c ∈ r.recordKeys, IdentOk d c
  controlKeys : ∀ c ∈ r.controlKeys, IdentOk d c
  cols : ∀ c ∈ r.cols, IdentOk d c
  cells : ∀ row ∈ r.rows, ∀ vc ∈ r.valueCols, IdentOk d (cell r.cols row vc)

theorem valueCols_sub (r : RecSpec) : ∀ c ∈ r.valueCols, c ∈ r.cols := by
  intro c hc; simp [RecSpec.valueCols] at hc; exact hc.1

/-! ### each builder returns the text of its shape, and the shape is well formed -/

macro "kwv" : tactic => `(tactic| first | exact kwP_valid _ _ (by decide) (by decide) | exact stringType_valid _ | exact ⟨by decide, by decide⟩)

theorem Good.of_list {d : Dialect} {ps : List Piece} (hv : ∀ p ∈ ps, p.Valid d) (hc : chainOk ps = true) : Good d ps := ⟨hv, hc⟩

theorem aliasStmt_good {d : Dialect} {al : Char} (hal : al = 'a' ∨ al = 'b') {c : List Char} (h : IdentOk d c) :
    Good d (aliasStmtShape al c) := by
  refine ⟨?_, rfl⟩
  intro p hp
  simp only [aliasStmtShape, List.mem_cons, List.not_mem_nil, or_false] at hp
  rcases hp with hp | hp | hp | hp | hp | hp | hp | hp <;> subst hp <;> first | trivial | exact h | rfl | kwv | skip
  rcases hal with h | h <;> subst h <;> exact ⟨by decide, by decide⟩

theorem renameStmt_good {d : Dialect} {c t : List Char} (h : IdentOk d c) (ht : IdentOk d t) :
    Good d (renameStmtShape c t) := by
  refine ⟨?_, rfl⟩
  intro p hp
  simp only [renameStmtShape, List.mem_cons, List.not_mem_nil, or_false] at hp
  rcases hp with hp | hp | hp | hp | hp | hp <;> subst hp <;> first | trivial | exact h | exact ht | rfl | kwv

theorem whenArm_good {d : Dialect} {rc sc : List Char} (h1 : IdentOk d rc) (h2 : IdentOk d sc) :
    Good d (whenArmShape d rc sc) := by
  refine ⟨?_, rfl⟩
  intro p hp
  simp only [whenArmShape, List.mem_cons, List.not_mem_nil, or_false] at hp
  rcases hp with hp | hp | hp | hp | hp | hp | hp | hp | hp | hp | hp | hp | hp | hp | hp | hp | hp | hp | hp | hp | hp | hp | hp | hp | hp <;>
    subst hp <;> first | trivial | exact h1 | exact h2 | rfl | kwv

theorem keyClause_good {d : Dialect} {cc : List Char} (v : List Char) (h1 : IdentOk d cc) :
    Good d (keyClauseShape d cc v) := by
  refine ⟨?_, rfl⟩
  intro p hp
  simp only [keyClauseShape, List.mem_cons, List.not_mem_nil, or_false] at hp
  rcases hp with hp | hp | hp | hp | hp | hp | hp | hp | hp | hp | hp | hp | hp | hp | hp | hp | hp | hp <;>
    subst hp <;> first | trivial | exact h1 | rfl | kwv

theorem whenArm_ok {d : Dialect} {rc sc : List Char} (h1 : IdentOk d rc) (h2 : IdentOk d sc) :
    whenArm d rc sc = .ok (renderPs d (whenArmShape d rc sc)) := by
  simp [whenArm, quoteIdent_ok h1.1, quoteIdent_ok h2.1, renderPs, whenArmShape, Piece.text, kwP, bind, Except.bind,
    pure, Except.pure]

theorem keyClause_ok {d : Dialect} {cc : List Char} (v : List Char) (h1 : IdentOk d cc) :
    keyClause d cc v = .ok (renderPs d (keyClauseShape d cc v)) := by
  simp [keyClause, quoteIdent_ok h1.1, renderPs, keyClauseShape, Piece.text, kwP, bind, Except.bind, pure, Except.pure]

theorem Good.append_openHead {d : Dialect} {a b : List Piece} (ha : Good d a) (hb : Good d b) (h : OpenHead b) :
    Good d (a ++ b) := (ha.gp.append_openHead hb.gp h).good
theorem Good.append_openLast {d : Dialect} {a b : List Piece} (ha : Good d a) (hb : Good d b) (h : OpenLast a) :
    Good d (a ++ b) := (ha.gp.append_openLast hb.gp h).good
theorem Good.nil (d : Dialect) : Good d [] := ⟨by simp, rfl⟩

theorem openHead_cons {a : Piece} (ps : List Piece) (h : a.isOpen = true) : OpenHead (a :: ps) := by
  intro y hy; simp at hy; subst hy; exact h
theorem openLast_concat {a : Piece} (ps : List Piece) (h : a.isOpen = true) : OpenLast (ps ++ [a]) := by
  intro y hy; simp at hy; subst hy; exact h

theorem openHead_append {a b : List Piece} (ha : OpenHead a) (hb : OpenHead b) : OpenHead (a ++ b) := by
  cases a with
  | nil => simpa using hb
  | cons x xs => intro y hy; exact ha y (by simpa using hy)

theorem openHead_flatMap {α : Type} (f : α → List Piece) (l : List α) (h : ∀ x ∈ l, OpenHead (f x)) :
    OpenHead (l.flatMap f) := by
  induction l with
  | nil => intro y hy; simp at hy
  | cons x xs ih =>
    rw [List.flatMap_cons]
    exact openHead_append (h x (by simp)) (ih (fun y hy => h y (by simp [hy])))

theorem good_flatMap_open {α : Type} {d : Dialect} (f : α → List Piece) (l : List α)
    (h : ∀ x ∈ l, Good d (f x) ∧ OpenHead (f x)) : Good d (l.flatMap f) := by
  induction l with
  | nil => exact Good.nil d
  | cons x xs ih =>
    rw [List.flatMap_cons]
    exact (h x (by simp)).1.append_openHead (ih (fun y hy => h y (by simp [hy])))
      (openHead_flatMap f xs (fun y hy => (h y (by simp [hy])).2))

theorem renderPs_flatMap {α : Type} (d : Dialect) (f : α → List Piece) (l : List α) :
    renderPs d (l.flatMap f) = (l.map (fun x => renderPs d (f x))).flatten := by
  induction l with
  | nil => rfl
  | cons x xs ih => simp [renderPs_append, ih]

theorem flatten_map_flatMap {α β γ : Type} (g : β → List γ) (f : α → List β) (l : List α) :
    (l.map (fun x => (f x).flatMap g)).flatten = (l.flatMap f).flatMap g := by
  induction l with
  | nil => rfl
  | cons x xs ih => simp [ih]

theorem caseStmt_good {d : Dialect} {r : RecSpec} (h : NamesOk d r) {rc : List Char} (hrc : rc ∈ r.valueCols) :
    Good d (caseStmtShape d r rc) := by
  have hid : IdentOk d rc := h.cols rc (valueCols_sub r rc hrc)
  have harms := good_flatMap_open (d := d) (fun row => whenArmShape d rc (cell r.cols row rc)) r.rows
    (fun row hrow => ⟨whenArm_good hid (h.cells row hrow rc hrc), openHead_cons _ rfl⟩)
  have h1 : Good d [.sp, kwP "CASE", .sp] := ⟨by
    intro p hp; simp at hp; rcases hp with hp | hp | hp <;> subst hp <;> first | trivial | kwv, rfl⟩
  have h3 : Good d [.sp, kwP "ELSE", .sp, kwP "NULL", .sp, kwP "END", .sp, kwP "AS", .sp, .id rc] := ⟨by
    intro p hp; simp at hp
    rcases hp with hp | hp | hp | hp | hp | hp | hp | hp | hp | hp <;> subst hp <;> first | trivial | exact hid | kwv, rfl⟩
  exact (h1.append_openLast harms (openLast_concat [.sp, kwP "CASE"] rfl)).append_openHead h3 (openHead_cons _ rfl)

theorem caseStmt_ok {d : Dialect} {r : RecSpec} (h : NamesOk d r) {rc : List Char} (hrc : rc ∈ r.valueCols) :
    caseStmt d r rc = .ok (renderPs d (caseStmtShape d r rc)) := by
  have hid : IdentOk d rc := h.cols rc (valueCols_sub r rc hrc)
  have harms : r.rows.mapM (fun row => whenArm d rc (cell r.cols row rc))
      = .ok (r.rows.map (fun row => renderPs d (whenArmShape d rc (cell r.cols row rc)))) :=
    mapM_ok _ _ _ (fun row hrow => whenArm_ok hid (h.cells row hrow rc hrc))
  simp [caseStmt, harms, quoteIdent_ok hid.1, caseStmtShape, renderPs_append, renderPs_flatMap, bind, Except.bind,
    pure, Except.pure]
  simp [renderPs, Piece.text, kwP, flatten_map_flatMap]

theorem good_of_mem {d : Dialect} {ps : List Piece} (hv : ∀ p ∈ ps, p.Valid d) (hc : chainOk ps = true) : Good d ps := ⟨hv, hc⟩

theorem andSep_good (d : Dialect) : GoodPieces d " AND ".toList [.sp, kwP "AND", .sp] :=
  ⟨by simp [renderPs, Piece.text, kwP], by
    intro p hp; simp at hp; rcases hp with hp | hp | hp <;> subst hp <;> first | trivial | kwv, rfl⟩

theorem commaSep_good (d : Dialect) : GoodPieces d ", ".toList [.p ',', .sp] :=
  ⟨by simp [renderPs, Piece.text], by
    intro p hp; simp at hp; rcases hp with hp | hp <;> subst hp <;> first | trivial | rfl, rfl⟩

theorem nlSep_good (d : Dialect) : GoodPieces d ['\n'] [.nl] :=
  ⟨by simp [renderPs, Piece.text], by intro p hp; simp at hp; subst hp; trivial, rfl⟩

theorem maxCaseStmt_good {d : Dialect} {r : RecSpec} (h : NamesOk d r) {row : List (List Char)} (hrow : row ∈ r.rows)
    {vc : List Char} (hvc : vc ∈ r.valueCols) : Good d (maxCaseStmtShape d r row vc) := by
  have hid : IdentOk d vc := h.cols vc (valueCols_sub r vc hvc)
  have hcell : IdentOk d (cell r.cols row vc) := h.cells row hrow vc hvc
  have hj := (joinSep_good (andSep_good d) (openHead_cons _ rfl) (openLast_concat [.sp, kwP "AND"] rfl) (by simp)
    (r.controlKeys.map (fun cc => keyClauseShape d cc (cell r.cols row cc)))
    (by intro ps hps; simp at hps; obtain ⟨cc, hcc, rfl⟩ := hps; exact keyClause_good _ (h.controlKeys cc hcc))).good
  have h1 : Good d [.sp, kwP "MAX", .p '(', kwP "CASE", .sp, kwP "WHEN", .sp] := ⟨by
    intro p hp; simp at hp
    rcases hp with hp | hp | hp | hp | hp | hp | hp <;> subst hp <;> first | trivial | rfl | kwv, rfl⟩
  have h3 : Good d [.sp, kwP "THEN", .sp, .id vc, .sp, kwP "ELSE", .sp, kwP "NULL", .sp, kwP "END", .p ')', .sp,
      kwP "AS", .sp, .id (cell r.cols row vc)] := ⟨by
    intro p hp; simp at hp
    rcases hp with hp | hp | hp | hp | hp | hp | hp | hp | hp | hp | hp | hp | hp | hp | hp <;> subst hp <;>
      first | trivial | exact hid | exact hcell | rfl | kwv, rfl⟩
  exact (h1.append_openLast hj (openLast_concat [.sp, kwP "MAX", .p '(', kwP "CASE", .sp, kwP "WHEN"] rfl)).append_openHead
    h3 (openHead_cons _ rfl)

theorem maxCaseStmt_ok {d : Dialect} {r : RecSpec} (h : NamesOk d r) {row : List (List Char)} (hrow : row ∈ r.rows)
    {vc : List Char} (hvc : vc ∈ r.valueCols) :
    maxCaseStmt d r row vc = .ok (renderPs d (maxCaseStmtShape d r row vc)) := by
  have hid : IdentOk d vc := h.cols vc (valueCols_sub r vc hvc)
  have hcell : IdentOk d (cell r.cols row vc) := h.cells row hrow vc hvc
  have hcl : r.controlKeys.mapM (fun cc => keyClause d cc (cell r.cols row cc))
      = .ok (r.controlKeys.map (fun cc => renderPs d (keyClauseShape d cc (cell r.cols row cc)))) :=
    mapM_ok _ _ _ (fun cc hcc => keyClause_ok _ (h.controlKeys cc hcc))
  have hj := (joinSep_good (andSep_good d) (openHead_cons _ rfl) (openLast_concat [.sp, kwP "AND"] rfl) (by simp)
    (r.controlKeys.map (fun cc => keyClauseShape d cc (cell r.cols row cc)))
    (by intro ps hps; simp at hps; obtain ⟨cc, hcc, rfl⟩ := hps; exact keyClause_good _ (h.controlKeys cc hcc))).text
  simp only [List.map_map] at hj
  rw [show " AND ".toList = [' ', 'A', 'N', 'D', ' '] from by decide] at hj
  simp [maxCaseStmt, hcl, quoteIdent_ok hid.1, quoteIdent_ok hcell.1, maxCaseStmtShape, renderPs_append, bind,
    Except.bind, pure, Except.pure]
  rw [show (fun cc => renderPs d (keyClauseShape d cc (cell r.cols row cc))) =
    (renderPs d ∘ fun cc => keyClauseShape d cc (cell r.cols row cc)) from rfl, hj]
  simp [renderPs, Piece.text, kwP]

/-! ### statement lists -/

def maxCaseStmtsShape (d : Dialect) (r : RecSpec) :
    List (List Char) → List (List (List Char) × List Char) → List (List Piece)
  | _, [] => []
  | seen, (row, vc) :: ps =>
    if seen.contains (cell r.cols row vc) then maxCaseStmtsShape d r seen ps
    else maxCaseStmtShape d r row vc :: maxCaseStmtsShape d r (cell r.cols row vc :: seen) ps

theorem maxCaseStmts_ok {d : Dialect} {r : RecSpec} (h : NamesOk d r) (seen : List (List Char))
    (pairs : List (List (List Char) × List Char)) (hp : ∀ p ∈ pairs, p.1 ∈ r.rows ∧ p.2 ∈ r.valueCols) :
    maxCaseStmts d r seen pairs = .ok ((maxCaseStmtsShape d r seen pairs).map (renderPs d)) ∧
    ∀ ps ∈ maxCaseStmtsShape d r seen pairs, Good d ps := by
  induction pairs generalizing seen with
  | nil => exact ⟨rfl, by simp [maxCaseStmtsShape]⟩
  | cons p ps ih =>
    obtain ⟨row, vc⟩ := p
    have hrv := hp (row, vc) (by simp)
    have ih' := fun seen => ih seen (fun q hq => hp q (by simp [hq]))
    by_cases hs : seen.contains (cell r.cols row vc) = true
    · simp only [maxCaseStmts, maxCaseStmtsShape, hs, if_true]
      exact ih' seen
    · simp only [maxCaseStmts, maxCaseStmtsShape, hs, if_false, Bool.false_eq_true]
      refine ⟨?_, ?_⟩
      · simp [maxCaseStmt_ok h hrv.1 hrv.2, (ih' _).1, bind, Except.bind, pure, Except.pure]
      · intro q hq
        rcases List.mem_cons.mp hq with hq | hq
        · subst hq; exact maxCaseStmt_good h hrv.1 hrv.2
        · exact (ih' _).2 q hq

theorem cellPairs_mem (r : RecSpec) : ∀ p ∈ cellPairs r, p.1 ∈ r.rows ∧ p.2 ∈ r.valueCols := by
  intro p hp
  simp only [cellPairs, List.mem_flatMap, List.mem_map] at hp
  obtain ⟨row, hrow, vc, hvc, rfl⟩ := hp
  exact ⟨hrow, hvc⟩

theorem listJoin_shape (d : Dialect) (jp : List Piece) (pss : List (List Piece)) :
    listJoin (renderPs d jp) (pss.map (renderPs d)) = (listJoinPieces jp pss).map (renderPs d) := by
  induction pss with
  | nil => rfl
  | cons x xs ih =>
    cases xs with
    | nil => simp [listJoin, listJoinPieces, renderPs, Piece.text]
    | cons y ys =>
      simp only [List.map_cons] at ih ⊢
      simp only [listJoin, listJoinPieces, List.map_cons, ih]
      simp [renderPs, Piece.text]

theorem listJoin_good {d : Dialect} {jp : List Piece} (hj : Good d jp) (hjo : OpenHead jp) (pss : List (List Piece))
    (h : ∀ ps ∈ pss, Good d ps) : ∀ l ∈ listJoinPieces jp pss, Good d l := by
  have hsp : Good d [.sp] := ⟨by intro p hp; simp at hp; subst hp; trivial, rfl⟩
  induction pss with
  | nil => simp [listJoinPieces]
  | cons x xs ih =>
    have hx := h x (by simp)
    have ih' := ih (fun q hq => h q (by simp [hq]))
    have h1 : Good d (.sp :: x) := hsp.append_openLast hx (by intro y hy; simp at hy; subst hy; rfl)
    cases xs with
    | nil => intro l hl; simp [listJoinPieces] at hl; subst hl; exact h1
    | cons y ys =>
      intro l hl
      simp only [listJoinPieces, List.mem_cons] at hl
      rcases hl with hl | hl
      · subst hl; exact h1.append_openHead hj hjo
      · exact ih' l (by simpa [listJoinPieces] using hl)

/-! ### table_values_to_sql_str_list -/

theorem tableRow_ok {d : Dialect} {cols : List (List Char)} (hc : ∀ c ∈ cols, IdentOk d c) (allcols : List (List Char))
    (row : List (List Char)) :
    (cols.mapM (fun c => do
        let q ← quoteIdent d c
        pure (valueToSql d (.str (cell allcols row c)) ++ " AS ".toList ++ q)))
      = .ok (cols.map (fun c => renderPs d [.str (cell allcols row c), .sp, kwP "AS", .sp, .id c])) :=
  mapM_ok _ _ _ (fun c hcc => by
    simp [quoteIdent_ok (hc c hcc).1, valueToSql, renderPs, Piece.text, kwP, bind, Except.bind, pure, Except.pure])

theorem unionP_good (d : Dialect) : Good d (unionStartP d) ∧ Good d (unionEndP d) ∧ OpenLast (unionStartP d) ∧
    OpenHead (unionEndP d) ∧ renderPs d (unionStartP d) = d.unionStart ∧ renderPs d (unionEndP d) = d.unionEnd := by
  cases d <;> refine ⟨⟨?_, rfl⟩, ⟨?_, rfl⟩, ?_, ?_, rfl, rfl⟩ <;>
    first
    | (intro p hp; simp [unionStartP, unionEndP] at hp; try (subst hp; rfl))
    | (intro p hp; simp [unionStartP, unionEndP] at hp; try (subst hp; rfl))

theorem tableRow_good {d : Dialect} {cols : List (List Char)} (hc : ∀ c ∈ cols, IdentOk d c)
    (row : List (List Char)) :
    tableValuesRow d cols row = .ok (renderPs d (tableRowShape d cols row)) ∧ Good d (tableRowShape d cols row) := by
  obtain ⟨u1, u2, u3, u4, u5, u6⟩ := unionP_good d
  have hparts : ∀ ps ∈ cols.map (fun c => [Piece.str (cell cols row c), .sp, kwP "AS", .sp, .id c]), Good d ps := by
    intro ps hps; simp at hps; obtain ⟨c, hcc, rfl⟩ := hps
    exact ⟨by
      intro p hp; simp at hp
      rcases hp with hp | hp | hp | hp | hp <;> subst hp <;> first | trivial | exact hc c hcc | kwv, rfl⟩
  have hj := joinSep_good (commaSep_good d) (openHead_cons _ rfl) (openLast_concat [.p ','] rfl) (by simp) _ hparts
  have h1 : Good d [kwP "SELECT", .sp] := ⟨by
    intro p hp; simp at hp; rcases hp with hp | hp <;> subst hp <;> first | trivial | kwv, rfl⟩
  refine ⟨?_, ?_⟩
  · have ht := hj.text
    simp only [List.map_map] at ht
    rw [show ", ".toList = [',', ' '] from by decide] at ht
    simp only [tableValuesRow, tableRow_ok hc cols row]
    simp [tableRowShape, renderPs_append, u5, u6, bind, Except.bind, pure, Except.pure]
    rw [show (fun c => renderPs d [Piece.str (cell cols row c), Piece.sp, kwP "AS", Piece.sp, Piece.id c]) =
      (renderPs d ∘ fun c => [Piece.str (cell cols row c), Piece.sp, kwP "AS", Piece.sp, Piece.id c]) from rfl, ht]
    simp [renderPs, Piece.text, kwP, ← u6]
  · exact ((u1.append_openLast h1 u3).append_openLast hj.good (openLast_concat (unionStartP d ++ [kwP "SELECT"]) rfl
      |> fun h => by simpa using h)).append_openHead u2 u4

theorem tableRows_ok {d : Dialect} {cols : List (List Char)} (hc : ∀ c ∈ cols, IdentOk d c) (first : Bool)
    (rows : List (List (List Char))) :
    tableValuesRows d cols first rows = .ok ((tableRowLinesShape d cols first rows).map (renderPs d)) ∧
    ∀ l ∈ tableRowLinesShape d cols first rows, Good d l := by
  induction rows generalizing first with
  | nil => exact ⟨rfl, by simp [tableRowLinesShape]⟩
  | cons row rows ih =>
    obtain ⟨e1, g1⟩ := tableRow_good hc row
    obtain ⟨e2, g2⟩ := ih false
    have hpre : Good d ([.sp, .sp, .sp, .sp] ++ (if first then [] else [kwP "UNION", .sp, kwP "ALL", .sp])) := by
      cases first
      · exact ⟨by
          intro p hp; simp at hp
          rcases hp with hp | hp | hp | hp | hp <;> subst hp <;> first | trivial | kwv, rfl⟩
      · exact ⟨by intro p hp; simp at hp; subst hp; trivial, rfl⟩
    have hol : OpenLast ([Piece.sp, .sp, .sp, .sp] ++ (if first then [] else [kwP "UNION", .sp, kwP "ALL", .sp])) := by
      cases first <;> (intro y hy; simp at hy; subst hy; rfl)
    refine ⟨?_, ?_⟩
    · simp only [tableValuesRows, e1, e2, tableRowLinesShape, tableRowLineShape]
      cases first <;> simp [renderPs_append, bind, Except.bind, pure, Except.pure] <;> simp [renderPs, Piece.text, kwP]
    · intro l hl
      simp only [tableRowLinesShape, List.mem_cons] at hl
      rcases hl with hl | hl
      · subst hl; exact hpre.append_openLast g1 hol
      · exact g2 l hl

theorem tableValues_identOk (d : Dialect) : IdentOk d "table_values".toList := by
  cases d <;> exact ⟨by decide, fun _ => by decide⟩

theorem tableValues_ok {d : Dialect} {cols : List (List Char)} (hc : ∀ c ∈ cols, IdentOk d c)
    (rows : List (List (List Char))) :
    tableValuesToSql d cols rows = .ok ((tableValuesShape d cols rows).map (renderPs d)) ∧
    ∀ l ∈ tableValuesShape d cols rows, Good d l := by
  obtain ⟨e, g⟩ := tableRows_ok hc true rows
  refine ⟨?_, ?_⟩
  · have hq := quoteIdent_ok (tableValues_identOk d).1
    rw [show "table_values".toList = ['t', 'a', 'b', 'l', 'e', '_', 'v', 'a', 'l', 'u', 'e', 's'] from by decide] at hq
    simp [tableValuesToSql, e, hq, tableValuesShape, bind, Except.bind, pure, Except.pure]
    simp [renderPs, Piece.text, kwP]
  · intro l hl
    simp only [tableValuesShape, List.mem_append, List.mem_cons, List.not_mem_nil, or_false] at hl
    rcases hl with ((hl | hl | hl) | hl) | hl
    · subst hl; exact ⟨by intro p hp; simp at hp; subst hp; kwv, rfl⟩
    · subst hl; exact ⟨by intro p hp; simp at hp; rcases hp with hp | hp <;> subst hp <;> first | trivial | rfl, rfl⟩
    · subst hl; exact ⟨by
        intro p hp; simp at hp; rcases hp with hp | hp | hp <;> subst hp <;> first | trivial | rfl | kwv, rfl⟩
    · exact g l hl
    · subst hl; exact ⟨by
        intro p hp; simp at hp
        rcases hp with hp | hp | hp <;> subst hp <;> first | trivial | rfl | exact tableValues_identOk d, rfl⟩

/-! ### the two query builders -/

def r2bStmtShapes (d : Dialect) (r : RecSpec) : List (List Piece) :=
  r.recordKeys.map (aliasStmtShape 'a') ++ r.controlKeys.map (aliasStmtShape 'b') ++ r.valueCols.map (caseStmtShape d r)

def r2bOrderShapes (r : RecSpec) : List (List Piece) :=
  r.recordKeys.map (fun c => [.kw ['a'], .p '.', .id c]) ++ r.controlKeys.map (fun c => [.kw ['b'], .p '.', .id c])

/-- lines of `sql_prefix` of `row_recs_to_blocks_query_str_list_pair` -/
def r2bPrefixShape (d : Dialect) (r : RecSpec) : List (List Piece) :=
  listJoinPieces [.p ','] (r2bStmtShapes d r) ++ [fromLineShape]

/-- lines of `sql_suffix` of `row_recs_to_blocks_query_str_list_pair` -/
def r2bSuffixShape (d : Dialect) (r : RecSpec) : List (List Piece) :=
  [[.sp, .p ')', .sp, .kw ['a']], [kwP "CROSS", .sp, kwP "JOIN", .sp, .p '(']] ++
  listJoinPieces [] (tableValuesShape d r.cols r.rows) ++
  [[.sp, .p ')', .sp, .kw ['b']], [.sp, kwP "ORDER", .sp, kwP "BY"]] ++
  listJoinPieces [.p ',', .sp] (r2bOrderShapes r)

theorem fromLine_good (d : Dialect) : Good d fromLineShape := ⟨by
  intro p hp; simp [fromLineShape] at hp
  rcases hp with hp | hp | hp | hp | hp | hp | hp | hp | hp | hp <;> subst hp <;> first | trivial | rfl | kwv, rfl⟩

theorem comma_good (d : Dialect) : Good d [.p ','] := ⟨by intro p hp; simp at hp; subst hp; rfl, rfl⟩
theorem commaSp_good (d : Dialect) : Good d [.p ',', .sp] := (commaSep_good d).good

theorem aliasStmt_ok {d : Dialect} (al : Char) {c : List Char} (h : IdentOk d c) :
    (do let q ← quoteIdent d c; pure (' ' :: al :: '.' :: q ++ " AS ".toList ++ q) : Except Err (List Char))
      = .ok (renderPs d (aliasStmtShape al c)) := by
  simp [quoteIdent_ok h.1, aliasStmtShape, renderPs, Piece.text, kwP, bind, Except.bind, pure, Except.pure]

theorem rowRecsToBlocks_ok {d : Dialect} {r : RecSpec} (h : NamesOk d r) :
    rowRecsToBlocks d r = .ok ((r2bPrefixShape d r).map (renderPs d), (r2bSuffixShape d r).map (renderPs d)) ∧
    (∀ l ∈ r2bPrefixShape d r, Good d l) ∧ (∀ l ∈ r2bSuffixShape d r, Good d l) := by
  have e1 : (r.recordKeys.mapM (fun c => do pure ("a.".toList ++ (← quoteIdent d c))))
      = .ok (r.recordKeys.map (fun c => renderPs d [.kw ['a'], .p '.', .id c])) :=
    mapM_ok _ _ _ (fun c hc => by
      simp [quoteIdent_ok (h.recordKeys c hc).1, renderPs, Piece.text, bind, Except.bind, pure, Except.pure])
  have e2 : (r.controlKeys.mapM (fun c => do pure ("b.".toList ++ (← quoteIdent d c))))
      = .ok (r.controlKeys.map (fun c => renderPs d [.kw ['b'], .p '.', .id c])) :=
    mapM_ok _ _ _ (fun c hc => by
      simp [quoteIdent_ok (h.controlKeys c hc).1, renderPs, Piece.text, bind, Except.bind, pure, Except.pure])
  have e3 : (r.recordKeys.mapM (fun c => do
        let q ← quoteIdent d c
        pure (" a.".toList ++ q ++ " AS ".toList ++ q)))
      = .ok (r.recordKeys.map (fun c => renderPs d (aliasStmtShape 'a' c))) :=
    mapM_ok _ _ _ (fun c hc => by simpa using aliasStmt_ok 'a' (h.recordKeys c hc))
  have e4 : (r.controlKeys.mapM (fun c => do
        let q ← quoteIdent d c
        pure (" b.".toList ++ q ++ " AS ".toList ++ q)))
      = .ok (r.controlKeys.map (fun c => renderPs d (aliasStmtShape 'b' c))) :=
    mapM_ok _ _ _ (fun c hc => by simpa using aliasStmt_ok 'b' (h.controlKeys c hc))
  have e5 : r.valueCols.mapM (caseStmt d r) = .ok (r.valueCols.map (fun c => renderPs d (caseStmtShape d r c))) :=
    mapM_ok _ _ _ (fun c hc => caseStmt_ok h hc)
  obtain ⟨e6, g6⟩ := tableValues_ok h.cols r.rows
  have gst : ∀ ps ∈ r2bStmtShapes d r, Good d ps := by
    intro ps hps
    simp only [r2bStmtShapes, List.mem_append, List.mem_map] at hps
    rcases hps with (⟨c, hc, rfl⟩ | ⟨c, hc, rfl⟩) | ⟨c, hc, rfl⟩
    · exact aliasStmt_good (.inl rfl) (h.recordKeys c hc)
    · exact aliasStmt_good (.inr rfl) (h.controlKeys c hc)
    · exact caseStmt_good h hc
  have gord : ∀ ps ∈ r2bOrderShapes r, Good d ps := by
    intro ps hps
    simp only [r2bOrderShapes, List.mem_append, List.mem_map] at hps
    rcases hps with ⟨c, hc, rfl⟩ | ⟨c, hc, rfl⟩
    · exact ⟨by
        intro p hp; simp at hp
        rcases hp with hp | hp | hp <;> subst hp <;> first | exact h.recordKeys c hc | rfl | exact ⟨by decide, by decide⟩, rfl⟩
    · exact ⟨by
        intro p hp; simp at hp
        rcases hp with hp | hp | hp <;> subst hp <;> first | exact h.controlKeys c hc | rfl | exact ⟨by decide, by decide⟩, rfl⟩
  refine ⟨?_, ?_, ?_⟩
  · have l1 := listJoin_shape d [.p ','] (r2bStmtShapes d r)
    have l2 := listJoin_shape d [] (tableValuesShape d r.cols r.rows)
    have l3 := listJoin_shape d [.p ',', .sp] (r2bOrderShapes r)
    simp only [show renderPs d [Piece.p ','] = [','] from rfl, show renderPs d [] = [] from rfl,
      show renderPs d [Piece.p ',', Piece.sp] = [',', ' '] from rfl] at l1 l2 l3
    simp only [rowRecsToBlocks, e1, e2, e3, e4, e5, e6]
    simp only [bind, Except.bind, pure, Except.pure, r2bPrefixShape, r2bSuffixShape, List.map_append]
    rw [← l1, ← l2, ← l3]
    simp [r2bStmtShapes, r2bOrderShapes, List.map_append, Function.comp_def, renderPs, Piece.text, kwP, fromLineShape]
  · intro l hl
    simp only [r2bPrefixShape, List.mem_append, List.mem_singleton] at hl
    rcases hl with hl | hl
    · exact listJoin_good (comma_good d) (openHead_cons _ rfl) _ gst l hl
    · subst hl; exact fromLine_good d
  · intro l hl
    simp only [r2bSuffixShape, List.mem_append, List.mem_cons, List.not_mem_nil, or_false] at hl
    rcases hl with (((hl | hl) | hl) | hl | hl) | hl
    · subst hl; exact ⟨by
        intro p hp; simp at hp
        rcases hp with hp | hp | hp | hp <;> subst hp <;> first | trivial | rfl | exact ⟨by decide, by decide⟩, rfl⟩
    · subst hl; exact ⟨by
        intro p hp; simp at hp
        rcases hp with hp | hp | hp | hp | hp <;> subst hp <;> first | trivial | rfl | kwv, rfl⟩
    · exact listJoin_good (Good.nil d) (by intro y hy; simp at hy) _ g6 l hl
    · subst hl; exact ⟨by
        intro p hp; simp at hp
        rcases hp with hp | hp | hp | hp <;> subst hp <;> first | trivial | rfl | exact ⟨by decide, by decide⟩, rfl⟩
    · subst hl; exact ⟨by
        intro p hp; simp at hp
        rcases hp with hp | hp | hp | hp <;> subst hp <;> first | trivial | rfl | kwv, rfl⟩
    · exact listJoin_good (commaSp_good d) (openHead_cons _ rfl) _ gord l hl

/-- lines of `sql_prefix` of `blocks_to_row_recs_query_str_list_pair` -/
def b2rPrefixShape (d : Dialect) (r : RecSpec) : List (List Piece) :=
  match r.rows with
  | [] => []
  | [row] => listJoinPieces [.p ','] (r.recordKeys.map (fun c => renameStmtShape c c) ++
      r.valueCols.map (fun cc => renameStmtShape cc (cell r.cols row cc))) ++ [fromLineShape]
  | _ => listJoinPieces [.p ','] (r.recordKeys.map (fun c => renameStmtShape c c) ++
      maxCaseStmtsShape d r [] (cellPairs r)) ++ [fromLineShape]

/-- lines of `sql_suffix` of `blocks_to_row_recs_query_str_list_pair` -/
def b2rSuffixShape (r : RecSpec) : List (List Piece) :=
  match r.rows with
  | [] => []
  | [_] => [[.sp, .p ')', .sp, .kw ['a']]]
  | _ => [[.sp, .p ')', .sp, .kw ['a']], [kwP "GROUP", .sp, kwP "BY"]] ++
      listJoinPieces [.p ','] (r.recordKeys.map (fun c => [.id c])) ++ [[kwP "ORDER", .sp, kwP "BY", .sp]] ++
      listJoinPieces [.p ','] (r.recordKeys.map (fun c => [.id c]))

theorem renameStmt_ok {d : Dialect} {c t : List Char} (h : IdentOk d c) (ht : IdentOk d t) :
    (do let q ← quoteIdent d c; let q0 ← quoteIdent d t; pure (" ".toList ++ q ++ " AS ".toList ++ q0) :
      Except Err (List Char)) = .ok (renderPs d (renameStmtShape c t)) := by
  simp [quoteIdent_ok h.1, quoteIdent_ok ht.1, renameStmtShape, renderPs, Piece.text, kwP, bind, Except.bind, pure,
    Except.pure]

theorem blocksToRowRecs_ok {d : Dialect} {r : RecSpec} (h : NamesOk d r) (hrows : r.rows ≠ []) :
    blocksToRowRecs d r = .ok ((b2rPrefixShape d r).map (renderPs d), (b2rSuffixShape r).map (renderPs d)) ∧
    (∀ l ∈ b2rPrefixShape d r, Good d l) ∧ (∀ l ∈ b2rSuffixShape r, Good d l) := by
  have e1 : (r.recordKeys.mapM (fun c => do
        let q ← quoteIdent d c
        pure (" ".toList ++ q ++ " AS ".toList ++ q)))
      = .ok (r.recordKeys.map (fun c => renderPs d (renameStmtShape c c))) :=
    mapM_ok _ _ _ (fun c hc => by
      simp [quoteIdent_ok (h.recordKeys c hc).1, renameStmtShape, renderPs, Piece.text, kwP, bind, Except.bind, pure,
        Except.pure])
  have g1 : ∀ ps ∈ r.recordKeys.map (fun c => renameStmtShape c c), Good d ps := by
    intro ps hps; simp at hps; obtain ⟨c, hc, rfl⟩ := hps
    exact renameStmt_good (h.recordKeys c hc) (h.recordKeys c hc)
  have ga : Good d [.sp, .p ')', .sp, .kw ['a']] := ⟨by
    intro p hp; simp at hp
    rcases hp with hp | hp | hp | hp <;> subst hp <;> first | trivial | rfl | exact ⟨by decide, by decide⟩, rfl⟩
  have l0 := fun pss => listJoin_shape d [.p ','] pss
  simp only [show renderPs d [Piece.p ','] = [','] from rfl] at l0
  cases hr : r.rows with
  | nil => exact absurd hr hrows
  | cons row rest =>
    cases rest with
    | nil =>
      have hrow : row ∈ r.rows := by rw [hr]; simp
      have e2 : (r.valueCols.mapM (fun cc => do
            let q ← quoteIdent d cc
            let q0 ← quoteIdent d (cell r.cols row cc)
            pure (" ".toList ++ q ++ " AS ".toList ++ q0)))
          = .ok (r.valueCols.map (fun cc => renderPs d (renameStmtShape cc (cell r.cols row cc)))) :=
        mapM_ok _ _ _ (fun cc hcc => renameStmt_ok (h.cols cc (valueCols_sub r cc hcc)) (h.cells row hrow cc hcc))
      refine ⟨?_, ?_, ?_⟩
      · simp only [blocksToRowRecs, e1, hr, e2, b2rPrefixShape, b2rSuffixShape]
        simp only [bind, Except.bind, pure, Except.pure, List.map_append]
        rw [← l0]
        simp [List.map_append, Function.comp_def, renderPs, Piece.text, kwP, fromLineShape]
      · intro l hl
        simp only [b2rPrefixShape, hr, List.mem_append, List.mem_singleton] at hl
        rcases hl with hl | hl
        · refine listJoin_good (comma_good d) (openHead_cons _ rfl) _ ?_ l hl
          intro ps hps
          rcases List.mem_append.mp hps with hps | hps
          · exact g1 ps hps
          · simp at hps; obtain ⟨cc, hcc, rfl⟩ := hps
            exact renameStmt_good (h.cols cc (valueCols_sub r cc hcc)) (h.cells row hrow cc hcc)
        · subst hl; exact fromLine_good d
      · intro l hl
        simp only [b2rSuffixShape, hr, List.mem_singleton] at hl
        subst hl; exact ga
    | cons row2 rest2 =>
      have e0 : r.recordKeys.mapM (quoteIdent d) = .ok (r.recordKeys.map (fun c => renderPs d [.id c])) :=
        mapM_ok _ _ _ (fun c hc => by simp [quoteIdent_ok (h.recordKeys c hc).1, renderPs, Piece.text])
      obtain ⟨e2, g2⟩ := maxCaseStmts_ok h [] (cellPairs r) (cellPairs_mem r)
      have gid : ∀ ps ∈ r.recordKeys.map (fun c => [Piece.id c]), Good d ps := by
        intro ps hps; simp at hps; obtain ⟨c, hc, rfl⟩ := hps
        exact ⟨by intro p hp; simp at hp; subst hp; exact h.recordKeys c hc, rfl⟩
      refine ⟨?_, ?_, ?_⟩
      · simp only [blocksToRowRecs, e1, hr, e0, e2, b2rPrefixShape, b2rSuffixShape]
        simp only [bind, Except.bind, pure, Except.pure, List.map_append]
        rw [← l0, ← l0]
        simp [List.map_append, Function.comp_def, renderPs, Piece.text, kwP, fromLineShape]
      · intro l hl
        simp only [b2rPrefixShape, hr, List.mem_append, List.mem_singleton] at hl
        rcases hl with hl | hl
        · refine listJoin_good (comma_good d) (openHead_cons _ rfl) _ ?_ l hl
          intro ps hps
          rcases List.mem_append.mp hps with hps | hps
          · exact g1 ps hps
          · exact g2 ps hps
        · subst hl; exact fromLine_good d
      · intro l hl
        simp only [b2rSuffixShape, hr, List.mem_append, List.mem_cons, List.not_mem_nil, or_false] at hl
        rcases hl with (((hl | hl) | hl) | hl) | hl
        · subst hl; exact ga
        · subst hl; exact ⟨by
            intro p hp; simp at hp; rcases hp with hp | hp | hp <;> subst hp <;> first | trivial | kwv, rfl⟩
        · exact listJoin_good (comma_good d) (openHead_cons _ rfl) _ gid l hl
        · subst hl; exact ⟨by
            intro p hp; simp at hp; rcases hp with hp | hp | hp | hp <;> subst hp <;> first | trivial | kwv, rfl⟩
        · exact listJoin_good (comma_good d) (openHead_cons _ rfl) _ gid l hl

end DAVerif.Text
