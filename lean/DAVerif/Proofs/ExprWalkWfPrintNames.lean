import DAVerif.Proofs.ExprWalkWfNames
/-!
C13: the NAME tokens of the printed form of a well-formed term are its `termNames` (column names and the operators of
the non-inline nodes).
-/
namespace DAVerif.C13W
open DAVerif DAVerif.Expr

/-- the texts of the NAME tokens of a token list -/
def nameToks (ts : List Token) : List String := (ts.filter (fun k => k.kind == .name)).map (·.text)

@[simp] theorem nameToks_nil : nameToks [] = [] := rfl
@[simp] theorem nameToks_append (a b : List Token) : nameToks (a ++ b) = nameToks a ++ nameToks b := by
  simp [nameToks]
@[simp] theorem nameToks_cons_o (s : String) (ts : List Token) : nameToks (o s :: ts) = nameToks ts := by
  simp [nameToks, o, Token.op]
@[simp] theorem nameToks_cons_nm (s : String) (ts : List Token) : nameToks (Token.nm s :: ts) = s :: nameToks ts := by
  simp [nameToks, Token.nm]
@[simp] theorem nameToks_paren (ts : List Token) : nameToks (parenToks ts) = nameToks ts := by
  simp [parenToks]

theorem nameToks_lit {l : Lit} (h : litOk l = true) : nameToks (litToks l) = [] := by
  cases l with
  | none => simp [litToks]
  | bool b => cases b <;> simp [litToks]
  | int i => simp only [litToks]; split <;> simp [nameToks, o, Token.op]
  | flt q => simp only [litToks]; split <;> simp [nameToks, o, Token.op]
  | nan => simp [litOk] at h
  | inf => simp [litOk] at h
  | ninf => simp [litOk] at h
  | str s => simp [litToks, nameToks]

theorem mem_nameToks_comma : ∀ (xs : List (List Token)) (n : String), n ∈ nameToks (commaToks xs) →
    ∃ x ∈ xs, n ∈ nameToks x
  | [], n, h => by simp [commaToks] at h
  | [x], n, h => by simp only [commaToks] at h; exact ⟨x, by simp, h⟩
  | x :: y :: ys, n, h => by
    simp only [commaToks, nameToks_append, nameToks_cons_o, List.mem_append] at h
    rcases h with h | h
    · exact ⟨x, by simp, h⟩
    · obtain ⟨z, hz, hn⟩ := mem_nameToks_comma (y :: ys) n h
      exact ⟨z, List.mem_cons_of_mem _ hz, hn⟩

theorem mem_nameToks_op (op : String) : ∀ (xs : List (List Token)) (n : String), n ∈ nameToks (opToks op xs) →
    ∃ x ∈ xs, n ∈ nameToks x
  | [], n, h => by simp [opToks] at h
  | [x], n, h => by simp only [opToks] at h; exact ⟨x, by simp, h⟩
  | x :: y :: ys, n, h => by
    simp only [opToks, nameToks_append, nameToks_cons_o, List.mem_append] at h
    rcases h with h | h
    · exact ⟨x, by simp, h⟩
    · obtain ⟨z, hz, hn⟩ := mem_nameToks_op op (y :: ys) n h
      exact ⟨z, List.mem_cons_of_mem _ hz, hn⟩

theorem nameToks_lits : ∀ (vs : List Lit), vs.all litOk = true → ∀ x ∈ vs.map litToks, nameToks x = []
  | [], _, x, hx => by simp at hx
  | v :: vs, h, x, hx => by
    simp only [List.all_cons, Bool.and_eq_true] at h
    simp only [List.map_cons, List.mem_cons] at hx
    rcases hx with rfl | hx
    · exact nameToks_lit h.1
    · exact nameToks_lits vs h.2 x hx

theorem nameToks_kvs : ∀ (kvs : List (Lit × Lit)), kvs.all (fun kv => litOk kv.1 && litOk kv.2) = true →
    ∀ x ∈ kvs.map kvToks, nameToks x = []
  | [], _, x, hx => by simp at hx
  | kv :: kvs, h, x, hx => by
    simp only [List.all_cons, Bool.and_eq_true] at h
    simp only [List.map_cons, List.mem_cons] at hx
    rcases hx with rfl | hx
    · simp [kvToks, nameToks_lit h.1.1, nameToks_lit h.1.2]
    · exact nameToks_kvs kvs h.2 x hx

/-- a well-formed node without arguments is not inline -/
theorem shapeOk_nil_inline {env : Env} {op : String} {i m : Bool} (h : shapeOk env op [] i m = true) : i = false := by
  cases i <;> cases m <;> simp_all [shapeOk]

mutual
theorem tk_names {env : Env} : ∀ (t : Term) (want : Bool), wf env t = true →
    ∀ n ∈ nameToks (tk t want), n ∈ termNames t
  | .value l, want, h, n, hn => by
    rw [wf_value] at h
    simp only [tk] at hn
    split at hn <;> simp [nameToks_lit h] at hn
  | .col c, want, _, n, hn => by
    simp only [tk, nameToks_cons_nm, nameToks_nil, List.mem_singleton] at hn
    simp [termNames, hn]
  | .list vs, want, h, n, hn => by
    rw [wf] at h
    simp only [Bool.and_eq_true] at h
    simp only [tk, nameToks_cons_o, nameToks_append, nameToks_nil, List.append_nil] at hn
    obtain ⟨x, hx, hnx⟩ := mem_nameToks_comma _ n hn
    rw [nameToks_lits vs h.1.1.2 x hx] at hnx
    simp at hnx
  | .dict kvs, want, h, n, hn => by
    rw [wf] at h
    simp only [Bool.and_eq_true] at h
    simp only [tk, nameToks_cons_o, nameToks_append, nameToks_nil, List.append_nil] at hn
    obtain ⟨x, hx, hnx⟩ := mem_nameToks_comma _ n hn
    rw [nameToks_kvs kvs h.1.1.1.1.2 x hx] at hnx
    simp at hnx
  | .app op [] inline method, want, h, n, hn => by
    rw [wf_app, Bool.and_eq_true] at h
    have hi := shapeOk_nil_inline h.2
    subst hi
    simp only [tk, nameToks_cons_nm, nameToks_cons_o, nameToks_nil, List.mem_singleton] at hn
    simp [termNames_app, hn]
  | .app op [a] inline method, want, h, n, hn => by
    rw [wf_app, Bool.and_eq_true, wfs_cons, Bool.and_eq_true] at h
    have iha := tk_names a false h.1.1 n
    rw [termNames_app, termNamesL_cons, termNamesL_nil, List.append_nil, List.mem_append]
    simp only [tk] at hn
    split at hn
    · split at hn
      · simp only [nameToks_paren, nameToks_cons_o] at hn; exact Or.inr (iha hn)
      · simp only [nameToks_paren, nameToks_cons_o] at hn; exact Or.inr (iha hn)
    · rename_i hi
      have hi' : inline = false := by simpa using hi
      subst hi'
      split at hn
      · simp only [nameToks_append, nameToks_cons_o, nameToks_cons_nm, nameToks_nil, List.mem_append,
          List.mem_singleton] at hn
        rcases hn with hn | hn
        · split at hn
          · exact Or.inr (iha hn)
          · simp only [nameToks_paren] at hn; exact Or.inr (iha hn)
        · exact Or.inl (by simp [hn])
      · simp only [nameToks_append, nameToks_cons_o, nameToks_cons_nm, nameToks_nil, List.append_nil,
          List.mem_cons] at hn
        rcases hn with hn | hn
        · exact Or.inl (by simp [hn])
        · exact Or.inr (iha hn)
  | .app op (a :: b :: rest) inline method, want, h, n, hn => by
    rw [wf_app, Bool.and_eq_true] at h
    have hw := h.1
    rw [wfs_cons, Bool.and_eq_true] at hw
    rw [termNames_app, List.mem_append]
    simp only [tk] at hn
    split at hn
    · have : n ∈ nameToks (opToks op (tkArgs (a :: b :: rest) true)) := by
        split at hn
        · simpa only [nameToks_paren] using hn
        · exact hn
      obtain ⟨x, hx, hnx⟩ := mem_nameToks_op op _ n this
      exact Or.inr (tkArgs_names (a :: b :: rest) true h.1 x hx n hnx)
    · rename_i hi
      have hi' : inline = false := by simpa using hi
      subst hi'
      split at hn
      · simp only [nameToks_append, nameToks_cons_o, nameToks_cons_nm, nameToks_nil, List.mem_append,
          List.mem_cons, List.append_nil] at hn
        rcases hn with hn | hn | hn
        · have iha := tk_names a false hw.1 n
          rw [termNamesL_cons, List.mem_append]
          split at hn
          · exact Or.inr (Or.inl (iha hn))
          · simp only [nameToks_paren] at hn; exact Or.inr (Or.inl (iha hn))
        · exact Or.inl (by simp [hn])
        · obtain ⟨x, hx, hnx⟩ := mem_nameToks_comma _ n hn
          rw [termNamesL_cons, List.mem_append]
          exact Or.inr (Or.inr (tkArgs_names (b :: rest) false hw.2 x hx n hnx))
      · simp only [nameToks_append, nameToks_cons_o, nameToks_cons_nm, nameToks_nil, List.mem_cons,
          List.append_nil] at hn
        rcases hn with hn | hn
        · exact Or.inl (by simp [hn])
        · obtain ⟨x, hx, hnx⟩ := mem_nameToks_comma _ n hn
          exact Or.inr (tkArgs_names (a :: b :: rest) false h.1 x hx n hnx)
theorem tkArgs_names {env : Env} : ∀ (ts : List Term) (want : Bool), wfs env ts = true →
    ∀ x ∈ tkArgs ts want, ∀ n ∈ nameToks x, n ∈ termNamesL ts
  | [], want, _, x, hx, n, _ => by simp [tkArgs] at hx
  | a :: as, want, h, x, hx, n, hn => by
    rw [wfs_cons, Bool.and_eq_true] at h
    simp only [tkArgs, List.mem_cons] at hx
    rw [termNamesL_cons, List.mem_append]
    rcases hx with rfl | hx
    · exact Or.inl (tk_names a want h.1 n hn)
    · exact Or.inr (tkArgs_names as want h.2 x hx n hn)
end

/-- the NAME tokens of `str(t)` are names of `t` -/
theorem printToks_names {env : Env} {t : Term} (h : wf env t = true) :
    ∀ n ∈ nameToks (printToks t), n ∈ termNames t := by
  rw [printToks_eq]; exact tk_names t false h

/-! ## checks on the tree the parser returns (used by the counterexamples and the non-vacuity examples) -/

/-- does the walker return a well-formed term for the tree? (`none`: the walker refuses the tree) -/
def walkedWf (env : Env) (c : Cst) : Option Bool := (walk env c).toOption.map (wf env)

/-- a decidable check on the tree the parser returns holds (false when the parser refuses the tokens) -/
def parsedSat (toks : List Token) (P : Cst → Bool) : Bool :=
  match parseToks toks with
  | .ok c => P c
  | .error _ => false

theorem parsedSat_exists {toks : List Token} {P : Cst → Bool} (h : parsedSat toks P = true) :
    ∃ c, parseToks toks = .ok c ∧ P c = true := by
  unfold parsedSat at h
  split at h
  · rename_i c hc; exact ⟨c, hc, h⟩
  · contradiction

end DAVerif.C13W
