import DAVerif.Proofs.SqlFullPerm
/-!
C16, SQLite FULL join emulation, semantic side: the pipeline `_emit_full_join_as_complex` builds,

  `keys = (a.project({}, K) ++ b.project({}, K)).project({}, K);  (keys ⟕ a on K) ⟕ b on K`,

evaluates (reference semantics) to the rows of `a ⟗ b on K`, up to order, **when no join key is null**
(`fullSim_rows_perm`).
-/
namespace DAVerif
namespace Sql
open DAVerif.Ops (usedFromSources unionL)

/-! ### the key table -/

/-- the row `project({}, group_by=K)` builds for the key `k` -/
def keyRow (K : List String) (k : List Val) : Row := Row.select (K.zip k ++ []) K

theorem keyOf_keyRow (K : List String) (r : Row) : keyOf (keyRow K (keyOf r K)) K = keyOf r K := by
  simp only [keyRow, keyOf, Row.vals, List.append_nil]
  apply List.map_congr_left
  intro c hc
  rw [Row.get_select_mem hc]
  simp only [Row.get, lookup_zip_map hc, Option.getD_some]

theorem semProject_keys_rows (Θ : Interp) {K : List String} (hK : K ≠ []) (t : Table) :
    (semProject Θ [] K t K).rows = ((t.rows.map (fun r => keyOf r K)).eraseDups).map (keyRow K) := by
  have : K.isEmpty = false := by simpa using hK
  simp only [semProject, this, Bool.false_eq_true, ↓reduceIte, List.map_nil]
  rfl

theorem keys_of_keyRows (K : List String) (ks : List (List Val)) (h : ∀ k ∈ ks, ∃ r : Row, k = keyOf r K) :
    (ks.map (keyRow K)).map (fun r => keyOf r K) = ks := by
  rw [List.map_map]
  conv => rhs; rw [← List.map_id ks]
  apply List.map_congr_left
  intro k hk
  obtain ⟨r, rfl⟩ := h k hk
  exact keyOf_keyRow K r

/-- the distinct keys of two row lists -/
def unionKeys (K : List String) (la lb : List Row) : List (List Val) :=
  ((la.map (fun r => keyOf r K)).eraseDups ++ (lb.map (fun r => keyOf r K)).eraseDups).eraseDups

theorem mem_unionKeys {K : List String} {la lb : List Row} {k : List Val} :
    k ∈ unionKeys K la lb ↔ (∃ r ∈ la, keyOf r K = k) ∨ (∃ r ∈ lb, keyOf r K = k) := by
  simp only [unionKeys, List.mem_eraseDups, List.mem_append, List.mem_map]

theorem unionKeys_form {K : List String} {la lb : List Row} : ∀ k ∈ unionKeys K la lb, ∃ r : Row, k = keyOf r K := by
  intro k hk
  rcases mem_unionKeys.mp hk with ⟨r, _, e⟩ | ⟨r, _, e⟩ <;> exact ⟨r, e.symm⟩

/-- **the key table of the emulation**: one row per distinct key of either side -/
theorem keyTable_rows (Θ : Interp) {K : List String} (hK : K ≠ []) (tsa tsb : Table) (an bn : String) :
    (semProject Θ [] K (semConcat none an bn (semProject Θ [] K tsa K) (semProject Θ [] K tsb K) K) K).rows =
      (unionKeys K tsa.rows tsb.rows).map (keyRow K) := by
  rw [semProject_keys_rows Θ hK]
  congr 1
  simp only [semConcat, semProject_keys_rows Θ hK, List.map_append, List.map_map, unionKeys]
  congr 1
  congr 1
  · have := keys_of_keyRows K ((tsa.rows.map (fun r => keyOf r K)).eraseDups) (by
      intro k hk
      obtain ⟨r, _, e⟩ := List.mem_map.mp (List.mem_eraseDups.mp hk)
      exact ⟨r, e.symm⟩)
    rw [List.map_map] at this
    conv => rhs; rw [← this]
    apply List.map_congr_left
    intro k _
    simp only [Function.comp]
    exact keyOf_select _ (fun c hc => hc)
  · have := keys_of_keyRows K ((tsb.rows.map (fun r => keyOf r K)).eraseDups) (by
      intro k hk
      obtain ⟨r, _, e⟩ := List.mem_map.mp (List.mem_eraseDups.mp hk)
      exact ⟨r, e.symm⟩)
    rw [List.map_map] at this
    conv => rhs; rw [← this]
    apply List.map_congr_left
    intro k _
    simp only [Function.comp]
    exact keyOf_select _ (fun c hc => hc)

theorem keyTable_keys_nodup (K : List String) (la lb : List Row) :
    (((unionKeys K la lb).map (keyRow K)).map (fun r => keyOf r K)).Nodup := by
  rw [keys_of_keyRows K _ unionKeys_form]
  exact nodup_eraseDups _

/-! ### LEFT / FULL joins on key equality as pair lists -/

/-- a LEFT join whose match predicate is key equality on the rows that occur, as a list of pairs -/
theorem leftJoin_eq {ρ κ γ : Type} [BEq κ] (L : List ρ) (g : ρ → Row) (kL : ρ → κ) (tb : List Row) (kB : Row → κ)
    (m : Row → Row → Bool) (mk : Option Row → Option Row → γ)
    (hm : ∀ r ∈ L, ∀ rb ∈ tb, m (g r) rb = (kL r == kB rb)) :
    joinRowsG m mk true false (L.map g) tb =
      L.flatMap (fun r => (tb.filter (fun rb => kL r == kB rb)).map (fun rb => mk (some (g r)) (some rb)))
      ++ (L.filter (fun r => !tb.any (fun rb => kL r == kB rb))).map (fun r => mk (some (g r)) none) := by
  unfold joinRowsG
  simp only [↓reduceIte, Bool.false_eq_true, List.append_nil, List.flatMap_map, List.filter_map, List.map_map]
  congr 1
  · apply flatMap_congr'
    intro r hr
    rw [List.filter_congr (fun rb hrb => hm r hr rb hrb)]
  · have : L.filter ((fun ra => !tb.any fun rb => m ra rb) ∘ g) = L.filter (fun r => !tb.any (fun rb => kL r == kB rb)) := by
      apply List.filter_congr
      intro r hr
      simp only [Function.comp]
      rw [any_congr' (fun rb hrb => hm r hr rb hrb)]
    rw [this]
    rfl

/-- a FULL join whose match predicate is key equality on the rows that occur, as a list of pairs -/
theorem fullJoin_eq {κ γ : Type} [BEq κ] (ta tb : List Row) (kA kB : Row → κ)
    (m : Row → Row → Bool) (mk : Option Row → Option Row → γ)
    (hm : ∀ ra ∈ ta, ∀ rb ∈ tb, m ra rb = (kA ra == kB rb)) :
    joinRowsG m mk true true ta tb = (fullPairs ta tb kA kB).map (fun p => mk p.1 p.2) := by
  unfold joinRowsG fullPairs
  simp only [↓reduceIte, List.map_append, List.map_flatMap, List.map_map]
  congr 1
  · congr 1
    · apply flatMap_congr'
      intro ra hra
      rw [List.filter_congr (fun rb hrb => hm ra hra rb hrb)]
      rfl
    · have : ta.filter (fun ra => !tb.any fun rb => m ra rb) = ta.filter (fun ra => !tb.any (fun rb => kA ra == kB rb)) := by
        apply List.filter_congr
        intro ra hra
        rw [any_congr' (fun rb hrb => hm ra hra rb hrb)]
      rw [this]
      rfl
  · have : tb.filter (fun rb => !ta.any fun ra => m ra rb) = tb.filter (fun rb => !ta.any (fun ra => kA ra == kB rb)) := by
      apply List.filter_congr
      intro rb hrb
      rw [any_congr' (fun ra hra => hm ra hra rb hrb)]
    rw [this]
    rfl

theorem leftPairs1_map {δ α κ γ : Type} [BEq κ] (D : List δ) (ta : List α) (kD : δ → κ) (kA : α → κ)
    (f : δ × Option α → γ) :
    (leftPairs1 D ta kD kA).map f =
      D.flatMap (fun d => (ta.filter (fun ra => kD d == kA ra)).map (fun ra => f (d, some ra)))
      ++ (D.filter (fun d => !ta.any (fun ra => kD d == kA ra))).map (fun d => f (d, none)) := by
  simp only [leftPairs1, List.map_append, List.map_flatMap, List.map_map]
  rfl

theorem leftPairs2_map {δ α β κ γ : Type} [BEq κ] (R1 : List (δ × Option α)) (tb : List β) (kD : δ → κ) (kB : β → κ)
    (f : δ × Option α × Option β → γ) :
    (leftPairs2 R1 tb kD kB).map f =
      R1.flatMap (fun r => (tb.filter (fun rb => kD r.1 == kB rb)).map (fun rb => f (r.1, r.2, some rb)))
      ++ (R1.filter (fun r => !tb.any (fun rb => kD r.1 == kB rb))).map (fun r => f (r.1, r.2, none)) := by
  simp only [leftPairs2, List.map_append, List.map_flatMap, List.map_map]
  rfl

/-! ### key comparison on null-free keys -/

theorem keyMatch_ref_eq {ka kb : List Val} (h : kb.all (fun v => !v.isNull) = true) :
    keyMatch SemCfg.ref ka kb = (ka == kb) := by
  unfold keyMatch
  by_cases e : ka = kb
  · subst e
    simp [SemCfg.ref, h]
  · have : (ka == kb) = false := by simpa using e
    simp [this]

theorem keyOf_all_nonnull {r : Row} {K : List String} (h : ∀ c ∈ K, (r.get c).isNull = false) :
    (keyOf r K).all (fun v => !v.isNull) = true := by
  simp only [keyOf, Row.vals, List.all_map, List.all_eq_true, Function.comp]
  intro c hc
  simp [h c hc]

theorem get_of_keyOf_eq_same {r r' : Row} {K : List String} (h : keyOf r K = keyOf r' K) {c : String} (hc : c ∈ K) :
    r.get c = r'.get c := by
  simp only [keyOf, Row.vals] at h
  exact List.map_inj_left.mp h c hc

theorem refMatch_keys_eq {K : List String} (hK : K ≠ []) (jt : JoinType) (hjt : jt ≠ .cross) {d ra : Row}
    (h : ∀ c ∈ K, (ra.get c).isNull = false) :
    refMatch SemCfg.ref jt K K d ra = (keyOf d K == keyOf ra K) := by
  have h1 : K.isEmpty = false := by simpa using hK
  have h2 : (jt == JoinType.cross) = false := by cases jt <;> first | rfl | exact absurd rfl hjt
  simp only [refMatch, h1, h2, Bool.or_false, Bool.false_or]
  exact keyMatch_ref_eq (keyOf_all_nonnull h)

theorem semProject_cols (Θ : Interp) (ops : Assign) (g : List String) (t : Table) (oc : List String) :
    (semProject Θ ops g t oc).cols = oc := by
  unfold semProject
  split <;> rfl

/-! ### the emulation against the FULL join -/

/-- **The emulation pipeline evaluates to the FULL join, up to row order, when no join key is null.**
`ta`, `tb`: the tables of the two sides; `tsa`, `tsb`: the tables the two key projections read (the sides without a
trailing `order_rows`: same rows); `j1cols`, `simcols`, `ncols`: the declared columns of the inner join, of the whole
emulation and of the FULL join node (as sets: `K ∪ ca`, `… ∪ cb`, `ca ∪ cb`); `u'`: any requested columns. -/
theorem fullSim_rows_perm (Θ : Interp) {K ca cb : List String} (hK : K ≠ []) (hKa : ∀ c ∈ K, c ∈ ca)
    (hKb : ∀ c ∈ K, c ∈ cb) (ta tb tsa tsb : Table) (hta : ta.cols = ca) (htb : tb.cols = cb)
    (hsa : ∀ r, r ∈ tsa.rows ↔ r ∈ ta.rows) (hsb : ∀ r, r ∈ tsb.rows ↔ r ∈ tb.rows)
    (hna : NullFreeOn K ta.rows) (hnb : NullFreeOn K tb.rows)
    (j1cols simcols ncols u' : List String)
    (hj1 : ∀ c, c ∈ j1cols ↔ c ∈ K ∨ c ∈ ca) (hsim : ∀ c, c ∈ simcols ↔ c ∈ j1cols ∨ c ∈ cb)
    (hn : ∀ c, c ∈ ncols ↔ c ∈ ca ∨ c ∈ cb) (hu' : ∀ c ∈ u', c ∈ ncols) (an bn : String) :
    ((((semJoin SemCfg.ref .left K K
        ((semJoin SemCfg.ref .left K K
          (semProject Θ [] K (semConcat none an bn (semProject Θ [] K tsa K) (semProject Θ [] K tsb K) K) K)
          ta (appendNew K ca)).selectCols j1cols)
        tb (appendNew j1cols cb)).selectCols simcols).rows).map (fun r => r.select u')).Perm
      (((semJoin SemCfg.ref .full K K ta tb (appendNew ca cb)).selectCols ncols).rows.map (fun r => r.select u')) := by
  -- abbreviations
  generalize hD : (unionKeys K tsa.rows tsb.rows).map (keyRow K) = D
  have hDrows := keyTable_rows Θ hK tsa tsb an bn
  rw [hD] at hDrows
  have hDn : (D.map (fun r => keyOf r K)).Nodup := by rw [← hD]; exact keyTable_keys_nodup K _ _
  have hDkeys : D.map (fun r => keyOf r K) = unionKeys K tsa.rows tsb.rows := by
    rw [← hD]; exact keys_of_keyRows K _ unionKeys_form
  -- every key row carries the key of a row of `ta` or of `tb`
  have hDcov : ∀ d ∈ D, (∃ ra ∈ ta.rows, keyOf ra K = keyOf d K) ∨ (∃ rb ∈ tb.rows, keyOf rb K = keyOf d K) := by
    intro d hd
    have : keyOf d K ∈ unionKeys K tsa.rows tsb.rows := by
      rw [← hDkeys]; exact List.mem_map.mpr ⟨d, hd, rfl⟩
    rcases mem_unionKeys.mp this with ⟨r, hr, e⟩ | ⟨r, hr, e⟩
    · exact Or.inl ⟨r, (hsa r).mp hr, e⟩
    · exact Or.inr ⟨r, (hsb r).mp hr, e⟩
  have hDnull : ∀ d ∈ D, ∀ c ∈ K, (d.get c).isNull = false := by
    intro d hd c hc
    rcases hDcov d hd with ⟨r, hr, e⟩ | ⟨r, hr, e⟩
    · rw [← get_of_keyOf_eq_same e hc]; exact hna r hr c hc
    · rw [← get_of_keyOf_eq_same e hc]; exact hnb r hr c hc
  have hA : ∀ ra ∈ ta.rows, keyOf ra K ∈ D.map (fun r => keyOf r K) := by
    intro ra hra
    rw [hDkeys]
    exact mem_unionKeys.mpr (Or.inl ⟨ra, (hsa ra).mpr hra, rfl⟩)
  have hB : ∀ rb ∈ tb.rows, keyOf rb K ∈ D.map (fun r => keyOf r K) := by
    intro rb hrb
    rw [hDkeys]
    exact mem_unionKeys.mpr (Or.inr ⟨rb, (hsb rb).mpr hrb, rfl⟩)
  have hcov : ∀ d ∈ D, (ta.rows.any (fun ra => keyOf d K == keyOf ra K) ||
      tb.rows.any (fun rb => keyOf d K == keyOf rb K)) = true := by
    intro d hd
    rcases hDcov d hd with ⟨r, hr, e⟩ | ⟨r, hr, e⟩
    · have : ta.rows.any (fun ra => keyOf d K == keyOf ra K) = true :=
        List.any_eq_true.mpr ⟨r, hr, by simp [e]⟩
      simp [this]
    · have : tb.rows.any (fun rb => keyOf d K == keyOf rb K) = true :=
        List.any_eq_true.mpr ⟨r, hr, by simp [e]⟩
      simp [this]
  -- the first LEFT join as a pair list
  let mk1 : Option Row → Option Row → Row := fun x y => (joinRow K ca (appendNew K ca) x y).select j1cols
  let g1 : Row × Option Row → Row := fun r => mk1 (some r.1) r.2
  have hflL : (JoinType.left == .left || JoinType.left == .full || JoinType.left == .outer ||
      (JoinType.left == .cross && SemCfg.ref.crossAsOuter)) = true := rfl
  have hflR : (JoinType.left == .right || JoinType.left == .full || JoinType.left == .outer ||
      (JoinType.left == .cross && SemCfg.ref.crossAsOuter)) = false := rfl
  have hj1rows : ((semJoin SemCfg.ref .left K K
        (semProject Θ [] K (semConcat none an bn (semProject Θ [] K tsa K) (semProject Θ [] K tsb K) K) K)
        ta (appendNew K ca)).selectCols j1cols).rows =
      (leftPairs1 D ta.rows (fun r => keyOf r K) (fun r => keyOf r K)).map g1 := by
    simp only [Table.selectCols, semJoin_eq, hflL, hflR, semProject_cols, hta, hDrows]
    rw [joinRowsG_map, leftPairs1_map]
    have := leftJoin_eq (γ := Row) D id (fun r => keyOf r K) ta.rows (fun r => keyOf r K)
      (refMatch SemCfg.ref .left K K) (fun x y => (joinRow K ca (appendNew K ca) x y).select j1cols)
      (fun d _ ra hra => refMatch_keys_eq hK .left (by decide) (hna ra hra))
    rw [List.map_id] at this
    exact this
  -- key of a row of the first join
  have hkey1 : ∀ r ∈ leftPairs1 D ta.rows (fun r => keyOf r K) (fun r => keyOf r K),
      keyOf (g1 r) K = keyOf r.1 K := by
    intro r hr
    have hrD : r.1 ∈ D := by
      simp only [leftPairs1, List.mem_append, List.mem_flatMap, List.mem_map, List.mem_filter] at hr
      rcases hr with ⟨d, hd, ra, _, rfl⟩ | ⟨d, ⟨hd, _⟩, rfl⟩ <;> exact hd
    apply keyOf_congr
    intro c hc
    have hcj : c ∈ j1cols := (hj1 c).mpr (Or.inl hc)
    have hcall : c ∈ appendNew K ca := mem_appendNew.mpr (Or.inl hc)
    show ((joinRow K ca (appendNew K ca) (some r.1) r.2).select j1cols).get c = r.1.get c
    rw [Row.get_select_mem hcj, joinRow_eq, get_mkRow, if_pos hcall, refCell_eq]
    have : sideVal K (some r.1) c = r.1.get c := by
      simp [sideVal, hc]
    rw [this, if_neg (by simp [hDnull r.1 hrD c hc])]
  -- the second LEFT join as a triple list
  let mk2 : Option Row → Option Row → Row := fun x y => (joinRow j1cols cb (appendNew j1cols cb) x y).select simcols
  have hsimrows : ((semJoin SemCfg.ref .left K K
        ((semJoin SemCfg.ref .left K K
          (semProject Θ [] K (semConcat none an bn (semProject Θ [] K tsa K) (semProject Θ [] K tsb K) K) K)
          ta (appendNew K ca)).selectCols j1cols)
        tb (appendNew j1cols cb)).selectCols simcols).rows =
      (leftPairs2 (leftPairs1 D ta.rows (fun r => keyOf r K) (fun r => keyOf r K)) tb.rows
        (fun r => keyOf r K) (fun r => keyOf r K)).map (fun t => mk2 (some (g1 (t.1, t.2.1))) t.2.2) := by
    rw [semJoin_eq (ta := Table.selectCols _ j1cols)]
    simp only [hflL, hflR, htb]
    rw [hj1rows]
    simp only [Table.selectCols]
    rw [joinRowsG_map, leftPairs2_map]
    exact leftJoin_eq (γ := Row) _ g1 (fun r => keyOf r.1 K) tb.rows (fun r => keyOf r K)
      (refMatch SemCfg.ref .left K K) (fun x y => (joinRow j1cols cb (appendNew j1cols cb) x y).select simcols)
      (fun r hr rb hrb => by rw [refMatch_keys_eq hK .left (by decide) (hnb rb hrb), hkey1 r hr])
  -- the FULL join as a pair list
  have hflF : (JoinType.full == .left || JoinType.full == .full || JoinType.full == .outer ||
      (JoinType.full == .cross && SemCfg.ref.crossAsOuter)) = true := rfl
  have hflF' : (JoinType.full == .right || JoinType.full == .full || JoinType.full == .outer ||
      (JoinType.full == .cross && SemCfg.ref.crossAsOuter)) = true := rfl
  have hfull : ((semJoin SemCfg.ref .full K K ta tb (appendNew ca cb)).selectCols ncols).rows =
      (fullPairs ta.rows tb.rows (fun r => keyOf r K) (fun r => keyOf r K)).map
        (fun p => (joinRow ca cb (appendNew ca cb) p.1 p.2).select ncols) := by
    simp only [Table.selectCols, semJoin_eq, hflF, hflF', hta, htb]
    rw [joinRowsG_map]
    exact fullJoin_eq ta.rows tb.rows (fun r => keyOf r K) (fun r => keyOf r K) _ _
      (fun ra _ rb hrb => refMatch_keys_eq hK .full (by decide) (hnb rb hrb))
  rw [hsimrows, hfull, List.map_map, List.map_map]
  -- cell by cell on consistent triples
  have hcell : ∀ t ∈ leftPairs2 (leftPairs1 D ta.rows (fun r => keyOf r K) (fun r => keyOf r K)) tb.rows
      (fun r => keyOf r K) (fun r => keyOf r K),
      ((fun r : Row => r.select u') ∘ fun t => mk2 (some (g1 (t.1, t.2.1))) t.2.2) t =
      ((fun r : Row => r.select u') ∘ fun p : Option Row × Option Row =>
        (joinRow ca cb (appendNew ca cb) p.1 p.2).select ncols) (t.2.1, t.2.2) := by
    intro t ht
    obtain ⟨htD, hx, hy⟩ := leftPairs2_consistent ht
    obtain ⟨d, x, y⟩ := t
    simp only at htD hx hy
    -- not both sides missing
    have hnot : ¬ (x = none ∧ y = none) := by
      rintro ⟨rfl, rfl⟩
      simp only [leftPairs2, leftPairs1, List.mem_append, List.mem_flatMap, List.mem_map, List.mem_filter,
        Prod.mk.injEq] at ht
      rcases ht with ⟨r, _, rb, _, _, _, h⟩ | ⟨r, ⟨hr, hr2⟩, e1, e2, _⟩
      · cases h
      · rcases hr with ⟨d', _, ra, _, rfl⟩ | ⟨d', ⟨hd', hd2⟩, rfl⟩
        · cases e2
        · cases e1
          have := hcov d' hd'
          simp only [Bool.not_eq_eq_eq_not, Bool.not_true] at hd2 hr2
          rw [hd2, hr2] at this
          cases this
    simp only [Function.comp]
    apply Row.select_congr.mpr
    intro c hc
    have hcn : c ∈ ncols := hu' c hc
    have hcab : c ∈ ca ∨ c ∈ cb := (hn c).mp hcn
    have hcsim : c ∈ simcols := by
      rcases hcab with h | h
      · exact (hsim c).mpr (Or.inl ((hj1 c).mpr (Or.inr h)))
      · exact (hsim c).mpr (Or.inr h)
    have hcall2 : c ∈ appendNew j1cols cb := by
      rcases hcab with h | h
      · exact mem_appendNew.mpr (Or.inl ((hj1 c).mpr (Or.inr h)))
      · exact mem_appendNew.mpr (Or.inr h)
    have hcallF : c ∈ appendNew ca cb := mem_appendNew.mpr hcab
    show ((joinRow j1cols cb (appendNew j1cols cb) (some (g1 (d, x))) y).select simcols).get c =
      ((joinRow ca cb (appendNew ca cb) x y).select ncols).get c
    rw [Row.get_select_mem hcsim, Row.get_select_mem hcn, joinRow_eq, joinRow_eq, get_mkRow, get_mkRow,
      if_pos hcall2, if_pos hcallF, refCell_eq, refCell_eq]
    -- the value the first join gives column `c`
    by_cases hca : c ∈ ca
    · have hcj : c ∈ j1cols := (hj1 c).mpr (Or.inr hca)
      have hcall1 : c ∈ appendNew K ca := mem_appendNew.mpr (Or.inr hca)
      have hs1 : sideVal j1cols (some (g1 (d, x))) c =
          (if (sideVal K (some d) c).isNull then sideVal ca x c else sideVal K (some d) c) := by
        have : sideVal j1cols (some (g1 (d, x))) c = (g1 (d, x)).get c := by
          simp [sideVal, hcj]
        rw [this]
        show ((joinRow K ca (appendNew K ca) (some d) x).select j1cols).get c = _
        rw [Row.get_select_mem hcj, joinRow_eq, get_mkRow, if_pos hcall1, refCell_eq]
      rw [hs1]
      by_cases hcK : c ∈ K
      · have hdv : sideVal K (some d) c = d.get c := by simp [sideVal, hcK]
        have hdn : (d.get c).isNull = false := hDnull d htD c hcK
        rw [hdv]
        simp only [hdn, Bool.false_eq_true, ↓reduceIte]
        cases x with
        | some ra =>
          have hk := (hx ra rfl).2
          have : sideVal ca (some ra) c = d.get c := by
            simp only [sideVal, contains_iff.mpr hca, ↓reduceIte]
            exact (get_of_keyOf_eq_same hk hcK).symm
          rw [this]
          simp only [hdn, Bool.false_eq_true, ↓reduceIte]
        | none =>
          cases y with
          | none => exact absurd ⟨rfl, rfl⟩ hnot
          | some rb =>
            have hk := (hy rb rfl).2
            have : sideVal cb (some rb) c = d.get c := by
              simp only [sideVal, contains_iff.mpr (hKb c hcK), ↓reduceIte]
              exact (get_of_keyOf_eq_same hk hcK).symm
            rw [this]
            simp [sideVal, Val.isNull]
      · rw [sideVal_not_mem hcK]
        rfl
    · have hcj : c ∉ j1cols := by
        intro h
        rcases (hj1 c).mp h with h | h
        · exact hca (hKa c h)
        · exact hca h
      rw [sideVal_not_mem hcj, sideVal_not_mem hca]
  rw [List.map_congr_left hcell]
  have hperm := full_emulation_perm D (fun r => keyOf r K) hDn ta.rows tb.rows (fun r => keyOf r K)
    (fun r => keyOf r K) hA hB hcov
  have := hperm.map ((fun r : Row => r.select u') ∘ fun p : Option Row × Option Row =>
    (joinRow ca cb (appendNew ca cb) p.1 p.2).select ncols)
  rw [List.map_map] at this
  exact this

end Sql
end DAVerif
