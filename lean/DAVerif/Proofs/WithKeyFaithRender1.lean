import DAVerif.Proofs.SqlReach
import DAVerif.Proofs.WithKeyFaithDefs
/-
C04, cache keys (`C04_key_faithful`), part 1 of the unique decodability of the model's renderer: character lists,
numbers, literals, terms, name lists, assignments.  Everything is done on the `List Char` level.

`QuoteCode` alone is NOT enough: for an abstract prefix code `quote` with a code word `"]"` the texts `"[]" ++ "]"` and
`"[" ++ quote a ++ "]"` coincide (`renderStrs [] ++ "]" = renderStrs [a]`), the same with `}` (assignments) and `-`
(the id column of a `concat`).  The additional hypothesis `QuoteHead` ("a quoted string starts with `\"`") is needed;
like `QuoteCode` it is true of the compiled `String.quote` and invisible to the kernel.
-/
namespace DAVerif.C04K
open DAVerif DAVerif.Sql

/-- **Second assumption about Lean's `String.quote`** (opaque to the kernel): a quoted string starts with `"`. -/
def QuoteHead : Prop := ∀ a : String, ∃ t, a.quote.toList = '"' :: t

/-! ### generic facts on character lists -/

/-- the text does not start with a digit -/
def ND (r : List Char) : Prop := ∀ c t, r = c :: t → c.isDigit = false

theorem ND_nil : ND [] := by intro c t h; cases h

theorem ND_cons {c : Char} (hc : c.isDigit = false) (r : List Char) : ND (c :: r) := by
  intro d t h
  cases h
  exact hc

/-- `f` is a prefix code relative to rests satisfying `P` -/
def Pre {α : Type} (P : List Char → Prop) (f : α → List Char) : Prop :=
  ∀ a b r1 r2, P r1 → P r2 → f a ++ r1 = f b ++ r2 → a = b ∧ r1 = r2

theorem span_digits (a : List Char) : ∀ (b : List Char) {r1 r2 : List Char}, (∀ c ∈ a, c.isDigit = true) →
    (∀ c ∈ b, c.isDigit = true) → ND r1 → ND r2 → a ++ r1 = b ++ r2 → a = b ∧ r1 = r2 := by
  induction a with
  | nil =>
    intro b r1 r2 _ hb h1 _ h
    cases b with
    | nil => exact ⟨rfl, h⟩
    | cons c b =>
      have := h1 c (b ++ r2) h
      rw [hb c (by simp)] at this
      cases this
  | cons x a ih =>
    intro b r1 r2 ha hb h1 h2 h
    cases b with
    | nil =>
      have := h2 x (a ++ r1) h.symm
      rw [ha x (by simp)] at this
      cases this
    | cons c b =>
      simp only [List.cons_append, List.cons.injEq] at h
      obtain ⟨rfl, h⟩ := h
      obtain ⟨rfl, h'⟩ := ih b (fun c hc => ha c (by simp [hc])) (fun c hc => hb c (by simp [hc])) h1 h2 h
      exact ⟨rfl, h'⟩

/-- splitting at the first occurrence of a character is unique -/
theorem split_first {c : Char} (a : List Char) : ∀ (a' : List Char) {b b' : List Char}, c ∉ a → c ∉ a' →
    a ++ c :: b = a' ++ c :: b' → a = a' ∧ b = b' := by
  induction a with
  | nil =>
    intro a' b b' _ ha' h
    cases a' with
    | nil => simp only [List.nil_append, List.cons.injEq, true_and] at h; exact ⟨rfl, h⟩
    | cons x a' =>
      simp only [List.nil_append, List.cons_append, List.cons.injEq] at h
      exact absurd (by simp [h.1]) ha'
  | cons y a ih =>
    intro a' b b' ha ha' h
    cases a' with
    | nil =>
      simp only [List.nil_append, List.cons_append, List.cons.injEq] at h
      exact absurd (by simp [h.1]) ha
    | cons x a' =>
      simp only [List.cons_append, List.cons.injEq] at h
      obtain ⟨rfl, h⟩ := h
      obtain ⟨rfl, h'⟩ := ih a' (fun hc => ha (by simp [hc])) (fun hc => ha' (by simp [hc])) h
      exact ⟨rfl, h'⟩

/-! ### bracketed, comma separated lists -/

/-- the text after the first element of a list: `,x,y,z]` -/
def tailL {α : Type} (f : α → List Char) (cl : Char) : List α → List Char
  | [] => [cl]
  | x :: xs => ',' :: (f x ++ tailL f cl xs)

/-- `[x,y,z]` -/
def encL {α : Type} (f : α → List Char) (op cl : Char) : List α → List Char
  | [] => [op, cl]
  | x :: xs => op :: (f x ++ tailL f cl xs)

theorem intercalate_tailL {α : Type} (f : α → List Char) (cl : Char) (x : α) (xs : List α) :
    List.intercalate [','] ((x :: xs).map f) ++ [cl] = f x ++ tailL f cl xs := by
  induction xs generalizing x with
  | nil => simp [tailL]
  | cons y ys ih =>
    simp only [List.map_cons, List.intercalate_cons_cons, List.append_assoc, tailL] at ih ⊢
    rw [ih y]
    simp

theorem toList_bracket {α : Type} (g : α → String) (o c : String) (op cl : Char) (ho : o.toList = [op])
    (hc : c.toList = [cl]) (xs : List α) :
    (o ++ ",".intercalate (xs.map g) ++ c).toList = encL (fun x => (g x).toList) op cl xs := by
  have hcomma : (",":String).toList = [','] := by decide
  simp only [String.toList_append, String.toList_intercalate, ho, hc, hcomma, List.map_map]
  cases xs with
  | nil => simp [encL]
  | cons x xs =>
    have := intercalate_tailL (fun x => (g x).toList) cl x xs
    simp only [encL, List.cons_append, List.nil_append]
    rw [← this]
    rfl

theorem tailL_head {α : Type} (f : α → List Char) (cl : Char) (xs : List α) (r : List Char) :
    ∃ t, tailL f cl xs ++ r = cl :: t ∨ tailL f cl xs ++ r = ',' :: t := by
  cases xs with
  | nil => exact ⟨r, Or.inl rfl⟩
  | cons x xs => exact ⟨_, Or.inr rfl⟩

theorem tailL_P {α : Type} {f : α → List Char} {cl : Char} {P : List Char → Prop} (hP1 : ∀ r, P (',' :: r))
    (hP2 : ∀ r, P (cl :: r)) (xs : List α) (r : List Char) : P (tailL f cl xs ++ r) := by
  obtain ⟨t, h | h⟩ := tailL_head f cl xs r
  · rw [h]; exact hP2 t
  · rw [h]; exact hP1 t

theorem tailL_cancel {α : Type} {f : α → List Char} {cl : Char} {P : List Char → Prop} (hcl : cl ≠ ',')
    (hP1 : ∀ r, P (',' :: r)) (hP2 : ∀ r, P (cl :: r)) (hf : Pre P f) (xs : List α) :
    ∀ (ys : List α) {r1 r2 : List Char}, tailL f cl xs ++ r1 = tailL f cl ys ++ r2 → xs = ys ∧ r1 = r2 := by
  induction xs with
  | nil =>
    intro ys r1 r2 h
    cases ys with
    | nil => simp only [tailL, List.cons_append, List.nil_append, List.cons.injEq, true_and] at h; exact ⟨rfl, h⟩
    | cons y ys =>
      simp only [tailL, List.cons_append, List.nil_append, List.cons.injEq] at h
      exact absurd h.1 hcl
  | cons x xs ih =>
    intro ys r1 r2 h
    cases ys with
    | nil =>
      simp only [tailL, List.cons_append, List.nil_append, List.cons.injEq] at h
      exact absurd h.1.symm hcl
    | cons y ys =>
      simp only [tailL, List.cons_append, List.append_assoc, List.cons.injEq, true_and] at h
      obtain ⟨rfl, h'⟩ := hf x y _ _ (tailL_P hP1 hP2 xs r1) (tailL_P hP1 hP2 ys r2) h
      obtain ⟨rfl, h''⟩ := ih ys h'
      exact ⟨rfl, h''⟩

theorem encL_cancel {α : Type} {f : α → List Char} {op cl : Char} {P : List Char → Prop} (hcl : cl ≠ ',')
    (hP1 : ∀ r, P (',' :: r)) (hP2 : ∀ r, P (cl :: r)) (hf : Pre P f) (hhd : ∀ x, ∃ d t, f x = d :: t ∧ d ≠ cl)
    (xs ys : List α) {r1 r2 : List Char} (h : encL f op cl xs ++ r1 = encL f op cl ys ++ r2) : xs = ys ∧ r1 = r2 := by
  cases xs with
  | nil =>
    cases ys with
    | nil => simp only [encL, List.cons_append, List.nil_append, List.cons.injEq, true_and] at h; exact ⟨rfl, h⟩
    | cons y ys =>
      obtain ⟨d, t, hd, hne⟩ := hhd y
      simp only [encL, hd, List.cons_append, List.nil_append, List.cons.injEq, true_and] at h
      exact absurd h.1.symm hne
  | cons x xs =>
    cases ys with
    | nil =>
      obtain ⟨d, t, hd, hne⟩ := hhd x
      simp only [encL, hd, List.cons_append, List.nil_append, List.cons.injEq, true_and] at h
      exact absurd h.1 hne
    | cons y ys =>
      simp only [encL, List.cons_append, List.append_assoc, List.cons.injEq, true_and] at h
      obtain ⟨rfl, h'⟩ := hf x y _ _ (tailL_P hP1 hP2 xs r1) (tailL_P hP1 hP2 ys r2) h
      obtain ⟨rfl, h''⟩ := tailL_cancel hcl hP1 hP2 hf xs ys h'
      exact ⟨rfl, h''⟩

/-- **Why `QuoteHead` is needed in addition to `QuoteCode`**: for an abstract prefix code `q` (here: length in unary,
`]`, the characters) the bracketed list is not a prefix code, `"[]" ++ "]"` is also the text of the list `[""]`.  The
kernel knows nothing about `String.quote` (it is defined through opaque constants), so nothing that fails for an
abstract prefix code can be proved for it. -/
theorem quoteCode_alone_insufficient :
    ∃ q : String → List Char, (∀ a b r1 r2, q a ++ r1 = q b ++ r2 → a = b ∧ r1 = r2) ∧
      encL q '[' ']' [] ++ [']'] = encL q '[' ']' [""] ++ [] := by
  refine ⟨fun s => List.replicate s.toList.length 'a' ++ ']' :: s.toList, ?_, ?_⟩
  · intro a b r1 r2 h
    simp only [List.append_assoc, List.cons_append] at h
    have hn : ∀ n : Nat, ']' ∉ List.replicate n 'a' := by
      intro n hc
      exact absurd (List.eq_of_mem_replicate hc) (by decide)
    obtain ⟨hr, h'⟩ := split_first _ _ (hn _) (hn _) h
    have hl : a.toList.length = b.toList.length := by simpa using congrArg List.length hr
    obtain ⟨hs, hr'⟩ := List.append_inj h' hl
    exact ⟨String.toList_injective hs, hr'⟩
  · rfl

theorem encL_head {α : Type} (f : α → List Char) (op cl : Char) (xs : List α) : ∃ t, encL f op cl xs = op :: t := by
  cases xs with
  | nil => exact ⟨_, rfl⟩
  | cons x xs => exact ⟨_, rfl⟩

/-! ### numbers -/

def natL (n : Nat) : List Char := (toString n).toList
def intL (i : Int) : List Char := (toString i).toList

theorem natL_eq (n : Nat) : natL n = Nat.toDigits 10 n := by
  simp only [natL, Nat.toString_eq_repr, Nat.toList_repr]

theorem natL_digits (n : Nat) : ∀ c ∈ natL n, c.isDigit = true := by
  intro c hc
  rw [natL_eq] at hc
  exact Nat.isDigit_of_mem_toDigits (by omega) (by omega) hc

theorem natL_head (n : Nat) : ∃ c t, natL n = c :: t ∧ c.isDigit = true := by
  have h := natL_digits n
  have hne : natL n ≠ [] := by rw [natL_eq]; exact Nat.toDigits_ne_nil
  cases hl : natL n with
  | nil => exact absurd hl hne
  | cons c t => exact ⟨c, t, rfl, h c (by simp [hl])⟩

theorem natL_inj {n m : Nat} (h : natL n = natL m) : n = m := by
  rw [natL_eq, natL_eq] at h
  have := congrArg (fun l => Nat.ofDigitChars 10 l 0) h
  simpa only [Nat.ofDigitChars_ten_toDigits] using this

theorem natL_cancel : Pre ND natL := by
  intro n m r1 r2 h1 h2 h
  obtain ⟨he, hr⟩ := span_digits _ _ (natL_digits n) (natL_digits m) h1 h2 h
  exact ⟨natL_inj he, hr⟩

theorem intL_ofNat (n : Nat) : intL (Int.ofNat n) = natL n := rfl
theorem intL_negSucc (n : Nat) : intL (Int.negSucc n) = '-' :: natL (n + 1) := by
  show ("-" ++ (n+1).repr).toList = _
  simp only [String.toList_append, natL, Nat.toString_eq_repr]
  rfl

theorem intL_head (i : Int) : ∃ c t, intL i = c :: t ∧ (c.isDigit = true ∨ c = '-') := by
  cases i with
  | ofNat n =>
    obtain ⟨c, t, h, hc⟩ := natL_head n
    exact ⟨c, t, by rw [intL_ofNat, h], Or.inl hc⟩
  | negSucc n => exact ⟨'-', _, intL_negSucc n, Or.inr rfl⟩

theorem intL_cancel : Pre ND intL := by
  intro i j r1 r2 h1 h2 h
  cases i with
  | ofNat n =>
    cases j with
    | ofNat m =>
      rw [intL_ofNat, intL_ofNat] at h
      obtain ⟨rfl, hr⟩ := natL_cancel n m r1 r2 h1 h2 h
      exact ⟨rfl, hr⟩
    | negSucc m =>
      obtain ⟨c, t, hc, hd⟩ := natL_head n
      rw [intL_ofNat, intL_negSucc, hc] at h
      simp only [List.cons_append, List.cons.injEq] at h
      rw [h.1] at hd
      exact absurd hd (by decide)
  | negSucc n =>
    cases j with
    | ofNat m =>
      obtain ⟨c, t, hc, hd⟩ := natL_head m
      rw [intL_ofNat, intL_negSucc, hc] at h
      simp only [List.cons_append, List.cons.injEq] at h
      rw [← h.1] at hd
      exact absurd hd (by decide)
    | negSucc m =>
      rw [intL_negSucc, intL_negSucc] at h
      simp only [List.cons_append, List.cons.injEq, true_and] at h
      obtain ⟨he, hr⟩ := natL_cancel _ _ r1 r2 h1 h2 h
      have : n = m := by omega
      subst this
      exact ⟨rfl, hr⟩

/-! ### literals -/

def litL (v : Lit) : List Char := (renderLit v).toList

theorem litL_none : litL .none = ['N', 'o', 'n', 'e'] := by rfl
theorem litL_true : litL (.bool true) = ['T', 'r', 'u', 'e'] := by rfl
theorem litL_false : litL (.bool false) = ['F', 'a', 'l', 's', 'e'] := by rfl
theorem litL_nan : litL .nan = ['n', 'a', 'n'] := by rfl
theorem litL_inf : litL .inf = ['i', 'n', 'f'] := by rfl
theorem litL_ninf : litL .ninf = ['-', 'i', 'n', 'f'] := by rfl
theorem litL_int (i : Int) : litL (.int i) = 'i' :: intL i := by
  simp only [litL, renderLit, String.toList_append]; rfl
theorem litL_flt (q : Rat) : litL (.flt q) = 'f' :: (intL q.num ++ '/' :: natL q.den) := by
  simp only [litL, renderLit, String.toList_append, List.append_assoc]; rfl
theorem litL_str (s : String) : litL (.str s) = 's' :: s.quote.toList := by
  simp only [litL, renderLit, String.toList_append]; rfl

theorem litL_cancel (hq : QuoteCode) : Pre ND litL := by
  intro a b r1 r2 h1 h2 h
  rcases a with _ | (_ | _) | i | q | _ | _ | _ | s <;> rcases b with _ | (_ | _) | j | p | _ | _ | _ | s'
  all_goals simp only [litL_none, litL_true, litL_false, litL_nan, litL_inf, litL_ninf, litL_int, litL_flt, litL_str,
    List.cons_append, List.nil_append, List.cons.injEq, List.append_assoc, true_and] at h
  all_goals try (exact ⟨rfl, h⟩)
  all_goals try (simp at h; done)
  case int.int =>
    obtain ⟨rfl, hr⟩ := intL_cancel i j r1 r2 h1 h2 h
    exact ⟨rfl, hr⟩
  case int.inf =>
    obtain ⟨c, t, hc, hd⟩ := intL_head i
    rw [hc] at h
    simp only [List.cons_append, List.cons.injEq] at h
    rw [h.1] at hd
    exact absurd hd (by decide)
  case inf.int =>
    obtain ⟨c, t, hc, hd⟩ := intL_head j
    rw [hc] at h
    simp only [List.cons_append, List.cons.injEq] at h
    rw [← h.1] at hd
    exact absurd hd (by decide)
  case flt.flt =>
    obtain ⟨hn, hr⟩ := intL_cancel _ _ _ _ (ND_cons (by decide) _) (ND_cons (by decide) _) h
    simp only [List.cons.injEq, true_and] at hr
    obtain ⟨hd, hr⟩ := natL_cancel _ _ _ _ h1 h2 hr
    exact ⟨congrArg _ (Rat.ext hn hd), hr⟩
  case str.str =>
    obtain ⟨rfl, hr⟩ := hq s s' r1 r2 h
    exact ⟨rfl, hr⟩

/-- the first character of a rendered literal -/
theorem litL_head (v : Lit) : ∃ c t, litL v = c :: t ∧ c ∈ ['N', 'T', 'F', 'i', 'f', 'n', '-', 's'] := by
  rcases v with _ | (_ | _) | i | q | _ | _ | _ | s
  all_goals simp only [litL_none, litL_true, litL_false, litL_nan, litL_inf, litL_ninf, litL_int, litL_flt, litL_str]
  all_goals exact ⟨_, _, rfl, by decide⟩

theorem litL_ND (v : Lit) (r : List Char) : ND (litL v ++ r) := by
  obtain ⟨c, t, h, hc⟩ := litL_head v
  rw [h]
  have hd : ∀ c ∈ ['N', 'T', 'F', 'i', 'f', 'n', '-', 's'], Char.isDigit c = false := by decide
  exact ND_cons (hd c hc) _

/-! ### terms -/

def termL (t : Term) : List Char := (renderTerm t).toList
def termsL (ts : List Term) : List Char := (renderTerms ts).toList
def flagL (i m : Bool) : List Char := (if i then ['i'] else []) ++ (if m then ['m'] else [])
def pairL (kv : Lit × Lit) : List Char := litL kv.1 ++ ':' :: litL kv.2

theorem termL_value (v : Lit) : termL (.value v) = litL v := by
  simp only [termL, renderTerm, litL]
theorem termL_col (c : String) : termL (.col c) = 'c' :: c.quote.toList := by
  simp only [termL, renderTerm, String.toList_append]; rfl
theorem termL_list (vs : List Lit) : termL (.list vs) = encL litL '[' ']' vs := by
  simp only [termL, renderTerm]
  exact toList_bracket renderLit "[" "]" '[' ']' rfl rfl vs
theorem termL_dict (kvs : List (Lit × Lit)) : termL (.dict kvs) = encL pairL '{' '}' kvs := by
  simp only [termL, renderTerm]
  rw [toList_bracket (fun kv : Lit × Lit => renderLit kv.1 ++ ":" ++ renderLit kv.2) "{" "}" '{' '}' rfl rfl kvs]
  congr 1
  funext kv
  simp only [pairL, litL, String.toList_append, List.append_assoc]
  rfl
theorem termL_app (op : String) (args : List Term) (i m : Bool) :
    termL (.app op args i m) = '(' :: (op.quote.toList ++ (flagL i m ++ (termsL args ++ [')']))) := by
  simp only [termL, renderTerm, String.toList_append, List.append_assoc, termsL, flagL]
  cases i <;> cases m <;> rfl
theorem termsL_nil : termsL [] = [] := by rfl
theorem termsL_cons (t : Term) (ts : List Term) : termsL (t :: ts) = ' ' :: (termL t ++ termsL ts) := by
  simp only [termsL, renderTerms, String.toList_append, List.append_assoc, termL]; rfl

/-- kind of a term / of the first character of a rendered term -/
def tkind : Term → Nat
  | .value _ => 0 | .col _ => 1 | .list _ => 2 | .dict _ => 3 | .app .. => 4
def ckind (c : Char) : Nat :=
  if c = 'c' then 1 else if c = '[' then 2 else if c = '{' then 3 else if c = '(' then 4 else 0

theorem termL_kind (a : Term) : ∃ c t, termL a = c :: t ∧ ckind c = tkind a ∧ c.isDigit = false ∧ c ≠ '}' := by
  cases a with
  | value v =>
    obtain ⟨c, t, h, hc⟩ := litL_head v
    have hd : ∀ c ∈ ['N', 'T', 'F', 'i', 'f', 'n', '-', 's'], ckind c = 0 ∧ Char.isDigit c = false ∧ c ≠ '}' := by decide
    exact ⟨c, t, by rw [termL_value, h], hd c hc⟩
  | col c => exact ⟨_, _, termL_col c, rfl, by decide, by decide⟩
  | list vs =>
    obtain ⟨t, h⟩ := encL_head litL '[' ']' vs
    exact ⟨_, t, by rw [termL_list, h], rfl, by decide, by decide⟩
  | dict kvs =>
    obtain ⟨t, h⟩ := encL_head pairL '{' '}' kvs
    exact ⟨_, t, by rw [termL_dict, h], rfl, by decide, by decide⟩
  | app op args i m => exact ⟨_, _, termL_app op args i m, rfl, by decide, by decide⟩

theorem termL_kind_eq {a b : Term} {r1 r2 : List Char} (h : termL a ++ r1 = termL b ++ r2) : tkind a = tkind b := by
  obtain ⟨c, t, hc, hk, _⟩ := termL_kind a
  obtain ⟨c', t', hc', hk', _⟩ := termL_kind b
  rw [hc, hc'] at h
  simp only [List.cons_append, List.cons.injEq] at h
  rw [← hk, ← hk', h.1]

theorem pairL_cancel (hq : QuoteCode) : Pre ND pairL := by
  intro a b r1 r2 h1 h2 h
  simp only [pairL, List.append_assoc, List.cons_append] at h
  obtain ⟨ha, h'⟩ := litL_cancel hq _ _ _ _ (ND_cons (by decide) _) (ND_cons (by decide) _) h
  simp only [List.cons.injEq, true_and] at h'
  obtain ⟨hb, h''⟩ := litL_cancel hq _ _ _ _ h1 h2 h'
  exact ⟨Prod.ext ha hb, h''⟩

theorem litL_hd_ne (cl : Char) (hcl : cl ∉ ['N', 'T', 'F', 'i', 'f', 'n', '-', 's']) (v : Lit) :
    ∃ d t, litL v = d :: t ∧ d ≠ cl := by
  obtain ⟨c, t, h, hc⟩ := litL_head v
  exact ⟨c, t, h, fun he => hcl (he ▸ hc)⟩

theorem ND_comma (r : List Char) : ND (',' :: r) := ND_cons (by decide) r

theorem litsL_cancel (hq : QuoteCode) {xs ys : List Lit} {r1 r2 : List Char}
    (h : encL litL '[' ']' xs ++ r1 = encL litL '[' ']' ys ++ r2) : xs = ys ∧ r1 = r2 :=
  encL_cancel (P := ND) (by decide) ND_comma (ND_cons (by decide)) (litL_cancel hq) (litL_hd_ne ']' (by decide)) xs ys h

theorem pairsL_cancel (hq : QuoteCode) {xs ys : List (Lit × Lit)} {r1 r2 : List Char}
    (h : encL pairL '{' '}' xs ++ r1 = encL pairL '{' '}' ys ++ r2) : xs = ys ∧ r1 = r2 := by
  refine encL_cancel (P := ND) (by decide) ND_comma (ND_cons (by decide)) (pairL_cancel hq) ?_ xs ys h
  intro kv
  obtain ⟨d, t, hd, hne⟩ := litL_hd_ne '}' (by decide) kv.1
  exact ⟨d, t ++ ':' :: litL kv.2, by simp only [pairL, hd, List.cons_append], hne⟩

theorem flagL_cancel {i m i' m' : Bool} {x y : List Char} (hx : ∀ t, x ≠ 'i' :: t ∧ x ≠ 'm' :: t)
    (hy : ∀ t, y ≠ 'i' :: t ∧ y ≠ 'm' :: t) (h : flagL i m ++ x = flagL i' m' ++ y) : i = i' ∧ m = m' ∧ x = y := by
  cases i <;> cases m <;> cases i' <;> cases m' <;>
    simp only [flagL, if_true, if_false, Bool.false_eq_true, List.nil_append, List.cons_append, List.cons.injEq,
      true_and] at h
  all_goals first
    | exact ⟨rfl, rfl, h⟩
    | (exfalso; first
        | exact (hx _).1 h | exact (hx _).2 h | exact (hy _).1 h.symm | exact (hy _).2 h.symm | (simp at h; done))

/-- the arguments of an application, followed by the closing bracket, start with a blank or with the bracket -/
theorem termsL_headP (as : List Term) (r : List Char) :
    ∃ c t, termsL as ++ ')' :: r = c :: t ∧ (c = ' ' ∨ c = ')') := by
  cases as with
  | nil => exact ⟨')', r, by rw [termsL_nil]; rfl, Or.inr rfl⟩
  | cons a as => exact ⟨' ', _, by rw [termsL_cons]; rfl, Or.inl rfl⟩

theorem termsL_ND (as : List Term) (r : List Char) : ND (termsL as ++ ')' :: r) := by
  obtain ⟨c, t, h, hc⟩ := termsL_headP as r
  rw [h]
  rcases hc with rfl | rfl <;> exact ND_cons (by decide) _

theorem termsL_noflag (as : List Term) (r : List Char) :
    ∀ t, termsL as ++ ')' :: r ≠ 'i' :: t ∧ termsL as ++ ')' :: r ≠ 'm' :: t := by
  obtain ⟨c, t, h, hc⟩ := termsL_headP as r
  intro t'
  rw [h]
  rcases hc with rfl | rfl <;> simp

mutual
theorem termL_cancel (hq : QuoteCode) (a b : Term) (r1 r2 : List Char) (h1 : ND r1) (h2 : ND r2)
    (h : termL a ++ r1 = termL b ++ r2) : a = b ∧ r1 = r2 := by
  have hk := termL_kind_eq h
  cases a with
  | value v =>
    cases b with
    | value w =>
      rw [termL_value, termL_value] at h
      obtain ⟨rfl, hr⟩ := litL_cancel hq v w r1 r2 h1 h2 h
      exact ⟨rfl, hr⟩
    | _ => exfalso; simp only [tkind] at hk; omega
  | col c =>
    cases b with
    | col d =>
      rw [termL_col, termL_col] at h
      simp only [List.cons_append, List.cons.injEq, true_and] at h
      obtain ⟨rfl, hr⟩ := hq c d r1 r2 h
      exact ⟨rfl, hr⟩
    | _ => exfalso; simp only [tkind] at hk; omega
  | list vs =>
    cases b with
    | list ws =>
      rw [termL_list, termL_list] at h
      obtain ⟨rfl, hr⟩ := litsL_cancel hq h
      exact ⟨rfl, hr⟩
    | _ => exfalso; simp only [tkind] at hk; omega
  | dict vs =>
    cases b with
    | dict ws =>
      rw [termL_dict, termL_dict] at h
      obtain ⟨rfl, hr⟩ := pairsL_cancel hq h
      exact ⟨rfl, hr⟩
    | _ => exfalso; simp only [tkind] at hk; omega
  | app op args i m =>
    cases b with
    | app op' args' i' m' =>
      rw [termL_app, termL_app] at h
      simp only [List.cons_append, List.append_assoc, List.nil_append, List.cons.injEq, true_and] at h
      obtain ⟨rfl, h'⟩ := hq _ _ _ _ h
      obtain ⟨rfl, rfl, h''⟩ := flagL_cancel (termsL_noflag args r1) (termsL_noflag args' r2) h'
      obtain ⟨rfl, hr⟩ := termsL_cancel hq args args' r1 r2 h''
      exact ⟨rfl, hr⟩
    | _ => exfalso; simp only [tkind] at hk; omega
theorem termsL_cancel (hq : QuoteCode) (as bs : List Term) (r1 r2 : List Char)
    (h : termsL as ++ ')' :: r1 = termsL bs ++ ')' :: r2) : as = bs ∧ r1 = r2 := by
  cases as with
  | nil =>
    cases bs with
    | nil =>
      simp only [termsL_nil, List.nil_append, List.cons.injEq, true_and] at h
      exact ⟨rfl, h⟩
    | cons b bs =>
      simp only [termsL_nil, termsL_cons, List.nil_append, List.cons_append, List.cons.injEq] at h
      exact absurd h.1 (by decide)
  | cons a as =>
    cases bs with
    | nil =>
      simp only [termsL_nil, termsL_cons, List.nil_append, List.cons_append, List.cons.injEq] at h
      exact absurd h.1 (by decide)
    | cons b bs =>
      simp only [termsL_cons, List.cons_append, List.append_assoc, List.cons.injEq, true_and] at h
      obtain ⟨rfl, h'⟩ := termL_cancel hq a b _ _ (termsL_ND as r1) (termsL_ND bs r2) h
      obtain ⟨rfl, hr⟩ := termsL_cancel hq as bs r1 r2 h'
      exact ⟨rfl, hr⟩
end

/-- **`renderTerm` is a prefix code** (the text after a term must not start with a digit: in the renderer a term is
followed by a blank, `)`, `,` or `}`) -/
theorem renderTerm_cancel (hq : QuoteCode) {a b : Term} {r1 r2 : List Char} (h1 : ND r1) (h2 : ND r2)
    (h : (renderTerm a).toList ++ r1 = (renderTerm b).toList ++ r2) : a = b ∧ r1 = r2 :=
  termL_cancel hq a b r1 r2 h1 h2 h

theorem renderTerm_inj (hq : QuoteCode) {a b : Term} (h : renderTerm a = renderTerm b) : a = b :=
  (renderTerm_cancel hq (r1 := []) (r2 := []) ND_nil ND_nil (by rw [h])).1

/-! ### lists of names, assignments -/

def quoteL (s : String) : List Char := s.quote.toList
def strsL (cs : List String) : List Char := (renderStrs cs).toList
def bindL (kv : String × Term) : List Char := quoteL kv.1 ++ ':' :: termL kv.2
def assignL (a : Assign) : List Char := (renderAssign a).toList

theorem strsL_eq (cs : List String) : strsL cs = encL quoteL '[' ']' cs := by
  simp only [strsL, renderStrs]
  exact toList_bracket String.quote "[" "]" '[' ']' rfl rfl cs

theorem assignL_eq (a : Assign) : assignL a = encL bindL '{' '}' a := by
  simp only [assignL, renderAssign]
  rw [toList_bracket (fun kv : String × Term => kv.1.quote ++ ":" ++ renderTerm kv.2) "{" "}" '{' '}' rfl rfl a]
  congr 1
  funext kv
  simp only [bindL, quoteL, termL, String.toList_append, List.append_assoc]
  rfl

theorem quoteL_cancel (hq : QuoteCode) : Pre (fun _ => True) quoteL :=
  fun a b r1 r2 _ _ h => hq a b r1 r2 h

theorem quoteL_hd_ne (hh : QuoteHead) (cl : Char) (hcl : cl ≠ '"') (s : String) : ∃ d t, quoteL s = d :: t ∧ d ≠ cl := by
  obtain ⟨t, h⟩ := hh s
  exact ⟨'"', t, h, fun he => hcl he.symm⟩

theorem strsL_cancel (hq : QuoteCode) (hh : QuoteHead) {a b : List String} {r1 r2 : List Char}
    (h : strsL a ++ r1 = strsL b ++ r2) : a = b ∧ r1 = r2 := by
  rw [strsL_eq, strsL_eq] at h
  exact encL_cancel (P := fun _ => True) (by decide) (fun _ => trivial) (fun _ => trivial) (quoteL_cancel hq)
    (quoteL_hd_ne hh ']' (by decide)) a b h

theorem bindL_cancel (hq : QuoteCode) : Pre ND bindL := by
  intro a b r1 r2 h1 h2 h
  simp only [bindL, List.append_assoc, List.cons_append] at h
  obtain ⟨ha, h'⟩ := hq _ _ _ _ h
  simp only [List.cons.injEq, true_and] at h'
  obtain ⟨hb, h''⟩ := termL_cancel hq _ _ _ _ h1 h2 h'
  exact ⟨Prod.ext ha hb, h''⟩

theorem assignL_cancel (hq : QuoteCode) (hh : QuoteHead) {a b : Assign} {r1 r2 : List Char}
    (h : assignL a ++ r1 = assignL b ++ r2) : a = b ∧ r1 = r2 := by
  rw [assignL_eq, assignL_eq] at h
  refine encL_cancel (P := ND) (by decide) ND_comma (ND_cons (by decide)) (bindL_cancel hq) ?_ a b h
  intro kv
  obtain ⟨d, t, hd, hne⟩ := quoteL_hd_ne hh '}' (by decide) kv.1
  exact ⟨d, t ++ ':' :: termL kv.2, by simp only [bindL, hd, List.cons_append], hne⟩

theorem strsL_head (cs : List String) : ∃ t, strsL cs = '[' :: t := by
  rw [strsL_eq]; exact encL_head _ _ _ _

theorem assignL_head (a : Assign) : ∃ t, assignL a = '{' :: t := by
  rw [assignL_eq]; exact encL_head _ _ _ _

/-- **`renderStrs` is a prefix code** -/
theorem renderStrs_cancel (hq : QuoteCode) (hh : QuoteHead) {a b : List String} {r1 r2 : List Char}
    (h : (renderStrs a).toList ++ r1 = (renderStrs b).toList ++ r2) : a = b ∧ r1 = r2 :=
  strsL_cancel hq hh h

/-- **`renderAssign` is a prefix code** -/
theorem renderAssign_cancel (hq : QuoteCode) (hh : QuoteHead) {a b : Assign} {r1 r2 : List Char}
    (h : (renderAssign a).toList ++ r1 = (renderAssign b).toList ++ r2) : a = b ∧ r1 = r2 :=
  assignL_cancel hq hh h

end DAVerif.C04K
