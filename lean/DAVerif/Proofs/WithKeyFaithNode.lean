import DAVerif.Proofs.SqlReach
import DAVerif.Proofs.SqlAllTrans
import DAVerif.Proofs.WithKeyFaithDefs
/-
C04, cache keys of the translation: **which operator node an `ops_key` names**.

`toNear cfg fuel m (some u)` returns either a table-like node or a step whose `ops_key` contains the rendered text of
the node `keyNode m u`: the node `m` itself, unless `m` is passed through (`select_columns`, `drop_columns`, an `extend`
none of whose assignments is requested) – then it is the node the source's translation names.  On the columns `u`
the table of `keyNode m u` has the rows of the table of `m` (`keyNode_rows`).
-/
namespace DAVerif.C04K
open DAVerif DAVerif.Sql
open DAVerif.Ops (usedFromSources unionL)

/-- the operator node named by the `ops_key` of the step `toNear cfg fuel m (some u)` returns -/
def keyNode : Ops → List String → Ops
  | n@(.extend src ops part order rev _), u =>
    if (extSubops ops (extUsg u part order rev)).isEmpty then keyNode src (extUsg u part order rev) else n
  | n@(.selectCols src cs), u => keyNode src (cs.filter (fun c => ((usedFromSources n u).headD []).contains c))
  | n@(.dropCols src _), u => keyNode src ((usedFromSources n u).headD [])
  | n, _ => n

section
variable {cfg : SqlCfg} {env : Env}

theorem good_src_extend {src : Ops} {ops : Assign} {part order rev : List String} {w : Bool}
    (hg : Good cfg env (.extend src ops part order rev w)) : Good cfg env src :=
  hg.unary id (fun h => h.1) id id id id id id (fun _ h => h)

theorem good_src_selectCols {src : Ops} {cs : List String} (hg : Good cfg env (.selectCols src cs)) : Good cfg env src :=
  hg.unary id (fun h => h.1) id id id id id id (fun _ h => h)

theorem good_src_dropCols {src : Ops} {ds : List String} (hg : Good cfg env (.dropCols src ds)) : Good cfg env src :=
  hg.unary id (fun h => h.1) id id id id id id (fun _ h => h)

/-- the named node is in scope -/
theorem keyNode_good : ∀ (m : Ops) (u : List String), Good cfg env m → Good cfg env (keyNode m u) := by
  intro m
  induction m with
  | extend src ops part order rev w ih =>
    intro u hg
    simp only [keyNode]
    split
    · exact ih _ (good_src_extend hg)
    · exact hg
  | selectCols src cs ih => intro u hg; exact ih _ (good_src_selectCols hg)
  | dropCols src ds ih => intro u hg; exact ih _ (good_src_dropCols hg)
  | _ => intro u hg; exact hg

theorem keyNode_renderOK : ∀ (m : Ops) (u : List String), RenderOK m → RenderOK (keyNode m u) := by
  intro m
  induction m with
  | extend src ops part order rev w ih =>
    intro u hg
    simp only [keyNode]
    split
    · exact ih _ hg
    · exact hg
  | selectCols src cs ih => intro u hg; exact ih _ hg
  | dropCols src ds ih => intro u hg; exact ih _ hg
  | _ => intro u hg; exact hg

/-- the request passed on by a pass-through node lies inside the source's columns and contains the request -/
theorem extend_pass_req {src : Ops} {ops : Assign} {part order rev : List String} {w : Bool} {u : List String}
    (hext : ExtOK src.cols ops part order rev w)
    (hu : ∀ c ∈ u, c ∈ (Ops.extend src ops part order rev w).cols)
    (hempty : (extSubops ops (extUsg u part order rev)).isEmpty = true) :
    (∀ c ∈ extUsg u part order rev, c ∈ src.cols) ∧ (∀ c ∈ extUsg u part order rev, c ∉ ops.map (·.1)) ∧
      (∀ c ∈ u, c ∈ extUsg u part order rev) := by
  have hncols : ∀ c, c ∈ (Ops.extend src ops part order rev w).cols ↔ c ∈ src.cols ∨ c ∈ ops.map (·.1) := by
    intro c; simp only [Ops.cols]; exact mem_appendNew
  obtain ⟨_, hpart, hord, hrev, _⟩ := hext
  have husgn : ∀ c ∈ extUsg u part order rev, c ∈ (Ops.extend src ops part order rev w).cols := by
    intro c hc
    rcases mem_usg.mp hc with h | h | h | h
    · exact hu c h
    · exact (hncols c).mpr (Or.inl (hpart c h))
    · exact (hncols c).mpr (Or.inl (hord c h))
    · exact (hncols c).mpr (Or.inl (hord c (hrev c h)))
  have hnokey : ∀ c ∈ extUsg u part order rev, c ∉ ops.map (·.1) := by
    intro c hc hk
    obtain ⟨kv, hkv, rfl⟩ := List.mem_map.mp hk
    have : kv ∈ extSubops ops (extUsg u part order rev) := List.mem_filter.mpr ⟨hkv, by simpa using hc⟩
    rw [List.isEmpty_iff.mp hempty] at this
    cases this
  refine ⟨?_, hnokey, fun c hc => mem_usg.mpr (Or.inl hc)⟩
  intro c hc
  rcases (hncols c).mp (husgn c hc) with h | h
  · exact h
  · exact absurd h (hnokey c hc)

theorem selectCols_pass_req {src : Ops} {cs u : List String} (hwf : WF (.selectCols src cs))
    (hu : ∀ c ∈ u, c ∈ (Ops.selectCols src cs).cols) :
    (∀ c ∈ cs.filter (fun c => (((Ops.selectCols src cs).usedFromSources u).headD []).contains c), c ∈ src.cols) ∧
    (∀ c ∈ u, c ∈ cs.filter (fun c => (((Ops.selectCols src cs).usedFromSources u).headD []).contains c)) := by
  have hS : ((Ops.selectCols src cs).usedFromSources u).headD [] = cs.filter (fun c => u.contains c) := rfl
  rw [hS]
  refine ⟨fun c hc => hwf.2.2.2 c (List.mem_filter.mp hc).1, ?_⟩
  intro c hc
  have hccs : c ∈ cs := hu c hc
  simp only [List.mem_filter, List.contains_eq_mem, decide_eq_true_eq]
  exact ⟨hccs, hccs, hc⟩

theorem dropCols_pass_req {src : Ops} {ds u : List String}
    (hu : ∀ c ∈ u, c ∈ (Ops.dropCols src ds).cols) :
    (∀ c ∈ ((Ops.dropCols src ds).usedFromSources u).headD [], c ∈ src.cols) ∧
    (∀ c ∈ u, c ∈ ((Ops.dropCols src ds).usedFromSources u).headD []) := by
  have hS : ((Ops.dropCols src ds).usedFromSources u).headD [] = u.filter (fun c => !ds.contains c) := rfl
  rw [hS]
  have hcols : ∀ c ∈ u, c ∈ src.cols ∧ c ∉ ds := by
    intro c hc
    have := hu c hc
    simp only [Ops.cols, List.mem_filter, List.contains_eq_mem, Bool.not_eq_eq_eq_not, Bool.not_true,
      decide_eq_false_iff_not] at this
    exact this
  refine ⟨fun c hc => (hcols c (List.mem_filter.mp hc).1).1, ?_⟩
  intro c hc
  simp only [List.mem_filter, List.contains_eq_mem, Bool.not_eq_eq_eq_not, Bool.not_true, decide_eq_false_iff_not]
  exact ⟨hc, (hcols c hc).2⟩

variable (Θ : Interp) (ec : EngineCfg)

/-- **on the requested columns the table of the named node has the rows of the node's table** -/
theorem keyNode_rows : ∀ (m : Ops) (u : List String) (tm tn : Table), Good cfg env m → (∀ c ∈ u, c ∈ m.cols) →
    semE ec Θ SemCfg.ref env m = .ok tm → semE ec Θ SemCfg.ref env (keyNode m u) = .ok tn →
    ∀ u' : List String, (∀ c ∈ u', c ∈ u) →
      tn.rows.map (fun r => r.select u') = tm.rows.map (fun r => r.select u') := by
  intro m
  induction m with
  | extend src ops part order rev w ih =>
    intro u tm tn hg hu hm hn u' hu'
    simp only [keyNode] at hn
    split at hn
    · rename_i hempty
      obtain ⟨ts, hts, rfl⟩ := semE_extend_inv hm
      obtain ⟨h1, h2, h3⟩ := extend_pass_req hg.wf.2 hu hempty
      rw [ih _ ts tn (good_src_extend hg) h1 hts hn u' (fun c hc => h3 c (hu' c hc))]
      refine (extRef_passrows Θ ec src ops part order rev w ts ?_).symm
      intro c hc
      have hcu := h3 c (hu' c hc)
      refine ⟨?_, h2 c hcu⟩
      simp only [Ops.cols]
      exact mem_appendNew.mpr (Or.inl (h1 c hcu))
    · rw [hm] at hn; cases hn; rfl
  | selectCols src cs ih =>
    intro u tm tn hg hu hm hn u' hu'
    simp only [keyNode] at hn
    simp only [semG] at hm
    obtain ⟨ts, hts, rfl⟩ := bind_pure_ok hm
    obtain ⟨h1, h3⟩ := selectCols_pass_req hg.wf hu
    rw [ih _ ts tn (good_src_selectCols hg) h1 hts hn u' (fun c hc => h3 c (hu' c hc))]
    simp only [Table.selectCols, List.map_map]
    apply List.map_congr_left
    intro r _
    exact (Row.select_select (fun c hc => hu c (hu' c hc))).symm
  | dropCols src ds ih =>
    intro u tm tn hg hu hm hn u' hu'
    simp only [keyNode] at hn
    simp only [semG] at hm
    obtain ⟨ts, hts, rfl⟩ := bind_pure_ok hm
    obtain ⟨h1, h3⟩ := dropCols_pass_req hu
    rw [ih _ ts tn (good_src_dropCols hg) h1 hts hn u' (fun c hc => h3 c (hu' c hc))]
    simp only [Table.selectCols, List.map_map]
    apply List.map_congr_left
    intro r _
    exact (Row.select_select (fun c hc => hu c (hu' c hc))).symm
  | _ =>
    intro u tm tn hg hu hm hn u' hu'
    simp only [keyNode] at hn
    rw [hm] at hn; cases hn; rfl

end
end DAVerif.C04K
