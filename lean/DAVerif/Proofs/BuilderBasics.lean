import DAVerif.Ops.Builder
/-
Helper lemmas for the builder proofs (C26): the Boolean list predicates of `Ops/Builder.lean` as propositions,
`appendNew`, and the `Except` plumbing of the `do` blocks.
-/
namespace DAVerif

theorem subset_iff {a b : List String} : subset a b = true ↔ ∀ x ∈ a, x ∈ b := by
  simp [subset]

theorem disjoint_iff {a b : List String} : disjoint a b = true ↔ ∀ x ∈ a, x ∉ b := by
  simp [disjoint]

theorem mem_inter {a b : List String} {x : String} : x ∈ inter a b ↔ x ∈ a ∧ x ∈ b := by
  simp [inter]

theorem eraseDups_length_le (a : List String) : a.eraseDups.length ≤ a.length := by
  induction h : a.length using Nat.strongRecOn generalizing a with
  | _ n ih =>
    cases a with
    | nil => simp
    | cons x xs =>
      rw [List.eraseDups_cons]
      simp only [List.length_cons] at h ⊢
      have h1 := List.length_filter_le (fun b => !b == x) xs
      have h2 := ih (xs.filter (fun b => !b == x)).length (by omega) _ rfl
      omega

theorem nodupB_iff {a : List String} : nodupB a = true ↔ a.Nodup := by
  unfold nodupB
  induction a with
  | nil => simp
  | cons x xs ih =>
    rw [List.eraseDups_cons, List.nodup_cons]
    simp only [List.length_cons, beq_iff_eq, Nat.add_right_cancel_iff]
    have h1 := List.length_filter_le (fun b => !b == x) xs
    have h2 := eraseDups_length_le (xs.filter (fun b => !b == x))
    constructor
    · intro h
      have hf : (xs.filter (fun b => !b == x)).length = xs.length := by omega
      have hfe : xs.filter (fun b => !b == x) = xs := List.filter_eq_self.mpr (by
        have := List.length_filter_eq_length_iff.mp hf
        exact this)
      rw [hfe] at h
      refine ⟨?_, ih.mp (by simpa using h)⟩
      intro hx
      have := (List.filter_eq_self.mp hfe) x hx
      simp at this
    · rintro ⟨hx, hn⟩
      have hfe : xs.filter (fun b => !b == x) = xs := List.filter_eq_self.mpr (by
        intro b hb
        simp only [Bool.not_eq_eq_eq_not, Bool.not_true, beq_eq_false_iff_ne, ne_eq]
        rintro rfl; exact hx hb)
      rw [hfe]
      simpa using ih.mpr hn

theorem mem_appendNew {xs ys : List String} {x : String} : x ∈ appendNew xs ys ↔ x ∈ xs ∨ x ∈ ys := by
  unfold appendNew
  induction ys generalizing xs with
  | nil => simp
  | cons y ys ih =>
    simp only [List.foldl_cons, List.mem_cons]
    split
    · rename_i h
      rw [ih]
      have : y ∈ xs := by simpa using h
      constructor
      · rintro (h | h) <;> simp [h]
      · rintro (h | rfl | h) <;> simp [*]
    · rw [ih]; simp only [List.mem_append, List.mem_singleton]
      constructor
      · rintro ((h | h) | h) <;> simp [h]
      · rintro (h | h | h) <;> simp [h]

theorem appendNew_nodup {xs ys : List String} (h : xs.Nodup) : (appendNew xs ys).Nodup := by
  unfold appendNew
  induction ys generalizing xs with
  | nil => simpa
  | cons y ys ih =>
    simp only [List.foldl_cons]
    split
    · exact ih h
    · rename_i hc
      apply ih
      have : y ∉ xs := by simpa using hc
      rw [List.nodup_append]
      simp only [List.nodup_cons, List.not_mem_nil, not_false_eq_true, List.nodup_nil, and_self,
        List.mem_singleton, ne_eq, true_and]
      exact ⟨h, fun a ha b hb => by subst hb; rintro rfl; exact this ha⟩

theorem appendNew_ne_nil_left {xs ys : List String} (h : xs ≠ []) : appendNew xs ys ≠ [] := by
  intro he
  cases xs with
  | nil => exact h rfl
  | cons x xs =>
    have : x ∈ appendNew (x :: xs) ys := mem_appendNew.mpr (Or.inl (by simp))
    rw [he] at this; simp at this

theorem appendNew_append (xs ys zs : List String) :
    appendNew xs (ys ++ zs) = appendNew (appendNew xs ys) zs := by
  simp [appendNew, List.foldl_append]

/-- with duplicate-free `ys`: the old columns followed by the new names in their order -/
theorem appendNew_eq_filter {xs ys : List String} (h : ys.Nodup) :
    appendNew xs ys = xs ++ ys.filter (fun y => !xs.contains y) := by
  unfold appendNew
  induction ys generalizing xs with
  | nil => simp
  | cons y ys ih =>
    have hy : y ∉ ys := (List.nodup_cons.mp h).1
    have hn : ys.Nodup := (List.nodup_cons.mp h).2
    simp only [List.foldl_cons, List.filter_cons]
    by_cases hc : xs.contains y = true
    · simp only [hc, ↓reduceIte, Bool.not_true, Bool.false_eq_true]
      exact ih hn
    · simp only [hc, Bool.false_eq_true, ↓reduceIte, Bool.not_false]
      rw [ih hn, List.append_assoc]
      congr 1
      simp only [List.singleton_append, List.cons.injEq, true_and]
      apply List.filter_congr
      intro z hz
      have : z ≠ y := by rintro rfl; exact hy hz
      simp [this]

theorem mem_colsUsedOps {ops : Assign} {c : String} :
    c ∈ Term.colsUsedOps ops ↔ ∃ kv ∈ ops, c ∈ Term.colsRaw kv.2 := by
  simp [Term.colsUsedOps]

/-! ### `Except` plumbing -/

@[simp] theorem ok?_true (e : Err) : ok? true e = .ok () := rfl
@[simp] theorem ok?_false (e : Err) : ok? false e = .error e := rfl

theorem ok?_bind {α : Type} (c : Bool) (e : Err) (f : Unit → Except Err α) :
    (ok? c e >>= f) = if c then f () else .error e := by
  cases c <;> rfl

/-- the `for kv in ops do ok? (P kv) e` loops -/
theorem forIn_ok? {α : Type} (l : List α) (P : α → Bool) (e : Err) :
    (forIn l PUnit.unit (fun a _ => (do ok? (P a) e; pure (ForInStep.yield PUnit.unit) : Except Err _)))
      = ok? (l.all P) e := by
  induction l with
  | nil => rfl
  | cons a l ih =>
    simp only [List.forIn_cons, List.all_cons]
    cases h : P a
    · rfl
    · simp only [ok?_true, Bool.true_and]
      exact ih

end DAVerif
