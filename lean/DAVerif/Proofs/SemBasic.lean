import DAVerif.Sem.Eval
/-!
Basic facts about `sem`: the result's columns are the declared `column_names`, and every row has exactly
those columns (well-formedness).  Used by most property proofs (C08 states them as property theorems).
-/
namespace DAVerif

/-- the record-transform interpretation returns the columns the record map declares, well-formed -/
def ConvertOK (Θ : Interp) : Prop :=
  ∀ rm t t', Θ.convert rm t = .ok t' → t'.cols = rm.produced ∧ t'.WF

namespace Row
@[simp] theorem keys_select (r : Row) (cs : List String) : (r.select cs).keys = cs := by
  simp [Row.select, Row.keys, List.map_map, Function.comp_def]

theorem keys_rename (r : Row) (f : String → String) : (r.rename f).keys = r.keys.map f := by
  simp [Row.rename, Row.keys, List.map_map, Function.comp_def]

theorem keys_drop (r : Row) (cs : List String) :
    (r.drop cs).keys = r.keys.filter (fun c => !cs.contains c) := by
  induction r with
  | nil => rfl
  | cons kv r ih =>
    simp only [Row.drop, Row.keys, List.filter_cons, List.map_cons] at ih ⊢
    split <;> simp_all
end Row

namespace Table
theorem wf_selectCols (t : Table) (cs : List String) : (t.selectCols cs).WF := by
  intro r hr
  simp only [selectCols, List.mem_map] at hr
  obtain ⟨r0, _, rfl⟩ := hr
  simp [selectCols]

@[simp] theorem cols_selectCols (t : Table) (cs : List String) : (t.selectCols cs).cols = cs := rfl
end Table

theorem wf_of_select (outCols : List String) (rows : List Row)
    (h : ∀ r ∈ rows, ∃ r0, r = Row.select r0 outCols) : (Table.mk outCols rows).WF := by
  intro r hr
  obtain ⟨r0, rfl⟩ := h r hr
  simp

theorem semExtendPlain_wf (Θ : Interp) (ops : Assign) (t : Table) (oc : List String) :
    (semExtendPlain Θ ops t oc).WF := by
  apply wf_of_select
  intro r hr
  simp only [semExtendPlain, List.mem_map] at hr
  obtain ⟨r0, _, rfl⟩ := hr
  exact ⟨_, rfl⟩

theorem semExtendWindow_wf (Θ : Interp) (ops : Assign) (p o rv : List String) (t : Table) (oc : List String) :
    (semExtendWindow Θ ops p o rv t oc).WF := by
  apply wf_of_select
  intro r hr
  simp only [semExtendWindow, List.mem_map] at hr
  obtain ⟨r0, _, rfl⟩ := hr
  exact ⟨_, rfl⟩

theorem semProject_wf (Θ : Interp) (ops : Assign) (g : List String) (t : Table) (oc : List String) :
    (semProject Θ ops g t oc).WF ∧ (semProject Θ ops g t oc).cols = oc := by
  unfold semProject
  split
  · refine ⟨?_, rfl⟩
    apply wf_of_select
    intro r hr
    simp only [List.mem_singleton] at hr
    exact ⟨_, hr⟩
  · refine ⟨?_, rfl⟩
    apply wf_of_select
    intro r hr
    simp only [List.mem_map] at hr
    obtain ⟨k, _, rfl⟩ := hr
    exact ⟨_, rfl⟩

theorem semConcat_wf (idc : Option String) (an bn : String) (ta tb : Table) (oc : List String) :
    (semConcat idc an bn ta tb oc).WF := by
  apply wf_of_select
  intro r hr
  simp only [semConcat, List.mem_append, List.mem_map] at hr
  rcases hr with ⟨r0, _, rfl⟩ | ⟨r0, _, rfl⟩ <;> cases idc <;> exact ⟨_, rfl⟩

/-- **Columns and shape of every result.**  Whatever the pipeline and the inputs, a result of `sem` has exactly
the pipeline's declared columns, in the declared order, and each row has exactly those columns. -/
theorem sem_cols_wf (Θ : Interp) (hΘ : ConvertOK Θ) (cfg : SemCfg) (env : Env) (p : Ops) :
    ∀ t, sem Θ cfg env p = .ok t → t.cols = p.cols ∧ t.WF := by
  induction p with
  | table name cs =>
    intro t h
    simp only [sem] at h
    split at h
    · cases h
    · split at h
      · cases h; exact ⟨rfl, Table.wf_selectCols _ _⟩
      · cases h
  | extend src ops part od rv w ih =>
    intro t h
    simp only [sem, bind, Except.bind] at h
    split at h
    · cases h
    · split at h <;> cases h
      · exact ⟨rfl, semExtendWindow_wf _ _ _ _ _ _ _⟩
      · exact ⟨rfl, semExtendPlain_wf _ _ _ _⟩
  | project src ops g ih =>
    intro t h
    simp only [sem, bind, Except.bind] at h
    split at h
    · cases h
    · cases h
      exact ⟨(semProject_wf ..).2, (semProject_wf ..).1⟩
  | selectRows src e ih =>
    intro t h
    simp only [sem, bind, Except.bind] at h
    split at h
    · cases h
    · rename_i t0 h0
      cases h
      obtain ⟨hc, hw⟩ := ih t0 h0
      refine ⟨hc, ?_⟩
      intro r hr
      simp only [semSelectRows, List.mem_filter] at hr
      exact hw r hr.1
  | selectCols src cs ih =>
    intro t h
    simp only [sem, bind, Except.bind] at h
    split at h
    · cases h
    · cases h; exact ⟨rfl, Table.wf_selectCols _ _⟩
  | dropCols src dels ih =>
    intro t h
    simp only [sem, bind, Except.bind] at h
    split at h
    · cases h
    · cases h; exact ⟨rfl, Table.wf_selectCols _ _⟩
  | order src cs rv lim ih =>
    intro t h
    simp only [sem, bind, Except.bind] at h
    split at h
    · cases h
    · rename_i t0 h0
      cases h
      obtain ⟨hc, hw⟩ := ih t0 h0
      refine ⟨hc, ?_⟩
      intro r hr
      have hmem : r ∈ sortRows cs rv t0.rows := by
        simp only [semOrder] at hr
        cases lim with
        | none => exact hr
        | some n => exact List.mem_of_mem_take hr
      have : r ∈ t0.rows := (List.mergeSort_perm _ _).mem_iff.mp hmem
      exact hw r this
  | rename src m ih =>
    intro t h
    simp only [sem, bind, Except.bind] at h
    split at h
    · cases h
    · rename_i t0 h0
      cases h
      obtain ⟨hc, hw⟩ := ih t0 h0
      refine ⟨rfl, ?_⟩
      intro r hr
      simp only [List.mem_map] at hr
      obtain ⟨r0, hr0, rfl⟩ := hr
      rw [Row.keys_rename, hw r0 hr0, hc]
      rfl
  | mapCols src m dels ih =>
    intro t h
    simp only [sem, bind, Except.bind] at h
    split at h
    · cases h
    · rename_i t0 h0
      cases h
      obtain ⟨hc, hw⟩ := ih t0 h0
      refine ⟨rfl, ?_⟩
      intro r hr
      simp only [List.mem_map] at hr
      obtain ⟨r0, hr0, rfl⟩ := hr
      rw [Row.keys_rename, Row.keys_drop, hw r0 hr0, hc]
      rfl
  | join a b oa ob jt iha ihb =>
    intro t h
    simp only [sem, bind, Except.bind] at h
    split at h
    · cases h
    · split at h
      · cases h
      · cases h; exact ⟨rfl, Table.wf_selectCols _ _⟩
  | concat a b idc an bn iha ihb =>
    intro t h
    simp only [sem, bind, Except.bind] at h
    split at h
    · cases h
    · split at h
      · cases h
      · cases h; exact ⟨rfl, semConcat_wf _ _ _ _ _ _⟩
  | convert src rm ih =>
    intro t h
    simp only [sem, bind, Except.bind] at h
    split at h
    · cases h
    · exact hΘ rm _ t h

end DAVerif
