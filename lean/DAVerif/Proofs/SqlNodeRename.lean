import DAVerif.Proofs.SqlReach
import DAVerif.Proofs.SqlNodeUnary
/-!
C01/C02/C16, nested emulation: the `rename_columns` and `map_columns` nodes against an arbitrary reference
table of their source (`Sql.transOK_rename`, `Sql.transOK_mapCols` with the reference table as a parameter, see `Proofs/SqlNodeUnary.lean`).
-/
namespace DAVerif
namespace Sql
namespace SqlE
open DAVerif.Ops (usedFromSources unionL)
open Rules26 (usedBy keys)

variable {Θ : Interp} {ec : EngineCfg} {env : Env} {scfg : SemCfg} {G : Near → Prop} {cfg : SqlCfg}

/-! ### rename_columns (`m`: new name ↦ old name) -/

theorem nodeOK_rename (hG : ShapeOK Θ ec env G) (fuel : Nat) (src : Ops) (m : List (String × String))
    (hR1 : ∀ kv ∈ m, kv.2 ∈ src.cols) (hR2 : ∀ kv ∈ m, kv.1 ∈ src.cols → kv.1 ∈ m.map (·.2))
    (hR3 : (m.map (·.1)).Nodup) (hR4 : (m.map (·.2)).Nodup) (hN : (Ops.rename src m).cols.Nodup)
    {ts : Table} (hwf : ts.cols = src.cols ∧ ts.WF)
    (ih : NodeOK Θ ec env G cfg fuel src ts) :
    NodeOK Θ ec env G cfg (fuel + 1) (.rename src m)
      ⟨(Ops.rename src m).cols,
        ts.rows.map (fun r => r.rename (fun c => (lookupLast (m.map (fun kv => (kv.2, kv.1))) c).getD c))⟩ := by
  intro u st q st' hu h
  obtain ⟨htscols, htswf⟩ := hwf
  rw [toNear] at h
  simp only [Option.getD_some] at h
  obtain ⟨sub, st1, h1, h2⟩ := bindM_ok.mp h
  obtain ⟨i, st2, _, h4⟩ := bindM_ok.mp h2
  rw [pureM_ok] at h4
  cases h4
  -- the two directions of the renaming
  generalize hrev : m.map (fun kv => (kv.2, kv.1)) = rev at *
  have hrevkeys : rev.map (·.1) = m.map (·.2) := by rw [← hrev]; simp [List.map_map, Function.comp_def]
  let f : String → String := fun c => (lookupLast rev c).getD c
  let g : String → String := fun c => (lookupLast m c).getD c
  have hncols : (Ops.rename src m).cols = src.cols.map f := by simp only [Ops.cols, hrev]; rfl
  -- every declared column comes from exactly one source column
  have hback : ∀ c ∈ (Ops.rename src m).cols, ∃ c0 ∈ src.cols, f c0 = c ∧ g c = c0 ∧
      ((c0 ∈ m.map (·.2) ∧ c ∈ m.map (·.1)) ∨ (c0 ∉ m.map (·.2) ∧ c ∉ m.map (·.1) ∧ c = c0)) := by
    intro c hc
    rw [hncols] at hc
    obtain ⟨c0, hc0, rfl⟩ := List.mem_map.mp hc
    refine ⟨c0, hc0, rfl, ?_⟩
    cases hl : lookupLast rev c0 with
    | some nw =>
      have hmem : (c0, nw) ∈ rev := lookupLast_mem hl
      rw [← hrev] at hmem
      obtain ⟨kv, hkv, e⟩ := List.mem_map.mp hmem
      have e1 : kv.2 = c0 := (Prod.mk.inj e).1
      have e2 : kv.1 = nw := (Prod.mk.inj e).2
      have hfc : f c0 = nw := by simp only [f, hl, Option.getD_some]
      have hkv' : (nw, c0) ∈ m := by rw [← e1, ← e2]; exact hkv
      refine ⟨?_, Or.inl ⟨List.mem_map.mpr ⟨kv, hkv, e1⟩, ?_⟩⟩
      · simp only [g, hfc, lookupLast_of_nodup hR3 hkv', Option.getD_some]
      · rw [hfc]; exact List.mem_map.mpr ⟨kv, hkv, e2⟩
    | none =>
      have hno : c0 ∉ m.map (·.2) := by rw [← hrevkeys]; exact lookupLast_eq_none_iff.mp hl
      have hfc : f c0 = c0 := by simp only [f, hl, Option.getD_none]
      have hnn : c0 ∉ m.map (·.1) := by
        intro hk
        obtain ⟨kv, hkv, e⟩ := List.mem_map.mp hk
        exact hno (e ▸ hR2 kv hkv (e ▸ hc0))
      refine ⟨?_, Or.inr ⟨hno, by rw [hfc]; exact hnn, hfc⟩⟩
      simp only [g, hfc, lookupLast_eq_none_iff.mpr hnn, Option.getD_none]
  generalize hSdef : ((Ops.rename src m).usedFromSources u).headD [] = S at h1 ⊢
  have hS0 : S = (u.map g).eraseDups := by rw [← hSdef]; rfl
  have hgS : ∀ c ∈ u, g c ∈ S := by
    intro c hc; rw [hS0, List.mem_eraseDups]; exact List.mem_map.mpr ⟨c, hc, rfl⟩
  have hSsrc : ∀ c ∈ S, c ∈ src.cols := by
    intro c hc
    rw [hS0, List.mem_eraseDups] at hc
    obtain ⟨c', hc', rfl⟩ := List.mem_map.mp hc
    obtain ⟨c0, hc0, _, e, _⟩ := hback c' (hu c' hc')
    rw [e]; exact hc0
  obtain ⟨_, S₁, hS₁, _, hsound⟩ := ih S st sub st1 hSsrc h1
  obtain ⟨T0, g1, _, g4⟩ := hsound.req S hS₁ false
  refine ⟨hG.simple _ rfl, u, fun c hc => hc, hu, ?_⟩
  generalize hun : S.filter (fun c => !(m.map (·.2) ++ m.map (·.1)).contains c) = unchanged
  have hunmem : ∀ c, c ∈ unchanged ↔ c ∈ S ∧ c ∉ m.map (·.2) ∧ c ∉ m.map (·.1) := by
    intro c
    rw [← hun, List.mem_filter]
    simp only [List.contains_eq_mem, List.mem_append, Bool.not_eq_eq_eq_not, Bool.not_true, decide_eq_false_iff_not,
      not_or]
  have hterms : (unchanged.foldl (fun d c => dictSet d c STerm.pass)
      (m.foldl (fun d kv => dictSet d kv.1 (STerm.ident kv.2)) [])) = renameTerms m unchanged := rfl
  rw [hterms]
  apply sound_identStep _ _ _ _ g (fun r => r.rename f) g1 g4 hgS
  · -- the term of a requested column
    intro c hc
    rw [look_renameTerms]
    obtain ⟨c0, hc0, _, e, hcase⟩ := hback c (hu c hc)
    rcases hcase with ⟨_, hnew⟩ | ⟨hno, hnn, e3⟩
    · have : c ∉ unchanged := fun h => ((hunmem c).mp h).2.2 hnew
      rw [if_neg this]
      left
      cases hl : lookupLast m c with
      | none => exact absurd hnew (lookupLast_eq_none_iff.mp hl)
      | some o => simp only [g, hl, Option.map_some, Option.getD_some]
    · have : c ∈ unchanged := by
        refine (hunmem c).mpr ⟨?_, by rw [e3]; exact hno, hnn⟩
        have := hgS c hc
        rw [e, ← e3] at this
        exact this
      rw [if_pos this]
      exact Or.inr ⟨rfl, by rw [e, e3]⟩
  · -- the term keys are declared columns
    intro c hc
    rcases (keys_renameTerms m unchanged c).mp hc with h | h
    · obtain ⟨hS, hno, _⟩ := (hunmem c).mp h
      rw [hncols]
      refine List.mem_map.mpr ⟨c, hSsrc c hS, ?_⟩
      have : lookupLast rev c = none := lookupLast_eq_none_iff.mpr (by rw [hrevkeys]; exact hno)
      simp only [f, this, Option.getD_none]
    · obtain ⟨kv, hkv, e⟩ := List.mem_map.mp h
      rw [hncols]
      refine List.mem_map.mpr ⟨kv.2, hR1 kv hkv, ?_⟩
      have hmem : (kv.2, kv.1) ∈ rev := by rw [← hrev]; exact List.mem_map.mpr ⟨kv, hkv, rfl⟩
      have : lookupLast rev kv.2 = some kv.1 := lookupLast_of_nodup (by rw [hrevkeys]; exact hR4) hmem
      simp only [f, this, Option.getD_some, e]
  · rfl
  · -- the reference rows
    intro c hc rp hrp
    obtain ⟨c0, hc0, e1, e2, _⟩ := hback c (hu c hc)
    have hkeys : rp.keys = src.cols := by rw [← htscols]; exact htswf rp hrp
    rw [e2, ← e1]
    apply Row.get_rename (by rw [hkeys]; exact hc0)
    intro k hk e
    rw [hkeys] at hk
    exact inj_of_nodup_map (by rw [← hncols]; exact hN) k hk c0 hc0 e

/-! ### map_columns (`m`: old name ↦ new name; `dels`: deleted columns) -/

theorem nodeOK_mapCols (hG : ShapeOK Θ ec env G) (fuel : Nat) (src : Ops) (m : List (String × String))
    (dels : List String)
    (hM1 : ∀ kv ∈ m, kv.1 ∈ src.cols) (hM1' : ∀ c ∈ dels, c ∈ src.cols)
    (hM2 : ∀ kv ∈ m, kv.2 ∈ src.cols → kv.2 ∈ m.map (·.1) ∨ kv.2 ∈ dels)
    (hM3 : (m.map (·.1)).Nodup) (hM4 : (m.map (·.2)).Nodup) (hM5 : ∀ k ∈ m.map (·.1), k ∉ dels)
    (hN : (Ops.mapCols src m dels).cols.Nodup)
    {ts : Table} (hwf : ts.cols = src.cols ∧ ts.WF)
    (ih : NodeOK Θ ec env G cfg fuel src ts) :
    NodeOK Θ ec env G cfg (fuel + 1) (.mapCols src m dels)
      ⟨(Ops.mapCols src m dels).cols,
        ts.rows.map (fun r => (r.drop dels).rename (fun c => (lookupLast m c).getD c))⟩ := by
  intro u st q st' hu h
  obtain ⟨htscols, htswf⟩ := hwf
  rw [toNear] at h
  simp only [Option.getD_some] at h
  obtain ⟨sub, st1, h1, h2⟩ := bindM_ok.mp h
  obtain ⟨i, st2, _, h4⟩ := bindM_ok.mp h2
  rw [pureM_ok] at h4
  cases h4
  generalize hrev : m.map (fun kv => (kv.2, kv.1)) = rev
  have hrevkeys : rev.map (·.1) = m.map (·.2) := by rw [← hrev]; simp [List.map_map, Function.comp_def]
  let f : String → String := fun c => (lookupLast m c).getD c
  let g : String → String := fun c => (lookupLast rev c).getD c
  have hncols : (Ops.mapCols src m dels).cols = (src.cols.filter (fun c => !dels.contains c)).map f := rfl
  have hback : ∀ c ∈ (Ops.mapCols src m dels).cols, ∃ c0 ∈ src.cols, c0 ∉ dels ∧ f c0 = c ∧ g c = c0 ∧
      ((c0 ∈ m.map (·.1) ∧ c ∈ m.map (·.2)) ∨ (c0 ∉ m.map (·.1) ∧ c ∉ m.map (·.2) ∧ c = c0)) := by
    intro c hc
    rw [hncols] at hc
    obtain ⟨c0, hc0f, rfl⟩ := List.mem_map.mp hc
    obtain ⟨hc0, hnd⟩ := List.mem_filter.mp hc0f
    have hnd' : c0 ∉ dels := by simpa using hnd
    refine ⟨c0, hc0, hnd', rfl, ?_⟩
    cases hl : lookupLast m c0 with
    | some nw =>
      have hmem : (c0, nw) ∈ m := lookupLast_mem hl
      have hfc : f c0 = nw := by simp only [f, hl, Option.getD_some]
      have hmem' : (nw, c0) ∈ rev := by rw [← hrev]; exact List.mem_map.mpr ⟨(c0, nw), hmem, rfl⟩
      refine ⟨?_, Or.inl ⟨List.mem_map.mpr ⟨(c0, nw), hmem, rfl⟩, ?_⟩⟩
      · simp only [g, hfc, lookupLast_of_nodup (by rw [hrevkeys]; exact hM4) hmem', Option.getD_some]
      · rw [hfc]; exact List.mem_map.mpr ⟨(c0, nw), hmem, rfl⟩
    | none =>
      have hno : c0 ∉ m.map (·.1) := lookupLast_eq_none_iff.mp hl
      have hfc : f c0 = c0 := by simp only [f, hl, Option.getD_none]
      have hnn : c0 ∉ m.map (·.2) := by
        intro hk
        obtain ⟨kv, hkv, e⟩ := List.mem_map.mp hk
        rcases hM2 kv hkv (e ▸ hc0) with h | h
        · exact hno (e ▸ h)
        · exact hnd' (e ▸ h)
      refine ⟨?_, Or.inr ⟨hno, by rw [hfc]; exact hnn, hfc⟩⟩
      have : lookupLast rev c0 = none := lookupLast_eq_none_iff.mpr (by rw [hrevkeys]; exact hnn)
      simp only [g, hfc, this, Option.getD_none]
  generalize hSdef : ((Ops.mapCols src m dels).usedFromSources u).headD [] = S at h1 ⊢
  have hS0 : S = unionL (u.map g).eraseDups dels := by
    rw [← hSdef]; simp only [usedFromSources, List.headD_cons, hrev]; rfl
  have hgS : ∀ c ∈ u, g c ∈ S := by
    intro c hc
    rw [hS0, mem_unionL, List.mem_eraseDups]
    exact Or.inl (List.mem_map.mpr ⟨c, hc, rfl⟩)
  have hSsrc : ∀ c ∈ S, c ∈ src.cols := by
    intro c hc
    rw [hS0, mem_unionL, List.mem_eraseDups] at hc
    rcases hc with hc | hc
    · obtain ⟨c', hc', rfl⟩ := List.mem_map.mp hc
      obtain ⟨c0, hc0, _, _, e, _⟩ := hback c' (hu c' hc')
      rw [e]; exact hc0
    · exact hM1' c hc
  obtain ⟨_, S₁, hS₁, _, hsound⟩ := ih S st sub st1 hSsrc h1
  obtain ⟨T0, g1, _, g4⟩ := hsound.req S hS₁ false
  refine ⟨hG.simple _ rfl, u, fun c hc => hc, hu, ?_⟩
  generalize hun : S.filter (fun c => !(m.map (·.2) ++ m.map (·.1) ++ dels).contains c) = unchanged
  have hunmem : ∀ c, c ∈ unchanged ↔ c ∈ S ∧ c ∉ m.map (·.2) ∧ c ∉ m.map (·.1) ∧ c ∉ dels := by
    intro c
    rw [← hun, List.mem_filter]
    simp only [List.contains_eq_mem, List.mem_append, Bool.not_eq_eq_eq_not, Bool.not_true, decide_eq_false_iff_not,
      not_or, and_assoc]
  have hterms : (unchanged.foldl (fun d c => dictSet d c STerm.pass)
      (m.foldl (fun d kv => dictSet d kv.2 (STerm.ident kv.1)) [])) = renameTerms rev unchanged := by
    unfold renameTerms
    rw [← hrev, List.foldl_map]
  rw [hterms]
  apply sound_identStep _ _ _ _ g (fun r => (r.drop dels).rename f) g1 g4 hgS
  · intro c hc
    rw [look_renameTerms]
    obtain ⟨c0, hc0, hnd, _, e, hcase⟩ := hback c (hu c hc)
    rcases hcase with ⟨_, hnew⟩ | ⟨hno, hnn, e3⟩
    · have : c ∉ unchanged := fun h => ((hunmem c).mp h).2.1 hnew
      rw [if_neg this]
      left
      cases hl : lookupLast rev c with
      | none => exact absurd (by rw [hrevkeys]; exact hnew) (lookupLast_eq_none_iff.mp hl)
      | some o => simp only [g, hl, Option.map_some, Option.getD_some]
    · have : c ∈ unchanged := by
        refine (hunmem c).mpr ⟨?_, hnn, by rw [e3]; exact hno, by rw [e3]; exact hnd⟩
        have := hgS c hc
        rw [e, ← e3] at this
        exact this
      rw [if_pos this]
      exact Or.inr ⟨rfl, by rw [e, e3]⟩
  · intro c hc
    rcases (keys_renameTerms rev unchanged c).mp hc with h | h
    · obtain ⟨hS, _, hno, hnd⟩ := (hunmem c).mp h
      rw [hncols]
      refine List.mem_map.mpr ⟨c, List.mem_filter.mpr ⟨hSsrc c hS, by simpa using hnd⟩, ?_⟩
      have : lookupLast m c = none := lookupLast_eq_none_iff.mpr hno
      simp only [f, this, Option.getD_none]
    · rw [hrevkeys] at h
      obtain ⟨kv, hkv, e⟩ := List.mem_map.mp h
      rw [hncols]
      have hk1 : kv.1 ∈ m.map (·.1) := List.mem_map.mpr ⟨kv, hkv, rfl⟩
      refine List.mem_map.mpr ⟨kv.1, List.mem_filter.mpr ⟨hM1 kv hkv, by simpa using hM5 kv.1 hk1⟩, ?_⟩
      have : lookupLast m kv.1 = some kv.2 := lookupLast_of_nodup hM3 hkv
      simp only [f, this, Option.getD_some, e]
  · rfl
  · intro c hc rp hrp
    obtain ⟨c0, hc0, hnd, e1, e2, _⟩ := hback c (hu c hc)
    have hkeys : rp.keys = src.cols := by rw [← htscols]; exact htswf rp hrp
    have hkeysd : (rp.drop dels).keys = src.cols.filter (fun c => !dels.contains c) := by
      rw [Row.keys_drop, hkeys]
    rw [e2, ← e1]
    have hc0d : c0 ∈ (rp.drop dels).keys := by
      rw [hkeysd]; exact List.mem_filter.mpr ⟨hc0, by simpa using hnd⟩
    rw [Row.get_rename hc0d]
    · exact Row.get_drop rp dels hnd
    · intro k hk e
      rw [hkeysd] at hk
      exact inj_of_nodup_map (by rw [← hncols]; exact hN) k hk c0
        (List.mem_filter.mpr ⟨hc0, by simpa using hnd⟩) e

end SqlE
end Sql
end DAVerif
