import DAVerif.Ops.UsedDag
import DAVerif.Proofs.UsedSem
/-!
The shared-object (`DAG`) computation of `columns_used` is a `Run`: at a node object visited for the second time the
accumulated record – a superset of the request – is what is passed on, and it stays inside the node's columns because
one object has one `column_names` (`Labeled`, decided by `idsConsistent`).  Hence everything proved for runs
(`sem_narrow_agree`) holds for reports computed on DAGs.
-/
namespace DAVerif
open Ops

/-- every record lists columns of the object it belongs to -/
def RecsIn (m : Nat → List String) (recs : Recs) : Prop := ∀ i cs, (i, cs) ∈ recs → ∀ c ∈ cs, c ∈ m i

/-- `m` gives, for every object id of the tree, that object's column set -/
def Labeled (m : Nat → List String) : Ops → IdTree → Prop
  | .table _ _, .leaf _ => True
  | n@(.extend s _ _ _ _ _), .un i k | n@(.project s _ _), .un i k | n@(.selectRows s _), .un i k
  | n@(.selectCols s _), .un i k | n@(.dropCols s _), .un i k | n@(.order s _ _ _), .un i k
  | n@(.rename s _), .un i k | n@(.mapCols s _ _), .un i k | n@(.convert s _), .un i k =>
    (∀ c, c ∈ m i ↔ c ∈ n.cols) ∧ Labeled m s k
  | n@(.join a b _ _ _), .bin i ka kb | n@(.concat a b _ _ _), .bin i ka kb =>
    (∀ c, c ∈ m i ↔ c ∈ n.cols) ∧ Labeled m a ka ∧ Labeled m b kb
  | _, _ => False

theorem lookup_mem {P : List (Nat × List String)} {i : Nat} {cs : List String} (h : P.lookup i = some cs) :
    (i, cs) ∈ P := by
  induction P with
  | nil => simp at h
  | cons x P ih =>
    obtain ⟨j, ds⟩ := x
    simp only [List.lookup_cons] at h
    split at h
    · rename_i e
      have : i = j := by simpa using e
      cases h; subst this; exact List.mem_cons_self
    · exact List.mem_cons_of_mem _ (ih h)

theorem lookup_of_mem {P : List (Nat × List String)} {i : Nat} {cs : List String} (h : (i, cs) ∈ P) :
    ∃ cs0, P.lookup i = some cs0 := by
  induction P with
  | nil => cases h
  | cons x P ih =>
    obtain ⟨j, ds⟩ := x
    simp only [List.lookup_cons]
    by_cases e : i == j
    · simp [e]
    · simp only [e]
      rcases List.mem_cons.mp h with h1 | h1
      · cases h1; simp at e
      · exact ih h1

theorem RecsIn.get {m : Nat → List String} {recs : Recs} (h : RecsIn m recs) (i : Nat) :
    ∀ c ∈ recs.get i, c ∈ m i := by
  intro c hc
  simp only [Recs.get] at hc
  cases e : recs.lookup i with
  | none => simp [e] at hc
  | some cs =>
    simp only [e, Option.getD_some] at hc
    exact h i cs (lookup_mem e) c hc

theorem RecsIn.cons {m : Nat → List String} {recs : Recs} (h : RecsIn m recs) {i : Nat} {cs : List String}
    (hcs : ∀ c ∈ cs, c ∈ m i) : RecsIn m ((i, cs) :: recs) := by
  intro j ds hj c hc
  rcases List.mem_cons.mp hj with e | e
  · cases e; exact hcs c hc
  · exact h j ds e c hc

/-- **the DAG computation is a run** -/
theorem dag_run (m : Nat → List String) : ∀ (p : Ops) (ids : IdTree) (u : List String) (recs : Recs) (acc : Used)
    (r : Recs × Used), Labeled m p ids → RecsIn m recs → columnsUsedDag p ids u recs acc = .ok r →
    Run p u acc r.2 ∧ RecsIn m r.1 := by
  intro p
  induction p with
  | table k cs =>
    intro ids u recs acc r hl hr h
    cases ids <;> simp only [columnsUsedDag] at h
    · obtain ⟨hs, h⟩ := ok?_bind_u h
      cases h
      exact ⟨⟨subset_iff_u.mp hs, rfl⟩, hr⟩
    · cases h
    · cases h
  | extend s ops part od rv w ih =>
    intro ids u recs acc r hl hr h
    cases ids with
    | leaf i => simp only [columnsUsedDag] at h; cases h
    | bin i ka kb => simp only [columnsUsedDag] at h; cases h
    | un i k =>
      simp only [columnsUsedDag] at h
      obtain ⟨hs, h⟩ := ok?_bind_u h
      have hs := subset_iff_u.mp hs
      simp only [Labeled] at hl
      obtain ⟨hm, hl⟩ := hl
      have hcrec : ∀ c ∈ unionL (recs.get i) u, c ∈ m i := by
        intro c hc
        rcases mem_unionL.mp hc with h1 | h1
        · exact hr.get i c h1
        · exact (hm c).mpr (hs c h1)
      obtain ⟨hrun, hr'⟩ := ih k _ _ acc r hl (hr.cons hcrec) h
      refine ⟨?_, hr'⟩
      simp only [Run]
      exact ⟨_, fun c hc => mem_unionL.mpr (.inr hc), fun c hc => (hm c).mp (hcrec c hc), hrun⟩
  | project s ops g ih =>
    intro ids u recs acc r hl hr h
    cases ids with
    | leaf i => simp only [columnsUsedDag] at h; cases h
    | bin i ka kb => simp only [columnsUsedDag] at h; cases h
    | un i k =>
      simp only [columnsUsedDag] at h
      obtain ⟨hs, h⟩ := ok?_bind_u h
      have hs := subset_iff_u.mp hs
      simp only [Labeled] at hl
      obtain ⟨hm, hl⟩ := hl
      have hcrec : ∀ c ∈ unionL (recs.get i) u, c ∈ m i := by
        intro c hc
        rcases mem_unionL.mp hc with h1 | h1
        · exact hr.get i c h1
        · exact (hm c).mpr (hs c h1)
      obtain ⟨hrun, hr'⟩ := ih k _ _ acc r hl (hr.cons hcrec) h
      refine ⟨?_, hr'⟩
      simp only [Run]
      exact ⟨_, fun c hc => mem_unionL.mpr (.inr hc), fun c hc => (hm c).mp (hcrec c hc), hrun⟩
  | selectRows s e ih =>
    intro ids u recs acc r hl hr h
    cases ids with
    | leaf i => simp only [columnsUsedDag] at h; cases h
    | bin i ka kb => simp only [columnsUsedDag] at h; cases h
    | un i k =>
      simp only [columnsUsedDag] at h
      obtain ⟨hs, h⟩ := ok?_bind_u h
      have hs := subset_iff_u.mp hs
      simp only [Labeled] at hl
      obtain ⟨hm, hl⟩ := hl
      have hcrec : ∀ c ∈ unionL (recs.get i) u, c ∈ m i := by
        intro c hc
        rcases mem_unionL.mp hc with h1 | h1
        · exact hr.get i c h1
        · exact (hm c).mpr (hs c h1)
      obtain ⟨hrun, hr'⟩ := ih k _ _ acc r hl (hr.cons hcrec) h
      refine ⟨?_, hr'⟩
      simp only [Run]
      exact ⟨_, fun c hc => mem_unionL.mpr (.inr hc), fun c hc => (hm c).mp (hcrec c hc), hrun⟩
  | selectCols s cs ih =>
    intro ids u recs acc r hl hr h
    cases ids with
    | leaf i => simp only [columnsUsedDag] at h; cases h
    | bin i ka kb => simp only [columnsUsedDag] at h; cases h
    | un i k =>
      simp only [columnsUsedDag] at h
      obtain ⟨hs, h⟩ := ok?_bind_u h
      have hs := subset_iff_u.mp hs
      simp only [Labeled] at hl
      obtain ⟨hm, hl⟩ := hl
      have hcrec : ∀ c ∈ unionL (recs.get i) u, c ∈ m i := by
        intro c hc
        rcases mem_unionL.mp hc with h1 | h1
        · exact hr.get i c h1
        · exact (hm c).mpr (hs c h1)
      obtain ⟨hrun, hr'⟩ := ih k _ _ acc r hl (hr.cons hcrec) h
      refine ⟨?_, hr'⟩
      simp only [Run]
      exact ⟨_, fun c hc => mem_unionL.mpr (.inr hc), fun c hc => (hm c).mp (hcrec c hc), hrun⟩
  | dropCols s ds ih =>
    intro ids u recs acc r hl hr h
    cases ids with
    | leaf i => simp only [columnsUsedDag] at h; cases h
    | bin i ka kb => simp only [columnsUsedDag] at h; cases h
    | un i k =>
      simp only [columnsUsedDag] at h
      obtain ⟨hs, h⟩ := ok?_bind_u h
      have hs := subset_iff_u.mp hs
      simp only [Labeled] at hl
      obtain ⟨hm, hl⟩ := hl
      have hcrec : ∀ c ∈ unionL (recs.get i) u, c ∈ m i := by
        intro c hc
        rcases mem_unionL.mp hc with h1 | h1
        · exact hr.get i c h1
        · exact (hm c).mpr (hs c h1)
      obtain ⟨hrun, hr'⟩ := ih k _ _ acc r hl (hr.cons hcrec) h
      refine ⟨?_, hr'⟩
      simp only [Run]
      exact ⟨_, fun c hc => mem_unionL.mpr (.inr hc), fun c hc => (hm c).mp (hcrec c hc), hrun⟩
  | order s cs rv lim ih =>
    intro ids u recs acc r hl hr h
    cases ids with
    | leaf i => simp only [columnsUsedDag] at h; cases h
    | bin i ka kb => simp only [columnsUsedDag] at h; cases h
    | un i k =>
      simp only [columnsUsedDag] at h
      obtain ⟨hs, h⟩ := ok?_bind_u h
      have hs := subset_iff_u.mp hs
      simp only [Labeled] at hl
      obtain ⟨hm, hl⟩ := hl
      have hcrec : ∀ c ∈ unionL (recs.get i) u, c ∈ m i := by
        intro c hc
        rcases mem_unionL.mp hc with h1 | h1
        · exact hr.get i c h1
        · exact (hm c).mpr (hs c h1)
      obtain ⟨hrun, hr'⟩ := ih k _ _ acc r hl (hr.cons hcrec) h
      refine ⟨?_, hr'⟩
      simp only [Run]
      exact ⟨_, fun c hc => mem_unionL.mpr (.inr hc), fun c hc => (hm c).mp (hcrec c hc), hrun⟩
  | rename s mp ih =>
    intro ids u recs acc r hl hr h
    cases ids with
    | leaf i => simp only [columnsUsedDag] at h; cases h
    | bin i ka kb => simp only [columnsUsedDag] at h; cases h
    | un i k =>
      simp only [columnsUsedDag] at h
      obtain ⟨hs, h⟩ := ok?_bind_u h
      have hs := subset_iff_u.mp hs
      simp only [Labeled] at hl
      obtain ⟨hm, hl⟩ := hl
      have hcrec : ∀ c ∈ unionL (recs.get i) u, c ∈ m i := by
        intro c hc
        rcases mem_unionL.mp hc with h1 | h1
        · exact hr.get i c h1
        · exact (hm c).mpr (hs c h1)
      obtain ⟨hrun, hr'⟩ := ih k _ _ acc r hl (hr.cons hcrec) h
      refine ⟨?_, hr'⟩
      simp only [Run]
      exact ⟨_, fun c hc => mem_unionL.mpr (.inr hc), fun c hc => (hm c).mp (hcrec c hc), hrun⟩
  | mapCols s mp ds ih =>
    intro ids u recs acc r hl hr h
    cases ids with
    | leaf i => simp only [columnsUsedDag] at h; cases h
    | bin i ka kb => simp only [columnsUsedDag] at h; cases h
    | un i k =>
      simp only [columnsUsedDag] at h
      obtain ⟨hs, h⟩ := ok?_bind_u h
      have hs := subset_iff_u.mp hs
      simp only [Labeled] at hl
      obtain ⟨hm, hl⟩ := hl
      have hcrec : ∀ c ∈ unionL (recs.get i) u, c ∈ m i := by
        intro c hc
        rcases mem_unionL.mp hc with h1 | h1
        · exact hr.get i c h1
        · exact (hm c).mpr (hs c h1)
      obtain ⟨hrun, hr'⟩ := ih k _ _ acc r hl (hr.cons hcrec) h
      refine ⟨?_, hr'⟩
      simp only [Run]
      exact ⟨_, fun c hc => mem_unionL.mpr (.inr hc), fun c hc => (hm c).mp (hcrec c hc), hrun⟩
  | convert s rm ih =>
    intro ids u recs acc r hl hr h
    cases ids with
    | leaf i => simp only [columnsUsedDag] at h; cases h
    | bin i ka kb => simp only [columnsUsedDag] at h; cases h
    | un i k =>
      simp only [columnsUsedDag] at h
      obtain ⟨hs, h⟩ := ok?_bind_u h
      have hs := subset_iff_u.mp hs
      simp only [Labeled] at hl
      obtain ⟨hm, hl⟩ := hl
      have hcrec : ∀ c ∈ unionL (recs.get i) u, c ∈ m i := by
        intro c hc
        rcases mem_unionL.mp hc with h1 | h1
        · exact hr.get i c h1
        · exact (hm c).mpr (hs c h1)
      obtain ⟨hrun, hr'⟩ := ih k _ _ acc r hl (hr.cons hcrec) h
      refine ⟨?_, hr'⟩
      simp only [Run]
      exact ⟨_, fun c hc => mem_unionL.mpr (.inr hc), fun c hc => (hm c).mp (hcrec c hc), hrun⟩
  | join a b oa ob jt iha ihb =>
    intro ids u recs acc r hl hr h
    cases ids with
    | leaf i => simp only [columnsUsedDag] at h; cases h
    | un i k => simp only [columnsUsedDag] at h; cases h
    | bin i ka kb =>
      simp only [columnsUsedDag] at h
      obtain ⟨hs, h⟩ := ok?_bind_u h
      have hs := subset_iff_u.mp hs
      obtain ⟨ra, h1, h2⟩ := except_bind_ok_u h
      simp only [Labeled] at hl
      obtain ⟨hm, hla, hlb⟩ := hl
      have hcrec : ∀ c ∈ unionL (recs.get i) u, c ∈ m i := by
        intro c hc
        rcases mem_unionL.mp hc with h1 | h1
        · exact hr.get i c h1
        · exact (hm c).mpr (hs c h1)
      obtain ⟨hruna, hra⟩ := iha ka _ _ acc ra hla (hr.cons hcrec) h1
      obtain ⟨hrunb, hrb⟩ := ihb kb _ _ ra.2 r hlb hra h2
      refine ⟨?_, hrb⟩
      simp only [Run]
      exact ⟨_, ra.2, fun c hc => mem_unionL.mpr (.inr hc), fun c hc => (hm c).mp (hcrec c hc), hruna, hrunb⟩
  | concat a b idc an bn iha ihb =>
    intro ids u recs acc r hl hr h
    cases ids with
    | leaf i => simp only [columnsUsedDag] at h; cases h
    | un i k => simp only [columnsUsedDag] at h; cases h
    | bin i ka kb =>
      simp only [columnsUsedDag] at h
      obtain ⟨hs, h⟩ := ok?_bind_u h
      have hs := subset_iff_u.mp hs
      obtain ⟨ra, h1, h2⟩ := except_bind_ok_u h
      simp only [Labeled] at hl
      obtain ⟨hm, hla, hlb⟩ := hl
      have hcrec : ∀ c ∈ unionL (recs.get i) u, c ∈ m i := by
        intro c hc
        rcases mem_unionL.mp hc with h1 | h1
        · exact hr.get i c h1
        · exact (hm c).mpr (hs c h1)
      obtain ⟨hruna, hra⟩ := iha ka _ _ acc ra hla (hr.cons hcrec) h1
      obtain ⟨hrunb, hrb⟩ := ihb kb _ _ ra.2 r hlb hra h2
      refine ⟨?_, hrb⟩
      simp only [Run]
      exact ⟨_, ra.2, fun c hc => mem_unionL.mpr (.inr hc), fun c hc => (hm c).mp (hcrec c hc), hruna, hrunb⟩

/-! ### consistent ids give a labelling -/

theorem labeled_of_pairs (P : List (Nat × List String))
    (hcons : ∀ x ∈ P, ∀ y ∈ P, x.1 = y.1 → (∀ c, c ∈ x.2 ↔ c ∈ y.2)) :
    ∀ (q : Ops) (ids : IdTree), sameShape q ids = true → (∀ x ∈ labelPairs q ids, x ∈ P) →
      Labeled (fun i => (P.lookup i).getD []) q ids := by
  have key : ∀ i cs, (i, cs) ∈ P → ∀ c, c ∈ (P.lookup i).getD [] ↔ c ∈ cs := by
    intro i cs h c
    obtain ⟨cs0, h0⟩ := lookup_of_mem h
    rw [h0, Option.getD_some]
    exact hcons (i, cs0) (lookup_mem h0) (i, cs) h rfl c
  intro q
  induction q with
  | table k cs =>
    intro ids hs _
    cases ids <;> simp [sameShape] at hs
    simp [Labeled]
  | extend s ops part od rv w ih =>
    intro ids hs hp
    cases ids with
    | leaf i => simp [sameShape] at hs
    | bin i ka kb => simp [sameShape] at hs
    | un i k =>
      simp only [sameShape] at hs
      simp only [labelPairs, List.mem_cons, forall_eq_or_imp] at hp
      simp only [Labeled]
      exact ⟨key i _ hp.1, ih k hs hp.2⟩
  | project s ops g ih =>
    intro ids hs hp
    cases ids with
    | leaf i => simp [sameShape] at hs
    | bin i ka kb => simp [sameShape] at hs
    | un i k =>
      simp only [sameShape] at hs
      simp only [labelPairs, List.mem_cons, forall_eq_or_imp] at hp
      simp only [Labeled]
      exact ⟨key i _ hp.1, ih k hs hp.2⟩
  | selectRows s e ih =>
    intro ids hs hp
    cases ids with
    | leaf i => simp [sameShape] at hs
    | bin i ka kb => simp [sameShape] at hs
    | un i k =>
      simp only [sameShape] at hs
      simp only [labelPairs, List.mem_cons, forall_eq_or_imp] at hp
      simp only [Labeled]
      exact ⟨key i _ hp.1, ih k hs hp.2⟩
  | selectCols s cs ih =>
    intro ids hs hp
    cases ids with
    | leaf i => simp [sameShape] at hs
    | bin i ka kb => simp [sameShape] at hs
    | un i k =>
      simp only [sameShape] at hs
      simp only [labelPairs, List.mem_cons, forall_eq_or_imp] at hp
      simp only [Labeled]
      exact ⟨key i _ hp.1, ih k hs hp.2⟩
  | dropCols s ds ih =>
    intro ids hs hp
    cases ids with
    | leaf i => simp [sameShape] at hs
    | bin i ka kb => simp [sameShape] at hs
    | un i k =>
      simp only [sameShape] at hs
      simp only [labelPairs, List.mem_cons, forall_eq_or_imp] at hp
      simp only [Labeled]
      exact ⟨key i _ hp.1, ih k hs hp.2⟩
  | order s cs rv lim ih =>
    intro ids hs hp
    cases ids with
    | leaf i => simp [sameShape] at hs
    | bin i ka kb => simp [sameShape] at hs
    | un i k =>
      simp only [sameShape] at hs
      simp only [labelPairs, List.mem_cons, forall_eq_or_imp] at hp
      simp only [Labeled]
      exact ⟨key i _ hp.1, ih k hs hp.2⟩
  | rename s mp ih =>
    intro ids hs hp
    cases ids with
    | leaf i => simp [sameShape] at hs
    | bin i ka kb => simp [sameShape] at hs
    | un i k =>
      simp only [sameShape] at hs
      simp only [labelPairs, List.mem_cons, forall_eq_or_imp] at hp
      simp only [Labeled]
      exact ⟨key i _ hp.1, ih k hs hp.2⟩
  | mapCols s mp ds ih =>
    intro ids hs hp
    cases ids with
    | leaf i => simp [sameShape] at hs
    | bin i ka kb => simp [sameShape] at hs
    | un i k =>
      simp only [sameShape] at hs
      simp only [labelPairs, List.mem_cons, forall_eq_or_imp] at hp
      simp only [Labeled]
      exact ⟨key i _ hp.1, ih k hs hp.2⟩
  | convert s rm ih =>
    intro ids hs hp
    cases ids with
    | leaf i => simp [sameShape] at hs
    | bin i ka kb => simp [sameShape] at hs
    | un i k =>
      simp only [sameShape] at hs
      simp only [labelPairs, List.mem_cons, forall_eq_or_imp] at hp
      simp only [Labeled]
      exact ⟨key i _ hp.1, ih k hs hp.2⟩
  | join a b oa ob jt iha ihb =>
    intro ids hs hp
    cases ids with
    | leaf i => simp [sameShape] at hs
    | un i k => simp [sameShape] at hs
    | bin i ka kb =>
      simp only [sameShape, Bool.and_eq_true] at hs
      simp only [labelPairs, List.mem_cons, forall_eq_or_imp, List.mem_append] at hp
      simp only [Labeled]
      exact ⟨key i _ hp.1, iha ka hs.1 (fun x hx => hp.2 x (.inl hx)), ihb kb hs.2 (fun x hx => hp.2 x (.inr hx))⟩
  | concat a b idc an bn iha ihb =>
    intro ids hs hp
    cases ids with
    | leaf i => simp [sameShape] at hs
    | un i k => simp [sameShape] at hs
    | bin i ka kb =>
      simp only [sameShape, Bool.and_eq_true] at hs
      simp only [labelPairs, List.mem_cons, forall_eq_or_imp, List.mem_append] at hp
      simp only [Labeled]
      exact ⟨key i _ hp.1, iha ka hs.1 (fun x hx => hp.2 x (.inl hx)), ihb kb hs.2 (fun x hx => hp.2 x (.inr hx))⟩

theorem labeled_of_consistent {p : Ops} {ids : IdTree} (h : idsConsistent p ids = true) :
    ∃ m, Labeled m p ids := by
  simp only [idsConsistent, Bool.and_eq_true, List.all_eq_true, Bool.or_eq_true, bne_iff_ne, ne_eq] at h
  refine ⟨_, labeled_of_pairs (labelPairs p ids) ?_ p ids h.1 (fun x hx => hx)⟩
  intro x hx y hy hxy c
  rcases h.2 x hx y hy with h1 | h1
  · exact absurd hxy h1
  · exact ⟨fun hc => subset_iff_u.mp h1.1 c hc, fun hc => subset_iff_u.mp h1.2 c hc⟩

/-- the report of the shared-object computation is the result of a run from the initial records -/
theorem run_of_shared {p : Ops} {ids : IdTree} {U : Used} (hc : idsConsistent p ids = true)
    (h : columnsUsedShared p ids = .ok U) :
    Run p p.cols ((p.tables.map (·.1)).eraseDups.map (fun k => (k, []))) U := by
  obtain ⟨m, hm⟩ := labeled_of_consistent hc
  simp only [columnsUsedShared] at h
  obtain ⟨r, h1, h2⟩ := except_bind_ok_u h
  cases h2
  exact (dag_run m p ids _ _ _ r hm (fun _ _ hx => by cases hx) h1).1

end DAVerif
