import DAVerif.Space.DataSpace
/-! Lemmas about the data-space model (association lists, the fresh-key loop, `da_temp_<n>` names).
The property statements are in Props/C20.lean. -/
namespace DAVerif.Space

namespace AL
variable {κ : Type} [DecidableEq κ] {β : Type}

@[simp] theorem lookup_nil (k : κ) : lookup ([] : List (κ × β)) k = none := rfl

theorem lookup_cons (k' : κ) (v : β) (t : List (κ × β)) (k : κ) :
    lookup ((k', v) :: t) k = if k' = k then some v else lookup t k := rfl

theorem lookup_append (l m : List (κ × β)) (k : κ) :
    lookup (l ++ m) k = (lookup l k).or (lookup m k) := by
  induction l with
  | nil => simp
  | cons p t ih =>
    obtain ⟨k', v⟩ := p
    simp only [List.cons_append, lookup_cons]
    split <;> simp [ih]

theorem has_iff_mem_keys (l : List (κ × β)) (k : κ) : has l k = true ↔ k ∈ keys l := by
  induction l with
  | nil => simp [has, keys]
  | cons p t ih =>
    obtain ⟨k', v⟩ := p
    simp only [has, lookup_cons, keys, List.map_cons, List.mem_cons] at ih ⊢
    by_cases h : k' = k
    · simp [h]
    · have h' : ¬ k = k' := fun e => h e.symm
      simp [h, h', ih]

theorem has_eq_false_iff (l : List (κ × β)) (k : κ) : has l k = false ↔ lookup l k = none := by
  simp [has]

theorem has_eq_true_iff (l : List (κ × β)) (k : κ) : has l k = true ↔ ∃ v, lookup l k = some v := by
  simp [has, Option.isSome_iff_exists]

theorem lookup_map_set (l : List (κ × β)) (k : κ) (v : β) (k' : κ) :
    lookup (l.map (fun p => if p.1 = k then (k, v) else p)) k' =
      if k' = k then (lookup l k).map (fun _ => v) else lookup l k' := by
  induction l with
  | nil => simp
  | cons p t ih =>
    obtain ⟨a, b⟩ := p
    simp only [List.map_cons]
    by_cases hak : a = k
    · subst hak
      simp only [if_true, lookup_cons, ih]
      by_cases hk : k' = a
      · subst hk; simp
      · have : ¬ a = k' := fun e => hk e.symm
        simp [this, hk]
    · simp only [hak, if_false, lookup_cons, ih]
      by_cases hk : k' = k
      · subst hk; simp [hak]
      · simp [hk]

/-- `d[k] = v` then `d[k']` -/
theorem lookup_set (l : List (κ × β)) (k : κ) (v : β) (k' : κ) :
    lookup (set l k v) k' = if k' = k then some v else lookup l k' := by
  unfold set
  by_cases h : has l k = true
  · simp only [h, if_true, lookup_map_set]
    obtain ⟨w, hw⟩ := (has_eq_true_iff l k).mp h
    by_cases hk : k' = k <;> simp [hk, hw]
  · have hn : lookup l k = none := (has_eq_false_iff l k).mp (by simpa using h)
    rw [if_neg h, lookup_append, lookup_cons, lookup_nil]
    by_cases hk : k' = k
    · subst hk; simp [hn]
    · have : ¬ k = k' := fun e => hk e.symm
      simp [hk, this]

/-- `del d[k]` then `d[k']` -/
theorem lookup_erase (l : List (κ × β)) (k k' : κ) :
    lookup (erase l k) k' = if k' = k then none else lookup l k' := by
  induction l with
  | nil => simp [erase]
  | cons p t ih =>
    obtain ⟨a, b⟩ := p
    unfold erase at ih ⊢
    simp only [List.filter_cons]
    by_cases hak : a = k
    · subst hak
      simp only [ne_eq, not_true_eq_false, decide_false, Bool.false_eq_true, if_false, ih, lookup_cons]
      by_cases hk : k' = a
      · simp [hk]
      · have : ¬ a = k' := fun e => hk e.symm
        simp [hk, this]
    · simp only [ne_eq, hak, not_false_eq_true, decide_true, if_true, lookup_cons, ih]
      by_cases hk : k' = k
      · subst hk; simp [hak]
      · simp [hk]

theorem has_set (l : List (κ × β)) (k : κ) (v : β) (k' : κ) :
    has (set l k v) k' = (decide (k' = k) || has l k') := by
  unfold has; rw [lookup_set]; by_cases h : k' = k <;> simp [h]

theorem has_erase (l : List (κ × β)) (k k' : κ) :
    has (erase l k) k' = (!decide (k' = k) && has l k') := by
  unfold has; rw [lookup_erase]; by_cases h : k' = k <;> simp [h]

theorem mem_keys_iff (l : List (κ × β)) (k : κ) : k ∈ keys l ↔ (lookup l k).isSome = true :=
  (has_iff_mem_keys l k).symm

end AL

/-! ### the fresh-key loop -/
section
variable {κ τ δ ω : Type} [DecidableEq κ] (P : Params κ τ δ ω)

/-- distinct counters give distinct `da_temp_<n>` names -/
def TmpInjective : Prop := ∀ a b : Nat, P.tmpName a = P.tmpName b → a = b

/-- Pigeonhole for the loop: if every taken name at a counter `> n` is in `rem`, and `rem` is shorter than
the fuel, the loop stops at a free name. -/
theorem freshFrom_spec (hinj : TmpInjective P) (ks : List κ) :
    ∀ (f : Nat) (n : Nat) (rem : List κ), rem.length < f →
      (∀ m, n < m → P.tmpName m ∈ ks → P.tmpName m ∈ rem) →
      P.tmpName (freshFrom P ks f n) ∉ ks ∧ n < freshFrom P ks f n := by
  intro f
  induction f with
  | zero => intro n rem h; omega
  | succ f ih =>
    intro n rem hlen hrem
    unfold freshFrom
    by_cases hm : P.tmpName (n + 1) ∈ ks
    · rw [if_pos hm]
      have hin : P.tmpName (n + 1) ∈ rem := hrem (n + 1) (by omega) hm
      have := ih (n + 1) (rem.erase (P.tmpName (n + 1)))
        (by rw [List.length_erase_of_mem hin]; cases rem with
            | nil => simp at hin
            | cons _ _ => simp only [List.length_cons] at hlen ⊢; omega)
        (by
          intro m hlt hmk
          have hne : P.tmpName m ≠ P.tmpName (n + 1) := fun e => by have := hinj _ _ e; omega
          exact (List.mem_erase_of_ne hne).mpr (hrem m (by omega) hmk))
      exact ⟨this.1, by omega⟩
    · rw [if_neg hm]
      exact ⟨hm, by omega⟩

/-- the key chosen by `_fresh_temp_key` is not a key of the space, and the counter advances -/
theorem fresh_spec (hinj : TmpInjective P) (ks : List κ) (n : Nat) :
    P.tmpName (fresh P ks n) ∉ ks ∧ n < fresh P ks n :=
  freshFrom_spec P hinj ks (ks.length + 1) n ks (by omega) (fun _ _ h => h)

end

/-! ### the database primitives -/
section
variable {κ τ δ ω : Type} [DecidableEq κ] (P : Params κ τ δ ω)

theorem lookup_snoc {β : Type} (l : List (κ × β)) (k : κ) (v : β) (k' : κ) :
    AL.lookup (l ++ [(k, v)]) k' = (AL.lookup l k').or (if k' = k then some v else none) := by
  rw [AL.lookup_append, AL.lookup_cons, AL.lookup_nil]
  by_cases h : k' = k
  · subst h; simp
  · have : ¬ k = k' := fun e => h e.symm
    simp [h, this]

theorem lookup_dropTable (db : List (κ × τ)) (k k' : κ) :
    AL.lookup (Db.dropTable db k) k' = if k' = k then none else AL.lookup db k' := by
  unfold Db.dropTable
  by_cases h : AL.has db k = true
  · rw [if_pos h, AL.lookup_erase]
  · rw [if_neg h]
    have : AL.lookup db k = none := (AL.has_eq_false_iff db k).mp (by simpa using h)
    by_cases hk : k' = k
    · subst hk; simp [this]
    · simp [hk]

theorem insertTable_ok (db db' : List (κ × τ)) (v : τ) (k : κ) (b : Bool)
    (h : Db.insertTable db (some v) k b = .ok db') :
    ∀ k', AL.lookup db' k' = if k' = k then some v else AL.lookup db k' := by
  intro k'
  unfold Db.insertTable at h
  simp only at h
  by_cases hh : AL.has db k = true
  · rw [if_pos hh] at h
    cases b with
    | false => simp at h
    | true =>
      simp only [Bool.not_true, Bool.false_eq_true, if_false, Except.ok.injEq] at h
      subst h
      rw [lookup_snoc, AL.lookup_erase]
      by_cases hk : k' = k <;> simp [hk]
  · rw [if_neg hh] at h
    simp only [Except.ok.injEq] at h
    subst h
    have hn : AL.lookup db k = none := (AL.has_eq_false_iff db k).mp (by simpa using hh)
    rw [lookup_snoc]
    by_cases hk : k' = k
    · subst hk; simp [hn]
    · simp [hk]

/-- `insert_table` raises exactly for a non-frame (KeyError) or an existing table without overwrite (ValueError) -/
theorem insertTable_error (db : List (κ × τ)) (value : Option τ) (k : κ) (b : Bool) (e : Err)
    (h : Db.insertTable db value k b = .error e) :
    value = none ∨ (b = false ∧ AL.has db k = true) := by
  unfold Db.insertTable at h
  cases value with
  | none => exact Or.inl rfl
  | some v =>
    right
    simp only at h
    by_cases hh : AL.has db k = true
    · rw [if_pos hh] at h
      cases b with
      | false => exact ⟨rfl, hh⟩
      | true => simp at h
    · rw [if_neg hh] at h; cases h

theorem describeTable_of_lookup (db : List (κ × τ)) (k : κ) (v : τ)
    (h : AL.lookup db k = some v) : Db.describeTable P db k = .ok (P.descOf v) := by
  simp [Db.describeTable, h]

/-- `create_table` spelled out: evaluate, fail on an existing name, else append and describe -/
theorem createTable_eq (db : List (κ × τ)) (k : κ) (ops : ω) :
    Db.createTable P db k ops =
      match P.evalOps ops (AL.lookup db) with
      | .error e => .error e
      | .ok v => if AL.has db k then .error .Other else .ok (db ++ [(k, v)], P.descOf v) := by
  unfold Db.createTable
  cases P.evalOps ops (AL.lookup db) with
  | error e => rfl
  | ok v =>
    simp only
    by_cases hh : AL.has db k = true
    · simp [hh]
    · have hn : AL.lookup db k = none := (AL.has_eq_false_iff db k).mp (by simpa using hh)
      have : AL.lookup (db ++ [(k, v)]) k = some v := by rw [lookup_snoc]; simp [hn]
      simp [hh, describeTable_of_lookup P _ k v this]

theorem mem_setAdd (l : List κ) (k k' : κ) : k' ∈ DB.setAdd l k ↔ k' = k ∨ k' ∈ l := by
  unfold DB.setAdd
  by_cases h : k ∈ l
  · rw [if_pos h]
    constructor
    · exact Or.inr
    · rintro (rfl | h') <;> assumption
  · rw [if_neg h]; simp [or_comm]

/-! ### what one DBSpace operation does to `description_map`, the auto-drop set and the database -/

/-- `s'` has the stores of `s` (only the counter may differ) -/
def DB.SameStore (s s' : DB.State κ τ δ) : Prop :=
  s'.descr = s.descr ∧ s'.autoDrop = s.autoDrop ∧ s'.db = s.db

theorem DB.resolve_same (s : DB.State κ τ δ) (key : KeyArg κ) : DB.SameStore s (DB.resolve P s key).1 := by
  cases key <;> exact ⟨rfl, rfl, rfl⟩

/-- the key `resolve` yields: the given `str`, or – for `None` – a name that is not in `description_map` -/
theorem DB.resolve_key (hinj : TmpInjective P) (s : DB.State κ τ δ) (key : KeyArg κ) (k : κ)
    (h : (DB.resolve P s key).2 = some k) :
    key = .str k ∨ (key = .auto ∧ AL.has s.descr k = false) := by
  cases key with
  | str k' => left; simp only [DB.resolve, Option.some.injEq] at h; rw [h]
  | bad => simp [DB.resolve] at h
  | auto =>
    right
    simp only [DB.resolve, Option.some.injEq] at h
    subst h
    refine ⟨rfl, ?_⟩
    have := (fresh_spec P hinj (AL.keys s.descr) s.nTmp).1
    rw [← AL.has_iff_mem_keys] at this
    simpa using this

/-- `DBSpace.insert`: it fails – for one of the listed reasons – leaving the stores as they were, or it stores
the table. -/
theorem DB.insert_cases (s : DB.State κ τ δ) (key : KeyArg κ) (value : Option τ) (ow : Option Bool) :
    ((∃ e, (DB.insert P s key value ow).1 = .error e) ∧ DB.SameStore s (DB.insert P s key value ow).2 ∧
      (∀ k, (DB.resolve P s key).2 = some k → ow = some false → AL.has s.descr k = true →
        (DB.insert P s key value ow).1 = .error .AssertionError) ∧
      ((DB.resolve P s key).2 = none ∨ ow = none ∨ value = none ∨
        ∃ k, (DB.resolve P s key).2 = some k ∧ ow = some false ∧
          (AL.has s.descr k = true ∨ AL.has s.db k = true))) ∨
    (∃ k v b db', (DB.resolve P s key).2 = some k ∧ value = some v ∧ ow = some b ∧
      (b = false → AL.has s.descr k = false) ∧
      Db.insertTable s.db (some v) k b = .ok db' ∧
      (DB.insert P s key value ow).1 = .ok (.descr k (P.descOf v)) ∧
      (DB.insert P s key value ow).2.descr = AL.set s.descr k (P.descOf v) ∧
      (DB.insert P s key value ow).2.autoDrop = DB.setAdd s.autoDrop k ∧
      (DB.insert P s key value ow).2.db = db') := by
  have hs := DB.resolve_same P s key
  unfold DB.insert
  generalize DB.resolve P s key = r at hs ⊢
  obtain ⟨s1, ko⟩ := r
  obtain ⟨h1, h2, h3⟩ := hs
  simp only at h1 h2 h3
  cases ko with
  | none => left; exact ⟨⟨_, rfl⟩, ⟨h1, h2, h3⟩, (by intro k h; cases h), Or.inl rfl⟩
  | some k =>
    cases ow with
    | none => left; exact ⟨⟨_, rfl⟩, ⟨h1, h2, h3⟩, (by intro k _ h; cases h), Or.inr (Or.inl rfl)⟩
    | some b =>
      simp only
      by_cases hc : (!b && AL.has s1.descr k) = true
      · left
        rw [if_pos hc]
        have hc' : b = false ∧ AL.has s.descr k = true := by rw [← h1]; simpa using hc
        exact ⟨⟨_, rfl⟩, ⟨h1, h2, h3⟩, (fun _ _ _ _ => rfl),
          Or.inr (Or.inr (Or.inr ⟨k, rfl, by rw [hc'.1], Or.inl hc'.2⟩))⟩
      · rw [if_neg hc]
        have hb : b = false → AL.has s.descr k = false := by
          intro hb; subst hb; rw [← h1]; simpa using hc
        cases hi : Db.insertTable s1.db value k b with
        | error e =>
          left
          refine ⟨⟨_, rfl⟩, ⟨h1, h2, h3⟩, ?_, ?_⟩
          · intro k' hk' hb' hh
            simp only [Option.some.injEq] at hk' hb'
            subst hk' hb'
            rw [hb rfl] at hh; cases hh
          · rcases insertTable_error s1.db value k b e hi with hv | ⟨hb', hdb⟩
            · exact Or.inr (Or.inr (Or.inl hv))
            · exact Or.inr (Or.inr (Or.inr ⟨k, rfl, by rw [hb'], Or.inr (by rw [← h3]; exact hdb)⟩))
        | ok db' =>
          cases value with
          | none => simp [Db.insertTable] at hi
          | some v =>
            right
            have hl := insertTable_ok s1.db db' v k b hi
            have hd := describeTable_of_lookup P db' k v (by rw [hl k]; simp)
            simp only [hd]
            exact ⟨k, v, b, db', rfl, rfl, rfl, hb, by rw [← h3]; exact hi, rfl, by rw [← h1], by rw [← h2], rfl⟩

theorem DB.removeKey_descr (s : DB.State κ τ δ) (k k' : κ) :
    AL.lookup (DB.removeKey s k).descr k' = if k' = k then none else AL.lookup s.descr k' :=
  AL.lookup_erase s.descr k k'

theorem DB.removeKey_db (s : DB.State κ τ δ) (k k' : κ) :
    AL.lookup (DB.removeKey s k).db k' = if k' = k then none else AL.lookup s.db k' :=
  lookup_dropTable s.db k k'

theorem DB.removeKey_auto (s : DB.State κ τ δ) (k k' : κ) :
    k' ∈ (DB.removeKey s k).autoDrop ↔ k' ∈ s.autoDrop ∧ k' ≠ k := by
  simp [DB.removeKey]

/-- `DBSpace.execute`: (a) it fails leaving the stores as they were; (b) it fails AFTER removing the existing
entry `key` (only with `allow_overwrite=True` on an existing key); (c) it stores the query's value, computed
on the database as it is after the removal of `key`. -/
theorem DB.execute_cases (s : DB.State κ τ δ) (ops : ω) (key : KeyArg κ) (ow : Option Bool) :
    ((∃ e, (DB.execute P s ops key ow).1 = .error e) ∧ DB.SameStore s (DB.execute P s ops key ow).2 ∧
      (∀ k, (DB.resolve P s key).2 = some k → AL.has s.descr k = true → ow ≠ some true →
        (DB.execute P s ops key ow).1 = .error .AssertionError) ∧
      ((DB.resolve P s key).2 = none ∨ ow = none ∨
        ∃ k b, (DB.resolve P s key).2 = some k ∧ ow = some b ∧
          ((AL.has s.descr k = true ∧ b = false) ∨
           (AL.has s.descr k = false ∧
             ((∃ e, P.evalOps ops (AL.lookup s.db) = .error e) ∨ AL.has s.db k = true))))) ∨
    (∃ k, (DB.resolve P s key).2 = some k ∧ ow = some true ∧ AL.has s.descr k = true ∧
      (∃ e, (DB.execute P s ops key ow).1 = .error e) ∧
      DB.SameStore (DB.removeKey s k) (DB.execute P s ops key ow).2 ∧
      ∃ e, P.evalOps ops (AL.lookup (Db.dropTable s.db k)) = .error e) ∨
    (∃ k b v s2, (DB.resolve P s key).2 = some k ∧ ow = some b ∧
      ((AL.has s.descr k = true ∧ b = true ∧ DB.SameStore (DB.removeKey s k) s2) ∨
       (AL.has s.descr k = false ∧ DB.SameStore s s2)) ∧
      P.evalOps ops (AL.lookup s2.db) = .ok v ∧ AL.has s2.db k = false ∧
      (DB.execute P s ops key ow).1 = .ok (.descr k (P.descOf v)) ∧
      (DB.execute P s ops key ow).2.descr = AL.set s2.descr k (P.descOf v) ∧
      (DB.execute P s ops key ow).2.autoDrop = DB.setAdd s2.autoDrop k ∧
      (DB.execute P s ops key ow).2.db = s2.db ++ [(k, v)]) := by
  have hs := DB.resolve_same P s key
  unfold DB.execute
  generalize DB.resolve P s key = r at hs ⊢
  obtain ⟨s1, ko⟩ := r
  obtain ⟨h1, h2, h3⟩ := hs
  simp only at h1 h2 h3
  cases ko with
  | none => left; exact ⟨⟨_, rfl⟩, ⟨h1, h2, h3⟩, (by intro k h; cases h), Or.inl rfl⟩
  | some k =>
    cases ow with
    | none => left; exact ⟨⟨_, rfl⟩, ⟨h1, h2, h3⟩, (fun _ _ _ _ => rfl), Or.inr (Or.inl rfl)⟩
    | some b =>
      simp only
      by_cases hh : AL.has s1.descr k = true
      · have hh' : AL.has s.descr k = true := by rw [← h1]; exact hh
        cases b with
        | false =>
          left
          have hc : (AL.has s1.descr k && !false) = true := by simp [hh]
          rw [if_pos hc]
          exact ⟨⟨_, rfl⟩, ⟨h1, h2, h3⟩, (fun _ _ _ _ => rfl),
            Or.inr (Or.inr ⟨k, false, rfl, rfl, Or.inl ⟨hh', rfl⟩⟩)⟩
        | true =>
          have hc : ¬ (AL.has s1.descr k && !true) = true := by simp
          rw [if_neg hc]
          simp only [hh, if_true]
          have hsame : DB.SameStore (DB.removeKey s k) (DB.removeKey s1 k) := by
            refine ⟨?_, ?_, ?_⟩ <;> simp [DB.removeKey, h1, h2, h3]
          have hnot : AL.has (DB.removeKey s1 k).db k = false := by
            rw [AL.has_eq_false_iff, DB.removeKey_db]; simp
          rw [createTable_eq]
          cases he : P.evalOps ops (AL.lookup (DB.removeKey s1 k).db) with
          | error e =>
            right; left
            refine ⟨k, ?_, ?_, hh', ?_, hsame, e, ?_⟩
            · simp
            · simp
            · exact ⟨_, rfl⟩
            · rw [← h3]; exact he
          | ok v =>
            right; right
            simp only [hnot, Bool.false_eq_true, if_false]
            exact ⟨k, true, v, DB.removeKey s1 k, rfl, rfl, Or.inl ⟨hh', rfl, hsame⟩, he, hnot, rfl, rfl, rfl, rfl⟩
      · have hh' : AL.has s.descr k = false := by rw [← h1]; simpa using hh
        simp only [hh, Bool.false_and, Bool.false_eq_true, if_false]
        rw [createTable_eq]
        cases he : P.evalOps ops (AL.lookup s1.db) with
        | error e =>
          left
          refine ⟨⟨_, rfl⟩, ⟨h1, h2, h3⟩, ?_, ?_⟩
          · intro k' hk' hn; simp only [Option.some.injEq] at hk'; subst hk'; rw [hh'] at hn; cases hn
          · exact Or.inr (Or.inr ⟨k, b, rfl, rfl, Or.inr ⟨hh', Or.inl ⟨e, by rw [← h3]; exact he⟩⟩⟩)
        | ok v =>
          simp only
          by_cases hd : AL.has s1.db k = true
          · left
            simp only [hd, if_true]
            refine ⟨⟨_, rfl⟩, ⟨h1, h2, h3⟩, ?_, ?_⟩
            · intro k' hk' hn; simp only [Option.some.injEq] at hk'; subst hk'; rw [hh'] at hn; cases hn
            · exact Or.inr (Or.inr ⟨k, b, rfl, rfl, Or.inr ⟨hh', Or.inr (by rw [← h3]; exact hd)⟩⟩)
          · right; right
            simp only [hd, Bool.false_eq_true, if_false]
            exact ⟨k, b, v, s1, rfl, rfl, Or.inr ⟨hh', h1, h2, h3⟩, he, by simpa using hd, rfl, rfl, rfl, rfl⟩

end

/-! ### `f"da_temp_{n}"` is injective in `n` (the instance the driver runs) -/

theorem daTemp_injective : ∀ a b : Nat, daTemp a = daTemp b → a = b := by
  intro a b h
  unfold daTemp at h
  rw [String.append_right_inj] at h
  simp only [Nat.toString_eq_repr, Nat.repr_eq_ofList_toDigits] at h
  have h2 : Nat.toDigits 10 a = Nat.toDigits 10 b := by
    have := congrArg String.toList h
    simpa using this
  have := congrArg (fun l => Nat.ofDigitChars 10 l 0) h2
  simpa using this

end DAVerif.Space
