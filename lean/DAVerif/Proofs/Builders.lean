import DAVerif.Proofs.RowBasic
import DAVerif.Spec.Chain
/-!
Normal forms of the builder functions of `Ops/Builder.lean`: every builder first skips the `order_rows` nodes
without limit at the top of its receiver (`Ops.strip`), makes its argument checks (which only look at the
receiver's column names), and then constructs (or, for `extend` on an `extend`, merges; for `select_columns` on
column selections, collapses).
-/
namespace DAVerif

namespace Ops

/-- the receiver with the `order_rows` steps without limit at its top removed -/
def strip : Ops → Ops
  | .order src _ _ none => strip src
  | p => p

@[simp] theorem strip_order_none (src : Ops) (cs rv : List String) : strip (.order src cs rv none) = strip src := rfl

theorem strip_cols : ∀ (p : Ops), p.strip.cols = p.cols
  | .order src _ _ none => by simp only [strip, cols]; exact strip_cols src
  | .order _ _ _ (some _) => rfl
  | .table .. | .extend .. | .project .. | .selectRows .. | .selectCols .. | .dropCols .. | .rename ..
  | .mapCols .. | .join .. | .concat .. | .convert .. => rfl

theorem strip_tables : ∀ (p : Ops), p.strip.tables = p.tables
  | .order src _ _ none => by simp only [strip, tables]; exact strip_tables src
  | .order _ _ _ (some _) => rfl
  | .table .. | .extend .. | .project .. | .selectRows .. | .selectCols .. | .dropCols .. | .rename ..
  | .mapCols .. | .join .. | .concat .. | .convert .. => rfl

theorem strip_not_trivial : ∀ (p : Ops), p.strip.isTrivialWhenIntermediate = false
  | .order src _ _ none => by simp only [strip]; exact strip_not_trivial src
  | .order _ _ _ (some _) => rfl
  | .table .. | .extend .. | .project .. | .selectRows .. | .selectCols .. | .dropCols .. | .rename ..
  | .mapCols .. | .join .. | .concat .. | .convert .. => rfl

theorem strip_of_not_trivial : ∀ {p : Ops}, p.isTrivialWhenIntermediate = false → p.strip = p
  | .order _ _ _ none, h => by cases h
  | .order _ _ _ (some _), _ => rfl
  | .table .., _ | .extend .., _ | .project .., _ | .selectRows .., _ | .selectCols .., _ | .dropCols .., _
  | .rename .., _ | .mapCols .., _ | .join .., _ | .concat .., _ | .convert .., _ => rfl

theorem strip_strip (p : Ops) : p.strip.strip = p.strip := strip_of_not_trivial (strip_not_trivial p)

end Ops

theorem bind_unit_idem {α : Type} (x : Except Err Unit) (f : Unit → Except Err α) :
    (x >>= fun _ => x >>= f) = x >>= f := by
  cases x <;> rfl

/-! ### `extend` -/

/-- `extend_parsed_` on an `extend` node: merge when partition, order and windowed situation agree and
`try_to_merge_ops` succeeds -/
def mergeCompatible (partition : PartArg) (part1 : List String) : Bool :=
  (match partition with
    | .none => part1.isEmpty | .one => false | .cols cs => cs == part1)
  || ((match partition with
    | .none => true | .one => true | .cols cs => cs.isEmpty) && part1.isEmpty)

theorem mergeCompatible_cols {partition : PartArg} {part1 : List String}
    (h : mergeCompatible partition part1 = true) : partition.cols' = part1 := by
  cases partition with
  | none =>
    simp only [mergeCompatible, Bool.true_and, Bool.or_self, List.isEmpty_iff] at h
    exact h.symm
  | one =>
    simp only [mergeCompatible, Bool.true_and, Bool.false_or, List.isEmpty_iff] at h
    exact h.symm
  | cols cs =>
    simp only [mergeCompatible, Bool.or_eq_true, beq_iff_eq, Bool.and_eq_true, List.isEmpty_iff] at h
    rcases h with h | ⟨h1, h2⟩
    · exact h
    · simp only [PartArg.cols', h1, h2]

def extendMergeC (src : Ops) (ops1 : Assign) (part1 order1 reverse1 : List String) (windowed1 : Bool)
    (ops : Assign) (partition : PartArg) (order reverse : List String) : Except Err Ops :=
  let self := Ops.extend src ops1 part1 order1 reverse1 windowed1
  if mergeCompatible partition part1 && (stepWindowed ops partition order == windowed1) && order == order1
      && reverse == reverse1 then
    match tryMergeOps ops1 ops with
    | some newOps => mkExtend src newOps partition order reverse
    | none => mkExtend self ops partition order reverse
  else mkExtend self ops partition order reverse

/-- the outcomes of `extend` on an `extend`: a merge (same partition, order, windowed situation, and
`try_to_merge_ops` succeeds), or a new node on top -/
theorem extendMerge_cases (src : Ops) (ops1 : Assign) (part1 order1 reverse1 : List String) (windowed1 : Bool)
    (ops : Assign) (partition : PartArg) (order reverse : List String) :
    (∃ newOps, tryMergeOps ops1 ops = some newOps ∧ partition.cols' = part1 ∧
        stepWindowed ops partition order = windowed1 ∧ order = order1 ∧ reverse = reverse1 ∧
        extendMergeC src ops1 part1 order1 reverse1 windowed1 ops partition order reverse
          = mkExtend src newOps partition order reverse) ∨
      extendMergeC src ops1 part1 order1 reverse1 windowed1 ops partition order reverse
        = mkExtend (.extend src ops1 part1 order1 reverse1 windowed1) ops partition order reverse := by
  unfold extendMergeC
  simp only
  split
  · rename_i hc
    simp only [Bool.and_eq_true, beq_iff_eq] at hc
    cases hm : tryMergeOps ops1 ops with
    | none => exact Or.inr rfl
    | some newOps =>
      exact Or.inl ⟨newOps, rfl, mergeCompatible_cols hc.1.1.1, hc.1.1.2, hc.1.2, hc.2, rfl⟩
  · exact Or.inr rfl

/-- what `extend_parsed_` does after its argument checks -/
def extendTopC (self : Ops) (ops : Assign) (partition : PartArg) (order reverse : List String) : Except Err Ops :=
  match self with
  | .order src _ _ none => extendParsed src ops partition order reverse
  | .extend src ops1 part1 order1 reverse1 windowed1 =>
    extendMergeC src ops1 part1 order1 reverse1 windowed1 ops partition order reverse
  | _ => mkExtend self ops partition order reverse

theorem extendParsed_eq (self : Ops) (ops : Assign) (partition : PartArg) (order reverse : List String) :
    extendParsed self ops partition order reverse =
      if ops.isEmpty then .ok self
      else extendChecks self.cols ops partition order reverse >>= fun _ =>
        extendTopC self ops partition order reverse := by
  rw [extendParsed.eq_def]
  simp only []
  split
  · rfl
  · cases partition <;> simp only [extendChecks, extendTopC, extendMergeC, mergeCompatible, stepWindowed, bind_assoc]
    · cases self <;> first | rfl | (rename_i lim; cases lim <;> rfl)
    · cases self <;> first | rfl | (rename_i lim; cases lim <;> rfl)
    · split <;> simp only [bind_assoc] <;> cases self <;> first | rfl | (rename_i lim; cases lim <;> rfl)

/-- `extend_parsed_` with a non-empty assignment: argument checks on the receiver's columns, then merge or
construct on the receiver without its trivial `order_rows` steps -/
theorem extendParsed_stripC (self : Ops) (ops : Assign) (partition : PartArg) (order reverse : List String)
    (hne : ops.isEmpty = false) :
    extendParsed self ops partition order reverse =
      extendChecks self.cols ops partition order reverse >>= fun _ =>
        extendTopC self.strip ops partition order reverse := by
  induction self with
  | order src cs rv lim ih =>
    cases lim with
    | some n => rw [extendParsed_eq, hne]; rfl
    | none =>
      rw [extendParsed_eq, hne]
      simp only [Bool.false_eq_true, if_false, extendTopC, Ops.strip_order_none]
      rw [ih]
      exact bind_unit_idem _ _
  | _ => rw [extendParsed_eq, hne]; rfl

/-! ### `project` -/

theorem projectParsed_eq (self : Ops) (ops : Assign) (group : List String) :
    projectParsed self ops group =
      projectChecks self.cols ops group >>= fun _ =>
        match self with
        | .order src _ _ none => projectParsed src ops group
        | _ => mkProject self ops group := by
  rw [projectParsed.eq_def]
  simp only [projectChecks, bind_assoc]
  cases self <;> first | rfl | (rename_i lim; cases lim <;> rfl)

theorem projectParsed_stripC (self : Ops) (ops : Assign) (group : List String) :
    projectParsed self ops group =
      projectChecks self.cols ops group >>= fun _ => mkProject self.strip ops group := by
  induction self with
  | order src cs rv lim ih =>
    cases lim with
    | some n => rw [projectParsed_eq]; rfl
    | none =>
      rw [projectParsed_eq]
      simp only [Ops.strip_order_none]
      rw [ih]
      exact bind_unit_idem _ _
  | _ => rw [projectParsed_eq]; rfl

/-! ### the other builders: skip the trivial `order_rows` steps, then construct -/

theorem joinB_strip (self b : Ops) (onA onB : List String) (jt : String) (check : Bool) :
    joinB self b onA onB jt check = mkJoin self.strip b onA onB jt check := by
  induction self with
  | order src cs rv lim ih =>
    cases lim with
    | some n => rw [joinB.eq_2 _ _ _ _ _ _ (by intro _ _ _ h; cases h)]; rfl
    | none => rw [joinB.eq_1]; exact ih
  | _ => rw [joinB.eq_2 _ _ _ _ _ _ (by intro _ _ _ h; cases h)]; rfl

theorem concatB_strip (self b : Ops) (idc : Option String) (an bn : String) :
    concatB self b idc an bn = mkConcat self.strip b idc an bn := by
  induction self with
  | order src cs rv lim ih =>
    cases lim with
    | some n => rw [concatB.eq_2 _ _ _ _ _ (by intro _ _ _ h; cases h)]; rfl
    | none => rw [concatB.eq_1]; exact ih
  | _ => rw [concatB.eq_2 _ _ _ _ _ (by intro _ _ _ h; cases h)]; rfl

theorem selectRowsB_strip (self : Ops) (e : Term) : selectRowsB self e = .ok (.selectRows self.strip e) := by
  induction self with
  | order src cs rv lim ih =>
    cases lim with
    | some n => rw [selectRowsB.eq_2 _ _ (by intro _ _ _ h; cases h)]; rfl
    | none => rw [selectRowsB.eq_1]; exact ih
  | _ => rw [selectRowsB.eq_2 _ _ (by intro _ _ _ h; cases h)]; rfl

theorem dropColsB_strip (self : Ops) (cs : List String) : dropColsB self cs = mkDropCols self.strip cs := by
  induction self with
  | order src cs' rv lim ih =>
    cases lim with
    | some n => rw [dropColsB.eq_2 _ _ (by intro _ _ _ h; cases h)]; rfl
    | none => rw [dropColsB.eq_1]; exact ih
  | _ => rw [dropColsB.eq_2 _ _ (by intro _ _ _ h; cases h)]; rfl

theorem mapColsB_strip (self : Ops) (m : List (String × Option String)) :
    mapColsB self m = mkMapCols self.strip m := by
  induction self with
  | order src cs' rv lim ih =>
    cases lim with
    | some n => rw [mapColsB.eq_2 _ _ (by intro _ _ _ h; cases h)]; rfl
    | none => rw [mapColsB.eq_1]; exact ih
  | _ => rw [mapColsB.eq_2 _ _ (by intro _ _ _ h; cases h)]; rfl

theorem renameB_strip (self : Ops) (m : List (String × String)) : renameB self m = mkRename self.strip m := by
  induction self with
  | order src cs' rv lim ih =>
    cases lim with
    | some n => rw [renameB.eq_2 _ _ (by intro _ _ _ h; cases h)]; rfl
    | none => rw [renameB.eq_1]; exact ih
  | _ => rw [renameB.eq_2 _ _ (by intro _ _ _ h; cases h)]; rfl

theorem orderB_strip (self : Ops) (cs rv : List String) (lim : Option Nat) :
    orderB self cs rv lim = mkOrder self.strip cs rv lim := by
  induction self with
  | order src cs' rv' lim' ih =>
    cases lim' with
    | some n => rw [orderB.eq_2 _ _ _ _ (by intro _ _ _ h; cases h)]; rfl
    | none => rw [orderB.eq_1]; exact ih
  | _ => rw [orderB.eq_2 _ _ _ _ (by intro _ _ _ h; cases h)]; rfl

theorem convertB_strip (self : Ops) (rm : RecMap) : convertB self rm = mkConvert self.strip rm := by
  induction self with
  | order src cs' rv lim ih =>
    cases lim with
    | some n => rw [convertB.eq_2 _ _ (by intro _ _ _ h; cases h)]; rfl
    | none => rw [convertB.eq_1]; exact ih
  | _ => rw [convertB.eq_2 _ _ (by intro _ _ _ h; cases h)]; rfl

/-! ### `select_columns`: through trivial `order_rows`, column selections and column deletions -/

namespace Ops
/-- the node `select_columns` finally constructs its selection on: below the trivial `order_rows` steps and the
column selections / deletions at the top of the receiver -/
def selectBase : Ops → Ops
  | .order src _ _ none => selectBase src
  | .selectCols src _ => selectBase src
  | .dropCols src _ => selectBase src
  | p => p

/-- all the column lists `select_columns` validates against on its way down -/
def selectGuards : Ops → List (List String)
  | .order src _ _ none => selectGuards src
  | .selectCols src cs0 => cs0 :: selectGuards src
  | n@(.dropCols src _) => n.cols :: selectGuards src
  | _ => []
end Ops

theorem ok?_and_bind {α : Type} (a b : Bool) (e : Err) (f : Unit → Except Err α) :
    (ok? a e >>= fun _ => ok? b e >>= f) = ok? (a && b) e >>= f := by
  cases a <;> cases b <;> rfl

theorem selectColsB_eq (self : Ops) (cs : List String) :
    selectColsB self cs =
      ok? (self.selectGuards.all (fun g => subset cs g)) .keyError >>= fun _ =>
        mkSelectCols self.selectBase cs := by
  induction self with
  | order src cs' rv lim ih =>
    cases lim with
    | some n =>
      rw [selectColsB.eq_4 _ _ (by intro _ _ _ h; cases h) (by intro _ _ h; cases h) (by intro _ _ h; cases h)]
      rfl
    | none => rw [selectColsB.eq_1]; exact ih
  | selectCols src cs0 ih =>
    rw [selectColsB.eq_2, ih, ok?_and_bind]
    rfl
  | dropCols src ds ih =>
    rw [selectColsB.eq_3, ih, ok?_and_bind]
    rfl
  | _ =>
    rw [selectColsB.eq_4 _ _ (by intro _ _ _ h; cases h) (by intro _ _ h; cases h) (by intro _ _ h; cases h)]
    rfl

end DAVerif
