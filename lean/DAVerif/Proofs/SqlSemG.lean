import DAVerif.Proofs.SqlBasic
/-!
C01/C02: basic facts about the comparison-parametrised semantics `semG`: it is `sem` for pandas' comparison, its
results have the declared columns and are well formed, and it succeeds on environments that cover the pipeline.
-/
namespace DAVerif
namespace Sql

theorem semOrderG_rowLe (cs rev : List String) (lim : Option Nat) (t : Table) :
    semOrderG rowLe cs rev lim t = semOrder cs rev lim t := rfl

theorem semExtendWindowG_rowLe (Θ : Interp) (ops : Assign) (p o rv : List String) (t : Table) (oc : List String) :
    semExtendWindowG rowLe Θ ops p o rv t oc = semExtendWindow Θ ops p o rv t oc := rfl

/-- with pandas' row comparison (nulls last) `semG` is `sem` -/
theorem semG_rowLe (Θ : Interp) (cfg : SemCfg) (env : Env) (p : Ops) : semG rowLe Θ cfg env p = sem Θ cfg env p := by
  induction p with
  | table name cs => rfl
  | extend src ops part od rv w ih => simp only [semG, sem, ih, semExtendWindowG_rowLe]
  | project src ops g ih => simp only [semG, sem, ih]
  | selectRows src e ih => simp only [semG, sem, ih]
  | selectCols src cs ih => simp only [semG, sem, ih]
  | dropCols src dels ih => simp only [semG, sem, ih]
  | order src cs rv lim ih => simp only [semG, sem, ih, semOrderG_rowLe]
  | rename src m ih => simp only [semG, sem, ih]
  | mapCols src m dels ih => simp only [semG, sem, ih]
  | join a b oa ob jt iha ihb => simp only [semG, sem, iha, ihb]
  | concat a b idc an bn iha ihb => simp only [semG, sem, iha, ihb]
  | convert src rm ih => simp only [semG, sem, ih]

theorem semExtendWindowG_wf (le : RowCmp) (Θ : Interp) (ops : Assign) (p o rv : List String) (t : Table)
    (oc : List String) : (semExtendWindowG le Θ ops p o rv t oc).WF := by
  apply wf_of_select
  intro r hr
  simp only [semExtendWindowG, List.mem_map] at hr
  obtain ⟨r0, _, rfl⟩ := hr
  exact ⟨_, rfl⟩

/-- **Columns and shape of every result of `semG`** (as `sem_cols_wf`, for any row comparison) -/
theorem semG_cols_wf (le : RowCmp) (Θ : Interp) (hΘ : ConvertOK Θ) (cfg : SemCfg) (env : Env) (p : Ops) :
    ∀ t, semG le Θ cfg env p = .ok t → t.cols = p.cols ∧ t.WF := by
  induction p with
  | table name cs =>
    intro t h
    simp only [semG] at h
    split at h
    · cases h
    · split at h
      · cases h; exact ⟨rfl, Table.wf_selectCols _ _⟩
      · cases h
  | extend src ops part od rv w ih =>
    intro t h
    simp only [semG, bind, Except.bind] at h
    split at h
    · cases h
    · split at h <;> cases h
      · exact ⟨rfl, semExtendWindowG_wf _ _ _ _ _ _ _ _⟩
      · exact ⟨rfl, semExtendPlain_wf _ _ _ _⟩
  | project src ops g ih =>
    intro t h
    simp only [semG, bind, Except.bind] at h
    split at h
    · cases h
    · cases h
      exact ⟨(semProject_wf ..).2, (semProject_wf ..).1⟩
  | selectRows src e ih =>
    intro t h
    simp only [semG, bind, Except.bind] at h
    split at h
    · cases h
    · rename_i t0 h0
      cases h
      obtain ⟨hc, hw⟩ := ih t0 h0
      refine ⟨hc, ?_⟩
      intro r hr
      simp only [semSelectRows, List.mem_filter] at hr
      exact hw r hr.1
  | selectCols src cs ih =>
    intro t h
    simp only [semG, bind, Except.bind] at h
    split at h
    · cases h
    · cases h; exact ⟨rfl, Table.wf_selectCols _ _⟩
  | dropCols src dels ih =>
    intro t h
    simp only [semG, bind, Except.bind] at h
    split at h
    · cases h
    · cases h; exact ⟨rfl, Table.wf_selectCols _ _⟩
  | order src cs rv lim ih =>
    intro t h
    simp only [semG, bind, Except.bind] at h
    split at h
    · cases h
    · rename_i t0 h0
      cases h
      obtain ⟨hc, hw⟩ := ih t0 h0
      refine ⟨hc, ?_⟩
      intro r hr
      have hmem : r ∈ t0.rows.mergeSort (fun a b => le cs rv a b) := by
        simp only [semOrderG] at hr
        cases lim with
        | none => exact hr
        | some n => exact List.mem_of_mem_take hr
      exact hw r (List.mem_mergeSort.mp hmem)
  | rename src m ih =>
    intro t h
    simp only [semG, bind, Except.bind] at h
    split at h
    · cases h
    · rename_i t0 h0
      cases h
      obtain ⟨hc, hw⟩ := ih t0 h0
      refine ⟨rfl, ?_⟩
      intro r hr
      simp only [List.mem_map] at hr
      obtain ⟨r0, hr0, rfl⟩ := hr
      rw [Row.keys_rename, hw r0 hr0, hc]
      rfl
  | mapCols src m dels ih =>
    intro t h
    simp only [semG, bind, Except.bind] at h
    split at h
    · cases h
    · rename_i t0 h0
      cases h
      obtain ⟨hc, hw⟩ := ih t0 h0
      refine ⟨rfl, ?_⟩
      intro r hr
      simp only [List.mem_map] at hr
      obtain ⟨r0, hr0, rfl⟩ := hr
      rw [Row.keys_rename, Row.keys_drop, hw r0 hr0, hc]
      rfl
  | join a b oa ob jt iha ihb =>
    intro t h
    simp only [semG, bind, Except.bind] at h
    split at h
    · cases h
    · split at h
      · cases h
      · cases h; exact ⟨rfl, Table.wf_selectCols _ _⟩
  | concat a b idc an bn iha ihb =>
    intro t h
    simp only [semG, bind, Except.bind] at h
    split at h
    · cases h
    · split at h
      · cases h
      · cases h; exact ⟨rfl, semConcat_wf _ _ _ _ _ _⟩
  | convert src rm ih =>
    intro t h
    simp only [semG, bind, Except.bind] at h
    split at h
    · cases h
    · exact hΘ rm _ t h

/-- on the fragment no record transform occurs: no hypothesis on `Θ.convert` is needed -/
theorem semG_cols_wf_frag (le : RowCmp) (Θ : Interp) (cfg : SemCfg) (env : Env) (p : Ops) (hf : InFrag p = true) :
    ∀ t, semG le Θ cfg env p = .ok t → t.cols = p.cols ∧ t.WF := by
  induction p with
  | table name cs =>
    intro t h
    simp only [semG] at h
    split at h
    · cases h
    · split at h
      · cases h; exact ⟨rfl, Table.wf_selectCols _ _⟩
      · cases h
  | extend src ops part od rv w ih =>
    intro t h
    simp only [semG, bind, Except.bind] at h
    split at h
    · cases h
    · split at h <;> cases h
      · exact ⟨rfl, semExtendWindowG_wf _ _ _ _ _ _ _ _⟩
      · exact ⟨rfl, semExtendPlain_wf _ _ _ _⟩
  | project src ops g ih =>
    intro t h
    simp only [semG, bind, Except.bind] at h
    split at h
    · cases h
    · cases h
      exact ⟨(semProject_wf ..).2, (semProject_wf ..).1⟩
  | selectRows src e ih =>
    intro t h
    simp only [semG, bind, Except.bind] at h
    split at h
    · cases h
    · rename_i t0 h0
      cases h
      obtain ⟨hc, hw⟩ := ih hf t0 h0
      refine ⟨hc, ?_⟩
      intro r hr
      simp only [semSelectRows, List.mem_filter] at hr
      exact hw r hr.1
  | selectCols src cs ih =>
    intro t h
    simp only [semG, bind, Except.bind] at h
    split at h
    · cases h
    · cases h; exact ⟨rfl, Table.wf_selectCols _ _⟩
  | dropCols src dels ih =>
    intro t h
    simp only [semG, bind, Except.bind] at h
    split at h
    · cases h
    · cases h; exact ⟨rfl, Table.wf_selectCols _ _⟩
  | order src cs rv lim ih =>
    intro t h
    simp only [semG, bind, Except.bind] at h
    split at h
    · cases h
    · rename_i t0 h0
      cases h
      obtain ⟨hc, hw⟩ := ih hf t0 h0
      refine ⟨hc, ?_⟩
      intro r hr
      have hmem : r ∈ t0.rows.mergeSort (fun a b => le cs rv a b) := by
        simp only [semOrderG] at hr
        cases lim with
        | none => exact hr
        | some n => exact List.mem_of_mem_take hr
      exact hw r (List.mem_mergeSort.mp hmem)
  | rename src m ih =>
    intro t h
    simp only [semG, bind, Except.bind] at h
    split at h
    · cases h
    · rename_i t0 h0
      cases h
      obtain ⟨hc, hw⟩ := ih hf t0 h0
      refine ⟨rfl, ?_⟩
      intro r hr
      simp only [List.mem_map] at hr
      obtain ⟨r0, hr0, rfl⟩ := hr
      rw [Row.keys_rename, hw r0 hr0, hc]
      rfl
  | mapCols src m dels ih =>
    intro t h
    simp only [semG, bind, Except.bind] at h
    split at h
    · cases h
    · rename_i t0 h0
      cases h
      obtain ⟨hc, hw⟩ := ih hf t0 h0
      refine ⟨rfl, ?_⟩
      intro r hr
      simp only [List.mem_map] at hr
      obtain ⟨r0, hr0, rfl⟩ := hr
      rw [Row.keys_rename, Row.keys_drop, hw r0 hr0, hc]
      rfl
  | join a b oa ob jt iha ihb => cases hf
  | concat a b idc an bn iha ihb => cases hf
  | convert src rm ih => cases hf

/-- evaluation of the fragment succeeds when the environment has the tables with their declared columns -/
theorem semG_ok_frag (le : RowCmp) (Θ : Interp) (cfg : SemCfg) (env : Env) (p : Ops) (hf : InFrag p = true)
    (ex : Bool) (he : EnvOK ex env p) : ∃ t, semG le Θ cfg env p = .ok t := by
  induction p with
  | table name cs =>
    obtain ⟨t, hl, hs, _⟩ := he (name, cs) (by simp [Ops.tables])
    exact ⟨t.selectCols cs, by simp only [semG, hl, subset_iff.mpr hs, ↓reduceIte]⟩
  | extend src ops part od rv w ih =>
    obtain ⟨t, ht⟩ := ih hf he
    cases w <;> exact ⟨_, by simp only [semG, ht, bind, Except.bind, pure, Except.pure]; rfl⟩
  | project src ops g ih =>
    obtain ⟨t, ht⟩ := ih hf he
    exact ⟨_, by simp only [semG, ht, bind, Except.bind, pure, Except.pure]; rfl⟩
  | selectRows src e ih =>
    obtain ⟨t, ht⟩ := ih hf he
    exact ⟨_, by simp only [semG, ht, bind, Except.bind, pure, Except.pure]; rfl⟩
  | selectCols src cs ih =>
    obtain ⟨t, ht⟩ := ih hf he
    exact ⟨_, by simp only [semG, ht, bind, Except.bind, pure, Except.pure]; rfl⟩
  | dropCols src dels ih =>
    obtain ⟨t, ht⟩ := ih hf he
    exact ⟨_, by simp only [semG, ht, bind, Except.bind, pure, Except.pure]; rfl⟩
  | order src cs rv lim ih =>
    obtain ⟨t, ht⟩ := ih hf he
    exact ⟨_, by simp only [semG, ht, bind, Except.bind, pure, Except.pure]; rfl⟩
  | rename src m ih =>
    obtain ⟨t, ht⟩ := ih hf he
    exact ⟨_, by simp only [semG, ht, bind, Except.bind, pure, Except.pure]; rfl⟩
  | mapCols src m dels ih =>
    obtain ⟨t, ht⟩ := ih hf he
    exact ⟨_, by simp only [semG, ht, bind, Except.bind, pure, Except.pure]; rfl⟩
  | join a b oa ob jt iha ihb => cases hf
  | concat a b idc an bn iha ihb => cases hf
  | convert src rm ih => cases hf

end Sql
end DAVerif
