import DAVerif.Proofs.SqlReach
import DAVerif.Proofs.SqlFullTrans
import DAVerif.Proofs.SqlAllTrans
/-!
C16, SQLite FULL join emulation at the root of a pipeline, **every dialect configuration**: `Sql.transOK_join_sqlite_full_partial`
without the hypothesis `cfg.merges = false` (the emulation pipeline is translated by the main induction for every `cfg`,
`transOK_fragJ_all`).
-/
namespace DAVerif
namespace Sql
namespace SqlE
open DAVerif.Ops (usedFromSources unionL)

variable {Θ : Interp} {ec : EngineCfg} {env : Env} {cfg : SqlCfg}

/-- **Induction step for a FULL join on SQLite, every configuration** (extend merges on or off) (emulated by key union and two LEFT joins), **partial**: sound up to
row order against the reference FULL join **when no join key of either side is null**
(`C16_sqlite_full_nullkeys_necessary`: with null keys all null-key rows collapse into one all-null row). -/
theorem transOK_join_sqlite_full_partial_all (hemu : cfg.emulateRightFull = true) (fuel : Nat)
    (a b : Ops) (onA onB : List String) (hga : Good cfg env a) (hgb : Good cfg env b)
    (hna : ∀ ta, semE ec Θ SemCfg.ref env a = .ok ta → NullFreeOn onA ta.rows)
    (hnb : ∀ tb, semE ec Θ SemCfg.ref env b = .ok tb → NullFreeOn onB tb.rows) :
    TransOKP Θ ec env SemCfg.ref (fun q => q.isJU = true) cfg (fuel + 1) (.join a b onA onB .full) := by
  intro u st q st' tp hu h hsem
  obtain ⟨hK, rfl, sim, hsim, htn⟩ := toNear_join_sqlite_full hemu h
  obtain ⟨rfl, hnd, hKa, hKb⟩ := fullSim_shape hsim
  have hgs : Good cfg env (fullSimOps a b onA) := good_fullSim hga hgb hK hnd hKa hKb
  obtain ⟨ta, tb, hta, htb, rfl⟩ := semG_join_ok hsem
  obtain ⟨tsa, htsa, hmema⟩ := semE_strip hta
  obtain ⟨tsb, htsb, hmemb⟩ := semE_strip htb
  have hncols : ∀ c, c ∈ (Ops.join a b onA onA .full).cols ↔ c ∈ a.cols ∨ c ∈ b.cols := mem_joinNodeCols a b onA onA .full
  obtain ⟨tsim, htsim⟩ := semG_ok_fragJ (sqlRowLe ec) Θ SemCfg.ref env _ hgs.frag false hgs.env
  have htsim' := htsim
  simp only [fullSimOps, semG, htsa, htsb, hta, htb, bind, Except.bind, pure, Except.pure, Except.ok.injEq] at htsim'
  obtain ⟨hju, u₁, hu₁, hu₁', hsound⟩ :=
    (transOK_fragJ_all Θ ec env cfg _ _ (Nat.le_refl _) hgs fuel).1 u st q st' tsim
      (fun c hc => (mem_fullSimOps_cols hKa c).mpr ((hncols c).mp (hu c hc))) htn htsim
  have hu₁n : ∀ c ∈ u₁, c ∈ (Ops.join a b onA onA .full).cols :=
    fun c hc => (hncols c).mpr ((mem_fullSimOps_cols hKa c).mp (hu₁' c hc))
  refine ⟨hju, u₁, hu₁, hu₁n, ?_, ?_⟩
  · intro u' hu' force
    obtain ⟨T, h1, h2, h3⟩ := hsound.req u' hu' force
    refine ⟨T, h1, h2, ?_⟩
    rw [h3, ← htsim']
    exact fullSim_rows_perm Θ hK hKa hKb ta tb tsa tsb
      (semG_cols_wf_fragJ _ Θ SemCfg.ref env a hga.frag ta hta).1
      (semG_cols_wf_fragJ _ Θ SemCfg.ref env b hgb.frag tb htb).1 hmema hmemb (hna ta hta) (hnb tb htb)
      _ _ _ u'
      (fun c => mem_joinNodeCols _ a onA onA .left c)
      (fun c => mem_joinNodeCols _ b onA onA .left c)
      hncols (fun c hc => hu₁n c (hu' c hc)) "a" "b"
  · intro hne
    obtain ⟨ks, hk, h1, h2⟩ := hsound.keys hne
    exact ⟨ks, hk, fun k hk' => (hncols k).mpr ((mem_fullSimOps_cols hKa k).mp (h1 k hk')), h2⟩

end SqlE
end Sql
end DAVerif
