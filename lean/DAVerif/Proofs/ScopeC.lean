import DAVerif.Proofs.C06Chain
/-!
The scope conditions (`WinOK`, `LimitOK`, hence `NodeScope`) and the column conditions (`NodeColsOK`) are
invariant under `≈ᶜ`: they only speak about what `get` reads in the rows, and about the multiset of rows.
-/
namespace DAVerif

theorem select_inj_of_wf {t' : Table} (hw : t'.WF) (hn : t'.cols.Nodup) {cs : List String}
    (hs : ∀ c ∈ t'.cols, c ∈ cs) {a b : Row} (ha : a ∈ t'.rows) (hb : b ∈ t'.rows)
    (h : a.select cs = b.select cs) : a = b := by
  have hget : ∀ c ∈ t'.cols, a.get c = b.get c := by
    intro c hc
    have := congrArg (fun r => Row.get r c) h
    simp only [Row.select_get_of_mem (hs c hc)] at this
    exact this
  rw [← Row.select_self (hw a ha) hn, ← Row.select_self (hw b hb) hn]
  exact Row.select_congr hget

theorem WinTotal.of_equivC {p o rv : List String} {t t' : Table} (h : t ≈ᶜ t')
    (hw : WinTotal p o rv t.rows) : WinTotal p o rv t'.rows := by
  have h1 : WinTotal p o rv (t'.rows.map (fun r => r.select t.cols)) := hw.perm h.2.2.2.2
  unfold WinTotal at h1 ⊢
  rw [List.pairwise_map] at h1
  refine List.Pairwise.imp_of_mem ?_ h1
  intro a b ha hb hab
  have ga := fun c => h.wf_right.get_select (cs := t.cols) (fun c => h.mem_cols c) ha c
  have gb := fun c => h.wf_right.get_select (cs := t.cols) (fun c => h.mem_cols c) hb c
  rw [keyOf_congr (fun c _ => ga c), keyOf_congr (fun c _ => gb c),
    rowLe_congr (fun c _ => ga c) (fun c _ => gb c), rowLe_congr (fun c _ => gb c) (fun c _ => ga c)] at hab
  exact hab

theorem TotalOn.of_equivC {cs rv : List String} {t t' : Table} (h : t ≈ᶜ t')
    (hw : TotalOn cs rv t.rows) : TotalOn cs rv t'.rows := by
  have h1 : TotalOn cs rv (t'.rows.map (fun r => r.select t.cols)) := hw.perm h.2.2.2.2
  intro a ha b hb hab hba
  have ga := fun c => h.wf_right.get_select (cs := t.cols) (fun c => h.mem_cols c) ha c
  have gb := fun c => h.wf_right.get_select (cs := t.cols) (fun c => h.mem_cols c) hb c
  have := h1 _ (List.mem_map.mpr ⟨a, ha, rfl⟩) _ (List.mem_map.mpr ⟨b, hb, rfl⟩)
    (by rw [rowLe_congr (fun c _ => ga c) (fun c _ => gb c)]; exact hab)
    (by rw [rowLe_congr (fun c _ => gb c) (fun c _ => ga c)]; exact hba)
  exact select_inj_of_wf h.wf_right h.nodup_right (fun c hc => (h.mem_cols c).mpr hc) ha hb this

theorem CutClean.of_equivC {cs rv : List String} {n : Nat} {t t' : Table} (h : t ≈ᶜ t')
    (hw : CutClean cs rv n t.rows) : CutClean cs rv n t'.rows := by
  obtain ⟨kept, dropped, hp, hl, hlt⟩ := hw
  have hs := h.symm
  -- `t'.rows` is `t.rows` with the columns in the order of `t'`
  have hrows : t'.rows.Perm (t.rows.map (fun r => r.select t'.cols)) := hs.2.2.2.2
  have hg : ∀ r ∈ t.rows, ∀ c, (r.select t'.cols).get c = r.get c :=
    fun r hr c => h.wf_left.get_select (cs := t'.cols) (fun c => (h.mem_cols c).symm) hr c
  refine ⟨kept.map (fun r => r.select t'.cols), dropped.map (fun r => r.select t'.cols), ?_, ?_, ?_⟩
  · rw [← List.map_append]
    exact hrows.trans (hp.map _)
  · rw [List.length_map, hl, hrows.length_eq, List.length_map]
  · intro a ha b hb
    simp only [List.mem_map] at ha hb
    obtain ⟨a0, ha0, rfl⟩ := ha
    obtain ⟨b0, hb0, rfl⟩ := hb
    have ha1 : a0 ∈ t.rows := hp.mem_iff.mpr (List.mem_append_left _ ha0)
    have hb1 : b0 ∈ t.rows := hp.mem_iff.mpr (List.mem_append_right _ hb0)
    rw [rowLe_congr (fun c _ => hg b0 hb1 c) (fun c _ => hg a0 ha1 c)]
    exact hlt a0 ha0 b0 hb0

/-- **The scope condition of a node is invariant under `≈ᶜ`.** -/
theorem NodeScope.of_equivC {Θ : Interp} {N : Ops} {t t' : Table} (h : t ≈ᶜ t') (hs : NodeScope Θ N t.rows) :
    NodeScope Θ N t'.rows := by
  cases N with
  | extend s ops part od rv w =>
    intro hw
    exact (hs hw).imp (fun hh => hh.of_equivC h) id
  | order s cs rv lim =>
    cases lim with
    | none => trivial
    | some n => exact hs.imp (fun hh => hh.of_equivC h) (fun hh => hh.of_equivC h)
  | project s ops g => exact hs
  | _ => trivial

theorem concatCols_perm {ca ca' : List String} (h : ca.Perm ca') (idc : Option String) :
    (concatCols ca idc).Perm (concatCols ca' idc) := by
  cases idc with
  | none => exact h
  | some c => exact h.append_right _

/-- the column conditions of a node only depend on the source columns up to order -/
theorem NodeColsOK.perm {N : Ops} {ca ca' : List String} (h : ca.Perm ca') (hc : NodeColsOK N ca) :
    NodeColsOK N ca' := by
  cases N with
  | selectCols s cs => exact ⟨hc.1, fun c hcc => h.mem_iff.mp (hc.2 c hcc)⟩
  | rename s m => exact (h.map _).nodup_iff.mp hc
  | mapCols s m ds => exact ((h.filter _).map _).nodup_iff.mp hc
  | concat a b idc an bn => exact (concatCols_perm h idc).nodup_iff.mp hc
  | project s ops g => exact hc
  | convert s rm => exact hc
  | _ => trivial

end DAVerif
