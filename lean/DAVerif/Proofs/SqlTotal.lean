import DAVerif.Proofs.SqlReach
import DAVerif.Proofs.SqlMergeMain
/-!
C01/C04: **the translation does not fail** on well-formed pipelines of the fragment whose tables are present
(`toNear_total_frag`, `toNearSql_total_frag`), for every dialect configuration.

Where `to_near_sql_implementation_` can raise: the guards of the table and extend cases (the requested columns are
declared columns), and the `KeyError` of `select_columns` / `drop_columns` when a requested key is missing from the
term dictionary of the step they modify.  The latter needs the invariant of the translation (`Sound.keys`: the keys
of a translated sub-query include everything requested).
-/
namespace DAVerif
namespace Sql
open DAVerif.Ops (usedFromSources unionL)
open Rules26 (usedBy keys)

variable {Θ : Interp} {ec : EngineCfg} {env : Env} {scfg : SemCfg} {cfg : SqlCfg}

/-- the translation of `p` succeeds for every request within its columns -/
def TransTot (cfg : SqlCfg) (fuel : Nat) (p : Ops) : Prop :=
  ∀ (u : List String) (st : Nat), (∀ c ∈ u, c ∈ p.cols) → ∃ q st', toNear cfg fuel p (some u) st = .ok (q, st')

private theorem bind_total {α : Type} {x : M α} {f : α → M Near} {st : Nat} {a : α} {st1 : Nat}
    (hx : x st = .ok (a, st1)) (hf : ∃ q st', f a st1 = .ok (q, st')) : ∃ q st', (x >>= f) st = .ok (q, st') := by
  obtain ⟨q, st', h⟩ := hf
  exact ⟨q, st', bindM_ok.mpr ⟨a, st1, hx, h⟩⟩

private theorem pure_total (a : Near) (st : Nat) : ∃ q st', (pure a : M Near) st = .ok (q, st') := ⟨a, st, rfl⟩

private theorem fresh_total (X : Nat → Near) (st : Nat) :
    ∃ q st', (do let i ← fresh; return X i : M Near) st = .ok (q, st') :=
  bind_total (fresh_ok.mpr rfl) (pure_total _ _)

/-- `sub ← m; i ← fresh; return X sub i` succeeds when `m` does -/
private theorem step_total {m : M Near} {X : Near → Nat → Near} {st : Nat} (h : ∃ sub st1, m st = .ok (sub, st1)) :
    ∃ q st', (do let sub ← m; let i ← fresh; return X sub i : M Near) st = .ok (q, st') := by
  obtain ⟨sub, st1, h1⟩ := h
  exact bind_total h1 (fresh_total _ _)

theorem transTot_table (fuel : Nat) (name : String) (cs : List String) : TransTot cfg (fuel + 1) (.table name cs) := by
  intro u st hu
  rw [toNear]
  simp only [Option.getD_some]
  have hg : subset u cs = true := subset_iff.mpr hu
  apply bind_total (a := ()) (st1 := st) (by rw [hg]; rfl)
  split
  · exact fresh_total _ _
  · exact pure_total _ _

theorem transTot_selectRows (fuel : Nat) (src : Ops) (e : Term) (he : ∀ c ∈ Term.colsRaw e, c ∈ src.cols)
    (ih : TransTot cfg fuel src) : TransTot cfg (fuel + 1) (.selectRows src e) := by
  intro u st hu
  rw [toNear]
  simp only [Option.getD_some]
  apply step_total
  apply ih
  intro c hc
  have hS : ((Ops.selectRows src e).usedFromSources u).headD [] =
      unionL (src.cols.filter (fun c => u.contains c)) (Term.colsUsed e) := rfl
  rw [hS, mem_unionL] at hc
  rcases hc with hc | hc
  · exact (List.mem_filter.mp hc).1
  · exact he c (by simpa [Term.colsUsed] using hc)

theorem transTot_order (fuel : Nat) (src : Ops) (cs rev : List String) (lim : Option Nat)
    (ih : TransTot cfg fuel src) : TransTot cfg (fuel + 1) (.order src cs rev lim) := by
  intro u st hu
  rw [toNear]
  simp only [Option.getD_some]
  apply step_total
  apply ih
  intro c hc
  exact (List.mem_filter.mp hc).1

theorem transTot_project (fuel : Nat) (src : Ops) (ops : Assign) (group : List String)
    (hgsrc : ∀ c ∈ group, c ∈ src.cols) (hused : ∀ c ∈ usedBy ops, c ∈ src.cols)
    (ih : TransTot cfg fuel src) : TransTot cfg (fuel + 1) (.project src ops group) := by
  intro u st hu
  rw [toNear]
  simp only [Option.getD_some]
  apply step_total
  apply ih
  intro c hc
  generalize (if ((ops.filter (fun kv => u.contains kv.1)).isEmpty && group.isEmpty && !ops.isEmpty) = true
      then (ops.take 1, u ++ (ops.take 1).map (·.1)) else (ops.filter (fun kv => u.contains kv.1), u)) = pr at hc
  have hS0 : ((Ops.project src ops group).usedFromSources pr.2).headD [] =
      unionL group (Term.colsUsedOps (ops.filter (fun kv => pr.2.contains kv.1))) := rfl
  rw [hS0, mem_unionL] at hc
  rcases hc with hc | hc
  · exact hgsrc c hc
  · obtain ⟨kv, hkv, hx⟩ := mem_colsUsedOps.mp hc
    exact hused c (List.mem_flatMap.mpr ⟨kv, (List.mem_filter.mp hkv).1, hx⟩)

theorem transTot_rename (fuel : Nat) (src : Ops) (m : List (String × String))
    (hR1 : ∀ kv ∈ m, kv.2 ∈ src.cols) (ih : TransTot cfg fuel src) : TransTot cfg (fuel + 1) (.rename src m) := by
  intro u st hu
  rw [toNear]
  simp only [Option.getD_some]
  apply step_total
  apply ih
  intro c hc
  have hS0 : ((Ops.rename src m).usedFromSources u).headD [] =
      (u.map (fun c => (lookupLast m c).getD c)).eraseDups := rfl
  rw [hS0, List.mem_eraseDups] at hc
  obtain ⟨c', hc', rfl⟩ := List.mem_map.mp hc
  cases hl : lookupLast m c' with
  | some o =>
    simp only [Option.getD_some]
    exact hR1 _ (lookupLast_mem hl)
  | none =>
    simp only [Option.getD_none]
    have hnk : c' ∉ m.map (·.1) := lookupLast_eq_none_iff.mp hl
    have := hu c' hc'
    simp only [Ops.cols] at this
    obtain ⟨c0, hc0, e⟩ := List.mem_map.mp this
    cases hr : lookupLast (m.map (fun kv => (kv.2, kv.1))) c0 with
    | none => rw [hr] at e; simp only [Option.getD_none] at e; rw [← e]; exact hc0
    | some nw =>
      rw [hr] at e
      simp only [Option.getD_some] at e
      have hmem := lookupLast_mem hr
      obtain ⟨kv, hkv, e2⟩ := List.mem_map.mp hmem
      have : kv.1 = nw := (Prod.mk.inj e2).2
      exact absurd (List.mem_map.mpr ⟨kv, hkv, this.trans e⟩) hnk

theorem transTot_mapCols (fuel : Nat) (src : Ops) (m : List (String × String)) (dels : List String)
    (hM1 : ∀ kv ∈ m, kv.1 ∈ src.cols) (hM1' : ∀ c ∈ dels, c ∈ src.cols)
    (ih : TransTot cfg fuel src) : TransTot cfg (fuel + 1) (.mapCols src m dels) := by
  intro u st hu
  rw [toNear]
  simp only [Option.getD_some]
  apply step_total
  apply ih
  intro c hc
  have hS0 : ((Ops.mapCols src m dels).usedFromSources u).headD [] =
      unionL (u.map (fun c => (lookupLast (m.map (fun kv => (kv.2, kv.1))) c).getD c)).eraseDups dels := rfl
  rw [hS0, mem_unionL, List.mem_eraseDups] at hc
  rcases hc with hc | hc
  · obtain ⟨c', hc', rfl⟩ := List.mem_map.mp hc
    cases hl : lookupLast (m.map (fun kv => (kv.2, kv.1))) c' with
    | some o =>
      simp only [Option.getD_some]
      obtain ⟨kv, hkv, e2⟩ := List.mem_map.mp (lookupLast_mem hl)
      have : kv.1 = o := (Prod.mk.inj e2).2
      rw [← this]
      exact hM1 kv hkv
    | none =>
      simp only [Option.getD_none]
      have hnk : c' ∉ (m.map (fun kv => (kv.2, kv.1))).map (·.1) := lookupLast_eq_none_iff.mp hl
      have := hu c' hc'
      simp only [Ops.cols] at this
      obtain ⟨c0, hc0, e⟩ := List.mem_map.mp this
      cases hr : lookupLast m c0 with
      | none => rw [hr] at e; simp only [Option.getD_none] at e; rw [← e]; exact (List.mem_filter.mp hc0).1
      | some nw =>
        rw [hr] at e
        simp only [Option.getD_some] at e
        have hmem := lookupLast_mem hr
        exfalso
        apply hnk
        simp only [List.map_map, List.mem_map, Function.comp_def]
        exact ⟨(c0, nw), hmem, e⟩
  · exact hM1' c hc

theorem transTot_extend (fuel : Nat) (src : Ops) (ops : Assign) (part order rev : List String) (w : Bool)
    (hext : ExtOK src.cols ops part order rev w) (ih : TransTot cfg fuel src) :
    TransTot cfg (fuel + 1) (.extend src ops part order rev w) := by
  intro u st hu
  have hncols : ∀ c, c ∈ (Ops.extend src ops part order rev w).cols ↔ c ∈ src.cols ∨ c ∈ ops.map (·.1) := by
    intro c; simp only [Ops.cols]; exact mem_appendNew
  have husgn : ∀ c ∈ extUsg u part order rev, c ∈ (Ops.extend src ops part order rev w).cols := by
    obtain ⟨_, hpart, hord, hrev, _⟩ := hext
    intro c hc
    rcases mem_usg.mp hc with h | h | h | h
    · exact hu c h
    · exact (hncols c).mpr (Or.inl (hpart c h))
    · exact (hncols c).mpr (Or.inl (hord c h))
    · exact (hncols c).mpr (Or.inl (hord c (hrev c h)))
  rw [toNear]
  simp only [Option.getD_some]
  split
  · -- pruned
    rename_i hempty
    apply ih
    intro c hc
    rcases (hncols c).mp (husgn c hc) with h | h
    · exact h
    · obtain ⟨kv, hkv, rfl⟩ := List.mem_map.mp h
      have : kv ∈ ops.filter (fun kv => (extUsg u part order rev).contains kv.1) :=
        List.mem_filter.mpr ⟨hkv, by simpa [extUsg] using hc⟩
      rw [show ops.filter (fun kv => (extUsg u part order rev).contains kv.1) = [] from List.isEmpty_iff.mp hempty]
        at this
      cases this
  · rename_i hnonempty
    have hne : (extSubops ops (extUsg u part order rev)).isEmpty = false := Bool.eq_false_iff.mpr hnonempty
    have hF := extFacts hext hu hne
    have hg1 : (!(unionL (unionL (unionL u part) order) rev).isEmpty) = true := by
      obtain ⟨kv, hkv⟩ := List.exists_mem_of_ne_nil _ (by simpa using hnonempty :
        ops.filter (fun kv => (unionL (unionL (unionL u part) order) rev).contains kv.1) ≠ [])
      have := (List.mem_filter.mp hkv).2
      simp only [List.contains_eq_mem, decide_eq_true_eq] at this
      cases hx : unionL (unionL (unionL u part) order) rev with
      | nil => rw [hx] at this; cases this
      | cons a l => rfl
    have hg2 : subset (unionL (unionL (unionL u part) order) rev) (Ops.extend src ops part order rev w).cols = true :=
      subset_iff.mpr husgn
    obtain ⟨sub, st3, h5⟩ := ih _ st hF.Ssrc
    have hfresh : ∀ (X : Nat → Near) (s : Nat), ∃ q st', (do let i ← fresh; return X i : M Near) s = .ok (q, st') :=
      fresh_total
    apply bind_total (a := ()) (st1 := st) (by rw [hg1]; rfl)
    apply bind_total (a := ()) (st1 := st) (by rw [hg2]; rfl)
    apply bind_total h5
    cases hmg : cfg.merges with
    | false => exact hfresh _ st3
    | true =>
      cases sub with
      | table _ _ => exact hfresh _ st3
      | cte _ => exact hfresh _ st3
      | join => exact hfresh _ st3
      | union => exact hfresh _ st3
      | unary sname sterms sagg ssub scols sfx mg sdeps skey =>
        cases sterms with
        | none => exact hfresh _ st3
        | some sterms =>
          cases mg with
          | false => cases sfx <;> cases sdeps <;> exact hfresh _ st3
          | true =>
            cases sdeps with
            | none => cases sfx <;> exact hfresh _ st3
            | some sdeps =>
              cases sfx with
              | whereE _ => exact hfresh _ st3
              | groupBy _ => exact hfresh _ st3
              | orderBy _ _ _ => exact hfresh _ st3
              | none =>
                simp only []
                have hite : ∀ (c : Bool) (A B : M Near), (∃ q st', A st3 = .ok (q, st')) →
                    (∃ q st', B st3 = .ok (q, st')) → ∃ q st', (if c = true then A else B) st3 = .ok (q, st') := by
                  intro c A B hA hB
                  cases c
                  · exact hB
                  · exact hA
                apply hite
                · exact pure_total _ _
                · exact hfresh _ st3

/-! ### select_columns / drop_columns: no KeyError -/

/-- `setTermKeys` succeeds on a table or a unary step whose term keys include the keys to keep -/
theorem setTermKeys_total {q : Near} {ks : List String} (sel : Bool) (hs : q.isSimple = true)
    (hk : ks ≠ [] → ∃ tk, q.termKeys = some tk ∧ ∀ c ∈ ks, c ∈ tk) : ∃ q', setTermKeys q ks sel = some q' := by
  by_cases hne : ks = []
  · subst hne
    cases q with
    | table n ts => exact ⟨_, rfl⟩
    | unary n ts agg sub sc sf mg deps key =>
      cases ts with
      | none => cases sel <;> exact ⟨_, rfl⟩
      | some ts => exact ⟨_, rfl⟩
    | cte _ => cases hs
    | join => cases hs
    | union => cases hs
  · obtain ⟨tk, htk, hsub⟩ := hk hne
    have hne' : ks.isEmpty = false := by simpa using hne
    cases q with
    | table n ts =>
      simp only [Near.termKeys, Option.some.injEq] at htk
      subst htk
      simp only [setTermKeys, hne', Bool.false_eq_true, ↓reduceIte, subset_iff.mpr hsub]
      exact ⟨_, rfl⟩
    | unary n ts agg sub sc sf mg deps key =>
      cases ts with
      | none => simp [Near.termKeys] at htk
      | some ts =>
        simp only [Near.termKeys, Option.map_some, Option.some.injEq] at htk
        subst htk
        simp only [setTermKeys, hne', Bool.false_eq_true, ↓reduceIte, subset_iff.mpr hsub]
        exact ⟨_, rfl⟩
    | cte _ => cases hs
    | join => cases hs
    | union => cases hs

private theorem keys_of_sound {q : Near} {S S₁ pc : List String} {tp : Table} (hsound : Sound Θ ec env q S₁ pc tp)
    (hS₁ : ∀ c ∈ S, c ∈ S₁) : S ≠ [] → ∃ tk, q.termKeys = some tk ∧ ∀ c ∈ S, c ∈ tk := by
  intro hne
  obtain ⟨tk, h1, _, h3⟩ := hsound.keys (ne_nil_of_subset hS₁ hne)
  exact ⟨tk, h1, fun c hc => h3 c (hS₁ c hc)⟩

theorem transTot_selectCols (fuel : Nat) (src : Ops) (cs : List String) (hcs : ∀ c ∈ cs, c ∈ src.cols)
    (hT : TransOK Θ ec env scfg (fun q => q.isSimple = true) cfg fuel src)
    (hsem : ∃ ts, semE ec Θ scfg env src = .ok ts)
    (ih : TransTot cfg fuel src) : TransTot cfg (fuel + 1) (.selectCols src cs) := by
  intro u st hu
  obtain ⟨ts, hts⟩ := hsem
  rw [toNear]
  simp only [Option.getD_some]
  generalize hS : cs.filter (fun c => (((Ops.selectCols src cs).usedFromSources u).headD []).contains c) = S
  have hSsrc : ∀ c ∈ S, c ∈ src.cols := by
    intro c hc; rw [← hS] at hc; exact hcs c (List.mem_filter.mp hc).1
  obtain ⟨sub, st1, h1⟩ := ih S st hSsrc
  apply bind_total h1
  obtain ⟨hsimple, S₁, hS₁, _, hsound⟩ := hT S st sub st1 ts hSsrc h1 hts
  obtain ⟨q', hq⟩ := setTermKeys_total true hsimple (keys_of_sound hsound hS₁)
  rw [hq]
  exact pure_total _ _

theorem transTot_dropCols (fuel : Nat) (src : Ops) (dels : List String)
    (hT : TransOK Θ ec env scfg (fun q => q.isSimple = true) cfg fuel src)
    (hsem : ∃ ts, semE ec Θ scfg env src = .ok ts)
    (ih : TransTot cfg fuel src) : TransTot cfg (fuel + 1) (.dropCols src dels) := by
  intro u st hu
  obtain ⟨ts, hts⟩ := hsem
  rw [toNear]
  simp only [Option.getD_some]
  have hsu : ((Ops.dropCols src dels).usedFromSources u).headD [] = u.filter (fun c => !dels.contains c) := rfl
  rw [hsu]
  generalize hS : u.filter (fun c => !dels.contains c) = S
  have hSsrc : ∀ c ∈ S, c ∈ src.cols := by
    intro c hc
    rw [← hS] at hc
    have := hu c (List.mem_filter.mp hc).1
    simp only [Ops.cols, List.mem_filter] at this
    exact this.1
  obtain ⟨sub, st1, h1⟩ := ih S st hSsrc
  apply bind_total h1
  obtain ⟨hsimple, S₁, hS₁, _, hsound⟩ := hT S st sub st1 ts hSsrc h1 hts
  obtain ⟨q', hq⟩ := setTermKeys_total false hsimple (keys_of_sound hsound hS₁)
  rw [hq]
  exact pure_total _ _

/-! ### the translation is total on the fragment -/

/-- **`to_near_sql_implementation_` does not fail** (fragment, every dialect configuration): for a well-formed
pipeline whose tables are present with the declared columns, every fuel that is at least the size of the pipeline
and every request within the declared columns, the translation returns a query. -/
theorem toNear_total_frag (Θ : Interp) (ec : EngineCfg) (env : Env) (scfg : SemCfg) (cfg : SqlCfg) (p : Ops) :
    InFrag p = true → WF p → SqlWF p → MapsOK p → EnvOK false env p → ∀ fuel : Nat, p.size ≤ fuel →
      TransTot cfg fuel p := by
  induction p with
  | table name cs =>
    intro _ _ _ _ _ fuel hsz
    cases fuel with
    | zero => simp [Ops.size] at hsz
    | succ fuel => exact transTot_table fuel name cs
  | extend src ops part od rv w ih =>
    intro hf hwf hsq hmp he fuel hsz
    cases fuel with
    | zero => simp [Ops.size] at hsz
    | succ fuel =>
      exact transTot_extend fuel src ops part od rv w hwf.2
        (ih hf hwf.1 hsq hmp he fuel (by simp [Ops.size] at hsz; omega))
  | project src ops g ih =>
    intro hf hwf hsq hmp he fuel hsz
    cases fuel with
    | zero => simp [Ops.size] at hsz
    | succ fuel =>
      simp only [SqlWF, sqlWFb, Bool.and_eq_true, subset_iff, nodupB_iff, disjoint_iff] at hsq
      obtain ⟨⟨⟨⟨hs, h1⟩, h2⟩, _⟩, _⟩ := hsq
      exact transTot_project fuel src ops g h1 h2 (ih hf hwf.1 hs hmp he fuel (by simp [Ops.size] at hsz; omega))
  | selectRows src e ih =>
    intro hf hwf hsq hmp he fuel hsz
    cases fuel with
    | zero => simp [Ops.size] at hsz
    | succ fuel =>
      simp only [SqlWF, sqlWFb, Bool.and_eq_true, subset_iff] at hsq
      exact transTot_selectRows fuel src e hsq.2 (ih hf hwf hsq.1 hmp he fuel (by simp [Ops.size] at hsz; omega))
  | selectCols src cs ih =>
    intro hf hwf hsq hmp he fuel hsz
    cases fuel with
    | zero => simp [Ops.size] at hsz
    | succ fuel =>
      exact transTot_selectCols fuel src cs hwf.2.2.2
        (transOK_frag_merges Θ ec env scfg cfg src hf hwf.1 hsq hmp he fuel).1
        (semG_ok_frag (sqlRowLe ec) Θ scfg env src hf false he)
        (ih hf hwf.1 hsq hmp he fuel (by simp [Ops.size] at hsz; omega))
  | dropCols src dels ih =>
    intro hf hwf hsq hmp he fuel hsz
    cases fuel with
    | zero => simp [Ops.size] at hsz
    | succ fuel =>
      exact transTot_dropCols fuel src dels
        (transOK_frag_merges Θ ec env scfg cfg src hf hwf.1 hsq hmp he fuel).1
        (semG_ok_frag (sqlRowLe ec) Θ scfg env src hf false he)
        (ih hf hwf.1 hsq hmp he fuel (by simp [Ops.size] at hsz; omega))
  | order src cs rv lim ih =>
    intro hf hwf hsq hmp he fuel hsz
    cases fuel with
    | zero => simp [Ops.size] at hsz
    | succ fuel =>
      simp only [SqlWF, sqlWFb, Bool.and_eq_true, subset_iff] at hsq
      exact transTot_order fuel src cs rv lim (ih hf hwf hsq.1 hmp he fuel (by simp [Ops.size] at hsz; omega))
  | rename src m ih =>
    intro hf hwf hsq hmp he fuel hsz
    cases fuel with
    | zero => simp [Ops.size] at hsz
    | succ fuel =>
      simp only [SqlWF, sqlWFb, Bool.and_eq_true, subset_iff] at hsq
      simp only [MapsOK, mapsOKb, Bool.and_eq_true] at hmp
      refine transTot_rename fuel src m ?_ (ih hf hwf.1 hsq.1.1 hmp.1.1 he fuel (by simp [Ops.size] at hsz; omega))
      intro kv hkv; exact hsq.1.2 kv.2 (List.mem_map.mpr ⟨kv, hkv, rfl⟩)
  | mapCols src m dels ih =>
    intro hf hwf hsq hmp he fuel hsz
    cases fuel with
    | zero => simp [Ops.size] at hsz
    | succ fuel =>
      simp only [SqlWF, sqlWFb, Bool.and_eq_true, subset_iff] at hsq
      simp only [MapsOK, mapsOKb, Bool.and_eq_true] at hmp
      refine transTot_mapCols fuel src m dels ?_ hsq.1.2
        (ih hf hwf.1 hsq.1.1.1 hmp.1.1.1 he fuel (by simp [Ops.size] at hsz; omega))
      intro kv hkv; exact hsq.1.1.2 kv.1 (List.mem_map.mpr ⟨kv, hkv, rfl⟩)
  | join a b oa ob jt iha ihb => intro hf; cases hf
  | concat a b idc an bn iha ihb => intro hf; cases hf
  | convert src rm ih => intro hf; cases hf

/-- **`to_sql` does not fail** on the fragment: `toNearSql` (root call, the fuel it supplies) returns a query -/
theorem toNearSql_total_frag (Θ : Interp) (ec : EngineCfg) (env : Env) (cfg : SqlCfg) (p : Ops)
    (hf : InFrag p = true) (hwf : WF p) (hsq : SqlWF p) (hmp : MapsOK p) (he : EnvOK false env p) :
    ∃ q, toNearSql cfg p = .ok q := by
  obtain ⟨q, st', h⟩ := toNear_total_frag Θ ec env SemCfg.ref cfg p hf hwf hsq hmp he (6 * p.size + 6) (by omega)
    p.cols 0 (fun c hc => hc)
  rw [← toNear_none_eq cfg _ p hf] at h
  refine ⟨q, ?_⟩
  unfold toNearSql
  simp only [StateT.run, h]
  rfl

end Sql
end DAVerif
