import DAVerif.Proofs.ChkPerm
/-!
C06 for chains: `semStep` respects `≈ᶜ`, and the n-step statement by induction over the chain.
-/
namespace DAVerif

variable {Θ : Interp} {cfg : SemCfg} {env : Env}

/-- **The meaning of a step respects `≈ᶜ`**: on two materialised tables that agree up to row and column order
the raw step fails alike or gives results that agree up to row and column order (under the step's scope). -/
theorem semStep_congrC (hΘ : ConvertOK Θ) (hC : ConvertInvariant Θ) {n : String} {s : Step} {t t' : Table}
    (h : t ≈ᶜ t') (hf : Step.Fresh n s) (hb : ∀ b ∈ Step.argOps s, b.valid = true)
    (hs : StepScope Θ s t.rows) :
    ResEquivC (semStep Θ cfg env n s t) (semStep Θ cfg env n s t') := by
  have hacc := buildRaw_errOf_perm h.cols_perm n s hf
  cases hr : buildRaw (.table n t.cols) s with
  | error e =>
    rw [hr] at hacc
    cases hr' : buildRaw (.table n t'.cols) s with
    | ok _ => rw [hr'] at hacc; cases hacc
    | error e' =>
      rw [hr'] at hacc
      simp only [errOf, Option.some.injEq] at hacc
      simp only [semStep, hr, hr']
      exact hacc
  | ok N =>
    rw [hr] at hacc
    obtain ⟨N', hr'⟩ := errOf_eq_none.mp hacc.symm
    rw [semStep_eq hΘ h.wf_left h.nodup_left hr hf, semStep_eq hΘ h.wf_right h.nodup_right hr' hf]
    have hN := buildRaw_ok_node hr
    have hN' := buildRaw_ok_node hr'
    obtain ⟨happ, hsrcB, _, _⟩ := rawNodeOf_leaf_indep Θ cfg n n t.cols t'.cols s
    rw [← hN, ← hN'] at happ hsrcB
    have hscope : NodeScope Θ N t.rows := by
      rw [hN]; exact NodeScope_of_StepScope _ (fun _ => trivial) hs
    have hcols : NodeColsOK N t.cols := NodeColsOK_of_buildRaw h.nodup_left hr
    simp only [applyStep, ← hsrcB]
    cases hsb : N.srcB with
    | none =>
      simp only [← happ]
      exact applyNode_congrC Θ cfg hC N h h hscope hcols
    | some b =>
      have hbin : b ∈ Step.argOps s := by
        rcases rawNodeOf_shape n t.cols s with hh | ⟨_, _, hB⟩
        · rw [← hN] at hh; rw [hh] at hsb; cases hsb
        · exact hB b (by rw [← hN]; exact hsb)
      simp only [← happ]
      cases hbs : sem Θ cfg env b with
      | error e => exact rfl
      | ok tb =>
        have hwb := sem_wf_nodup hΘ (hb b hbin) hbs
        exact applyNode_congrC Θ cfg hC N h (Table.EquivC.refl hwb.1 hwb.2) hscope hcols

theorem list_snoc_induction {α : Type} {P : List α → Prop} (hnil : P [])
    (hsnoc : ∀ l a, P l → P (l ++ [a])) : ∀ l, P l := by
  intro l
  have : ∀ r : List α, P r.reverse := by
    intro r
    induction r with
    | nil => exact hnil
    | cons a r ih => rw [List.reverse_cons]; exact hsnoc _ _ ih
  rw [← List.reverse_reverse l]
  exact this _

theorem buildChain_snoc (start : Ops) (steps : List Step) (s : Step) :
    buildChain start (steps ++ [s]) = buildChain start steps >>= fun p => build p s := by
  simp only [buildChain, List.foldlM_append, List.foldlM_cons, List.foldlM_nil, bind_pure]

theorem semSteps_snoc (Θ : Interp) (cfg : SemCfg) (env : Env) (n : String) (steps : List Step) (s : Step)
    (t : Table) :
    semSteps Θ cfg env n (steps ++ [s]) t = semSteps Θ cfg env n steps t >>= semStep Θ cfg env n s := by
  simp only [semSteps, List.foldlM_append, List.foldlM_cons, List.foldlM_nil, bind_pure]

theorem valid_buildChain {start : Ops} {steps : List Step} {p' : Ops} (hv : start.valid = true)
    (hb : ∀ s ∈ steps, ∀ b ∈ Step.argOps s, b.valid = true) (h : buildChain start steps = .ok p') :
    p'.valid = true := by
  induction steps generalizing start with
  | nil => cases h; exact hv
  | cons s rest ih =>
    simp only [buildChain, List.foldlM_cons] at h
    obtain ⟨p1, h1, h2⟩ := except_bind_eq_ok.mp h
    exact ih (valid_build hv (hb s (List.mem_cons_self ..)) h1)
      (fun s' hs' => hb s' (List.mem_cons_of_mem _ hs')) h2

/-- **Scope of a chain**: each step is in scope (`StepScope`) on the result of the pipeline built from the
steps before it. -/
def ChainScope (Θ : Interp) (cfg : SemCfg) (env : Env) (start : Ops) (steps : List Step) : Prop :=
  ∀ pre s post, steps = pre ++ s :: post → ∀ pk, buildChain start pre = .ok pk →
    ∀ t, sem Θ cfg env pk = .ok t → StepScope Θ s t.rows

/-- **C06 for chains** (valid pipelines): the pipeline built by a chain of builder calls evaluates – up to row
and column order – to the steps applied one after the other, each to the materialised result of the previous
one. -/
theorem buildChain_sem (hΘ : ConvertOK Θ) (hC : ConvertInvariant Θ) (n : String) {start : Ops}
    (hv : start.valid = true) (steps : List Step) :
    ∀ {p' : Ops}, (∀ s ∈ steps, ∀ b ∈ Step.argOps s, b.valid = true) → buildChain start steps = .ok p' →
      (∀ s ∈ steps, Step.Fresh n s) → ChainScope Θ cfg env start steps →
      ResEquivC (sem Θ cfg env p') (sem Θ cfg env start >>= semSteps Θ cfg env n steps) := by
  induction steps using list_snoc_induction with
  | hnil =>
    intro p' _ h _ _
    cases h
    have : (sem Θ cfg env start >>= semSteps Θ cfg env n []) = sem Θ cfg env start := by
      cases sem Θ cfg env start <;> rfl
    rw [this]
    exact ResEquivC.of_eq rfl (fun t ht => sem_wf_nodup hΘ hv ht)
  | hsnoc steps s ih =>
    intro p' hb h hf hs
    rw [buildChain_snoc] at h
    obtain ⟨pk, hk, hbuild⟩ := except_bind_eq_ok.mp h
    have hbk : ∀ s' ∈ steps, ∀ b ∈ Step.argOps s', b.valid = true :=
      fun s' hs' => hb s' (List.mem_append_left _ hs')
    have hvk : pk.valid = true := valid_buildChain hv hbk hk
    have hbs := hb s (by simp)
    have hfs := hf s (by simp)
    have hscope_k : ∀ t, sem Θ cfg env pk = .ok t → StepScope Θ s t.rows :=
      fun t ht => hs steps s [] rfl pk hk t ht
    have ihk := ih hbk hk (fun s' hs' => hf s' (List.mem_append_left _ hs'))
      (fun pre s' post e pk' hk' t ht => hs pre s' (post ++ [s]) (by rw [e]; simp) pk' hk' t ht)
    have hone := build_sem (Θ := Θ) (cfg := cfg) (env := env) hΘ hC n hvk hbs hbuild hfs hscope_k
    refine hone.trans ?_
    have : (sem Θ cfg env start >>= semSteps Θ cfg env n (steps ++ [s]))
        = ((sem Θ cfg env start >>= semSteps Θ cfg env n steps) >>= semStep Θ cfg env n s) := by
      rw [bind_assoc]
      apply except_bind_congr
      intro t _
      exact semSteps_snoc Θ cfg env n steps s t
    rw [this]
    apply ResEquivC.bind ihk
    intro t t' ht _ htt
    exact semStep_congrC hΘ hC htt hfs hbs (hscope_k t ht)

end DAVerif
