import DAVerif.Proofs.ScopeC
/-!
C07: `replace_leaves` (which rebuilds every node through its builder) is substitution, semantically: the
rebuilt pipeline evaluates – up to row and column order – to the original pipeline in the environment in which
every replaced table is bound to the result of its replacement.
-/
namespace DAVerif

variable {Θ : Interp} {cfg : SemCfg} {env : Env}

/-- what the replacement map `m` and the environment `env'` must satisfy at a table description `(k, cs)` of the
pipeline: a replaced table is bound in `env'` to the result of its replacement, whose columns are `cs` up to
order; other tables are bound as in `env` -/
def LeafOK (Θ : Interp) (cfg : SemCfg) (env : Env) (m : List (String × Ops)) (env' : Env) (k : String)
    (cs : List String) : Prop :=
  match lookupLast m k with
  | some r => r.valid = true ∧ r.cols.Perm cs ∧ ∃ t, sem Θ cfg env r = .ok t ∧ env'.lookup k = some t
  | none => env'.lookup k = env.lookup k

/-- one unary node of `replace_leaves`: the builder applied to the rebuilt source -/
theorem replace_unary (hΘ : ConvertOK Θ) (hC : ConvertInvariant Θ) {env' : Env} {s s' q p N leaf : Ops}
    {step : Step} (hs'v : s'.valid = true) (hsv : s.valid = true)
    (IH : ResEquivC (sem Θ cfg env s') (sem Θ cfg env' s))
    (hshape : BuildShape s' q leaf step N) (hqv : q.valid = true)
    (hpA : p.srcA = s) (hpB : p.srcB = none) (hpT : ∀ n cs, p ≠ .table n cs) (hNB : N.srcB = none)
    (happ : ∀ ta tb, applyNode Θ cfg N ta tb = applyNode Θ cfg p ta tb)
    (hsc : ∀ rows, NodeScope Θ N rows = NodeScope Θ p rows) (hco : ∀ ca, NodeColsOK N ca = NodeColsOK p ca)
    (hscope : ∀ t', sem Θ cfg env' s = .ok t' → NodeScope Θ p t'.rows) (hcols : NodeColsOK p s.cols) :
    ResEquivC (sem Θ cfg env q) (sem Θ cfg env' p) := by
  -- what the scope and column conditions say on the rebuilt side
  have hside : ∀ t, sem Θ cfg env s' = .ok t → NodeScope Θ p t.rows ∧ NodeColsOK p t.cols := by
    intro t ht
    obtain ⟨t', ht', htt⟩ := IH.of_ok ht
    refine ⟨(hscope t' ht').of_equivC htt.symm, ?_⟩
    have : t'.cols = s.cols := sem_cols hΘ ht'
    exact (this ▸ hcols : NodeColsOK p t'.cols).perm htt.cols_perm.symm
  have A := shape_sem_apply (Θ := Θ) (cfg := cfg) (env := env) hΘ hC hs'v hshape hqv
    (by intro b hb; rw [hNB] at hb; cases hb)
    (fun t ht => by rw [hsc]; exact (hside t ht).1) (fun t ht => by rw [hco]; exact (hside t ht).2)
  refine A.trans ?_
  rw [sem_eq_applyNode_unary Θ hΘ cfg env' p hpB hpT, hpA]
  apply ResEquivC.bind IH
  intro t t' ht _ htt
  simp only [applyStep, hNB, happ]
  exact applyNode_congrC Θ cfg hC p htt htt (hside t ht).1 (hside t ht).2

/-- one join / concat node of `replace_leaves` -/
theorem replace_binary (hΘ : ConvertOK Θ) (hC : ConvertInvariant Θ) {env' : Env} {a a' b b' q p N leaf : Ops}
    {step : Step} (ha'v : a'.valid = true) (hav : a.valid = true) (hb'v : b'.valid = true)
    (IHa : ResEquivC (sem Θ cfg env a') (sem Θ cfg env' a))
    (IHb : ResEquivC (sem Θ cfg env b') (sem Θ cfg env' b))
    (hshape : BuildShape a' q leaf step N) (hqv : q.valid = true)
    (hpA : p.srcA = a) (hpB : p.srcB = some b) (hNB : N.srcB = some b')
    (happ : ∀ ta tb, applyNode Θ cfg N ta tb = applyNode Θ cfg p ta tb)
    (hsc : ∀ rows, NodeScope Θ N rows = NodeScope Θ p rows) (hco : ∀ ca, NodeColsOK N ca = NodeColsOK p ca)
    (hscope : ∀ t', sem Θ cfg env' a = .ok t' → NodeScope Θ p t'.rows) (hcols : NodeColsOK p a.cols) :
    ResEquivC (sem Θ cfg env q) (sem Θ cfg env' p) := by
  have hside : ∀ t, sem Θ cfg env a' = .ok t → NodeScope Θ p t.rows ∧ NodeColsOK p t.cols := by
    intro t ht
    obtain ⟨t', ht', htt⟩ := IHa.of_ok ht
    refine ⟨(hscope t' ht').of_equivC htt.symm, ?_⟩
    have : t'.cols = a.cols := sem_cols hΘ ht'
    exact (this ▸ hcols : NodeColsOK p t'.cols).perm htt.cols_perm.symm
  have A := shape_sem_apply (Θ := Θ) (cfg := cfg) (env := env) hΘ hC ha'v hshape hqv
    (by intro b0 hb0; rw [hNB] at hb0; cases hb0; exact hb'v)
    (fun t ht => by rw [hsc]; exact (hside t ht).1) (fun t ht => by rw [hco]; exact (hside t ht).2)
  refine A.trans ?_
  rw [sem_eq_applyNode_binary Θ hΘ cfg env' p b hpB, hpA]
  apply ResEquivC.bind IHa
  intro ta ta' hta _ htta
  simp only [applyStep, hNB]
  apply ResEquivC.bind IHb
  intro tb tb' _ _ httb
  rw [happ]
  exact applyNode_congrC Θ cfg hC p htta httb (hside ta hta).1 (hside ta hta).2

/-- `replace_leaves` rebuilds an `extend` node with `partition_by=1` when the node is windowed without partition
columns (fix 8e6df35), else with the node's partition columns: in both cases the rebuilt step names the same
partition columns and is windowed exactly when the node was -/
theorem rebuild_flag {s : Ops} {ops : Assign} {part od rv : List String} {w : Bool}
    (h : (Ops.extend s ops part od rv w).valid = true) :
    (if w && part.isEmpty then PartArg.one else PartArg.cols part).cols' = part ∧
    stepWindowed ops (if w && part.isEmpty then PartArg.one else PartArg.cols part) od = w := by
  obtain ⟨_, _, _, hflag⟩ := extend_nodeOk h
  cases hw : w with
  | false =>
    rw [hw] at hflag
    simp only [Bool.false_and, Bool.false_eq_true, if_false, PartArg.cols', stepWindowed, true_and]
    cases hi : (impliesWindowed ops || !part.isEmpty || !od.isEmpty) with
    | false => rfl
    | true => exact absurd (hflag hi) (by simp)
  | true =>
    cases hp : part.isEmpty with
    | true =>
      simp only [Bool.and_self, if_true, PartArg.cols', stepWindowed, Bool.or_true, Bool.true_or, and_true]
      exact (List.isEmpty_iff.mp hp).symm
    | false =>
      simp only [Bool.and_false, Bool.false_eq_true, if_false, PartArg.cols', stepWindowed, hp, Bool.not_false,
        Bool.or_true, Bool.true_or, and_self]

theorem mapRemap_canon (mp : List (String × String)) (ds : List String) :
    mapRemap (mp.map (fun kv => (kv.1, some kv.2)) ++ ds.map (fun d => (d, none))) = mp := by
  simp only [mapRemap, List.filterMap_append, List.filterMap_map]
  have h1 : List.filterMap ((fun (kv : String × Option String) => Option.map (fun v => (kv.1, v)) kv.2) ∘
      fun (kv : String × String) => (kv.1, some kv.2)) mp = mp := by
    induction mp with
    | nil => rfl
    | cons a l ih => simp only [List.filterMap_cons, Function.comp, Option.map_some]; rw [ih]
  have h2 : List.filterMap ((fun (kv : String × Option String) => Option.map (fun v => (kv.1, v)) kv.2) ∘
      fun (d : String) => (d, (none : Option String))) ds = [] := by
    induction ds with
    | nil => rfl
    | cons a l ih => simp only [List.filterMap_cons, Function.comp, Option.map_none]; exact ih
  rw [h1, h2, List.append_nil]

theorem mapDels_canon (mp : List (String × String)) (ds : List String) :
    mapDels (mp.map (fun kv => (kv.1, some kv.2)) ++ ds.map (fun d => (d, none))) = ds := by
  simp only [mapDels, List.filter_append, List.map_append]
  have h1 : (List.filter (fun (kv : String × Option String) => kv.2.isNone)
      (mp.map (fun kv => (kv.1, some kv.2)))) = [] := by
    rw [List.filter_eq_nil_iff]
    intro a ha
    obtain ⟨kv, _, rfl⟩ := List.mem_map.mp ha
    simp
  have h2 : (List.filter (fun (kv : String × Option String) => kv.2.isNone)
      (ds.map (fun d => (d, (none : Option String))))) = ds.map (fun d => (d, none)) := by
    rw [List.filter_eq_self]
    intro a ha
    obtain ⟨d, _, rfl⟩ := List.mem_map.mp ha
    rfl
  rw [h1, h2, List.map_nil, List.nil_append, List.map_map]
  exact List.map_id' _

theorem parse_toStr (t : JoinType) : JoinType.parse t.toStr = some t := by
  cases t <;> decide +kernel

/-- **`replace_leaves` is substitution** (valid pipelines): if `replace_leaves m p` succeeds, the rebuilt pipeline
is valid and evaluates in `env` – up to row and column order – to `p` in the environment `env'` that binds every
replaced table to the result of its replacement (`LeafOK`), under C18's scope conditions for `p` on `env'`. -/
theorem replaceLeaves_sem (hΘ : ConvertOK Θ) (hC : ConvertInvariant Θ) {m : List (String × Ops)} {env' : Env}
    (p : Ops) : p.valid = true → (∀ kc ∈ p.tables, LeafOK Θ cfg env m env' kc.1 kc.2) →
    AggsOrderFree Θ p → WindowsTotal Θ cfg env' p → ∀ q, Ops.replaceLeaves m p = .ok q →
    q.valid = true ∧ ResEquivC (sem Θ cfg env q) (sem Θ cfg env' p) := by
  induction p with
  | table k cs =>
    intro hv hl _ _ q hq
    have hleaf := hl (k, cs) (by simp [Ops.tables])
    simp only [LeafOK] at hleaf
    simp only [Ops.replaceLeaves] at hq
    have hcs : cs.Nodup := nodupB_iffC.mp hv
    cases hm : lookupLast m k with
    | none =>
      rw [hm] at hq hleaf
      cases hq
      refine ⟨hv, ?_⟩
      have : sem Θ cfg env (.table k cs) = sem Θ cfg env' (.table k cs) := by simp only [sem, hleaf]
      exact ResEquivC.of_eq this (fun t ht => sem_wf_nodup hΘ hv ht)
    | some r =>
      rw [hm] at hq hleaf
      cases hq
      obtain ⟨hrv, hperm, t, ht, hlook⟩ := hleaf
      refine ⟨hrv, ?_⟩
      have hwn := sem_wf_nodup hΘ hrv ht
      have hc : t.cols = q.cols := sem_cols hΘ ht
      have hsub : subset cs t.cols = true :=
        subset_iffC.mpr (fun c hcc => by rw [hc]; exact hperm.mem_iff.mpr hcc)
      simp only [sem, ht, hlook, hsub, if_true]
      exact (Table.EquivC.selectCols_left hwn.1 hcs (hc ▸ hperm.symm)).symm
  | extend s ops part od rv w ih =>
    intro hv hl hA hW q hq
    have hsv := Ops.valid_srcA (p := .extend s ops part od rv w) hv
    simp only [Ops.replaceLeaves] at hq
    obtain ⟨s', hs', hq2⟩ := except_bind_eq_ok.mp hq
    obtain ⟨hs'v, IH⟩ := ih hsv hl hA hW.1 s' hs'
    obtain ⟨hpc, hpw⟩ := rebuild_flag hv
    have hn := Ops.valid_nodeOk hv
    have hne : ops.isEmpty = false := by
      simp only [Ops.nodeOk, Bool.and_eq_true] at hn
      simpa using hn.1.1.1.1.1.1.1.1.1.1.1
    rw [extendParsed_stripC _ _ _ _ _ hne] at hq2
    obtain ⟨u, hchk, htop⟩ := except_bind_eq_ok.mp hq2
    have hqv : q.valid = true :=
      valid_extendTop (Ops.valid_strip hs'v) hne (extendChecks_front hchk) (Ops.strip_not_trivial _) htop
    refine ⟨hqv, ?_⟩
    refine replace_unary (leaf := .table "" []) hΘ hC hs'v hsv IH
      (.extend ops _ od rv rfl hne htop rfl) hqv rfl rfl (by intro _ _ h; cases h) rfl ?_ ?_ ?_
      (fun t' ht' hw => hW.2 hw t' ht') trivial
    · intro ta tb; rw [hpc, hpw]; rfl
    · intro rows; rw [hpc, hpw]; rfl
    · intro ca; rfl
  | project s ops g ih =>
    intro hv hl hA hW q hq
    have hsv := Ops.valid_srcA (p := .project s ops g) hv
    simp only [Ops.replaceLeaves] at hq
    obtain ⟨s', hs', hq2⟩ := except_bind_eq_ok.mp hq
    obtain ⟨hs'v, IH⟩ := ih hsv hl hA.1 hW s' hs'
    rw [projectParsed_stripC] at hq2
    obtain ⟨u, hchk, hmk⟩ := except_bind_eq_ok.mp hq2
    have hqv : q.valid = true := valid_mkProject (Ops.valid_strip hs'v) (projectChecks_front hchk) hmk
    rw [mkProject_eq] at hmk
    obtain ⟨_, hpchk, hq3⟩ := except_bind_eq_ok.mp hmk
    cases hq3
    refine ⟨hqv, ?_⟩
    have hg : g.Nodup := by
      simp only [projectChk, ok?_bind_eq_ok] at hpchk
      exact nodupB_iffC.mp hpchk.2.1
    exact replace_unary (leaf := .table "" []) (step := .project ops g) (N := .project (.table "" []) ops g)
      hΘ hC hs'v hsv IH (.plain rfl (by intro _ _ h; cases h)) hqv rfl rfl (by intro _ _ h; cases h) rfl
      (fun _ _ => rfl) (fun _ => rfl) (fun _ => rfl) (fun _ _ => hA.2) hg
  | selectRows s e ih =>
    intro hv hl hA hW q hq
    have hsv := Ops.valid_srcA (p := .selectRows s e) hv
    simp only [Ops.replaceLeaves] at hq
    obtain ⟨s', hs', hq2⟩ := except_bind_eq_ok.mp hq
    obtain ⟨hs'v, IH⟩ := ih hsv hl hA hW s' hs'
    rw [selectRowsB_strip] at hq2
    cases hq2
    have hqv : (Ops.selectRows s'.strip e).valid = true := by
      simp only [Ops.valid, Ops.nodeOk, Ops.valid_strip hs'v, Bool.and_self]
    refine ⟨hqv, ?_⟩
    exact replace_unary (leaf := .table "" []) (step := .selectRows (some e))
      (N := .selectRows (.table "" []) e)
      hΘ hC hs'v hsv IH (.plain rfl (by intro _ _ h; cases h)) hqv rfl rfl (by intro _ _ h; cases h) rfl
      (fun _ _ => rfl) (fun _ => rfl) (fun _ => rfl) (fun _ _ => trivial) trivial
  | selectCols s cs ih =>
    intro hv hl hA hW q hq
    have hsv := Ops.valid_srcA (p := .selectCols s cs) hv
    simp only [Ops.replaceLeaves] at hq
    obtain ⟨s', hs', hq2⟩ := except_bind_eq_ok.mp hq
    obtain ⟨hs'v, IH⟩ := ih hsv hl hA hW s' hs'
    have hqv : q.valid = true := valid_build hs'v (fun b hb => by cases hb) hq2
    simp only [build] at hq2
    obtain ⟨_, _, hsel⟩ := except_bind_eq_ok.mp hq2
    refine ⟨hqv, ?_⟩
    have hn := Ops.valid_nodeOk hv
    simp only [Ops.nodeOk, isOk_unit, selectChk, ok?_bind_eq_ok, ok?_eq_ok] at hn
    exact replace_unary (leaf := .table "" []) (N := .selectCols (.table "" []) cs)
      hΘ hC hs'v hsv IH (.select cs rfl hsel rfl) hqv rfl rfl (by intro _ _ h; cases h) rfl
      (fun _ _ => rfl) (fun _ => rfl) (fun _ => rfl) (fun _ _ => trivial)
      ⟨nodupB_iffC.mp hn.2.2, subset_iffC.mp hn.2.1⟩
  | dropCols s ds ih =>
    intro hv hl hA hW q hq
    have hsv := Ops.valid_srcA (p := .dropCols s ds) hv
    simp only [Ops.replaceLeaves] at hq
    obtain ⟨s', hs', hq2⟩ := except_bind_eq_ok.mp hq
    obtain ⟨hs'v, IH⟩ := ih hsv hl hA hW s' hs'
    have hqv : q.valid = true := valid_build hs'v (fun b hb => by cases hb) hq2
    have hn := Ops.valid_nodeOk hv
    simp only [Ops.nodeOk, Bool.and_eq_true] at hn
    have hne : ds.isEmpty = false := by simpa using hn.1
    simp only [build, hne, Bool.false_eq_true, if_false] at hq2
    rw [dropColsB_strip, mkDropCols_eq] at hq2
    obtain ⟨_, _, hq3⟩ := except_bind_eq_ok.mp hq2
    cases hq3
    refine ⟨hqv, ?_⟩
    exact replace_unary (leaf := .table "" []) (step := .dropCols ds) (N := .dropCols (.table "" []) ds)
      hΘ hC hs'v hsv IH (.plain rfl (by intro _ _ h; cases h)) hqv rfl rfl (by intro _ _ h; cases h) rfl
      (fun _ _ => rfl) (fun _ => rfl) (fun _ => rfl) (fun _ _ => trivial) trivial
  | order s cs rv lim ih =>
    intro hv hl hA hW q hq
    have hsv := Ops.valid_srcA (p := .order s cs rv lim) hv
    simp only [Ops.replaceLeaves] at hq
    obtain ⟨s', hs', hq2⟩ := except_bind_eq_ok.mp hq
    obtain ⟨hs'v, IH⟩ := ih hsv hl hA hW.1 s' hs'
    have hqv : q.valid = true := valid_build hs'v (fun b hb => by cases hb) hq2
    have hn := Ops.valid_nodeOk hv
    simp only [Ops.nodeOk, Bool.and_eq_true] at hn
    have hne : (cs.isEmpty && lim.isNone) = false := by
      have := hn.1
      cases hh : (cs.isEmpty && lim.isNone) <;> simp_all
    simp only [build, hne, Bool.false_eq_true, if_false] at hq2
    rw [orderB_strip, mkOrder_eq] at hq2
    obtain ⟨_, _, hq3⟩ := except_bind_eq_ok.mp hq2
    cases hq3
    refine ⟨hqv, ?_⟩
    refine replace_unary (leaf := .table "" []) (step := .order cs rv lim) (N := .order (.table "" []) cs rv lim)
      hΘ hC hs'v hsv IH (.plain rfl (by intro _ _ h; cases h)) hqv rfl rfl (by intro _ _ h; cases h) rfl
      (fun _ _ => rfl) (fun _ => ?_) (fun _ => rfl) ?_ trivial
    · cases lim <;> rfl
    · intro t' ht'
      cases lim with
      | none => trivial
      | some n => exact hW.2 n rfl t' ht'
  | rename s mp ih =>
    intro hv hl hA hW q hq
    have hsv := Ops.valid_srcA (p := .rename s mp) hv
    simp only [Ops.replaceLeaves] at hq
    obtain ⟨s', hs', hq2⟩ := except_bind_eq_ok.mp hq
    obtain ⟨hs'v, IH⟩ := ih hsv hl hA hW s' hs'
    have hqv : q.valid = true := valid_build hs'v (fun b hb => by cases hb) hq2
    have hn := Ops.valid_nodeOk hv
    simp only [Ops.nodeOk, Bool.and_eq_true, isOk_unit, renameChk, ok?_bind_eq_ok, ok?_eq_ok] at hn
    have hne : mp.isEmpty = false := by simpa using hn.1
    simp only [build, hne, Bool.false_eq_true, if_false] at hq2
    rw [renameB_strip, mkRename_eq] at hq2
    obtain ⟨_, _, hq3⟩ := except_bind_eq_ok.mp hq2
    cases hq3
    refine ⟨hqv, ?_⟩
    exact replace_unary (leaf := .table "" []) (step := .rename mp) (N := .rename (.table "" []) mp)
      hΘ hC hs'v hsv IH (.plain rfl (by intro _ _ h; cases h)) hqv rfl rfl (by intro _ _ h; cases h) rfl
      (fun _ _ => rfl) (fun _ => rfl) (fun _ => rfl) (fun _ _ => trivial) (nodupB_iffC.mp hn.2.2.2)
  | mapCols s mp ds ih =>
    intro hv hl hA hW q hq
    have hsv := Ops.valid_srcA (p := .mapCols s mp ds) hv
    simp only [Ops.replaceLeaves] at hq
    obtain ⟨s', hs', hq2⟩ := except_bind_eq_ok.mp hq
    obtain ⟨hs'v, IH⟩ := ih hsv hl hA hW s' hs'
    have hqv : q.valid = true := valid_build hs'v (fun b hb => by cases hb) hq2
    have hn := Ops.valid_nodeOk hv
    simp only [Ops.nodeOk, Bool.and_eq_true, isOk_unit, mapNodeChk, ok?_bind_eq_ok, ok?_eq_ok] at hn
    have hne : (mp.map (fun kv => (kv.1, some kv.2)) ++ ds.map (fun d => (d, (none : Option String)))).isEmpty
        = false := by
      have := hn.1
      cases mp <;> cases ds <;> simp_all
    simp only [build, hne, Bool.false_eq_true, if_false] at hq2
    rw [mapColsB_strip, mkMapCols_eq, mapRemap_canon, mapDels_canon] at hq2
    obtain ⟨_, _, hq3⟩ := except_bind_eq_ok.mp hq2
    cases hq3
    refine ⟨hqv, ?_⟩
    exact replace_unary (leaf := .table "" []) (step := .mapCols []) (N := .mapCols (.table "" []) mp ds)
      hΘ hC hs'v hsv IH (.plain rfl (by intro _ _ h; cases h)) hqv rfl rfl (by intro _ _ h; cases h) rfl
      (fun _ _ => rfl) (fun _ => rfl) (fun _ => rfl) (fun _ _ => trivial) (nodupB_iffC.mp hn.2.2.2.2)
  | convert s rm ih =>
    intro hv hl hA hW q hq
    have hsv := Ops.valid_srcA (p := .convert s rm) hv
    simp only [Ops.replaceLeaves] at hq
    obtain ⟨s', hs', hq2⟩ := except_bind_eq_ok.mp hq
    obtain ⟨hs'v, IH⟩ := ih hsv hl hA hW s' hs'
    have hqv : q.valid = true := valid_build hs'v (fun b hb => by cases hb) hq2
    have hn := Ops.valid_nodeOk hv
    simp only [Ops.nodeOk, isOk_unit, convertChk, ok?_bind_eq_ok, ok?_eq_ok] at hn
    simp only [build] at hq2
    rw [convertB_strip, mkConvert_eq] at hq2
    obtain ⟨_, _, hq3⟩ := except_bind_eq_ok.mp hq2
    cases hq3
    refine ⟨hqv, ?_⟩
    exact replace_unary (leaf := .table "" []) (step := .convert (some rm)) (N := .convert (.table "" []) rm)
      hΘ hC hs'v hsv IH (.plain rfl (by intro _ _ h; cases h)) hqv rfl rfl (by intro _ _ h; cases h) rfl
      (fun _ _ => rfl) (fun _ => rfl) (fun _ => rfl) (fun _ _ => trivial) (nodupB_iffC.mp hn.2.2)
  | join a b oa ob jt iha ihb =>
    intro hv hl hA hW q hq
    have hav : a.valid = true := by simp only [Ops.valid, Bool.and_eq_true] at hv; exact hv.1.2
    have hbv : b.valid = true := by simp only [Ops.valid, Bool.and_eq_true] at hv; exact hv.2
    simp only [Ops.replaceLeaves] at hq
    obtain ⟨a', ha', hq1⟩ := except_bind_eq_ok.mp hq
    obtain ⟨b', hb', hq2⟩ := except_bind_eq_ok.mp hq1
    obtain ⟨ha'v, IHa⟩ := iha hav
      (fun kc hkc => hl kc (by simp only [Ops.tables, List.mem_append]; exact Or.inl hkc)) hA.1 hW.1 a' ha'
    obtain ⟨hb'v, IHb⟩ := ihb hbv
      (fun kc hkc => hl kc (by simp only [Ops.tables, List.mem_append]; exact Or.inr hkc)) hA.2 hW.2 b' hb'
    have hqv : q.valid = true := valid_build ha'v (fun b0 hb0 => by
      simp only [Step.argOps, List.mem_singleton] at hb0; rw [hb0]; exact hb'v) hq2
    simp only [build] at hq2
    rw [joinB_strip, mkJoin_eq] at hq2
    obtain ⟨t, hchk, hq3⟩ := except_bind_eq_ok.mp hq2
    cases hq3
    simp only [joinChk, ok?_bind_eq_ok, parse_toStr] at hchk
    obtain ⟨_, _, _, _, _, _, ht⟩ := hchk
    cases ht
    refine ⟨hqv, ?_⟩
    exact replace_binary (leaf := .table "" []) (step := .join b' oa ob jt.toStr false)
      (N := .join (.table "" []) b' oa ob jt)
      hΘ hC ha'v hav hb'v IHa IHb (.plain rfl (by intro _ _ h; cases h)) hqv rfl rfl rfl
      (fun _ _ => rfl) (fun _ => rfl) (fun _ => rfl) (fun _ _ => trivial) trivial
  | concat a b idc an bn iha ihb =>
    intro hv hl hA hW q hq
    have hav : a.valid = true := by simp only [Ops.valid, Bool.and_eq_true] at hv; exact hv.1.2
    have hbv : b.valid = true := by simp only [Ops.valid, Bool.and_eq_true] at hv; exact hv.2
    simp only [Ops.replaceLeaves] at hq
    obtain ⟨a', ha', hq1⟩ := except_bind_eq_ok.mp hq
    obtain ⟨b', hb', hq2⟩ := except_bind_eq_ok.mp hq1
    obtain ⟨ha'v, IHa⟩ := iha hav
      (fun kc hkc => hl kc (by simp only [Ops.tables, List.mem_append]; exact Or.inl hkc)) hA.1 hW.1 a' ha'
    obtain ⟨hb'v, IHb⟩ := ihb hbv
      (fun kc hkc => hl kc (by simp only [Ops.tables, List.mem_append]; exact Or.inr hkc)) hA.2 hW.2 b' hb'
    have hqv : q.valid = true := valid_build ha'v (fun b0 hb0 => by
      simp only [Step.argOps, List.mem_singleton] at hb0; rw [hb0]; exact hb'v) hq2
    simp only [build] at hq2
    rw [concatB_strip, mkConcat_eq] at hq2
    obtain ⟨_, _, hq3⟩ := except_bind_eq_ok.mp hq2
    cases hq3
    refine ⟨hqv, ?_⟩
    have hcc := Ops.valid_cols_nodup hv
    rw [cols_concat] at hcc
    exact replace_binary (leaf := .table "" []) (step := .concat (some b') idc an bn)
      (N := .concat (.table "" []) b' idc an bn)
      hΘ hC ha'v hav hb'v IHa IHb (.plain rfl (by intro _ _ h; cases h)) hqv rfl rfl rfl
      (fun _ _ => rfl) (fun _ => rfl) (fun _ => rfl) (fun _ _ => trivial) hcc

end DAVerif
