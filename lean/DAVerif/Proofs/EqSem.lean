import DAVerif.Proofs.EqOps
import DAVerif.Sem.Eval
/-! Lemmas for C11, semantics: `sem` does not look at the `method` flags (`sem` factors through `erase`). -/
namespace DAVerif

/-- outcomes of `sem` can be compared by evaluation (for the concrete counterexamples) -/
instance decEqOutcome : DecidableEq (Except Err Table) := fun a b =>
  match a, b with
  | .ok x, .ok y => if h : x = y then isTrue (congrArg _ h) else isFalse (fun e => h (Except.ok.inj e))
  | .error x, .error y => if h : x = y then isTrue (congrArg _ h) else isFalse (fun e => h (Except.error.inj e))
  | .ok _, .error _ => isFalse (fun e => by cases e)
  | .error _, .ok _ => isFalse (fun e => by cases e)

mutual
theorem evalTerm_erase (Θ : Interp) (r : Row) : ∀ t : Term, evalTerm Θ r t.erase = evalTerm Θ r t
  | .value _ => rfl
  | .col _ => rfl
  | .list _ => rfl
  | .dict _ => rfl
  | .app op args i m => by simp [Term.erase, evalTerm, evalArgs_erase Θ r args]
theorem evalArgs_erase (Θ : Interp) (r : Row) : ∀ ts : List Term,
    evalArgs Θ r (Term.eraseList ts) = evalArgs Θ r ts
  | [] => rfl
  | t :: ts => by simp [Term.eraseList, evalArgs, evalTerm_erase Θ r t, evalArgs_erase Θ r ts]
end

theorem evalCell_erase (Θ : Interp) (r : Row) (t : Term) : evalCell Θ r t.erase = evalCell Θ r t := by
  simp [evalCell, evalTerm_erase]

theorem opName_erase (t : Term) : opName t.erase = opName t := by
  cases t <;> simp [Term.erase, opName]

theorem eraseList_eq_map (ts : List Term) : Term.eraseList ts = ts.map Term.erase := by
  induction ts <;> simp_all [Term.eraseList]

theorem argValues_erase (t : Term) (rows : List Row) : argValues t.erase rows = argValues t rows := by
  cases t with
  | app op args i m =>
    cases args with
    | nil => simp [Term.erase, Term.eraseList, argValues]
    | cons a as => cases a <;> simp [Term.erase, Term.eraseList, argValues]
  | _ => simp [Term.erase, argValues]

theorem constArgs_erase (t : Term) : constArgs t.erase = constArgs t := by
  cases t with
  | app op args i m =>
    cases args with
    | nil => simp [Term.erase, Term.eraseList, constArgs]
    | cons a as =>
      simp only [Term.erase, Term.eraseList, constArgs, eraseList_eq_map, List.map_map]
      apply List.map_congr_left
      intro x _
      cases x <;> simp [Term.erase]
  | _ => simp [Term.erase, constArgs]

theorem semExtendPlain_erase (Θ : Interp) (ops : Assign) (t : Table) (out : List String) :
    semExtendPlain Θ (eraseAssign ops) t out = semExtendPlain Θ ops t out := by
  simp [semExtendPlain, eraseAssign, List.map_map, Function.comp_def, evalCell_erase]

theorem semExtendWindow_erase (Θ : Interp) (ops : Assign) (p o rv : List String) (t : Table) (out : List String) :
    semExtendWindow Θ (eraseAssign ops) p o rv t out = semExtendWindow Θ ops p o rv t out := by
  simp [semExtendWindow, eraseAssign, List.map_map, Function.comp_def, opName_erase, argValues_erase,
    constArgs_erase]

theorem semProject_erase (Θ : Interp) (ops : Assign) (g : List String) (t : Table) (out : List String) :
    semProject Θ (eraseAssign ops) g t out = semProject Θ ops g t out := by
  simp [semProject, eraseAssign, List.map_map, Function.comp_def, opName_erase, argValues_erase]

theorem semSelectRows_erase (Θ : Interp) (e : Term) (t : Table) :
    semSelectRows Θ e.erase t = semSelectRows Θ e t := by
  simp [semSelectRows, evalCell_erase]

/-- `sem` factors through `erase`. -/
theorem sem_erase (Θ : Interp) (cfg : SemCfg) (env : Env) : ∀ p : Ops,
    sem Θ cfg env p.erase = sem Θ cfg env p := by
  intro p
  induction p with
  | table n cs => rfl
  | extend s ops pt od rv w ih =>
    have hc := Ops.cols_erase (.extend s ops pt od rv w)
    simp only [Ops.erase] at hc
    simp only [Ops.erase, sem, ih, hc, semExtendPlain_erase, semExtendWindow_erase]
  | project s ops g ih =>
    have hc := Ops.cols_erase (.project s ops g)
    simp only [Ops.erase] at hc
    simp only [Ops.erase, sem, ih, hc, semProject_erase]
  | selectRows s e ih => simp only [Ops.erase, sem, ih, semSelectRows_erase]
  | selectCols s cs ih => simp only [Ops.erase, sem, ih]
  | dropCols s ds ih =>
    have hc := Ops.cols_erase (.dropCols s ds)
    simp only [Ops.erase] at hc
    simp only [Ops.erase, sem, ih, hc]
  | order s cs rv lim ih => simp only [Ops.erase, sem, ih]
  | rename s m ih =>
    have hc := Ops.cols_erase (.rename s m)
    simp only [Ops.erase] at hc
    simp only [Ops.erase, sem, ih, hc]
  | mapCols s m ds ih =>
    have hc := Ops.cols_erase (.mapCols s m ds)
    simp only [Ops.erase] at hc
    simp only [Ops.erase, sem, ih, hc]
  | join a b oa ob t iha ihb =>
    have hc := Ops.cols_erase (.join a b oa ob t)
    simp only [Ops.erase] at hc
    simp only [Ops.erase, sem, iha, ihb, hc, Ops.cols_erase]
  | concat a b idc an bn iha ihb =>
    have hc := Ops.cols_erase (.concat a b idc an bn)
    simp only [Ops.erase] at hc
    simp only [Ops.erase, sem, iha, ihb, hc]
  | convert s rm ih => simp only [Ops.erase, sem, ih]

end DAVerif
