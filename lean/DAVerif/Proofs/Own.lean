import DAVerif.Heap.Own
/-!
# Lemmas about the frame-ownership model (`Heap/Own.lean`)  — used by `Props/C19.lean`

Part 1: what any run of the executor does to a heap (`Ext`): it only appends frames, never touches a position below
the heap size at the start, and its event log is well-formed (`replay`).
-/
namespace DAVerif.Own

/-! ## Well-formed event logs -/

/-- Replay an event list against a heap of size `n`: an allocation must take exactly the next position, a write
or a return must name an existing position.  Result: the final size, or `none` if the list is ill-formed. -/
def replay : Nat → List Ev → Option Nat
  | n, [] => some n
  | n, .alloc id _ :: es => if id = n then replay (n + 1) es else none
  | n, .write _ id _ :: es => if id < n then replay n es else none
  | n, .ret id _ :: es => if id < n then replay n es else none

theorem replay_append (n : Nat) (a b : List Ev) :
    replay n (a ++ b) = (replay n a).bind fun m => replay m b := by
  induction a generalizing n with
  | nil => simp [replay]
  | cons e a ih =>
    cases e with
    | alloc id w => simp only [List.cons_append, replay]; split <;> simp [ih]
    | write k id c => simp only [List.cons_append, replay]; split <;> simp [ih]
    | ret id f => simp only [List.cons_append, replay]; split <;> simp [ih]

theorem replay_le {n m : Nat} {evs : List Ev} (h : replay n evs = some m) : n ≤ m := by
  induction evs generalizing n with
  | nil => simp [replay] at h; omega
  | cons e evs ih =>
    cases e with
    | alloc id w =>
      simp only [replay] at h; split at h
      · have := ih h; omega
      · cases h
    | write k id c =>
      simp only [replay] at h; split at h
      · exact ih h
      · cases h
    | ret id f =>
      simp only [replay] at h; split at h
      · exact ih h
      · cases h

/-- in a well-formed log every position between the start size and the final size has its allocation event -/
theorem replay_alloc_mem {n m : Nat} {evs : List Ev} (h : replay n evs = some m) (id : Nat)
    (h1 : n ≤ id) (h2 : id < m) : ∃ w, Ev.alloc id w ∈ evs := by
  induction evs generalizing n with
  | nil => simp [replay] at h; omega
  | cons e evs ih =>
    cases e with
    | alloc id' w =>
      simp only [replay] at h; split at h
      · rename_i he
        by_cases hid : id = n
        · exact ⟨w, by simp [he, hid]⟩
        · obtain ⟨w', hw'⟩ := ih h (by omega)
          exact ⟨w', List.mem_cons_of_mem _ hw'⟩
      · cases h
    | write k id' c =>
      simp only [replay] at h; split at h
      · obtain ⟨w', hw'⟩ := ih h h1
        exact ⟨w', List.mem_cons_of_mem _ hw'⟩
      · cases h
    | ret id' f =>
      simp only [replay] at h; split at h
      · obtain ⟨w', hw'⟩ := ih h h1
        exact ⟨w', List.mem_cons_of_mem _ hw'⟩
      · cases h

/-- in a well-formed log a write (or return) event names a position that exists at that moment -/
theorem replay_split_lt {n m : Nat} {pre post : List Ev} {e : Ev} (h : replay n (pre ++ e :: post) = some m) :
    ∃ n', replay n pre = some n' ∧
      (∀ k id c, e = .write k id c → id < n') ∧ (∀ id f, e = .ret id f → id < n') := by
  rw [replay_append] at h
  cases hp : replay n pre with
  | none => simp [hp] at h
  | some n' =>
    refine ⟨n', rfl, ?_, ?_⟩
    · intro k id c he
      subst he
      simp only [hp, Option.bind_some, replay] at h
      split at h
      · assumption
      · cases h
    · intro id f he
      subst he
      simp only [hp, Option.bind_some, replay] at h
      split at h
      · assumption
      · cases h

/-! ## `Ext b s s'`: `s'` extends `s` without touching positions below `b` -/

def WritesGE (b : Nat) (evs : List Ev) : Prop := ∀ k id c, Ev.write k id c ∈ evs → b ≤ id
def RetsGE (b : Nat) (evs : List Ev) : Prop := ∀ id f, Ev.ret id f ∈ evs → b ≤ id

structure Ext (b : Nat) (s s' : St) : Prop where
  ex : ∃ new, s'.log = s.log ++ new ∧ replay s.heap.length new = some s'.heap.length ∧
        WritesGE b new ∧ RetsGE b new
  keep : s'.heap.take b = s.heap.take b

theorem Ext.refl (b : Nat) (s : St) : Ext b s s := by
  refine ⟨⟨[], by simp, by simp [replay], ?_, ?_⟩, rfl⟩
  · intro k id c h; cases h
  · intro id f h; cases h

theorem Ext.len_le {b : Nat} {s s' : St} (h : Ext b s s') : s.heap.length ≤ s'.heap.length := by
  obtain ⟨new, _, hr, _⟩ := h.ex
  exact replay_le hr

theorem Ext.trans {b : Nat} {s s1 s2 : St} (h1 : Ext b s s1) (h2 : Ext b s1 s2) : Ext b s s2 := by
  obtain ⟨n1, hl1, hr1, hw1, ht1⟩ := h1.ex
  obtain ⟨n2, hl2, hr2, hw2, ht2⟩ := h2.ex
  refine ⟨⟨n1 ++ n2, ?_, ?_, ?_, ?_⟩, ?_⟩
  · rw [hl2, hl1, List.append_assoc]
  · rw [replay_append, hr1]; simpa using hr2
  · intro k id c hm
    rcases List.mem_append.mp hm with hm | hm
    · exact hw1 k id c hm
    · exact hw2 k id c hm
  · intro id f hm
    rcases List.mem_append.mp hm with hm | hm
    · exact ht1 id f hm
    · exact ht2 id f hm
  · rw [h2.keep, h1.keep]

theorem Ext.mono {b b' : Nat} {s s' : St} (hb : b' ≤ b) (h : Ext b s s') : Ext b' s s' := by
  obtain ⟨n1, hl1, hr1, hw1, ht1⟩ := h.ex
  refine ⟨⟨n1, hl1, hr1, ?_, ?_⟩, ?_⟩
  · intro k id c hm; exact Nat.le_trans hb (hw1 k id c hm)
  · intro id f hm; exact Nat.le_trans hb (ht1 id f hm)
  · have := congrArg (List.take b') h.keep
    simpa [List.take_take, Nat.min_eq_left hb] using this

/-! ## Registers resolve to source results or to frames allocated by the step -/

theorem resolve_spec {b base len : Nat} {srcIds : List FrameId} {r : Reg} {id : FrameId}
    (hsrc : ∀ i ∈ srcIds, b ≤ i) (hb : b ≤ base) (h : resolve base srcIds len r = some id) :
    b ≤ id ∧ id < len := by
  cases r with
  | src i =>
    simp only [resolve] at h
    split at h
    · rename_i id' hi
      split at h
      · cases h
        exact ⟨hsrc _ (List.mem_of_getElem? hi), by assumption⟩
      · cases h
    · cases h
  | loc n =>
    simp only [resolve] at h
    split at h
    · cases h; exact ⟨by omega, by assumption⟩
    · cases h

/-- performing any effect list: writes go to source results (`≥ b`) or to frames allocated by the step -/
theorem commit_ext {b base : Nat} {srcIds : List FrameId} (hsrc : ∀ i ∈ srcIds, b ≤ i) (hb : b ≤ base)
    (effs : List Eff) (s : St) (hs : base ≤ s.heap.length) :
    Ext b s (commit base srcIds effs s).2 := by
  induction effs generalizing s with
  | nil => exact Ext.refl b s
  | cons e es ih =>
    cases e with
    | alloc w f =>
      simp only [commit]
      refine Ext.trans ?_ (ih _ (by simp; omega))
      refine ⟨⟨[.alloc s.heap.length w], rfl, by simp [replay], ?_, ?_⟩, ?_⟩
      · intro k id c hm; simp at hm
      · intro id f hm; simp at hm
      · exact List.take_append_of_le_length (by omega)
    | write k r c f =>
      simp only [commit]
      split
      · rename_i id hres
        obtain ⟨h1, h2⟩ := resolve_spec hsrc hb hres
        refine Ext.trans ?_ (ih _ (by simpa using hs))
        refine ⟨⟨[.write k id c], rfl, by simp [replay, h2], ?_, ?_⟩, ?_⟩
        · intro k' id' c' hm
          simp at hm
          obtain ⟨_, rfl, _⟩ := hm
          exact h1
        · intro id' f' hm; simp at hm
        · exact List.take_set_of_le h1
      · exact Ext.refl b s

theorem runPlan_ext {b : Nat} {srcIds : List FrameId} (hsrc : ∀ i ∈ srcIds, b ≤ i)
    (fail : Option Fail) (m : B H) (s : St) (hs : b ≤ s.heap.length) :
    Ext b s (runPlan fail srcIds m s).2 ∧
    ∀ id f, (runPlan fail srcIds m s).1 = .ok (id, f) → b ≤ id ∧ id < (runPlan fail srcIds m s).2.heap.length := by
  unfold runPlan
  cases fail with
  | some fl =>
    simp only
    have hc := commit_ext hsrc hs (truncate fl.writes (m 0).2.2) s (Nat.le_refl _)
    split <;> exact ⟨hc, by intro id f h; cases h⟩
  | none =>
    simp only
    have hc := commit_ext hsrc hs (m 0).2.2 s (Nat.le_refl _)
    split
    · split
      · rename_i id hres
        obtain ⟨h1, h2⟩ := resolve_spec hsrc hs hres
        refine ⟨Ext.trans hc ⟨⟨[.ret id (m 0).1.f], rfl, by simp [replay, h2], ?_, ?_⟩, rfl⟩, ?_⟩
        · intro k id' c hm; simp at hm
        · intro id' f' hm
          simp at hm
          obtain ⟨rfl, _⟩ := hm
          exact h1
        · intro id' f' h
          simp only [Except.ok.injEq, Prod.mk.injEq] at h
          obtain ⟨rfl, _⟩ := h
          exact ⟨h1, h2⟩
      · exact ⟨hc, by intro id f h; cases h⟩
    · exact ⟨hc, by intro id f h; cases h⟩

/-- **Main invariant.**  A run of the executor from `s` only appends to the heap, writes only to positions that did
not exist in `s`, and returns a position that did not exist in `s`. -/
theorem exec_ext (ord : Ord) (dm : DataMap) (p : Pipe) (s : St) :
    Ext s.heap.length s (exec ord dm p s).2 ∧
    ∀ id f, (exec ord dm p s).1 = .ok (id, f) →
      s.heap.length ≤ id ∧ id < (exec ord dm p s).2.heap.length := by
  induction p generalizing s with
  | table t =>
    simp only [exec]
    split
    · exact ⟨Ext.refl _ _, by intro id f h; cases h⟩
    · split
      · exact ⟨Ext.refl _ _, by intro id f h; cases h⟩
      · split
        · exact ⟨Ext.refl _ _, by intro id f h; cases h⟩
        · exact runPlan_ext (by intro i hi; cases hi) none _ s (Nat.le_refl _)
  | un k fail src ih =>
    simp only [exec]
    have ih1 := ih s
    split
    · rename_i e s1 he
      rw [he] at ih1
      dsimp only at ih1
      exact ⟨ih1.1, by intro id f h; cases h⟩
    · rename_i r f s1 he
      rw [he] at ih1
      dsimp only at ih1
      obtain ⟨hext, hr⟩ := ih1
      obtain ⟨hr1, hr2⟩ := hr r f rfl
      have hlen := hext.len_le
      have := runPlan_ext (b := s.heap.length) (srcIds := [r]) (by intro i hi; simp at hi; subst hi; exact hr1) fail
        (planUn ord k ⟨.src 0, f⟩) s1 hlen
      exact ⟨Ext.trans hext this.1, this.2⟩
  | bin k fail l r ihl ihr =>
    simp only [exec]
    have ih1 := ihl s
    split
    · rename_i e s1 he
      rw [he] at ih1
      dsimp only at ih1
      exact ⟨ih1.1, by intro id f h; cases h⟩
    · rename_i rl fl s1 he
      rw [he] at ih1
      dsimp only at ih1
      obtain ⟨hext1, hr⟩ := ih1
      obtain ⟨hl1, hl2⟩ := hr rl fl rfl
      have hlen1 := hext1.len_le
      have ih2 := ihr s1
      split
      · rename_i e s2 he2
        rw [he2] at ih2
        dsimp only at ih2
        exact ⟨Ext.trans hext1 (Ext.mono hlen1 ih2.1), by intro id f h; cases h⟩
      · rename_i rr fr s2 he2
        rw [he2] at ih2
        dsimp only at ih2
        obtain ⟨hext2, hr'⟩ := ih2
        obtain ⟨hr1, hr2⟩ := hr' rr fr rfl
        have hext2' := Ext.mono hlen1 hext2
        have hlen2 := hext2.len_le
        have := runPlan_ext (b := s.heap.length) (srcIds := [rl, rr])
          (by intro i hi; simp at hi; rcases hi with rfl | rfl <;> omega) fail
          (planBin ord k ⟨.src 0, fl⟩ ⟨.src 1, fr⟩) s2 (by omega)
        exact ⟨Ext.trans hext1 (Ext.trans hext2' this.1), this.2⟩

end DAVerif.Own
