import DAVerif.Proofs.EquivC
/-!
The operators of `sem` read their input rows only through `Row.get` (on the columns they name): replacing
every input row by a row that reads the same on those columns does not change the result (operators that build
new rows) or commutes with the replacement (operators that pass rows through).
-/
namespace DAVerif

/-- `f` does not change what `get` reads on the columns `U`, for the rows of `rows` -/
def GetEqOn (U : List String) (rows : List Row) (f : Row → Row) : Prop :=
  ∀ r ∈ rows, ∀ c ∈ U, (f r).get c = r.get c

/-- `f` does not change what `get` reads, for the rows of `rows` -/
def GetEq (rows : List Row) (f : Row → Row) : Prop := ∀ r ∈ rows, ∀ c, (f r).get c = r.get c

theorem GetEq.on {rows : List Row} {f : Row → Row} (h : GetEq rows f) (U : List String) : GetEqOn U rows f :=
  fun r hr c _ => h r hr c

/-- re-ordering the columns of a well-formed table -/
theorem getEq_select {t : Table} (hw : t.WF) {cs : List String} (hs : ∀ c, c ∈ cs ↔ c ∈ t.cols) :
    GetEq t.rows (fun r => r.select cs) := fun _ hr c => hw.get_select hs hr c

theorem keyOf_congr {r r' : Row} {cs : List String} (h : ∀ c ∈ cs, r.get c = r'.get c) :
    keyOf r cs = keyOf r' cs := Row.vals_congr h

/-! ### rows built by `setAll … |>.select` -/

theorem select_setAll_congr {r r' : Row} (kvs : List (String × Val)) {oc : List String}
    (h : ∀ c ∈ oc, r.get c = r'.get c) : (r.setAll kvs).select oc = (r'.setAll kvs).select oc :=
  Row.select_congr (fun c hc => by rw [Row.get_setAllC, Row.get_setAllC, h c hc])

/-! ### plain extend -/

theorem semExtendPlain_map (Θ : Interp) (ops : Assign) (cs1 cs2 : List String) (rows : List Row)
    (f : Row → Row) (oc : List String) (h : GetEq rows f) :
    semExtendPlain Θ ops ⟨cs1, rows.map f⟩ oc = semExtendPlain Θ ops ⟨cs2, rows⟩ oc := by
  simp only [semExtendPlain, List.map_map, Table.mk.injEq, true_and]
  apply List.map_congr_left
  intro r hr
  simp only [Function.comp]
  have : ops.map (fun kv => (kv.1, evalCell Θ (f r) kv.2)) = ops.map (fun kv => (kv.1, evalCell Θ r kv.2)) :=
    List.map_congr_left (fun kv _ => by rw [evalCell_congrC Θ kv.2 (fun c _ => h r hr c)])
  rw [this]
  exact select_setAll_congr _ (fun c _ => h r hr c)

theorem semExtendPlain_selectCols (Θ : Interp) (ops : Assign) (t : Table) {oc oc' : List String}
    (h : ∀ c ∈ oc, c ∈ oc') :
    (semExtendPlain Θ ops t oc').selectCols oc = semExtendPlain Θ ops t oc := by
  simp only [semExtendPlain, Table.selectCols, List.map_map, Table.mk.injEq, true_and]
  exact List.map_congr_left (fun r _ => Row.select_select h)

/-! ### windowed extend -/

/-- the value of one window function for the row at position `ri.2` -/
def winVal (Θ : Interp) (p o rv : List String) (idx : List (Row × Nat)) (ri : Row × Nat) (e : Term) : Val :=
  let part := idx.filter (fun rj => keyOf rj.1 p == keyOf ri.1 p)
  let sorted := sortIdx o rv part
  Θ.win (opName e) (constArgs e) (argValues e (sorted.map (·.1))) (sorted.findIdx (fun rj => rj.2 == ri.2))

theorem semExtendWindow_eq (Θ : Interp) (ops : Assign) (p o rv : List String) (t : Table) (oc : List String) :
    semExtendWindow Θ ops p o rv t oc =
      ⟨oc, t.rows.zipIdx.map (fun ri =>
        (ri.1.setAll (ops.map (fun kv => (kv.1, winVal Θ p o rv t.rows.zipIdx ri kv.2)))).select oc)⟩ := rfl

theorem findIdx_congr_mem {α : Type} {l : List α} {p q : α → Bool} (h : ∀ x ∈ l, p x = q x) :
    l.findIdx p = l.findIdx q := by
  induction l with
  | nil => rfl
  | cons a l ih =>
    simp only [List.findIdx_cons, h a (List.mem_cons_self ..)]
    rw [ih (fun x hx => h x (List.mem_cons_of_mem _ hx))]

/-- the window values only depend on what the rows read on the partition, order and argument columns -/
theorem winVal_map (Θ : Interp) (p o rv : List String) (idx : List (Row × Nat)) (h : Row × Nat → Row × Nat)
    (U : List String) (h2 : ∀ x ∈ idx, (h x).2 = x.2) (hU : ∀ x ∈ idx, ∀ c ∈ U, (h x).1.get c = x.1.get c)
    (hp : ∀ c ∈ p, c ∈ U) (ho : ∀ c ∈ o, c ∈ U) (ri : Row × Nat) (hri : ri ∈ idx) (e : Term)
    (he : ∀ c ∈ argCol e, c ∈ U) :
    winVal Θ p o rv (idx.map h) (h ri) e = winVal Θ p o rv idx ri e := by
  have hkey : ∀ x ∈ idx, keyOf (h x).1 p = keyOf x.1 p :=
    fun x hx => keyOf_congr (fun c hc => hU x hx c (hp c hc))
  have hfilter : (idx.map h).filter (fun rj => keyOf rj.1 p == keyOf (h ri).1 p)
      = (idx.filter (fun rj => keyOf rj.1 p == keyOf ri.1 p)).map h := by
    rw [List.filter_map]
    congr 1
    apply List.filter_congr
    intro x hx
    simp only [Function.comp, hkey x hx, hkey ri hri]
  have hsub : ∀ x ∈ idx.filter (fun rj => keyOf rj.1 p == keyOf ri.1 p), x ∈ idx :=
    fun x hx => (List.mem_filter.mp hx).1
  have hsort : sortIdx o rv ((idx.filter (fun rj => keyOf rj.1 p == keyOf ri.1 p)).map h)
      = (sortIdx o rv (idx.filter (fun rj => keyOf rj.1 p == keyOf ri.1 p))).map h := by
    simp only [sortIdx]
    symm
    apply List.map_mergeSort
    intro a ha b hb
    exact rowLe_congr (fun c hc => (hU a (hsub a ha) c (ho c hc)).symm)
      (fun c hc => (hU b (hsub b hb) c (ho c hc)).symm)
  have hsub2 : ∀ x ∈ sortIdx o rv (idx.filter (fun rj => keyOf rj.1 p == keyOf ri.1 p)), x ∈ idx :=
    fun x hx => hsub x ((sortIdx_perm _ _ _).mem_iff.mp hx)
  simp only [winVal, hfilter, hsort]
  congr 1
  · rw [argValues_eq_map, argValues_eq_map]
    simp only [List.map_map]
    apply List.map_congr_left
    intro x hx
    simp only [Function.comp]
    exact argFn_congr e (fun c hc => hU x (hsub2 x hx) c (he c hc))
  · rw [List.findIdx_map]
    apply findIdx_congr_mem
    intro x hx
    simp only [Function.comp, h2 x (hsub2 x hx), h2 ri hri]

theorem zipIdx_map_fn {α β : Type} (l : List α) (f : α → β) :
    (l.map f).zipIdx = l.zipIdx.map (fun x => (f x.1, x.2)) := by
  rw [List.zipIdx_map]
  rfl

theorem semExtendWindow_map (Θ : Interp) (ops : Assign) (p o rv : List String) (cs1 cs2 : List String)
    (rows : List Row) (f : Row → Row) (oc : List String) (h : GetEq rows f) :
    semExtendWindow Θ ops p o rv ⟨cs1, rows.map f⟩ oc = semExtendWindow Θ ops p o rv ⟨cs2, rows⟩ oc := by
  rw [semExtendWindow_eq, semExtendWindow_eq]
  simp only [zipIdx_map_fn, List.map_map, Table.mk.injEq, true_and]
  apply List.map_congr_left
  intro ri hri
  simp only [Function.comp]
  have hri' : ri.1 ∈ rows := List.fst_mem_of_mem_zipIdx hri
  have hvals : ops.map (fun kv => (kv.1, winVal Θ p o rv (rows.zipIdx.map (fun x => (f x.1, x.2)))
        (f ri.1, ri.2) kv.2))
      = ops.map (fun kv => (kv.1, winVal Θ p o rv rows.zipIdx ri kv.2)) := by
    apply List.map_congr_left
    intro kv _
    have := winVal_map Θ p o rv rows.zipIdx (fun x => (f x.1, x.2)) (p ++ o ++ argCol kv.2)
      (fun _ _ => rfl) (fun x hx c _ => h x.1 (List.fst_mem_of_mem_zipIdx hx) c)
      (fun c hc => by simp [hc]) (fun c hc => by simp [hc]) ri hri kv.2 (fun c hc => by simp [hc])
    rw [this]
  rw [hvals]
  exact select_setAll_congr _ (fun c _ => h ri.1 hri' c)

theorem semExtendWindow_selectCols (Θ : Interp) (ops : Assign) (p o rv : List String) (t : Table)
    {oc oc' : List String} (h : ∀ c ∈ oc, c ∈ oc') :
    (semExtendWindow Θ ops p o rv t oc').selectCols oc = semExtendWindow Θ ops p o rv t oc := by
  rw [semExtendWindow_eq, semExtendWindow_eq]
  simp only [Table.selectCols, List.map_map, Table.mk.injEq, true_and]
  exact List.map_congr_left (fun r _ => Row.select_select h)

/-! ### project -/

theorem argValues_map (e : Term) (rows : List Row) (f : Row → Row)
    (h : ∀ r ∈ rows, ∀ c ∈ argCol e, (f r).get c = r.get c) : argValues e (rows.map f) = argValues e rows := by
  rw [argValues_eq_map, argValues_eq_map, List.map_map]
  exact List.map_congr_left (fun r hr => argFn_congr e (h r hr))

theorem semProject_map (Θ : Interp) (ops : Assign) (g : List String) (cs1 cs2 : List String)
    (rows : List Row) (f : Row → Row) (oc : List String) (h : GetEq rows f) :
    semProject Θ ops g ⟨cs1, rows.map f⟩ oc = semProject Θ ops g ⟨cs2, rows⟩ oc := by
  have hk : ∀ r ∈ rows, keyOf (f r) g = keyOf r g := fun r hr => keyOf_congr (fun c _ => h r hr c)
  unfold semProject
  split
  · simp only [Table.mk.injEq, true_and]
    congr 2
    apply List.map_congr_left
    intro kv _
    rw [argValues_map kv.2 rows f (fun r hr c _ => h r hr c)]
  · simp only [List.map_map, Table.mk.injEq, true_and]
    have hkeys : rows.map ((fun r => keyOf r g) ∘ f) = rows.map (fun r => keyOf r g) :=
      List.map_congr_left (fun r hr => hk r hr)
    rw [hkeys]
    apply List.map_congr_left
    intro k _
    have hf : (rows.map f).filter (fun r => keyOf r g == k) = (rows.filter (fun r => keyOf r g == k)).map f := by
      rw [List.filter_map]
      congr 1
      apply List.filter_congr
      intro r hr
      simp only [Function.comp, hk r hr]
    rw [hf]
    congr 2
    apply List.map_congr_left
    intro kv _
    rw [argValues_map kv.2 _ f (fun r hr c _ => h r (List.mem_filter.mp hr).1 c)]

theorem semProject_selectCols (Θ : Interp) (ops : Assign) (g : List String) (t : Table) {oc oc' : List String}
    (h : ∀ c ∈ oc, c ∈ oc') : (semProject Θ ops g t oc').selectCols oc = semProject Θ ops g t oc := by
  unfold semProject
  split
  · simp only [Table.selectCols, List.map_cons, List.map_nil, Table.mk.injEq, true_and]
    rw [Row.select_select h]
  · simp only [Table.selectCols, List.map_map, Table.mk.injEq, true_and]
    exact List.map_congr_left (fun r _ => Row.select_select h)

/-! ### select_rows, order_rows: rows pass through -/

theorem semSelectRows_map (Θ : Interp) (e : Term) (cs1 cs2 : List String) (rows : List Row) (f : Row → Row)
    (h : GetEq rows f) :
    semSelectRows Θ e ⟨cs1, rows.map f⟩ = ⟨cs1, (semSelectRows Θ e ⟨cs2, rows⟩).rows.map f⟩ := by
  simp only [semSelectRows, Table.mk.injEq, true_and]
  rw [List.filter_map]
  congr 1
  apply List.filter_congr
  intro r hr
  simp only [Function.comp]
  rw [evalCell_congrC Θ e (fun c _ => h r hr c)]

theorem sortRows_map (cs rv : List String) (rows : List Row) (f : Row → Row) (h : GetEq rows f) :
    sortRows cs rv (rows.map f) = (sortRows cs rv rows).map f := by
  simp only [sortRows]
  symm
  apply List.map_mergeSort
  intro a ha b hb
  exact rowLe_congr (fun c _ => (h a ha c).symm) (fun c _ => (h b hb c).symm)

theorem semOrder_map (cs rv : List String) (lim : Option Nat) (cs1 cs2 : List String) (rows : List Row)
    (f : Row → Row) (h : GetEq rows f) :
    semOrder cs rv lim ⟨cs1, rows.map f⟩ = ⟨cs1, (semOrder cs rv lim ⟨cs2, rows⟩).rows.map f⟩ := by
  simp only [semOrder, sortRows_map cs rv rows f h, Table.mk.injEq, true_and]
  cases lim with
  | none => rfl
  | some n => simp only [List.map_take]

/-! ### concat -/

theorem semConcat_map (idc : Option String) (an bn : String) (ca1 ca2 cb1 cb2 : List String)
    (ra rb : List Row) (f g : Row → Row) (oc : List String) (hf : GetEq ra f) (hg : GetEq rb g) :
    semConcat idc an bn ⟨ca1, ra.map f⟩ ⟨cb1, rb.map g⟩ oc = semConcat idc an bn ⟨ca2, ra⟩ ⟨cb2, rb⟩ oc := by
  have key : ∀ (name : String) (rows : List Row) (k : Row → Row), GetEq rows k →
      (rows.map k).map (fun (r : Row) => match idc with
        | none => r.select oc
        | some c => (r.set c (.str name)).select oc)
      = rows.map (fun (r : Row) => match idc with
        | none => r.select oc
        | some c => (r.set c (.str name)).select oc) := by
    intro name rows k hk
    rw [List.map_map]
    apply List.map_congr_left
    intro r hr
    simp only [Function.comp]
    cases idc with
    | none => exact Row.select_congr (fun c _ => hk r hr c)
    | some c0 =>
      exact Row.select_congr (fun c _ => by rw [Row.get_setC, Row.get_setC, hk r hr c])
  simp only [semConcat, Table.mk.injEq, true_and]
  exact congr (congrArg _ (key an ra f hf)) (key bn rb g hg)

theorem semConcat_selectCols (idc : Option String) (an bn : String) (ta tb : Table) {oc oc' : List String}
    (h : ∀ c ∈ oc, c ∈ oc') :
    (semConcat idc an bn ta tb oc').selectCols oc = semConcat idc an bn ta tb oc := by
  simp only [semConcat, Table.selectCols, List.map_append, List.map_map, Table.mk.injEq, true_and]
  congr 1 <;> apply List.map_congr_left <;> intro r _ <;> simp only [Function.comp] <;>
    cases idc <;> exact Row.select_select h

/-! ### join -/

/-- two optional rows read the same -/
def OptGetEq : Option Row → Option Row → Prop
  | some r, some r' => ∀ c, r.get c = r'.get c
  | none, none => True
  | _, _ => False

theorem joinRow_congr {ca cb ca' cb' oc : List String} (hca : ∀ c, c ∈ ca ↔ c ∈ ca') (hcb : ∀ c, c ∈ cb ↔ c ∈ cb')
    {ra ra' rb rb' : Option Row} (ha : OptGetEq ra ra') (hb : OptGetEq rb rb') :
    joinRow ca cb oc ra rb = joinRow ca' cb' oc ra' rb' := by
  simp only [joinRow]
  apply List.map_congr_left
  intro c _
  have h1 : ca.contains c = ca'.contains c := by
    rw [Bool.eq_iff_iff]; simpa using hca c
  have h2 : cb.contains c = cb'.contains c := by
    rw [Bool.eq_iff_iff]; simpa using hcb c
  cases ra with
  | none =>
    cases ra' with
    | some _ => exact ha.elim
    | none =>
      cases rb with
      | none =>
        cases rb' with
        | some _ => exact hb.elim
        | none => rfl
      | some r =>
        cases rb' with
        | none => exact hb.elim
        | some r' =>
          have := hb c
          simp only [h2, this]
  | some q =>
    cases ra' with
    | none => exact ha.elim
    | some q' =>
      have hq := ha c
      cases rb with
      | none =>
        cases rb' with
        | some _ => exact hb.elim
        | none => simp only [h1, hq]
      | some r =>
        cases rb' with
        | none => exact hb.elim
        | some r' =>
          have := hb c
          simp only [h1, h2, this, hq]

theorem any_congr_mem {α : Type} {l : List α} {p q : α → Bool} (h : ∀ x ∈ l, p x = q x) : l.any p = l.any q := by
  induction l with
  | nil => rfl
  | cons a l ih =>
    simp only [List.any_cons, h a (List.mem_cons_self ..)]
    rw [ih (fun x hx => h x (List.mem_cons_of_mem _ hx))]

theorem flatMap_congr_mem {α β : Type} {l : List α} {f g : α → List β} (h : ∀ a ∈ l, f a = g a) :
    l.flatMap f = l.flatMap g := by
  induction l with
  | nil => rfl
  | cons a l ih =>
    simp only [List.flatMap_cons]
    rw [h a (List.mem_cons_self ..), ih (fun x hx => h x (List.mem_cons_of_mem _ hx))]

theorem semJoin_map (cfg : SemCfg) (jt : JoinType) (onA onB : List String) (ca1 ca2 cb1 cb2 : List String)
    (ra rb : List Row) (f g : Row → Row) (oc : List String) (hca : ∀ c, c ∈ ca1 ↔ c ∈ ca2)
    (hcb : ∀ c, c ∈ cb1 ↔ c ∈ cb2) (hf : GetEq ra f) (hg : GetEq rb g) :
    semJoin cfg jt onA onB ⟨ca1, ra.map f⟩ ⟨cb1, rb.map g⟩ oc
      = semJoin cfg jt onA onB ⟨ca2, ra⟩ ⟨cb2, rb⟩ oc := by
  have hka : ∀ r ∈ ra, keyOf (f r) onA = keyOf r onA := fun r hr => keyOf_congr (fun c _ => hf r hr c)
  have hkb : ∀ r ∈ rb, keyOf (g r) onB = keyOf r onB := fun r hr => keyOf_congr (fun c _ => hg r hr c)
  have hsome : ∀ {rows : List Row} {k : Row → Row}, GetEq rows k → ∀ r ∈ rows,
      OptGetEq (some (k r)) (some r) := fun hk r hr c => hk r hr c
  simp only [semJoin, Table.mk.injEq, true_and]
  congr 1
  · congr 1
    · -- matched pairs
      rw [List.flatMap_map]
      apply flatMap_congr_mem
      intro a haa
      rw [List.filter_map, List.map_map]
      have : rb.filter ((fun rb => (jt == JoinType.cross || onA.isEmpty) ||
            keyMatch cfg (keyOf (f a) onA) (keyOf rb onB)) ∘ g)
          = rb.filter (fun rb => (jt == JoinType.cross || onA.isEmpty) ||
            keyMatch cfg (keyOf a onA) (keyOf rb onB)) := by
        apply List.filter_congr
        intro b hb
        simp only [Function.comp, hka a haa, hkb b hb]
      rw [this]
      apply List.map_congr_left
      intro b hb
      have hb' := (List.mem_filter.mp hb).1
      exact joinRow_congr hca hcb (hsome hf a haa) (hsome hg b hb')
    · -- left only
      split
      · rw [List.filter_map, List.map_map]
        have : ra.filter ((fun ra => !(rb.map g).any (fun rb => (jt == JoinType.cross || onA.isEmpty) ||
              keyMatch cfg (keyOf ra onA) (keyOf rb onB))) ∘ f)
            = ra.filter (fun ra => !rb.any (fun rb => (jt == JoinType.cross || onA.isEmpty) ||
              keyMatch cfg (keyOf ra onA) (keyOf rb onB))) := by
          apply List.filter_congr
          intro a haa
          simp only [Function.comp, List.any_map, hka a haa]
          congr 1
          apply any_congr_mem
          intro b hb
          simp only [Function.comp, hkb b hb]
        rw [this]
        apply List.map_congr_left
        intro a haa
        have haa' := (List.mem_filter.mp haa).1
        exact joinRow_congr hca hcb (hsome hf a haa') (show OptGetEq none none from trivial)
      · rfl
  · split
    · rw [List.filter_map, List.map_map]
      have : rb.filter ((fun rb => !(ra.map f).any (fun ra => (jt == JoinType.cross || onA.isEmpty) ||
            keyMatch cfg (keyOf ra onA) (keyOf rb onB))) ∘ g)
          = rb.filter (fun rb => !ra.any (fun ra => (jt == JoinType.cross || onA.isEmpty) ||
            keyMatch cfg (keyOf ra onA) (keyOf rb onB))) := by
        apply List.filter_congr
        intro b hb
        simp only [Function.comp, List.any_map, hkb b hb]
        congr 1
        apply any_congr_mem
        intro a haa
        simp only [Function.comp, hka a haa]
      rw [this]
      apply List.map_congr_left
      intro b hb
      have hb' := (List.mem_filter.mp hb).1
      exact joinRow_congr hca hcb (show OptGetEq none none from trivial) (hsome hg b hb')
    · rfl

/-- the join's row constructor is a selection of a function of the column: restricting the output columns
afterwards is the same as asking for fewer columns -/
theorem joinRow_select (ca cb : List String) {oc oc' : List String} (h : ∀ c ∈ oc, c ∈ oc')
    (ra rb : Option Row) : (joinRow ca cb oc' ra rb).select oc = joinRow ca cb oc ra rb := by
  simp only [joinRow, Row.select]
  apply List.map_congr_left
  intro c hc
  simp only [Prod.mk.injEq, true_and]
  have hc' := h c hc
  -- lookup in an association list built by `map` over distinct keys
  have : ∀ (l : List String) (F : String → Val), c ∈ l →
      Row.get (l.map (fun c => (c, F c))) c = F c := by
    intro l F hl
    induction l with
    | nil => cases hl
    | cons x l ih =>
      simp only [List.map_cons, Row.get_consC]
      by_cases hx : c = x
      · subst hx; simp
      · have : (c == x) = false := by simpa using hx
        rw [this]
        rcases List.mem_cons.mp hl with e | e
        · exact absurd e hx
        · simpa using ih e
  exact this oc' _ hc'

theorem semJoin_selectCols (cfg : SemCfg) (jt : JoinType) (onA onB : List String) (ta tb : Table)
    {oc oc' : List String} (h : ∀ c ∈ oc, c ∈ oc') :
    (semJoin cfg jt onA onB ta tb oc').selectCols oc = semJoin cfg jt onA onB ta tb oc := by
  simp only [semJoin, Table.selectCols, List.map_append, List.map_flatMap, List.map_map, Table.mk.injEq,
    true_and]
  have e : ∀ (ra rb : Option Row),
      ((fun r => Row.select r oc) ∘ fun rb' => joinRow ta.cols tb.cols oc' ra rb') rb
        = joinRow ta.cols tb.cols oc ra rb := fun ra rb => joinRow_select _ _ h ra rb
  congr 1
  · congr 1
    · apply flatMap_congr_mem
      intro a _
      apply List.map_congr_left
      intro b _
      exact joinRow_select _ _ h _ _
    · split
      · rw [List.map_map]
        apply List.map_congr_left
        intro a _
        exact joinRow_select _ _ h _ _
      · rfl
  · split
    · rw [List.map_map]
      apply List.map_congr_left
      intro b _
      exact joinRow_select _ _ h _ _
    · rfl

end DAVerif
