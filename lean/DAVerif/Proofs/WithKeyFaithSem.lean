import DAVerif.Proofs.SqlReach
import DAVerif.Proofs.WithKeyFaithTrans
import DAVerif.Proofs.WithKey
/-
C04, cache keys of the translation: **sub-queries with the same cache key denote the same table** (`KeyFaith` for the
model's `cacheKey`), from
* `BoundOK` (Proofs/WithKeyFaithTrans.lean): a bound sub-query is a sound translation of the node its key names;
* `KeyCancel`: the text of a cache key determines the node and the bound columns (Proofs/WithKeyFaithRender.lean, under
  the hypothesis `QuoteCode` about Lean's opaque `String.quote`);
* the shape of the result of a step bound with a non-empty column list: exactly those columns, in that order.
-/
namespace DAVerif.C04K
open DAVerif DAVerif.Sql

/-- the text of a cache key determines the operator node and the bound columns -/
def KeyCancel : Prop :=
  ∀ {n1 n2 : Ops}, RenderOK n1 → RenderOK n2 → ∀ {k1 k2 : String}, IsKeyOf n1 k1 → IsKeyOf n2 k2 →
    ∀ {c1 c2 : List String}, k1 ++ ("_" ++ renderStrs c1) = k2 ++ ("_" ++ renderStrs c2) → n1 = n2 ∧ c1 = c2

section
variable {Θ : Interp} {ec : EngineCfg} {env : Env}

/-- a step with a term dictionary, bound with a non-empty column list, returns exactly these columns, in this order -/
theorem semNear_shape {ctes : List (String × Table)} {q : Near} (hnt : ¬ q.isTable = true) (hk : q.termKeys ≠ none)
    {c : List String} (hc : c ≠ []) {f : Bool} {T : Table} (h : semNear Θ ec env ctes q (some c) f = .ok T) :
    T.cols = c ∧ T.rows.map (fun r => r.select c) = T.rows := by
  have hce : c.isEmpty = false := by cases c <;> simp_all
  cases q with
  | table n ts => exact absurd rfl hnt
  | cte n => exact absurd rfl hnt
  | unary nm terms agg sub sc sfx mg dp key =>
    rw [semNear_unary] at h
    cases hs : semNear Θ ec env ctes sub sc false with
    | error e => rw [hs] at h; cases h
    | ok t =>
      rw [hs] at h
      cases terms with
      | none => exact absurd rfl hk
      | some ts =>
        have ho : outCols (some ts) (some c) t.cols = c := by simp only [outCols, hce, Bool.false_eq_true, if_false]
        simp only [Except.bind, ho, Except.ok.injEq] at h
        subst h
        exact ⟨rfl, stepRows_select Θ ec _ _ _ (fun _ h => h) _⟩
  | join n terms l lC ln r rC rn jt oa ob key =>
    rw [semNear_join] at h
    cases hl : semNear Θ ec env ctes l (some lC) false with
    | error e => rw [hl] at h; cases h
    | ok tl =>
      rw [hl] at h
      cases hr : semNear Θ ec env ctes r (some rC) false with
      | error e => rw [hr] at h; cases h
      | ok tr =>
        rw [hr] at h
        have ho : joinOut (terms.map (·.1)) (some c) = c := by simp only [joinOut, hce, Bool.false_eq_true, if_false]
        simp only [Except.bind, ho] at h
        split at h
        · cases h
        · simp only [Except.ok.injEq] at h
          subst h
          refine ⟨rfl, ?_⟩
          simp only []
          rw [joinRowsG_map]
          congr 1
          funext a b
          rw [sqlJoinRow_eq, select_mkRow _ (fun _ h => h)]
  | union n terms l r cols key =>
    rw [semNear_union] at h
    cases hl : semNear Θ ec env ctes l (some cols) true with
    | error e => rw [hl] at h; cases h
    | ok tl =>
      rw [hl] at h
      cases hr : semNear Θ ec env ctes r (some cols) true with
      | error e => rw [hr] at h; cases h
      | ok tr =>
        rw [hr] at h
        have ho : joinOut terms (some c) = c := by simp only [joinOut, hce, Bool.false_eq_true, if_false]
        simp only [Except.bind, ho, Except.ok.injEq] at h
        subst h
        refine ⟨rfl, ?_⟩
        simp only [List.map_map]
        apply List.map_congr_left
        intro row _
        exact Row.select_select (fun _ h => h)

/-- the value of a sound translation bound with a non-empty column list -/
theorem den_of_sound {q : Near} (hnt : ¬ q.isTable = true) {c pc : List String} {tp : Table}
    (hs : Sound Θ ec env q c pc tp) (hc : c ≠ []) (f : Bool) :
    semNear Θ ec env [] q (some c) f = .ok ⟨c, tp.rows.map (fun r => r.select c)⟩ := by
  obtain ⟨T, h1, _, h3⟩ := hs.req c (fun _ h => h) f
  obtain ⟨ks, hk, _, _⟩ := hs.keys hc
  obtain ⟨e1, e2⟩ := semNear_shape hnt (by rw [hk]; simp) hc h1
  rw [h1]
  congr 1
  cases T with
  | mk cols rows =>
    simp only at e1 e2 h3
    subst e1
    rw [← e2, h3]

/-- **sub-queries with the same cache key denote the same table**, provided every bound sub-query is a sound
translation of the node its key names (`BoundOK`), the key text determines node and columns (`KeyCancel`), and no
sub-query is bound with an empty column list -/
theorem keyFaith_of_boundOK (hcancel : KeyCancel) {q : Near} (hB : ∀ x ∈ q.desc, BoundOK Θ ec env x)
    (hne : ∀ x ∈ q.desc, x.2.1 ≠ some []) : KeyFaith Θ ec env cacheKey q := by
  intro x hx y hy he
  obtain ⟨n1, k1, c1, pc1, tp1, hk1, hik1, hr1, hc1, hs1, hsd1⟩ := hB x hx
  obtain ⟨n2, k2, c2, pc2, tp2, hk2, hik2, hr2, hc2, hs2, hsd2⟩ := hB y hy
  have hx1 : ¬ x.1.isTable = true := desc_not_isTable q x hx
  have hy1 : ¬ y.1.isTable = true := desc_not_isTable q y hy
  have hne1 : c1 ≠ [] := by
    intro e; subst e; exact hne x hx hc1
  have hne2 : c2 ≠ [] := by
    intro e; subst e; exact hne y hy hc2
  simp only [bkey, cacheKey, hk1, hk2, hc1, hc2] at he
  obtain ⟨rfl, rfl⟩ := hcancel hr1 hr2 hik1 hik2 he
  rw [hs1] at hs2
  cases hs2
  unfold den
  rw [hc1, hc2, den_of_sound hx1 hsd1 hne1, den_of_sound hy1 hsd2 hne1]

end
end DAVerif.C04K
