import DAVerif.Text.Lex
/-!
Helper lemmas for C14 (`Props/C14.lean`): the string / identifier lexers undo the quoting functions,
`_clean_annotation` leaves no line break, and the step lemmas of the token stream `lexSql`.
-/
set_option linter.unusedSimpArgs false
namespace DAVerif.Text

/-! ## pyReplace -/

theorem pyReplace_append (c : Char) (r a b : List Char) :
    pyReplace c r (a ++ b) = pyReplace c r a ++ pyReplace c r b := by
  induction a with
  | nil => rfl
  | cons x xs ih => by_cases h : x = c <;> simp [pyReplace, h, ih]

theorem pyReplace_of_not_mem {c : Char} (r : List Char) {s : List Char} (h : c ∉ s) : pyReplace c r s = s := by
  induction s with
  | nil => rfl
  | cons x xs ih =>
    have hx : x ≠ c := fun e => h (by simp [e])
    have : c ∉ xs := fun e => h (by simp [e])
    simp [pyReplace, hx, ih this]

/-! ## string bodies: SQLite / PostgreSQL (and quoted identifiers) -/

theorem lexBodyStd_cons_ne {q c : Char} (cs : List Char) (h : c ≠ q) :
    lexBodyStd q (c :: cs) = consVal [c] (lexBodyStd q cs) := by
  rw [lexBodyStd.eq_def]; simp [h]

theorem lexBodyStd_qq (q : Char) (cs : List Char) :
    lexBodyStd q (q :: q :: cs) = consVal [q] (lexBodyStd q cs) := by
  rw [lexBodyStd.eq_def]; simp

theorem lexBodyStd_end (q : Char) (rest : List Char) (h : rest.head? ≠ some q) :
    lexBodyStd q (q :: rest) = some ([], rest) := by
  rw [lexBodyStd.eq_def]
  cases rest with
  | nil => simp
  | cons c2 cs2 =>
    have : c2 ≠ q := by simpa using h
    simp [this]

theorem lexBodyStd_roundtrip (q : Char) (s rest : List Char) (h : rest.head? ≠ some q) :
    lexBodyStd q (pyReplace q [q, q] s ++ q :: rest) = some (s, rest) := by
  induction s with
  | nil => simpa [pyReplace] using lexBodyStd_end q rest h
  | cons x xs ih =>
    by_cases hx : x = q
    · subst hx; simp [pyReplace, lexBodyStd_qq, ih, consVal]
    · simp [pyReplace, hx, lexBodyStd_cons_ne _ hx, ih, consVal]

/-! mysql -/
theorem lexBodyMy_cons_plain {q c : Char} (cs : List Char) (h : c ≠ q) (h2 : c ≠ '\\') :
    lexBodyMy q (c :: cs) = consVal [c] (lexBodyMy q cs) := by
  rw [lexBodyMy.eq_def]; simp [h, h2]

theorem lexBodyMy_qq (q : Char) (cs : List Char) :
    lexBodyMy q (q :: q :: cs) = consVal [q] (lexBodyMy q cs) := by
  rw [lexBodyMy.eq_def]; simp

theorem lexBodyMy_esc {q : Char} (e : Char) (cs : List Char) (h : '\\' ≠ q) :
    lexBodyMy q ('\\' :: e :: cs) = consVal (mysqlEsc e) (lexBodyMy q cs) := by
  rw [lexBodyMy.eq_def]; simp [h]

theorem lexBodyMy_end (q : Char) (rest : List Char) (h : rest.head? ≠ some q) :
    lexBodyMy q (q :: rest) = some ([], rest) := by
  rw [lexBodyMy.eq_def]
  cases rest with
  | nil => simp
  | cons c2 cs2 =>
    have : c2 ≠ q := by simpa using h
    simp [this]

theorem lexBodyMy_roundtrip (s rest : List Char) (h : rest.head? ≠ some '\'') :
    lexBodyMy '\'' (pyReplace '\'' ['\'', '\''] (pyReplace '\\' ['\\', '\\'] s) ++ '\'' :: rest) = some (s, rest) := by
  induction s with
  | nil => simpa [pyReplace] using lexBodyMy_end '\'' rest h
  | cons x xs ih =>
    by_cases h1 : x = '\\'
    · subst h1
      simp [pyReplace, lexBodyMy_esc, ih, consVal, mysqlEsc]
    · by_cases h2 : x = '\''
      · subst h2
        simp [pyReplace, lexBodyMy_qq, ih, consVal]
      · simp [pyReplace, h1, h2, lexBodyMy_cons_plain _ h2 h1, ih, consVal]

theorem lexBodySpark_cons_plain {q c : Char} (cs : List Char) (h : c ≠ q) (h2 : c ≠ '\\') :
    lexBodySpark q (c :: cs) = consVal [c] (lexBodySpark q cs) := by
  rw [lexBodySpark.eq_def]; simp [h, h2]

theorem lexBodySpark_esc {q : Char} (e : Char) (cs : List Char) (h : '\\' ≠ q)
    (h1 : e ≠ 'u') (h2 : e ≠ 'U') (h3 : e ≠ '0') (h4 : e ≠ '1') :
    lexBodySpark q ('\\' :: e :: cs) = consVal (sparkEsc e) (lexBodySpark q cs) := by
  rw [lexBodySpark.eq_def]
  simp only [h, if_false, if_true, h1, h2, h3, h4, or_self]
  split <;> rfl

theorem lexBodySpark_end (q : Char) (rest : List Char) (h : rest.head? ≠ some q) :
    lexBodySpark q (q :: rest) = some ([], rest) := by
  rw [lexBodySpark.eq_def]
  cases rest with
  | nil => simp
  | cons c2 cs2 =>
    have : c2 ≠ q := by simpa using h
    simp [this]

theorem lexBodySpark_roundtrip (s rest : List Char) (h : rest.head? ≠ some '"') :
    lexBodySpark '"' (pyReplace '"' ['\\', '"'] (pyReplace '\\' ['\\', '\\'] s) ++ '"' :: rest) = some (s, rest) := by
  induction s with
  | nil => simpa [pyReplace] using lexBodySpark_end '"' rest h
  | cons x xs ih =>
    by_cases h1 : x = '\\'
    · subst h1
      have := lexBodySpark_esc (q := '"') '\\' (pyReplace '"' ['\\', '"'] (pyReplace '\\' ['\\', '\\'] xs) ++ '"' :: rest)
        (by decide) (by decide) (by decide) (by decide) (by decide)
      simp [pyReplace, this, ih, consVal, sparkEsc]
    · by_cases h2 : x = '"'
      · subst h2
        have := lexBodySpark_esc (q := '"') '"' (pyReplace '"' ['\\', '"'] (pyReplace '\\' ['\\', '\\'] xs) ++ '"' :: rest)
          (by decide) (by decide) (by decide) (by decide) (by decide)
        simp [pyReplace, this, ih, consVal, sparkEsc]
      · simp [pyReplace, h1, h2, lexBodySpark_cons_plain _ h2 h1, ih, consVal]

/-! bigquery -/
theorem lexBodyBq_cons_plain {q c : Char} (cs : List Char) (h : c ≠ q) (h2 : c ≠ '\\') (h3 : c ≠ '\n') (h4 : c ≠ '\r') :
    lexBodyBq q (c :: cs) = consVal [c] (lexBodyBq q cs) := by
  rw [lexBodyBq.eq_def]; simp [h, h2, h3, h4]

theorem lexBodyBq_esc {q : Char} (e ch : Char) (cs : List Char) (h : '\\' ≠ q)
    (h1 : e ≠ 'x') (h2 : e ≠ 'X') (h3 : e ≠ 'u') (h4 : e ≠ 'U') (h5 : octVal e = none) (h6 : bqEsc e = some ch) :
    lexBodyBq q ('\\' :: e :: cs) = consVal [ch] (lexBodyBq q cs) := by
  rw [lexBodyBq.eq_def]
  simp [h, h1, h2, h3, h4, h5, h6]

theorem lexBodyBq_end (q : Char) (rest : List Char) :
    lexBodyBq q (q :: rest) = some ([], rest) := by
  rw [lexBodyBq.eq_def]; simp

def bqEscStr (q : Char) (s : List Char) : List Char :=
  pyReplace '\r' ['\\', 'r'] (pyReplace '\n' ['\\', 'n'] (pyReplace q ['\\', q] (pyReplace '\\' ['\\', '\\'] s)))

theorem lexBodyBq_roundtrip (q : Char) (hq : q = '"' ∨ q = '`') (s rest : List Char) :
    lexBodyBq q (bqEscStr q s ++ q :: rest) = some (s, rest) := by
  have hq1 : '\\' ≠ q := by rcases hq with h | h <;> subst h <;> decide
  have hq2 : '\n' ≠ q := by rcases hq with h | h <;> subst h <;> decide
  have hq3 : '\r' ≠ q := by rcases hq with h | h <;> subst h <;> decide
  have hq4 : 'n' ≠ q := by rcases hq with h | h <;> subst h <;> decide
  have hq5 : 'r' ≠ q := by rcases hq with h | h <;> subst h <;> decide
  induction s with
  | nil => simpa [bqEscStr, pyReplace] using lexBodyBq_end q rest
  | cons x xs ih =>
    unfold bqEscStr at ih ⊢
    by_cases h1 : x = '\\'
    · subst h1
      have := fun cs => lexBodyBq_esc (q := q) '\\' '\\' cs hq1 (by decide) (by decide) (by decide) (by decide) (by decide) (by decide)
      simp [pyReplace, hq1, this, ih, consVal]
    · by_cases h2 : x = q
      · subst h2
        have h6 : bqEsc x = some x := by rcases hq with h | h <;> subst h <;> decide
        have := fun cs => lexBodyBq_esc (q := x) x x cs hq1
          (by rcases hq with h | h <;> subst h <;> decide) (by rcases hq with h | h <;> subst h <;> decide)
          (by rcases hq with h | h <;> subst h <;> decide) (by rcases hq with h | h <;> subst h <;> decide)
          (by rcases hq with h | h <;> subst h <;> decide) h6
        simp [pyReplace, hq1, hq2, hq3, Ne.symm hq1, Ne.symm hq2, Ne.symm hq3, this, ih, consVal]
      · by_cases h3 : x = '\n'
        · subst h3
          have := fun cs => lexBodyBq_esc (q := q) 'n' '\n' cs hq1 (by decide) (by decide) (by decide) (by decide) (by decide) (by decide)
          simp [pyReplace, h2, this, ih, consVal]
        · by_cases h4 : x = '\r'
          · subst h4
            have := fun cs => lexBodyBq_esc (q := q) 'r' '\r' cs hq1 (by decide) (by decide) (by decide) (by decide) (by decide) (by decide)
            simp [pyReplace, h2, this, ih, consVal]
          · simp [pyReplace, h1, h2, h3, h4, lexBodyBq_cons_plain _ h2 h1 h3 h4, ih, consVal]

/-! ## `_clean_annotation` -/

theorem mem_pyLstrip {c : Char} {s : List Char} (h : c ∈ pyLstrip s) : c ∈ s := by
  induction s with
  | nil => simp [pyLstrip] at h
  | cons x xs ih =>
    simp only [pyLstrip] at h
    split at h
    · exact List.mem_cons_of_mem _ (ih h)
    · exact h

theorem mem_pyRstrip {c : Char} {s : List Char} (h : c ∈ pyRstrip s) : c ∈ s := by
  simp only [pyRstrip, List.mem_reverse] at h
  simpa using mem_pyLstrip h

theorem mem_pyStrip {c : Char} {s : List Char} (h : c ∈ pyStrip s) : c ∈ s :=
  mem_pyLstrip (mem_pyRstrip h)

theorem mem_pyReplace {c x : Char} {r s : List Char} (h : x ∈ pyReplace c r s) : x ∈ r ∨ (x ∈ s ∧ x ≠ c) := by
  induction s with
  | nil => simp [pyReplace] at h
  | cons y ys ih =>
    simp only [pyReplace] at h
    split at h
    · rcases List.mem_append.mp h with h | h
      · exact .inl h
      · rcases ih h with h | h
        · exact .inl h
        · exact .inr ⟨List.mem_cons_of_mem _ h.1, h.2⟩
    · rcases List.mem_cons.mp h with h | h
      · subst h; exact .inr ⟨by simp, by assumption⟩
      · rcases ih h with h | h
        · exact .inl h
        · exact .inr ⟨List.mem_cons_of_mem _ h.1, h.2⟩

theorem mem_collapseWs {x : Char} {b : Bool} {s : List Char} (h : x ∈ collapseWs b s) :
    x = ' ' ∨ (x ∈ s ∧ isPySpace x = false) := by
  induction s generalizing b with
  | nil => simp [collapseWs] at h
  | cons y ys ih =>
    simp only [collapseWs] at h
    split at h
    · split at h
      · rcases ih h with h | h
        · exact .inl h
        · exact .inr ⟨List.mem_cons_of_mem _ h.1, h.2⟩
      · rcases List.mem_cons.mp h with h | h
        · exact .inl h
        · rcases ih h with h | h
          · exact .inl h
          · exact .inr ⟨List.mem_cons_of_mem _ h.1, h.2⟩
    · rcases List.mem_cons.mp h with h | h
      · subst h; exact .inr ⟨by simp, by simpa using ‹¬ _ = true›⟩
      · rcases ih h with h | h
        · exact .inl h
        · exact .inr ⟨List.mem_cons_of_mem _ h.1, h.2⟩

/-- every white-space character that survives `_clean_annotation` is a plain space -/
theorem cleanAnnotation_space {a : List Char} {x : Char} (h : x ∈ cleanAnnotation a) (hs : isPySpace x = true) :
    x = ' ' := by
  have h1 := mem_pyStrip h
  rcases mem_pyReplace h1 with h2 | ⟨h2, _⟩
  · exfalso
    have : ∀ y ∈ "percent".toList, isPySpace y = false := by decide
    simp [this x h2] at hs
  · rcases mem_collapseWs h2 with h3 | ⟨_, h3⟩
    · exact h3
    · simp [h3] at hs

theorem pyLstrip_shape (s : List Char) :
    pyLstrip s = [] ∨ ∃ c cs, pyLstrip s = c :: cs ∧ isPySpace c = false := by
  induction s with
  | nil => simp [pyLstrip]
  | cons x xs ih =>
    simp only [pyLstrip]
    split
    · exact ih
    · exact .inr ⟨x, xs, rfl, by simpa using ‹¬ _ = true›⟩

theorem pyRstrip_append_last (t : List Char) (c : Char) (h : isPySpace c = false) :
    pyRstrip (t ++ [c]) = t ++ [c] := by
  simp [pyRstrip, pyLstrip, h]

theorem pyStrip_shape (t : List Char) :
    pyStrip t = [] ∨ ∃ u c, pyStrip t = u ++ [c] ∧ isPySpace c = false := by
  unfold pyStrip pyRstrip
  rcases pyLstrip_shape (pyLstrip t).reverse with h | ⟨c, cs, h, hc⟩
  · simp [h]
  · exact .inr ⟨cs.reverse, c, by simp [h], hc⟩

theorem skipComment_body {d : Dialect} (body rest : List Char) (hb : ∀ c ∈ body, commentEnd d c = false)
    (hsp : d = .spark → body.getLast? ≠ some '\\') :
    skipComment d (body ++ '\n' :: rest) = '\n' :: rest := by
  have hnl : commentEnd d '\n' = true := by cases d <;> rfl
  induction body with
  | nil =>
    rw [List.nil_append, skipComment.eq_def]
    cases rest with
    | nil => simp [hnl]
    | cons c2 cs2 => simp [hnl]
  | cons x xs ih =>
    have hx : commentEnd d x = false := hb x (by simp)
    have ih' := ih (fun c hc => hb c (by simp [hc]))
    rw [List.cons_append, skipComment.eq_def]
    cases hxs : xs with
    | nil =>
      subst hxs
      have : ¬ (d = .spark ∧ x = '\\') := by
        rintro ⟨h1, h2⟩; subst h2; exact hsp h1 (by simp)
      simp only [List.nil_append]
      have ih'' := ih' (fun h => by simp)
      simp only [List.nil_append] at ih''
      by_cases h1 : d = .spark
      · have h2 : x ≠ '\\' := fun h => this ⟨h1, h⟩
        simp [h1, h2, hx, ih'']
        subst h1; simpa [hx] using ih''
      · simp [h1, hx, ih'']
    | cons y ys =>
      subst hxs
      have hy : y ≠ '\n' := by
        intro h; subst h; have := hb '\n' (by simp); simp [hnl] at this
      have ih'' := ih' (fun h => by simpa using hsp h)
      simp only [List.cons_append] at ih'' ⊢
      simp [hy, hx, ih'']

/-! ## token stream: step lemmas -/

theorem lexSql_ws {d : Dialect} {c : Char} (cs : List Char) (h : isWs d c = true) :
    lexSql d (c :: cs) = lexSql d cs := by
  rw [lexSql.eq_2]; simp [h]

theorem strQuote_facts {d : Dialect} {q : Char} (h : q ∈ strQuotes d) : isWs d q = false ∧ q ≠ '-' := by
  cases d <;> simp only [strQuotes, List.mem_cons, List.not_mem_nil, or_false] at h
  all_goals first | (subst h; decide) | (rcases h with rfl | rfl <;> decide)

theorem idQuote_facts {d : Dialect} {q : Char} (h : q ∈ idQuotes d) :
    isWs d q = false ∧ q ≠ '-' ∧ q ∉ strQuotes d := by
  cases d <;> simp only [idQuotes, List.mem_cons, List.not_mem_nil, or_false] at h
  all_goals first | (subst h; decide) | (rcases h with rfl | rfl <;> decide)

theorem lexSql_str {d : Dialect} {q : Char} {cs s r : List Char} (hq : q ∈ strQuotes d)
    (hl : lexString d (q :: cs) = some (s, r)) (hlen : r.length < (q :: cs).length) :
    lexSql d (q :: cs) = (lexSql d r).map (Tok.str s :: ·) := by
  obtain ⟨h1, h2⟩ := strQuote_facts hq
  rw [lexSql.eq_2]; simp only [List.length_cons] at hlen; simp [h1, h2, hq, hl, hlen]

theorem lexSql_ident {d : Dialect} {q : Char} {cs s r : List Char} (hq : q ∈ idQuotes d)
    (hl : lexIdent d (q :: cs) = some (s, r)) (hlen : r.length < (q :: cs).length) :
    lexSql d (q :: cs) = (lexSql d r).map (Tok.ident s :: ·) := by
  obtain ⟨h1, h2, h3⟩ := idQuote_facts hq
  rw [lexSql.eq_2]; simp only [List.length_cons] at hlen; simp [h1, h2, h3, hq, hl, hlen]

/-- punctuation the generated SQL uses outside quotes -/
def isPunct (c : Char) : Bool := c == '(' || c == ')' || c == ',' || c == '=' || c == '.' || c == '*'

theorem lexSql_punct {d : Dialect} {c : Char} (cs : List Char) (h : isPunct c = true) :
    lexSql d (c :: cs) = (lexSql d cs).map (Tok.sym c :: ·) := by
  have : c = '(' ∨ c = ')' ∨ c = ',' ∨ c = '=' ∨ c = '.' ∨ c = '*' := by simpa [isPunct, or_assoc] using h
  rw [lexSql.eq_2]
  rcases this with h | h | h | h | h | h <;> subst h <;> cases d <;> simp [isWs, strQuotes, idQuotes, notHandled, isWordChar, isDigit]

theorem lexSql_minus {d : Dialect} (cs : List Char) (h : cs.head? ≠ some '-') :
    lexSql d ('-' :: cs) = (lexSql d cs).map (Tok.sym '-' :: ·) := by
  rw [lexSql.eq_2]
  cases d <;> simp [isWs, strQuotes, idQuotes, notHandled, isWordChar, isDigit, h]

/-- ASCII letters, digits, underscore -/
def isAsciiWord (c : Char) : Bool :=
  isDigit c || (65 ≤ c.toNat && c.toNat ≤ 90) || (97 ≤ c.toNat && c.toNat ≤ 122) || c.toNat == 95

theorem asciiWord_facts (d : Dialect) {c : Char} (h : isAsciiWord c = true) (cs : List Char) :
    isWs d c = false ∧ c ≠ '-' ∧ c ∉ strQuotes d ∧ c ∉ idQuotes d ∧ notHandled d c cs = false ∧ isWordChar c = true := by
  have hne : ∀ k : Char, isAsciiWord k = false → c ≠ k := by
    intro k hk hc; subst hc; simp [hk] at h
  refine ⟨?_, hne _ (by decide), ?_, ?_, ?_, ?_⟩
  · simp only [isAsciiWord, isDigit, Bool.or_eq_true, Bool.and_eq_true, decide_eq_true_eq, beq_iff_eq] at h
    cases d <;> simp only [isWs, Bool.or_eq_false_iff, Bool.and_eq_false_iff, beq_eq_false_iff_ne, decide_eq_false_iff_not] <;> omega
  · cases d <;> simp only [strQuotes, List.mem_cons, List.not_mem_nil, or_false, not_or] <;>
      exact (by first | exact hne _ (by decide) | exact ⟨hne _ (by decide), hne _ (by decide)⟩)
  · cases d <;> simp only [idQuotes, List.mem_cons, List.not_mem_nil, or_false, not_or] <;>
      exact (by first | exact hne _ (by decide) | exact ⟨hne _ (by decide), hne _ (by decide)⟩)
  · have h1 := hne '/' (by decide); have h2 := hne '[' (by decide); have h3 := hne '$' (by decide)
    have h4 := hne '&' (by decide); have h5 := hne '#' (by decide)
    cases d <;> simp [notHandled, h1, h2, h3, h4, h5]
  · simp only [isAsciiWord, isDigit, Bool.or_eq_true, Bool.and_eq_true, decide_eq_true_eq, beq_iff_eq] at h
    simp only [isWordChar, isDigit, Bool.or_eq_true, Bool.and_eq_true, decide_eq_true_eq, beq_iff_eq]
    omega

theorem isWordChar_of_ascii {c : Char} (h : isAsciiWord c = true) : isWordChar c = true :=
  (asciiWord_facts .sqlite h []).2.2.2.2.2

theorem takeWhile_word (w rest : List Char) (hw : ∀ c ∈ w, isAsciiWord c = true)
    (hr : ∀ c, rest.head? = some c → isWordChar c = false) :
    (w ++ rest).takeWhile isWordChar = w ∧ (w ++ rest).dropWhile isWordChar = rest := by
  induction w with
  | nil =>
    cases rest with
    | nil => simp
    | cons c cs => have := hr c rfl; simp [this]
  | cons x xs ih =>
    have hx := isWordChar_of_ascii (hw x (by simp))
    have := ih (fun c hc => hw c (by simp [hc]))
    simp [hx, this]

/-- what may follow a bare word: nothing, or a character that neither extends the word nor opens a literal -/
def wordEnd (d : Dialect) (rest : List Char) : Prop :=
  ∀ c, rest.head? = some c → isWordChar c = false ∧ c ∉ strQuotes d

theorem lexSql_word {d : Dialect} (w rest : List Char) (hne : w ≠ []) (hw : ∀ c ∈ w, isAsciiWord c = true)
    (hr : wordEnd d rest) : lexSql d (w ++ rest) = (lexSql d rest).map (mkWord w :: ·) := by
  cases w with
  | nil => exact absurd rfl hne
  | cons c w' =>
    obtain ⟨h1, h2, h3, h4, h5, h6⟩ := asciiWord_facts d (hw c (by simp)) (w' ++ rest)
    obtain ⟨t1, t2⟩ := takeWhile_word w' rest (fun c hc => hw c (by simp [hc])) (fun c hc => (hr c hc).1)
    rw [List.cons_append, lexSql.eq_2]
    simp only [h1, h2, h3, h4, h5, h6, t1, t2]
    cases hrest : rest.head? with
    | none => simp
    | some q => simp [(hr q hrest).2]

/-! ## the lexers undo `quote_string` / `quote_identifier` -/



/-- the text `quote_identifier` returns when it does not raise -/
def identText (d : Dialect) (s : List Char) : List Char :=
  match d with
  | .bigquery => d.identQuote :: pyReplace '\r' ['\\', 'r'] (pyReplace '\n' ['\\', 'n'] (pyReplace '\\' ['\\', '\\'] s))
      ++ [d.identQuote]
  | _ => d.identQuote :: s ++ [d.identQuote]

/-- scope of the identifier claims: no identifier quote inside; not empty where the dialect forbids it -/
def IdentOk (d : Dialect) (s : List Char) : Prop :=
  d.identQuote ∉ s ∧ ((d = .postgres ∨ d = .bigquery) → s ≠ [])

theorem quoteIdent_ok {d : Dialect} {s : List Char} (h : d.identQuote ∉ s) : quoteIdent d s = .ok (identText d s) := by
  cases d <;> simp [quoteIdent, quoteIdentBase, identText, h]

theorem identQuote_mem (d : Dialect) : d.identQuote ∈ idQuotes d := by cases d <;> decide
theorem stringQuote_mem (d : Dialect) : d.stringQuote ∈ strQuotes d := by cases d <;> decide

theorem lexBodyStd_plain {q : Char} {s : List Char} (rest : List Char) (h : q ∉ s) (hr : rest.head? ≠ some q) :
    lexBodyStd q (s ++ q :: rest) = some (s, rest) := by
  have := lexBodyStd_roundtrip q s rest hr
  rwa [pyReplace_of_not_mem _ h] at this

theorem lexIdent_identText {d : Dialect} {s : List Char} (h : IdentOk d s) (rest : List Char)
    (hr : rest.head? ≠ some d.identQuote) : lexIdent d (identText d s ++ rest) = some (s, rest) := by
  obtain ⟨h1, h2⟩ := h
  cases d
  case bigquery =>
    have hs : s ≠ [] := h2 (.inr rfl)
    have hb := lexBodyBq_roundtrip '`' (.inr rfl) s rest
    simp only [bqEscStr, pyReplace_of_not_mem _ (show '`' ∉ pyReplace '\\' ['\\', '\\'] s from by
      intro hm; rcases mem_pyReplace hm with hm | hm
      · simp at hm
      · exact h1 hm.1)] at hb
    simp only [identText, Dialect.identQuote, List.cons_append, List.append_assoc, List.singleton_append, lexIdent,
      idQuotes, List.mem_singleton, if_true, hb]
    cases s with
    | nil => exact absurd rfl hs
    | cons x xs => simp only [List.nil_append] ; rw [hb]
  case postgres =>
    have hs : s ≠ [] := h2 (.inl rfl)
    have hb := lexBodyStd_plain (q := '"') rest h1 hr
    simp only [identText, Dialect.identQuote, List.cons_append, List.append_assoc, List.singleton_append, lexIdent,
      idQuotes, List.mem_singleton, if_true, hb]
    cases s with
    | nil => exact absurd rfl hs
    | cons x xs => simp only [List.nil_append] ; rw [hb]
  all_goals
    have hb := lexBodyStd_plain rest h1 hr
    simp [identText, Dialect.identQuote, lexIdent, idQuotes, hb] at hb ⊢
    try exact hb

theorem bqEsc_head_ne (q : Char) (hq : q = '"' ∨ q = '`') (x : Char) (xs : List Char) :
    ∃ y ys, bqEscStr q (x :: xs) = y :: ys ∧ y ≠ q := by
  have hq1 : '\\' ≠ q := by rcases hq with h | h <;> subst h <;> decide
  unfold bqEscStr
  by_cases h1 : x = '\\'
  · subst h1; exact ⟨'\\', _, by simp [pyReplace, hq1]; rfl, hq1⟩
  · by_cases h2 : x = q
    · subst h2
      refine ⟨'\\', ?_, ?_, hq1⟩
      · exact pyReplace '\r' ['\\', 'r'] (pyReplace '\n' ['\\', 'n'] (x :: pyReplace x ['\\', x] (pyReplace '\\' ['\\', '\\'] xs)))
      · simp [pyReplace, h1]
    · by_cases h3 : x = '\n'
      · subst h3; exact ⟨'\\', _, by simp [pyReplace, h2]; rfl, hq1⟩
      · by_cases h4 : x = '\r'
        · subst h4; exact ⟨'\\', _, by simp [pyReplace, h2]; rfl, hq1⟩
        · exact ⟨x, _, by simp [pyReplace, h1, h2, h3, h4]; rfl, h2⟩

theorem lexString_quoteString (d : Dialect) (s rest : List Char) (hr : rest.head? ≠ some d.stringQuote) :
    lexString d (quoteString d s ++ rest) = some (s, rest) := by
  cases d
  case sqlite =>
    have := lexBodyStd_roundtrip '\'' s rest hr
    simpa [quoteString, quoteStringBase, Dialect.stringQuote, lexString, strQuotes] using this
  case postgres =>
    have := lexBodyStd_roundtrip '\'' s rest hr
    simpa [quoteString, quoteStringBase, Dialect.stringQuote, lexString, strQuotes] using this
  case mysql =>
    have := lexBodyMy_roundtrip s rest hr
    simpa [quoteString, Dialect.stringQuote, lexString, strQuotes] using this
  case spark =>
    have := lexBodySpark_roundtrip s rest hr
    simpa [quoteString, Dialect.stringQuote, lexString, strQuotes] using this
  case bigquery =>
    have hb := lexBodyBq_roundtrip '"' (.inl rfl) s rest
    have hq : quoteString .bigquery s ++ rest = '"' :: (bqEscStr '"' s ++ '"' :: rest) := by
      simp [quoteString, Dialect.stringQuote, bqEscStr]
    rw [hq]
    simp only [lexString, strQuotes, List.mem_cons, List.not_mem_nil, or_false, or_true, if_true]
    cases s with
    | nil =>
      simp only [bqEscStr, pyReplace, List.nil_append] at hb ⊢
      cases rest with
      | nil => simpa using hb
      | cons c cs =>
        have : c ≠ '"' := by simpa [Dialect.stringQuote] using hr
        simp [this, hb]
    | cons x xs =>
      obtain ⟨y, ys, hy, hne⟩ := bqEsc_head_ne '"' (.inl rfl) x xs
      rw [hy] at hb ⊢
      cases hys : ys ++ '"' :: rest with
      | nil => simp at hys
      | cons z zs =>
        simp only [List.cons_append, hys] at hb ⊢
        simp [hne, hb]

theorem quoteString_cons (d : Dialect) (s : List Char) : ∃ cs, quoteString d s = d.stringQuote :: cs := by
  cases d <;> exact ⟨_, rfl⟩

theorem identText_cons (d : Dialect) (s : List Char) : ∃ cs, identText d s = d.identQuote :: cs := by
  cases d <;> exact ⟨_, rfl⟩

theorem lexSql_quoteString (d : Dialect) (s rest : List Char) (hr : rest.head? ≠ some d.stringQuote) :
    lexSql d (quoteString d s ++ rest) = (lexSql d rest).map (Tok.str s :: ·) := by
  have hl := lexString_quoteString d s rest hr
  obtain ⟨cs, hcs⟩ := quoteString_cons d s
  rw [hcs] at hl ⊢
  exact lexSql_str (stringQuote_mem d) hl (by simp; omega)

theorem lexSql_identText {d : Dialect} {s : List Char} (h : IdentOk d s) (rest : List Char)
    (hr : rest.head? ≠ some d.identQuote) :
    lexSql d (identText d s ++ rest) = (lexSql d rest).map (Tok.ident s :: ·) := by
  have hl := lexIdent_identText h rest hr
  obtain ⟨cs, hcs⟩ := identText_cons d s
  rw [hcs] at hl ⊢
  exact lexSql_ident (identQuote_mem d) hl (by simp; omega)


/-! ## pieces: generated SQL as a sequence of keywords, punctuation, blanks and quoted user text -/

inductive Piece where
  | kw (w : List Char)     -- bare word (keyword, alias, number)
  | p (c : Char)           -- punctuation
  | minus                  -- `-` of a negative number
  | sp                     -- one space
  | nl                     -- line break between two generated lines
  | str (s : List Char)    -- `quote_string(s)`
  | id (s : List Char)     -- `quote_identifier(s)` (when it does not raise)

def Piece.text (d : Dialect) : Piece → List Char
  | .kw w => w | .p c => [c] | .minus => ['-'] | .sp => [' '] | .nl => ['\n']
  | .str s => quoteString d s | .id s => identText d s

def Piece.toks : Piece → List Tok
  | .kw w => [mkWord w] | .p c => [.sym c] | .minus => [.sym '-'] | .sp => [] | .nl => []
  | .str s => [.str s] | .id s => [.ident s]

def Piece.Valid (d : Dialect) : Piece → Prop
  | .kw w => w ≠ [] ∧ ∀ c ∈ w, isAsciiWord c = true
  | .p c => isPunct c = true
  | .id s => IdentOk d s
  | _ => True

/-- blank or punctuation: may be followed and preceded by anything -/
def Piece.isOpen : Piece → Bool
  | .p _ => true | .sp => true | .nl => true | _ => false

/-- may `b` come directly after `a`? -/
def Piece.follows (a b : Piece) : Bool :=
  match b with
  | .p _ => true | .sp => true | .nl => true
  | .kw _ => a.isOpen || (match a with | .minus => true | _ => false)
  | _ => a.isOpen

def chainOk : List Piece → Bool
  | [] => true
  | [_] => true
  | a :: b :: r => a.follows b && chainOk (b :: r)

def renderPs (d : Dialect) (ps : List Piece) : List Char := ps.flatMap (Piece.text d)
def toksPs (ps : List Piece) : List Tok := ps.flatMap Piece.toks

/-- a character that ends any token before it and does not open a literal or a comment -/
def isBreak (c : Char) : Bool := c == ' ' || c == '\n' || isPunct c

def BreakStart (txt : List Char) : Prop := ∀ c, txt.head? = some c → isBreak c = true

theorem break_facts (d : Dialect) {c : Char} (h : isBreak c = true) :
    isWordChar c = false ∧ c ∉ strQuotes d ∧ c ∉ idQuotes d ∧ c ≠ '-' := by
  have : c = ' ' ∨ c = '\n' ∨ c = '(' ∨ c = ')' ∨ c = ',' ∨ c = '=' ∨ c = '.' ∨ c = '*' := by
    simpa [isBreak, isPunct, or_assoc] using h
  rcases this with h | h | h | h | h | h | h | h <;> subst h <;> cases d <;> decide

theorem BreakStart.wordEnd {d : Dialect} {rest : List Char} (h : BreakStart rest) : wordEnd d rest :=
  fun c hc => ⟨(break_facts d (h c hc)).1, (break_facts d (h c hc)).2.1⟩

theorem open_text_break (d : Dialect) {a : Piece} (h : a.isOpen = true) (hv : a.Valid d) (x : List Char) :
    BreakStart (a.text d ++ x) := by
  intro c hc
  cases a <;> simp [Piece.isOpen] at h
  · simp [Piece.text] at hc; subst hc; simp [isBreak, show isPunct _ = true from hv]
  · simp [Piece.text] at hc; subst hc; rfl
  · simp [Piece.text] at hc; subst hc; rfl

theorem lexSql_pieces (d : Dialect) (ps : List Piece) (hv : ∀ p ∈ ps, p.Valid d) (hw : chainOk ps = true)
    (rest : List Char) (hr : BreakStart rest) :
    lexSql d (renderPs d ps ++ rest) = (lexSql d rest).map (toksPs ps ++ ·) := by
  induction ps with
  | nil => simp [renderPs, toksPs]
  | cons a ps ih =>
    have hva := hv a (by simp)
    have hvs : ∀ p ∈ ps, p.Valid d := fun p hp => hv p (by simp [hp])
    have hws : chainOk ps = true := by
      cases ps with
      | nil => rfl
      | cons b r => simp [chainOk] at hw; exact hw.2
    have ih' := ih hvs hws
    -- what follows `a`
    have hnext : ∀ (need : a.isOpen = false), (∃ b r, ps = b :: r ∧ a.follows b = true) ∨ ps = [] := by
      intro _
      cases ps with
      | nil => exact .inr rfl
      | cons b r => simp [chainOk] at hw; exact .inl ⟨b, r, rfl, hw.1⟩
    have hfold : renderPs d (a :: ps) ++ rest = a.text d ++ (renderPs d ps ++ rest) := by
      simp [renderPs]
    have htoks : ∀ o : Option (List Tok), (o.map (toksPs ps ++ ·)).map (a.toks ++ ·) = o.map (toksPs (a :: ps) ++ ·) := by
      intro o; cases o <;> simp [toksPs]
    rw [hfold]
    -- the text after `a` starts with a break whenever `a` needs one
    have hbreak : a.isOpen = false → (match a with | .minus => False | _ => True) → BreakStart (renderPs d ps ++ rest) := by
      intro hopen hnm
      rcases hnext hopen with ⟨b, r, rfl, hf⟩ | rfl
      · have hb : b.isOpen = true := by
          cases a <;> cases b <;> simp_all [Piece.follows, Piece.isOpen]
        have := open_text_break d hb (hvs b (by simp)) (renderPs d r ++ rest)
        simpa [renderPs] using this
      · simpa [renderPs] using hr
    cases a with
    | kw w =>
      have hb := hbreak rfl trivial
      rw [show (Piece.kw w).text d = w from rfl, lexSql_word w _ hva.1 hva.2 hb.wordEnd, ih']
      exact htoks _
    | p c =>
      rw [show (Piece.p c).text d = [c] from rfl, List.singleton_append, lexSql_punct _ hva, ih']
      exact htoks _
    | minus =>
      have hh : (renderPs d ps ++ rest).head? ≠ some '-' := by
        rcases hnext rfl with ⟨b, r, rfl, hf⟩ | rfl
        · cases b <;> simp [Piece.follows, Piece.isOpen] at hf
          · -- kw
            rename_i w
            have hvb := hvs (.kw w) (by simp)
            cases w with
            | nil => exact absurd rfl hvb.1
            | cons c cs =>
              have := (asciiWord_facts d (hvb.2 c (by simp)) []).2.1
              simpa [renderPs, Piece.text] using this
          · simp [renderPs, Piece.text]; rename_i c; intro h; subst h
            have := hvs (.p '-') (by simp); simp [Piece.Valid, isPunct] at this
          · simp [renderPs, Piece.text]
          · simp [renderPs, Piece.text]
        · intro h; have := (break_facts d (hr _ (by simpa [renderPs] using h))).2.2.2; exact this rfl
      rw [show Piece.minus.text d = ['-'] from rfl, List.singleton_append, lexSql_minus _ hh, ih']
      exact htoks _
    | sp =>
      rw [show Piece.sp.text d = [' '] from rfl, List.singleton_append, lexSql_ws _ (by cases d <;> rfl), ih']
      simp [toksPs, Piece.toks]
    | nl =>
      rw [show Piece.nl.text d = ['\n'] from rfl, List.singleton_append, lexSql_ws _ (by cases d <;> rfl), ih']
      simp [toksPs, Piece.toks]
    | str s =>
      have hb := hbreak rfl trivial
      have : (renderPs d ps ++ rest).head? ≠ some d.stringQuote :=
        fun hc => (break_facts d (hb _ hc)).2.1 (stringQuote_mem d)
      rw [show (Piece.str s).text d = quoteString d s from rfl, lexSql_quoteString d s _ this, ih']
      exact htoks _
    | id s =>
      have hb := hbreak rfl trivial
      have : (renderPs d ps ++ rest).head? ≠ some d.identQuote :=
        fun hc => (break_facts d (hb _ hc)).2.2.1 (identQuote_mem d)
      rw [show (Piece.id s).text d = identText d s from rfl, lexSql_identText hva _ this, ih']
      exact htoks _

/-! ## decimal numerals -/


theorem digitChar_facts (n : Nat) : isDigit (digitChar n) = true ∧ (digitChar n).toNat - 48 = n % 10 := by
  have : ∀ k, k < 10 → isDigit (Char.ofNat (48 + k)) = true ∧ (Char.ofNat (48 + k)).toNat - 48 = k := by decide
  exact this (n % 10) (Nat.mod_lt _ (by omega))

theorem digitsVal_snoc (a : List Char) (c : Char) : digitsVal (a ++ [c]) = 10 * digitsVal a + (c.toNat - 48) := by
  simp [digitsVal, List.foldl_append]

theorem natDigits_facts (n : Nat) :
    natDigits n ≠ [] ∧ (∀ c ∈ natDigits n, isDigit c = true) ∧ digitsVal (natDigits n) = n := by
  fun_induction natDigits n with
  | case1 n h =>
    refine ⟨by simp, ?_, ?_⟩
    · intro c hc; simp at hc; subst hc; exact (digitChar_facts n).1
    · simp [digitsVal, (digitChar_facts n).2]; omega
  | case2 n h ih =>
    refine ⟨by simp, ?_, ?_⟩
    · intro c hc
      rcases List.mem_append.mp hc with hc | hc
      · exact ih.2.1 c hc
      · simp at hc; subst hc; exact (digitChar_facts n).1
    · rw [digitsVal_snoc, ih.2.2, (digitChar_facts n).2]; omega

theorem isAsciiWord_of_digit {c : Char} (h : isDigit c = true) : isAsciiWord c = true := by
  simp [isAsciiWord, h]

theorem mkWord_natDigits (n : Nat) : mkWord (natDigits n) = .num n := by
  obtain ⟨_, h2, h3⟩ := natDigits_facts n
  have : (natDigits n).all isDigit = true := by simpa [List.all_eq_true] using h2
  simp [mkWord, this, h3]




/-! ## composing piece lists -/

theorem follows_open_right (a : Piece) {b : Piece} (h : b.isOpen = true) : a.follows b = true := by
  cases b <;> simp [Piece.isOpen] at h <;> rfl

theorem follows_open_left {a : Piece} (b : Piece) (h : a.isOpen = true) : a.follows b = true := by
  cases b <;> simp [Piece.follows, h]

theorem chainOk_cons (a : Piece) (ps : List Piece) :
    chainOk (a :: ps) = true ↔ (∀ b, ps.head? = some b → a.follows b = true) ∧ chainOk ps = true := by
  cases ps with
  | nil => simp [chainOk]
  | cons b r => simp [chainOk]

theorem chainOk_append {a b : List Piece} (ha : chainOk a = true) (hb : chainOk b = true)
    (hj : ∀ x y, a.getLast? = some x → b.head? = some y → x.follows y = true) : chainOk (a ++ b) = true := by
  induction a with
  | nil => simpa using hb
  | cons x xs ih =>
    rw [List.cons_append, chainOk_cons]
    rw [chainOk_cons] at ha
    refine ⟨?_, ih ha.2 ?_⟩
    · intro y hy
      cases xs with
      | nil => exact hj x y (by simp) (by simpa using hy)
      | cons z zs => exact ha.1 y (by simpa using hy)
    · intro u v hu hv
      cases xs with
      | nil => simp at hu
      | cons z zs => exact hj u v (by simpa [List.getLast?_cons_cons] using hu) hv

/-- `b` starts with a blank or punctuation (or is empty) -/
def OpenHead (b : List Piece) : Prop := ∀ y, b.head? = some y → y.isOpen = true
/-- `a` ends with a blank or punctuation (or is empty) -/
def OpenLast (a : List Piece) : Prop := ∀ x, a.getLast? = some x → x.isOpen = true

theorem chainOk_append_openHead {a b : List Piece} (ha : chainOk a = true) (hb : chainOk b = true)
    (h : OpenHead b) : chainOk (a ++ b) = true :=
  chainOk_append ha hb (fun x y _ hy => follows_open_right x (h y hy))

theorem chainOk_append_openLast {a b : List Piece} (ha : chainOk a = true) (hb : chainOk b = true)
    (h : OpenLast a) : chainOk (a ++ b) = true :=
  chainOk_append ha hb (fun x y hx _ => follows_open_left y (h x hx))

theorem renderPs_append (d : Dialect) (a b : List Piece) : renderPs d (a ++ b) = renderPs d a ++ renderPs d b := by
  simp [renderPs]
theorem toksPs_append (a b : List Piece) : toksPs (a ++ b) = toksPs a ++ toksPs b := by
  simp [toksPs]

/-! ## value_to_sql as pieces -/

def PyVal.noFloat : PyVal → Bool
  | .float _ => false
  | .list l => noFloats l
  | _ => true
where noFloats : List PyVal → Bool
  | [] => true
  | v :: vs => v.noFloat && noFloats vs

mutual
def valPieces : PyVal → List Piece
  | .none => [.kw "NULL".toList]
  | .bool true => [.kw "TRUE".toList]
  | .bool false => [.kw "FALSE".toList]
  | .int i => (if i < 0 then [.minus] else []) ++ [.kw (natDigits i.natAbs)]
  | .str s => [.str s]
  | .float _ => []
  | .list l => .p '(' :: valsPieces l ++ [.p ')']
def valsPieces : List PyVal → List Piece
  | [] => []
  | [v] => valPieces v
  | v :: w :: vs => valPieces v ++ .p ',' :: .sp :: valsPieces (w :: vs)
end

/-- what we need of a piece list to place it anywhere between blanks / punctuation -/
structure GoodPieces (d : Dialect) (txt : List Char) (ps : List Piece) : Prop where
  text : txt = renderPs d ps
  valid : ∀ p ∈ ps, p.Valid d
  chain : chainOk ps = true

theorem GoodPieces.lexes {d : Dialect} {txt : List Char} {ps : List Piece} (h : GoodPieces d txt ps)
    (rest : List Char) (hr : BreakStart rest) :
    lexSql d (txt ++ rest) = (lexSql d rest).map (toksPs ps ++ ·) := by
  rw [h.text]; exact lexSql_pieces d ps h.valid h.chain rest hr

theorem GoodPieces.append_openHead {d : Dialect} {t1 t2 : List Char} {p1 p2 : List Piece}
    (h1 : GoodPieces d t1 p1) (h2 : GoodPieces d t2 p2) (h : OpenHead p2) : GoodPieces d (t1 ++ t2) (p1 ++ p2) :=
  ⟨by rw [h1.text, h2.text, renderPs_append], fun p hp => by
    rcases List.mem_append.mp hp with hp | hp
    · exact h1.valid p hp
    · exact h2.valid p hp, chainOk_append_openHead h1.chain h2.chain h⟩

theorem GoodPieces.append_openLast {d : Dialect} {t1 t2 : List Char} {p1 p2 : List Piece}
    (h1 : GoodPieces d t1 p1) (h2 : GoodPieces d t2 p2) (h : OpenLast p1) : GoodPieces d (t1 ++ t2) (p1 ++ p2) :=
  ⟨by rw [h1.text, h2.text, renderPs_append], fun p hp => by
    rcases List.mem_append.mp hp with hp | hp
    · exact h1.valid p hp
    · exact h2.valid p hp, chainOk_append_openLast h1.chain h2.chain h⟩

theorem kw_valid_digits (d : Dialect) (n : Nat) : (Piece.kw (natDigits n)).Valid d :=
  ⟨(natDigits_facts n).1, fun c hc => isAsciiWord_of_digit ((natDigits_facts n).2.1 c hc)⟩

theorem valPieces_good (d : Dialect) (v : PyVal) (h : v.noFloat = true) :
    GoodPieces d (valueToSql d v) (valPieces v) := by
  induction v using PyVal.rec (motive_2 := fun l => PyVal.noFloat.noFloats l = true →
      GoodPieces d (valuesToSql d l) (valsPieces l)) with
  | none => exact ⟨by simp [valueToSql, valPieces, renderPs, Piece.text], by
      intro p hp; simp [valPieces] at hp; subst hp; exact ⟨by simp, by decide⟩, rfl⟩
  | bool b =>
    cases b
    · exact ⟨by simp [valueToSql, valPieces, renderPs, Piece.text], by
        intro p hp; simp [valPieces] at hp; subst hp; exact ⟨by simp, by decide⟩, rfl⟩
    · exact ⟨by simp [valueToSql, valPieces, renderPs, Piece.text], by
        intro p hp; simp [valPieces] at hp; subst hp; exact ⟨by simp, by decide⟩, rfl⟩
  | int i =>
    by_cases hi : i < 0
    · refine ⟨by simp [valueToSql, intRepr, valPieces, hi, renderPs, Piece.text], ?_, by simp [valPieces, hi, chainOk, Piece.follows]⟩
      intro p hp; simp [valPieces, hi] at hp
      rcases hp with hp | hp <;> subst hp
      · trivial
      · exact kw_valid_digits d _
    · refine ⟨by simp [valueToSql, intRepr, valPieces, hi, renderPs, Piece.text], ?_, by simp [valPieces, hi, chainOk]⟩
      intro p hp; simp [valPieces, hi] at hp; subst hp; exact kw_valid_digits d _
  | str s => exact ⟨by simp [valueToSql, valPieces, renderPs, Piece.text], by
      intro p hp; simp [valPieces] at hp; subst hp; trivial, rfl⟩
  | float r => simp [PyVal.noFloat] at h
  | list l ih =>
    have hl := ih (by simpa [PyVal.noFloat] using h)
    have h1 : GoodPieces d ['('] [.p '('] := ⟨rfl, by intro p hp; simp at hp; subst hp; rfl, rfl⟩
    have h2 : GoodPieces d [')'] [.p ')'] := ⟨rfl, by intro p hp; simp at hp; subst hp; rfl, rfl⟩
    have h12 := (h1.append_openLast hl (by intro x hx; simp at hx; subst hx; rfl)).append_openHead h2
      (by intro y hy; simp at hy; subst hy; rfl)
    simpa [valueToSql, valPieces] using h12
  | nil => exact ⟨by simp [valuesToSql, valsPieces, renderPs], by simp [valsPieces], rfl⟩
  | cons v vs ihv ihvs =>
    rename_i hh
    simp only [PyVal.noFloat.noFloats, Bool.and_eq_true] at hh
    cases vs with
    | nil => simpa [valuesToSql, valsPieces] using ihv hh.1
    | cons w ws =>
      have hv := ihv hh.1
      have hs := ihvs hh.2
      have hsep : GoodPieces d [',', ' '] [.p ',', .sp] :=
        ⟨rfl, by intro p hp; simp at hp; rcases hp with hp | hp <;> subst hp <;> first | rfl | trivial, rfl⟩
      have := (hv.append_openHead hsep (by intro y hy; simp at hy; subst hy; rfl)).append_openLast hs
        (by intro x hx; simp [List.getLast?_append] at hx; subst hx; rfl)
      simpa [valuesToSql, valsPieces] using this

/-! ## annotation comments -/


/-- code points at which some consumer of text ends a line (`str.splitlines` of Python; a superset of what any
of the five dialects accepts as the end of a `--` comment) -/
def isLineBreak (c : Char) : Bool :=
  let n := c.toNat
  n == 0x0A || n == 0x0B || n == 0x0C || n == 0x0D || n == 0x1C || n == 0x1D || n == 0x1E || n == 0x85 ||
  n == 0x2028 || n == 0x2029

theorem lineBreak_isPySpace {c : Char} (h : isLineBreak c = true) : isPySpace c = true ∧ c ≠ ' ' := by
  refine ⟨?_, ?_⟩
  · simp only [isLineBreak, Bool.or_eq_true, beq_iff_eq] at h
    simp only [isPySpace, Bool.or_eq_true, Bool.and_eq_true, decide_eq_true_eq, beq_iff_eq]
    omega
  · intro hc; subst hc; simp [isLineBreak] at h

theorem commentEnd_lineBreak {d : Dialect} {c : Char} (h : commentEnd d c = true) : isLineBreak c = true := by
  cases d <;> simp [commentEnd] at h <;> (first | (subst h; rfl) | (rcases h with h | h <;> subst h <;> rfl))

theorem cleanAnnotation_no_commentEnd (d : Dialect) (a : List Char) :
    ∀ c ∈ cleanAnnotation a, commentEnd d c = false := by
  intro c hc
  cases h : commentEnd d c with
  | false => rfl
  | true =>
    have h1 := lineBreak_isPySpace (commentEnd_lineBreak h)
    exact absurd (cleanAnnotation_space hc h1.1) h1.2

theorem lexSql_comment {d : Dialect} (body rest : List Char) (hs : startsComment d (body ++ '\n' :: rest) = true)
    (hb : ∀ c ∈ body, commentEnd d c = false) (hsp : d = .spark → body.getLast? ≠ some '\\') :
    lexSql d ('-' :: '-' :: (body ++ '\n' :: rest)) = lexSql d rest := by
  rw [lexSql.eq_2]
  have h1 : isWs d '-' = false := by cases d <;> rfl
  have h2 : isWs d '\n' = true := by cases d <;> rfl
  simp only [h1, List.head?_cons, List.drop_one, List.tail_cons, hs, and_self, if_true, Bool.false_eq_true, if_false]
  rw [skipComment_body body rest hb hsp, lexSql_ws _ h2]

/-- the two shapes of an annotated `SELECT` line after `rstrip()` -/
theorem selectCommentLine_shape (a : List Char) :
    (cleanAnnotation a = [] ∧ selectCommentLine a = "SELECT  --".toList) ∨
    (cleanAnnotation a ≠ [] ∧ selectCommentLine a = "SELECT  -- ".toList ++ cleanAnnotation a) := by
  unfold selectCommentLine
  rcases pyStrip_shape (pyReplace '%' "percent".toList (collapseWs false (pyStrip a))) with h | ⟨u, c, h, hc⟩
  · left
    have : cleanAnnotation a = [] := h
    refine ⟨this, ?_⟩
    rw [this]; decide
  · right
    have : cleanAnnotation a = u ++ [c] := h
    refine ⟨by rw [this]; simp, ?_⟩
    rw [this, ← List.append_assoc, pyRstrip_append_last _ _ hc]

theorem lexSql_SELECT (d : Dialect) (rest : List Char) (h : wordEnd d rest) :
    lexSql d ("SELECT".toList ++ rest) = (lexSql d rest).map (Tok.word "SELECT".toList :: ·) := by
  rw [lexSql_word _ rest (by simp) (by decide) h]; rfl

theorem comment_inert (d : Dialect) (a rest : List Char)
    (hsp : d = .spark → (cleanAnnotation a).getLast? ≠ some '\\') :
    lexSql d (annotatedSelectLine a ++ '\n' :: rest) = lexSql d ("SELECT".toList ++ '\n' :: rest) := by
  by_cases ha : a = []
  · simp [annotatedSelectLine, ha]
  simp only [annotatedSelectLine, ha, if_false]
  have hsp1 : isWs d ' ' = true := by cases d <;> rfl
  have hnl : isWs d '\n' = true := by cases d <;> rfl
  have hwe : ∀ x, wordEnd d (' ' :: x) := by
    intro x c hc; simp at hc; subst hc; cases d <;> decide
  have hwn : ∀ x, wordEnd d ('\n' :: x) := by
    intro x c hc; simp at hc; subst hc; cases d <;> decide
  rw [lexSql_SELECT d _ (hwn rest), lexSql_ws _ hnl]
  rcases selectCommentLine_shape a with ⟨h0, h⟩ | ⟨h0, h⟩
  · rw [h]
    have : "SELECT  --".toList ++ '\n' :: rest = "SELECT".toList ++ ' ' :: ' ' :: '-' :: '-' :: ([] ++ '\n' :: rest) := by simp
    rw [this, lexSql_SELECT d _ (hwe _), lexSql_ws _ hsp1, lexSql_ws _ hsp1,
      lexSql_comment [] rest (by cases d <;> simp [startsComment, isWs]) (by simp) (by simp)]
  · rw [h]
    have : "SELECT  -- ".toList ++ cleanAnnotation a ++ '\n' :: rest
        = "SELECT".toList ++ ' ' :: ' ' :: '-' :: '-' :: ((' ' :: cleanAnnotation a) ++ '\n' :: rest) := by simp
    rw [this, lexSql_SELECT d _ (hwe _), lexSql_ws _ hsp1, lexSql_ws _ hsp1,
      lexSql_comment (' ' :: cleanAnnotation a) rest (by cases d <;> simp [startsComment, isWs])
        (by
          intro c hc; rcases List.mem_cons.mp hc with hc | hc
          · subst hc; cases d <;> rfl
          · exact cleanAnnotation_no_commentEnd d a c hc)
        (by
          intro hd
          cases hca : cleanAnnotation a with
          | nil => exact absurd hca h0
          | cons x xs => rw [List.getLast?_cons_cons, ← hca]; exact hsp hd)]

end DAVerif.Text
