import DAVerif.Spec.Perm
/-!
Order theory of the model's row comparison (`Val.lt`, `cellLe`, `rowLe`) and of `sortRows`/`sortIdx`.

* `Val.lt` is a strict total order on cells (`Val.lt_irrefl`, `Val.lt_trans`, `Val.lt_trichotomy`);
* `cellLe rev` is a total order on cells (total, transitive, antisymmetric), nulls last in both directions;
* `rowLe cs rev` is a total preorder on rows (`rowLe_total`, `rowLe_trans`, `rowLe_refl`) whose ties are exactly
  "equal on every order column" (`rowLe_tie_iff`);
* a sorted permutation is unique when ties are equalities (`perm_sorted_eq`), hence `sortRows` does not depend
  on the input order under `TotalOn` (`sortRows_perm_eq`).

Stable names: other property proofs (C01, C06, C07, C18) import these.
-/
namespace DAVerif

/-! ### `Val.lt` is a strict total order -/
namespace Val

theorem lt_irrefl (a : Val) : Val.lt a a = false := by
  cases a <;> simp [Val.lt, Val.rank]

theorem lt_trans {a b c : Val} (h1 : Val.lt a b = true) (h2 : Val.lt b c = true) : Val.lt a c = true := by
  cases a <;> cases b <;> cases c <;> simp_all [Val.lt, Val.rank]
  · exact Rat.not_le.mp (fun h => Rat.not_le.mpr h2 (Rat.le_trans h (Rat.le_of_lt h1)))
  · exact String.lt_trans h1 h2

theorem lt_trichotomy (a b : Val) : a = b ∨ Val.lt a b = true ∨ Val.lt b a = true := by
  cases a <;> cases b <;> simp [Val.lt, Val.rank]
  · rename_i x y; cases x <;> cases y <;> simp
  · rename_i x y
    rcases Rat.le_total (a := x) (b := y) with h | h
    · by_cases e : x = y
      · exact Or.inl e
      · exact Or.inr (Or.inl (Rat.lt_of_le_of_ne h e))
    · by_cases e : y = x
      · exact Or.inl e.symm
      · exact Or.inr (Or.inr (Rat.lt_of_le_of_ne h e))
  · rename_i x y
    rcases String.le_total x y with h | h
    · by_cases e : x = y
      · exact Or.inl e
      · refine Or.inr (Or.inl ?_)
        apply Classical.byContradiction
        intro hn
        exact e (String.le_antisymm h (String.not_lt.mp hn))
    · by_cases e : x = y
      · exact Or.inl e
      · refine Or.inr (Or.inr ?_)
        apply Classical.byContradiction
        intro hn
        exact e (String.le_antisymm (String.not_lt.mp hn) h)

theorem lt_asymm {a b : Val} (h : Val.lt a b = true) : Val.lt b a = false := by
  cases hb : Val.lt b a with
  | false => rfl
  | true =>
    have := lt_trans h hb
    rw [lt_irrefl] at this
    cases this

/-- negative transitivity: `≤` (the negation of `>`) is transitive -/
theorem nlt_trans {a b c : Val} (h1 : Val.lt b a = false) (h2 : Val.lt c b = false) : Val.lt c a = false := by
  cases h : Val.lt c a with
  | false => rfl
  | true =>
    rcases lt_trichotomy a b with e | e | e
    · subst e; rw [h] at h2; cases h2
    · have := lt_trans h e; rw [this] at h2; cases h2
    · rw [e] at h1; cases h1

theorem eq_of_nlt {a b : Val} (h1 : Val.lt a b = false) (h2 : Val.lt b a = false) : a = b := by
  rcases lt_trichotomy a b with e | e | e
  · exact e
  · rw [e] at h1; cases h1
  · rw [e] at h2; cases h2

end Val

/-! ### `cellLe` is a total order on cells (nulls last) -/

theorem cellLe_refl (rev : Bool) (a : Val) : cellLe rev a a = true := by
  cases h : a.isNull <;> cases rev <;> simp [cellLe, h, Val.lt_irrefl]

theorem cellLe_total (rev : Bool) (a b : Val) : (cellLe rev a b || cellLe rev b a) = true := by
  cases ha : a.isNull <;> cases hb : b.isNull <;> simp [cellLe, ha, hb]
  cases rev <;> simp
  · cases h : Val.lt b a with
    | false => simp
    | true => simp [Val.lt_asymm h]
  · cases h : Val.lt a b with
    | false => simp
    | true => simp [Val.lt_asymm h]

theorem cellLe_trans {rev : Bool} {a b c : Val} (h1 : cellLe rev a b = true) (h2 : cellLe rev b c = true) :
    cellLe rev a c = true := by
  cases ha : a.isNull <;> cases hb : b.isNull <;> cases hc : c.isNull <;>
    simp [cellLe, ha, hb, hc] at h1 h2 ⊢
  cases rev <;> simp at h1 h2 ⊢
  · exact Val.nlt_trans h1 h2
  · exact Val.nlt_trans h2 h1

theorem cellLe_antisymm {rev : Bool} {a b : Val} (h1 : cellLe rev a b = true) (h2 : cellLe rev b a = true) :
    a = b := by
  cases ha : a.isNull <;> cases hb : b.isNull <;> simp [cellLe, ha, hb] at h1 h2
  · cases rev <;> simp at h1 h2
    · exact Val.eq_of_nlt h2 h1
    · exact Val.eq_of_nlt h1 h2
  · cases a <;> cases b <;> simp_all [Val.isNull]

@[simp] theorem cellEq_iff (a b : Val) : cellEq a b = true ↔ a = b := by
  simp [cellEq]

/-! ### `rowLe` is a total preorder on rows -/

theorem rowLe_refl (cs rev : List String) (r : Row) : rowLe cs rev r r = true := by
  induction cs with
  | nil => rfl
  | cons c cs ih => simp [rowLe, cellEq, ih]

theorem rowLe_total (cs rev : List String) (a b : Row) : (rowLe cs rev a b || rowLe cs rev b a) = true := by
  induction cs with
  | nil => rfl
  | cons c cs ih =>
    simp only [rowLe]
    by_cases e : a.get c = b.get c
    · simp [cellEq, e, ih]
    · have e' : ¬ b.get c = a.get c := fun h => e h.symm
      simp [cellEq, e, e', cellLe_total]

theorem rowLe_trans {cs rev : List String} {a b c : Row} (h1 : rowLe cs rev a b = true)
    (h2 : rowLe cs rev b c = true) : rowLe cs rev a c = true := by
  induction cs with
  | nil => rfl
  | cons k cs ih =>
    simp only [rowLe, cellEq, beq_iff_eq] at h1 h2 ⊢
    by_cases e1 : a.get k = b.get k
    · by_cases e2 : b.get k = c.get k
      · simp only [e1, e2, if_true] at h1 h2 ⊢
        exact ih h1 h2
      · have e3 : ¬ a.get k = c.get k := by rw [e1]; exact e2
        simp only [e1, e2, if_true, if_false] at h1 h2 ⊢
        exact h2
    · by_cases e2 : b.get k = c.get k
      · have e3 : ¬ a.get k = c.get k := by rw [← e2]; exact e1
        simp only [e2, e3, if_true, if_false] at h1 h2 ⊢
        exact h1
      · simp only [e1, e2, if_false] at h1 h2
        have e3 : ¬ a.get k = c.get k := by
          intro e3
          rw [← e3] at h2
          exact e1 (cellLe_antisymm h1 h2)
        simp only [e3, if_false]
        exact cellLe_trans h1 h2

/-- a tie in the row order is exactly equality on every order column -/
theorem rowLe_tie_iff (cs rev : List String) (a b : Row) :
    (rowLe cs rev a b = true ∧ rowLe cs rev b a = true) ↔ ∀ c ∈ cs, a.get c = b.get c := by
  induction cs with
  | nil => simp [rowLe]
  | cons k cs ih =>
    simp only [rowLe, cellEq, beq_iff_eq, List.mem_cons, forall_eq_or_imp]
    by_cases e : a.get k = b.get k
    · simp only [e, if_true, true_and]
      exact ih
    · have e' : ¬ b.get k = a.get k := fun h => e h.symm
      simp only [e, e', if_false, false_and, iff_false]
      intro h
      exact e (cellLe_antisymm h.1 h.2)

theorem rowLe_of_eq_on {cs rev : List String} {a b : Row} (h : ∀ c ∈ cs, a.get c = b.get c) :
    rowLe cs rev a b = true := ((rowLe_tie_iff cs rev a b).mpr h).1

/-- `rowLe` only reads the order columns -/
theorem rowLe_congr {cs rev : List String} {a a' b b' : Row} (ha : ∀ c ∈ cs, a.get c = a'.get c)
    (hb : ∀ c ∈ cs, b.get c = b'.get c) : rowLe cs rev a b = rowLe cs rev a' b' := by
  induction cs with
  | nil => rfl
  | cons k cs ih =>
    simp only [rowLe]
    rw [ha k (List.mem_cons_self ..), hb k (List.mem_cons_self ..),
      ih (fun c hc => ha c (List.mem_cons_of_mem _ hc)) (fun c hc => hb c (List.mem_cons_of_mem _ hc))]

/-! ### sorted permutations -/

/-- Two sorted lists with the same elements are equal when ties between their elements are equalities. -/
theorem perm_sorted_eq {α : Type} {le : α → α → Prop} :
    ∀ {l₁ l₂ : List α}, l₁.Perm l₂ → l₁.Pairwise le → l₂.Pairwise le →
      (∀ a ∈ l₁, ∀ b ∈ l₁, le a b → le b a → a = b) → l₁ = l₂
  | [], l₂, hp, _, _, _ => by rw [List.nil_perm.mp hp]
  | a :: l₁, [], hp, _, _, _ => by simpa using hp.length_eq
  | a :: l₁, b :: l₂, hp, h1, h2, anti => by
    have hab : a = b := by
      have ha : a ∈ b :: l₂ := hp.subset (List.mem_cons_self ..)
      have hb : b ∈ a :: l₁ := hp.symm.subset (List.mem_cons_self ..)
      rcases List.mem_cons.mp ha with e | ha'
      · exact e
      · rcases List.mem_cons.mp hb with e | hb'
        · exact e.symm
        · exact anti a (List.mem_cons_self ..) b hb ((List.pairwise_cons.mp h1).1 b hb')
            ((List.pairwise_cons.mp h2).1 a ha')
    subst hab
    have hp' : l₁.Perm l₂ := List.Perm.cons_inv hp
    rw [perm_sorted_eq hp' (List.pairwise_cons.mp h1).2 (List.pairwise_cons.mp h2).2
      (fun x hx y hy => anti x (List.mem_cons_of_mem _ hx) y (List.mem_cons_of_mem _ hy))]

theorem TotalOn.perm {cs rev : List String} {rows rows' : List Row} (h : TotalOn cs rev rows)
    (hp : rows.Perm rows') : TotalOn cs rev rows' :=
  fun a ha b hb => h a (hp.symm.subset ha) b (hp.symm.subset hb)

theorem TotalOn.sublist {cs rev : List String} {rows rows' : List Row} (h : TotalOn cs rev rows)
    (hs : ∀ r ∈ rows', r ∈ rows) : TotalOn cs rev rows' :=
  fun a ha b hb => h a (hs a ha) b (hs b hb)

/-- readable form: two rows of the list that agree on every order column are the same row -/
theorem totalOn_iff (cs rev : List String) (rows : List Row) :
    TotalOn cs rev rows ↔ ∀ a ∈ rows, ∀ b ∈ rows, (∀ c ∈ cs, a.get c = b.get c) → a = b := by
  constructor
  · intro h a ha b hb hab
    have := (rowLe_tie_iff cs rev a b).mpr hab
    exact h a ha b hb this.1 this.2
  · intro h a ha b hb h1 h2
    exact h a ha b hb ((rowLe_tie_iff cs rev a b).mp ⟨h1, h2⟩)

theorem sortRows_perm (cs rev : List String) (rows : List Row) : (sortRows cs rev rows).Perm rows :=
  List.mergeSort_perm _ _

theorem sortRows_sorted (cs rev : List String) (rows : List Row) :
    (sortRows cs rev rows).Pairwise (fun a b => rowLe cs rev a b = true) :=
  List.pairwise_mergeSort (le := fun a b => rowLe cs rev a b) (fun _ _ _ => rowLe_trans)
    (fun a b => rowLe_total cs rev a b) rows

@[simp] theorem mem_sortRows {cs rev : List String} {rows : List Row} {r : Row} :
    r ∈ sortRows cs rev rows ↔ r ∈ rows := List.mem_mergeSort

@[simp] theorem length_sortRows {cs rev : List String} {rows : List Row} :
    (sortRows cs rev rows).length = rows.length := List.length_mergeSort _

/-- a sorted list is a fixed point of the (stable) sort -/
theorem sortRows_of_sorted {cs rev : List String} {rows : List Row}
    (h : rows.Pairwise (fun a b => rowLe cs rev a b = true)) : sortRows cs rev rows = rows :=
  List.mergeSort_of_pairwise h

/-- Under `TotalOn` any sorted permutation of the rows *is* the sort. -/
theorem sortRows_eq_of_sorted_perm {cs rev : List String} {rows l : List Row} (ht : TotalOn cs rev rows)
    (hp : l.Perm rows) (hs : l.Pairwise (fun a b => rowLe cs rev a b = true)) : sortRows cs rev rows = l :=
  perm_sorted_eq ((sortRows_perm cs rev rows).trans hp.symm) (sortRows_sorted cs rev rows) hs
    (fun a ha b hb => ht a (mem_sortRows.mp ha) b (mem_sortRows.mp hb))

/-- Under `TotalOn` the sort does not depend on the order of the input. -/
theorem sortRows_perm_eq {cs rev : List String} {rows rows' : List Row} (ht : TotalOn cs rev rows)
    (hp : rows.Perm rows') : sortRows cs rev rows = sortRows cs rev rows' :=
  sortRows_eq_of_sorted_perm ht ((sortRows_perm cs rev rows').trans hp.symm) (sortRows_sorted cs rev rows')

/-- the unordered "sort" (no order columns) is the identity: windows without `order_by` see the partition in
input order -/
theorem sortRows_nil (rev : List String) (rows : List Row) : sortRows [] rev rows = rows :=
  sortRows_of_sorted (List.pairwise_of_forall (fun _ _ => rfl))

/-- `sortIdx` is `sortRows` on the rows, carrying the indices along -/
theorem sortIdx_map_fst (cs rev : List String) (l : List (Row × Nat)) :
    (sortIdx cs rev l).map (·.1) = sortRows cs rev (l.map (·.1)) :=
  List.map_mergeSort (fun _ _ _ _ => rfl)

theorem sortIdx_perm (cs rev : List String) (l : List (Row × Nat)) : (sortIdx cs rev l).Perm l :=
  List.mergeSort_perm _ _

/-! ### the readable form of `rowLe` -/

theorem Val.lt_flip_of_ne {x y : Val} (hne : x ≠ y) : Val.lt y x = !Val.lt x y := by
  cases h : Val.lt x y with
  | true => simp [Val.lt_asymm h]
  | false =>
    rcases Val.lt_trichotomy x y with e | e | e
    · exact absurd e hne
    · rw [h] at e; cases e
    · simp [e]

theorem cellLe_iff_cellBefore {rev : Bool} {x y : Val} (hne : x ≠ y) :
    cellLe rev x y = true ↔ CellBefore rev x y := by
  unfold CellBefore cellLe
  cases hx : x.isNull <;> cases hy : y.isNull <;> simp
  · cases rev <;> simp
    · exact Val.lt_flip_of_ne hne
    · exact Val.lt_flip_of_ne (Ne.symm hne)
  · cases x <;> cases y <;> simp_all [Val.isNull]

/-- the model's row comparison is the lexicographic order just described -/
theorem rowLe_iff_lexLe (cs rev : List String) (a b : Row) : rowLe cs rev a b = true ↔ LexLe cs rev a b := by
  induction cs with
  | nil => simp [rowLe, LexLe]
  | cons k cs ih =>
    simp only [rowLe, cellEq, beq_iff_eq]
    by_cases e : a.get k = b.get k
    · simp only [e, if_true, ih]
      constructor
      · rintro (h | ⟨pre, c, post, h1, h2, h3, h4⟩)
        · exact Or.inl (fun c hc => (List.mem_cons.mp hc).elim (fun h' => h' ▸ e) (h c))
        · exact Or.inr ⟨k :: pre, c, post, by rw [h1]; rfl,
            fun d hd => (List.mem_cons.mp hd).elim (fun h' => h' ▸ e) (h2 d), h3, h4⟩
      · rintro (h | ⟨pre, c, post, h1, h2, h3, h4⟩)
        · exact Or.inl (fun c hc => h c (List.mem_cons_of_mem _ hc))
        · cases pre with
          | nil =>
            simp only [List.nil_append, List.cons.injEq] at h1
            exact absurd (h1.1 ▸ e) h3
          | cons p pre =>
            simp only [List.cons_append, List.cons.injEq] at h1
            exact Or.inr ⟨pre, c, post, h1.2, fun d hd => h2 d (List.mem_cons_of_mem _ hd), h3, h4⟩
    · simp only [e, if_false]
      rw [cellLe_iff_cellBefore e]
      constructor
      · intro h
        exact Or.inr ⟨[], k, cs, rfl, fun d hd => absurd hd List.not_mem_nil, e, h⟩
      · rintro (h | ⟨pre, c, post, h1, h2, h3, h4⟩)
        · exact absurd (h k (List.mem_cons_self ..)) e
        · cases pre with
          | nil =>
            simp only [List.nil_append, List.cons.injEq] at h1
            rw [h1.1]; exact h4
          | cons p pre =>
            simp only [List.cons_append, List.cons.injEq] at h1
            exact absurd (h2 p (List.mem_cons_self ..)) (h1.1 ▸ e)

end DAVerif
