/-!
Counting lemmas for C21 (no imports): sums of "number of smaller elements" over a duplicate-free list of naturals,
sums over `List.range`, counting with exclusive alternatives.
-/
namespace DAVerif.Sol

theorem countP_or_excl {α : Type} (p q : α → Bool) (l : List α) (h : ∀ x ∈ l, ¬ (p x = true ∧ q x = true)) :
    l.countP (fun x => p x || q x) = l.countP p + l.countP q := by
  induction l with
  | nil => rfl
  | cons a l ih =>
    have ih' := ih (fun x hx => h x (List.mem_cons_of_mem _ hx))
    have ha := h a List.mem_cons_self
    simp only [List.countP_cons, ih']
    cases hp : p a <;> cases hq : q a <;> simp_all <;> omega

theorem countP_congr_mem {α : Type} {p q : α → Bool} {l : List α} (h : ∀ x ∈ l, p x = q x) :
    l.countP p = l.countP q := by
  induction l with
  | nil => rfl
  | cons a l ih =>
    simp only [List.countP_cons, h a List.mem_cons_self, ih (fun x hx => h x (List.mem_cons_of_mem _ hx))]

theorem countP_lt_add_gt (a : Nat) (t : List Nat) (h : a ∉ t) :
    t.countP (fun y => decide (y < a)) + t.countP (fun y => decide (a < y)) = t.length := by
  induction t with
  | nil => rfl
  | cons b t ih =>
    have hb : a ≠ b := fun e => h (e ▸ List.mem_cons_self)
    have ih' := ih (fun e => h (List.mem_cons_of_mem _ e))
    simp only [List.countP_cons, List.length_cons]
    by_cases h1 : b < a
    · have h2 : ¬ a < b := by omega
      simp only [h1, h2, decide_true, decide_false, if_true]; simp; omega
    · have h2 : a < b := by omega
      simp only [h1, h2, decide_true, decide_false, if_true]; simp; omega

/-- the numbers of smaller elements of the elements of a duplicate-free list add up to `0 + 1 + … + (n-1)` -/
theorem sum_countP_lt (xs : List Nat) (hnd : xs.Nodup) :
    2 * (xs.map (fun x => xs.countP (fun y => decide (y < x)))).sum + xs.length = xs.length * xs.length := by
  induction xs with
  | nil => rfl
  | cons a t ih =>
    obtain ⟨hat, hnt⟩ := List.nodup_cons.mp hnd
    have ih' := ih hnt
    have h1 : ((a :: t).map (fun x => (a :: t).countP (fun y => decide (y < x)))).sum
        = t.countP (fun y => decide (y < a)) +
          ((t.map (fun x => t.countP (fun y => decide (y < x)))).sum + t.countP (fun y => decide (a < y))) := by
      simp only [List.map_cons, List.sum_cons, List.countP_cons, Nat.lt_irrefl, decide_false]
      have : ∀ (l : List Nat), (l.map (fun x => t.countP (fun y => decide (y < x)) + if decide (a < x) = true then 1 else 0)).sum
          = (l.map (fun x => t.countP (fun y => decide (y < x)))).sum + l.countP (fun y => decide (a < y)) := by
        intro l
        induction l with
        | nil => rfl
        | cons b l ihl =>
          simp only [List.map_cons, List.sum_cons, List.countP_cons, ihl]
          omega
      rw [this t]
      simp
    have h2 := countP_lt_add_gt a t hat
    rw [h1]
    simp only [List.length_cons]
    have : (t.length + 1) * (t.length + 1) = t.length * t.length + 2 * t.length + 1 := by
      rw [Nat.add_mul, Nat.mul_add]; omega
    rw [this]
    omega

theorem sum_range_id (m : Nat) : 2 * ((List.range m).map (fun e => e)).sum + m = m * m := by
  induction m with
  | zero => rfl
  | succ m ih =>
    rw [List.range_succ, List.map_append, List.sum_append]
    simp only [List.map_cons, List.map_nil, List.sum_cons, List.sum_nil]
    have : (m + 1) * (m + 1) = m * m + 2 * m + 1 := by
      rw [Nat.add_mul, Nat.mul_add]; omega
    rw [this]
    omega

theorem sum_map_add_const {α : Type} (l : List α) (f : α → Nat) (c : Nat) :
    (l.map (fun x => c + f x + 1)).sum = l.length * (c + 1) + (l.map f).sum := by
  induction l with
  | nil => simp
  | cons a l ih =>
    simp only [List.map_cons, List.sum_cons, ih, List.length_cons, Nat.add_mul]
    omega

/-- **Positions of a tie group.**  If the `m` members of a group have `L + (number of members with a smaller
tie-breaking number)` strict predecessors each, and the tie-breaking numbers are different, their 1-based
positions add up to `(L+1) + … + (L+m)`. -/
theorem sum_positions (T : List Nat) (hnd : T.Nodup) (L : Nat) :
    (T.map (fun x => L + T.countP (fun y => decide (y < x)) + 1)).sum
      = ((List.range T.length).map (fun e => L + e + 1)).sum := by
  rw [sum_map_add_const T (fun x => T.countP (fun y => decide (y < x))) L,
    sum_map_add_const (List.range T.length) (fun e => e) L, List.length_range]
  have h1 := sum_countP_lt T hnd
  have h2 := sum_range_id T.length
  omega

end DAVerif.Sol
