import DAVerif.Proofs.SqlReach
import DAVerif.Proofs.SqlMergeTrans
/-!
C01/C04: the main induction of the translation proof **for every dialect configuration** (`cfg.merges` on or off).

* `TransOKM` – second induction claim: every translation result satisfies the invariant of mergeable steps
  (`MergeInv`);
* `transOK_extend_merge` – the `extend` node with the extend merge (replaces `transOK_extend`);
* `transOKM_*` – the other nodes keep `MergeInv` (they emit steps that are not marked mergeable, or apply
  `setTermKeys` to the translated source);
* `transOK_frag_merges`, `stageA_root_merges`.
-/
namespace DAVerif
namespace Sql
open DAVerif.Ops (usedFromSources unionL)
open Rules26 (usedBy keys)

variable {Θ : Interp} {ec : EngineCfg} {env : Env} {scfg : SemCfg} {G : Near → Prop} {cfg : SqlCfg}

/-- **The second induction claim**: every successful translation of `p` (for a request within its columns, when
`p` evaluates) satisfies the invariant of mergeable steps. -/
def TransOKM (Θ : Interp) (ec : EngineCfg) (env : Env) (scfg : SemCfg) (cfg : SqlCfg) (fuel : Nat) (p : Ops) : Prop :=
  ∀ (u : List String) (st : Nat) (q : Near) (st' : Nat) (tp : Table),
    (∀ c ∈ u, c ∈ p.cols) → toNear cfg fuel p (some u) st = .ok (q, st') →
    semE ec Θ scfg env p = .ok tp → MergeInv q

theorem transOKM_zero (Θ : Interp) (ec : EngineCfg) (env : Env) (scfg : SemCfg) (cfg : SqlCfg) (p : Ops) :
    TransOKM Θ ec env scfg cfg 0 p :=
  fun _ _ _ _ _ _ h _ => absurd h toNear_zero_ne_ok

/-! ### extend, with the merge -/

/-- **`transOK_extend_merge`** (replaces `transOK_extend`, any `cfg`): if the translation of the source satisfies
both induction claims, so does the translation of the extend node – whether the node is pruned, a new step is
emitted, or (`cfg.merges`, mergeable source step, `contention = ∅`) its entries are merged into the step of the
source. -/
theorem transOK_extend_merge (hG : ShapeOK Θ ec env G) (fuel : Nat) (src : Ops) (ops : Assign)
    (part order rev : List String) (w : Bool) (hext : ExtOK src.cols ops part order rev w)
    (ih : TransOK Θ ec env scfg G cfg fuel src) (ihM : TransOKM Θ ec env scfg cfg fuel src) :
    TransOK Θ ec env scfg G cfg (fuel + 1) (.extend src ops part order rev w) ∧
      TransOKM Θ ec env scfg cfg (fuel + 1) (.extend src ops part order rev w) := by
  suffices hboth : ∀ (u : List String) (st : Nat) (q : Near) (st' : Nat) (tp : Table),
      (∀ c ∈ u, c ∈ (Ops.extend src ops part order rev w).cols) →
      toNear cfg (fuel + 1) (.extend src ops part order rev w) (some u) st = .ok (q, st') →
      semE ec Θ scfg env (.extend src ops part order rev w) = .ok tp →
      (G q ∧ ∃ u₁, (∀ c ∈ u, c ∈ u₁) ∧ (∀ c ∈ u₁, c ∈ (Ops.extend src ops part order rev w).cols) ∧
        Sound Θ ec env q u₁ (Ops.extend src ops part order rev w).cols tp) ∧ MergeInv q from
    ⟨fun u st q st' tp hu h hsem => (hboth u st q st' tp hu h hsem).1,
      fun u st q st' tp hu h hsem => (hboth u st q st' tp hu h hsem).2⟩
  intro u st q st' tp hu h hsem
  obtain ⟨ts, hts, rfl⟩ := semE_extend_inv hsem
  have hncols : ∀ c, c ∈ (Ops.extend src ops part order rev w).cols ↔ c ∈ src.cols ∨ c ∈ ops.map (·.1) := by
    intro c; simp only [Ops.cols]; exact mem_appendNew
  have huusg : ∀ c ∈ u, c ∈ extUsg u part order rev := fun c hc => mem_usg.mpr (Or.inl hc)
  rcases toNear_extend_inv h with ⟨hempty, h'⟩ | ⟨hne, husgn, sub, st3, h5, hcase⟩
  · -- no assignment is needed: the source is translated for the enlarged column set
    have husgn : ∀ c ∈ extUsg u part order rev, c ∈ (Ops.extend src ops part order rev w).cols := by
      obtain ⟨_, hpart, hord, hrev, _⟩ := hext
      intro c hc
      rcases mem_usg.mp hc with h | h | h | h
      · exact hu c h
      · exact (hncols c).mpr (Or.inl (hpart c h))
      · exact (hncols c).mpr (Or.inl (hord c h))
      · exact (hncols c).mpr (Or.inl (hord c (hrev c h)))
    have hnokey : ∀ c ∈ extUsg u part order rev, c ∉ ops.map (·.1) := by
      intro c hc hk
      obtain ⟨kv, hkv, rfl⟩ := List.mem_map.mp hk
      have : kv ∈ extSubops ops (extUsg u part order rev) := List.mem_filter.mpr ⟨hkv, by simpa using hc⟩
      rw [List.isEmpty_iff.mp hempty] at this
      cases this
    have husgsrc : ∀ c ∈ extUsg u part order rev, c ∈ src.cols := by
      intro c hc
      rcases (hncols c).mp (husgn c hc) with h | h
      · exact h
      · exact absurd h (hnokey c hc)
    obtain ⟨hGq, S₁, hS₁, _, hsound⟩ := ih _ st q st' ts husgsrc h' hts
    refine ⟨⟨hGq, extUsg u part order rev, huusg, husgn, ?_⟩, ihM _ st q st' ts husgsrc h' hts⟩
    exact (hsound.restrict hS₁).mono (fun c hc => (hncols c).mpr (Or.inl hc))
      (fun u' hu' => extRef_passrows Θ ec src ops part order rev w ts
        (fun c hc => ⟨husgn c (hu' c hc), hnokey c (hu' c hc)⟩))
  · have hF := extFacts hext hu hne
    generalize hSdef : ((Ops.extend src ops part order rev w).usedFromSources (extUsg u part order rev)).headD [] = S
      at h5 hcase hF
    generalize husgdef : extUsg u part order rev = usg at huusg hne husgn hcase hF
    obtain ⟨_, S₁, hS₁, _, hsound⟩ := ih S st sub st3 ts hF.Ssrc h5 hts
    have hMsub := ihM S st sub st3 ts hF.Ssrc h5 hts
    have hTok := extend_termsOK hF
    have hmk : mkTerms (extTerms ops usg (extWin part order rev w)) = some (extTerms ops usg (extWin part order rev w)) := by
      simp [mkTerms, hF.tne]
    rcases hcase with ⟨rfl, rfl⟩ | ⟨hmg, sname, sterms, sagg, ssub, scols, sdeps, skey, rfl, hcont, rfl, rfl⟩
    · -- a new step is emitted
      refine ⟨⟨hG.simple _ rfl, usg, huusg, husgn, extend_step_sound hext hF hsound hS₁ st3 _⟩, ?_⟩
      unfold extFallback
      rw [hmk]
      exact mergeInv_unary hTok
    · -- our entries are merged into the step of the source
      obtain ⟨rfl, _, ts', sc, ds', hts', rfl, hds', hsubOK⟩ := hMsub _ _ _ _ _ _ _ _ rfl
      cases hts'
      cases hds'
      have hstep := extend_step_sound (Θ := Θ) (ec := ec) (env := env) hext hF hsound hS₁ st'
        (extDeps ops usg (extWindowVars part order w))
      -- the columns we request from the source step are among its keys
      have hSkeys : ∀ x ∈ S, x ∈ sterms.map (·.1) := by
        intro x hx
        have hne1 : S₁ ≠ [] := by
          intro e; have := hS₁ x hx; rw [e] at this; cases this
        obtain ⟨ks, hk, _, hk2⟩ := hsound.keys hne1
        simp only [Near.termKeys, Option.map_some, Option.some.injEq] at hk
        subst hk
        exact hk2 x (hS₁ x hx)
      have hkeysM : ∀ k, k ∈ (mergeDict (nonTrivialTerms (extDeps ops usg (extWindowVars part order w))
            (extTerms ops usg (extWin part order rev w))) (extTerms ops usg (extWin part order rev w)) sterms
            ((extTerms ops usg (extWin part order rev w)).map (·.1))).map (·.1) ↔ k ∈ usg := by
        intro k
        rw [keys_mergeDict, hF.keysT]
        constructor
        · exact fun h => h.1
        · intro hk
          refine ⟨hk, ?_⟩
          by_cases hnt : k ∈ nonTrivialTerms (extDeps ops usg (extWindowVars part order w))
              (extTerms ops usg (extWin part order rev w))
          · exact Or.inl ⟨hnt, hk⟩
          · right
            have hkt := (hF.keysT (extWin part order rev w) k).mpr hk
            cases hl : lookupLast (extTerms ops usg (extWin part order rev w)) k with
            | none => exact absurd hkt (lookupLast_eq_none_iff.mp hl)
            | some tm =>
              have := our_pass hTok hnt hl
              subst this
              exact hSkeys k (hTok.inSrc k .pass hl k (by simp [termReads]))
      refine ⟨⟨hG.simple _ rfl, usg, huusg, husgn, ?_, ?_⟩, ?_⟩
      · intro u' hu' force
        obtain ⟨T, t1, _, t4⟩ := hstep.req u' hu' force
        unfold extFallback at t1
        rw [hmk] at t1
        obtain ⟨T', m1, m2, m4⟩ := merge_sound (key' := keyOfNode "extend" (.extend src ops part order rev w)
          ((mergeDict (nonTrivialTerms (extDeps ops usg (extWindowVars part order w))
            (extTerms ops usg (extWin part order rev w))) (extTerms ops usg (extWin part order rev w)) sterms
            ((extTerms ops usg (extWin part order rev w)).map (·.1))).map (·.1))) hsubOK hTok hcont
          (fun c hc => (hF.keysT _ c).mpr (hu' c hc)) force t1
        exact ⟨T', m1, m2, m4.trans t4⟩
      · intro _
        exact ⟨_, rfl, fun k hk => husgn k ((hkeysM k).mp hk), fun c hc => (hkeysM c).mpr hc⟩
      · exact mergeInv_unary (termsOK_merge hsubOK hTok hcont hSkeys)

/-! ### the other nodes keep the invariant of mergeable steps -/

theorem transOKM_table (fuel : Nat) (name : String) (cs : List String) :
    TransOKM Θ ec env scfg cfg fuel (.table name cs) := by
  cases fuel with
  | zero => exact transOKM_zero _ _ _ _ _ _
  | succ fuel =>
  intro u st q st' tp hu h _
  rw [toNear] at h
  simp only [Option.getD_some] at h
  obtain ⟨_, st1, h1, h2⟩ := bindM_ok.mp h
  split at h2
  · obtain ⟨i, st2, _, h4⟩ := bindM_ok.mp h2
    rw [pureM_ok] at h4
    cases h4
    exact mergeInv_of_flag rfl
  · rw [pureM_ok] at h2
    cases h2
    exact mergeInv_of_flag rfl

theorem transOKM_selectRows (fuel : Nat) (src : Ops) (e : Term) :
    TransOKM Θ ec env scfg cfg (fuel + 1) (.selectRows src e) := by
  intro u st q st' tp hu h _
  rw [toNear] at h
  simp only [Option.getD_some] at h
  obtain ⟨sub, st1, h1, h2⟩ := bindM_ok.mp h
  obtain ⟨i, st2, _, h4⟩ := bindM_ok.mp h2
  rw [pureM_ok] at h4
  cases h4
  exact mergeInv_of_flag rfl

theorem transOKM_order (fuel : Nat) (src : Ops) (cs rev : List String) (lim : Option Nat) :
    TransOKM Θ ec env scfg cfg (fuel + 1) (.order src cs rev lim) := by
  intro u st q st' tp hu h _
  rw [toNear] at h
  simp only [Option.getD_some] at h
  obtain ⟨sub, st1, h1, h2⟩ := bindM_ok.mp h
  obtain ⟨i, st2, _, h4⟩ := bindM_ok.mp h2
  rw [pureM_ok] at h4
  cases h4
  exact mergeInv_of_flag rfl

theorem transOKM_project (fuel : Nat) (src : Ops) (ops : Assign) (group : List String) :
    TransOKM Θ ec env scfg cfg (fuel + 1) (.project src ops group) := by
  intro u st q st' tp hu h _
  rw [toNear] at h
  simp only [Option.getD_some] at h
  obtain ⟨sub, st1, h1, h2⟩ := bindM_ok.mp h
  obtain ⟨i, st2, _, h4⟩ := bindM_ok.mp h2
  rw [pureM_ok] at h4
  cases h4
  exact mergeInv_of_flag rfl

theorem transOKM_rename (fuel : Nat) (src : Ops) (m : List (String × String)) :
    TransOKM Θ ec env scfg cfg (fuel + 1) (.rename src m) := by
  intro u st q st' tp hu h _
  rw [toNear] at h
  simp only [Option.getD_some] at h
  obtain ⟨sub, st1, h1, h2⟩ := bindM_ok.mp h
  obtain ⟨i, st2, _, h4⟩ := bindM_ok.mp h2
  rw [pureM_ok] at h4
  cases h4
  exact mergeInv_of_flag rfl

theorem transOKM_mapCols (fuel : Nat) (src : Ops) (m : List (String × String)) (dels : List String) :
    TransOKM Θ ec env scfg cfg (fuel + 1) (.mapCols src m dels) := by
  intro u st q st' tp hu h _
  rw [toNear] at h
  simp only [Option.getD_some] at h
  obtain ⟨sub, st1, h1, h2⟩ := bindM_ok.mp h
  obtain ⟨i, st2, _, h4⟩ := bindM_ok.mp h2
  rw [pureM_ok] at h4
  cases h4
  exact mergeInv_of_flag rfl

theorem transOKM_selectCols (fuel : Nat) (src : Ops) (cs : List String) (hcs : ∀ c ∈ cs, c ∈ src.cols)
    (ihM : TransOKM Θ ec env scfg cfg fuel src) :
    TransOKM Θ ec env scfg cfg (fuel + 1) (.selectCols src cs) := by
  intro u st q st' tp hu h hsem
  simp only [semG] at hsem
  obtain ⟨ts, hts, rfl⟩ := bind_pure_ok hsem
  rw [toNear] at h
  simp only [Option.getD_some] at h
  obtain ⟨sub, st1, h1, h2⟩ := bindM_ok.mp h
  have hsu : ((Ops.selectCols src cs).usedFromSources u).headD [] = cs.filter (fun c => u.contains c) := rfl
  rw [hsu] at h1 h2
  have hsub := ihM _ st sub st1 ts (fun c hc => hcs c (List.mem_filter.mp hc).1) h1 hts
  cases hq : setTermKeys sub (cs.filter (fun c => (cs.filter (fun c => u.contains c)).contains c)) true with
  | none => rw [hq] at h2; exact absurd h2 liftE_error_ne_ok
  | some q' =>
    rw [hq] at h2
    rw [pureM_ok] at h2
    cases h2
    exact mergeInv_setTermKeys hsub hq

theorem transOKM_dropCols (fuel : Nat) (src : Ops) (dels : List String)
    (ihM : TransOKM Θ ec env scfg cfg fuel src) :
    TransOKM Θ ec env scfg cfg (fuel + 1) (.dropCols src dels) := by
  intro u st q st' tp hu h hsem
  simp only [semG] at hsem
  obtain ⟨ts, hts, rfl⟩ := bind_pure_ok hsem
  rw [toNear] at h
  simp only [Option.getD_some] at h
  obtain ⟨sub, st1, h1, h2⟩ := bindM_ok.mp h
  have hsu : ((Ops.dropCols src dels).usedFromSources u).headD [] = u.filter (fun c => !dels.contains c) := rfl
  rw [hsu] at h1
  have hucols : ∀ c ∈ u, c ∈ src.cols := by
    intro c hc
    have := hu c hc
    simp only [Ops.cols, List.mem_filter] at this
    exact this.1
  have hsub := ihM _ st sub st1 ts (fun c hc => hucols c (List.mem_filter.mp hc).1) h1 hts
  cases hq : setTermKeys sub (u.filter (fun k => !dels.contains k)) false with
  | none => rw [hq] at h2; exact absurd h2 liftE_error_ne_ok
  | some q' =>
    rw [hq] at h2
    rw [pureM_ok] at h2
    cases h2
    exact mergeInv_setTermKeys hsub hq

/-! ### the main induction, for every configuration -/

/-- **Stage A, all requests, every dialect configuration** (`cfg.merges` on or off).  For every well-formed
pipeline `p` of the fragment, every fuel, every requested column set `u ⊆ p.cols`: a successful translation
satisfies the invariant `Sound` against the table `p` evaluates to under the engine's row ordering, and the
invariant of mergeable steps. -/
theorem transOK_frag_merges (Θ : Interp) (ec : EngineCfg) (env : Env) (scfg : SemCfg) (cfg : SqlCfg) (p : Ops) :
    InFrag p = true → WF p → SqlWF p → MapsOK p → EnvOK false env p → ∀ fuel : Nat,
      TransOK Θ ec env scfg (fun q => q.isSimple = true) cfg fuel p ∧ TransOKM Θ ec env scfg cfg fuel p := by
  have hG := shapeOK_simple Θ ec env
  induction p with
  | table name cs =>
    intro _ _ _ _ he fuel
    obtain ⟨t, hl, hs, _⟩ := he (name, cs) (by simp [Ops.tables])
    exact ⟨transOK_table hG fuel name cs ⟨t, hl, hs⟩, transOKM_table fuel name cs⟩
  | extend src ops part od rv w ih =>
    intro hf hwf hsq hmp he fuel
    cases fuel with
    | zero => exact ⟨transOK_zero _ _ _ _ _ _ _, transOKM_zero _ _ _ _ _ _⟩
    | succ fuel =>
      have := ih hf hwf.1 hsq hmp he fuel
      exact transOK_extend_merge hG fuel src ops part od rv w hwf.2 this.1 this.2
  | project src ops g ih =>
    intro hf hwf hsq hmp he fuel
    cases fuel with
    | zero => exact ⟨transOK_zero _ _ _ _ _ _ _, transOKM_zero _ _ _ _ _ _⟩
    | succ fuel =>
      simp only [SqlWF, sqlWFb, Bool.and_eq_true, subset_iff, nodupB_iff, disjoint_iff] at hsq
      obtain ⟨⟨⟨⟨hs, h1⟩, h2⟩, h3⟩, h4⟩ := hsq
      exact ⟨transOK_project hG fuel src ops g h1 h2 h3 h4 hwf.2.2 (ih hf hwf.1 hs hmp he fuel).1,
        transOKM_project fuel src ops g⟩
  | selectRows src e ih =>
    intro hf hwf hsq hmp he fuel
    cases fuel with
    | zero => exact ⟨transOK_zero _ _ _ _ _ _ _, transOKM_zero _ _ _ _ _ _⟩
    | succ fuel =>
      simp only [SqlWF, sqlWFb, Bool.and_eq_true, subset_iff] at hsq
      exact ⟨transOK_selectRows hG fuel src e hsq.2 (ih hf hwf hsq.1 hmp he fuel).1, transOKM_selectRows fuel src e⟩
  | selectCols src cs ih =>
    intro hf hwf hsq hmp he fuel
    cases fuel with
    | zero => exact ⟨transOK_zero _ _ _ _ _ _ _, transOKM_zero _ _ _ _ _ _⟩
    | succ fuel =>
      have := ih hf hwf.1 hsq hmp he fuel
      exact ⟨transOK_selectCols hG fuel src cs hwf.2.2.2 this.1, transOKM_selectCols fuel src cs hwf.2.2.2 this.2⟩
  | dropCols src dels ih =>
    intro hf hwf hsq hmp he fuel
    cases fuel with
    | zero => exact ⟨transOK_zero _ _ _ _ _ _ _, transOKM_zero _ _ _ _ _ _⟩
    | succ fuel =>
      have := ih hf hwf.1 hsq hmp he fuel
      exact ⟨transOK_dropCols hG fuel src dels this.1, transOKM_dropCols fuel src dels this.2⟩
  | order src cs rv lim ih =>
    intro hf hwf hsq hmp he fuel
    cases fuel with
    | zero => exact ⟨transOK_zero _ _ _ _ _ _ _, transOKM_zero _ _ _ _ _ _⟩
    | succ fuel =>
      simp only [SqlWF, sqlWFb, Bool.and_eq_true, subset_iff] at hsq
      exact ⟨transOK_order hG fuel src cs rv lim hsq.2 (ih hf hwf hsq.1 hmp he fuel).1,
        transOKM_order fuel src cs rv lim⟩
  | rename src m ih =>
    intro hf hwf hsq hmp he fuel
    cases fuel with
    | zero => exact ⟨transOK_zero _ _ _ _ _ _ _, transOKM_zero _ _ _ _ _ _⟩
    | succ fuel =>
      simp only [SqlWF, sqlWFb, Bool.and_eq_true, subset_iff, List.all_eq_true, Bool.or_eq_true,
        Bool.not_eq_eq_eq_not, Bool.not_true, List.contains_eq_mem, decide_eq_false_iff_not, decide_eq_true_eq] at hsq
      simp only [MapsOK, mapsOKb, Bool.and_eq_true, nodupB_iff] at hmp
      obtain ⟨⟨hs, h1⟩, h2⟩ := hsq
      obtain ⟨⟨hmps, h3⟩, h4⟩ := hmp
      refine ⟨transOK_rename hG fuel src m ?_ ?_ h3 h4 hwf.2 (semG_cols_wf_frag _ Θ scfg env src hf)
        (ih hf hwf.1 hs hmps he fuel).1, transOKM_rename fuel src m⟩
      · intro kv hkv; exact h1 kv.2 (List.mem_map.mpr ⟨kv, hkv, rfl⟩)
      · intro kv hkv hin
        rcases h2 kv hkv with h | h
        · exact absurd hin h
        · exact h
  | mapCols src m dels ih =>
    intro hf hwf hsq hmp he fuel
    cases fuel with
    | zero => exact ⟨transOK_zero _ _ _ _ _ _ _, transOKM_zero _ _ _ _ _ _⟩
    | succ fuel =>
      simp only [SqlWF, sqlWFb, Bool.and_eq_true, subset_iff, List.all_eq_true, Bool.or_eq_true,
        Bool.not_eq_eq_eq_not, Bool.not_true, List.contains_eq_mem, decide_eq_false_iff_not, decide_eq_true_eq] at hsq
      simp only [MapsOK, mapsOKb, Bool.and_eq_true, nodupB_iff, disjoint_iff] at hmp
      obtain ⟨⟨⟨hs, h1⟩, h1'⟩, h2⟩ := hsq
      obtain ⟨⟨⟨hmps, h3⟩, h4⟩, h5⟩ := hmp
      refine ⟨transOK_mapCols hG fuel src m dels ?_ h1' ?_ h3 h4 h5 hwf.2.2
        (semG_cols_wf_frag _ Θ scfg env src hf) (ih hf hwf.1 hs hmps he fuel).1, transOKM_mapCols fuel src m dels⟩
      · intro kv hkv; exact h1 kv.1 (List.mem_map.mpr ⟨kv, hkv, rfl⟩)
      · intro kv hkv hin
        rcases h2 kv hkv with (h | h) | h
        · exact absurd hin h
        · exact Or.inl h
        · exact Or.inr h
  | join a b oa ob jt iha ihb => intro hf; cases hf
  | concat a b idc an bn iha ihb => intro hf; cases hf
  | convert src rm ih => intro hf; cases hf

/-- **Stage A at the root, every dialect configuration.**  The query `to_sql` renders for a well-formed pipeline of
the fragment – extend merges allowed or not – evaluated as a forced SELECT, returns a table with exactly the
declared column set whose rows, restricted to the declared columns, are **in order** the rows of the pipeline's
table under the engine's row ordering (`semE ec`). -/
theorem stageA_root_merges (Θ : Interp) (ec : EngineCfg) (env : Env) (scfg : SemCfg) (cfg : SqlCfg)
    (p : Ops) (hf : InFrag p = true) (hwf : WF p) (hsq : SqlWF p) (hmp : MapsOK p)
    (he : EnvOK false env p) {fuel st st' : Nat} {q : Near} {tp : Table}
    (h : toNear cfg fuel p none st = .ok (q, st')) (htp : semE ec Θ scfg env p = .ok tp) :
    ∃ T, semNear Θ ec env [] q none true = .ok T ∧ (∀ c, c ∈ T.cols ↔ c ∈ p.cols) ∧
      T.rows.map (fun r => r.select p.cols) = tp.rows := by
  obtain ⟨htpc, htpw⟩ := semG_cols_wf_frag _ Θ scfg env p hf tp htp
  have hself : tp.rows.map (fun r => r.select p.cols) = tp.rows := by
    rw [← htpc]; exact map_select_self_of_wf htpw (by rw [htpc]; exact hwf.cols_nodup)
  rw [toNear_none_eq cfg fuel p hf] at h
  obtain ⟨hsimple, u₁, hu₁, hu₁', hsound⟩ :=
    (transOK_frag_merges Θ ec env scfg cfg p hf hwf hsq hmp he fuel).1 p.cols st q st' tp (fun c hc => hc) h htp
  obtain ⟨T, t1, t2, t3⟩ := root_of_sound hsound hsimple hu₁ hu₁' hwf.cols_ne_nil
  exact ⟨T, t1, t2, t3.trans hself⟩

/-- every translation of a fragment pipeline satisfies the invariant of mergeable steps (root call) -/
theorem mergeInv_root (Θ : Interp) (ec : EngineCfg) (env : Env) (scfg : SemCfg) (cfg : SqlCfg)
    (p : Ops) (hf : InFrag p = true) (hwf : WF p) (hsq : SqlWF p) (hmp : MapsOK p)
    (he : EnvOK false env p) {fuel st st' : Nat} {q : Near}
    (h : toNear cfg fuel p none st = .ok (q, st')) : MergeInv q := by
  obtain ⟨tp, htp⟩ := semG_ok_frag (sqlRowLe ec) Θ scfg env p hf false he
  rw [toNear_none_eq cfg fuel p hf] at h
  exact (transOK_frag_merges Θ ec env scfg cfg p hf hwf hsq hmp he fuel).2 p.cols st q st' tp (fun c hc => hc) h htp

end Sql
end DAVerif
