import DAVerif.Proofs.OpsBasic
/-!
Rows as finite maps: `get` after `set` / `setAll` / `select` / `drop` / `rename`; expression evaluation only
reads the columns a term mentions.  Used by C06 and C07.
-/
namespace DAVerif
namespace Row

theorem get_nilC (c : String) : Row.get [] c = .null := rfl

theorem get_consC (k : String) (x : Val) (r : Row) (c : String) :
    Row.get ((k, x) :: r) c = if c == k then x else Row.get r c := by
  simp only [Row.get, List.lookup_cons]
  cases c == k <;> rfl

theorem get_setC (r : Row) (c : String) (v : Val) (c' : String) :
    (r.set c v).get c' = if c' == c then v else r.get c' := by
  induction r with
  | nil => simp [Row.set, get_consC, get_nilC]
  | cons kx r ih =>
    obtain ⟨k, x⟩ := kx
    simp only [Row.set]
    by_cases hk : k = c
    · subst hk
      simp only [beq_self_eq_true, if_true, get_consC]
      split <;> rfl
    · have : (k == c) = false := by simpa using hk
      simp only [this, Bool.false_eq_true, if_false, get_consC, ih]
      by_cases hck : c' = k
      · subst hck
        have : (c' == c) = false := by simpa using hk
        simp [this]
      · have : (c' == k) = false := by simpa using hck
        simp [this]

theorem get_setAllC (r : Row) (kvs : List (String × Val)) (c : String) :
    (r.setAll kvs).get c = (lookupLast kvs c).getD (r.get c) := by
  induction kvs generalizing r with
  | nil => rfl
  | cons kv kvs ih =>
    obtain ⟨k, v⟩ := kv
    have : Row.setAll r ((k, v) :: kvs) = Row.setAll (r.set k v) kvs := rfl
    rw [this, ih, get_setC, lookupLast_consC]
    cases lookupLast kvs c with
    | some x => rfl
    | none =>
      by_cases h : c = k
      · subst h; simp
      · have h1 : (c == k) = false := by simpa using h
        have h2 : (k == c) = false := by simpa using (Ne.symm h)
        simp [h1, h2]

theorem get_selectC (r : Row) (cs : List String) (c : String) :
    (r.select cs).get c = if cs.contains c then r.get c else .null := by
  by_cases h : c ∈ cs
  · rw [Row.select_get_of_mem h, if_pos (by simpa using h)]
  · rw [if_neg (by simpa using h)]
    simp only [Row.get, Row.select]
    have : List.lookup c (cs.map (fun c => (c, (List.lookup c r).getD Val.null))) = none := by
      rw [List.lookup_eq_none_iff]
      intro p hp
      simp only [List.mem_map] at hp
      obtain ⟨x, hx, rfl⟩ := hp
      simp only [bne_iff_ne, ne_eq]
      rintro rfl
      exact h hx
    rw [this]; rfl

theorem get_of_not_mem_keys {r : Row} {c : String} (h : c ∉ r.keys) : r.get c = .null := by
  simp only [Row.get]
  have : List.lookup c r = none := by
    rw [List.lookup_eq_none_iff]
    intro p hp
    simp only [bne_iff_ne, ne_eq]
    rintro rfl
    exact h (List.mem_map.mpr ⟨p, hp, rfl⟩)
  rw [this]; rfl

theorem select_congr {r r' : Row} {cs : List String} (h : ∀ c ∈ cs, r.get c = r'.get c) :
    r.select cs = r'.select cs :=
  List.map_congr_left (fun c hc => by rw [h c hc])

theorem select_select {r : Row} {cs cs' : List String} (h : ∀ c ∈ cs', c ∈ cs) :
    (r.select cs).select cs' = r.select cs' :=
  select_congr (fun c hc => Row.select_get_of_mem (h c hc))

/-- a row with pairwise different keys is the selection of its own columns -/
theorem select_keys : ∀ {r : Row}, r.keys.Nodup → r.select r.keys = r
  | [], _ => rfl
  | (k, x) :: r, h => by
    simp only [Row.keys, List.map_cons, List.nodup_cons] at h
    simp only [Row.select, Row.keys, List.map_cons, List.map_map]
    congr 1
    · simp [Row.get]
    · have ih := select_keys (r := r) h.2
      simp only [Row.select, Row.keys, List.map_map] at ih
      conv => rhs; rw [← ih]
      apply List.map_congr_left
      intro kv hkv
      simp only [Function.comp]
      rw [get_consC]
      have : (kv.1 == k) = false := by
        simp only [beq_eq_false_iff_ne, ne_eq]
        rintro rfl
        exact h.1 (List.mem_map.mpr ⟨kv, hkv, rfl⟩)
      rw [this]; rfl

theorem select_self {r : Row} {cs : List String} (hk : r.keys = cs) (hn : cs.Nodup) : r.select cs = r := by
  subst hk; exact select_keys hn

theorem vals_congr {r r' : Row} {cs : List String} (h : ∀ c ∈ cs, r.get c = r'.get c) :
    r.vals cs = r'.vals cs :=
  List.map_congr_left (fun c hc => h c hc)

theorem get_rename_of_injC {r : Row} {f : String → String} {c : String}
    (hinj : ∀ k ∈ r.keys, f k = f c → k = c) : (r.rename f).get (f c) = r.get c := by
  induction r with
  | nil => rfl
  | cons kx r ih =>
    obtain ⟨k, x⟩ := kx
    simp only [Row.rename, List.map_cons] at ih ⊢
    rw [get_consC, get_consC]
    by_cases hk : k = c
    · subst hk; simp
    · have h1 : (c == k) = false := by simpa using (Ne.symm hk)
      have h2 : (f c == f k) = false := by
        simp only [beq_eq_false_iff_ne, ne_eq]
        intro e
        exact hk (hinj k (by simp [Row.keys]) e.symm)
      rw [h1, h2]
      exact ih (fun k' hk' => hinj k' (by simp only [Row.keys, List.map_cons, List.mem_cons]; exact Or.inr hk'))

theorem get_dropC (r : Row) (ds : List String) (c : String) :
    (r.drop ds).get c = if ds.contains c then .null else r.get c := by
  induction r with
  | nil => simp [Row.drop, get_nilC]
  | cons kx r ih =>
    obtain ⟨k, x⟩ := kx
    simp only [Row.drop, List.filter_cons] at ih ⊢
    by_cases hc : c = k
    · subst hc
      by_cases hk : ds.contains c = true
      · simp only [hk, Bool.not_true, Bool.false_eq_true, if_false, if_true, ih]
      · have hk' : ds.contains c = false := by simpa using hk
        simp only [hk', Bool.not_false, if_true, get_consC, beq_self_eq_true, Bool.false_eq_true, if_false]
    · have hck : (c == k) = false := by simpa using hc
      by_cases hk : ds.contains k = true
      · simp only [hk, Bool.not_true, Bool.false_eq_true, if_false, ih, get_consC, hck]
      · have hk' : ds.contains k = false := by simpa using hk
        simp only [hk', Bool.not_false, if_true, get_consC, hck, Bool.false_eq_true, if_false, ih]

end Row

/-! ### expressions only read the columns they mention -/

mutual
theorem evalTerm_congrC (Θ : Interp) {r r' : Row} :
    ∀ (t : Term), (∀ c ∈ Term.colsRaw t, r.get c = r'.get c) → evalTerm Θ r t = evalTerm Θ r' t
  | .value _, _ => rfl
  | .col c, h => by simp only [evalTerm]; rw [h c (by simp [Term.colsRaw])]
  | .list _, _ => rfl
  | .dict _, _ => rfl
  | .app op args i m, h => by
    simp only [evalTerm]
    rw [evalArgs_congrC Θ args (by simpa [Term.colsRaw] using h)]
theorem evalArgs_congrC (Θ : Interp) {r r' : Row} :
    ∀ (ts : List Term), (∀ c ∈ Term.colsRawList ts, r.get c = r'.get c) → evalArgs Θ r ts = evalArgs Θ r' ts
  | [], _ => rfl
  | t :: ts, h => by
    simp only [evalArgs]
    rw [evalTerm_congrC Θ t (fun c hc => h c (by simp [Term.colsRawList, hc])),
      evalArgs_congrC Θ ts (fun c hc => h c (by simp [Term.colsRawList, hc]))]
end

theorem evalCell_congrC (Θ : Interp) {r r' : Row} (t : Term) (h : ∀ c ∈ Term.colsRaw t, r.get c = r'.get c) :
    evalCell Θ r t = evalCell Θ r' t := by
  simp only [evalCell, evalTerm_congrC Θ t h]

theorem mem_colsUsedOpsC {ops : Assign} {c : String} :
    c ∈ Term.colsUsedOps ops ↔ ∃ kv ∈ ops, c ∈ Term.colsRaw kv.2 := by
  simp [Term.colsUsedOps, List.mem_eraseDups, List.mem_flatMap]

theorem mem_colsUsedC {t : Term} {c : String} : c ∈ Term.colsUsed t ↔ c ∈ Term.colsRaw t := by
  simp [Term.colsUsed, List.mem_eraseDups]

/-- the column an aggregate / window function reads (its first argument, when that is a column) -/
def argCol (t : Term) : List String :=
  match t with
  | .app _ (.col c :: _) _ _ => [c]
  | _ => []

theorem argCol_subset_colsRaw (t : Term) : ∀ c ∈ argCol t, c ∈ Term.colsRaw t := by
  intro c hc
  cases t with
  | app op args i m =>
    cases args with
    | nil => cases hc
    | cons a as =>
      cases a with
      | col c' =>
        simp only [argCol, List.mem_singleton] at hc
        subst hc
        simp [Term.colsRaw, Term.colsRawList]
      | _ => cases hc
  | _ => cases hc

theorem argFn_congr (t : Term) {r r' : Row} (h : ∀ c ∈ argCol t, r.get c = r'.get c) : argFn t r = argFn t r' := by
  cases t with
  | app op args i m =>
    cases args with
    | nil => rfl
    | cons a as =>
      cases a with
      | col c => exact h c (by simp [argCol])
      | _ => rfl
  | _ => rfl

end DAVerif
