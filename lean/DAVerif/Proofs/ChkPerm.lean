import DAVerif.Proofs.C06Main
/-!
The constructor and argument checks only look at the *set* of source columns (as a duplicate-free list: up to
permutation): a table description whose columns are listed in another order accepts the same steps, with the
same error class, and produces the same node parameters.
-/
namespace DAVerif

theorem nodupB_congr {a b : List String} (h : a.Perm b) : nodupB a = nodupB b := by
  rw [Bool.eq_iff_iff, nodupB_iffC, nodupB_iffC]; exact h.nodup_iff

theorem filter_isEmpty_congr {a b : List String} (h : ∀ c, c ∈ a ↔ c ∈ b) (p : String → Bool) :
    (a.filter p).isEmpty = (b.filter p).isEmpty := by
  rw [Bool.eq_iff_iff]
  simp only [List.isEmpty_iff, List.filter_eq_nil_iff]
  exact ⟨fun hh x hx => hh x ((h x).mpr hx), fun hh x hx => hh x ((h x).mp hx)⟩

theorem map_isEmpty {α β : Type} (l : List α) (f : α → β) : (l.map f).isEmpty = l.isEmpty := by
  cases l <;> rfl

theorem workColGroup_perm {a sc sc' : List String} (h : ∀ c, c ∈ sc ↔ c ∈ sc') :
    workColGroup a sc = workColGroup a sc' := by
  simp only [workColGroup, subset_congr_right h]

theorem parseAssignments_perm {sc sc' : List String} (h : ∀ c, c ∈ sc ↔ c ∈ sc') (ops : Assign) :
    parseAssignments sc ops = parseAssignments sc' ops := by
  rw [parseAssignments_eqC, parseAssignments_eqC]
  have : (ops.all fun kv => subset (Term.colsRaw kv.2) sc) = (ops.all fun kv => subset (Term.colsRaw kv.2) sc') := by
    apply List.all_congr rfl
    intro kv; exact subset_congr_right h
  rw [this]

theorem extendChecks_perm {sc sc' : List String} (h : ∀ c, c ∈ sc ↔ c ∈ sc') (ops : Assign) (pa : PartArg)
    (od rv : List String) : extendChecks sc ops pa od rv = extendChecks sc' ops pa od rv := by
  simp only [extendChecks, workColGroup_perm h]

theorem projectChecks_perm {sc sc' : List String} (h : ∀ c, c ∈ sc ↔ c ∈ sc') (ops : Assign) (g : List String) :
    projectChecks sc ops g = projectChecks sc' ops g := by
  simp only [projectChecks, workColGroup_perm h]

theorem windowOpOk_perm {sc sc' : List String} (h : ∀ c, c ∈ sc ↔ c ∈ sc') (ordered : Bool) (t : Term) :
    windowOpOk sc ordered t = windowOpOk sc' ordered t := windowOpOk_congr (fun c _ => h c)

theorem extendChk_perm {sc sc' : List String} (h : ∀ c, c ∈ sc ↔ c ∈ sc') (ops : Assign) (pa : PartArg)
    (od rv : List String) : extendChk sc ops pa od rv = extendChk sc' ops pa od rv := by
  have : (ops.all fun kv => windowOpOk sc (!od.isEmpty) kv.2) = (ops.all fun kv => windowOpOk sc' (!od.isEmpty) kv.2) := by
    apply List.all_congr rfl
    intro kv; exact windowOpOk_perm h _ _
  simp only [extendChk, subset_congr_right h, this]

theorem projectChk_perm {sc sc' : List String} (h : ∀ c, c ∈ sc ↔ c ∈ sc') (ops : Assign) (g : List String) :
    projectChk sc ops g = projectChk sc' ops g := by
  simp only [projectChk, subset_congr_right h]

theorem selectChk_perm {sc sc' : List String} (h : ∀ c, c ∈ sc ↔ c ∈ sc') (cs : List String) :
    selectChk sc cs = selectChk sc' cs := by
  simp only [selectChk, subset_congr_right h]

theorem dropChk_perm {sc sc' : List String} (h : ∀ c, c ∈ sc ↔ c ∈ sc') (ds : List String) :
    dropChk sc ds = dropChk sc' ds := by
  simp only [dropChk, subset_congr_right h, filter_isEmpty_congr h]

theorem orderChk_perm {sc sc' : List String} (h : ∀ c, c ∈ sc ↔ c ∈ sc') (cs rv : List String) :
    orderChk sc cs rv = orderChk sc' cs rv := by
  simp only [orderChk, subset_congr_right h]

theorem renameChk_perm {sc sc' : List String} (hp : sc.Perm sc') (m : List (String × String)) :
    renameChk sc m = renameChk sc' m := by
  have h : ∀ c, c ∈ sc ↔ c ∈ sc' := fun c => hp.mem_iff
  have e2 : ((sc.filter (fun c => !(inter (m.map (·.1)) (m.map (·.2))).contains c)).filter
        (fun c => (m.map (·.1)).contains c)).isEmpty
      = ((sc'.filter (fun c => !(inter (m.map (·.1)) (m.map (·.2))).contains c)).filter
        (fun c => (m.map (·.1)).contains c)).isEmpty :=
    filter_isEmpty_congr (fun c => by simp only [List.mem_filter, h c]) _
  simp only [renameChk, subset_congr_right h, e2, nodupB_congr (show (renameCols sc m).Perm (renameCols sc' m) from hp.map _)]

theorem mapColsChk_perm {sc sc' : List String} (hp : sc.Perm sc') (m : List (String × Option String)) :
    mapColsChk sc m = mapColsChk sc' m := by
  have h : ∀ c, c ∈ sc ↔ c ∈ sc' := fun c => hp.mem_iff
  have e2 : ((sc.filter (fun c => !(inter ((mapRemap m).map (·.2)) (m.map (·.1))).contains c)).filter
        (fun c => ((mapRemap m).map (·.2)).contains c)).isEmpty
      = ((sc'.filter (fun c => !(inter ((mapRemap m).map (·.2)) (m.map (·.1))).contains c)).filter
        (fun c => ((mapRemap m).map (·.2)).contains c)).isEmpty :=
    filter_isEmpty_congr (fun c => by simp only [List.mem_filter, h c]) _
  have hpc : (mapColsCols sc (mapRemap m) (mapDels m)).Perm (mapColsCols sc' (mapRemap m) (mapDels m)) :=
    (hp.filter _).map _
  have e3 : (mapColsCols sc (mapRemap m) (mapDels m)).isEmpty = (mapColsCols sc' (mapRemap m) (mapDels m)).isEmpty := by
    simp only [mapColsCols, map_isEmpty]
    exact filter_isEmpty_congr h _
  simp only [mapColsChk, subset_congr_right h, e2, e3, nodupB_congr hpc]

theorem joinChk_perm {ca ca' : List String} (h : ∀ c, c ∈ ca ↔ c ∈ ca') (cb : List String)
    (ta tb : List (String × List String)) (oa ob : List String) (jt : String) (chk : Bool) :
    joinChk ca cb ta tb oa ob jt chk = joinChk ca' cb ta tb oa ob jt chk := by
  have e : ((inter ca cb).filter (fun c => !(inter oa ob).contains c)).isEmpty
      = ((inter ca' cb).filter (fun c => !(inter oa ob).contains c)).isEmpty :=
    filter_isEmpty_congr (fun c => by simp only [mem_interC, h c]) _
  simp only [joinChk, subset_congr_right h, e]

theorem concatChk_perm {ca ca' : List String} (h : ∀ c, c ∈ ca ↔ c ∈ ca') (cb : List String)
    (ta tb : List (String × List String)) (idc : Option String) :
    concatChk ca cb ta tb idc = concatChk ca' cb ta tb idc := by
  cases idc with
  | none => simp only [concatChk, subset_congr_right h, subset_congr_left h]
  | some c => simp only [concatChk, subset_congr_right h, subset_congr_left h, contains_congr h c]

theorem tablesConsistent_fresh {n : String} {cs : List String} {tb : List (String × List String)}
    (h : n ∉ tb.map (·.1)) : tablesConsistent [(n, cs)] tb = true := by
  simp only [tablesConsistent, List.all_cons, List.all_nil, Bool.and_true, List.all_eq_true]
  intro kc hkc
  have : n ≠ kc.1 := fun e => h (e ▸ List.mem_map.mpr ⟨kc, hkc, rfl⟩)
  simp [this]

theorem convertChk_perm {sc sc' : List String} (h : ∀ c, c ∈ sc ↔ c ∈ sc') (rm : RecMap) :
    convertChk sc rm = convertChk sc' rm := by
  simp only [convertChk, subset_congr_right h]

/-- **The raw builder call only looks at the set of declared columns**: over a table description listing the same
columns in another order it is accepted or rejected alike, with the same error class. -/
theorem buildRaw_errOf_perm {cs cs' : List String} (hp : cs.Perm cs') (n : String) (s : Step)
    (hf : Step.Fresh n s) : errOf (buildRaw (.table n cs) s) = errOf (buildRaw (.table n cs') s) := by
  have h : ∀ c, c ∈ cs ↔ c ∈ cs' := fun c => hp.mem_iff
  cases s with
  | extend ops pa od rv =>
    simp only [buildRaw, Ops.cols, parseAssignments_perm h ops]
    apply errOf_bind_congr
    intro parsed _
    split
    · rfl
    · rw [extendChecks_perm h]
      apply errOf_bind_congr
      intro _ _
      rw [mkExtend_eqC, mkExtend_eqC, errOf_bind_ok, errOf_bind_ok]
      exact congrArg errOf (extendChk_perm h _ _ _ _)
  | project ops g =>
    simp only [buildRaw, Ops.cols, parseAssignments_perm h ops]
    apply errOf_bind_congr
    intro parsed _
    rw [projectChecks_perm h]
    apply errOf_bind_congr
    intro _ _
    rw [mkProject_eq, mkProject_eq, errOf_bind_ok, errOf_bind_ok]
    exact congrArg errOf (projectChk_perm h _ _)
  | selectRows e =>
    cases e with
    | none => rfl
    | some e =>
      simp only [buildRaw, Ops.cols, parseAssignments_perm h]
      apply errOf_bind_congr
      intro _ _
      rfl
  | selectCols cs0 =>
    simp only [buildRaw]
    apply errOf_bind_congr
    intro _ _
    rw [mkSelectCols_eq, mkSelectCols_eq, errOf_bind_ok, errOf_bind_ok]
    exact congrArg errOf (selectChk_perm h _)
  | dropCols ds =>
    simp only [buildRaw]
    split
    · rfl
    · rw [mkDropCols_eq, mkDropCols_eq, errOf_bind_ok, errOf_bind_ok]
      exact congrArg errOf (dropChk_perm h _)
  | order cs0 rv lim =>
    simp only [buildRaw]
    split
    · rfl
    · rw [mkOrder_eq, mkOrder_eq, errOf_bind_ok, errOf_bind_ok]
      exact congrArg errOf (orderChk_perm h _ _)
  | rename m =>
    simp only [buildRaw]
    split
    · rfl
    · rw [mkRename_eq, mkRename_eq, errOf_bind_ok, errOf_bind_ok]
      exact congrArg errOf (renameChk_perm hp _)
  | mapCols m =>
    simp only [buildRaw]
    split
    · rfl
    · rw [mkMapCols_eq, mkMapCols_eq, errOf_bind_ok, errOf_bind_ok]
      exact congrArg errOf (mapColsChk_perm hp _)
  | join b oa ob jt chk =>
    simp only [buildRaw]
    rw [mkJoin_eq, mkJoin_eq, errOf_bind_ok, errOf_bind_ok]
    have hfr := hf b (by simp [Step.argOps])
    simp only [Ops.cols, Ops.tables, joinChk, tablesConsistent_fresh hfr, subset_congr_right h]
    have e : ((inter cs b.cols).filter (fun c => !(inter oa ob).contains c)).isEmpty
        = ((inter cs' b.cols).filter (fun c => !(inter oa ob).contains c)).isEmpty :=
      filter_isEmpty_congr (fun c => by simp only [mem_interC, h c]) _
    rw [e]
  | concat b idc an bn =>
    cases b with
    | none => rfl
    | some b =>
      simp only [buildRaw]
      rw [mkConcat_eq, mkConcat_eq, errOf_bind_ok, errOf_bind_ok]
      have hfr := hf b (by simp [Step.argOps])
      have e1 : concatChk cs b.cols [(n, cs)] b.tables idc = concatChk cs b.cols [(n, cs')] b.tables idc := by
        simp only [concatChk, tablesConsistent_fresh hfr]
      exact congrArg errOf (e1.trans (concatChk_perm h _ _ _ _))
  | convert rm =>
    cases rm with
    | none => rfl
    | some rm =>
      simp only [buildRaw]
      rw [mkConvert_eq, mkConvert_eq, errOf_bind_ok, errOf_bind_ok]
      exact congrArg errOf (convertChk_perm h _)

/-- the raw node of a step over one table description or another: same operator, same second source, same
scope and column conditions -/
theorem rawNodeOf_leaf_indep (Θ : Interp) (cfg : SemCfg) (n n' : String) (cs cs' : List String) (s : Step) :
    (∀ ta tb, applyNode Θ cfg (rawNodeOf (.table n cs) s) ta tb = applyNode Θ cfg (rawNodeOf (.table n' cs') s) ta tb) ∧
    (rawNodeOf (.table n cs) s).srcB = (rawNodeOf (.table n' cs') s).srcB ∧
    (∀ rows, NodeScope Θ (rawNodeOf (.table n cs) s) rows = NodeScope Θ (rawNodeOf (.table n' cs') s) rows) ∧
    (∀ c, NodeColsOK (rawNodeOf (.table n cs) s) c = NodeColsOK (rawNodeOf (.table n' cs') s) c) := by
  cases s with
  | extend ops pa od rv =>
    simp only [rawNodeOf]
    split <;> exact ⟨fun _ _ => rfl, rfl, fun _ => rfl, fun _ => rfl⟩
  | project ops g => exact ⟨fun _ _ => rfl, rfl, fun _ => rfl, fun _ => rfl⟩
  | selectRows e => cases e <;> exact ⟨fun _ _ => rfl, rfl, fun _ => rfl, fun _ => rfl⟩
  | selectCols cs0 => exact ⟨fun _ _ => rfl, rfl, fun _ => rfl, fun _ => rfl⟩
  | dropCols ds =>
    simp only [rawNodeOf]
    split <;> exact ⟨fun _ _ => rfl, rfl, fun _ => rfl, fun _ => rfl⟩
  | order cs0 rv lim =>
    simp only [rawNodeOf]
    split
    · exact ⟨fun _ _ => rfl, rfl, fun _ => rfl, fun _ => rfl⟩
    · cases lim <;> exact ⟨fun _ _ => rfl, rfl, fun _ => rfl, fun _ => rfl⟩
  | rename m =>
    simp only [rawNodeOf]
    split <;> exact ⟨fun _ _ => rfl, rfl, fun _ => rfl, fun _ => rfl⟩
  | mapCols m =>
    simp only [rawNodeOf]
    split <;> exact ⟨fun _ _ => rfl, rfl, fun _ => rfl, fun _ => rfl⟩
  | join b oa ob jt chk =>
    simp only [rawNodeOf]
    split <;> exact ⟨fun _ _ => rfl, rfl, fun _ => rfl, fun _ => rfl⟩
  | concat b idc an bn => cases b <;> exact ⟨fun _ _ => rfl, rfl, fun _ => rfl, fun _ => rfl⟩
  | convert rm => cases rm <;> exact ⟨fun _ _ => rfl, rfl, fun _ => rfl, fun _ => rfl⟩

end DAVerif
