import DAVerif.Space.EvalCache
/-! Lemmas about the eval_cache model (the property statements are in Props/C25.lean). -/
namespace DAVerif.EvalCache

/-! ## Generic list facts -/

/-- Two texts `l ++ x :: r` whose prefixes consist of `P`-characters and whose delimiters are not
`P`-characters split in the same place. -/
theorem split_unique {α : Type} {P : α → Prop} {l1 l2 r1 r2 : List α} {x y : α}
    (h1 : ∀ a ∈ l1, P a) (h2 : ∀ a ∈ l2, P a) (hx : ¬ P x) (hy : ¬ P y)
    (h : l1 ++ x :: r1 = l2 ++ y :: r2) : l1 = l2 ∧ x = y ∧ r1 = r2 := by
  induction l1 generalizing l2 with
  | nil =>
    cases l2 with
    | nil => simp at h; exact ⟨rfl, h.1, h.2⟩
    | cons b l2 =>
      simp at h
      exact absurd (h.1 ▸ h2 b (List.mem_cons_self)) hx
  | cons a l1 ih =>
    cases l2 with
    | nil =>
      simp at h
      exact absurd (h.1 ▸ h1 a (List.mem_cons_self)) hy
    | cons b l2 =>
      simp at h
      obtain ⟨hab, h⟩ := h
      have := ih (fun a ha => h1 a (List.mem_cons_of_mem _ ha)) (fun a ha => h2 a (List.mem_cons_of_mem _ ha)) h
      exact ⟨by rw [hab, this.1], this.2⟩

theorem map_inj_on {α β : Type} {f : α → β} {P : α → Prop} (hf : ∀ a b, P a → P b → f a = f b → a = b) :
    ∀ {l1 l2 : List α}, (∀ a ∈ l1, P a) → (∀ a ∈ l2, P a) → l1.map f = l2.map f → l1 = l2
  | [], [], _, _, _ => rfl
  | [], _ :: _, _, _, h => by simp at h
  | _ :: _, [], _, _, h => by simp at h
  | a :: l1, b :: l2, h1, h2, h => by
    simp only [List.map_cons, List.cons.injEq] at h
    have hab := hf a b (h1 a List.mem_cons_self) (h2 b List.mem_cons_self) h.1
    have := map_inj_on hf (fun a ha => h1 a (List.mem_cons_of_mem _ ha))
      (fun a ha => h2 a (List.mem_cons_of_mem _ ha)) h.2
    rw [hab, this]

/-! ## Decimal and hexadecimal digits -/

def isDec (c : Char) : Prop := 48 ≤ c.toNat ∧ c.toNat ≤ 57

theorem toNat_ofNat_small {n : Nat} (h : n < 55296) : (Char.ofNat n).toNat = n := by
  have hv : n.isValidChar := Or.inl h
  simp [Char.ofNat, hv, Char.toNat, Char.ofNatAux]

theorem decDigit_toNat {n : Nat} (h : n < 10) : (decDigit n).toNat = 48 + n := by
  unfold decDigit; exact toNat_ofNat_small (by omega)

def decVal (s : Str) : Nat := s.foldl (fun a c => 10 * a + (c.toNat - 48)) 0

theorem decVal_snoc (s : Str) (c : Char) : decVal (s ++ [c]) = 10 * decVal s + (c.toNat - 48) := by
  simp [decVal, List.foldl_append]

theorem decVal_decDigits (n : Nat) : decVal (decDigits n) = n := by
  induction n using Nat.strongRecOn with
  | _ n ih =>
    rw [decDigits]
    split
    · rename_i h; simp [decVal, decDigit_toNat h]
    · rename_i h
      rw [decVal_snoc, ih (n / 10) (by omega), decDigit_toNat (by omega)]
      omega

theorem decDigits_inj {a b : Nat} (h : decDigits a = decDigits b) : a = b := by
  have := congrArg decVal h
  rwa [decVal_decDigits, decVal_decDigits] at this

theorem decDigits_isDec (n : Nat) : ∀ c ∈ decDigits n, isDec c := by
  induction n using Nat.strongRecOn with
  | _ n ih =>
    rw [decDigits]
    split
    · rename_i h
      intro c hc
      simp only [List.mem_singleton] at hc
      subst hc; unfold isDec; rw [decDigit_toNat h]; omega
    · rename_i h
      intro c hc
      simp only [List.mem_append, List.mem_singleton] at hc
      rcases hc with hc | hc
      · exact ih (n / 10) (by omega) c hc
      · subst hc; unfold isDec; rw [decDigit_toNat (by omega)]; omega

def hexVal1 (c : Char) : Nat := if c.toNat < 58 then c.toNat - 48 else c.toNat - 87
def hexVal (s : Str) : Nat := s.foldl (fun a c => 16 * a + hexVal1 c) 0

theorem hexVal1_hexDigit {n : Nat} (h : n < 16) : hexVal1 (hexDigit n) = n := by
  unfold hexVal1 hexDigit
  rw [toNat_ofNat_small (by split <;> omega)]
  split <;> split <;> omega

theorem hexVal_snoc (s : Str) (c : Char) : hexVal (s ++ [c]) = 16 * hexVal s + hexVal1 c := by
  simp [hexVal, List.foldl_append]

theorem hexVal_hexDigits (w n : Nat) (h : n < 16 ^ w) : hexVal (hexDigits w n) = n := by
  induction w generalizing n with
  | zero => simp at h; subst h; rfl
  | succ w ih =>
    rw [hexDigits, hexVal_snoc, ih (n / 16) (by rw [Nat.pow_succ] at h; omega),
      hexVal1_hexDigit (Nat.mod_lt _ (by omega))]
    omega

theorem length_hexDigits (w n : Nat) : (hexDigits w n).length = w := by
  induction w generalizing n with
  | zero => rfl
  | succ w ih => simp [hexDigits, ih]

/-! ## `repr(str)` can be read back: a one-character decoder -/

/-- reads one (possibly escaped) character from the front of a string-literal body -/
def decode1 : Str → Option (Char × Str)
  | [] => none
  | c :: r =>
    if c ≠ '\\' then some (c, r) else
    match r with
    | [] => none
    | d :: r2 =>
      if d = 'x' then some (Char.ofNat (hexVal (r2.take 2)), r2.drop 2)
      else if d = 'u' then some (Char.ofNat (hexVal (r2.take 4)), r2.drop 4)
      else if d = 'U' then some (Char.ofNat (hexVal (r2.take 8)), r2.drop 8)
      else if d = 't' then some ('\t', r2)
      else if d = 'n' then some ('\n', r2)
      else if d = 'r' then some ('\r', r2)
      else some (d, r2)

theorem decode1_hex (w : Nat) (c : Char) (X : Str) (hc : c.toNat < 16 ^ w) :
    (Char.ofNat (hexVal ((hexDigits w c.toNat ++ X).take w)), (hexDigits w c.toNat ++ X).drop w) = (c, X) := by
  have hl := length_hexDigits w c.toNat
  rw [List.take_append_of_le_length (by omega), List.take_of_length_le (by omega),
    List.drop_append_of_le_length (by omega), List.drop_of_length_le (by omega), hexVal_hexDigits w _ hc,
    Char.ofNat_toNat]
  simp

theorem char_toNat_lt (c : Char) : c.toNat < 16 ^ 8 := by
  have := c.valid
  unfold Char.toNat
  rcases this with h | h <;> omega

theorem decode1_esc (np : Char → Bool) (q c : Char) (hq : q = '\'' ∨ q = '"') (X : Str) :
    decode1 (escChar np q c ++ X) = some (c, X) := by
  unfold escChar
  split
  · rename_i h
    have : c ≠ 'x' ∧ c ≠ 'u' ∧ c ≠ 'U' ∧ c ≠ 't' ∧ c ≠ 'n' ∧ c ≠ 'r' := by
      rcases h with h | h
      · rcases hq with hq | hq <;> (subst h; subst hq; decide)
      · subst h; decide
    simp [decode1, this]
  · split
    · rename_i h; subst h; simp [decode1]
    · split
      · rename_i h; subst h; simp [decode1]
      · split
        · rename_i h; subst h; simp [decode1]
        · rename_i h1 h2 h3 h4
          have hbs : c ≠ '\\' := fun h => h1 (Or.inr h)
          split
          · rename_i h5
            have hc : c.toNat < 16 ^ 2 := by omega
            have := decode1_hex 2 c X hc
            simp only [Prod.mk.injEq] at this
            simp [decode1, this.1, this.2]
          · split
            · simp [decode1, hbs]
            · split
              · split
                · rename_i h5
                  have hc : c.toNat < 16 ^ 2 := by omega
                  have := decode1_hex 2 c X hc
                  simp only [Prod.mk.injEq] at this
                  simp [decode1, this.1, this.2]
                · split
                  · rename_i h5
                    have hc : c.toNat < 16 ^ 4 := by omega
                    have := decode1_hex 4 c X hc
                    simp only [Prod.mk.injEq] at this
                    simp [decode1, this.1, this.2]
                  · have := decode1_hex 8 c X (char_toNat_lt c)
                    simp only [Prod.mk.injEq] at this
                    simp [decode1, this.1, this.2]
              · simp [decode1, hbs]

theorem escBody_cons (np : Char → Bool) (q c : Char) (s : Str) :
    escBody np q (c :: s) = escChar np q c ++ escBody np q s := by
  simp [escBody]

/-- a literal body followed by its closing quote determines the string and the rest of the text -/
theorem escBody_unique (np : Char → Bool) (q : Char) (hq : q = '\'' ∨ q = '"') :
    ∀ (s s' r r' : Str), escBody np q s ++ q :: r = escBody np q s' ++ q :: r' → s = s' ∧ r = r' := by
  have hqb : q ≠ '\\' := by rcases hq with h | h <;> (subst h; decide)
  have hstart : ∀ (c : Char) (t r r' : Str), q :: r = escBody np q (c :: t) ++ q :: r' → False := by
    intro c t r r' h
    have h2 := congrArg decode1 h
    rw [escBody_cons, List.append_assoc, decode1_esc np q c hq] at h2
    simp only [decode1, ne_eq, hqb, not_false_eq_true, if_true, Option.some.injEq, Prod.mk.injEq] at h2
    have hc := h2.1
    subst hc
    rw [escBody_cons] at h
    simp [escChar] at h
    exact hqb h.1
  intro s
  induction s with
  | nil =>
    intro s' r r' h
    cases s' with
    | nil => simp [escBody] at h; exact ⟨rfl, h⟩
    | cons c t => exact (hstart c t r r' (by simpa [escBody] using h)).elim
  | cons c t ih =>
    intro s' r r' h
    cases s' with
    | nil => exact (hstart c t r' r (by simpa [escBody] using h.symm)).elim
    | cons c' t' =>
      have h2 := congrArg decode1 h
      rw [escBody_cons, escBody_cons, List.append_assoc, List.append_assoc, decode1_esc np q c hq,
        decode1_esc np q c' hq] at h2
      simp only [Option.some.injEq, Prod.mk.injEq] at h2
      obtain ⟨hc, hrest⟩ := h2
      have := ih t' r r' hrest
      exact ⟨by rw [hc, this.1], this.2⟩

theorem quoteOf_cases (s : Str) : quoteOf s = '\'' ∨ quoteOf s = '"' := by
  unfold quoteOf; split <;> simp

/-- `repr(s)` is self-delimiting and injective -/
theorem pyReprStr_unique (np : Char → Bool) (s s' r r' : Str)
    (h : pyReprStr np s ++ r = pyReprStr np s' ++ r') : s = s' ∧ r = r' := by
  unfold pyReprStr at h
  simp only [List.cons_append, List.append_assoc, List.cons.injEq, List.nil_append] at h
  obtain ⟨hq, h⟩ := h
  rw [← hq] at h
  exact escBody_unique np (quoteOf s) (quoteOf_cases s) s s' r r' h

theorem pyReprStr_head (np : Char → Bool) (s : Str) : ∃ t, pyReprStr np s = quoteOf s :: t := ⟨_, rfl⟩

theorem reprTail_unique (np : Char → Bool) :
    ∀ (l l' : List Str) (r r' : Str), reprTail np l ++ r = reprTail np l' ++ r' → l = l' ∧ r = r' := by
  intro l
  induction l with
  | nil =>
    intro l' r r' h
    cases l' with
    | nil => simp [reprTail] at h; exact ⟨rfl, h⟩
    | cons x xs => simp [reprTail] at h
  | cons x xs ih =>
    intro l' r r' h
    cases l' with
    | nil => simp [reprTail] at h
    | cons y ys =>
      simp only [reprTail, List.cons_append, List.cons.injEq, true_and, List.append_assoc] at h
      have h1 := pyReprStr_unique np x y _ _ h
      have h2 := ih ys r r' h1.2
      exact ⟨by rw [h1.1, h2.1], h2.2⟩

/-- `repr(list of str)` is self-delimiting and injective -/
theorem pyReprList_unique (np : Char → Bool) (l l' : List Str) (r r' : Str)
    (h : pyReprList np l ++ r = pyReprList np l' ++ r') : l = l' ∧ r = r' := by
  cases l with
  | nil =>
    cases l' with
    | nil => simp [pyReprList] at h; exact ⟨rfl, h⟩
    | cons y ys =>
      simp only [pyReprList, List.cons_append, List.cons.injEq, true_and] at h
      obtain ⟨t, ht⟩ := pyReprStr_head np y
      rw [ht] at h
      simp at h
      rcases quoteOf_cases y with hq | hq <;> (rw [hq] at h; exact absurd h.1 (by decide))
  | cons x xs =>
    cases l' with
    | nil =>
      simp only [pyReprList, List.cons_append, List.cons.injEq, true_and] at h
      obtain ⟨t, ht⟩ := pyReprStr_head np x
      rw [ht] at h
      simp at h
      rcases quoteOf_cases x with hq | hq <;> (rw [hq] at h; exact absurd h.1 (by decide))
    | cons y ys =>
      simp only [pyReprList, List.cons_append, List.cons.injEq, true_and, List.append_assoc] at h
      have h1 := pyReprStr_unique np x y _ _ h
      have h2 := reprTail_unique np xs ys r r' h1.2
      exact ⟨by rw [h1.1, h2.1], h2.2⟩

theorem renderShape_unique (r c r' c' : Nat) (X X' : Str)
    (h : renderShape r c ++ X = renderShape r' c' ++ X') : r = r' ∧ c = c' ∧ X = X' := by
  unfold renderShape at h
  simp only [List.cons_append, List.append_assoc, List.cons.injEq, true_and, List.nil_append] at h
  have hcomma : ¬ isDec ',' := by unfold isDec; decide
  have hparen : ¬ isDec ')' := by unfold isDec; decide
  have h1 := split_unique (P := isDec) (decDigits_isDec r) (decDigits_isDec r') hcomma hcomma h
  have h2 := h1.2.2
  simp only [List.cons.injEq, true_and] at h2
  have h3 := split_unique (P := isDec) (decDigits_isDec c) (decDigits_isDec c') hparen hparen h2
  exact ⟨decDigits_inj h1.1, decDigits_inj h3.1, h3.2.2⟩

/-! ## The order on table names -/

theorem leStr_total : ∀ (a b : Str), (leStr a b || leStr b a) = true
  | [], _ => by simp [leStr]
  | _ :: _, [] => by simp [leStr]
  | a :: as, b :: bs => by
    have ih := leStr_total as bs
    simp only [leStr, Bool.or_eq_true, Bool.and_eq_true, decide_eq_true_eq, beq_iff_eq] at ih ⊢
    by_cases h1 : a.toNat < b.toNat
    · exact Or.inl (Or.inl h1)
    · by_cases h2 : b.toNat < a.toNat
      · exact Or.inr (Or.inl h2)
      · have : a = b := Char.toNat_inj.mp (by omega)
        rcases ih with ih | ih
        · exact Or.inl (Or.inr ⟨this, ih⟩)
        · exact Or.inr (Or.inr ⟨this.symm, ih⟩)

theorem leStr_trans : ∀ (a b c : Str), leStr a b = true → leStr b c = true → leStr a c = true
  | [], _, _, _, _ => by simp [leStr]
  | _ :: _, [], _, h, _ => by simp [leStr] at h
  | _ :: _, _ :: _, [], _, h => by simp [leStr] at h
  | a :: as, b :: bs, c :: cs, h1, h2 => by
    have ih := leStr_trans as bs cs
    simp only [leStr, Bool.or_eq_true, Bool.and_eq_true, decide_eq_true_eq, beq_iff_eq] at h1 h2 ih ⊢
    rcases h1 with h1 | ⟨h1, h1'⟩ <;> rcases h2 with h2 | ⟨h2, h2'⟩
    · exact Or.inl (by omega)
    · subst h2; exact Or.inl h1
    · subst h1; exact Or.inl h2
    · subst h1; subst h2; exact Or.inr ⟨rfl, ih h1' h2'⟩

theorem leStr_antisymm : ∀ (a b : Str), leStr a b = true → leStr b a = true → a = b
  | [], [], _, _ => rfl
  | [], _ :: _, _, h => by simp [leStr] at h
  | _ :: _, [], h, _ => by simp [leStr] at h
  | a :: as, b :: bs, h1, h2 => by
    have ih := leStr_antisymm as bs
    simp only [leStr, Bool.or_eq_true, Bool.and_eq_true, decide_eq_true_eq, beq_iff_eq] at h1 h2 ih
    rcases h1 with h1 | ⟨h1, h1'⟩ <;> rcases h2 with h2 | ⟨h2, h2'⟩
    · omega
    · subst h2; omega
    · subst h1; omega
    · subst h1; rw [ih h1' h2']

/-- sorting the key list of a dict does not depend on the insertion order -/
theorem sortKeys_perm {l1 l2 : List Str} (h : l1.Perm l2) : l1.mergeSort leStr = l2.mergeSort leStr := by
  apply List.Perm.eq_of_pairwise (le := fun a b => leStr a b = true)
  · intro a b _ _ h1 h2; exact leStr_antisymm a b h1 h2
  · exact List.pairwise_mergeSort leStr_trans leStr_total l1
  · exact List.pairwise_mergeSort leStr_trans leStr_total l2
  · exact (List.mergeSort_perm l1 leStr).trans (h.trans (List.mergeSort_perm l2 leStr).symm)

/-! ## `make_cache_key` -/

section MakeKey
variable {F K : Type}

theorem lookup_isSome_iff (dm : List (Str × F)) (k : Str) :
    (∃ d, dm.lookup k = some d) ↔ k ∈ dm.map Prod.fst := by
  induction dm with
  | nil => simp
  | cons p dm ih =>
    obtain ⟨k', v⟩ := p
    by_cases h : k = k'
    · subst h; simp [List.lookup]
    · have hb : (k == k') = false := by simpa using h
      simp [List.lookup, hb, ih, h]

theorem lookup_none_iff (dm : List (Str × F)) (k : Str) : dm.lookup k = none ↔ k ∉ dm.map Prod.fst := by
  rw [← lookup_isSome_iff]
  cases dm.lookup k <;> simp

/-- the entry list of a key: first components -/
theorem dat_fst (hk : F → K) (dm : List (Str × F)) :
    ∀ (l : List Str), (∀ k ∈ l, k ∈ dm.map Prod.fst) →
      (l.filterMap (fun k => (dm.lookup k).map (fun d => (k, hk d)))).map Prod.fst = l := by
  intro l
  induction l with
  | nil => intro _; rfl
  | cons k l ih =>
    intro h
    obtain ⟨d, hd⟩ := (lookup_isSome_iff dm k).mpr (h k List.mem_cons_self)
    simp only [List.filterMap_cons, hd, Option.map_some, List.map_cons]
    rw [ih (fun k' hk' => h k' (List.mem_cons_of_mem _ hk'))]

theorem makeKey_dat_fst (hk : F → K) (d s : Str) (dm : List (Str × F)) :
    (makeKey hk d s dm).dat.map Prod.fst = (dm.map Prod.fst).mergeSort leStr := by
  unfold makeKey
  exact dat_fst hk dm _ (fun k h => List.mem_mergeSort.mp h)

theorem mem_makeKey_dat (hk : F → K) (d s : Str) (dm : List (Str × F)) (k : Str) (x : K) :
    (k, x) ∈ (makeKey hk d s dm).dat ↔ ∃ v, dm.lookup k = some v ∧ x = hk v := by
  unfold makeKey
  simp only [List.mem_filterMap, List.mem_mergeSort, Option.map_eq_some_iff, Prod.mk.injEq]
  constructor
  · rintro ⟨k', _, v, hv, hk', hx⟩
    subst hk'
    exact ⟨v, hv, hx.symm⟩
  · rintro ⟨v, hv, hx⟩
    exact ⟨k, (lookup_isSome_iff dm k).mp ⟨v, hv⟩, v, hv, rfl, hx.symm⟩

/-- Two keys are equal exactly when dialect and SQL agree and both dicts bind the same names to frames
with equal hashes (`→` needs nothing; `←` needs the dict invariant: no repeated key). -/
theorem makeKey_sound (hk : F → K) (d1 s1 d2 s2 : Str) (m1 m2 : List (Str × F))
    (h : makeKey hk d1 s1 m1 = makeKey hk d2 s2 m2) :
    d1 = d2 ∧ s1 = s2 ∧ ∀ name, (m1.lookup name).map hk = (m2.lookup name).map hk := by
  have hd : d1 = d2 := congrArg EvalKey.dialect h
  have hs : s1 = s2 := congrArg EvalKey.sql h
  have hdat : (makeKey hk d1 s1 m1).dat = (makeKey hk d2 s2 m2).dat := congrArg EvalKey.dat h
  refine ⟨hd, hs, fun name => ?_⟩
  have hkeys : ∀ k, k ∈ m1.map Prod.fst ↔ k ∈ m2.map Prod.fst := by
    intro k
    have := congrArg (List.map Prod.fst) hdat
    rw [makeKey_dat_fst, makeKey_dat_fst] at this
    rw [← List.mem_mergeSort (le := leStr), this, List.mem_mergeSort]
  cases h1 : m1.lookup name with
  | none =>
    have : m2.lookup name = none := by
      rw [lookup_none_iff, ← hkeys]; exact (lookup_none_iff m1 name).mp h1
    rw [this]
  | some a =>
    have hm : (name, hk a) ∈ (makeKey hk d1 s1 m1).dat := (mem_makeKey_dat hk d1 s1 m1 name (hk a)).mpr ⟨a, h1, rfl⟩
    rw [hdat, mem_makeKey_dat] at hm
    obtain ⟨b, hb, hab⟩ := hm
    rw [hb]; simp [hab]

theorem makeKey_complete (hk : F → K) (d s : Str) (m1 m2 : List (Str × F))
    (n1 : (m1.map Prod.fst).Nodup) (n2 : (m2.map Prod.fst).Nodup)
    (h : ∀ name, (m1.lookup name).map hk = (m2.lookup name).map hk) :
    makeKey hk d s m1 = makeKey hk d s m2 := by
  have hkeys : ∀ k, k ∈ m1.map Prod.fst ↔ k ∈ m2.map Prod.fst := by
    intro k
    rw [← lookup_isSome_iff, ← lookup_isSome_iff]
    have := h k
    cases h1 : m1.lookup k <;> cases h2 : m2.lookup k <;> simp [h1, h2] at this ⊢
  have hsort := sortKeys_perm ((List.perm_ext_iff_of_nodup n1 n2).mpr hkeys)
  unfold makeKey
  rw [hsort]
  congr 1
  have hf : (fun k => (m1.lookup k).map (fun d => (k, hk d))) = (fun k => (m2.lookup k).map (fun d => (k, hk d))) := by
    funext k
    have := h k
    cases h1 : m1.lookup k <;> cases h2 : m2.lookup k <;> simp [h1, h2] at this ⊢
    exact this
  rw [hf]

end MakeKey

/-! ## What the hash view determines -/

theorem u64_inj {a b : Int} (ha : -9223372036854775808 ≤ a ∧ a < 9223372036854775808)
    (hb : -9223372036854775808 ≤ b ∧ b < 9223372036854775808) (h : u64 a = u64 b) : a = b := by
  unfold u64 at h
  omega

theorem col_eq_of_atoms {c c' : Column} (ht : c.dtype = c'.dtype) (w : c.wf = true) (w' : c'.wf = true)
    (p : c.objPlain = true) (p' : c'.objPlain = true) (h : c.atoms = c'.atoms) : c = c' := by
  cases c <;> cases c' <;> simp [Column.dtype] at ht
  · rename_i xs ys
    simp only [Column.wf, List.all_eq_true, decide_eq_true_eq] at w w'
    simp only [Column.atoms] at h
    have := map_inj_on (P := fun n : Int => -9223372036854775808 ≤ n ∧ n < 9223372036854775808)
      (f := fun n => Atom.u (u64 n))
      (fun a b ha hb hab => u64_inj ha hb (by simpa using hab)) w w' h
    rw [this]
  · rename_i xs ys
    simp only [Column.atoms] at h
    have := map_inj_on (P := fun _ : Nat => True) (f := Atom.u) (fun a b _ _ hab => by simpa using hab)
      (fun _ _ => trivial) (fun _ _ => trivial) h
    rw [this]
  · rename_i xs ys
    simp only [Column.atoms] at h
    have := map_inj_on (P := fun _ : Bool => True) (f := fun b : Bool => Atom.u (if b then 1 else 0))
      (fun a b _ _ hab => by cases a <;> cases b <;> simp at hab ⊢)
      (fun _ _ => trivial) (fun _ _ => trivial) h
    rw [this]
  · rename_i xs ys
    simp only [Column.atoms] at h
    have := map_inj_on (P := fun _ : Option Str => True)
      (f := fun | none => Atom.na | some s => Atom.s s)
      (fun a b _ _ hab => by cases a <;> cases b <;> simp at hab ⊢; exact hab)
      (fun _ _ => trivial) (fun _ _ => trivial) h
    rw [this]
  · rename_i xs ys
    simp only [Column.objPlain, List.all_eq_true] at p p'
    simp only [Column.atoms] at h
    have := map_inj_on (P := fun c : OCell => (match c with | .int _ => false | _ => true) = true)
      (f := OCell.atom)
      (fun a b ha hb hab => by cases a <;> cases b <;> simp [OCell.atom] at ha hb hab ⊢; exact hab)
      p p' h
    rw [this]

theorem col_eq_of_len0 {c c' : Column} (ht : c.dtype = c'.dtype) (h : c.len = 0) (h' : c'.len = 0) : c = c' := by
  cases c <;> cases c' <;> simp [Column.dtype] at ht <;>
    simp only [Column.len, List.length_eq_zero_iff] at h h' <;> rw [h, h']

theorem cols_eq_of_atoms : ∀ (l l' : List Column), l.map Column.dtype = l'.map Column.dtype →
    (∀ c ∈ l, c.wf = true ∧ c.objPlain = true) → (∀ c ∈ l', c.wf = true ∧ c.objPlain = true) →
    l.map Column.atoms = l'.map Column.atoms → l = l'
  | [], [], _, _, _, _ => rfl
  | [], _ :: _, ht, _, _, _ => by simp at ht
  | _ :: _, [], ht, _, _, _ => by simp at ht
  | c :: l, c' :: l', ht, w, w', h => by
    simp only [List.map_cons, List.cons.injEq] at ht h
    have hc := w c List.mem_cons_self
    have hc' := w' c' List.mem_cons_self
    rw [col_eq_of_atoms ht.1 hc.1 hc'.1 hc.2 hc'.2 h.1,
      cols_eq_of_atoms l l' ht.2 (fun x hx => w x (List.mem_cons_of_mem _ hx))
        (fun x hx => w' x (List.mem_cons_of_mem _ hx)) h.2]

theorem cols_eq_of_len0 : ∀ (l l' : List Column), l.map Column.dtype = l'.map Column.dtype →
    (∀ c ∈ l, c.len = 0) → (∀ c ∈ l', c.len = 0) → l = l'
  | [], [], _, _, _ => rfl
  | [], _ :: _, ht, _, _ => by simp at ht
  | _ :: _, [], ht, _, _ => by simp at ht
  | c :: l, c' :: l', ht, w, w' => by
    simp only [List.map_cons, List.cons.injEq] at ht
    rw [col_eq_of_len0 ht.1 (w c List.mem_cons_self) (w' c' List.mem_cons_self),
      cols_eq_of_len0 l l' ht.2 (fun x hx => w x (List.mem_cons_of_mem _ hx))
        (fun x hx => w' x (List.mem_cons_of_mem _ hx))]

/-- Under the two guards the hash view (with shape and labels) determines the frame. -/
theorem frame_eq_of_hview {a b : Frame} (wa : a.wf = true) (wb : b.wf = true)
    (pa : a.objPlain = true) (pb : b.objPlain = true) (hd : sameDtypes a b = true)
    (hshape : a.shape = b.shape) (hnames : a.names = b.names) (hv : hview a = hview b) : a = b := by
  obtain ⟨na, ca, ia⟩ := a
  obtain ⟨nb, cb, ib⟩ := b
  simp only [Frame.shape, Prod.mk.injEq] at hshape
  simp only at hnames
  subst hnames
  simp only [Frame.wf, Bool.and_eq_true, beq_iff_eq, List.all_eq_true, decide_eq_true_eq] at wa wb
  simp only [Frame.objPlain, List.all_eq_true] at pa pb
  simp only [sameDtypes, beq_iff_eq] at hd
  obtain ⟨⟨_, wca⟩, wia⟩ := wa
  obtain ⟨⟨_, wcb⟩, wib⟩ := wb
  have hlen : ia.length = ib.length := hshape.1
  cases ia with
  | nil =>
    have hib : ib = [] := List.length_eq_zero_iff.mp hlen.symm
    subst hib
    have := cols_eq_of_len0 ca cb hd (fun c hc => by simpa using (wca c hc).1)
      (fun c hc => by simpa using (wcb c hc).1)
    rw [this]
  | cons i ia =>
    cases ib with
    | nil => simp at hlen
    | cons j ib =>
      simp only [hview, List.isEmpty_cons, Bool.false_eq_true, if_false] at hv
      have hv2 := List.append_inj' hv rfl
      have hcols := cols_eq_of_atoms ca cb hd (fun c hc => ⟨(wca c hc).2, pa c hc⟩)
        (fun c hc => ⟨(wcb c hc).2, pb c hc⟩) hv2.1
      have hidx := map_inj_on (P := fun n : Int => -9223372036854775808 ≤ n ∧ n < 9223372036854775808)
        (f := fun n => Atom.u (u64 n))
        (fun a b ha hb hab => u64_inj ha hb (by simpa using hab)) wia wib (by simpa using hv2.2)
      rw [hcols, hidx]

/-! ## ResultCache: abstraction function, invariant, step lemmas -/

section Cache
variable {F K : Type} [DecidableEq K]

/-- Specification-side: the finite map a cache state denotes (key ↦ content of the stored object). -/
def abs (s : State F K) (k : EvalKey K) : Option F := (dictGet s.result k).bind (fun i => s.heap[i]?)

/-- Specification-side: `store` on a plain map.  A value `equals` to the present one is not stored again. -/
def specStore (eqv : F → F → Bool) (M : EvalKey K → Option F) (k : EvalKey K) (v : F) : EvalKey K → Option F :=
  if (M k).any (fun p => eqv p v) then M
  else fun k' => if k' = k then some v else M k'

/-- the `(key, content of res)` of a `store` call whose assertions pass, read at call time -/
def storeEvent (hk : F → K) (s : State F K) : Op F → Option (EvalKey K × F)
  | .store a res =>
    match s.heap[res]?, keyOf hk s.heap a with
    | some rv, some k => some (k, rv)
    | _, _ => none
  | _ => none

/-- no reference held by the cache is held by the caller, and all references are live -/
structure Inv (s : State F K) : Prop where
  ext_lt : ∀ i ∈ s.ext, i < s.heap.length
  res_ok : ∀ p ∈ s.result, p.2 < s.heap.length ∧ p.2 ∉ s.ext
  data_ok : ∀ dc, s.data = some dc → ∀ p ∈ dc, p.2 < s.heap.length ∧ p.2 ∉ s.ext

theorem dictGet_mem {α β : Type} [DecidableEq α] {d : List (α × β)} {k : α} {v : β}
    (h : dictGet d k = some v) : (k, v) ∈ d := by
  induction d with
  | nil => simp [dictGet] at h
  | cons p d ih =>
    simp only [dictGet] at h
    split at h
    · rename_i hp
      simp only [Option.some.injEq] at h
      rw [← hp, ← h]; exact List.mem_cons_self
    · exact List.mem_cons_of_mem _ (ih h)

theorem mem_dictSet {α β : Type} [DecidableEq α] {d : List (α × β)} {k : α} {v : β} {p : α × β}
    (h : p ∈ dictSet d k v) : p ∈ d ∨ p = (k, v) := by
  induction d with
  | nil => simp [dictSet] at h; exact Or.inr h
  | cons q d ih =>
    simp only [dictSet] at h
    split at h
    · rcases List.mem_cons.mp h with h | h
      · exact Or.inr h
      · exact Or.inl (List.mem_cons_of_mem _ h)
    · rcases List.mem_cons.mp h with h | h
      · exact Or.inl (h ▸ List.mem_cons_self)
      · rcases ih h with h | h
        · exact Or.inl (List.mem_cons_of_mem _ h)
        · exact Or.inr h

theorem dictGet_dictSet {α β : Type} [DecidableEq α] (d : List (α × β)) (k k' : α) (v : β) :
    dictGet (dictSet d k v) k' = if k' = k then some v else dictGet d k' := by
  induction d with
  | nil =>
    by_cases h : k' = k
    · subst h; simp [dictSet, dictGet]
    · have : ¬ k = k' := fun e => h e.symm
      simp [dictSet, dictGet, h, this]
  | cons q d ih =>
    simp only [dictSet]
    split
    · rename_i hq
      by_cases h : k' = k
      · subst h; simp [dictGet]
      · have h1 : ¬ k = k' := fun e => h e.symm
        have h2 : ¬ q.1 = k' := fun e => h (by rw [← e, hq])
        simp [dictGet, h, h1, h2]
    · rename_i hq
      simp only [dictGet]
      split
      · rename_i hq'
        have : ¬ k' = k := fun e => hq (by rw [hq', e])
        simp [this]
      · exact ih

theorem dataStep_spec (hk : F → K) (st : List F × List (K × Nat)) (i : Nat) :
    (∃ t, (dataStep hk st i).1 = st.1 ++ t) ∧
    ∀ p ∈ (dataStep hk st i).2, p ∈ st.2 ∨ (st.1.length ≤ p.2 ∧ p.2 < (dataStep hk st i).1.length) := by
  unfold dataStep
  split
  · exact ⟨⟨[], by simp⟩, fun p hp => Or.inl hp⟩
  · split
    · exact ⟨⟨[], by simp⟩, fun p hp => Or.inl hp⟩
    · refine ⟨⟨_, rfl⟩, fun p hp => ?_⟩
      simp only [List.mem_append, List.mem_singleton] at hp
      rcases hp with hp | hp
      · exact Or.inl hp
      · subst hp; simp

theorem dataFold_spec (hk : F → K) (l : List Nat) (st : List F × List (K × Nat)) :
    (∃ t, (l.foldl (dataStep hk) st).1 = st.1 ++ t) ∧
    ∀ p ∈ (l.foldl (dataStep hk) st).2, p ∈ st.2 ∨ (st.1.length ≤ p.2 ∧ p.2 < (l.foldl (dataStep hk) st).1.length) := by
  induction l generalizing st with
  | nil => exact ⟨⟨[], by simp⟩, fun p hp => Or.inl hp⟩
  | cons i l ih =>
    simp only [List.foldl_cons]
    obtain ⟨⟨t1, h1⟩, h2⟩ := dataStep_spec hk st i
    obtain ⟨⟨t2, h3⟩, h4⟩ := ih (dataStep hk st i)
    refine ⟨⟨t1 ++ t2, by rw [h3, h1, List.append_assoc]⟩, fun p hp => ?_⟩
    have hlen : (dataStep hk st i).1.length ≤ (l.foldl (dataStep hk) (dataStep hk st i)).1.length := by
      rw [h3]; simp
    rcases h4 p hp with h | h
    · rcases h2 p h with h | h
      · exact Or.inl h
      · exact Or.inr ⟨h.1, by omega⟩
    · refine Or.inr ⟨?_, h.2⟩
      rw [h1] at h; simp at h; omega

omit [DecidableEq K] in
theorem inv_init : Inv (State.init : State F K) :=
  ⟨by simp [State.init], by simp [State.init], by simp [State.init]⟩

omit [DecidableEq K] in
/-- allocation of a caller-visible object (shared by `new` and a successful `get`) keeps the invariant -/
theorem inv_alloc_ext {s : State F K} (hs : Inv s) (v : F) :
    Inv { s with heap := s.heap ++ [v], ext := s.ext ++ [s.heap.length] } := by
  refine ⟨?_, ?_, ?_⟩
  · intro i hi
    simp only [List.mem_append, List.mem_singleton] at hi
    simp only [List.length_append, List.length_singleton]
    rcases hi with hi | hi
    · have := hs.ext_lt i hi; omega
    · omega
  · intro p hp
    have := hs.res_ok p hp
    simp only [List.length_append, List.length_singleton, List.mem_append, List.mem_singleton]
    exact ⟨by omega, fun h => by rcases h with h | h; exact this.2 h; omega⟩
  · intro dc hdc p hp
    have := hs.data_ok dc hdc p hp
    simp only [List.length_append, List.length_singleton, List.mem_append, List.mem_singleton]
    exact ⟨by omega, fun h => by rcases h with h | h; exact this.2 h; omega⟩

theorem step_inv (hk : F → K) (eqv : F → F → Bool) (s : State F K) (hs : Inv s) (op : Op F) :
    Inv (step hk eqv s op).1 := by
  cases op with
  | new v => exact inv_alloc_ext hs v
  | mutate i v =>
    simp only [step]
    split
    · exact ⟨by simpa using hs.ext_lt, by simpa using hs.res_ok, by simpa using hs.data_ok⟩
    · exact hs
  | dataOff => exact ⟨hs.ext_lt, hs.res_ok, by simp [step]⟩
  | get a =>
    simp only [step]
    split
    · exact hs
    · split
      · exact hs
      · exact inv_alloc_ext hs _
  | store a res =>
    simp only [step]
    split
    · exact hs
    · rename_i rv hrv
      split
      · exact hs
      · rename_i k hkk
        split
        · exact hs
        · -- effective store
          have hres : ∀ p ∈ dictSet s.result k s.heap.length, ∀ (n : Nat), s.heap.length + 1 ≤ n →
              p.2 < n ∧ p.2 ∉ s.ext := by
            intro p hp n hn
            rcases mem_dictSet hp with h | h
            · have := hs.res_ok p h; exact ⟨by omega, this.2⟩
            · subst h
              exact ⟨by simp; omega, fun h => by have := hs.ext_lt _ h; simp at this⟩
          split
          · rename_i hnone
            exact ⟨fun i hi => by have := hs.ext_lt i hi; simp; omega,
              fun p hp => hres p hp _ (by simp), by simp [hnone]⟩
          · rename_i dc hdc
            obtain ⟨⟨t, ht⟩, hmem⟩ := dataFold_spec hk (a.data.map Prod.snd ++ [res]) (s.heap ++ [rv], dc)
            have hlen : s.heap.length + 1 ≤
                ((a.data.map Prod.snd ++ [res]).foldl (dataStep hk) (s.heap ++ [rv], dc)).1.length := by
              rw [ht]; simp
            refine ⟨fun i hi => by have := hs.ext_lt i hi; simp only; omega,
              fun p hp => hres p hp _ hlen, ?_⟩
            intro dc' hdc' p hp
            simp only [Option.some.injEq] at hdc'
            subst hdc'
            rcases hmem p hp with h | h
            · have := hs.data_ok dc hdc p h
              exact ⟨by simp only; omega, this.2⟩
            · refine ⟨h.2, fun hx => ?_⟩
              have := hs.ext_lt _ hx
              simp at h; omega

theorem run_inv (hk : F → K) (eqv : F → F → Bool) (h : List (Op F)) (s : State F K) (hs : Inv s) :
    Inv (run hk eqv s h).1 := by
  induction h generalizing s with
  | nil => exact hs
  | cons op h ih => exact ih _ (step_inv hk eqv s hs op)

/-- reading through the cache after the heap grew at the end -/
theorem abs_append {s : State F K} (hs : Inv s) (t : List F) (ext' : List Nat) (dc' : Option (List (K × Nat)))
    (b : Bool) : abs { s with heap := s.heap ++ t, ext := ext', data := dc', dirty := b } = abs s := by
  funext k
  unfold abs
  cases h : dictGet s.result k with
  | none => simp
  | some i =>
    have := (hs.res_ok _ (dictGet_mem h)).1
    simp only [Option.bind_some]
    exact List.getElem?_append_left this

theorem abs_step_nonstore (hk : F → K) (eqv : F → F → Bool) (s : State F K) (hs : Inv s) (op : Op F)
    (hop : ∀ a r, op ≠ .store a r) : abs (step hk eqv s op).1 = abs s := by
  cases op with
  | new v => exact abs_append hs [v] _ _ _
  | mutate i v =>
    simp only [step]
    split
    · rename_i hi
      funext k
      unfold abs
      cases h : dictGet s.result k with
      | none => simp
      | some j =>
        have hj := (hs.res_ok _ (dictGet_mem h)).2
        have : i ≠ j := fun e => hj (e ▸ hi)
        simp only [Option.bind_some]
        exact List.getElem?_set_ne this
    · rfl
  | dataOff => rfl
  | get a =>
    simp only [step]
    split
    · rfl
    · split
      · rfl
      · exact abs_append hs [_] _ _ _
  | store a r => exact absurd rfl (hop a r)

theorem abs_step_store (hk : F → K) (eqv : F → F → Bool) (s : State F K) (hs : Inv s) (a : Args) (res : Nat) :
    abs (step hk eqv s (.store a res)).1 =
      match storeEvent hk s (.store a res) with
      | none => abs s
      | some (k, rv) => specStore eqv (abs s) k rv := by
  simp only [step, storeEvent]
  cases hrv : s.heap[res]? with
  | none => simp
  | some rv =>
    cases hkk : keyOf hk s.heap a with
    | none => simp
    | some k =>
      simp only
      have habs : (dictGet s.result k).bind (fun i => s.heap[i]?) = abs s k := rfl
      rw [habs]
      unfold specStore
      split
      · rfl
      · -- effective store: every branch leaves `heap = s.heap ++ rv :: t`, `result = dictSet …`
        have key : ∀ (t : List F) (ext' : List Nat) (dc' : Option (List (K × Nat))) (b : Bool),
            abs ({ heap := s.heap ++ [rv] ++ t, ext := ext', result := dictSet s.result k s.heap.length,
                   data := dc', dirty := b } : State F K) =
              fun k' => if k' = k then some rv else abs s k' := by
          intro t ext' dc' b
          funext k'
          unfold abs
          simp only [dictGet_dictSet]
          split
          · simp
          · cases h : dictGet s.result k' with
            | none => simp
            | some i =>
              have := (hs.res_ok _ (dictGet_mem h)).1
              simp only [Option.bind_some, List.append_assoc]
              exact List.getElem?_append_left this
        split
        · simpa using key [] s.ext s.data true
        · rename_i dc hdc
          obtain ⟨⟨t, ht⟩, _⟩ := dataFold_spec hk (a.data.map Prod.snd ++ [res]) (s.heap ++ [rv], dc)
          simp only [ht]
          exact key t s.ext _ true

/-- the outcome of `get`, spelled through the abstraction -/
theorem step_get (hk : F → K) (eqv : F → F → Bool) (s : State F K) (a : Args) :
    step hk eqv s (.get a) =
      match keyOf hk s.heap a with
      | none => (s, .err .assertion)
      | some k =>
        match abs s k with
        | none => (s, .err .key)
        | some v => ({ s with heap := s.heap ++ [v], ext := s.ext ++ [s.heap.length] }, .obj s.heap.length) := by
  rfl

end Cache

end DAVerif.EvalCache
