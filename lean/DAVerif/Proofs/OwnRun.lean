import DAVerif.Proofs.OwnDet
/-!
# Whole runs: independence of set iteration order, and repeatability  (`Heap/Own.lean`, used by `Props/C19.lean`)
-/
namespace DAVerif.Own

/-! ## scope predicate on pipelines -/

/-- scope: the data map and the frames stored in table descriptions are frames of the caller (positions below `n`) -/
def Scoped (dm : DataMap) (p : Pipe) (n : Nat) : Prop :=
  (∀ k id, dm.lookup k = some id → id < n) ∧ (∀ t, t ∈ tablesOf p → ∀ h, t.head = some h → h < n)

theorem Scoped.un {dm : DataMap} {k : UnKind} {fl : Option Fail} {src : Pipe} {n : Nat}
    (h : Scoped dm (.un k fl src) n) : Scoped dm src n := ⟨h.1, fun t ht => h.2 t (by simpa [tablesOf] using ht)⟩

theorem Scoped.left {dm : DataMap} {k : BinKind} {fl : Option Fail} {l r : Pipe} {n : Nat}
    (h : Scoped dm (.bin k fl l r) n) : Scoped dm l n :=
  ⟨h.1, fun t ht => h.2 t (by simp [tablesOf, ht])⟩

theorem Scoped.right {dm : DataMap} {k : BinKind} {fl : Option Fail} {l r : Pipe} {n : Nat}
    (h : Scoped dm (.bin k fl l r) n) : Scoped dm r n :=
  ⟨h.1, fun t ht => h.2 t (by simp [tablesOf, ht])⟩

theorem tableFrameId_lt {dm : DataMap} {t : TableOp} {p : Pipe} {n id : Nat} (hsc : Scoped dm p n)
    (ht : t ∈ tablesOf p) (h : tableFrameId dm t = .ok id) : id < n := by
  unfold tableFrameId at h
  split at h
  · split at h
    · rename_i id' hl
      cases h
      exact hsc.1 _ _ hl
    · cases h
  · split at h
    · rename_i id' hh
      cases h
      exact hsc.2 t ht _ hh
    · cases h

theorem getElem?_of_take_eq {α : Type} {l₁ l₂ : List α} {n i : Nat} (h : l₁.take n = l₂.take n) (hi : i < n) :
    l₁[i]? = l₂[i]? := by
  have := congrArg (fun l => l[i]?) h
  simpa [List.getElem?_take, hi] using this

/-- the caller's part of the heap after a run is the caller's part before it -/
theorem exec_take (ord : Ord) (dm : DataMap) (p : Pipe) (s : St) {n : Nat} (hn : n ≤ s.heap.length) :
    (exec ord dm p s).2.heap.take n = s.heap.take n :=
  (Ext.mono hn (exec_ext ord dm p s).1).keep

/-! ## two runs that differ in the set iteration order -/

/-- an event without column name / allocation label -/
def evShape : Ev → Ev
  | .alloc id _ => .alloc id ""
  | .write k id _ => .write k id ""
  | .ret id f => .ret id f

structure SRel (s₁ s₂ : St) : Prop where
  len : s₁.heap.length = s₂.heap.length
  log : s₁.log.map evShape = s₂.log.map evShape

theorem SRel.refl (s : St) : SRel s s := ⟨rfl, rfl⟩

theorem commit_shape (base : Nat) (srcIds : List FrameId) (e₁ e₂ : List Eff)
    (he : e₁.map shapeOf = e₂.map shapeOf) (s₁ s₂ : St) (hs : SRel s₁ s₂) :
    (commit base srcIds e₁ s₁).1 = (commit base srcIds e₂ s₂).1 ∧
    SRel (commit base srcIds e₁ s₁).2 (commit base srcIds e₂ s₂).2 := by
  induction e₁ generalizing e₂ s₁ s₂ with
  | nil =>
    cases e₂ with
    | nil => exact ⟨rfl, hs⟩
    | cons _ _ => simp at he
  | cons a as ih =>
    cases e₂ with
    | nil => simp at he
    | cons b bs =>
      simp only [List.map_cons, List.cons.injEq] at he
      obtain ⟨hab, hrest⟩ := he
      cases a with
      | alloc w f =>
        cases b with
        | alloc w' f' =>
          simp only [commit]
          apply ih bs hrest
          exact ⟨by simp [hs.len], by simp [hs.log, hs.len, evShape]⟩
        | write _ _ _ _ => simp [shapeOf] at hab
      | write k r c f =>
        cases b with
        | alloc _ _ => simp [shapeOf] at hab
        | write k' r' c' f' =>
          simp only [shapeOf, Option.some.injEq, Prod.mk.injEq] at hab
          obtain ⟨rfl, rfl⟩ := hab
          simp only [commit, hs.len]
          split
          · apply ih bs hrest
            exact ⟨by simp [hs.len], by simp [hs.log, evShape]⟩
          · exact ⟨rfl, hs⟩

theorem truncate_shape (k : Nat) (e₁ e₂ : List Eff) (he : e₁.map shapeOf = e₂.map shapeOf) :
    (truncate k e₁).map shapeOf = (truncate k e₂).map shapeOf := by
  induction e₁ generalizing e₂ k with
  | nil =>
    cases e₂ with
    | nil => rfl
    | cons _ _ => simp at he
  | cons a as ih =>
    cases e₂ with
    | nil => simp at he
    | cons b bs =>
      simp only [List.map_cons, List.cons.injEq] at he
      obtain ⟨hab, hrest⟩ := he
      cases k with
      | zero => simp [truncate]
      | succ k =>
        cases a with
        | alloc w f =>
          cases b with
          | alloc w' f' => simp [truncate, shapeOf, ih (k + 1) bs hrest]
          | write _ _ _ _ => simp [shapeOf] at hab
        | write wk r c f =>
          cases b with
          | alloc _ _ => simp [shapeOf] at hab
          | write wk' r' c' f' => simp [truncate, hab, ih k bs hrest]

theorem runPlan_ord (fail : Option Fail) (srcIds : List FrameId) (m₁ m₂ : B H) (hm : Equiv m₁ m₂)
    (s₁ s₂ : St) (hs : SRel s₁ s₂) :
    (runPlan fail srcIds m₁ s₁).1 = (runPlan fail srcIds m₂ s₂).1 ∧
    SRel (runPlan fail srcIds m₁ s₁).2 (runPlan fail srcIds m₂ s₂).2 := by
  obtain ⟨h1, _, h3⟩ := hm 0
  unfold runPlan
  cases fail with
  | some fl =>
    simp only
    obtain ⟨c1, c2⟩ := commit_shape s₁.heap.length srcIds _ _ (truncate_shape fl.writes _ _ h3) s₁ s₂ hs
    rw [← hs.len, ← c1]
    split
    · exact ⟨rfl, c2⟩
    · exact ⟨rfl, c2⟩
  | none =>
    simp only
    obtain ⟨c1, c2⟩ := commit_shape s₁.heap.length srcIds _ _ h3 s₁ s₂ hs
    rw [← hs.len, ← c1, ← h1, ← c2.len]
    split
    · split
      · exact ⟨rfl, ⟨c2.len, by simp [c2.log, evShape]⟩⟩
      · exact ⟨rfl, c2⟩
    · exact ⟨rfl, c2⟩

/-- **Independence of set iteration order** (generalised to two related start states). -/
theorem exec_ord {ord₁ ord₂ : Ord} (h₁ : OrdOK ord₁) (h₂ : OrdOK ord₂) (dm : DataMap) (p : Pipe)
    (n : Nat) (hsc : Scoped dm p n) (s₁ s₂ : St) (hs : SRel s₁ s₂)
    (hn : n ≤ s₁.heap.length) (ht : s₁.heap.take n = s₂.heap.take n) :
    (exec ord₁ dm p s₁).1 = (exec ord₂ dm p s₂).1 ∧ SRel (exec ord₁ dm p s₁).2 (exec ord₂ dm p s₂).2 := by
  induction p generalizing s₁ s₂ with
  | table t =>
    simp only [exec]
    cases hid : tableFrameId dm t with
    | error e => exact ⟨rfl, hs⟩
    | ok id =>
      have hlt : id < n := tableFrameId_lt hsc (by simp [tablesOf]) hid
      simp only
      rw [← getElem?_of_take_eq ht hlt]
      cases s₁.heap[id]? with
      | none => exact ⟨rfl, hs⟩
      | some df =>
        simp only
        split
        · exact ⟨rfl, hs⟩
        · exact runPlan_ord none [] _ _ (Equiv.refl _) s₁ s₂ hs
  | un k fail src ih =>
    obtain ⟨i1, i2⟩ := ih hsc.un s₁ s₂ hs hn ht
    simp only [exec]
    cases he1 : exec ord₁ dm src s₁ with
    | mk r1 t1 =>
      cases he2 : exec ord₂ dm src s₂ with
      | mk r2 t2 =>
        rw [he1, he2] at i1 i2
        dsimp only at i1 i2
        subst i1
        cases r1 with
        | error e => exact ⟨rfl, i2⟩
        | ok v =>
          obtain ⟨r, f⟩ := v
          exact runPlan_ord fail [r] _ _ (planUn_equiv h₁ h₂ k _) _ _ i2
  | bin k fail l r ihl ihr =>
    obtain ⟨i1, i2⟩ := ihl hsc.left s₁ s₂ hs hn ht
    have t1 := exec_take ord₁ dm l s₁ hn
    have t2 := exec_take ord₂ dm l s₂ (by rw [← hs.len]; exact hn)
    have l1 := (exec_ext ord₁ dm l s₁).1.len_le
    simp only [exec]
    cases he1 : exec ord₁ dm l s₁ with
    | mk r1 u1 =>
      cases he2 : exec ord₂ dm l s₂ with
      | mk r2 u2 =>
        rw [he1, he2] at i1 i2
        rw [he1] at t1 l1
        rw [he2] at t2
        dsimp only at i1 i2 t1 t2 l1
        subst i1
        cases r1 with
        | error e => exact ⟨rfl, i2⟩
        | ok v =>
          obtain ⟨rl, fl⟩ := v
          simp only
          obtain ⟨j1, j2⟩ := ihr hsc.right u1 u2 i2 (by omega) (by rw [t1, t2, ht])
          cases hf1 : exec ord₁ dm r u1 with
          | mk q1 w1 =>
            cases hf2 : exec ord₂ dm r u2 with
            | mk q2 w2 =>
              rw [hf1, hf2] at j1 j2
              dsimp only at j1 j2
              subst j1
              cases q1 with
              | error e => exact ⟨rfl, j2⟩
              | ok v2 =>
                obtain ⟨rr, fr⟩ := v2
                exact runPlan_ord fail [rl, rr] _ _ (planBin_equiv h₁ h₂ k _ _) _ _ j2

/-! ## two runs from heaps that agree on the caller's frames (repeatability) -/

def regOK (nsrc k : Nat) : Reg → Bool
  | .src i => decide (i < nsrc)
  | .loc n => decide (n < k)

/-- do all effects name existing frames (`k` = number of frames the step has allocated so far) -/
def effsOK (nsrc : Nat) : Nat → List Eff → Bool
  | _, [] => true
  | k, .alloc _ _ :: es => effsOK nsrc (k + 1) es
  | k, .write _ r _ _ :: es => regOK nsrc k r && effsOK nsrc k es

def allocCount : List Eff → Nat
  | [] => 0
  | .alloc _ _ :: es => allocCount es + 1
  | .write _ _ _ _ :: es => allocCount es

theorem resolve_isSome {base len k : Nat} {srcIds : List FrameId} (hsrc : ∀ i ∈ srcIds, i < base)
    (hlen : len = base + k) (r : Reg) :
    (resolve base srcIds len r).isSome = regOK srcIds.length k r := by
  cases r with
  | src i =>
    simp only [resolve, regOK]
    cases hi : srcIds[i]? with
    | none =>
      have : ¬ i < srcIds.length := by
        intro h; rw [List.getElem?_eq_getElem h] at hi; cases hi
      simp [this]
    | some id =>
      have h1 : i < srcIds.length := by
        apply Classical.byContradiction; intro h
        have hle : srcIds.length ≤ i := Nat.le_of_not_lt h
        rw [List.getElem?_eq_none hle] at hi; cases hi
      have h2 : id < len := by
        have := hsrc id (List.mem_of_getElem? hi)
        exact Nat.lt_of_lt_of_le this (by omega)
      simp [h1, h2]
  | loc n =>
    simp only [resolve, regOK]
    by_cases h : n < k
    · have : base + n < len := by omega
      simp [h, this]
    · have : ¬ base + n < len := by omega
      simp [h, this]

theorem commit_flag {base : Nat} {srcIds : List FrameId} (hsrc : ∀ i ∈ srcIds, i < base)
    (effs : List Eff) (k : Nat) (s : St) (hlen : s.heap.length = base + k) :
    (commit base srcIds effs s).1 = effsOK srcIds.length k effs ∧
    ((commit base srcIds effs s).1 = true →
      (commit base srcIds effs s).2.heap.length = base + k + allocCount effs) := by
  induction effs generalizing k s with
  | nil => simp [commit, effsOK, allocCount, hlen]
  | cons e es ih =>
    cases e with
    | alloc w f =>
      simp only [commit, effsOK, allocCount]
      have := ih (k + 1) ⟨s.heap ++ [f], s.log ++ [.alloc s.heap.length w]⟩ (by simp; omega)
      refine ⟨this.1, fun h => ?_⟩
      rw [this.2 h]; omega
    | write wk r c f =>
      simp only [commit, effsOK, allocCount]
      have hr := resolve_isSome hsrc hlen r
      split
      · rename_i id hres
        rw [hres] at hr
        have := ih k ⟨s.heap.set id f, s.log ++ [.write wk id c]⟩ (by simpa using hlen)
        simp only [Option.isSome_some] at hr
        rw [← hr, Bool.true_and]
        exact this
      · rename_i hres
        rw [hres] at hr
        simp only [Option.isSome_none] at hr
        rw [← hr]
        simp

/-- what a step body returns, as far as it does not depend on frame identities -/
def planDesc (fail : Option Fail) (nsrc : Nat) (m : B H) : Except Err Frame :=
  match fail with
  | some fl =>
    if effsOK nsrc 0 (truncate fl.writes (m 0).2.2) then .error (.raised fl.cls)
    else .error (.internal "unresolved register")
  | none =>
    if effsOK nsrc 0 (m 0).2.2 then
      if regOK nsrc (allocCount (m 0).2.2) (m 0).1.reg then .ok (m 0).1.f
      else .error (.internal "unresolved result")
    else .error (.internal "unresolved register")

theorem runPlan_desc (fail : Option Fail) (srcIds : List FrameId) (m : B H) (s : St)
    (hsrc : ∀ i ∈ srcIds, i < s.heap.length) :
    (runPlan fail srcIds m s).1.map Prod.snd = planDesc fail srcIds.length m := by
  unfold runPlan planDesc
  cases fail with
  | some fl =>
    simp only
    have := commit_flag hsrc (truncate fl.writes (m 0).2.2) 0 s rfl
    rw [this.1]
    split <;> rfl
  | none =>
    simp only
    have := commit_flag hsrc (m 0).2.2 0 s rfl
    rw [this.1]
    split
    · rename_i hok
      have hlen := this.2 (by rw [this.1]; exact hok)
      have hlen' : (commit s.heap.length srcIds (m 0).2.2 s).2.heap.length = s.heap.length + allocCount (m 0).2.2 := by
        rw [hlen]; omega
      have hr := resolve_isSome hsrc hlen' (m 0).1.reg
      split
      · rename_i id hres
        rw [hres] at hr
        simp only [Option.isSome_some] at hr
        simp [← hr, Except.map]
      · rename_i hres
        rw [hres] at hr
        simp only [Option.isSome_none] at hr
        simp [← hr, Except.map]
    · rfl

/-- **Repeatability** (generalised): the description of what a run returns (error class or columns / rows / payload
token of the returned frame) depends only on the caller's frames. -/
theorem exec_agree (ord : Ord) (dm : DataMap) (p : Pipe) (n : Nat) (hsc : Scoped dm p n) (sa sb : St)
    (ha : n ≤ sa.heap.length) (hb : n ≤ sb.heap.length) (ht : sa.heap.take n = sb.heap.take n) :
    (exec ord dm p sa).1.map Prod.snd = (exec ord dm p sb).1.map Prod.snd := by
  induction p generalizing sa sb with
  | table t =>
    simp only [exec]
    cases hid : tableFrameId dm t with
    | error e => rfl
    | ok id =>
      have hlt : id < n := tableFrameId_lt hsc (by simp [tablesOf]) hid
      simp only
      rw [← getElem?_of_take_eq ht hlt]
      cases sa.heap[id]? with
      | none => rfl
      | some df =>
        simp only
        split
        · rfl
        · rw [runPlan_desc none [] _ sa (by intro i hi; cases hi),
              runPlan_desc none [] _ sb (by intro i hi; cases hi)]
  | un k fail src ih =>
    have i1 := ih hsc.un sa sb ha hb ht
    have ea := exec_ext ord dm src sa
    have eb := exec_ext ord dm src sb
    simp only [exec]
    cases hea : exec ord dm src sa with
    | mk ra s1a =>
      cases heb : exec ord dm src sb with
      | mk rb s1b =>
        rw [hea, heb] at i1
        rw [hea] at ea
        rw [heb] at eb
        cases ra with
        | error e =>
          cases rb with
          | error e' => simpa [Except.map] using i1
          | ok v => simp [Except.map] at i1
        | ok va =>
          cases rb with
          | error e' => simp [Except.map] at i1
          | ok vb =>
            obtain ⟨ida, fa⟩ := va
            obtain ⟨idb, fb⟩ := vb
            simp only [Except.map, Except.ok.injEq] at i1
            subst i1
            simp only
            rw [runPlan_desc fail [ida] _ s1a (by intro i hi; simp at hi; subst hi; exact (ea.2 _ _ rfl).2),
                runPlan_desc fail [idb] _ s1b (by intro i hi; simp at hi; subst hi; exact (eb.2 _ _ rfl).2)]
            rfl
  | bin k fail l r ihl ihr =>
    have i1 := ihl hsc.left sa sb ha hb ht
    have ea := exec_ext ord dm l sa
    have eb := exec_ext ord dm l sb
    have ta := exec_take ord dm l sa ha
    have tb := exec_take ord dm l sb hb
    simp only [exec]
    cases hea : exec ord dm l sa with
    | mk ra s1a =>
      cases heb : exec ord dm l sb with
      | mk rb s1b =>
        rw [hea, heb] at i1
        rw [hea] at ea ta
        rw [heb] at eb tb
        cases ra with
        | error e =>
          cases rb with
          | error e' => simpa [Except.map] using i1
          | ok v => simp [Except.map] at i1
        | ok va =>
          cases rb with
          | error e' => simp [Except.map] at i1
          | ok vb =>
            obtain ⟨ida, fa⟩ := va
            obtain ⟨idb, fb⟩ := vb
            simp only [Except.map, Except.ok.injEq] at i1
            subst i1
            simp only
            have la := ea.1.len_le
            have lb := eb.1.len_le
            dsimp only at la lb ta tb
            have i2 := ihr hsc.right s1a s1b (by omega) (by omega) (by rw [ta, tb, ht])
            have fa2 := exec_ext ord dm r s1a
            have fb2 := exec_ext ord dm r s1b
            cases hfa : exec ord dm r s1a with
            | mk ra2 s2a =>
              cases hfb : exec ord dm r s1b with
              | mk rb2 s2b =>
                rw [hfa, hfb] at i2
                rw [hfa] at fa2
                rw [hfb] at fb2
                cases ra2 with
                | error e =>
                  cases rb2 with
                  | error e' => simpa [Except.map] using i2
                  | ok v => simp [Except.map] at i2
                | ok va2 =>
                  cases rb2 with
                  | error e' => simp [Except.map] at i2
                  | ok vb2 =>
                    obtain ⟨ida2, fa2'⟩ := va2
                    obtain ⟨idb2, fb2'⟩ := vb2
                    simp only [Except.map, Except.ok.injEq] at i2
                    subst i2
                    simp only
                    have l2a := fa2.1.len_le
                    have l2b := fb2.1.len_le
                    have v1 := (ea.2 _ _ rfl).2
                    have v2 := (eb.2 _ _ rfl).2
                    have v3 := (fa2.2 _ _ rfl).2
                    have v4 := (fb2.2 _ _ rfl).2
                    dsimp only at l2a l2b v1 v2 v3 v4
                    have v1 : @LT.lt Nat _ ida s1a.heap.length := v1
                    have v2 : @LT.lt Nat _ idb s1b.heap.length := v2
                    have v3 : @LT.lt Nat _ ida2 s2a.heap.length := v3
                    have v4 : @LT.lt Nat _ idb2 s2b.heap.length := v4
                    have w1 : ∀ i ∈ [ida, ida2], i < s2a.heap.length := by
                      intro i hi
                      simp at hi
                      rcases hi with rfl | rfl
                      · exact Nat.lt_of_lt_of_le v1 l2a
                      · exact v3
                    have w2 : ∀ i ∈ [idb, idb2], i < s2b.heap.length := by
                      intro i hi
                      simp at hi
                      rcases hi with rfl | rfl
                      · exact Nat.lt_of_lt_of_le v2 l2b
                      · exact v4
                    rw [runPlan_desc fail [ida, ida2] _ s2a w1, runPlan_desc fail [idb, idb2] _ s2b w2]
                    rfl

end DAVerif.Own
