import DAVerif.Proofs.MethodsAgg
/-!
C05, `median` and `var` of the backend models against `Doc.docAgg`.

`median`: the specification sorts with an insertion sort (`Doc.sortQ`), the backend model with `List.mergeSort`; both
are the unique ascending rearrangement of the items.  `var`: the same formula, the model divides by the natural number
`n - 1`, the specification by the rational `n - 1`.
-/
namespace DAVerif.C05A
open DAVerif DAVerif.Doc DAVerif.C05

/-! ### the specification's insertion sort is a sort -/

theorem insertSorted_perm (x : Rat) : ∀ (l : List Rat), (insertSorted x l).Perm (x :: l)
  | [] => List.Perm.refl _
  | y :: r => by
    unfold insertSorted
    by_cases h : x ≤ y
    · rw [if_pos h]
    · rw [if_neg h]
      exact ((insertSorted_perm x r).cons y).trans (List.Perm.swap x y r)

theorem sortQ_perm : ∀ (l : List Rat), (sortQ l).Perm l
  | [] => List.Perm.refl _
  | x :: r => (insertSorted_perm x (sortQ r)).trans ((sortQ_perm r).cons x)

theorem insertSorted_sorted (x : Rat) : ∀ (l : List Rat), l.Pairwise (· ≤ ·) → (insertSorted x l).Pairwise (· ≤ ·)
  | [], _ => by simp [insertSorted]
  | y :: r, h => by
    unfold insertSorted
    have hy : ∀ z ∈ r, y ≤ z := (List.pairwise_cons.mp h).1
    have hr : r.Pairwise (· ≤ ·) := (List.pairwise_cons.mp h).2
    by_cases hxy : x ≤ y
    · rw [if_pos hxy]
      refine List.pairwise_cons.mpr ⟨?_, h⟩
      intro z hz
      rcases List.mem_cons.mp hz with rfl | hz
      · exact hxy
      · exact Rat.le_trans hxy (hy z hz)
    · rw [if_neg hxy]
      refine List.pairwise_cons.mpr ⟨?_, insertSorted_sorted x r hr⟩
      intro z hz
      have : z ∈ x :: r := (insertSorted_perm x r).mem_iff.mp hz
      rcases List.mem_cons.mp this with rfl | hz
      · exact Rat.le_of_lt (Rat.not_le.mp hxy)
      · exact hy z hz

theorem sortQ_sorted : ∀ (l : List Rat), (sortQ l).Pairwise (· ≤ ·)
  | [] => List.Pairwise.nil
  | x :: r => insertSorted_sorted x (sortQ r) (sortQ_sorted r)

/-- the backend's merge sort and the specification's insertion sort return the same list -/
theorem mergeSort_eq_sortQ (l : List Rat) : l.mergeSort (fun a b => decide (a ≤ b)) = sortQ l := by
  have hs : (l.mergeSort (fun a b => decide (a ≤ b))).Pairwise (fun a b => decide (a ≤ b) = true) :=
    List.pairwise_mergeSort
      (fun a b c h1 h2 => by simp only [decide_eq_true_eq] at h1 h2 ⊢; exact Rat.le_trans h1 h2)
      (fun a b => by
        simp only [Bool.or_eq_true, decide_eq_true_eq]; exact Rat.le_total) l
  have hs' : (l.mergeSort (fun a b => decide (a ≤ b))).Pairwise (· ≤ ·) :=
    hs.imp (fun h => by simpa using h)
  have hp : (l.mergeSort (fun a b => decide (a ≤ b))).Perm (sortQ l) :=
    (List.mergeSort_perm l _).trans (sortQ_perm l).symm
  exact List.Perm.eq_of_pairwise (fun _ _ _ _ h1 h2 => Rat.le_antisymm h1 h2) hs' (sortQ_sorted l) hp

/-! ### median -/

theorem pandas_median (vs : List Val) (v : Val) (h : docAgg "median" vs = some v) : ThetaX.agg "median" vs = v := by
  have hd : docAgg "median" vs = (numItems? vs).bind (fun xs =>
      let s := sortQ xs
      let n := s.length
      if n = 0 then none
      else if n % 2 = 1 then some (.num (s.getD (n / 2) 0))
      else some (.num ((s.getD (n / 2 - 1) 0 + s.getD (n / 2) 0) / 2))) := rfl
  rw [hd] at h
  cases hn : numItems? vs with
  | none => rw [hn] at h; simp at h
  | some xs =>
    rw [hn] at h
    show Theta.medianV vs = v
    unfold Theta.medianV
    rw [nums_of_numItems hn, mergeSort_eq_sortQ]
    simp only [Option.bind_some] at h
    by_cases h0 : (sortQ xs).length = 0
    · rw [if_pos h0] at h; simp at h
    · rw [if_neg h0] at h
      have h0' : ((sortQ xs).length == 0) = false := by simpa using h0
      simp only [h0', Bool.false_eq_true, if_false]
      by_cases h1 : (sortQ xs).length % 2 = 1
      · rw [if_pos h1] at h
        have h1' : ((sortQ xs).length % 2 == 1) = true := by simpa using h1
        simp only [h1', if_true]
        exact Option.some.inj h
      · rw [if_neg h1] at h
        have h1' : ((sortQ xs).length % 2 == 1) = false := by simpa using h1
        simp only [h1', Bool.false_eq_true, if_false]
        exact Option.some.inj h

/-- the SQLite model of `median` (user function; project only) is the shared one -/
theorem sqlite_median (vs : List Val) (v : Val) (h : docAgg "median" vs = some v) : ThetaSqlX.agg "median" vs = v :=
  pandas_median vs v h

/-! ### var -/

theorem natCast_pred (n : Nat) (h : ¬ n < 2) : ((n - 1 : Nat) : Rat) = (n : Rat) - 1 := by
  obtain ⟨m, rfl⟩ : ∃ m, n = m + 1 := ⟨n - 1, by omega⟩
  rw [Nat.add_sub_cancel, Rat.natCast_add]
  grind

theorem pandas_var (vs : List Val) (v : Val) (h : docAgg "var" vs = some v) : ThetaX.agg "var" vs = v := by
  have hd : docAgg "var" vs = (numItems? vs).bind (fun xs =>
      if xs.length < 2 then none else
        let m := sumQ xs / xs.length
        some (.num (sumQ (xs.map (fun x => (x - m) * (x - m))) / ((xs.length : Rat) - 1)))) := rfl
  rw [hd] at h
  cases hn : numItems? vs with
  | none => rw [hn] at h; simp at h
  | some xs =>
    rw [hn] at h
    show Theta.varV vs = v
    unfold Theta.varV
    rw [nums_of_numItems hn]
    simp only [Option.bind_some] at h
    by_cases h2 : xs.length < 2
    · rw [if_pos h2] at h; simp at h
    · rw [if_neg h2] at h
      simp only [if_neg h2]
      rw [sumR_eq_sumQ, sumR_eq_sumQ, natCast_pred _ h2]
      exact Option.some.inj h

/-- the SQLite model of `var` (user function; project only) is the shared one -/
theorem sqlite_var (vs : List Val) (v : Val) (h : docAgg "var" vs = some v) : ThetaSqlX.agg "var" vs = v :=
  pandas_var vs v h

/-! ### what the documented median *is*: the middle of **any** ascending rearrangement -/

theorem sortQ_unique (xs s : List Rat) (hp : s.Perm xs) (hs : s.Pairwise (· ≤ ·)) : sortQ xs = s :=
  List.Perm.eq_of_pairwise (fun _ _ _ _ h1 h2 => Rat.le_antisymm h1 h2) (sortQ_sorted xs) hs
    ((sortQ_perm xs).trans hp.symm)

end DAVerif.C05A
