import DAVerif.Proofs.ExprPrint
import DAVerif.Proofs.ExprParse
/-!
C13, "the walker only produces well-formed terms": definitions.

* `gram c`         – (decidable) the shapes of lark trees that the parser model `parseToks` produces, as far as the
                     walker looks at them: an over-approximation of the grammar (`Proofs/ExprWalkWfParse.lean` proves
                     `parseToks toks = .ok c → gram c`).
* `noDunderCall c` – guard `NoDunderCall` of the known finding `C13-dunder-bitwise-method-print`: no method call
                     `recv.__name__(…)` whose method name starts with two underscores.
* `calleeIsName c` – guard `CalleeIsName` of the known finding `C13-call-of-unary-expression`: the callee of every call
                     is a name (`f(…)`) or an attribute (`recv.f(…)`).
* `floatsInScope c`– lexical scope of the float model (`Expr/Lex.lean`): every FLOAT token's exact decimal value prints
                     (by the model's `reprFloat`) to a spelling that reads back as the same value.
* `termNames t`, `cstNames c`, `tableNames env` – the texts printed as NAME tokens, the NAME tokens of a tree, the
                     operator names of the non-inline builders.
* `Canon env`      – (decidable) condition on the tables the walker reads (`op_remap`, `factor_remap`, builder methods),
                     beside `Env.Sane`: the flags of the builders that the grammar's operators and the named methods
                     reach are the ones the printed form is re-read with.
-/
namespace DAVerif.C13W
open DAVerif DAVerif.Expr

/-! ## shapes of parser output -/

/-- the operator tokens lark keeps in the tree at the levels the walker accepts (comparison, arith_expr, term) -/
def grammarOps : List String :=
  ["<", ">", "==", ">=", "<=", "<>", "!=", "in", "not", "is", "+", "-", "*", "/", "%+%", "%?%", "%", "//", "%/%"]

/-- the prefix operators of `factor` -/
def unaryOps : List String := ["+", "-", "~"]

def isOpTokIn (ops : List String) : Cst → Bool
  | .tok t => t.kind == .op && ops.contains t.text
  | _ => false

mutual
/-- a tree of the shape the parser produces (rules classified as the walker classifies them) -/
def gram : Cst → Bool
  | .tok _ => false
  | .none => false
  | .node rule ch =>
    match classify rule with
    | .constTrue => true
    | .constFalse => true
    | .constNone => true
    | .wrapper =>                                   -- var, number, string: one token
      match ch with
      | [.tok _] => true
      | _ => false
    | .arith => gramLevel ch
    | .term => gramLevel ch
    | .comparison => gramLevel ch
    | .orTest => gramLevel ch
    | .andTest => gramLevel ch
    | .bitwise => true                              -- refused by the walker whatever is below
    | .other =>                                     -- shift_expr, atom (adjacent strings): refused whatever is below
      if rule == "getattr" then                     -- (refused when walked, but the callee of a method call)
        match ch with
        | [recv, .tok _] => gram recv
        | _ => false
      else rule == "shift_expr" || rule == "atom"
    | .power =>
      match ch with
      | [a, b] => gram a && gram b
      | _ => false
    | .factor =>
      match ch with
      | [.tok t, x] => t.kind == .op && unaryOps.contains t.text && gram x
      | _ => false
    | .not =>
      match ch with
      | [x] => gram x
      | _ => false
    | .funccall =>
      match ch with
      | [carrier, more] =>
        gram carrier &&
        (match more with
         | .none => true
         | .node _ items => gramArgs items
         | .tok _ => false)
      | _ => false
    | .collection =>
      match ch with
      | [.none] => true
      | [.node r items] =>
        if r == "tuplelist_comp" || r == "set_comp" then !items.isEmpty && gramAll items
        else gram (.node r items)
      | _ => false
    | .dict =>
      match ch with
      | [.none] => true
      | [.node _ items] => !items.isEmpty && gramKVs items
      | _ => false
    | .keyValue => false                            -- only below `dict` (see `gramKVs`)
/-- children of a binary level: operands and the operator tokens lark keeps -/
def gramLevel : List Cst → Bool
  | [] => true
  | c :: cs => (isOpTokIn grammarOps c || gram c) && gramLevel cs
def gramAll : List Cst → Bool
  | [] => true
  | c :: cs => gram c && gramAll cs
/-- children of `arguments`: tests, and the `None` placeholder a trailing comma leaves -/
def gramArgs : List Cst → Bool
  | [] => true
  | .none :: cs => gramArgs cs
  | c :: cs => gram c && gramArgs cs
/-- children of `dict_comp`: `key_value` nodes -/
def gramKVs : List Cst → Bool
  | [] => true
  | .node r [k, v] :: cs => r == "key_value" && gram k && gram v && gramKVs cs
  | _ :: _ => false
end

/-! ## guards on the tree -/

mutual
/-- every node satisfies `pn`, every token `pt` -/
def allP (pn : String → List Cst → Bool) (pt : Token → Bool) : Cst → Bool
  | .tok t => pt t
  | .none => true
  | .node r ch => pn r ch && allPL pn pt ch
def allPL (pn : String → List Cst → Bool) (pt : Token → Bool) : List Cst → Bool
  | [] => true
  | c :: cs => allP pn pt c && allPL pn pt cs
end

/-- a node that is not a call of a dunder method: not `funccall [getattr [_, __name__], …]` -/
def dunderNodeOk (r : String) (ch : List Cst) : Bool :=
  !(r == "funccall") ||
  match ch with
  | .node crule [_, .tok nm] :: _ => !(crule == "getattr" && isDunder nm.text)
  | _ => true

/-- guard `NoDunderCall`: the text calls no method whose name starts with two underscores -/
def noDunderCall (c : Cst) : Bool := allP dunderNodeOk (fun _ => true) c

/-- a node that is not a call whose callee is something other than a name (`var [NAME]`) or an attribute -/
def calleeNodeOk (r : String) (ch : List Cst) : Bool :=
  !(r == "funccall") ||
  match ch with
  | .node crule cch :: _ =>
    crule == "getattr" ||
    (crule == "var" && match cch with
      | .tok t :: _ => t.kind == .name
      | _ => false)
  | _ => false

/-- guard `CalleeIsName`: the callee of every call is a name or an attribute (not `(-x)(y)`, `5(y)`, `'a'(y)`) -/
def calleeIsName (c : Cst) : Bool := allP calleeNodeOk (fun _ => true) c

/-- a FLOAT token whose value's model spelling reads back as the value (always true for the decimals of at most 400
significant digits; `Expr/Lex.lean` states the scope of the float model) -/
def floatTokOk (t : Token) : Bool :=
  !(t.kind == .float) ||
  match decodeFloat t.text with
  | some q => litOk (.flt q)
  | none => true

/-- lexical scope of the float model -/
def floatsInScope (c : Cst) : Bool := allP (fun _ _ => true) floatTokOk c

/-- both guards the well-formedness theorem needs, as one traversal (used in the induction) -/
def guardsWf (c : Cst) : Bool := allP dunderNodeOk floatTokOk c
def guardsWfL (cs : List Cst) : Bool := allPL dunderNodeOk floatTokOk cs

/-! ## the tables -/

/-- `remapX` on the table alone -/
def remapXT (opRemap : List (String × String)) (op : String) : String :=
  if op == "**" then "__pow__" else remap opRemap op

/-- the flags of a two-argument builder are the ones the printed form is re-read with:
* inline (`a op b`): `op` is k-ary (`+ * and or`, re-read through `kop_expr`), or it is one of the binary symbols and
  the token `op` is remapped to a builder with the same body;
* method (`a.op(b)`): the attribute `op` is a builder with the same body;
* function (`op(a, b)`): nothing to ask. -/
def binCanonT (methods : List (String × MethodKind)) (opRemap : List (String × String))
    (op : String) (i m c : Bool) : Bool :=
  if i then
    m || karyOps.contains op ||
      (bin2Ops.contains op && remapXT opRemap op != "__neg__" &&
        methods.lookup (remapXT opRemap op) == some (.bin op true false c))
  else if m then op != "__neg__" && methods.lookup op == some (.bin op false true c)
  else true

/-- a named (non-dunder) builder: one-argument builders are not inline, three-argument ones neither -/
def kindCanonT (methods : List (String × MethodKind)) (opRemap : List (String × String)) : MethodKind → Bool
  | .uop _ inline => !inline
  | .bin op i m c => binCanonT methods opRemap op i m c
  | .tri _ i _ => !i
  | _ => true

/-- a builder reached through an operator token (called with one argument) -/
def reachCanonT (methods : List (String × MethodKind)) (opRemap : List (String × String)) (name : String) : Bool :=
  match methods.lookup name with
  | some (.bin op i m c) => binCanonT methods opRemap op i m c
  | some (.rbin _) => false
  | some (.special _) => false
  | _ => true

def tablesCanon (methods : List (String × MethodKind)) (opRemap factorRemap : List (String × String)) : Bool :=
  methods.all (fun kv => isDunder kv.1 || kindCanonT methods opRemap kv.2) &&
  grammarOps.all (fun s => reachCanonT methods opRemap (remap opRemap s)) &&
  reachCanonT methods opRemap "__pow__" && reachCanonT methods opRemap "__eq__" &&
  (methods.lookup (remap factorRemap "~")).isNone

/-- the tables give the builders the flags the printed forms presume -/
def Canon (env : Env) : Prop := tablesCanon env.methods env.opRemap env.factorRemap = true

/-! ## names -/

mutual
/-- the texts the printer emits as NAME tokens: column names and the operator of every non-inline `Expression` -/
def termNames : Term → List String
  | .value _ => []
  | .col c => [c]
  | .list _ => []
  | .dict _ => []
  | .app op args inline _ => (if inline then [] else [op]) ++ termNamesL args
def termNamesL : List Term → List String
  | [] => []
  | a :: as => termNames a ++ termNamesL as
end

mutual
/-- the texts of the NAME tokens of a tree -/
def cstNames : Cst → List String
  | .tok t => if t.kind == .name then [t.text] else []
  | .none => []
  | .node _ ch => cstNamesL ch
def cstNamesL : List Cst → List String
  | [] => []
  | c :: cs => cstNames c ++ cstNamesL cs
end

/-- the operator names a builder of the table can put into a non-inline `Expression` (printed as a NAME token) -/
def kindNames : MethodKind → List String
  | .uop op inline => if inline then [] else [op]
  | .bin op inline _ _ => if inline then [] else [op]
  | .rbin _ => []
  | .tri op inline _ => if inline then [] else [op]
  | .special n => [n]
  | .unmodelled => []

def tableNames (env : Env) : List String := env.methods.flatMap (fun kv => kindNames kv.2)

end DAVerif.C13W
