import DAVerif.Proofs.SqlReach
import DAVerif.Proofs.SolRank
import DAVerif.Props.C04merge
import DAVerif.Solutions.ReplicateInterp
/-!
C21, SQL side of `rank_to_average`.

* `reachable_buildChain` – a chain of builder calls over a reachable view is reachable (so `WF`, `SqlWF`, `JoinWF`
  of the helper pipelines come from `C26_reachable_wf`, `C01_reachable_sqlwf`, `C16_reachable_joinwf`).
* `RankSem Θ` – the three facts about the window functions of an interpretation that `rank_to_average` relies on;
  instances: the Pandas-side interpretation `Theta.concrete cv` and the SQLite-side interpretations
  `ThetaSql.concrete`, `thetaSqlSol`.  `sem_rankTree_interp`: the Pandas-side theorem of `Proofs/SolRank.lean` for
  every such `Θ`.
* the hypotheses of `Sql.C01_translation_exact_merges` for the tree the helper builds (`rank_frag`, `rank_maps`,
  `rank_envOK`, `rank_reachable`, `rank_ordersNullFree`) and the resulting statement `rank_sql_exact`.
-/
namespace DAVerif
namespace Sol21Sql
open DAVerif.Sql DAVerif.Sol DAVerif.Solutions DAVerif.Spec21

/-! ### chains of builder calls are reachable -/

theorem reachable_buildChain {steps : List Step} : ∀ {d p : Ops}, Reachable d →
    (∀ s ∈ steps, ∀ b ∈ Rules26.stepArgs s, Reachable b) → buildChain d steps = .ok p → Reachable p := by
  induction steps with
  | nil =>
    intro d p hd _ h
    simp only [buildChain, List.foldlM, pure_ok] at h
    exact h ▸ hd
  | cons s steps ih =>
    intro d p hd hargs h
    simp only [buildChain, List.foldlM, bind_ok] at h
    obtain ⟨d1, h1, h2⟩ := h
    exact ih (Reachable.step hd (hargs s List.mem_cons_self) h1)
      (fun s' hs' => hargs s' (List.mem_cons_of_mem _ hs')) h2

/-! ### the window functions `rank_to_average` uses -/

/-- what `rank_to_average` needs of the interpretation of the window functions: `_row_number()` numbers the window
from 1, `(1.0).cumsum()` counts the rows up to the current one, `mean()` over a window is the mean of the non-missing
cells of the partition -/
structure RankSem (Θ : Interp) : Prop where
  rowNumber : ∀ cargs vs pos, Θ.win "_row_number" cargs vs pos = Val.num ((pos + 1 : Nat) : Rat)
  cumsumOnes : ∀ m pos, pos < m →
    Θ.win "cumsum" [] (List.replicate m (Val.num 1)) pos = Val.num ((pos + 1 : Nat) : Rat)
  mean : ∀ cargs vs pos, Θ.win "mean" cargs vs pos = Theta.meanV vs

theorem rankSem_concrete (cv : RecMap → Table → Except Err Table) : RankSem (Theta.concrete cv) where
  rowNumber := win_row_number cv
  cumsumOnes := fun m pos h => by
    simp only [Theta.concrete, Theta.win]
    exact cumulate_ones m pos h
  mean := win_mean cv

theorem runFold_ones (m pos : Nat) (h : pos < m) :
    ThetaSql.runFold (· + ·) (List.replicate m (Val.num 1)) pos = Val.num ((pos + 1 : Nat) : Rat) := by
  unfold ThetaSql.runFold
  have h2 : (List.replicate m (Val.num 1)).take (pos + 1) = List.replicate (pos + 1) (Val.num 1) := by
    rw [List.take_replicate]; congr 1; omega
  rw [h2, nums_replicate_one, List.replicate_succ]
  simp only [foldl_add_ones, Rat.natCast_add]
  congr 1
  grind

theorem rankSem_sql : RankSem ThetaSql.concrete where
  rowNumber := fun cargs vs pos => by
    simp [ThetaSql.concrete, ThetaSql.win, Theta.win, Rat.natCast_add]
  cumsumOnes := fun m pos h => by
    simp only [ThetaSql.concrete, ThetaSql.win]
    exact runFold_ones m pos h
  mean := fun cargs vs pos => by
    simp [ThetaSql.concrete, ThetaSql.win, ThetaSql.agg, Theta.agg]

theorem rankSem_sqlSol : RankSem thetaSqlSol where
  rowNumber := rankSem_sql.rowNumber
  cumsumOnes := rankSem_sql.cumsumOnes
  mean := rankSem_sql.mean

section
variable {Θ : Interp} (hΘ : RankSem Θ)
include hΘ

theorem stage1g (tb : String) (ob : List String) (t : Table) (oc : List String) :
    semExtendWindow Θ [(tb, fcall0 "_row_number")] [] ob [] t oc
      = ⟨oc, addCol oc tb (fun j => Val.num ((rk1 ob t.rows j : Nat) : Rat)) t.rows⟩ := by
  rw [semExtendWindow_single]
  congr 1
  apply addCol_congr
  intro i _
  simp only [winVal, fcall0, opName, hΘ.rowNumber, rk1]

theorem stage2g (rk : String) (t : Table) (oc : List String) (o p : List String) :
    semExtendWindow Θ [(rk, mcall "cumsum" (.value (.flt 1)))] p o [] t oc
      = ⟨oc, addCol oc rk (fun j => Val.num ((winPos p o [] t.rows j + 1 : Nat) : Rat)) t.rows⟩ := by
  rw [semExtendWindow_single]
  congr 1
  apply addCol_congr
  intro i hi
  simp only [winVal]
  have h1 : opName (mcall "cumsum" (.value (.flt 1))) = "cumsum" := rfl
  have h2 : constArgs (mcall "cumsum" (.value (.flt 1))) = [] := rfl
  have h3 : ∀ rows : List Row, argValues (mcall "cumsum" (.value (.flt 1))) rows
      = List.replicate rows.length (Val.num 1) := by
    intro rows
    simp only [argValues, mcall, Lit.toVal]
    exact List.map_const' ..
  rw [h1, h2, h3]
  apply hΘ.cumsumOnes
  rw [List.length_map]
  exact winPos_lt hi

theorem stage3g (rk : String) (t : Table) (oc : List String) (p : List String) :
    semExtendWindow Θ [(rk, mcall "mean" (.col rk))] p [] [] t oc
      = ⟨oc, addCol oc rk (fun i => Theta.meanV
          (((List.range t.rows.length).filter (fun j => keyOf (t.rows.getD j []) p == keyOf (t.rows.getD i []) p)).map
            (fun j => (t.rows.getD j []).get rk))) t.rows⟩ := by
  rw [semExtendWindow_single]
  congr 1
  apply addCol_congr
  intro i _
  simp only [winVal]
  have : opName (mcall "mean" (.col rk)) = "mean" := rfl
  rw [this, hΘ.mean, winSorted_nil]
  congr 1
  have : ∀ rows : List Row, argValues (mcall "mean" (.col rk)) rows = rows.map (fun r => r.get rk) := fun _ => rfl
  rw [this, List.map_map, map_winPart]
  rfl

/-- evaluating the tree of `rank_to_average` under `Θ` gives what the Pandas-side interpretation gives -/
theorem sem_rankTree_congr (cv : RecMap → Table → Except Err Table) (cfg : SemCfg) (env : Env) (d : Ops)
    (ob part : List String) (rk tb : String)
    (hd : sem Θ cfg env d = sem (Theta.concrete cv) cfg env d) :
    sem Θ cfg env (rankTree d ob part rk tb) = sem (Theta.concrete cv) cfg env (rankTree d ob part rk tb) := by
  simp only [rankTree, sem, hd, bind, Except.bind, pure, Except.pure, if_true]
  cases sem (Theta.concrete cv) cfg env d with
  | error e => rfl
  | ok t => simp only [stage1g hΘ, stage2g hΘ, stage3g hΘ, stage1 cv, stage2 cv, stage3 cv]

/-- **`sem_rankTree` for every interpretation with `RankSem`** -/
theorem sem_rankTree_interp (cfg : SemCfg) (env : Env) {name : String} {cols ob part : List String} {rk tb : String}
    {t0 : Table} (hok : RankOK cols ob part rk tb) (henv : env.lookup name = some t0)
    (hsub : subset cols t0.cols = true) :
    sem Θ cfg env (rankTree (.table name cols) ob part rk tb)
      = .ok (rankSpec (rowLe ob []) part rk (t0.selectCols cols)) := by
  rw [sem_rankTree_congr hΘ (fun _ _ => .error .other) cfg env (.table name cols) ob part rk tb rfl]
  have hd : sem (Theta.concrete (fun _ _ => .error .other)) cfg env (.table name cols) = .ok (t0.selectCols cols) := by
    simp only [sem, henv, hsub, if_true]
  exact sem_rankTree _ cfg env (.table name cols) (t0.selectCols cols) hok hd (Table.wf_selectCols _ _)

end

/-! ### the hypotheses of the translation theorem -/

theorem rank_frag (name : String) (cols ob part : List String) (rk tb : String) :
    InFrag (rankTree (.table name cols) ob part rk tb) = true := rfl

theorem rank_maps (name : String) (cols ob part : List String) (rk tb : String) :
    MapsOK (rankTree (.table name cols) ob part rk tb) := rfl

theorem rank_envOK {env : Env} {name : String} {cols : List String} {t0 : Table} (ob part : List String)
    (rk tb : String) (henv : env.lookup name = some t0) (hsub : subset cols t0.cols = true) :
    EnvOK false env (rankTree (.table name cols) ob part rk tb) := by
  intro nc hnc
  have : nc = (name, cols) := by simpa [rankTree, Ops.tables] using hnc
  subst this
  exact ⟨t0, henv, subset_iff.mp hsub, fun h => by cases h⟩

/-- the helper's pipeline is reachable: every node is a successful builder call over a table description -/
theorem rank_reachable {name : String} {cols orderBy : List String} {partitionBy : Option (List String)}
    {rankCol tbCol : String} {p : Ops}
    (h : rankToAverage (.table name cols) orderBy partitionBy rankCol tbCol = .ok p) : Reachable p := by
  obtain ⟨_, hok⟩ := rankToAverage_ok (plain_table ..) (by intro _ _ _ _ _ _ e; cases e) h
  have hne : cols ≠ [] := by
    intro e
    cases hob : orderBy with
    | nil => exact hok.order_ne hob
    | cons a l =>
      have := hok.order_sub a (by rw [hob]; exact List.mem_cons_self)
      simp only [Ops.cols] at this
      rw [e] at this
      cases this
  simp only [rankToAverage, bind_ok] at h
  obtain ⟨_, _, h⟩ := h
  exact reachable_buildChain (Reachable.table name cols hne hok.nodup)
    (by intro s hs b hb; simp only [rankToAverageSteps, List.mem_cons, List.not_mem_nil, or_false] at hs
        rcases hs with rfl | rfl | rfl | rfl <;> cases hb) h

/-- null-free cells stay null free through an `extend` that assigns a non-missing cell -/
theorem nullFreeOn_addCol {oc cs : List String} {c : String} {f : Nat → Val} {rows : List Row}
    (hcs : ∀ c' ∈ cs, c' ∈ oc) (hf : ∀ i, i < rows.length → (f i).isNull = false)
    (h : ∀ c' ∈ cs, c' ≠ c → ∀ r ∈ rows, (r.get c').isNull = false) : NullFreeOn cs (addCol oc c f rows) := by
  intro r hr c' hc'
  obtain ⟨i, hi, rfl⟩ := List.mem_iff_getElem.mp hr
  have hi' : i < rows.length := by simpa using hi
  rw [getElem_addCol, Row.select_get_of_mem (hcs c' hc'), get_set]
  split
  · exact hf i hi'
  · rename_i hne
    exact h c' hc' hne _ (List.getElem_mem hi')

theorem nullFreeOn_selectCols {cs cols : List String} {t0 : Table} (hcs : ∀ c ∈ cs, c ∈ cols)
    (h : NullFreeOn cs t0.rows) : NullFreeOn cs (t0.selectCols cols).rows := by
  intro r hr c hc
  simp only [Table.selectCols, List.mem_map] at hr
  obtain ⟨r0, hr0, rfl⟩ := hr
  rw [Row.select_get_of_mem (hcs c hc)]
  exact h r0 hr0 c hc

/-- **strong scope for `rank_to_average`**: when no `order_by` cell of the input is missing, every ordered window of
the helper's pipeline sees null-free order columns (the tie breaker is a computed number) -/
theorem rank_ordersNullFree {Θ : Interp} (hΘ : RankSem Θ) (cfg : SemCfg) {env : Env} {name : String}
    {cols ob part : List String} {rk tb : String} {t0 : Table} (hok : RankOK cols ob part rk tb)
    (henv : env.lookup name = some t0) (hsub : subset cols t0.cols = true) (hnull : NullFreeOn ob t0.rows) :
    OrdersNullFree Θ cfg env (rankTree (.table name cols) ob part rk tb) := by
  have h0 : NullFreeOn ob (t0.selectCols cols).rows := nullFreeOn_selectCols hok.order_sub hnull
  have hc1 : appendNew cols [tb] = cols ++ [tb] := appendNew_single hok.tb_new
  refine ⟨⟨⟨trivial, ?_⟩, ?_⟩, ?_⟩
  · intro t ht
    simp only [sem, henv, hsub, if_true] at ht
    cases ht
    exact h0
  · intro t ht
    simp only [sem, henv, hsub, if_true, bind, Except.bind, pure, Except.pure, Ops.cols, List.map_cons,
      List.map_nil, hc1, stage1g hΘ] at ht
    cases ht
    dsimp only
    apply nullFreeOn_addCol
    · intro c hc
      rcases List.mem_append.mp hc with h | h
      · exact List.mem_append_left _ (hok.order_sub c h)
      · exact List.mem_append_right _ h
    · intro i _; rfl
    · intro c hc hne r hr
      rcases List.mem_append.mp hc with h | h
      · exact h0 r hr c h
      · exact absurd (List.mem_singleton.mp h) hne
  · intro t _ r _ c hc
    cases hc

/-- **`rank_to_average` on SQL, exact form.**  For every interpretation with `RankSem`, both engines' NULL placement,
every dialect configuration: when no `order_by` cell of the input is missing, the query `to_sql` produces for the
helper's pipeline evaluates to a table with the column set of the specification and, read through the specification's
column list, exactly its rows in its order. -/
theorem rank_sql_exact (Θ : Interp) (hΘ : RankSem Θ) (ec : EngineCfg) (env : Env) (cfg : SqlCfg)
    {name : String} {cols orderBy : List String} {partitionBy : Option (List String)} {rankCol tbCol : String}
    {p : Ops} {t0 : Table} {q : Near}
    (hbuild : rankToAverage (.table name cols) orderBy partitionBy rankCol tbCol = .ok p)
    (henv : env.lookup name = some t0) (hsub : subset cols t0.cols = true)
    (hnull : NullFreeOn orderBy t0.rows) (hq : toNearSql cfg p = .ok q) :
    ∃ T, semSql Θ ec env q = .ok T ∧
      T.EqS (rankSpec (rowLe orderBy []) (partitionBy.getD []) rankCol (t0.selectCols cols)) := by
  have hr := rank_reachable hbuild
  obtain ⟨rfl, hok⟩ := rankToAverage_ok (plain_table ..) (by intro _ _ _ _ _ _ e; cases e) hbuild
  have hok : RankOK cols orderBy (partitionBy.getD []) rankCol tbCol := hok
  obtain ⟨T, t, h1, h2, _, h4⟩ := C01_translation_exact_merges Θ ec env cfg _ (rank_frag ..)
    (C26_reachable_wf hr) (C01_reachable_sqlwf hr) (rank_maps ..) (rank_envOK _ _ _ _ henv hsub)
    (rank_ordersNullFree hΘ SemCfg.ref hok henv hsub hnull) hq
  rw [sem_rankTree_interp hΘ SemCfg.ref env hok henv hsub] at h2
  cases h2
  exact ⟨T, h1, h4⟩

/-- the translation of the helper's pipeline does not fail -/
theorem rank_to_sql_total (env : Env) (cfg : SqlCfg) {name : String} {cols orderBy : List String}
    {partitionBy : Option (List String)} {rankCol tbCol : String} {p : Ops} {t0 : Table}
    (hbuild : rankToAverage (.table name cols) orderBy partitionBy rankCol tbCol = .ok p)
    (henv : env.lookup name = some t0) (hsub : subset cols t0.cols = true) : ∃ q, toNearSql cfg p = .ok q := by
  have hr := rank_reachable hbuild
  obtain ⟨rfl, _⟩ := rankToAverage_ok (plain_table ..) (by intro _ _ _ _ _ _ e; cases e) hbuild
  exact C01_to_sql_total ThetaSql.concrete EngineCfg.sqlite env cfg _ (rank_frag ..) (C26_reachable_wf hr)
    (C01_reachable_sqlwf hr) (rank_maps ..) (rank_envOK _ _ _ _ henv hsub)

end Sol21Sql
end DAVerif
