import DAVerif.Spec.Ref
import DAVerif.Spec.Perm
import DAVerif.Proofs.Order
import DAVerif.Proofs.Perm
/-!
Helper lemmas relating the executor model's `project` and windowed `extend` to the reference definitions of
`Spec/Ref.lean` (used by Props/C09.lean and Props/C27.lean):

* cells of a row after `Row.set` / `Row.setAll` / `Row.select`;
* the model's comparison `rowLe` *is* the textbook `Ref.windowLe`; `keyOf`-equality is `Ref.samePartition`;
* `semExtendWindow_rows_ref`: the rows of a windowed extend, in terms of `Ref.windowRef`.

All lemmas here live in the namespace `DAVerif.RefSem` (helper names like `semJoin_congr` are common).
-/
namespace DAVerif.RefSem

/-! ### cells of rows -/
namespace Row

theorem get_set_same (r : Row) (c : String) (v : Val) : (r.set c v).get c = v := by
  induction r with
  | nil => simp [Row.set, Row.get]
  | cons kv r ih =>
    obtain ⟨k, x⟩ := kv
    simp only [Row.set]
    split
    · rename_i h
      simp only [beq_iff_eq] at h
      subst h
      simp [Row.get, List.lookup]
    · rename_i h
      have hck : (c == k) = false := by
        simp only [beq_iff_eq] at h
        simp only [beq_eq_false_iff_ne, ne_eq]
        exact fun e => h e.symm
      simp only [Row.get, List.lookup, hck] at ih ⊢
      exact ih

theorem get_set_ne (r : Row) {c c' : String} (v : Val) (h : c' ≠ c) : (r.set c v).get c' = r.get c' := by
  induction r with
  | nil =>
    have : (c' == c) = false := by simp [h]
    simp [Row.set, Row.get, List.lookup, this]
  | cons kv r ih =>
    obtain ⟨k, x⟩ := kv
    simp only [Row.set]
    split
    · rename_i hk
      simp only [beq_iff_eq] at hk
      subst hk
      have : (c' == k) = false := by simp [h]
      simp [Row.get, List.lookup, this]
    · simp only [Row.get, List.lookup] at ih ⊢
      split
      · rfl
      · exact ih

/-- a column that is not assigned keeps its cell -/
theorem get_setAll_of_not_mem {c : String} : ∀ (kvs : List (String × Val)) (r : Row),
    c ∉ kvs.map (·.1) → (r.setAll kvs).get c = r.get c
  | [], _, _ => rfl
  | (k, v) :: kvs, r, h => by
    simp only [List.map_cons, List.mem_cons, not_or] at h
    have ih := get_setAll_of_not_mem kvs (r.set k v) h.2
    simp only [Row.setAll, List.foldl_cons] at ih ⊢
    rw [ih, get_set_ne _ _ h.1]

/-- an assigned column gets the assigned value (the assignment targets being pairwise different) -/
theorem get_setAll_of_mem {c : String} {v : Val} : ∀ (kvs : List (String × Val)) (r : Row),
    (kvs.map (·.1)).Nodup → (c, v) ∈ kvs → (r.setAll kvs).get c = v
  | [], _, _, h => by cases h
  | (k, x) :: kvs, r, hn, h => by
    simp only [List.map_cons, List.nodup_cons] at hn
    simp only [Row.setAll, List.foldl_cons]
    rcases List.mem_cons.mp h with e | e
    · cases e
      have := get_setAll_of_not_mem kvs (r.set c v) hn.1
      simp only [Row.setAll] at this
      rw [this, get_set_same]
    · have := get_setAll_of_mem kvs (r.set k x) hn.2 e
      simp only [Row.setAll] at this
      exact this

end Row

/-! ### the model's comparison and partition test are the textbook ones -/

set_option linter.unusedSimpArgs false in
theorem cellLe_eq_cellBefore {rev : Bool} {x y : Val} (hne : x ≠ y) :
    cellLe rev x y = Ref.cellBefore rev x y := by
  have h1 := Val.lt_flip_of_ne hne
  have h2 := Val.lt_flip_of_ne (Ne.symm hne)
  cases x <;> cases y <;> cases rev <;>
    first
    | rfl
    | exact absurd rfl hne
    | (simp only [cellLe, Ref.cellBefore, Val.isNull, Bool.false_eq_true, if_true]; rw [h1]; simp)
    | (simp only [cellLe, Ref.cellBefore, Val.isNull, Bool.false_eq_true, if_false]; rw [h2]; simp)

/-- **`rowLe` is the textbook lexicographic order** of `Spec/Ref.lean` -/
theorem rowLe_eq_windowLe (order reverse : List String) (a b : Row) :
    rowLe order reverse a b = Ref.windowLe order reverse a b := by
  induction order with
  | nil => rfl
  | cons c cs ih =>
    simp only [rowLe, Ref.windowLe, cellEq, beq_iff_eq]
    split
    · exact ih
    · rename_i hne
      exact cellLe_eq_cellBefore hne

theorem keyOf_beq_eq_samePartition (partition : List String) (a b : Row) :
    (keyOf a partition == keyOf b partition) = Ref.samePartition partition a b := by
  rw [Bool.eq_iff_iff, beq_iff_eq]
  simp only [keyOf, Row.vals, List.map_inj_left, Ref.samePartition, List.all_eq_true, beq_iff_eq]

theorem keyTuple_eq_keyOf (group : List String) (r : Row) : Ref.keyTuple group r = keyOf r group := rfl

theorem callArg_eq_argFn (t : Term) (r : Row) : Ref.callArg t r = argFn t r := by
  cases t with
  | app op args i m =>
    cases args with
    | nil => rfl
    | cons a as => cases a <;> rfl
  | _ => rfl

/-! ### windowed extend in terms of `Ref.windowRef` -/

theorem zipIdx_eq_map_range (rows : List Row) :
    rows.zipIdx = (List.range rows.length).map (fun j => (rows.getD j [], j)) := by
  apply List.ext_getElem
  · simp
  · intro i h1 h2
    simp at h1
    simp [h1]

/-- the sorted, indexed partition the executor model works with is the reference window (a list of positions)
with the rows attached -/
theorem sortIdx_partition_eq (partition order reverse : List String) (rows : List Row) (i : Nat) :
    sortIdx order reverse (rows.zipIdx.filter
      (fun rj => keyOf rj.1 partition == keyOf (rows.getD i []) partition))
    = (Ref.windowOf partition order reverse rows i).map (fun j => (rows.getD j [], j)) := by
  rw [zipIdx_eq_map_range, List.filter_map]
  have hf : ((fun (rj : Row × Nat) => keyOf rj.1 partition == keyOf (rows.getD i []) partition) ∘
      (fun j => (rows.getD j [], j))) =
      (fun j => Ref.samePartition partition (rows.getD j []) (rows.getD i [])) := by
    funext j
    exact keyOf_beq_eq_samePartition partition _ _
  rw [hf]
  simp only [sortIdx, Ref.windowOf]
  symm
  apply List.map_mergeSort
  intro a _ b _
  exact (rowLe_eq_windowLe order reverse _ _).symm

/-- **Windowed extend, row by row, against the reference.**  The `i`-th output row is the `i`-th input row with
every assignment target set to the reference window value `Ref.windowRef` of that row, restricted to the
declared columns.  No hypothesis: ties in the window order are resolved by input position on both sides. -/
theorem semExtendWindow_rows_ref (Θ : Interp) (ops : Assign) (partition order reverse : List String)
    (t : Table) (oc : List String) :
    (semExtendWindow Θ ops partition order reverse t oc).rows =
      (List.range t.rows.length).map (fun i =>
        ((t.rows.getD i []).setAll (ops.map (fun kv => (kv.1,
          Ref.windowRef Θ (opName kv.2) (constArgs kv.2) (Ref.callArg kv.2) partition order reverse t.rows i)))).select
          oc) := by
  simp only [semExtendWindow]
  rw [zipIdx_eq_map_range, List.map_map]
  apply List.map_congr_left
  intro i _
  simp only [Function.comp]
  rw [← zipIdx_eq_map_range, sortIdx_partition_eq]
  congr 2
  apply List.map_congr_left
  intro kv _
  congr 1
  simp only [Ref.windowRef]
  congr 1
  · rw [argValues_eq_map, List.map_map, List.map_map]
    apply List.map_congr_left
    intro j _
    simp only [Function.comp]
    exact (callArg_eq_argFn _ _).symm
  · rw [List.findIdx_map]
    rfl

/-! ### facts about the reference window (`Ref.windowOf`) -/

/-- the reference window of row `i` consists of exactly the positions of its partition: the rows that agree with
row `i` on every partition column – a null cell agreeing with a null cell -/
theorem mem_windowOf {partition order reverse : List String} {rows : List Row} {i j : Nat} :
    j ∈ Ref.windowOf partition order reverse rows i ↔
      j < rows.length ∧ ∀ c ∈ partition, (rows.getD j []).get c = (rows.getD i []).get c := by
  simp only [Ref.windowOf, List.mem_mergeSort, List.mem_filter, List.mem_range, Ref.samePartition,
    List.all_eq_true, beq_iff_eq]

theorem self_mem_windowOf {partition order reverse : List String} {rows : List Row} {i : Nat}
    (h : i < rows.length) : i ∈ Ref.windowOf partition order reverse rows i :=
  mem_windowOf.mpr ⟨h, fun _ _ => rfl⟩

/-- each position of the partition occurs once -/
theorem nodup_windowOf (partition order reverse : List String) (rows : List Row) (i : Nat) :
    (Ref.windowOf partition order reverse rows i).Nodup :=
  (List.mergeSort_perm _ _).nodup_iff.mpr (List.nodup_range.sublist List.filter_sublist)

theorem windowLe_trans {order reverse : List String} {a b c : Row} (h1 : Ref.windowLe order reverse a b = true)
    (h2 : Ref.windowLe order reverse b c = true) : Ref.windowLe order reverse a c = true := by
  rw [← rowLe_eq_windowLe] at *
  exact rowLe_trans h1 h2

theorem windowLe_total (order reverse : List String) (a b : Row) :
    (Ref.windowLe order reverse a b || Ref.windowLe order reverse b a) = true := by
  rw [← rowLe_eq_windowLe, ← rowLe_eq_windowLe]
  exact rowLe_total order reverse a b

/-- the reference window is sorted by the window order -/
theorem sorted_windowOf (partition order reverse : List String) (rows : List Row) (i : Nat) :
    (Ref.windowOf partition order reverse rows i).Pairwise
      (fun j k => Ref.windowLe order reverse (rows.getD j []) (rows.getD k []) = true) :=
  List.pairwise_mergeSort (le := fun j k => Ref.windowLe order reverse (rows.getD j []) (rows.getD k []))
    (fun _ _ _ => windowLe_trans) (fun _ _ => windowLe_total _ _ _ _) _

/-- the sort is stable: without `order_by` (or when all rows tie) the window is the partition in input order -/
theorem windowOf_unordered (partition reverse : List String) (rows : List Row) (i : Nat) :
    Ref.windowOf partition [] reverse rows i =
      (List.range rows.length).filter
        (fun j => Ref.samePartition partition (rows.getD j []) (rows.getD i [])) :=
  List.mergeSort_of_pairwise (List.pairwise_of_forall (fun _ _ => rfl))

/-! ### `project` / windowed `extend` nodes of a pipeline -/

theorem sem_project_ok {Θ : Interp} {cfg : SemCfg} {env : Env} {q : Ops} {ops : Assign} {g : List String}
    {t : Table} (h : sem Θ cfg env (.project q ops g) = .ok t) :
    ∃ tq, sem Θ cfg env q = .ok tq ∧ t = semProject Θ ops g tq (Ops.project q ops g).cols := by
  simp only [sem, bind, Except.bind] at h
  split at h
  · cases h
  · rename_i tq hq
    cases h
    exact ⟨tq, hq, rfl⟩

theorem sem_extend_window_ok {Θ : Interp} {cfg : SemCfg} {env : Env} {q : Ops} {ops : Assign}
    {part od rv : List String} {t : Table} (h : sem Θ cfg env (.extend q ops part od rv true) = .ok t) :
    ∃ tq, sem Θ cfg env q = .ok tq ∧
      t = semExtendWindow Θ ops part od rv tq (Ops.extend q ops part od rv true).cols := by
  simp only [sem, bind, Except.bind] at h
  split at h
  · cases h
  · rename_i tq hq
    cases h
    exact ⟨tq, hq, rfl⟩

/-- the cell of row `i` in an assigned column of a windowed extend is the reference window value -/
theorem semExtendWindow_get_ref (Θ : Interp) {ops : Assign} (part od rv : List String) (t : Table)
    {oc : List String} (hn : (ops.map (·.1)).Nodup) {i : Nat} (hi : i < t.rows.length)
    {kv : String × Term} (hkv : kv ∈ ops) (hoc : kv.1 ∈ oc) :
    ((semExtendWindow Θ ops part od rv t oc).rows.getD i []).get kv.1 =
      Ref.windowRef Θ (opName kv.2) (constArgs kv.2) (Ref.callArg kv.2) part od rv t.rows i := by
  rw [semExtendWindow_rows_ref, List.getD_eq_getElem?_getD, List.getElem?_map, List.getElem?_range hi]
  simp only [Option.map_some, Option.getD_some]
  rw [Row.select_get_of_mem hoc]
  apply Row.get_setAll_of_mem
  · simpa [List.map_map, Function.comp_def] using hn
  · exact List.mem_map.mpr ⟨kv, hkv, rfl⟩

/-- the rows of the reference window are the model's sorted partition -/
theorem windowOf_rows_eq (part od rv : List String) (rows : List Row) (i : Nat) :
    (Ref.windowOf part od rv rows i).map (fun j => rows.getD j []) =
      sortRows od rv (partRows part rows (rows.getD i [])) := by
  have h := congrArg (List.map (·.1)) (sortIdx_partition_eq part od rv rows i)
  rw [sortIdx_map_fst, List.map_map] at h
  rw [show ((fun x : Row × Nat => x.1) ∘ fun j => (rows.getD j [], j)) = (fun j => rows.getD j []) from rfl] at h
  rw [← h]
  congr 1
  have := List.filter_map (f := (Prod.fst : Row × Nat → Row))
    (p := fun r' => keyOf r' part == keyOf (rows.getD i []) part) (l := rows.zipIdx)
  rw [List.zipIdx_map_fst] at this
  exact this.symm

end DAVerif.RefSem
