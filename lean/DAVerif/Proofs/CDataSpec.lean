import DAVerif.Proofs.CData
import DAVerif.CData.RecordSpec
/-!
Helper lemmas for C17, part 2: what the constructor's validations give (`Facts`), `tableIsKeyedBy`,
and the two conversions in terms of the record view.
-/
namespace DAVerif.CData
open List

/-! ### what `mkSpec` accepting a specification gives -/

structure Facts (s : Spec) : Prop where
  rows_ne : s.ct.rows ≠ []
  ck_ne : s.ctKeys ≠ []
  ck_sub : ∀ k ∈ s.ctKeys, k ∈ s.ct.cols
  cols_nodup : s.ct.cols.Nodup
  rk_nodup : s.recordKeys.Nodup
  rk_disj : ∀ k ∈ s.recordKeys, k ∉ s.ct.cols
  key_nonnull : ∀ cr ∈ s.ct.rows, noNull (keyOf s.ctKeys cr) = true
  key_nodup : (s.ct.rows.map (keyOf s.ctKeys)).Nodup
  cells_str : ∀ cr ∈ s.ct.rows, ∀ c ∈ s.valueCols, ∃ n, look cr c = .str n
  content_nodup : s.rawContent.Nodup
  rk_content : ∀ k ∈ s.recordKeys, k ∉ s.rawContent

theorem checkValueCols_none {ct : Table} : ∀ {cs : List String}, checkValueCols ct cs = none →
    ∀ c ∈ cs, checkValueCol ct c = none
  | [], _, _, hc => by cases hc
  | d :: cs, h, c, hc => by
    unfold checkValueCols at h
    split at h
    · cases h
    · rename_i hd
      rcases mem_cons.1 hc with rfl | hc
      · exact hd
      · exact checkValueCols_none h c hc

theorem checkValueCol_none {ct : Table} {c : String} (h : checkValueCol ct c = none) :
    ∀ cr ∈ ct.rows, ∃ n, look cr c = .str n := by
  unfold checkValueCol at h
  simp only at h
  split at h
  · cases h
  · split at h
    · cases h
    · rename_i _ h2
      intro cr hcr
      simp only [any_map, any_eq_true, Function.comp_apply, Bool.or_eq_true, Bool.not_eq_eq_eq_not,
        Bool.not_true, decide_eq_true_eq, not_exists, not_and, not_or] at h2
      have := (h2 cr hcr).1
      cases hv : look cr c with
      | null => simp [hv, isStr] at this
      | num i => simp [hv, isStr] at this
      | str n => exact ⟨n, rfl⟩

theorem tableIsKeyedBy_true_of {t : Table} {ks : List String} (h : tableIsKeyedBy t ks = .ok true)
    (hl : 2 ≤ t.rows.length) : (t.rows.map (keyOf ks)).Nodup := by
  unfold tableIsKeyedBy at h
  rw [if_neg (by omega)] at h
  split at h
  · cases h
  · split at h
    · cases h
    · simpa using h

theorem Spec.Good.facts {s : Spec} (g : s.Good) : Facts s := by
  have h := g.valid
  have hs := g.strict
  have hm := g.multi
  unfold mkSpec at h
  simp only [hs, true_and] at h
  split at h
  · cases h
  split at h
  · cases h
  split at h
  · cases h
  rename_i hrows hcols hnodup
  split at h
  · cases h
  rename_i hstrict
  split at h
  · cases h
  split at h
  · cases h
  split at h
  · cases h
  split at h
  · cases h
  split at h
  · cases h
  rename_i hck0 hsub hlen hconf hnull
  split at h
  · cases h
  · cases h
  rename_i hkeyed
  split at h
  · cases h
  rename_i hvals
  split at h
  · cases h
  split at h
  · cases h
  rename_i hrkc hdup
  have es : (⟨s.ct, s.recordKeys, s.ctKeys, true⟩ : Spec) = s := by
    cases s; simp only [Spec.mk.injEq, true_and]; exact hs.symm
  rw [es] at hrkc hdup hvals
  have hsub' : ∀ k ∈ s.ctKeys, k ∈ s.ct.cols := by simpa using hsub
  have hnn : ∀ cr ∈ s.ct.rows, noNull (keyOf s.ctKeys cr) = true := by
    intro cr hcr
    rw [noNull_iff]
    intro v hv
    obtain ⟨k, hk, rfl⟩ := mem_map.1 hv
    simp only [any_eq_true, decide_eq_true_eq, not_exists, not_and] at hnull
    exact hnull k hk cr hcr
  refine ⟨?_, ?_, hsub', by simpa using hnodup, (nodup_append.1 g.names).1, ?_, hnn,
    tableIsKeyedBy_true_of hkeyed hm, ?_, by simpa using hdup, by simpa using hrkc⟩
  · intro e; rw [e] at hm; simp at hm
  · intro e
    apply hck0
    exact ⟨by omega, e⟩
  · intro k hk hk'
    exact (nodup_append.1 g.names).2.2 k hk k hk' rfl
  · intro cr hcr c hc
    exact checkValueCol_none (checkValueCols_none hvals c hc) cr hcr

/-! ### columns of a good specification -/

theorem mem_valueCols {s : Spec} {c : String} : c ∈ s.valueCols ↔ c ∈ s.ct.cols ∧ c ∉ s.ctKeys := by
  simp [Spec.valueCols]

theorem valueCols_nodup {s : Spec} (f : Facts s) : s.valueCols.Nodup := f.cols_nodup.filter _

theorem contentKeys_eq {s : Spec} (f : Facts s) : s.contentKeys = s.rawContent := dedupFirst_of_nodup f.content_nodup

theorem contentName_mem {s : Spec} {cr : Row} {vc : String} (hcr : cr ∈ s.ct.rows) (hvc : vc ∈ s.valueCols) :
    contentName cr vc ∈ s.rawContent := by
  unfold Spec.rawContent contentName
  exact mem_flatMap.2 ⟨vc, hvc, mem_map.2 ⟨cr, hcr, rfl⟩⟩

theorem rk_not_ck {s : Spec} (f : Facts s) {k : String} (hk : k ∈ s.recordKeys) : k ∉ s.ctKeys :=
  fun h => f.rk_disj k hk (f.ck_sub k h)

theorem rk_not_vc {s : Spec} (f : Facts s) {k : String} (hk : k ∈ s.recordKeys) : k ∉ s.valueCols :=
  fun h => f.rk_disj k hk (mem_valueCols.1 h).1

theorem ck_vc_perm {s : Spec} (f : Facts s) (hck : s.ctKeys.Nodup) : (s.ctKeys ++ s.valueCols).Perm s.ct.cols := by
  refine perm_of_nodup_mem ?_ f.cols_nodup ?_
  · rw [nodup_append]
    exact ⟨hck, valueCols_nodup f, fun a ha b hb e => (mem_valueCols.1 hb).2 (e ▸ ha)⟩
  · intro c
    rw [mem_append, mem_valueCols]
    constructor
    · rintro (h | h)
      · exact f.ck_sub c h
      · exact h.1
    · intro h
      by_cases hc : c ∈ s.ctKeys
      · exact Or.inl hc
      · exact Or.inr ⟨h, hc⟩

theorem blockCols_perm {s : Spec} (f : Facts s) (hck : s.ctKeys.Nodup) :
    (s.recordKeys ++ s.ctKeys ++ s.valueCols).Perm s.blockColumns := by
  rw [append_assoc]
  exact (ck_vc_perm f hck).append_left _

theorem mem_blockColumns {s : Spec} {c : String} : c ∈ s.blockColumns ↔ c ∈ s.recordKeys ∨ c ∈ s.ct.cols := by
  simp [Spec.blockColumns]

theorem mem_rowColumns {s : Spec} {c : String} : c ∈ s.rowColumns ↔ c ∈ s.recordKeys ∨ c ∈ s.contentKeys := by
  simp [Spec.rowColumns]

/-! ### reading a block row -/

theorem blockRow_keys (s : Spec) (cr r : Row) :
    (blockRow s cr r).map Prod.fst = s.recordKeys ++ s.ctKeys ++ s.valueCols := by
  simp [blockRow, proj, Function.comp_def]

theorem look_blockRow_rk {s : Spec} (cr r : Row) {k : String} (hk : k ∈ s.recordKeys) :
    look (blockRow s cr r) k = look r k := by
  unfold blockRow
  rw [append_assoc, look_append, proj_keys, if_pos hk, look_proj r hk]

theorem look_blockRow_ck {s : Spec} (f : Facts s) (cr r : Row) {k : String} (hk : k ∈ s.ctKeys) :
    look (blockRow s cr r) k = look cr k := by
  unfold blockRow
  have h1 : k ∉ s.recordKeys := fun h => rk_not_ck f h hk
  rw [append_assoc, look_append, proj_keys, if_neg h1, look_append, proj_keys, if_pos hk, look_proj cr hk]

theorem look_blockRow_vc {s : Spec} (f : Facts s) (cr r : Row) {v : String} (hv : v ∈ s.valueCols) :
    look (blockRow s cr r) v = look r (contentName cr v) := by
  unfold blockRow
  have h1 : v ∉ s.recordKeys := fun h => rk_not_vc f h hv
  have h2 : v ∉ s.ctKeys := (mem_valueCols.1 hv).2
  rw [append_assoc, look_append, proj_keys, if_neg h1, look_append, proj_keys, if_neg h2]
  exact look_map_pair (fun vc => look r (look cr vc).toName) hv

theorem specBlocks_eq (s : Spec) (U : List Row) :
    specBlocks s U = s.ct.rows.flatMap fun cr => U.map (blockRow s cr) := rfl

theorem keyOf_rk_blockRow {s : Spec} (cr r : Row) : keyOf s.recordKeys (blockRow s cr r) = keyOf s.recordKeys r :=
  keyOf_congr fun _ hk => look_blockRow_rk cr r hk

theorem keyOf_ck_blockRow {s : Spec} (f : Facts s) (cr r : Row) :
    keyOf s.ctKeys (blockRow s cr r) = keyOf s.ctKeys cr :=
  keyOf_congr fun _ hk => look_blockRow_ck f cr r hk

/-- a block row only reads the record keys and the content keys of the record -/
theorem blockRow_congr {s : Spec} {cr r r' : Row} (hcr : cr ∈ s.ct.rows)
    (h : ∀ c ∈ s.recordKeys ++ s.rawContent, look r c = look r' c) : blockRow s cr r = blockRow s cr r' := by
  unfold blockRow
  have h1 : proj s.recordKeys r = proj s.recordKeys r' := proj_congr fun c hc => h c (mem_append_left _ hc)
  have h2 : (s.valueCols.map fun vc => (vc, look r (look cr vc).toName)) =
      s.valueCols.map fun vc => (vc, look r' (look cr vc).toName) := by
    apply map_congr_left
    intro vc hvc
    have := h _ (mem_append_right _ (contentName_mem hcr hvc))
    unfold contentName at this
    rw [this]
  rw [h1, h2]

theorem blockRow_proj {s : Spec} (f : Facts s) {cr : Row} (r : Row) (hcr : cr ∈ s.ct.rows) :
    blockRow s cr (proj s.rowColumns r) = blockRow s cr r := by
  apply blockRow_congr hcr
  intro c hc
  apply look_proj
  rw [Spec.rowColumns, contentKeys_eq f]
  exact hc

theorem flatMap_nil_map {α β γ : Type} (l : List α) (f : α → β → γ) :
    (l.flatMap fun a => ([] : List β).map (f a)) = [] := by
  induction l <;> simp_all

/-! ### `table_is_keyed_by_columns` on a keyed table -/

theorem tableIsKeyedBy_ok {t : Table} {ks : List String} (hc : ∀ c ∈ ks, c ∈ t.cols)
    (hk : RecKeys ks t.rows) : tableIsKeyedBy t ks = .ok true := by
  unfold tableIsKeyedBy
  split
  · rfl
  · rename_i hl
    split
    · rename_i e
      subst e
      have := hk.2
      match hrows : t.rows, hl with
      | [], hl => simp at hl
      | [_], hl => simp at hl
      | a :: b :: l, _ => rw [hrows] at this; simp [keyOf] at this
    · simp [hk.2]

theorem RecKeys.perm {rk : List String} {l₁ l₂ : List Row} (h : RecKeys rk l₁)
    (hp : (l₁.map (keyOf rk)).Perm (l₂.map (keyOf rk))) : RecKeys rk l₂ := by
  refine ⟨?_, hp.nodup_iff.1 h.2⟩
  intro r hr
  obtain ⟨r', hr', e⟩ := mem_map.1 (hp.symm.mem_iff.1 (mem_map_of_mem hr))
  rw [← e]
  exact h.1 r' hr'

/-! ### rows → blocks -/

theorem rowsToBlocks_spec {s : Spec} (g : s.Good) {U : List Row} (hU : RecKeys s.recordKeys U) {t : Table}
    (ht : IsRows s U t) :
    ∃ b, rowsToBlocks s t = .ok b ∧ IsBlocks s U b ∧ b.cols.Perm s.blockColumns := by
  have f := g.facts
  obtain ⟨hcols, hrows⟩ := ht
  unfold rowsToBlocks
  rw [if_neg f.ck_ne]
  have hsel : t.select s.rowColumns = .ok ⟨s.rowColumns, t.rows.map (proj s.rowColumns)⟩ := by
    unfold Table.select; rw [if_pos hcols]
  rw [hsel]
  simp only
  by_cases hD : map (proj s.rowColumns) t.rows = []
  · rw [if_pos hD]
    refine ⟨_, rfl, ⟨fun c hc => hc, ?_⟩, Perm.refl _⟩
    have hU0 : U = [] := by
      rw [hD] at hrows
      simpa using hrows.symm.eq_nil
    subst hU0
    simp [specBlocks_eq]
  · rw [if_neg hD]
    have hrkrow : ∀ c ∈ s.recordKeys, c ∈ s.rowColumns := fun c hc => mem_rowColumns.2 (Or.inl hc)
    have hkeys : RecKeys s.recordKeys (map (proj s.rowColumns) t.rows) := by
      apply hU.perm
      have := (hrows.map (keyOf s.recordKeys)).symm
      rw [map_map, map_map] at this
      rw [map_map]
      refine Perm.trans (Perm.of_eq ?_) this
      exact map_congr_left fun r _ => (keyOf_proj r hrkrow).symm
    rw [tableIsKeyedBy_ok (t := ⟨s.rowColumns, _⟩) hrkrow hkeys]
    simp only
    refine ⟨_, rfl, ⟨?_, ?_⟩, blockCols_perm f g.ckNodup⟩
    · intro c hc
      exact (blockCols_perm f g.ckNodup).symm.mem_iff.1 hc
    · refine ((sortBy_perm _ _).map _).trans (Perm.map _ ?_)
      rw [specBlocks_eq]
      apply flatMap_perm_congr
      intro cr hcr
      refine (hrows.map (blockRow s cr)).trans (Perm.of_eq ?_)
      rw [map_map]
      exact map_congr_left fun r _ => blockRow_proj f r hcr

/-! ### blocks → rows: the expanded block table -/

theorem find?_of_nodup_map {α β : Type} [DecidableEq β] {f : α → β} : ∀ {l : List α}, (l.map f).Nodup →
    ∀ {a}, a ∈ l → l.find? (fun x => f x = f a) = some a
  | x :: l, h, a, ha => by
    rw [map_cons, nodup_cons] at h
    rw [find?_cons]
    by_cases e : f x = f a
    · simp only [e, decide_true]
      rcases mem_cons.1 ha with rfl | ha'
      · rfl
      · exact absurd (e ▸ mem_map_of_mem ha') h.1
    · simp only [e, decide_false]
      rcases mem_cons.1 ha with rfl | ha'
      · exact absurd rfl e
      · exact find?_of_nodup_map h.2 ha'

theorem ctRowFor_key {s : Spec} (f : Facts s) {cr : Row} (hcr : cr ∈ s.ct.rows) :
    ctRowFor s (keyOf s.ctKeys cr) = some cr := by
  unfold ctRowFor
  exact find?_of_nodup_map f.key_nodup hcr

theorem zip_map_any_false {ks : List String} {cr : Row} {P : String × Val → Bool}
    (h : ∀ k ∈ ks, P (k, look cr k) = false) : ((ks.zip (keyOf ks cr)).any P) = false := by
  induction ks with
  | nil => simp [keyOf]
  | cons k ks ih =>
    simp only [keyOf, map_cons, zip_cons_cons, any_cons, Bool.or_eq_false_iff]
    exact ⟨h k mem_cons_self, ih fun k' hk' => h k' (mem_cons_of_mem _ hk')⟩

theorem mergeKindClash_false {s : Spec} {cr : Row} (hcr : cr ∈ s.ct.rows) :
    mergeKindClash s (keyOf s.ctKeys cr) = false := by
  unfold mergeKindClash
  apply zip_map_any_false
  intro k _
  simp only [all_eq_false, bne_iff_ne, ne_eq, Decidable.not_not]
  exact ⟨cr, hcr, rfl⟩

/-- one expanded block row, read through the block columns -/
def bRow (s : Spec) (cr u : Row) : Row := proj s.blockColumns (blockRow s cr u)

theorem rk_sub_bc {s : Spec} : ∀ c ∈ s.recordKeys, c ∈ s.blockColumns := fun _ h => mem_blockColumns.2 (Or.inl h)
theorem ck_sub_bc {s : Spec} (f : Facts s) : ∀ c ∈ s.ctKeys, c ∈ s.blockColumns :=
  fun c h => mem_blockColumns.2 (Or.inr (f.ck_sub c h))
theorem vc_sub_bc {s : Spec} : ∀ c ∈ s.valueCols, c ∈ s.blockColumns :=
  fun _ h => mem_blockColumns.2 (Or.inr (mem_valueCols.1 h).1)

theorem keyOf_rk_bRow {s : Spec} (cr u : Row) : keyOf s.recordKeys (bRow s cr u) = keyOf s.recordKeys u := by
  unfold bRow; rw [keyOf_proj _ rk_sub_bc, keyOf_rk_blockRow]

theorem keyOf_ck_bRow {s : Spec} (f : Facts s) (cr u : Row) : keyOf s.ctKeys (bRow s cr u) = keyOf s.ctKeys cr := by
  unfold bRow; rw [keyOf_proj _ (ck_sub_bc f), keyOf_ck_blockRow f]

theorem look_bRow_vc {s : Spec} (f : Facts s) (cr u : Row) {v : String} (hv : v ∈ s.valueCols) :
    look (bRow s cr u) v = look u (contentName cr v) := by
  unfold bRow; rw [look_proj _ (vc_sub_bc v hv), look_blockRow_vc f cr u hv]

theorem proj_rk_bRow {s : Spec} (cr u : Row) : proj s.recordKeys (bRow s cr u) = proj s.recordKeys u := by
  apply proj_congr
  intro c hc
  unfold bRow
  rw [look_proj _ (rk_sub_bc c hc), look_blockRow_rk cr u hc]

/-- the expanded block table of the records `U` -/
def eRows (s : Spec) (U : List Row) : List Row := s.ct.rows.flatMap fun cr => U.map (bRow s cr)

theorem eRows_eq (s : Spec) (U : List Row) : (specBlocks s U).map (proj s.blockColumns) = eRows s U := by
  rw [specBlocks_eq, eRows, map_flatMap]
  congr 1
  funext cr
  rw [map_map]
  rfl

theorem mem_eRows {s : Spec} {U : List Row} {x : Row} :
    x ∈ eRows s U ↔ ∃ cr ∈ s.ct.rows, ∃ u ∈ U, x = bRow s cr u := by
  simp only [eRows, mem_flatMap, mem_map]
  constructor
  · rintro ⟨cr, hcr, u, hu, rfl⟩; exact ⟨cr, hcr, u, hu, rfl⟩
  · rintro ⟨cr, hcr, u, hu, rfl⟩; exact ⟨cr, hcr, u, hu, rfl⟩

theorem ct_rows_nodup {s : Spec} (f : Facts s) : s.ct.rows.Nodup := nodup_of_nodup_map _ f.key_nodup

theorem eRows_keys_nodup {s : Spec} (f : Facts s) {U : List Row} (hU : RecKeys s.recordKeys U) :
    ((eRows s U).map (keyOf (s.recordKeys ++ s.ctKeys))).Nodup := by
  have hUn : U.Nodup := nodup_of_nodup_map _ hU.2
  rw [eRows, map_flatMap]
  apply nodup_flatMap_of (ct_rows_nodup f)
  · intro cr _
    rw [map_map]
    apply nodup_map_of_inj hUn
    intro a ha b hb e
    simp only [Function.comp_apply, keyOf_append, keyOf_rk_bRow, keyOf_ck_bRow f] at e
    exact inj_of_nodup_map hU.2 ha hb (append_cancel_right e)
  · intro cr hcr cr' hcr' hne x hx hx'
    rw [map_map] at hx hx'
    obtain ⟨u, _, rfl⟩ := mem_map.1 hx
    obtain ⟨u', _, e⟩ := mem_map.1 hx'
    simp only [Function.comp_apply, keyOf_append, keyOf_rk_bRow, keyOf_ck_bRow f] at e
    have hl : (keyOf s.recordKeys u').length = (keyOf s.recordKeys u).length := by simp [keyOf_length]
    have := (append_inj e hl).2
    exact hne (inj_of_nodup_map f.key_nodup hcr hcr' this.symm)

theorem eRows_keys_nonnull {s : Spec} (f : Facts s) {U : List Row} (hU : RecKeys s.recordKeys U) :
    ∀ x ∈ eRows s U, noNull (keyOf (s.recordKeys ++ s.ctKeys) x) = true := by
  intro x hx
  obtain ⟨cr, hcr, u, hu, rfl⟩ := mem_eRows.1 hx
  rw [keyOf_append, noNull_append, keyOf_rk_bRow, keyOf_ck_bRow f]
  exact ⟨hU.1 u hu, f.key_nonnull cr hcr⟩

theorem eRows_recKeys {s : Spec} (f : Facts s) {U : List Row} (hU : RecKeys s.recordKeys U) :
    RecKeys (s.recordKeys ++ s.ctKeys) (eRows s U) := ⟨eRows_keys_nonnull f hU, eRows_keys_nodup f hU⟩

theorem eRows_nodup {s : Spec} (f : Facts s) {U : List Row} (hU : RecKeys s.recordKeys U) : (eRows s U).Nodup :=
  nodup_of_nodup_map _ (eRows_keys_nodup f hU)

theorem eRows_ne_nil {s : Spec} (f : Facts s) {U : List Row} (hU : U ≠ []) : eRows s U ≠ [] := by
  obtain ⟨cr, hcr⟩ := exists_mem_of_ne_nil _ f.rows_ne
  obtain ⟨u, hu⟩ := exists_mem_of_ne_nil _ hU
  exact ne_nil_of_mem (mem_eRows.2 ⟨cr, hcr, u, hu, rfl⟩)

/-- the rows of a permutation of the expanded table whose control key is that of `cr` -/
theorem group_perm {s : Spec} (f : Facts s) {U R : List Row} (hU : RecKeys s.recordKeys U)
    (hR : R.Perm (eRows s U)) {cr : Row} (hcr : cr ∈ s.ct.rows) :
    (R.filter fun r => keyOf s.ctKeys r = keyOf s.ctKeys cr).Perm (U.map (bRow s cr)) := by
  refine (hR.filter _).trans ?_
  apply perm_of_nodup_mem ((eRows_nodup f hU).filter _)
  · apply nodup_of_nodup_map (keyOf s.recordKeys)
    rw [map_map]
    have : (keyOf s.recordKeys ∘ bRow s cr) = keyOf s.recordKeys := by
      funext u; exact keyOf_rk_bRow cr u
    rw [this]
    exact hU.2
  · intro x
    rw [mem_filter, mem_eRows, mem_map]
    constructor
    · rintro ⟨⟨cr', hcr', u, hu, rfl⟩, hk⟩
      simp only [decide_eq_true_eq, keyOf_ck_bRow f] at hk
      have := inj_of_nodup_map f.key_nodup hcr' hcr hk
      subst this
      exact ⟨u, hu, rfl⟩
    · rintro ⟨u, hu, rfl⟩
      refine ⟨⟨cr, hcr, u, hu, rfl⟩, ?_⟩
      simp [keyOf_ck_bRow f]

/-- the sorted distinct control keys of a permutation of the expanded table are the control table's keys -/
theorem groupKeys_perm {s : Spec} (f : Facts s) {U R : List Row} (_hU : RecKeys s.recordKeys U) (hne : U ≠ [])
    (hR : R.Perm (eRows s U)) :
    (isort keyLe (dedup ((R.map (keyOf s.ctKeys)).filter noNull))).Perm (s.ct.rows.map (keyOf s.ctKeys)) := by
  refine (isort_perm _ _).trans ?_
  apply perm_of_nodup_mem (nodup_dedup _) f.key_nodup
  intro k
  rw [mem_dedup, mem_filter, mem_map, mem_map]
  constructor
  · rintro ⟨⟨r, hr, rfl⟩, _⟩
    obtain ⟨cr, hcr, u, _, rfl⟩ := mem_eRows.1 (hR.mem_iff.1 hr)
    exact ⟨cr, hcr, (keyOf_ck_bRow f cr u).symm⟩
  · rintro ⟨cr, hcr, rfl⟩
    obtain ⟨u, hu⟩ := exists_mem_of_ne_nil _ hne
    refine ⟨⟨bRow s cr u, hR.symm.mem_iff.1 (mem_eRows.2 ⟨cr, hcr, u, hu, rfl⟩), keyOf_ck_bRow f cr u⟩, ?_⟩
    exact f.key_nonnull cr hcr

theorem sortBy_congr_perm {ks : List String} {l₁ l₂ : List Row} (hp : l₁.Perm l₂) (hk : (l₁.map (keyOf ks)).Nodup) :
    sortBy ks l₁ = sortBy ks l₂ := by
  refine sorted_unique ((sortBy_perm _ _).trans (hp.trans (sortBy_perm _ _).symm)) (sortBy_sorted _ _)
    (sortBy_sorted _ _) ?_
  exact (((sortBy_perm ks l₁).map _).nodup_iff).2 hk

theorem perm_map_inv {α β : Type} [DecidableEq α] {f : α → β} : ∀ {l' : List β} {l : List α},
    l'.Perm (l.map f) → ∃ l'' : List α, l''.Perm l ∧ l''.map f = l'
  | [], l, h => by
    have : l = [] := by simpa using h.symm.eq_nil
    exact ⟨[], by rw [this], rfl⟩
  | b :: l', l, h => by
    obtain ⟨a, ha, hab⟩ := mem_map.1 (h.mem_iff.1 mem_cons_self)
    have h1 : l.Perm (a :: l.erase a) := perm_cons_erase ha
    have h2 : (b :: l').Perm (b :: (l.erase a).map f) := by
      refine h.trans ((h1.map f).trans ?_)
      rw [map_cons, hab]
    obtain ⟨l3, hl3, hm⟩ := perm_map_inv (l' := l') (l := l.erase a) h2.cons_inv
    exact ⟨a :: l3, (hl3.cons a).trans h1.symm, by rw [map_cons, hm, hab]⟩

theorem flatMap_congr' {α β : Type} {f g : α → List β} : ∀ {l : List α}, (∀ a ∈ l, f a = g a) →
    l.flatMap f = l.flatMap g
  | [], _ => rfl
  | a :: l, h => by
    rw [flatMap_cons, flatMap_cons, h a mem_cons_self, flatMap_congr' fun b hb => h b (mem_cons_of_mem _ hb)]

theorem contentCols_perm {s : Spec} {CRs : List Row} (h : CRs.Perm s.ct.rows) :
    (CRs.flatMap fun cr => s.valueCols.map (contentName cr)).Perm s.rawContent :=
  (h.flatMap_right _).trans (flatMap_swap_perm (fun cr v => contentName cr v) s.ct.rows s.valueCols)

theorem proj_flatMap {α : Type} (l : List α) (h : α → List String) (u : Row) :
    proj (l.flatMap h) u = l.flatMap fun a => proj (h a) u := by
  simp [proj, map_flatMap]

/-- the assembled row-record frame when every group is the block of one control row over the same records -/
theorem assemble_eq {s : Spec} (f : Facts s) {U : List Row} (hU : RecKeys s.recordKeys U)
    (cr0 : Row) (crs : List Row) (hcr : ∀ cr ∈ cr0 :: crs, cr ∈ s.ct.rows)
    (F : Row → List Row) (hF : ∀ cr ∈ cr0 :: crs, (F cr).Perm (U.map (bRow s cr))) :
    assembleRowRecs s (keyOf s.ctKeys cr0, F cr0) (crs.map fun cr => (keyOf s.ctKeys cr, F cr)) =
      let cols := s.recordKeys ++ (cr0 :: crs).flatMap fun cr => s.valueCols.map (contentName cr)
      ⟨cols, sortBy s.recordKeys ((sortBy s.recordKeys U).map (proj cols))⟩ := by
  have hsort : ∀ cr ∈ cr0 :: crs, sortBy s.recordKeys (F cr) = (sortBy s.recordKeys U).map (bRow s cr) := by
    intro cr hc
    have hk : ((F cr).map (keyOf s.recordKeys)).Nodup := by
      refine (((hF cr hc).map _).nodup_iff).2 ?_
      rw [map_map]
      have : (keyOf s.recordKeys ∘ bRow s cr) = keyOf s.recordKeys := by
        funext u; exact keyOf_rk_bRow cr u
      rw [this]; exact hU.2
    rw [sortBy_congr_perm (hF cr hc) hk]
    exact sortBy_map _ _ (fun u _ => keyOf_rk_bRow cr u) hU.2
  have hname : ∀ cr ∈ cr0 :: crs, ∀ v, nameOf (ctRowFor s (keyOf s.ctKeys cr)) v = contentName cr v := by
    intro cr hc v
    rw [ctRowFor_key f (hcr cr hc)]
    rfl
  unfold assembleRowRecs
  simp only
  have hG : ((keyOf s.ctKeys cr0, F cr0) :: crs.map fun cr => (keyOf s.ctKeys cr, F cr)) =
      (cr0 :: crs).map fun cr => (keyOf s.ctKeys cr, F cr) := by simp
  rw [hG, map_map]
  -- columns
  have hcols : (s.recordKeys ++ ((cr0 :: crs).map ((fun g : List Val × List Row => (g.1, sortBy s.recordKeys g.2)) ∘
      fun cr => (keyOf s.ctKeys cr, F cr))).flatMap fun g => s.valueCols.map (nameOf (ctRowFor s g.1))) =
      s.recordKeys ++ (cr0 :: crs).flatMap fun cr => s.valueCols.map (contentName cr) := by
    rw [flatMap_map]
    congr 1
    apply flatMap_congr'
    intro cr hc
    exact map_congr_left fun v _ => hname cr hc v
  rw [hcols]
  congr 2
  -- rows
  have hsk : (sortBy s.recordKeys (F cr0)).map (proj s.recordKeys) = (sortBy s.recordKeys U).map (proj s.recordKeys) := by
    rw [hsort cr0 mem_cons_self, map_map]
    exact map_congr_left fun u _ => proj_rk_bRow cr0 u
  have hren : (((cr0 :: crs).map ((fun g : List Val × List Row => (g.1, sortBy s.recordKeys g.2)) ∘
      fun cr => (keyOf s.ctKeys cr, F cr))).map fun g =>
        g.2.map fun r => s.valueCols.map fun vc => (nameOf (ctRowFor s g.1) vc, look r vc)) =
      (cr0 :: crs).map fun cr => (sortBy s.recordKeys U).map fun u =>
        proj (s.valueCols.map (contentName cr)) u := by
    rw [map_map]
    apply map_congr_left
    intro cr hc
    simp only [Function.comp_apply]
    rw [hsort cr hc, map_map]
    apply map_congr_left
    intro u _
    simp only [Function.comp_apply, proj, map_map]
    apply map_congr_left
    intro v hv
    simp only [Function.comp_apply]
    rw [hname cr hc v, look_bRow_vc f cr u hv]
  rw [hsk, hren]
  have := hcat_map (sortBy s.recordKeys U)
    ((proj s.recordKeys) :: (cr0 :: crs).map fun cr => fun u => proj (s.valueCols.map (contentName cr)) u) (by simp)
  simp only [map_cons, map_map] at this
  simp only [map_cons]
  rw [show (fun cr => (sortBy s.recordKeys U).map fun u => proj (s.valueCols.map (contentName cr)) u) =
    ((fun h : Row → Row => (sortBy s.recordKeys U).map h) ∘ fun cr => fun u => proj (s.valueCols.map (contentName cr)) u)
    from rfl]
  rw [this]
  apply map_congr_left
  intro u _
  simp only [flatMap_cons, proj_append, proj_flatMap, flatMap_map]

theorem groups_eq (ks : List String) (R : List Row) :
    groups ks R = (isort keyLe (dedup ((R.map (keyOf ks)).filter noNull))).map
      fun k => (k, R.filter fun r => keyOf ks r = k) := rfl

theorem blocksToRows_spec {s : Spec} (g : s.Good) {U : List Row} (hU : RecKeys s.recordKeys U) {t : Table}
    (ht : IsBlocks s U t) :
    ∃ r, blocksToRows s t = .ok r ∧ IsRows s U r ∧ r.cols.Perm s.rowColumns := by
  have f := g.facts
  obtain ⟨hcols, hrows⟩ := ht
  rw [eRows_eq] at hrows
  unfold blocksToRows
  rw [if_neg f.ck_ne]
  have hsel : t.select s.blockColumns = .ok ⟨s.blockColumns, t.rows.map (proj s.blockColumns)⟩ := by
    unfold Table.select; rw [if_pos hcols]
  rw [hsel]
  simp only
  generalize t.rows.map (proj s.blockColumns) = R at hrows ⊢
  by_cases hU0 : U = []
  · subst hU0
    have hR : R = [] := by
      have : eRows s [] = [] := by simp [eRows]
      rw [this] at hrows
      exact hrows.eq_nil
    rw [if_pos hR]
    exact ⟨_, rfl, ⟨fun c hc => hc, by simp⟩, Perm.refl _⟩
  · have hRne : R ≠ [] := fun e => eRows_ne_nil f hU0 (by rw [e] at hrows; exact hrows.symm.eq_nil)
    rw [if_neg hRne]
    have hkeyed : tableIsKeyedBy ⟨s.blockColumns, R⟩ (s.recordKeys ++ s.ctKeys) = .ok true := by
      apply tableIsKeyedBy_ok _ ((eRows_recKeys f hU).perm (hrows.symm.map _))
      intro c hc
      rcases mem_append.1 hc with h | h
      · exact rk_sub_bc c h
      · exact ck_sub_bc f c h
    rw [hkeyed]
    simp only
    obtain ⟨CRs, hCRs, hSK⟩ := perm_map_inv (groupKeys_perm f hU hU0 hrows)
    rw [groups_eq, ← hSK, map_map]
    have hmem : ∀ cr ∈ CRs, cr ∈ s.ct.rows := fun cr h => hCRs.mem_iff.1 h
    match CRs, hCRs, hmem with
    | [], hC, _ => exact absurd hC.symm.eq_nil f.rows_ne
    | cr0 :: crs, hC, hmem =>
      simp only [map_cons, Function.comp_apply]
      have hF : ∀ cr ∈ cr0 :: crs, (R.filter fun r => keyOf s.ctKeys r = keyOf s.ctKeys cr).Perm (U.map (bRow s cr)) :=
        fun cr hc => group_perm f hU hrows (hmem cr hc)
      have hlen : ∀ cr ∈ cr0 :: crs, (R.filter fun r => keyOf s.ctKeys r = keyOf s.ctKeys cr).length = U.length := by
        intro cr hc
        rw [(hF cr hc).length_eq, length_map]
      have h1 : (crs.map ((fun k => (k, R.filter fun r => keyOf s.ctKeys r = k)) ∘ keyOf s.ctKeys)).any
          (fun g => g.2.length != (R.filter fun r => keyOf s.ctKeys r = keyOf s.ctKeys cr0).length) = false := by
        rw [any_eq_false]
        intro g hg
        obtain ⟨cr, hcr, rfl⟩ := mem_map.1 hg
        simp only [Function.comp_apply, bne_iff_ne, ne_eq, Decidable.not_not]
        rw [hlen cr (mem_cons_of_mem _ hcr), hlen cr0 mem_cons_self]
      have h2 : (((keyOf s.ctKeys cr0, R.filter fun r => keyOf s.ctKeys r = keyOf s.ctKeys cr0)) ::
          crs.map ((fun k => (k, R.filter fun r => keyOf s.ctKeys r = k)) ∘ keyOf s.ctKeys)).any
          (fun g => mergeKindClash s g.1) = false := by
        rw [any_eq_false]
        intro g hg
        rcases mem_cons.1 hg with rfl | hg
        · simp [mergeKindClash_false (hmem cr0 mem_cons_self)]
        · obtain ⟨cr, hcr, rfl⟩ := mem_map.1 hg
          simp [mergeKindClash_false (hmem cr (mem_cons_of_mem _ hcr))]
      rw [h1, h2]
      simp only [Bool.false_eq_true, if_false]
      have hasm := assemble_eq f hU cr0 crs hmem
        (fun cr => R.filter fun r => keyOf s.ctKeys r = keyOf s.ctKeys cr) hF
      have hform : (crs.map ((fun k => (k, R.filter fun r => keyOf s.ctKeys r = k)) ∘ keyOf s.ctKeys)) =
          crs.map fun cr => (keyOf s.ctKeys cr, R.filter fun r => keyOf s.ctKeys r = keyOf s.ctKeys cr) := rfl
      rw [hform, hasm]
      have hcp : (s.recordKeys ++ (cr0 :: crs).flatMap fun cr => s.valueCols.map (contentName cr)).Perm s.rowColumns := by
        rw [Spec.rowColumns, contentKeys_eq f]
        exact (contentCols_perm hC).append_left _
      refine ⟨_, rfl, ⟨fun c hc => hcp.symm.mem_iff.1 hc, ?_⟩, hcp⟩
      simp only
      refine ((sortBy_perm _ _).map _).trans ?_
      rw [map_map]
      refine Perm.trans (Perm.of_eq ?_) ((sortBy_perm s.recordKeys U).map _)
      exact map_congr_left fun u _ => proj_proj u fun c hc => hcp.symm.mem_iff.1 hc

end DAVerif.CData
