import DAVerif.Proofs.SolRows
import DAVerif.Proofs.SolBuild
import DAVerif.Spec.Solutions
import DAVerif.Solutions.ReplicateInterp
/-!
`replicate_rows_query` emits every row `count` times, numbered `0 … count-1` (proof over `sem`, both configurations),
for every interpretation `Θ` that evaluates the helper's power expression to the key of power `powerOf count`
(`PowerSem`) and `<` on numbers as usual (`LtSem`), under the hypothesis that `powerOf` is the exact `⌈log₂⌉`.
-/
namespace DAVerif.Sol
open DAVerif DAVerif.Solutions DAVerif.Spec21

/-! ### exact `⌈log₂ c⌉` -/

theorem clog2_spec (c : Nat) : c ≤ 2 ^ clog2 c ∧ ∀ j, j < clog2 c → ¬ c ≤ 2 ^ j := by
  unfold clog2
  by_cases h : c ≤ 1
  · simp only [h, if_true]
    refine ⟨by simpa using h, ?_⟩
    intro j hj; omega
  · simp only [h, if_false]
    have hm : c - 1 ≠ 0 := by omega
    have h1 := Nat.log2_self_le hm
    have h2 := @Nat.lt_log2_self (c - 1)
    refine ⟨by omega, ?_⟩
    intro j hj hle
    have : 2 ^ j ≤ 2 ^ Nat.log2 (c - 1) := Nat.pow_le_pow_right (by omega) (by omega)
    omega

theorem clog2_mono {c c' : Nat} (h : c ≤ c') : clog2 c ≤ clog2 c' := by
  rcases Nat.lt_or_ge (clog2 c') (clog2 c) with hlt | hge
  · exfalso
    exact (clog2_spec c).2 _ hlt (Nat.le_trans h (clog2_spec c').1)
  · exact hge

/-! ### the power keys are different for different powers -/

theorem toString_nat_inj {a b : Nat} (h : toString a = toString b) : a = b := by
  have h1 : (Nat.repr a).toList = (Nat.repr b).toList := by
    have : Nat.repr a = Nat.repr b := by simpa [Nat.toString_eq_repr] using h
    rw [this]
  rw [Nat.toList_repr, Nat.toList_repr] at h1
  have := congrArg (fun l => Nat.ofDigitChars 10 l 0) h1
  simpa [Nat.ofDigitChars_ten_toDigits] using this

theorem powerKey_inj {p q : Nat} (h : powerKey p = powerKey q) : p = q := by
  unfold powerKey at h
  have : (toString p).toList = (toString q).toList := by
    have := congrArg String.toList h
    simpa [String.toList_append] using this
  exact toString_nat_inj (String.toList_inj.mp this)

/-! ### what the theorem assumes about the interpretation -/

/-- the engine evaluates the power expression of a row whose count is `c` (`1 ≤ c ≤ max_count`) to the key of
power table `powerOf c` -/
def PowerSem (Θ : Interp) (countCol : String) (powerOf : Nat → Nat) (maxCount : Nat) : Prop :=
  ∀ (r : Row) (c : Nat), r.get countCol = Val.num (c : Nat) → 1 ≤ c → c ≤ maxCount →
    evalCell Θ r (powerExpr countCol) = Val.str (powerKey (powerOf c))

/-- `<` compares two numbers -/
def LtSem (Θ : Interp) : Prop :=
  ∀ (a b : Rat), Θ.scalar "<" [ArgV.v (Val.num a), ArgV.v (Val.num b)] = Val.bool (decide (a < b))

/-! ### list facts -/

theorem get_map_mk (cs : List String) (f : String → Val) {c : String} (h : c ∈ cs) :
    Row.get (cs.map (fun c => (c, f c))) c = f c := by
  induction cs with
  | nil => cases h
  | cons x cs ih =>
    simp only [Row.get, List.map_cons, List.lookup_cons]
    by_cases e : c = x
    · subst e; simp
    · have : (c == x) = false := by simpa using e
      simp only [this]
      rcases List.mem_cons.mp h with h | h
      · exact absurd h e
      · exact ih h

theorem range_filter_lt (m c : Nat) (h : c ≤ m) : (List.range m).filter (fun i => decide (i < c)) = List.range c := by
  induction m with
  | zero =>
    have : c = 0 := by omega
    subst this; rfl
  | succ m ih =>
    rw [List.range_succ, List.filter_append]
    by_cases hc : c ≤ m
    · rw [ih hc]
      have : ¬ m < c := by omega
      simp [this]
    · have hcm : c = m + 1 := by omega
      subst hcm
      have : (List.range m).filter (fun i => decide (i < m + 1)) = List.range m := by
        rw [List.filter_eq_self]
        intro i hi
        have := List.mem_range.mp hi
        simp; omega
      rw [this, List.range_succ]
      simp

theorem flatMap_filter_single {α β : Type} (l : List α) (g : α → List β) (q : β → Bool) (a : α)
    (hnd : l.Nodup) (ha : a ∈ l) (hin : ∀ y ∈ g a, q y = true) (hout : ∀ x ∈ l, x ≠ a → ∀ y ∈ g x, q y = false) :
    (l.flatMap g).filter q = g a := by
  induction l with
  | nil => cases ha
  | cons x l ih =>
    obtain ⟨hx, hnd'⟩ := List.nodup_cons.mp hnd
    rw [List.flatMap_cons, List.filter_append]
    by_cases e : x = a
    · subst e
      have h1 : (g x).filter q = g x := List.filter_eq_self.mpr hin
      have h2 : (l.flatMap g).filter q = [] := by
        rw [List.filter_eq_nil_iff]
        intro y hy
        obtain ⟨z, hz, hyz⟩ := List.mem_flatMap.mp hy
        have : z ≠ x := fun e => hx (e ▸ hz)
        have := hout z (List.mem_cons_of_mem _ hz) this y hyz
        simp [this]
      rw [h1, h2, List.append_nil]
    · have h1 : (g x).filter q = [] := by
        rw [List.filter_eq_nil_iff]
        intro y hy
        have := hout x List.mem_cons_self e y hy
        simp [this]
      have ha' : a ∈ l := by
        rcases List.mem_cons.mp ha with h | h
        · exact absurd h.symm e
        · exact h
      rw [h1, List.nil_append]
      exact ih hnd' ha' (fun z hz hne => hout z (List.mem_cons_of_mem _ hz) hne)

theorem flatMap_congr_mem {α β : Type} {l : List α} {f g : α → List β} (h : ∀ x ∈ l, f x = g x) :
    l.flatMap f = l.flatMap g := by
  induction l with
  | nil => rfl
  | cons a l ih =>
    rw [List.flatMap_cons, List.flatMap_cons, h a List.mem_cons_self,
      ih (fun x hx => h x (List.mem_cons_of_mem _ hx))]

/-! ### the count frame -/

/-- one row of the count frame -/
def frameRow (seqCol : String) (p i : Nat) : Row := [(powerCol, Val.str (powerKey p)), (seqCol, Val.num (i : Nat))]

theorem countFrame_rows (seqCol : String) (top : Nat) :
    (countFrame seqCol top).rows =
      (List.range (top + 1)).flatMap (fun p => (List.range (2 ^ p)).map (frameRow seqCol p)) := rfl

theorem frameRow_get_power (seqCol : String) (p i : Nat) : (frameRow seqCol p i).get powerCol = Val.str (powerKey p) := by
  simp [frameRow, Row.get, List.lookup_cons]

theorem frameRow_get_seq {seqCol : String} (h : powerCol ≠ seqCol) (p i : Nat) :
    (frameRow seqCol p i).get seqCol = Val.num (i : Nat) := by
  have : (seqCol == powerCol) = false := by simpa using fun e => h e.symm
  simp [frameRow, Row.get, List.lookup_cons, this]

theorem frameRow_select {seqCol : String} (h : powerCol ≠ seqCol) (p i : Nat) :
    (frameRow seqCol p i).select [powerCol, seqCol] = frameRow seqCol p i := by
  simp only [Row.select, List.map_cons, List.map_nil, frameRow_get_power, frameRow_get_seq h]
  rfl

/-- the rows of the count frame whose power key is that of power `P` -/
theorem countFrame_filter (seqCol : String) (top P : Nat) (hP : P ≤ top) (k : Val) (hk : k = Val.str (powerKey P)) :
    (countFrame seqCol top).rows.filter (fun rb => rb.get powerCol == k)
      = (List.range (2 ^ P)).map (frameRow seqCol P) := by
  rw [countFrame_rows]
  apply flatMap_filter_single _ _ _ P List.nodup_range (List.mem_range.mpr (by omega))
  · intro y hy
    obtain ⟨i, _, rfl⟩ := List.mem_map.mp hy
    simp [frameRow_get_power, hk]
  · intro p _ hne y hy
    obtain ⟨i, _, rfl⟩ := List.mem_map.mp hy
    rw [frameRow_get_power, hk]
    have : powerKey p ≠ powerKey P := fun e => hne (powerKey_inj e)
    simpa using this

/-! ### the pipeline -/

section
variable {Θ : Interp} {cs : List String} {cc sc : String} {powerOf : Nat → Nat} {maxCount : Nat}

/-- all the output rows that stem from one input row `r` whose count is `c` -/
theorem replicate_row (cfg : SemCfg) (hok : RepOK cs cc sc) (hnd : cs.Nodup) (hlt : LtSem Θ)
    (top : Nat) (r : Row) (hr : r.keys = cs) (c P : Nat) (hc : r.get cc = Val.num (c : Nat))
    (hpow : evalCell Θ r (powerExpr cc) = Val.str (powerKey P)) (hP : P ≤ top) (hcP : c ≤ 2 ^ P) :
    (((((countFrame sc top).rows.filter (fun rb =>
          keyMatch cfg (keyOf ((r.setAll [(powerCol, evalCell Θ r (powerExpr cc))]).select (cs ++ [powerCol])) [powerCol])
            (keyOf rb [powerCol]))).map
        (fun rb => joinRow (cs ++ [powerCol]) [powerCol, sc] (cs ++ [powerCol, sc])
          (some ((r.setAll [(powerCol, evalCell Θ r (powerExpr cc))]).select (cs ++ [powerCol]))) (some rb))).map
        (fun x => x.select (cs ++ [powerCol, sc]))).filter
        (fun x => evalCell Θ x (binop "<" (.col sc) (.col cc)) == Val.bool true)).map
        (fun x => x.select (cs ++ [sc]))
    = (List.range c).map (fun i => r ++ [(sc, Val.num (i : Nat))]) := by
  have hpc : powerCol ∉ cs := hok.power_new
  have hsc : sc ∉ cs := hok.seq_new
  have hps : powerCol ≠ sc := hok.power_ne_seq
  -- the extended left row
  let ra : Row := (r.setAll [(powerCol, evalCell Θ r (powerExpr cc))]).select (cs ++ [powerCol])
  have hra_cs : ∀ c' ∈ cs, ra.get c' = r.get c' := by
    intro c' hc'
    have hne : c' ≠ powerCol := fun e => hpc (e ▸ hc')
    show ((r.setAll [(powerCol, _)]).select (cs ++ [powerCol])).get c' = _
    rw [setAll_single, Row.select_get_of_mem (List.mem_append_left _ hc'), get_set_ne _ _ hne]
  have hra_p : ra.get powerCol = Val.str (powerKey P) := by
    show ((r.setAll [(powerCol, _)]).select (cs ++ [powerCol])).get powerCol = _
    rw [setAll_single, Row.select_get_of_mem (by simp), get_set_self, hpow]
  -- which rows of the count frame match
  have hmatch : ∀ rb : Row, keyMatch cfg (keyOf ra [powerCol]) (keyOf rb [powerCol])
      = (rb.get powerCol == Val.str (powerKey P)) := by
    intro rb
    simp only [keyMatch, keyOf, Row.vals, List.map_cons, List.map_nil, hra_p, List.all_cons, List.all_nil,
      Val.isNull, Bool.not_false, Bool.and_true, Bool.or_true]
    rw [Bool.eq_iff_iff]
    simp only [beq_iff_eq, List.cons.injEq, and_true]
    exact ⟨fun e => e.symm, fun e => e.symm⟩
  have hfilter : (countFrame sc top).rows.filter (fun rb => keyMatch cfg (keyOf ra [powerCol]) (keyOf rb [powerCol]))
      = (List.range (2 ^ P)).map (frameRow sc P) := by
    rw [List.filter_congr (fun rb _ => hmatch rb)]
    exact countFrame_filter sc top P hP _ rfl
  show (((((countFrame sc top).rows.filter (fun rb => keyMatch cfg (keyOf ra [powerCol]) (keyOf rb [powerCol]))).map
      (fun rb => joinRow (cs ++ [powerCol]) [powerCol, sc] (cs ++ [powerCol, sc]) (some ra) (some rb))).map
      (fun x => x.select (cs ++ [powerCol, sc]))).filter
      (fun x => evalCell Θ x (binop "<" (.col sc) (.col cc)) == Val.bool true)).map
      (fun x => x.select (cs ++ [sc])) = _
  rw [hfilter]
  -- one joined row per number `i` of the power table
  let F : Nat → Row := fun i =>
    (joinRow (cs ++ [powerCol]) [powerCol, sc] (cs ++ [powerCol, sc]) (some ra) (some (frameRow sc P i))).select
      (cs ++ [powerCol, sc])
  have eF : (((List.range (2 ^ P)).map (frameRow sc P)).map
      (fun rb => joinRow (cs ++ [powerCol]) [powerCol, sc] (cs ++ [powerCol, sc]) (some ra) (some rb))).map
      (fun x => x.select (cs ++ [powerCol, sc])) = (List.range (2 ^ P)).map F := by
    rw [List.map_map, List.map_map]; rfl
  rw [eF]
  have hJ : ∀ i : Nat, (∀ c' ∈ cs, (F i).get c' = r.get c') ∧ (F i).get sc = Val.num (i : Nat) := by
    intro i
    constructor
    · intro c' hc'
      have hne1 : c' ≠ powerCol := fun e => hpc (e ▸ hc')
      have hne2 : c' ≠ sc := fun e => hsc (e ▸ hc')
      show ((joinRow _ _ _ _ _).select _).get c' = _
      rw [Row.select_get_of_mem (List.mem_append_left _ hc'), joinRow,
        get_map_mk _ _ (List.mem_append_left _ hc')]
      have h1 : (cs ++ [powerCol]).contains c' = true := by simp [hc']
      have h2 : [powerCol, sc].contains c' = false := by simp [hne1, hne2]
      simp only [h1, h2, if_true, Bool.false_eq_true, if_false, hra_cs c' hc']
      cases hv : r.get c' <;> simp [Val.isNull]
    · show ((joinRow _ _ _ _ _).select _).get sc = _
      rw [Row.select_get_of_mem (by simp), joinRow, get_map_mk _ _ (by simp)]
      have h1 : (cs ++ [powerCol]).contains sc = false := by
        simp only [List.contains_eq_mem, List.mem_append, List.mem_singleton, decide_eq_false_iff_not, not_or]
        exact ⟨hsc, fun e => hps e.symm⟩
      have h2 : [powerCol, sc].contains sc = true := by simp
      simp only [h1, h2, Bool.false_eq_true, if_false, if_true, Val.isNull, frameRow_get_seq hps]
  -- the row filter keeps exactly the copies numbered below the count
  have hpred : ∀ i : Nat,
      (evalCell Θ (F i) (binop "<" (.col sc) (.col cc)) == Val.bool true) = decide (i < c) := by
    intro i
    obtain ⟨h1, h2⟩ := hJ i
    have := hlt ((i : Nat) : Rat) ((c : Nat) : Rat)
    simp only [evalCell, binop, evalTerm, evalArgs, h2, h1 cc hok.count_mem, hc, this]
    rw [Bool.eq_iff_iff]
    simp only [beq_iff_eq, Val.bool.injEq, decide_eq_true_eq]
    constructor
    · intro h; exact_mod_cast h
    · intro h; exact_mod_cast h
  rw [List.filter_map]
  have e2 : (List.range (2 ^ P)).filter ((fun x => evalCell Θ x (binop "<" (.col sc) (.col cc)) == Val.bool true) ∘ F)
      = (List.range (2 ^ P)).filter (fun i => decide (i < c)) := List.filter_congr (fun i _ => hpred i)
  rw [e2, range_filter_lt _ _ hcP, List.map_map]
  apply List.map_congr_left
  intro i _
  obtain ⟨h1, h2⟩ := hJ i
  simp only [Function.comp]
  rw [select_append_single, h2]
  congr 1
  rw [select_congr h1]
  exact select_self hr hnd

/-- **`sem` of the tree built by `replicate_rows_query`.** -/
theorem sem_repTree (cfg : SemCfg) (env : Env) (name jt : String) (t0 : Table)
    (hok : RepOK cs cc sc) (hnd : cs.Nodup) (hlt : LtSem Θ) (hpw : PowerSem Θ cc powerOf maxCount)
    (hlog : ∀ c, 1 ≤ c → c ≤ maxCount → powerOf c = clog2 c) (hmax : 0 < maxCount)
    (henv : env.lookup name = some t0) (hsub : subset cs t0.cols = true)
    (hjt : env.lookup jt = some (countFrame sc (powerOf maxCount)))
    (hcounts : ∀ r ∈ t0.rows, ∃ c : Nat, r.get cc = Val.num (c : Nat) ∧ 1 ≤ c ∧ c ≤ maxCount) :
    sem Θ cfg env (repTree (.table name cs) cc sc jt) = .ok (replicateSpec cc sc (t0.selectCols cs)) := by
  have hpc : powerCol ∉ cs := hok.power_new
  have hsc : sc ∉ cs := hok.seq_new
  have hps : powerCol ≠ sc := hok.power_ne_seq
  have hc1 : appendNew cs [powerCol] = cs ++ [powerCol] := appendNew_single hpc
  have hsub2 : subset [powerCol, sc] (countFrame sc (powerOf maxCount)).cols = true := by
    simp [subset, countFrame]
  have hc2 : appendNew (cs ++ [powerCol]) [powerCol, sc] = cs ++ [powerCol, sc] := by
    have h1 : (cs ++ [powerCol]).contains powerCol = true := by simp
    have h2 : (cs ++ [powerCol]).contains sc = false := by
      simp only [List.contains_eq_mem, List.mem_append, List.mem_singleton, decide_eq_false_iff_not, not_or]
      exact ⟨hsc, fun e => hps e.symm⟩
    simp only [appendNew, List.foldl_cons, List.foldl_nil, h1, if_true, h2, Bool.false_eq_true, if_false,
      List.append_assoc]
    rfl
  have hce : (Ops.extend (.table name cs) [(powerCol, powerExpr cc)] [] [] [] false).cols = cs ++ [powerCol] := by
    simp only [Ops.cols, List.map_cons, List.map_nil, hc1]
  have hct : (Ops.table jt [powerCol, sc]).cols = [powerCol, sc] := rfl
  -- declared columns of the join node: the union (neither side's tuple can be re-used)
  have hjc : (Ops.join (.extend (.table name cs) [(powerCol, powerExpr cc)] [] [] [] false)
      (.table jt [powerCol, sc]) [powerCol] [powerCol] .inner).cols = cs ++ [powerCol, sc] := by
    have h1 : ((cs ++ [powerCol, sc]).length == (cs ++ [powerCol]).length) = false := by simp
    have h2 : ((cs ++ [powerCol, sc]).all (fun c => [powerCol, sc].contains c)) = false := by
      rw [List.all_eq_false]
      refine ⟨cc, List.mem_append_left _ hok.count_mem, ?_⟩
      have e1 : cc ≠ powerCol := fun e => hok.power_ne_count e.symm
      have e2 : cc ≠ sc := fun e => hsc (e ▸ hok.count_mem)
      simp [e1, e2]
    simp only [Ops.cols, List.map_cons, List.map_nil, hc1, hc2, h1, h2, Bool.and_false, Bool.false_eq_true,
      if_false]
  have hdc : (cs ++ [powerCol, sc]).filter (fun c => !([powerCol].contains c)) = cs ++ [sc] := by
    rw [List.filter_append]
    have h1 : cs.filter (fun c => !([powerCol].contains c)) = cs := by
      rw [List.filter_eq_self]
      intro c hc
      have : c ≠ powerCol := fun e => hpc (e ▸ hc)
      simp [this]
    have h2 : [powerCol, sc].filter (fun c => !([powerCol].contains c)) = [sc] := by
      have : ¬ sc = powerCol := fun e => hps e.symm
      simp [List.filter_cons, this]
    rw [h1, h2]
  have hcd : (Ops.dropCols (.selectRows (.join (.extend (.table name cs) [(powerCol, powerExpr cc)] [] [] [] false)
      (.table jt [powerCol, sc]) [powerCol] [powerCol] .inner) (binop "<" (.col sc) (.col cc))) [powerCol]).cols
      = cs ++ [sc] := by
    have e : ∀ (src : Ops) (e : Term) (dels : List String),
        (Ops.dropCols (.selectRows src e) dels).cols = src.cols.filter (fun c => !dels.contains c) :=
      fun _ _ _ => rfl
    rw [e, hjc, hdc]
  have hfr : (countFrame sc (powerOf maxCount)).selectCols [powerCol, sc] = countFrame sc (powerOf maxCount) := by
    simp only [Table.selectCols, countFrame_rows, countFrame]
    congr 1
    rw [List.map_flatMap]
    apply flatMap_congr_mem
    intro p _
    rw [List.map_map]
    apply List.map_congr_left
    intro i _
    exact frameRow_select hps p i
  unfold repTree
  simp only [sem, henv, hsub, hjt, hsub2, if_true, bind, Except.bind, pure, Except.pure, hjc, hfr, hce, hct, hcd,
    hc2]
  have hfc : (countFrame sc (powerOf maxCount)).cols = [powerCol, sc] := rfl
  simp only [List.map_cons, List.map_nil, semExtendPlain, semJoin, semSelectRows, Table.selectCols, hfc]
  have hnl : (JoinType.inner == JoinType.left) = false := by decide
  have hnr : (JoinType.inner == JoinType.right) = false := by decide
  have hnf : (JoinType.inner == JoinType.full) = false := by decide
  have hno : (JoinType.inner == JoinType.outer) = false := by decide
  have hnc : (JoinType.inner == JoinType.cross) = false := by decide
  simp only [hnl, hnr, hnf, hno, hnc, Bool.false_or, Bool.false_and, Bool.false_eq_true, if_false, List.append_nil,
    List.isEmpty_cons, Bool.or_false]
  simp only [replicateSpec, Table.selectCols]
  congr 2
  simp only [List.flatMap_map, List.map_flatMap, List.filter_flatMap]
  apply flatMap_congr_mem
  intro r0 hr0
  obtain ⟨c, hc, hc1', hc2'⟩ := hcounts r0 hr0
  have hkeys : (r0.select cs).keys = cs := Row.keys_select _ _
  have hget : (r0.select cs).get cc = Val.num (c : Nat) := by
    rw [Row.select_get_of_mem hok.count_mem, hc]
  have hP := hpw (r0.select cs) c hget hc1' hc2'
  have hcount : countOf cc (r0.select cs) = c := by
    simp [countOf, hget]
  rw [hcount]
  have hlogc := hlog c hc1' hc2'
  have hlogm := hlog maxCount hmax (Nat.le_refl _)
  exact replicate_row cfg hok hnd hlt (powerOf maxCount) (r0.select cs) hkeys c (powerOf c) hget hP
    (by rw [hlogc, hlogm]; exact clog2_mono hc2') (by rw [hlogc]; exact (clog2_spec c).1)

end

/-! ### the executable interpretations of `Solutions/ReplicateInterp.lean` satisfy the assumptions

(with `powerOf = clog2`: there the hypothesis `hlog` holds by construction) -/

theorem icast (k : Nat) : ((k : Int) : Rat) = ((k : Nat) : Rat) := by norm_cast

theorem ceil_half (k : Nat) : (((k : Nat) : Rat) - 1 / 2).ceil = (k : Int) := by
  have h1 : (((k : Nat) : Rat) - 1 / 2).ceil ≤ (k : Int) := by
    rw [Rat.ceil_le_iff, icast]; grind
  have h2 : ((k : Int) - 1) < (((k : Nat) : Rat) - 1 / 2).ceil := by
    rw [Rat.lt_ceil_iff]
    have : (((k : Int) - 1 : Int) : Rat) = ((k : Nat) : Rat) - 1 := by
      rw [Rat.intCast_sub, icast]; rfl
    rw [this]; grind
  omega

theorem logStandIn_two : logStandIn 2 = Val.num 1 := by
  decide +kernel

example (k : Nat) : toString ((k : Nat) : Int) = toString k := rfl

theorem logStandIn_nat (c : Nat) (hc : 1 ≤ c) :
    logStandIn ((c : Nat) : Rat) = if 2 ^ clog2 c = c then Val.num ((clog2 c : Nat) : Rat)
      else Val.num (((clog2 c : Nat) : Rat) - 1 / 2) := by
  unfold logStandIn
  have h1 : (((c : Nat) : Rat).den == 1) = true := by simp
  have h2 : ((c : Nat) : Rat).num ≥ 1 := by simp; omega
  have h3 : ((c : Nat) : Rat).num.toNat = c := by simp
  simp only [h1, Bool.true_and, decide_eq_true h2, if_true, h3]
  by_cases e : 2 ^ clog2 c = c
  · simp [e]
  · have : (2 ^ clog2 c == c) = false := by simpa using e
    simp [e, this]

theorem repScalar_power (base : String → List ArgV → Val)
    (hdiv : ∀ x : Rat, base "/" [ArgV.v (Val.num x), ArgV.v (Val.num 1)] = Val.num x)
    (hceil : ∀ x : Rat, base "ceil" [ArgV.v (Val.num x)] = Val.num (x.ceil : Int))
    (Θ : Interp) (hΘ : Θ.scalar = repScalar base) (cc : String) (r : Row) (c : Nat)
    (hr : r.get cc = Val.num ((c : Nat) : Rat)) (hc : 1 ≤ c) :
    evalCell Θ r (powerExpr cc) = Val.str (powerKey (clog2 c)) := by
  have hlog2 : repScalar base "log" [ArgV.v (Val.num 2)] = Val.num 1 := by
    show logStandIn 2 = _
    exact logStandIn_two
  have hlogc : repScalar base "log" [ArgV.v (Val.num ((c : Nat) : Rat))] = logStandIn ((c : Nat) : Rat) := rfl
  have hdivr : ∀ x : Rat, repScalar base "/" [ArgV.v (Val.num x), ArgV.v (Val.num 1)] = Val.num x := by
    intro x; exact hdiv x
  have hceilr : ∀ x : Rat, repScalar base "ceil" [ArgV.v (Val.num x)] = Val.num (x.ceil : Int) := by
    intro x; exact hceil x
  have hint : ∀ k : Nat, repScalar base "as_int64" [ArgV.v (Val.num ((k : Int) : Rat))] = Val.num ((k : Int) : Rat) := by
    intro k
    show Val.num ((Int.tdiv ((k : Int) : Rat).num ((k : Int) : Rat).den : Int) : Rat) = _
    simp
  have hcat : ∀ k : Nat, repScalar base "concat" [ArgV.v (Val.str "p"), ArgV.v (Val.num ((k : Int) : Rat))]
      = Val.str (powerKey k) := by
    intro k
    show (if (((k : Int) : Rat).den == 1) = true then Val.str ("p" ++ toString ((k : Int) : Rat).num) else Val.null) = _
    simp [powerKey]
    rfl
  have h2 : ((2 : Int) : Rat) = 2 := by norm_cast
  simp only [evalCell, evalTerm, evalArgs, powerExpr, mcall, binop, hΘ, hr, Lit.toVal, h2, hlog2, hlogc]
  rw [logStandIn_nat c hc]
  split
  · rw [hdivr, hceilr, ← icast, Rat.ceil_intCast, hint, hcat]
  · rw [hdivr, hceilr, ceil_half, hint, hcat]

theorem theta_div_one (x : Rat) : Theta.scalar "/" [ArgV.v (Val.num x), ArgV.v (Val.num 1)] = Val.num x := by
  have : Theta.scalar "/" [ArgV.v (Val.num x), ArgV.v (Val.num 1)] = Val.num (x / 1) := rfl
  rw [this]; congr 1; grind

theorem theta_ceil (x : Rat) : Theta.scalar "ceil" [ArgV.v (Val.num x)] = Val.num (x.ceil : Int) := rfl

theorem thetaSol_powerSem (cv : RecMap → Table → Except Err Table) (cc : String) (maxCount : Nat) :
    PowerSem (thetaSol cv) cc clog2 maxCount := by
  intro r c hr hc _
  exact repScalar_power Theta.scalar theta_div_one theta_ceil _ rfl cc r c hr hc

theorem thetaSol_ltSem (cv : RecMap → Table → Except Err Table) : LtSem (thetaSol cv) := fun _ _ => rfl

theorem thetaSqlSol_powerSem (cc : String) (maxCount : Nat) : PowerSem thetaSqlSol cc clog2 maxCount := by
  intro r c hr hc _
  refine repScalar_power ThetaSql.scalar ?_ ?_ _ rfl cc r c hr hc
  · intro x
    have : ThetaSql.scalar "/" [ArgV.v (Val.num x), ArgV.v (Val.num 1)] = Val.num (x / 1) := rfl
    rw [this]; congr 1; grind
  · intro x; rfl

theorem thetaSqlSol_ltSem : LtSem thetaSqlSol := fun _ _ => rfl

end DAVerif.Sol
