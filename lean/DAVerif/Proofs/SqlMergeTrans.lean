import DAVerif.Proofs.SqlReach
import DAVerif.Proofs.SqlMerge
/-!
C01/C04: the translation of `extend` **with** the extend merge (`allow_extend_merges`), for both values of
`cfg.merges`.

* `toNear_extend_inv` – the three outcomes of `extend_to_near_sql`: the node is pruned, a new `extend_n` step is
  emitted (`extFallback`), or our entries are merged into the translated source (`extMerged`);
* `extend_step_sound` – the emitted step is sound and its dictionaries satisfy the invariant of mergeable steps;
* `transOK_extend_merge` – replaces `transOK_extend`: the induction claim `TransOK` together with `MergeInv` of the
  result (`TransOKM`);
* the other nodes return steps that are not marked mergeable, or apply `setTermKeys` (`transOKM_*`);
* `transOK_frag_merges`, `stageA_root_merges` – the main induction and the root call for every `cfg`.
-/
namespace DAVerif
namespace Sql
open DAVerif.Ops (usedFromSources unionL)
open Rules26 (usedBy keys)

variable {Θ : Interp} {ec : EngineCfg} {env : Env} {scfg : SemCfg} {G : Near → Prop} {cfg : SqlCfg}

/-! ### the pieces of `extend_to_near_sql` -/

def extUsg (u part order rev : List String) : List String := unionL (unionL (unionL u part) order) rev

def extSubops (ops : Assign) (usg : List String) : Assign := ops.filter (fun kv => usg.contains kv.1)

def extIsWin (part order : List String) (w : Bool) : Bool := w || !part.isEmpty || !order.isEmpty

def extWin (part order rev : List String) (w : Bool) : Option Win :=
  if extIsWin part order w then some ⟨part, order, rev⟩ else none

def extWindowVars (part order : List String) (w : Bool) : List String :=
  if extIsWin part order w then unionL part order else []

def extOrig (ops : Assign) (usg : List String) : List String :=
  usg.filter (fun k => !((extSubops ops usg).map (·.1)).contains k)

/-- `terms` -/
def extTerms (ops : Assign) (usg : List String) (win : Option Win) : Terms :=
  (extOrig ops usg).map (fun k => (k, STerm.pass)) ++ (extSubops ops usg).map (fun kv => (kv.1, STerm.expr kv.2 win))

/-- `declared_term_dependencies` -/
def extDeps (ops : Assign) (usg wv : List String) : List (String × List String) :=
  (extOrig ops usg).map (fun k => (k, [k])) ++ (extSubops ops usg).map (fun kv => (kv.1, unionL (Term.colsUsed kv.2) wv))

/-- the new step `extend_i` -/
def extFallback (n : Ops) (i : Nat) (terms : Terms) (deps : List (String × List String)) (sub : Near)
    (subusing : List String) : Near :=
  .unary s!"extend_{i}" (mkTerms terms) false sub (some subusing) .none true (some deps)
    (keyOfNode "extend" n (terms.map (·.1)))

/-- the sub step after the merge -/
def extMerged (n : Ops) (sname : String) (sterms : Terms) (sagg : Bool) (ssub : Near) (scols : Option (List String))
    (sdeps : List (String × List String)) (terms : Terms) (deps : List (String × List String)) : Near :=
  .unary sname (some (mergeDict (nonTrivialTerms deps terms) terms sterms (terms.map (·.1)))) sagg ssub scols .none true
    (some (mergeDict (nonTrivialTerms deps terms) deps sdeps (terms.map (·.1))))
    (keyOfNode "extend" n ((mergeDict (nonTrivialTerms deps terms) terms sterms (terms.map (·.1))).map (·.1)))

/-- **The outcomes of `extend_to_near_sql`** for a request `u`: (1) no assignment is requested – the source is
translated for the enlarged request; otherwise the source is translated for `subusing` and (2) a new step is
emitted, or (3) `allow_extend_merges` is on, the translated source is a mergeable step with terms and declared
dependencies and without suffix, `contention` is empty, and our entries are merged into it (no new name). -/
theorem toNear_extend_inv {fuel : Nat} {src : Ops} {ops : Assign} {part order rev : List String} {w : Bool}
    {u : List String} {st st' : Nat} {q : Near}
    (h : toNear cfg (fuel + 1) (.extend src ops part order rev w) (some u) st = .ok (q, st')) :
    ((extSubops ops (extUsg u part order rev)).isEmpty = true ∧
      toNear cfg fuel src (some (extUsg u part order rev)) st = .ok (q, st')) ∨
    ((extSubops ops (extUsg u part order rev)).isEmpty = false ∧
      (∀ c ∈ extUsg u part order rev, c ∈ (Ops.extend src ops part order rev w).cols) ∧
      ∃ sub st3, toNear cfg fuel src
          (some (((Ops.extend src ops part order rev w).usedFromSources (extUsg u part order rev)).headD [])) st =
            .ok (sub, st3) ∧
        ((q = extFallback (.extend src ops part order rev w) st3
              (extTerms ops (extUsg u part order rev) (extWin part order rev w))
              (extDeps ops (extUsg u part order rev) (extWindowVars part order w)) sub
              (((Ops.extend src ops part order rev w).usedFromSources (extUsg u part order rev)).headD []) ∧
            st' = st3 + 1) ∨
          (cfg.merges = true ∧ ∃ sname sterms sagg ssub scols sdeps skey,
            sub = .unary sname (some sterms) sagg ssub scols .none true (some sdeps) skey ∧
            contention (extDeps ops (extUsg u part order rev) (extWindowVars part order w))
              (extTerms ops (extUsg u part order rev) (extWin part order rev w)) sdeps sterms = [] ∧
            q = extMerged (.extend src ops part order rev w) sname sterms sagg ssub scols sdeps
              (extTerms ops (extUsg u part order rev) (extWin part order rev w))
              (extDeps ops (extUsg u part order rev) (extWindowVars part order w)) ∧
            st' = st3))) := by
  rw [toNear] at h
  simp only [Option.getD_some] at h
  split at h
  · rename_i hempty
    exact Or.inl ⟨hempty, h⟩
  · rename_i hnonempty
    right
    obtain ⟨_, st1, h1, h2⟩ := bindM_ok.mp h
    obtain ⟨_, hst⟩ := guardM_ok.mp h1
    cases hst
    obtain ⟨_, st2, h3, h4⟩ := bindM_ok.mp h2
    obtain ⟨hsubset, hst⟩ := guardM_ok.mp h3
    cases hst
    obtain ⟨sub, st3, h5, h6⟩ := bindM_ok.mp h4
    refine ⟨Bool.eq_false_iff.mpr hnonempty, subset_iff.mp hsubset, sub, st3, h5, ?_⟩
    have hfb : ∀ {X : M Near}, X st3 = .ok (q, st') →
        (X = (do
          let i ← fresh
          return extFallback (.extend src ops part order rev w) i
            (extTerms ops (extUsg u part order rev) (extWin part order rev w))
            (extDeps ops (extUsg u part order rev) (extWindowVars part order w)) sub
            (((Ops.extend src ops part order rev w).usedFromSources (extUsg u part order rev)).headD []))) →
        (q = extFallback (.extend src ops part order rev w) st3
              (extTerms ops (extUsg u part order rev) (extWin part order rev w))
              (extDeps ops (extUsg u part order rev) (extWindowVars part order w)) sub
              (((Ops.extend src ops part order rev w).usedFromSources (extUsg u part order rev)).headD []) ∧
            st' = st3 + 1) := by
      intro X hX e
      subst e
      obtain ⟨i, st4, hi, h7⟩ := bindM_ok.mp hX
      rw [fresh_ok] at hi
      cases hi
      rw [pureM_ok] at h7
      cases h7
      exact ⟨rfl, rfl⟩
    cases hmg : cfg.merges with
    | false =>
      rw [hmg] at h6
      exact Or.inl (hfb h6 rfl)
    | true =>
      rw [hmg] at h6
      cases sub with
      | table _ _ => exact Or.inl (hfb h6 rfl)
      | cte _ => exact Or.inl (hfb h6 rfl)
      | join => exact Or.inl (hfb h6 rfl)
      | union => exact Or.inl (hfb h6 rfl)
      | unary sname sterms sagg ssub scols sfx mg sdeps skey =>
        cases sterms with
        | none => exact Or.inl (hfb h6 rfl)
        | some sterms =>
          cases mg with
          | false => cases sfx <;> cases sdeps <;> exact Or.inl (hfb h6 rfl)
          | true =>
            cases sdeps with
            | none => cases sfx <;> exact Or.inl (hfb h6 rfl)
            | some sdeps =>
              cases sfx with
              | whereE _ => exact Or.inl (hfb h6 rfl)
              | groupBy _ => exact Or.inl (hfb h6 rfl)
              | orderBy _ _ _ => exact Or.inl (hfb h6 rfl)
              | none =>
                simp only [] at h6
                have hite : ∀ {c : Bool} {A B : M Near}, (if c = true then A else B) st3 = .ok (q, st') →
                    (c = true ∧ A st3 = .ok (q, st')) ∨ (c = false ∧ B st3 = .ok (q, st')) := by
                  intro c A B hc
                  cases c
                  · exact Or.inr ⟨rfl, hc⟩
                  · exact Or.inl ⟨rfl, hc⟩
                rcases hite h6 with ⟨hcont, h6⟩ | ⟨_, h6⟩
                · right
                  rw [pureM_ok] at h6
                  cases h6
                  refine ⟨rfl, sname, sterms, sagg, ssub, scols, sdeps, skey, rfl, List.isEmpty_iff.mp hcont, ?_, rfl⟩
                  have hstep : ∀ {β : Type} (ours : List (String × β))
                      (F : List (String × β) → String → List (String × β)),
                      (∀ d k, F d k = match lookupLast ours k with | some t => dictSet d k t | none => d) →
                      ∀ (nt : List String) (sub : List (String × β)) (weUse : List String),
                        (nt.foldl F sub).filter (fun kv => weUse.contains kv.1) = mergeDict nt ours sub weUse := by
                    intro β ours F hF nt sub weUse
                    have : F = fun d k => match lookupLast ours k with | some t => dictSet d k t | none => d := by
                      funext d k; exact hF d k
                    subst this
                    rfl
                  unfold extMerged
                  rw [← hstep (extTerms ops (extUsg u part order rev) (extWin part order rev w)) _ ?_,
                    ← hstep (extDeps ops (extUsg u part order rev) (extWindowVars part order w)) _ ?_]
                  rotate_left
                  · exact fun d k => match lookupLast (extDeps ops (extUsg u part order rev) (extWindowVars part order w)) k with
                      | some t => dictSet d k t | none => d
                  · intro d k; split <;> (rename_i hh; simp only [hh])
                  · exact fun d k => match lookupLast (extTerms ops (extUsg u part order rev) (extWin part order rev w)) k with
                      | some t => dictSet d k t | none => d
                  · intro d k; split <;> (rename_i hh; simp only [hh])
                  simp only [extTerms, extDeps, extOrig, extSubops, extUsg, extWin, extWindowVars, extIsWin]
                  congr 1 <;> (congr 3; funext d k; split <;> (rename_i hh; simp only [hh]))
                · exact Or.inl (hfb h6 rfl)

/-! ### the dictionaries of an extend step -/

private theorem lookupLast_map_fun {β : Type} (ks : List String) (f : String → β) (c : String) :
    lookupLast (ks.map (fun k => (k, f k))) c = if c ∈ ks then some (f c) else none := by
  induction ks with
  | nil => rfl
  | cons k ks ih =>
    rw [List.map_cons, lookupLast_cons, ih]
    by_cases h : c = k
    · subst h; by_cases h2 : c ∈ ks <;> simp [h2]
    · by_cases h2 : c ∈ ks <;> simp [h, h2]

/-- the declared dependencies of a requested column of an extend step -/
theorem look_extend_deps (ops : Assign) (usg wv : List String) {c : String} (hc : c ∈ usg) :
    lookupLast (extDeps ops usg wv) c =
      match lookupLast ops c with
      | some t => some (unionL (Term.colsUsed t) wv)
      | none => some [c] := by
  unfold extDeps extOrig extSubops
  rw [lookupLast_append, lookupLast_map_val (ops.filter (fun kv => usg.contains kv.1))
      (fun t => unionL (Term.colsUsed t) wv),
    lookupLast_filter_key ops (fun k => usg.contains k), if_pos (by simpa using hc)]
  cases hl : lookupLast ops c with
  | some t => rfl
  | none =>
    simp only [Option.map_none, Option.none_or, lookupLast_map_fun]
    rw [if_pos]
    apply List.mem_filter.mpr
    refine ⟨hc, ?_⟩
    simp only [List.contains_eq_mem, List.mem_map, List.mem_filter, Bool.not_eq_eq_eq_not, Bool.not_true,
      decide_eq_false_iff_not, not_exists, not_and]
    intro kv hkv e
    exact lookupLast_eq_none_iff.mp hl (List.mem_map.mpr ⟨kv, hkv.1, e⟩)

/-- the syntactic facts about the translation of an extend node for the request `u` (non-pruned case);
`usg = extUsg u part order rev`, `S` = the columns requested from the source -/
structure ExtFacts (src : Ops) (ops : Assign) (part order rev : List String) (w : Bool) (usg S : List String) :
    Prop where
  usgn : ∀ c ∈ usg, c ∈ (Ops.extend src ops part order rev w).cols
  Ssrc : ∀ c ∈ S, c ∈ src.cols
  passS : ∀ c ∈ usg, lookupLast ops c = none → c ∈ S
  exprS : ∀ c ∈ usg, ∀ t, lookupLast ops c = some t → ∀ x ∈ Term.colsRaw t, x ∈ S
  partS : ∀ c ∈ part, c ∈ S
  orderS : ∀ c ∈ order, c ∈ S
  look : ∀ win, ∀ c ∈ usg, lookupLast (extTerms ops usg win) c =
    match lookupLast ops c with
    | some t => some (STerm.expr t win)
    | none => some STerm.pass
  keysT : ∀ win c, c ∈ (extTerms ops usg win).map (·.1) ↔ c ∈ usg
  tne : ∀ win, extTerms ops usg win ≠ []

theorem extFacts {src : Ops} {ops : Assign} {part order rev : List String} {w : Bool} {u : List String}
    (hext : ExtOK src.cols ops part order rev w)
    (hu : ∀ c ∈ u, c ∈ (Ops.extend src ops part order rev w).cols)
    (hne : (extSubops ops (extUsg u part order rev)).isEmpty = false) :
    ExtFacts src ops part order rev w (extUsg u part order rev)
      (((Ops.extend src ops part order rev w).usedFromSources (extUsg u part order rev)).headD []) := by
  obtain ⟨hused, hpart, hord, hrev, hkeys, hwf, _⟩ := hext
  generalize husg : extUsg u part order rev = usg at hne ⊢
  have hmem : ∀ c, c ∈ usg ↔ c ∈ u ∨ c ∈ part ∨ c ∈ order ∨ c ∈ rev := by
    intro c; rw [← husg]; exact mem_usg
  have hncols : ∀ c, c ∈ (Ops.extend src ops part order rev w).cols ↔ c ∈ src.cols ∨ c ∈ ops.map (·.1) := by
    intro c; simp only [Ops.cols]; exact mem_appendNew
  have husgn : ∀ c ∈ usg, c ∈ (Ops.extend src ops part order rev w).cols := by
    intro c hc
    rcases (hmem c).mp hc with h | h | h | h
    · exact hu c h
    · exact (hncols c).mpr (Or.inl (hpart c h))
    · exact (hncols c).mpr (Or.inl (hord c h))
    · exact (hncols c).mpr (Or.inl (hord c (hrev c h)))
  have hnonempty : ¬ (ops.filter (fun kv => usg.contains kv.1)).isEmpty = true := by
    intro h; unfold extSubops at hne; rw [h] at hne; cases hne
  generalize hSdef : ((Ops.extend src ops part order rev w).usedFromSources usg).headD [] = S
  have hmemS : ∀ c, c ∈ S ↔ c ∈ src.cols ∧
      ((c ∈ usg ∧ c ∉ (ops.filter (fun kv => usg.contains kv.1)).map (·.1)) ∨
        c ∈ Term.colsUsedOps (ops.filter (fun kv => usg.contains kv.1))) := by
    intro c
    have hS0 : ((Ops.extend src ops part order rev w).usedFromSources usg).headD [] =
        src.cols.filter (fun c => (unionL
          ((unionL (unionL (unionL usg part) order) rev).filter
            (fun c => !((ops.filter (fun kv => usg.contains kv.1)).map (·.1)).contains c))
          (Term.colsUsedOps (ops.filter (fun kv => usg.contains kv.1)))).contains c) := by
      simp only [usedFromSources]
      rw [if_neg hnonempty]
      rfl
    rw [← hSdef, hS0, List.mem_filter, contains_iff, mem_unionL, List.mem_filter, mem_usg]
    have hb : ((!((ops.filter (fun kv => usg.contains kv.1)).map (·.1)).contains c) = true) ↔
        c ∉ (ops.filter (fun kv => usg.contains kv.1)).map (·.1) := by simp
    rw [hb]
    constructor
    · rintro ⟨h1, ⟨h2, h3⟩ | h2⟩
      · refine ⟨h1, Or.inl ⟨?_, h3⟩⟩
        rcases h2 with h | h | h | h
        · exact h
        · exact (hmem c).mpr (Or.inr (Or.inl h))
        · exact (hmem c).mpr (Or.inr (Or.inr (Or.inl h)))
        · exact (hmem c).mpr (Or.inr (Or.inr (Or.inr h)))
      · exact ⟨h1, Or.inr h2⟩
    · rintro ⟨h1, ⟨h2, h3⟩ | h2⟩
      · exact ⟨h1, Or.inl ⟨Or.inl h2, h3⟩⟩
      · exact ⟨h1, Or.inr h2⟩
  have hpassS : ∀ c ∈ usg, lookupLast ops c = none → c ∈ S := by
    intro c hc hl
    have hnk : c ∉ ops.map (·.1) := lookupLast_eq_none_iff.mp hl
    refine (hmemS c).mpr ⟨?_, Or.inl ⟨hc, ?_⟩⟩
    · rcases (hncols c).mp (husgn c hc) with h | h
      · exact h
      · exact absurd h hnk
    · intro hk
      obtain ⟨kv, hkv, e⟩ := List.mem_map.mp hk
      exact hnk (List.mem_map.mpr ⟨kv, (List.mem_filter.mp hkv).1, e⟩)
  have hlook : ∀ win, ∀ c ∈ usg, lookupLast (extTerms ops usg win) c =
      match lookupLast ops c with
      | some t => some (STerm.expr t win)
      | none => some STerm.pass := by
    intro win c hc; exact look_extend_terms ops usg win hc
  have hkeysT : ∀ win c, c ∈ (extTerms ops usg win).map (·.1) ↔ c ∈ usg := by
    intro win c
    rw [← lookupLast_isSome_iff]
    constructor
    · intro h
      rw [lookupLast_isSome_iff] at h
      simp only [extTerms, extOrig, extSubops, List.map_append, List.map_map, List.mem_append, List.mem_map,
        Function.comp_def, List.mem_filter] at h
      rcases h with ⟨k, ⟨hk, _⟩, rfl⟩ | ⟨kv, ⟨_, hkv⟩, rfl⟩
      · exact hk
      · simpa using hkv
    · intro hc
      rw [hlook win c hc]
      cases lookupLast ops c <;> rfl
  refine ⟨husgn, fun c hc => ((hmemS c).mp hc).1, hpassS, ?_, ?_, ?_, hlook, hkeysT, ?_⟩
  · intro c hc t hl x hx
    have hkv : (c, t) ∈ ops := lookupLast_mem hl
    refine (hmemS x).mpr ⟨hused x (List.mem_flatMap.mpr ⟨(c, t), hkv, hx⟩), Or.inr ?_⟩
    exact mem_colsUsedOps.mpr ⟨(c, t), List.mem_filter.mpr ⟨hkv, by simpa using hc⟩, hx⟩
  · intro c hc
    have hk : c ∉ ops.map (·.1) := fun hk => (hkeys c hk).1 hc
    exact hpassS c ((hmem c).mpr (Or.inr (Or.inl hc))) (lookupLast_eq_none_iff.mpr hk)
  · intro c hc
    have hk : c ∉ ops.map (·.1) := fun hk => (hkeys c hk).2 hc
    exact hpassS c ((hmem c).mpr (Or.inr (Or.inr (Or.inl hc)))) (lookupLast_eq_none_iff.mpr hk)
  · intro win e
    obtain ⟨kv, hkv⟩ := List.exists_mem_of_ne_nil _ (by simpa using hnonempty :
      ops.filter (fun kv => usg.contains kv.1) ≠ [])
    have : kv.1 ∈ (extTerms ops usg win).map (·.1) := by
      simp only [extTerms, extSubops, List.map_append, List.map_map, List.mem_append, List.mem_map, Function.comp_def]
      exact Or.inr ⟨kv, hkv, rfl⟩
    rw [e] at this
    cases this

/-- **The dictionaries of an emitted extend step satisfy the invariant of mergeable steps**: every kept assignment
is an expression (windowed if the node is), its declared dependencies are its columns and the window's partition
and order columns, all of which are requested from the source; every other requested column is passed through
and requested from the source. -/
theorem extend_termsOK {src : Ops} {ops : Assign} {part order rev : List String} {w : Bool} {usg S : List String}
    (hF : ExtFacts src ops part order rev w usg S) :
    TermsOK S (extTerms ops usg (extWin part order rev w)) (extDeps ops usg (extWindowVars part order w)) := by
  have hkey : ∀ k t, lookupLast (extTerms ops usg (extWin part order rev w)) k = some t → k ∈ usg := by
    intro k t hl
    apply (hF.keysT (extWin part order rev w) k).mp
    rw [← lookupLast_isSome_iff, hl]; rfl
  have hreadsS : ∀ e, (∀ x ∈ Term.colsRaw e, x ∈ S) →
      ∀ x ∈ termReads "" (STerm.expr e (extWin part order rev w)), x ∈ S := by
    intro e he x hx
    unfold extWin at hx
    split at hx
    · simp only [termReads, List.mem_append] at hx
      rcases hx with h | h | h
      · exact he x h
      · exact hF.partS x h
      · exact hF.orderS x h
    · exact he x hx
  have hreadsK : ∀ k k' t, termReads k (STerm.expr t (extWin part order rev w)) =
      termReads k' (STerm.expr t (extWin part order rev w)) := by
    intro k k' t; cases extWin part order rev w <;> rfl
  refine ⟨?_, ?_⟩
  · intro k t hl hp
    have hk := hkey k t hl
    rw [hF.look _ k hk] at hl
    cases hlo : lookupLast ops k with
    | none => rw [hlo] at hl; cases hl; cases hp
    | some e =>
      rw [hlo] at hl
      cases hl
      refine ⟨⟨e, _, rfl⟩, unionL (Term.colsUsed e) (extWindowVars part order w), ?_, ?_⟩
      · rw [look_extend_deps ops usg _ hk, hlo]
      · intro x hx
        unfold extWin at hx
        unfold extWindowVars
        split at hx
        · rename_i hw
          rw [if_pos hw]
          simp only [termReads, List.mem_append] at hx
          rw [mem_unionL, mem_unionL]
          rcases hx with h | h | h
          · left; simpa [Term.colsUsed] using h
          · right; left; exact h
          · right; right; exact h
        · rw [mem_unionL]
          left
          simpa [Term.colsUsed, termReads] using hx
  · intro k t hl x hx
    have hk := hkey k t hl
    rw [hF.look _ k hk] at hl
    cases hlo : lookupLast ops k with
    | none =>
      rw [hlo] at hl
      cases hl
      simp only [termReads, List.mem_singleton] at hx
      subst hx
      exact hF.passS x hk hlo
    | some e =>
      rw [hlo] at hl
      cases hl
      rw [hreadsK k "" e] at hx
      exact hreadsS e (hF.exprS k hk e hlo) x hx

/-! ### the emitted step is sound -/

/-- the table an extend node denotes over the source table `ts` (engine's ordering in windows) -/
def extRef (Θ : Interp) (ec : EngineCfg) (src : Ops) (ops : Assign) (part order rev : List String) (w : Bool)
    (ts : Table) : Table :=
  if w then semExtendWindowG (sqlRowLe ec) Θ ops part order rev ts (Ops.extend src ops part order rev w).cols
  else semExtendPlain Θ ops ts (Ops.extend src ops part order rev w).cols

theorem semE_extend_inv {src : Ops} {ops : Assign} {part order rev : List String} {w : Bool} {tp : Table}
    (hsem : semE ec Θ scfg env (.extend src ops part order rev w) = .ok tp) :
    ∃ ts, semE ec Θ scfg env src = .ok ts ∧ tp = extRef Θ ec src ops part order rev w ts := by
  simp only [semG] at hsem
  obtain ⟨ts, hts, htp⟩ := bind_ok_inv hsem
  refine ⟨ts, hts, ?_⟩
  unfold extRef
  cases w
  · simp only [Bool.false_eq_true, ↓reduceIte, pure, Except.pure, Except.ok.injEq] at htp ⊢
    exact htp.symm
  · simp only [↓reduceIte, pure, Except.pure, Except.ok.injEq] at htp ⊢
    exact htp.symm

/-- the reference rows on columns that are not assigned are the source rows -/
theorem extRef_passrows (Θ : Interp) (ec : EngineCfg) (src : Ops) (ops : Assign) (part order rev : List String)
    (w : Bool) (ts : Table) {u' : List String}
    (hu' : ∀ c ∈ u', c ∈ (Ops.extend src ops part order rev w).cols ∧ c ∉ ops.map (·.1)) :
    (extRef Θ ec src ops part order rev w ts).rows.map (fun r => r.select u') =
      ts.rows.map (fun r => r.select u') := by
  unfold extRef
  cases w
  · simp only [Bool.false_eq_true, ↓reduceIte, semExtendPlain]
    rw [List.map_map]
    apply List.map_congr_left
    intro r _
    exact select_setAll_select r _ (fun c hc => ⟨(hu' c hc).1, by
      simpa [List.map_map, Function.comp_def] using (hu' c hc).2⟩)
  · simp only [↓reduceIte, semExtendWindowG]
    rw [List.map_map, ← zipIdx_map_fun_fst ts.rows (fun r => r.select u') 0]
    apply List.map_congr_left
    intro ri _
    exact select_setAll_select ri.1 _ (fun c hc => ⟨(hu' c hc).1, by
      simpa [List.map_map, Function.comp_def] using (hu' c hc).2⟩)

/-- **The emitted `extend_i` step is sound**: over a sound translation `sub` of the source for (at least) the
columns `S`, the step `SELECT extTerms FROM sub` returns the rows of the extend node's table on every request
within `usg` (plain and windowed extends). -/
theorem extend_step_sound {src : Ops} {ops : Assign} {part order rev : List String} {w : Bool}
    {usg S S₁ : List String} {sub : Near} {ts : Table}
    (hext : ExtOK src.cols ops part order rev w) (hF : ExtFacts src ops part order rev w usg S)
    (hsound : Sound Θ ec env sub S₁ src.cols ts) (hS₁ : ∀ c ∈ S, c ∈ S₁) (i : Nat)
    (deps : List (String × List String)) :
    Sound Θ ec env (extFallback (.extend src ops part order rev w) i (extTerms ops usg (extWin part order rev w)) deps
      sub S) usg (Ops.extend src ops part order rev w).cols (extRef Θ ec src ops part order rev w ts) := by
  obtain ⟨_, _, _, _, _, hwf, _⟩ := hext
  obtain ⟨T0, g1, g2, g4⟩ := hsound.req S hS₁ false
  have husgn := hF.usgn
  have hpassS := hF.passS
  have hexprS := hF.exprS
  unfold extFallback
  generalize hwin : extWin part order rev w = win
  have hlook := hF.look win
  have hkeysT := hF.keysT win
  have htne := hF.tne win
  generalize extTerms ops usg win = terms at hlook hkeysT htne
  have hmk : mkTerms terms = some terms := by simp [mkTerms, htne]
  rw [hmk]
  refine ⟨?_, fun _ => ⟨terms.map (·.1), rfl, fun k hk => husgn k ((hkeysT k).mp hk),
    fun c hc => (hkeysT c).mpr hc⟩⟩
  intro u' hu' force
  refine ⟨_, semNear_unary_ok g1 (some u') force, subset_outCols_some (fc := T0.cols), ?_⟩
  simp only
  rw [stepRows_select _ _ _ _ _ (subset_outCols_some (fc := T0.cols))]
  unfold extRef
  cases w
  · -- plain extend
    have hp : part = [] := (hwf rfl).2.1
    have ho : order = [] := (hwf rfl).2.2
    subst hp ho
    have hw : win = none := by rw [← hwin]; rfl
    subst hw
    simp only [Bool.false_eq_true, ↓reduceIte]
    rw [stepRows_rowwise]
    · simp only [limitOf, suffixRows, semExtendPlain]
      rw [List.map_map]
      apply map_transport g4
      intro a _ b _ hab
      simp only [Function.comp]
      rw [← select_mkRow (out := u') _ (fun c hc => hc)]
      · apply Row.select_congr.mpr
        intro c hc
        have hcu := hu' c hc
        rw [get_mkRow, if_pos hc, Row.get_select_mem (husgn c hcu), Row.get_setAll,
          lookupLast_map_val ops (fun t => evalCell Θ b t)]
        simp only [lookT, hlook c hcu]
        cases hl : lookupLast ops c with
        | none => exact Row.get_of_select_eq hab (hpassS c hcu hl)
        | some t =>
          simp only [rowVal, Option.map_some, Option.getD_some]
          exact evalCell_congr Θ t (fun x hx => Row.get_of_select_eq hab (hexprS c hcu t hl x hx))
    · intro c hc
      simp only [lookT, hlook c (hu' c hc)]
      cases lookupLast ops c <;> rfl
  · -- windowed extend
    have hw : win = some ⟨part, order, rev⟩ := by rw [← hwin]; rfl
    subst hw
    simp only [↓reduceIte]
    unfold stepRows
    simp only [Bool.false_eq_true, ↓reduceIte, limitOf, suffixRows, semExtendWindowG]
    rw [List.map_map]
    have hidx : T0.rows.zipIdx.map (projIdx S) = ts.rows.zipIdx.map (projIdx S) := by
      rw [zipIdx_projIdx, zipIdx_projIdx, g4]
    apply map_transport hidx
    intro ri _ ri' _ hab
    simp only [Function.comp]
    have hab1 : ri.1.select S = ri'.1.select S := congrArg Prod.fst hab
    rw [← select_mkRow (out := u') _ (fun c hc => hc)]
    apply Row.select_congr.mpr
    intro c hc
    have hcu := hu' c hc
    rw [get_mkRow, if_pos hc, Row.get_select_mem (husgn c hcu), Row.get_setAll,
      lookupLast_map_val ops (fun t => winCell (sqlRowLe ec) Θ part order rev ts.rows.zipIdx ri' t)]
    simp only [lookT, hlook c hcu]
    cases hl : lookupLast ops c with
    | none => exact Row.get_of_select_eq hab1 (hpassS c hcu hl)
    | some t =>
      simp only [Option.map_some, Option.getD_some]
      rw [termVal_win]
      exact winCell_transport (cmpCongr_sqlRowLe ec) Θ part order rev g4 hF.partS hF.orderS t
        (fun x hx => hexprS c hcu t hl x (argCols_subset_colsRaw t x hx)) hab

end Sql
end DAVerif
